(** C12 — "Optimisation never changes observable behaviour": the property theorems.

    Model: coq/Optimize/Model.v (HIROptimizer::eliminate_unused_def, SideEffectChecker::is_impure, a trace semantics
    for the mini language); definitions of the statements: coq/Optimize/Spec.v.
    The reference counts ([refs], what ModuleIndex::get_refs answers) are an input: what they are trusted for is the
    decidable hypothesis [oracle_sound] (nothing that is left mentions an identifier bound by a removed definition),
    which the check evaluates on every dumped program.

    Full statement of the property for the model: for every program, every level 0..3 and every run of the
    unoptimised program that ends (normally or with an uncaught exception), the optimised program prints the same and
    ends the same way.  It is proved outside the class [Known_C12] ("a removed initialiser is effect free but may
    raise": a call of a function other than the total builtins, a division, an import), refuted inside it
    ([*_known_refuted], the known finding) and refuted for the code as it was before the two repairs ([*_nofix_refuted]).
    [opt_preserves_total]: behaviour is a partial function of the program (more fuel never changes an observable
    result), and whenever the unoptimised program has an observable behaviour the optimised one has exactly that one.
    Not covered: a source program that has no observable behaviour (diverges, or leaves the interpreted fragment) —
    nothing is claimed about its optimised version; reference-count correctness (C30's concern). *)
From Coq Require Import ZArith List Bool Arith.
From ErgV Require Import gen.OptLevels Optimize.Model Optimize.Spec Optimize.ProofsPure Optimize.Proofs Optimize.ProofsWitness
                          Optimize.ProofsTotal.
Import ListNotations.
Open Scope Z_scope.

(** What [is_impure] judges pure is silent: no output, no exception, no binding changed other than its own. *)
Theorem purity_sound : forall e, is_impure e = TFalse -> Known_C12 e = false -> silent e.
Proof. exact purity_sound_lemma. Qed.

Example purity_sound_nonvacuous :
  let e := nth 1 ex_prog (EOther 0) in
  is_impure e = TFalse /\ Known_C12 e = false /\ binds e = [ex_x; ex_a] /\
  fst (behaviour 9 [e]) = [] /\ snd (behaviour 9 [e]) = Normal.
Proof. exact ex_purity_nonvacuous. Qed.

(** the code before the repairs: `x = print! "hello"` was judged pure (the result type of the call was tested) *)
Theorem purity_sound_nofix_refuted : exists e, is_impure_nofix e = TFalse /\ Known_C12 e = false /\ ~ silent e.
Proof. exact purity_sound_nofix_refuted_lemma. Qed.

(** the code before the repairs: `x = {a = print! "hello"}` was judged pure (record fields were not visited) *)
Theorem purity_sound_nofix_subexpr_refuted : exists e, is_impure_nofix e = TFalse /\ Known_C12 e = false /\ ~ silent e.
Proof. exact purity_sound_nofix_subexpr_refuted_lemma. Qed.

(** the known finding: `y = 1 // 0` is judged pure and raises *)
Theorem purity_sound_known_refuted : exists e, is_impure e = TFalse /\ Known_C12 e = true /\ ~ silent e.
Proof. exact purity_sound_known_refuted_lemma. Qed.

(** Removing silent unused definitions preserves the behaviour of every ending run (statement lists, blocks passed
    as arguments, compound blocks, at every depth). *)
Theorem opt_preserves : forall refs p p',
  eliminate refs p = Ok p' ->
  (forall e, In e (removed_defs refs p) -> silent e) ->
  oracle_sound refs p p' ->
  forall fuel b, behaviour fuel p = b -> observable b -> behaviour fuel p' = b.
Proof. exact opt_preserves_lemma. Qed.

(** ... and with [purity_sound]: outside the known class no hypothesis about the removed definitions is needed *)
Theorem opt_preserves_known : forall refs p p',
  eliminate refs p = Ok p' ->
  oracle_sound refs p p' ->
  (forall e, In e (removed_defs refs p) -> Known_C12 e = false) ->
  forall fuel b, behaviour fuel p = b -> observable b -> behaviour fuel p' = b.
Proof. exact opt_preserves_known_lemma. Qed.

Example opt_preserves_nonvacuous :
  exists p', eliminate ex_refs ex_prog = Ok p' /\
    map (fun e => match e with EDef s _ => d_id s | _ => 0 end) (removed_defs ex_refs ex_prog) = [ex_x; ex_u] /\
    oracle_sound ex_refs ex_prog p' /\
    (forall e, In e (removed_defs ex_refs ex_prog) -> Known_C12 e = false) /\
    behaviour 9 ex_prog = ([[VList false [VInt 1; VInt 2; VInt 3]]], Normal) /\
    behaviour 9 p' = behaviour 9 ex_prog /\ p' <> ex_prog.
Proof. exact ex_opt_nonvacuous. Qed.

(** the code before the repairs dropped the output of `x = print! "hello"` *)
Theorem opt_preserves_nofix_refuted :
  exists refs p p' fuel,
    eliminate_nofix refs p = Ok p' /\
    mentions_all (inb (binds_all (removed_all is_impure_nofix refs p))) p' = false /\
    (forall e, In e (removed_all is_impure_nofix refs p) -> Known_C12 e = false) /\
    observable (behaviour fuel p) /\ behaviour fuel p' <> behaviour fuel p.
Proof. exact opt_preserves_nofix_refuted_lemma. Qed.

(** the known finding: `n = 0; y = 1 // n; print! "end"` ends with ZeroDivisionError, its optimised version normally *)
Theorem opt_preserves_known_refuted :
  exists refs p p' fuel,
    eliminate refs p = Ok p' /\ oracle_sound refs p p' /\
    (exists e, In e (removed_defs refs p) /\ Known_C12 e = true) /\
    observable (behaviour fuel p) /\ behaviour fuel p' <> behaviour fuel p.
Proof. exact opt_preserves_known_refuted_lemma. Qed.

(** Levels 1, 2 and 3 run the same passes; level 0 runs none (table generated from optimize.rs on every run). *)
Theorem levels_same_pass : forall n, In n [1; 2; 3] -> passes_of opt_level_passes n = Some [1; 2].
Proof. exact levels_same_pass_lemma. Qed.

Theorem level0_no_pass : passes_of opt_level_passes 0 = Some [].
Proof. exact level0_no_pass_lemma. Qed.

(** the match arms of is_impure / eliminate_unused_def in the source are the ones modelled *)
Theorem arms_as_modelled : is_impure_arms = modelled_is_impure_arms /\ elim_arms = modelled_elim_arms.
Proof. exact arms_as_modelled_lemma. Qed.

(** The property: every level 0..3 preserves the behaviour of every ending run. *)
Theorem all_levels_preserve : forall refs level p p',
  In level [0; 1; 2; 3] ->
  optimize refs level p = Ok p' ->
  oracle_sound refs p (match eliminate refs p with Ok q => q | Panic _ => p end) ->
  (forall e, In e (removed_defs refs p) -> Known_C12 e = false) ->
  forall fuel b, behaviour fuel p = b -> observable b -> behaviour fuel p' = b.
Proof. exact all_levels_preserve_lemma. Qed.

(** Behaviour as a partial function: if the unoptimised program has an observable behaviour with fuel [n], the
    optimised program has the same behaviour with every fuel >= n, and no other observable behaviour with any fuel. *)
Theorem opt_preserves_total : forall refs level p p',
  In level [0; 1; 2; 3] ->
  optimize refs level p = Ok p' ->
  oracle_sound refs p (match eliminate refs p with Ok q => q | Panic _ => p end) ->
  (forall e, In e (removed_defs refs p) -> Known_C12 e = false) ->
  forall n, observable (behaviour n p) ->
    (forall m, (n <= m)%nat -> behaviour m p' = behaviour n p) /\
    (forall m, observable (behaviour m p') -> behaviour m p' = behaviour n p).
Proof. exact opt_preserves_total_lemma. Qed.

Example all_levels_nonvacuous :
  forall level, In level [1; 2; 3] ->
  exists p', optimize ex_refs level ex_prog = Ok p' /\ p' <> ex_prog /\ behaviour 9 p' = behaviour 9 ex_prog.
Proof.
  intros level [<-|[<-|[<-|[]]]]; eexists; (split; [vm_compute; reflexivity|split; [vm_compute; discriminate|vm_compute; reflexivity]]).
Qed.

(** The optimiser does not panic when every definition is registered in the index and no comprehension node occurs. *)
Theorem optimize_no_panic : forall refs level p,
  (forall d, refs d <> None) -> In level [0; 1; 2; 3] -> no_todo_all p = true ->
  exists p', optimize refs level p = Ok p'.
Proof. intros refs level p H. exact (optimize_no_panic_lemma refs H level p). Qed.
