(** C12 — purity_sound: what [is_impure] accepts and the known class does not contain is silent. *)
From Coq Require Import ZArith List Bool Arith Lia.
From ErgV Require Import Optimize.Model Optimize.Spec Optimize.ProofsBase.
Import ListNotations.
Open Scope Z_scope.

Definition good (e : expr) : Prop := is_impure e = TFalse /\ risky e = false.

Lemma good_all : forall l, impure_all l = TFalse -> risky_all l = false -> Forall good l.
Proof.
  intros l H1 H2. apply impure_all_false in H1. apply risky_all_false in H2.
  induction l; constructor; inversion H1; inversion H2; subst; [split|]; auto.
Qed.

Lemma inb_incl : forall a b i, incl a b -> inb a i = true -> inb b i = true.
Proof.
  unfold inb. intros a b i Hincl H. apply existsb_exists in H. destruct H as [x [Hx Hxi]].
  apply existsb_exists. exists x. split; auto.
Qed.

Lemma agree_incl : forall a b x y, incl a b -> agree (inb a) x y -> agree (inb b) x y.
Proof. intros a b x y Hincl H. eapply agree_mono; [|exact H]. intros i Hi. eapply inb_incl; eauto. Qed.

Lemma agree_step : forall a b c x y z,
  incl a c -> incl b c -> agree (inb a) x y -> agree (inb b) y z -> agree (inb c) x z.
Proof.
  intros a b c x y z Ha Hb H1 H2.
  apply agree_trans with y; [apply agree_incl with a | apply agree_incl with b]; assumption.
Qed.

Lemma noexc_val : forall v, noexc (RVal v). Proof. intros v c H; discriminate. Qed.
Lemma noexc_stuck : noexc RStuck. Proof. intros c H; discriminate. Qed.
Lemma noexc_fuel : noexc RFuel. Proof. intros c H; discriminate. Qed.
#[export] Hint Resolve noexc_val noexc_stuck noexc_fuel agree_refl : c12.

Ltac incl_solve := repeat (apply incl_refl || apply incl_nil_l || (apply incl_appl; incl_solve; fail) || (apply incl_appr; incl_solve; fail)
                           || (apply incl_tl; incl_solve; fail) || (apply incl_app; incl_solve)); auto with datatypes.

Section Step.
  Variable ev : state -> expr -> state * result.
  Hypothesis Hev : forall e st st' r, good e -> ev st e = (st', r) -> agree (inb (binds e)) st st' /\ noexc r.

  Lemma evals_good : forall es st st' lr,
    Forall good es -> evals ev st es = (st', lr) ->
    agree (inb (binds_all es)) st st' /\ (forall o, lr = LStop o -> noexc o).
  Proof.
    induction es as [|e r IH]; intros st st' lr HF H; simpl in H.
    - inversion H; subst. split; [apply agree_refl | intros; discriminate].
    - inversion HF as [|? ? Hg HFr]; subst.
      destruct (ev st e) as [st1 r1] eqn:E1. destruct (Hev _ _ _ _ Hg E1) as [A1 N1].
      destruct r1 as [v| | |].
      + destruct (evals ev st1 r) as [st2 lr2] eqn:E2. destruct (IH _ _ _ HFr E2) as [A2 N2].
        assert (A : agree (inb (binds_all (e :: r))) st st2).
        { simpl. eapply agree_step; [| |exact A1|exact A2]; incl_solve. }
        destruct lr2; inversion H; subst; split; auto; intros; try discriminate; try (apply N2; auto).
      + inversion H; subst. split.
        * simpl. eapply agree_incl; [|exact A1]. incl_solve.
        * intros o Ho. inversion Ho; subst. exact N1.
      + inversion H; subst. split.
        * simpl. eapply agree_incl; [|exact A1]. incl_solve.
        * intros o Ho. inversion Ho; subst. exact N1.
      + inversion H; subst. split.
        * simpl. eapply agree_incl; [|exact A1]. incl_solve.
        * intros o Ho. inversion Ho; subst. exact N1.
  Qed.

  Lemma eval_block_good : forall b st cur st' r,
    Forall good b -> eval_block ev st cur b = (st', r) -> agree (inb (binds_all b)) st st' /\ noexc r.
  Proof.
    induction b as [|e r0 IH]; intros st cur st' r HF H; simpl in H.
    - inversion H; subst. split; auto with c12.
    - inversion HF as [|? ? Hg HFr]; subst.
      destruct (ev st e) as [st1 r1] eqn:E1. destruct (Hev _ _ _ _ Hg E1) as [A1 N1].
      destruct r1 as [v| | |].
      + destruct (IH _ _ _ _ HFr H) as [A2 N2]. split; auto.
        simpl. eapply agree_step; [| |exact A1|exact A2]; incl_solve.
      + inversion H; subst. split; auto. simpl. eapply agree_incl; [|exact A1]. incl_solve.
      + inversion H; subst. split; auto. simpl. eapply agree_incl; [|exact A1]. incl_solve.
      + inversion H; subst. split; auto. simpl. eapply agree_incl; [|exact A1]. incl_solve.
  Qed.

  Lemma eval_opaque_good : forall es st st' r,
    Forall good es -> eval_opaque ev st es = (st', r) -> agree (inb (binds_all es)) st st' /\ noexc r.
  Proof.
    intros es st st' r HF H. unfold eval_opaque in H.
    destruct (evals ev st es) as [st1 lr] eqn:E. destruct (evals_good _ _ _ _ HF E) as [A N].
    destruct lr; inversion H; subst; split; auto with c12.
  Qed.
End Step.

Lemma as_thunk_some : forall e b, as_thunk e = Some b -> exists bang s, e = ELambda bang s [] b.
Proof. intros e b H. destruct e; try discriminate. simpl in H. destruct ps; try discriminate. inversion H; subst. eauto. Qed.

Lemma apply_builtin_total : forall b st vs st' r,
  total_builtin b = true -> b <> 9 -> apply_builtin b st vs = (st', r) -> st' = st /\ noexc r.
Proof.
  intros b st vs st' r Ht Hb H. unfold total_builtin in Ht.
  repeat rewrite orb_true_iff in Ht. repeat rewrite Z.eqb_eq in Ht.
  destruct Ht as [[[[Ht|Ht]|Ht]|Ht]|Ht]; subst; try congruence; unfold apply_builtin in H; simpl in H.
  - destruct vs as [|[] [|]]; inversion H; subst; split; auto with c12.
  - destruct vs as [|[] [|]]; inversion H; subst; split; auto with c12.
  - destruct vs as [|? [|]]; inversion H; subst; split; auto with c12.
  - destruct vs as [|[] [|]]; inversion H; subst; split; auto with c12.
Qed.

Section Step2.
  Variable ev : state -> expr -> state * result.
  Hypothesis Hev : forall e st st' r, good e -> ev st e = (st', r) -> agree (inb (binds e)) st st' /\ noexc r.

  Lemma good_lambda_body : forall bang s ps body, good (ELambda bang s ps body) -> Forall good body.
  Proof.
    intros bang s ps body [H1 H2]. rewrite is_impure_lambda in H1. rewrite risky_lambda in H2.
    apply tor_false in H1. destruct H1. apply good_all; auto.
  Qed.

  Lemma eval_cond_good : forall st c b1 b2 st' r,
    good c -> Forall good b1 -> (forall b, b2 = Some b -> Forall good b) ->
    eval_cond ev st c b1 b2 = (st', r) ->
    agree (inb (binds c ++ binds_all b1 ++ match b2 with Some b => binds_all b | None => [] end)) st st' /\ noexc r.
  Proof.
    intros st c b1 b2 st' r Hc Hb1 Hb2 H. unfold eval_cond in H.
    destruct (ev st c) as [st1 r1] eqn:E1. destruct (Hev _ _ _ _ Hc E1) as [A1 N1].
    destruct r1 as [v| | |].
    - destruct v as [| |[]| | |]; try (inversion H; subst; split; auto with c12; eapply agree_incl; [|exact A1]; incl_solve).
      + destruct (eval_block_good ev Hev _ _ _ _ _ Hb1 H) as [A2 N2]. split; auto.
        eapply agree_step; [| |exact A1|exact A2]; incl_solve.
      + destruct b2 as [b|].
        * destruct (eval_block_good ev Hev _ _ _ _ _ (Hb2 _ eq_refl) H) as [A2 N2]. split; auto.
          eapply agree_step; [| |exact A1|exact A2]; incl_solve.
        * inversion H; subst. split; auto with c12. eapply agree_incl; [|exact A1]. incl_solve.
    - inversion H; subst. split; auto. eapply agree_incl; [|exact A1]. incl_solve.
    - inversion H; subst. split; auto. eapply agree_incl; [|exact A1]. incl_solve.
    - inversion H; subst. split; auto. eapply agree_incl; [|exact A1]. incl_solve.
  Qed.

  Lemma eval_if_good : forall st pos st' r,
    Forall good pos -> eval_if ev st pos = (st', r) -> agree (inb (binds_all pos)) st st' /\ noexc r.
  Proof.
    intros st pos st' r HF H. unfold eval_if in H.
    destruct pos as [|c [|t1 [|t2 [|]]]]; try (inversion H; subst; split; auto with c12; fail).
    - inversion HF as [|? ? Hc HF1]; subst. inversion HF1 as [|? ? Ht1 _]; subst.
      destruct (as_thunk t1) as [b1|] eqn:T1; [|inversion H; subst; split; auto with c12].
      apply as_thunk_some in T1. destruct T1 as [bang [s ->]].
      destruct (eval_cond_good _ _ _ None _ _ Hc (good_lambda_body _ _ _ _ Ht1) ltac:(intros; discriminate) H) as [A N].
      split; [|exact N]. simpl. rewrite ?app_nil_r in *. eapply agree_incl; [|exact A]. incl_solve.
    - inversion HF as [|? ? Hc HF1]; subst. inversion HF1 as [|? ? Ht1 HF2]; subst. inversion HF2 as [|? ? Ht2 _]; subst.
      destruct (as_thunk t1) as [b1|] eqn:T1; [|inversion H; subst; split; auto with c12].
      destruct (as_thunk t2) as [b2|] eqn:T2; [|inversion H; subst; split; auto with c12].
      apply as_thunk_some in T1. destruct T1 as [bang1 [s1 ->]].
      apply as_thunk_some in T2. destruct T2 as [bang2 [s2 ->]].
      assert (Hb2 : forall b, Some b2 = Some b -> Forall good b).
      { intros b Hb. inversion Hb; subst. eapply good_lambda_body; eauto. }
      destruct (eval_cond_good _ _ _ (Some b2) _ _ Hc (good_lambda_body _ _ _ _ Ht1) Hb2 H) as [A N].
      split; [|exact N]. simpl. rewrite ?app_nil_r in *. eapply agree_incl; [|exact A]. incl_solve.
  Qed.

  Lemma eval_call_good : forall st ci obj pos var kw kwvar st' r,
    good (ECall ci obj pos var kw kwvar) -> eval_call ev st ci obj pos var kw kwvar = (st', r) ->
    agree (inb (binds (ECall ci obj pos var kw kwvar))) st st' /\ noexc r.
  Proof.
    intros st ci obj pos var kw kwvar st' r [H1 H2] H.
    rewrite is_impure_call in H1. rewrite risky_call in H2.
    repeat (apply tor_false in H1; let X := fresh "I" in destruct H1 as [X H1]).
    repeat (apply orb_false_iff in H2; let X := fresh "K" in destruct H2 as [H2 X]).
    apply tb_false in I, I0.
    assert (Hcp : callee_procedural ci = false) by (unfold callee_procedural; rewrite I, I0; reflexivity).
    rewrite Hcp in H2. simpl in H2. apply negb_false_iff in H2.
    unfold total_builtin_call in H2. destruct obj; try discriminate.
    repeat (apply andb_true_iff in H2; let X := fresh "T" in destruct H2 as [H2 X]).
    apply negb_true_iff in T. apply Z.eqb_eq in H2. subst d.
    unfold eval_call in H. rewrite T in H. simpl in H.
    destruct (no_extra var kw kwvar); [|inversion H; subst; split; auto with c12].
    assert (HFpos : Forall good pos) by (apply good_all; auto).
    unfold eval_builtin in H.
    destruct ((b =? 7) || (b =? 9)) eqn:E79.
    - destruct (eval_if_good _ _ _ _ HFpos H) as [A N]. split; auto.
      rewrite binds_call. eapply agree_incl; [|exact A]. incl_solve.
    - apply orb_false_iff in E79. destruct E79 as [E7 E9]. apply Z.eqb_neq in E9.
      destruct (b =? 8) eqn:E8.
      { apply Z.eqb_eq in E8. subst b. discriminate. }
      destruct (evals ev st pos) as [st1 lr] eqn:E. destruct (evals_good ev Hev _ _ _ _ HFpos E) as [A N].
      destruct lr as [vs|o].
      + destruct (apply_builtin_total _ _ _ _ _ T0 E9 H) as [-> N2]. split; auto.
        rewrite binds_call. eapply agree_incl; [|exact A]. incl_solve.
      + inversion H; subst. split; auto.
        rewrite binds_call. eapply agree_incl; [|exact A]. incl_solve.
  Qed.

  Lemma binop_noexc : forall op a b, (op =? 4) = false -> (op =? 5) = false -> (op =? 6) = false -> noexc (binop op a b).
  Proof.
    intros op a b H4 H5 H6 c H. unfold binop in H.
    destruct a as [x|x|x| |[] x|]; destruct b as [y|y|y| |[] y|]; try discriminate;
      rewrite ?H4, ?H5, ?H6 in H;
      repeat match type of H with context [if ?c then _ else _] => destruct c end; discriminate.
  Qed.

  Lemma unop_noexc : forall op a, noexc (unop op a).
  Proof.
    intros op a c H. unfold unop in H.
    destruct (op =? 1); [discriminate|]. destruct a; try discriminate.
    repeat match type of H with context [if ?c then _ else _] => destruct c end; discriminate.
  Qed.

  Lemma eval_def_good : forall st s body st' r,
    good (EDef s body) -> eval_def ev st s body = (st', r) ->
    agree (inb (binds (EDef s body))) st st' /\ noexc r.
  Proof.
    intros st s body st' r [H1 H2] H. rewrite is_impure_def in H1. rewrite risky_def in H2.
    apply tor_false in H1. destruct H1 as [_ H1].
    unfold eval_def in H. rewrite binds_def.
    destruct (d_glob s); [inversion H; subst; split; auto with c12|].
    destruct (d_subr s).
    { inversion H; subst. split; auto with c12. apply agree_bind_fun. apply inb_self. }
    destruct (def_lambda body).
    { inversion H; subst. split; auto with c12. apply agree_bind_fun. apply inb_self. }
    destruct (eval_block ev st VNone body) as [st1 r1] eqn:E.
    destruct (eval_block_good ev Hev _ _ _ _ _ (good_all _ H1 H2) E) as [A N].
    destruct r1; inversion H; subst; split; auto with c12;
      try (eapply agree_incl; [|exact A]; apply incl_tl; incl_solve).
    eapply agree_trans.
    - eapply agree_incl; [|exact A]. apply incl_tl; incl_solve.
    - apply agree_bind_var. apply inb_self.
  Qed.

  Lemma eval_step_good : forall e st st' r,
    good e -> eval_step ev st e = (st', r) -> agree (inb (binds e)) st st' /\ noexc r.
  Proof.
    intros e st st' r Hg H. destruct e; simpl in H.
    - (* ELit *) inversion H; subst. split; auto with c12. destruct l; simpl; auto with c12.
    - (* EVar *) destruct (d =? 0); [inversion H; subst; split; auto with c12|].
      destruct (lookup (venv st) d); inversion H; subst; split; auto with c12.
    - (* EAttr *) destruct Hg as [H1 H2]. simpl in H1, H2.
      destruct (ev st e) as [st1 r1] eqn:E. destruct (Hev _ _ _ _ (conj H1 H2) E) as [A N].
      destruct r1; inversion H; subst; split; auto with c12.
    - (* ECall *) eapply eval_call_good; eauto.
    - (* EBin *) destruct Hg as [H1 H2]. simpl in H1, H2. apply tor_false in H1. destruct H1 as [I1 I2].
      repeat (apply orb_false_iff in H2; let X := fresh "K" in destruct H2 as [H2 X]).
      destruct (ev st e1) as [st1 r1] eqn:E1. destruct (Hev _ _ _ _ (conj I1 K0) E1) as [A1 N1].
      destruct r1; try (inversion H; subst; split; auto; simpl; eapply agree_incl; [|exact A1]; incl_solve).
      destruct (ev st1 e2) as [st2 r2] eqn:E2. destruct (Hev _ _ _ _ (conj I2 K) E2) as [A2 N2].
      assert (A : agree (inb (binds (EBin op e1 e2))) st st2).
      { simpl. eapply agree_step; [| |exact A1|exact A2]; incl_solve. }
      destruct r2; inversion H; subst; split; auto. apply binop_noexc; auto.
    - (* EUn *) destruct Hg as [H1 H2]. simpl in H1, H2.
      destruct (ev st e) as [st1 r1] eqn:E. destruct (Hev _ _ _ _ (conj H1 H2) E) as [A N].
      destruct r1; inversion H; subst; split; auto. apply unop_noexc.
    - (* EList *) destruct Hg as [H1 H2]. rewrite is_impure_list in H1. rewrite risky_list in H2.
      destruct (evals ev st es) as [st1 lr] eqn:E. destruct (evals_good ev Hev _ _ _ _ (good_all _ H1 H2) E) as [A N].
      destruct lr; inversion H; subst; split; auto with c12.
    - (* EListLen *) destruct Hg as [H1 H2]. rewrite is_impure_listlen in H1. rewrite risky_listlen in H2.
      apply tor_false in H1. destruct H1 as [I1 I2]. apply orb_false_iff in H2. destruct H2 as [K1 K2].
      eapply (eval_opaque_good ev Hev (e :: len)); eauto. constructor; [split; auto|apply good_all; auto].
    - (* EListOther *) inversion H; subst. split; auto with c12.
    - (* ETuple *) destruct Hg as [H1 H2]. rewrite is_impure_tuple in H1. rewrite risky_tuple in H2.
      destruct (evals ev st es) as [st1 lr] eqn:E. destruct (evals_good ev Hev _ _ _ _ (good_all _ H1 H2) E) as [A N].
      destruct lr; inversion H; subst; split; auto with c12.
    - (* ESet *) destruct Hg as [H1 H2]. rewrite is_impure_set in H1. rewrite risky_set in H2.
      eapply (eval_opaque_good ev Hev es); eauto. apply good_all; auto.
    - (* ESetLen *) destruct Hg as [H1 H2]. simpl in H1, H2.
      apply tor_false in H1. destruct H1 as [I1 I2]. apply orb_false_iff in H2. destruct H2 as [K1 K2].
      destruct (eval_opaque_good ev Hev [e1; e2] st st' r) as [A N]; auto.
      { constructor; [split; auto|constructor; [split; auto|constructor]]. }
      split; auto. simpl in *. rewrite app_nil_r in A. exact A.
    - (* EDict *) destruct Hg as [H1 H2]. rewrite is_impure_dict in H1. rewrite risky_dict in H2.
      eapply (eval_opaque_good ev Hev kvs); eauto. apply good_all; auto.
    - (* EDictOther *) inversion H; subst. split; auto with c12.
    - (* ERecord *) destruct Hg as [H1 H2]. rewrite is_impure_record in H1. rewrite risky_record in H2.
      eapply (eval_opaque_good ev Hev attrs); eauto. apply good_all; auto.
    - (* ELambda *) inversion H; subst. split; auto with c12.
    - (* EDef *) eapply eval_def_good; eauto.
    - (* ETypeAsc *) destruct Hg as [H1 H2]. simpl in H1, H2. simpl. apply (Hev e st st' r); [split; assumption|exact H].
    - (* ECode *) inversion H; subst. split; auto with c12.
    - (* ECompound *) destruct Hg as [H1 H2]. rewrite is_impure_compound in H1. rewrite risky_compound in H2.
      eapply (eval_block_good ev Hev b); eauto. apply good_all; auto.
    - (* EDummy *) inversion H; subst. split; auto with c12.
    - (* EOther *) inversion H; subst. split; auto with c12.
  Qed.
End Step2.

Lemma purity_sound_lemma : forall e, is_impure e = TFalse -> Known_C12 e = false -> silent e.
Proof.
  intros e H1 H2 fuel. revert e H1 H2.
  induction fuel as [|f IH]; intros e H1 H2 st st' r H.
  - simpl in H. inversion H; subst. split; auto with c12.
  - simpl in H. eapply eval_step_good; [|split; eassumption|exact H].
    intros e0 st0 st0' r0 [G1 G2] H0. eapply IH; eauto.
Qed.
