(** extraction entry point for the C12 correspondence check and judge.
    built before extraction (lib/vplib.py Model reads these names): ErgV.Common.Sx ErgV.gen.OptLevels ErgV.Optimize.Model ErgV.Optimize.Spec .
    Wire encoding of the mini language = the dump of harness/optimize (booleans 0/1, options lists of length <= 1):
      (0 kind val) Literal: kind 0 Int/Nat | 1 Str (code points) | 2 Bool | 3 None | 4 other
      (1 key builtin) Ident | (2 obj method) Attr | (3 obj_proc has_attr attr_proc ret_proc method obj pos var kw kwvar) Call
      (4 op l r) BinOp | (5 op e) UnaryOp | (6 es) List | (7 e len?) ListLen | (8) ListOther | (9 es) Tuple | (10 es) Set
      (11 e len) SetLen | (12 (k v k v ..)) Dict | (13) DictOther | (14 ((16 def) ..)) Record | (15 bang simple params body) Lambda
      (16 def) Def | (17) ClassDef | (18) PatchDef | (19 e) TypeAsc | (20) ReDef | (21 b) Code | (22 b) Compound | (23) Import
      (24 es) Dummy;   def = (key proc subr glob discarded public refs simple params body) *)
From Coq Require Import ZArith List Bool.
Require Import ErgV.Common.Sx ErgV.gen.OptLevels ErgV.Optimize.Model ErgV.Optimize.Spec .
Import ListNotations.
Open Scope Z_scope.

Definition zb (x : sx) : bool := negb (sx_z x =? 0).

Definition dec_lit (k v : sx) : lit :=
  let kz := sx_z k in
  if kz =? 0 then LInt (sx_z v) else if kz =? 1 then LStr (sx_zs v) else if kz =? 2 then LBool (zb v)
  else if kz =? 3 then LNone else LOther.

Fixpoint dec (x : sx) : expr :=
  let dlist := fun (y : sx) => match y with SL l => map dec l | SZ _ => [] end in
  match x with
  | SZ _ => EOther (-1)
  | SL (SZ tag :: args) =>
    match tag, args with
    | 0, [k; v] => ELit (dec_lit k v)
    | 1, [key; code] => EVar (sx_z key) (sx_z code)
    | 2, [obj; m] => EAttr (dec obj) (sx_z m)
    | 3, [op; ha; ap; rp; m; obj; pos; var; kw; kwvar] =>
      ECall (MkCI (zb op) (zb ha) (zb ap) (zb rp) (sx_z m)) (dec obj) (dlist pos) (dlist var) (dlist kw) (dlist kwvar)
    | 4, [op; l; r] => EBin (sx_z op) (dec l) (dec r)
    | 5, [op; e] => EUn (sx_z op) (dec e)
    | 6, [es] => EList (dlist es)
    | 7, [e; len] => EListLen (dec e) (dlist len)
    | 8, _ => EListOther
    | 9, [es] => ETuple (dlist es)
    | 10, [es] => ESet (dlist es)
    | 11, [e; len] => ESetLen (dec e) (dec len)
    | 12, [kvs] => EDict (dlist kvs)
    | 13, _ => EDictOther
    | 14, [ds] => ERecord (dlist ds)
    | 15, [bang; simple; ps; body] => ELambda (zb bang) (zb simple) (sx_zs ps) (dlist body)
    | 16, [SL [id; proc; subr; glob; disc; pub; _; simple; ps; body]] =>
      EDef (MkSig (sx_z id) (zb proc) (zb subr) (zb glob) (zb disc) (zb pub) (zb simple) (sx_zs ps)) (dlist body)
    | 17, _ => EOther 17
    | 18, _ => EOther 18
    | 19, [e] => ETypeAsc (dec e)
    | 20, _ => EOther 20
    | 21, [b] => ECode (dlist b)
    | 22, [b] => ECompound (dlist b)
    | 23, _ => EOther 23
    | 24, [b] => EDummy (dlist b)
    | _, _ => EOther (-1)
    end
  | SL _ => EOther (-1)
  end.

Definition enc_lit (l : lit) : sx :=
  match l with
  | LInt z => SL [SZ 0; SZ 0; SZ z]
  | LStr s => SL [SZ 0; SZ 1; sx_of_zs s]
  | LBool b => SL [SZ 0; SZ 2; sx_bool b]
  | LNone => SL [SZ 0; SZ 3; SZ 0]
  | LOther => SL [SZ 0; SZ 4; SZ 0]
  end.

(** the refs field of a definition is not part of the tree: encoded as 0 (the check blanks it in the dump too) *)
Fixpoint enc (e : expr) : sx :=
  let elist := fun (l : list expr) => SL (map enc l) in
  match e with
  | ELit l => enc_lit l
  | EVar d b => SL [SZ 1; SZ d; SZ b]
  | EAttr o n => SL [SZ 2; enc o; SZ n]
  | ECall ci obj pos var kw kwvar =>
    SL [SZ 3; sx_bool (c_obj_proc ci); sx_bool (c_attr ci); sx_bool (c_attr_proc ci); sx_bool (c_ret_proc ci); SZ (c_meth ci);
        enc obj; elist pos; elist var; elist kw; elist kwvar]
  | EBin op l r => SL [SZ 4; SZ op; enc l; enc r]
  | EUn op e1 => SL [SZ 5; SZ op; enc e1]
  | EList es => SL [SZ 6; elist es]
  | EListLen a l => SL [SZ 7; enc a; elist l]
  | EListOther => SL [SZ 8]
  | ETuple es => SL [SZ 9; elist es]
  | ESet es => SL [SZ 10; elist es]
  | ESetLen a b => SL [SZ 11; enc a; enc b]
  | EDict es => SL [SZ 12; elist es]
  | EDictOther => SL [SZ 13]
  | ERecord es => SL [SZ 14; elist es]
  | ELambda bang simple ps body => SL [SZ 15; sx_bool bang; sx_bool simple; sx_of_zs ps; elist body]
  | EDef s body =>
    SL [SZ 16; SL [SZ (d_id s); sx_bool (d_proc s); sx_bool (d_subr s); sx_bool (d_glob s); sx_bool (d_disc s);
                   sx_bool (d_pub s); SZ 0; sx_bool (d_simple s); sx_of_zs (d_params s); elist body]]
  | ETypeAsc e1 => SL [SZ 19; enc e1]
  | ECode b => SL [SZ 21; elist b]
  | ECompound b => SL [SZ 22; elist b]
  | EDummy b => SL [SZ 24; elist b]
  | EOther k => SL [SZ k]
  end.

Fixpoint enc_value (v : value) : sx :=
  match v with
  | VInt z => SL [SZ 0; SZ z]
  | VStr s => SL [SZ 1; sx_of_zs s]
  | VBool b => SL [SZ 2; sx_bool b]
  | VNone => SL [SZ 3]
  | VList t l => SL [SZ 4; sx_bool t; SL (map enc_value l)]
  | VOpaque => SL [SZ 5]
  end.

(** (ending class lines): ending 0 normal | 1 uncaught exception of [class] | 2 stuck | 3 out of fuel *)
Definition enc_behaviour (b : list (list value) * ending) : sx :=
  let lines := SL (map (fun l => SL (map enc_value l)) (fst b)) in
  match snd b with
  | Normal => SL [SZ 0; SZ 0; lines]
  | Uncaught c => SL [SZ 1; SZ c; lines]
  | Stuck => SL [SZ 2; SZ 0; lines]
  | OutOfFuel => SL [SZ 3; SZ 0; lines]
  end.

Definition dec_refs (t : sx) : ident -> option nat :=
  let table := map (fun kv => (sx_z (sx_nth kv 0), sx_z (sx_nth kv 1))) (sx_l t) in
  fun d => match lookup table d with
           | Some n => if n <? 0 then None else Some (Z.to_nat n)
           | None => None
           end.

Definition def_id_of (e : expr) : Z := match e with EDef s _ => d_id s | _ => 0 end.

Definition dec_obs (x : sx) : obs := (sx_zs (sx_nth x 0), sx_zs (sx_nth x 1), sx_z (sx_nth x 2)).

(** modes:
    (0 variant level fuel refs hir)  variant 0: is_impure of the tree, 1: before the repairs
        -> (0 hir' ((id known) ..) oracle_sound behaviour(hir) behaviour(hir'))  |  (-999 site)
    (1 (obs ..))                     -> Spec.judge *)
Definition run (x : sx) : sx :=
  let mode := sx_z (sx_nth x 0) in
  if mode =? 0 then
    let impure := if sx_z (sx_nth x 1) =? 0 then is_impure else is_impure_nofix in
    let level := sx_z (sx_nth x 2) in
    let fuel := Z.to_nat (sx_z (sx_nth x 3)) in
    let refs := dec_refs (sx_nth x 4) in
    let p := map dec (sx_l (sx_nth x 5)) in
    match optimize_with impure opt_level_passes refs level p with
    | Panic s => SL [SZ (-999); SZ s]
    | Ok p' =>
      let rem := if level =? 0 then [] else removed_all impure refs p in
      SL [SZ 0; SL (map enc p');
          SL (map (fun d => SL [SZ (def_id_of d); sx_bool (Known_C12 d)]) rem);
          sx_bool (negb (mentions_all (inb (binds_all rem)) p'));
          enc_behaviour (behaviour fuel p); enc_behaviour (behaviour fuel p')]
    end
  else SZ (if judge (map dec_obs (sx_l (sx_nth x 1))) then 1 else 0).

Require Extraction.
Require Import ExtrOcamlBasic.
Extraction Language OCaml.
Extraction "model.ml" run.
