(** C12 — behaviour as a partial function of the program: whenever the unoptimised program has an observable
    behaviour, the optimised program has exactly that one. *)
From Coq Require Import ZArith List Bool Arith Lia.
From ErgV Require Import Optimize.Model Optimize.Spec Optimize.ProofsMono Optimize.Proofs.
Import ListNotations.
Open Scope Z_scope.

Lemma opt_preserves_total_lemma : forall refs level p p',
  In level [0; 1; 2; 3] ->
  optimize refs level p = Ok p' ->
  oracle_sound refs p (match eliminate refs p with Ok q => q | Panic _ => p end) ->
  (forall e, In e (removed_defs refs p) -> Known_C12 e = false) ->
  forall n, observable (behaviour n p) ->
    (forall m, (n <= m)%nat -> behaviour m p' = behaviour n p) /\
    (forall m, observable (behaviour m p') -> behaviour m p' = behaviour n p).
Proof.
  intros refs level p p' Hl Hopt Ho Hk n Hobs.
  assert (Hfwd : forall m, (n <= m)%nat -> behaviour m p' = behaviour n p).
  { intros m Hle.
    assert (Hm : behaviour m p = behaviour n p).
    { eapply behaviour_mono; eauto. destruct Hobs; auto. }
    eapply all_levels_preserve_lemma; eauto; rewrite Hm; exact Hobs. }
  split; auto.
  intros m Hobs'.
  rewrite <- (Hfwd (Nat.max n m) (Nat.le_max_l n m)).
  symmetry. eapply behaviour_mono; [apply Nat.le_max_r|reflexivity|]. destruct Hobs'; auto.
Qed.
