(** C12 — model of the HIR optimiser and a trace semantics for the mini language it works on.

    Transcribed (arm by arm) from
      crates/erg_compiler/optimize.rs     HIROptimizer::{optimize, eliminate_dead_code, eliminate_discarded_variables,
                                          eliminate_unused_variables, eliminate_unused_def}
      crates/erg_compiler/effectcheck.rs  SideEffectChecker::{is_impure, is_pure}
      crates/erg_compiler/module/index.rs ModuleIndex::get_refs  (an *input* here: [refs : ident -> option nat],
                                          None = the definition is not registered, Some n = n referrers)
    Which passes a level runs is not written here but read from the source by the translator
    (checks/c12.py -> coq/gen/OptLevels.v).

    Mini language = hir::Expr with one constructor per variant the two functions distinguish.  Everything they read
    from the type checker's annotations is a precomputed attribute:
      c_obj_proc   call.obj.ref_t().is_procedure()
      c_attr       call.attr_name.is_some()          c_attr_proc  attr_name.is_procedural()
      c_ret_proc   call.ref_t().is_procedure()       (type of the *value returned*: what the code tested before the fix)
      c_meth       code of the method name (semantics only)
      l_bang       lambda.op.is_procedural()         (Token::is_procedural: the token text ends with '!')
      d_proc/d_glob/d_disc/d_pub   sig.is_procedural() / is_glob() / ident().is_discarded() / vis().is_public()
    Identifiers are definition sites (VarInfo::def_loc, the key of the reference index); 0 = not defined in the
    program (builtin), then [b] is the code of the builtin (semantics only). *)
From Coq Require Import ZArith List Bool Arith.
Import ListNotations.
Open Scope Z_scope.

Definition ident := Z.

Inductive lit := LInt (z : Z) | LStr (s : list Z) | LBool (b : bool) | LNone | LOther.

Record callinfo := MkCI { c_obj_proc : bool; c_attr : bool; c_attr_proc : bool; c_ret_proc : bool; c_meth : Z }.

(** hir::Signature + what the semantics needs of hir::Params *)
Record defsig := MkSig {
  d_id : ident; d_proc : bool; d_subr : bool; d_glob : bool; d_disc : bool; d_pub : bool;
  d_simple : bool;                 (* only named non-default parameters *)
  d_params : list ident }.

Inductive expr : Type :=
| ELit (l : lit)
| EVar (d : ident) (b : Z)                        (* Accessor::Ident *)
| EAttr (obj : expr) (name : Z)                   (* Accessor::Attr *)
| ECall (ci : callinfo) (obj : expr) (pos var kw kwvar : list expr)   (* var, kwvar: at most one element *)
| EBin (op : Z) (l r : expr)
| EUn (op : Z) (e : expr)
| EList (es : list expr)                          (* List::Normal *)
| EListLen (elem : expr) (len : list expr)        (* List::WithLength, len: Option *)
| EListOther                                      (* List::Comprehension *)
| ETuple (es : list expr)
| ESet (es : list expr)
| ESetLen (elem len : expr)
| EDict (kvs : list expr)                         (* Dict::Normal, flattened k1 v1 k2 v2 ... (the order the code visits) *)
| EDictOther                                      (* Dict::Comprehension *)
| ERecord (attrs : list expr)                     (* each one an EDef *)
| ELambda (bang : bool) (simple : bool) (ps : list ident) (body : list expr)
| EDef (s : defsig) (body : list expr)
| ETypeAsc (e : expr)
| ECode (b : list expr)
| ECompound (b : list expr)
| EDummy (b : list expr)
| EOther (k : Z).                                 (* 17 ClassDef | 18 PatchDef | 20 ReDef | 23 Import *)

Definition program := list expr.                  (* HIR::module *)

(* ------------------------------------------------------------------------------------------------ *)
(** * effectcheck.rs: is_impure / is_pure *)

(** [todo!()] arms make the result three-valued; [||] and [Iterator::any] short-circuit left to right *)
Inductive tri := TFalse | TTrue | TPanic.
Definition tor (a b : tri) : tri := match a with TFalse => b | _ => a end.
Definition tb (b : bool) : tri := if b then TTrue else TFalse.

(** SideEffectChecker::is_impure as it is in the tree *)
Fixpoint is_impure (e : expr) : tri :=
  let any := fix any (l : list expr) : tri := match l with [] => TFalse | x :: r => tor (is_impure x) (any r) end in
  match e with
  | ECall ci obj pos var kw kwvar =>
      tor (tb (c_obj_proc ci))
     (tor (tb (c_attr ci && c_attr_proc ci))
     (tor (is_impure obj)
     (tor (any pos) (tor (any var) (tor (any kw) (any kwvar))))))
  | EAttr obj _ => is_impure obj
  | ETypeAsc e1 => is_impure e1
  | ERecord attrs => any attrs                      (* attr.sig.is_procedural() || attr.body.block.iter().any(..): the Def arm *)
  | EOther k => tb (k =? 20)                        (* Expr::ReDef(_) => true *)
  | EBin _ l r => tor (is_impure l) (is_impure r)
  | EUn _ e1 => is_impure e1
  | EList es => any es
  | EListLen elem len => tor (is_impure elem) (any len)
  | EListOther => TPanic                            (* _ => todo!() *)
  | ETuple es => any es
  | ESet es => any es
  | ESetLen elem len => tor (is_impure elem) (is_impure len)
  | EDict kvs => any kvs
  | EDictOther => TPanic                            (* _ => todo!() *)
  | ELambda bang _ _ body => tor (tb bang) (any body)
  | EDef s body => tor (tb (d_proc s)) (any body)
  | ECode b => any b
  | ECompound b => any b
  | ELit _ | EVar _ _ | EDummy _ => TFalse          (* _ => false *)
  end.

(** the function as it was before the two repairs (commits recorded in known/C12.json): it tested the type of the
    value the call returns and had no arm for Accessor / TypeAsc / Record / ReDef and did not visit call.obj, kw_var *)
Fixpoint is_impure_nofix (e : expr) : tri :=
  let any := fix any (l : list expr) : tri := match l with [] => TFalse | x :: r => tor (is_impure_nofix x) (any r) end in
  match e with
  | ECall ci obj pos var kw kwvar =>
      tor (tb (c_ret_proc ci)) (tor (any pos) (tor (any var) (any kw)))
  | EBin _ l r => tor (is_impure_nofix l) (is_impure_nofix r)
  | EUn _ e1 => is_impure_nofix e1
  | EList es => any es
  | EListLen elem len => tor (is_impure_nofix elem) (any len)
  | EListOther => TPanic
  | ETuple es => any es
  | ESet es => any es
  | ESetLen elem len => tor (is_impure_nofix elem) (is_impure_nofix len)
  | EDict kvs => any kvs
  | EDictOther => TPanic
  | ELambda bang _ _ body => tor (tb bang) (any body)
  | EDef s body => tor (tb (d_proc s)) (any body)
  | ECode b => any b
  | ECompound b => any b
  | ELit _ | EVar _ _ | EAttr _ _ | ERecord _ | ETypeAsc _ | EDummy _ | EOther _ => TFalse
  end.

(** the arms of the two matches, as the translator lists them from the source (gen/OptLevels.v) *)
Definition modelled_is_impure_arms : list Z :=
  (* Call Accessor TypeAsc Record ReDef BinOp UnaryOp List Tuple Set Dict Lambda Def Code Compound *)
  [3; 2; 19; 14; 20; 4; 5; 6; 9; 10; 12; 15; 16; 21; 22].
Definition modelled_elim_arms : list Z := [16; 3; 21; 22; 15].   (* Def Call Code Compound Lambda *)

(* ------------------------------------------------------------------------------------------------ *)
(** * optimize.rs *)

Inductive res (A : Type) : Type :=
| Ok (a : A)
| Panic (site : Z).    (* 1: get_refs(..).unwrap() on an unregistered definition | 2: todo!() in is_impure | 9: unknown pass *)
Arguments Ok {A}. Arguments Panic {A}.

Definition rbind {A B} (r : res A) (f : A -> res B) : res B := match r with Ok a => f a | Panic s => Panic s end.

Section Elim.
  Variable impure : expr -> tri.
  Variable refs : ident -> option nat.

  (** HIROptimizer::eliminate_unused_def; [for x in xs.iter_mut() { self.eliminate_unused_def(x) }] is [elim_all] *)
  Fixpoint elim (e : expr) : res expr :=
    let elim_all := fix elim_all (l : list expr) : res (list expr) :=
      match l with
      | [] => Ok []
      | x :: r => rbind (elim x) (fun x' => rbind (elim_all r) (fun r' => Ok (x' :: r')))
      end in
    match e with
    | EDef s body =>
        if d_glob s || d_disc s || d_pub s then Ok e
        else match refs (d_id s) with
             | None => Panic 1
             | Some n =>
                 if (n =? 0)%nat then
                   match impure e with
                   | TFalse => Ok (EDummy [])
                   | TTrue => Ok e
                   | TPanic => Panic 2
                   end
                 else Ok e
             end
    | ECall ci obj pos var kw kwvar => rbind (elim_all pos) (fun pos' => Ok (ECall ci obj pos' var kw kwvar))
    | ECode b => rbind (elim_all b) (fun b' => Ok (ECode b'))
    | ECompound b => rbind (elim_all b) (fun b' => Ok (ECompound b'))
    | ELambda bang simple ps body => rbind (elim_all body) (fun b' => Ok (ELambda bang simple ps b'))
    | _ => Ok e
    end.

  Fixpoint elim_all (l : list expr) : res (list expr) :=
    match l with
    | [] => Ok []
    | x :: r => rbind (elim x) (fun x' => rbind (elim_all r) (fun r' => Ok (x' :: r')))
    end.

  (** eliminate_unused_variables *)
  Definition eliminate_unused_variables (p : program) : res program := elim_all p.

  (** the definitions the pass replaces by Dummy, in visiting order (used by the statement and the check) *)
  Fixpoint removed (e : expr) : list expr :=
    let removed_all := fix removed_all (l : list expr) : list expr :=
      match l with [] => [] | x :: r => removed x ++ removed_all r end in
    match e with
    | EDef s body =>
        if d_glob s || d_disc s || d_pub s then []
        else match refs (d_id s) with
             | Some O => match impure e with TFalse => [e] | _ => [] end
             | _ => []
             end
    | ECall _ _ pos _ _ _ => removed_all pos
    | ECode b => removed_all b
    | ECompound b => removed_all b
    | ELambda _ _ _ body => removed_all body
    | _ => []
    end.

  Fixpoint removed_all (l : list expr) : list expr :=
    match l with [] => [] | x :: r => removed x ++ removed_all r end.
End Elim.

(** eliminate_discarded_variables: returns its argument *)
Definition eliminate_discarded_variables (p : program) : res program := Ok p.

(** pass codes of gen/OptLevels.v: 1 eliminate_discarded_variables, 2 eliminate_unused_variables *)
Definition run_pass (impure : expr -> tri) (refs : ident -> option nat) (k : Z) (p : program) : res program :=
  if k =? 1 then eliminate_discarded_variables p
  else if k =? 2 then eliminate_unused_variables impure refs p
  else Panic 9.

Fixpoint run_passes (impure : expr -> tri) (refs : ident -> option nat) (ks : list Z) (p : program) : res program :=
  match ks with
  | [] => Ok p
  | k :: r => rbind (run_pass impure refs k p) (run_passes impure refs r)
  end.

Definition passes_of (table : list (Z * list Z)) (level : Z) : option (list Z) :=
  option_map snd (find (fun kv => fst kv =? level) table).

(** HIROptimizer::optimize for a non-REPL input: the passes the table lists for the level *)
Definition optimize_with (impure : expr -> tri) (table : list (Z * list Z)) (refs : ident -> option nat)
           (level : Z) (p : program) : res program :=
  match passes_of table level with
  | Some ks => run_passes impure refs ks p
  | None => Panic 9
  end.

(* ------------------------------------------------------------------------------------------------ *)
(** * trace semantics of the mini language

    Values are first order.  Subroutines live in a function table keyed by definition site; variables (also the
    mutable ones: a procedural method rebinds its receiver variable) in a flat environment keyed by definition site.
    Scopes are not popped: definition sites are unique in a program, so a flat environment coincides with lexical
    scoping except for recursion (a recursive call rebinds the parameters of the outer activation); the generated
    programs have no recursion and no aliases of mutable objects.
    Outcomes: a value, an uncaught exception (class code), [RStuck] (outside the well-typed / interpreted
    fragment: unbound variable, operand of the wrong type, builtin or method the semantics does not interpret),
    [RFuel] (the fuel, a bound on the nesting of evaluation, ran out). *)

Inductive value :=
| VInt (z : Z) | VStr (s : list Z) | VBool (b : bool) | VNone
| VList (tup : bool) (l : list value)
| VOpaque.                                         (* a value no interpreted operation inspects (set, dict, record, lambda, code) *)

Inductive result := RVal (v : value) | RExc (cls : Z) | RStuck | RFuel.
(* exception classes: 1 ZeroDivisionError | 2 IndexError | 3 ValueError | 4 AssertionError *)

Record fentry := MkF { f_simple : bool; f_params : list ident; f_body : list expr }.
Record state := MkSt { venv : list (ident * value); fenv : list (ident * fentry); out : list (list value) }.

Definition init_state : state := MkSt [] [] [].

Fixpoint lookup {A} (l : list (ident * A)) (i : ident) : option A :=
  match l with [] => None | (k, v) :: r => if k =? i then Some v else lookup r i end.

Definition bind_var (st : state) (i : ident) (v : value) : state := MkSt ((i, v) :: venv st) (fenv st) (out st).
Definition bind_fun (st : state) (i : ident) (f : fentry) : state := MkSt (venv st) ((i, f) :: fenv st) (out st).
Definition emit (st : state) (line : list value) : state := MkSt (venv st) (fenv st) (out st ++ [line]).

Fixpoint bind_vars (st : state) (ps : list ident) (vs : list value) : option state :=
  match ps, vs with
  | [], [] => Some st
  | p :: ps', v :: vs' => bind_vars (bind_var st p v) ps' vs'
  | _, _ => None
  end.

Inductive lres := LVals (vs : list value) | LStop (r : result).

Definition is_digit (c : Z) : bool := (48 <=? c) && (c <=? 57).
Fixpoint parse_nat (acc : Z) (s : list Z) : option Z :=
  match s with
  | [] => Some acc
  | c :: r => if is_digit c then parse_nat (acc * 10 + (c - 48)) r else None
  end.
(** Python int(str) for the strings the generator writes: optional '-', then ASCII digits *)
Definition parse_int (s : list Z) : option Z :=
  match s with
  | [] => None
  | 45 :: (_ :: _) as r => option_map Z.opp (parse_nat 0 (tl r))
  | _ => parse_nat 0 s
  end.

Definition range_list (a b : Z) : list value := map (fun k => VInt (a + Z.of_nat k)) (seq 0 (Z.to_nat (b - a))).

(** binary operators (token kinds): 1 + | 2 - | 3 * | 4 // | 5 % | 6 / | 7 ** | 8 == | 9 != | 10 < | 11 <= | 12 > | 13 >= | 14 ..< *)
Definition binop (op : Z) (a b : value) : result :=
  match a, b with
  | VInt x, VInt y =>
      if op =? 1 then RVal (VInt (x + y)) else if op =? 2 then RVal (VInt (x - y)) else if op =? 3 then RVal (VInt (x * y))
      else if op =? 4 then (if y =? 0 then RExc 1 else RVal (VInt (x / y)))
      else if op =? 5 then (if y =? 0 then RExc 1 else RVal (VInt (x mod y)))
      else if op =? 6 then (if y =? 0 then RExc 1 else RStuck)
      else if op =? 8 then RVal (VBool (x =? y)) else if op =? 9 then RVal (VBool (negb (x =? y)))
      else if op =? 10 then RVal (VBool (x <? y)) else if op =? 11 then RVal (VBool (x <=? y))
      else if op =? 12 then RVal (VBool (y <? x)) else if op =? 13 then RVal (VBool (y <=? x))
      else if op =? 14 then RVal (VList false (range_list x y))
      else RStuck
  | VStr x, VStr y => if op =? 1 then RVal (VStr (x ++ y)) else RStuck
  | VList false x, VList false y => if op =? 1 then RVal (VList false (x ++ y)) else RStuck
  | _, _ => RStuck
  end.

(** unary operators: 1 ! (a fresh mutable object with the same content) | 2 - | 3 + *)
Definition unop (op : Z) (a : value) : result :=
  if op =? 1 then RVal a
  else match a with
       | VInt x => if op =? 2 then RVal (VInt (- x)) else if op =? 3 then RVal a else RStuck
       | _ => RStuck
       end.

Definition index_list (l : list value) (i : Z) : result :=
  let n := Z.of_nat (length l) in
  let j := if i <? 0 then i + n else i in
  if (0 <=? j) && (j <? n) then match nth_error l (Z.to_nat j) with Some v => RVal v | None => RStuck end
  else RExc 2.

(** builtin functions / procedures applied to evaluated positional arguments (codes: harness/optimize builtin_code)
    1 print! | 2 len | 3 abs | 5 int | 6 assert | 10 discard | 11 list   (7 if! 8 for! 9 if take blocks: see eval) *)
Definition apply_builtin (b : Z) (st : state) (vs : list value) : state * result :=
  if b =? 1 then (emit st vs, RVal VNone)
  else if b =? 2 then
    match vs with
    | [VList _ l] => (st, RVal (VInt (Z.of_nat (length l))))
    | [VStr s] => (st, RVal (VInt (Z.of_nat (length s))))
    | _ => (st, RStuck)
    end
  else if b =? 3 then match vs with [VInt x] => (st, RVal (VInt (Z.abs x))) | _ => (st, RStuck) end
  else if b =? 5 then
    match vs with
    | [VInt x] => (st, RVal (VInt x))
    | [VStr s] => (st, match parse_int s with Some x => RVal (VInt x) | None => RExc 3 end)
    | _ => (st, RStuck)
    end
  else if b =? 6 then
    match vs with
    | [VBool true] => (st, RVal VNone)
    | [VBool false] => (st, RExc 4)
    | _ => (st, RStuck)
    end
  else if b =? 10 then match vs with [_] => (st, RVal VNone) | _ => (st, RStuck) end
  else if b =? 11 then match vs with [VList _ l] => (st, RVal (VList false l)) | _ => (st, RStuck) end
  else (st, RStuck).

(** methods (codes: harness/optimize method_code) on an evaluated receiver: 2 __getitem__ | 5 abs *)
Definition apply_method (m : Z) (recv : value) (vs : list value) : result :=
  if m =? 2 then match recv, vs with VList _ l, [VInt i] => index_list l i | _, _ => RStuck end
  else if m =? 5 then match recv, vs with VInt x, [] => RVal (VInt (Z.abs x)) | _, _ => RStuck end
  else RStuck.

(** procedural methods rebind the receiver variable: 1 push! | 3 inc! | 4 dec! *)
Definition apply_mut_method (m : Z) (old : value) (vs : list value) : option value :=
  if m =? 1 then match old, vs with VList false l, [v] => Some (VList false (l ++ [v])) | _, _ => None end
  else if m =? 3 then match old, vs with VInt x, [] => Some (VInt (x + 1)) | _, _ => None end
  else if m =? 4 then match old, vs with VInt x, [] => Some (VInt (x - 1)) | _, _ => None end
  else None.

Definition is_mut_method (m : Z) : bool := (m =? 1) || (m =? 3) || (m =? 4).

(** syntactic shapes the evaluator dispatches on *)
Definition as_var (e : expr) : option (ident * Z) := match e with EVar d b => Some (d, b) | _ => None end.
Definition as_thunk (e : expr) : option (list expr) := match e with ELambda _ _ [] b => Some b | _ => None end.
Definition as_fun1 (e : expr) : option (ident * list expr) := match e with ELambda _ _ [p] b => Some (p, b) | _ => None end.
Definition as_lambda (e : expr) : option fentry := match e with ELambda _ simple ps b => Some (MkF simple ps b) | _ => None end.
Definition def_lambda (body : list expr) : option fentry := match body with [l] => as_lambda l | _ => None end.
Definition no_extra (var kw kwvar : list expr) : bool := match var ++ kw ++ kwvar with [] => true | _ => false end.

Section Ev.
  (** [ev] evaluates one sub-expression (the evaluator with one unit of fuel less) *)
  Variable ev : state -> expr -> state * result.

  Fixpoint evals (st : state) (es : list expr) : state * lres :=
    match es with
    | [] => (st, LVals [])
    | e :: r =>
        match ev st e with
        | (st1, RVal v) =>
            match evals st1 r with
            | (st2, LVals vs) => (st2, LVals (v :: vs))
            | x => x
            end
        | (st1, o) => (st1, LStop o)
        end
    end.

  (** a block: chunks in order, the value of the last one ([cur]: value so far, None for the empty block) *)
  Fixpoint eval_block (st : state) (cur : value) (b : list expr) : state * result :=
    match b with
    | [] => (st, RVal cur)
    | e :: r =>
        match ev st e with
        | (st1, RVal v) => eval_block st1 v r
        | x => x
        end
    end.

  (** for! xs, p => body *)
  Fixpoint for_loop (st : state) (p : ident) (body : list expr) (vs : list value) : state * result :=
    match vs with
    | [] => (st, RVal VNone)
    | v :: r =>
        match eval_block (bind_var st p v) VNone body with
        | (st1, RVal _) => for_loop st1 p body r
        | x => x
        end
    end.

  (** if / if!: condition, then-block and optional else-block (lambdas without parameters) *)
  Definition eval_cond (st : state) (c : expr) (b1 : list expr) (b2 : option (list expr)) : state * result :=
    match ev st c with
    | (st1, RVal (VBool true)) => eval_block st1 VNone b1
    | (st1, RVal (VBool false)) => match b2 with Some b => eval_block st1 VNone b | None => (st1, RVal VNone) end
    | (st1, RVal _) => (st1, RStuck)
    | x => x
    end.

  Definition eval_if (st : state) (pos : list expr) : state * result :=
    match pos with
    | [c; t1] => match as_thunk t1 with Some b1 => eval_cond st c b1 None | None => (st, RStuck) end
    | [c; t1; t2] =>
        match as_thunk t1, as_thunk t2 with
        | Some b1, Some b2 => eval_cond st c b1 (Some b2)
        | _, _ => (st, RStuck)
        end
    | _ => (st, RStuck)
    end.

  Definition eval_for (st : state) (pos : list expr) : state * result :=
    match pos with
    | [it; f] =>
        match as_fun1 f with
        | Some (p, body) =>
            match ev st it with
            | (st1, RVal (VList _ l)) => for_loop st1 p body l
            | (st1, RVal _) => (st1, RStuck)
            | x => x
            end
        | None => (st, RStuck)
        end
    | _ => (st, RStuck)
    end.

  (** all sub-expressions left to right, then an opaque value *)
  Definition eval_opaque (st : state) (es : list expr) : state * result :=
    match evals st es with
    | (st1, LVals _) => (st1, RVal VOpaque)
    | (st1, LStop o) => (st1, o)
    end.

  (** obj.m!(pos): the procedural method rebinds the receiver variable *)
  Definition eval_mut_method (st : state) (m : Z) (obj : expr) (pos : list expr) : state * result :=
    match as_var obj with
    | Some (d, _) =>
        match evals st pos with
        | (st1, LVals vs) =>
            match lookup (venv st1) d with
            | Some old =>
                match apply_mut_method m old vs with
                | Some new => (bind_var st1 d new, RVal VNone)
                | None => (st1, RStuck)
                end
            | None => (st1, RStuck)
            end
        | (st1, LStop o) => (st1, o)
        end
    | None => (st, RStuck)
    end.

  Definition eval_method (st : state) (m : Z) (obj : expr) (pos : list expr) : state * result :=
    match ev st obj with
    | (st1, RVal recv) =>
        match evals st1 pos with
        | (st2, LVals vs) => (st2, apply_method m recv vs)
        | (st2, LStop o) => (st2, o)
        end
    | x => x
    end.

  Definition eval_builtin (st : state) (b : Z) (pos : list expr) : state * result :=
    if (b =? 7) || (b =? 9) then eval_if st pos
    else if b =? 8 then eval_for st pos
    else match evals st pos with
         | (st1, LVals vs) => apply_builtin b st1 vs
         | (st1, LStop o) => (st1, o)
         end.

  Definition eval_user (st : state) (d : ident) (pos : list expr) : state * result :=
    match evals st pos with
    | (st1, LVals vs) =>
        match lookup (fenv st1) d with
        | Some f =>
            if f_simple f then
              match bind_vars st1 (f_params f) vs with
              | Some st2 => eval_block st2 VNone (f_body f)
              | None => (st1, RStuck)
              end
            else (st1, RStuck)
        | None => (st1, RStuck)
        end
    | (st1, LStop o) => (st1, o)
    end.

  Definition eval_call (st : state) (ci : callinfo) (obj : expr) (pos var kw kwvar : list expr) : state * result :=
    if no_extra var kw kwvar then
      if c_attr ci then
        if is_mut_method (c_meth ci) then eval_mut_method st (c_meth ci) obj pos
        else eval_method st (c_meth ci) obj pos
      else
        match as_var obj with
        | Some (d, b) => if d =? 0 then eval_builtin st b pos else eval_user st d pos
        | None => (st, RStuck)
        end
    else (st, RStuck).

  Definition eval_def (st : state) (s : defsig) (body : list expr) : state * result :=
    if d_glob s then (st, RStuck)
    else if d_subr s then (bind_fun st (d_id s) (MkF (d_simple s) (d_params s) body), RVal VNone)
    else match def_lambda body with
         | Some f => (bind_fun st (d_id s) f, RVal VNone)
         | None =>
             match eval_block st VNone body with
             | (st1, RVal v) => (bind_var st1 (d_id s) v, RVal VNone)
             | x => x
             end
         end.

  Definition eval_lit (l : lit) : result :=
    match l with
    | LInt z => RVal (VInt z)
    | LStr s => RVal (VStr s)
    | LBool b => RVal (VBool b)
    | LNone => RVal VNone
    | LOther => RStuck
    end.

  Definition eval_step (st : state) (e : expr) : state * result :=
    match e with
    | ELit l => (st, eval_lit l)
    | EVar d _ => if d =? 0 then (st, RStuck) else match lookup (venv st) d with Some v => (st, RVal v) | None => (st, RStuck) end
    | EAttr obj _ => match ev st obj with (st1, RVal _) => (st1, RStuck) | x => x end
    | ECall ci obj pos var kw kwvar => eval_call st ci obj pos var kw kwvar
    | EBin op l r =>
        match ev st l with
        | (st1, RVal a) => match ev st1 r with (st2, RVal b) => (st2, binop op a b) | x => x end
        | x => x
        end
    | EUn op e1 => match ev st e1 with (st1, RVal a) => (st1, unop op a) | x => x end
    | EList es => match evals st es with (st1, LVals vs) => (st1, RVal (VList false vs)) | (st1, LStop o) => (st1, o) end
    | ETuple es => match evals st es with (st1, LVals vs) => (st1, RVal (VList true vs)) | (st1, LStop o) => (st1, o) end
    | EListLen elem len => eval_opaque st (elem :: len)
    | ESet es => eval_opaque st es
    | ESetLen elem len => eval_opaque st [elem; len]
    | EDict kvs => eval_opaque st kvs
    | ERecord attrs => eval_opaque st attrs
    | EListOther | EDictOther => (st, RStuck)
    | ELambda _ _ _ _ => (st, RVal VOpaque)
    | EDef s body => eval_def st s body
    | ETypeAsc e1 => ev st e1
    | ECode _ => (st, RVal VOpaque)                  (* a code object: not executed by evaluating it *)
    | ECompound b => eval_block st VNone b
    | EDummy _ => (st, RVal VNone)                   (* codegen emits nothing for Dummy *)
    | EOther _ => (st, RStuck)
    end.
End Ev.

Fixpoint eval (fuel : nat) (st : state) (e : expr) {struct fuel} : state * result :=
  match fuel with
  | O => (st, RFuel)
  | S f => eval_step (eval f) st e
  end.

(** observable behaviour of a module: what was printed, and how it ended *)
Inductive ending := Normal | Uncaught (cls : Z) | Stuck | OutOfFuel.
Definition behaviour (fuel : nat) (p : program) : list (list value) * ending :=
  match eval_block (eval fuel) init_state VNone p with
  | (st, RVal _) => (out st, Normal)
  | (st, RExc c) => (out st, Uncaught c)
  | (st, RStuck) => (out st, Stuck)
  | (st, RFuel) => (out st, OutOfFuel)
  end.

Definition observable (b : list (list value) * ending) : Prop := snd b <> Stuck /\ snd b <> OutOfFuel.
