(** C12 — simulation: replacing silent definitions whose identifiers nobody mentions by Dummy preserves behaviour. *)
From Coq Require Import ZArith List Bool Arith Lia.
From ErgV Require Import Optimize.Model Optimize.Spec Optimize.ProofsBase.
Import ListNotations.
Open Scope Z_scope.

Definition okr (r : result) : Prop := r <> RFuel /\ r <> RStuck.

Lemma okr_val : forall v, okr (RVal v). Proof. split; discriminate. Qed.
Lemma okr_exc : forall c, okr (RExc c). Proof. split; discriminate. Qed.
Lemma not_okr_stuck : okr RStuck -> False. Proof. intros [_ H]; congruence. Qed.
Lemma not_okr_fuel : okr RFuel -> False. Proof. intros [H _]; congruence. Qed.
#[export] Hint Resolve okr_val okr_exc : c12s.
Ltac contra_okr := exfalso; solve [apply not_okr_stuck; assumption | apply not_okr_fuel; assumption].

Section Sim.
  Variable R : ident -> bool.

  Definition silentR (e : expr) : Prop :=
    forall fuel st st' r, eval fuel st e = (st', r) -> agree R st st' /\ noexc r.

  (** [orel e e']: [e'] is [e] with some silent definitions (binding only identifiers of [R]) replaced by Dummy,
      and [e'] mentions no identifier of [R] *)
  Inductive orel : expr -> expr -> Prop :=
  | o_lit : forall l, orel (ELit l) (ELit l)
  | o_var : forall d b, R d = false -> orel (EVar d b) (EVar d b)
  | o_attr : forall o o' n, orel o o' -> orel (EAttr o n) (EAttr o' n)
  | o_call : forall ci obj obj' pos pos' var var' kw kw' kwvar kwvar',
      orel obj obj' -> Forall2 orel pos pos' -> Forall2 orel var var' -> Forall2 orel kw kw' -> Forall2 orel kwvar kwvar' ->
      orel (ECall ci obj pos var kw kwvar) (ECall ci obj' pos' var' kw' kwvar')
  | o_bin : forall op l l' r r', orel l l' -> orel r r' -> orel (EBin op l r) (EBin op l' r')
  | o_un : forall op e e', orel e e' -> orel (EUn op e) (EUn op e')
  | o_list : forall es es', Forall2 orel es es' -> orel (EList es) (EList es')
  | o_listlen : forall a a' l l', orel a a' -> Forall2 orel l l' -> orel (EListLen a l) (EListLen a' l')
  | o_listother : orel EListOther EListOther
  | o_tuple : forall es es', Forall2 orel es es' -> orel (ETuple es) (ETuple es')
  | o_set : forall es es', Forall2 orel es es' -> orel (ESet es) (ESet es')
  | o_setlen : forall a a' b b', orel a a' -> orel b b' -> orel (ESetLen a b) (ESetLen a' b')
  | o_dict : forall es es', Forall2 orel es es' -> orel (EDict es) (EDict es')
  | o_dictother : orel EDictOther EDictOther
  | o_record : forall es es', Forall2 orel es es' -> orel (ERecord es) (ERecord es')
  | o_lambda : forall bang s ps body body', Forall2 orel body body' -> orel (ELambda bang s ps body) (ELambda bang s ps body')
  | o_def : forall s body body', Forall2 orel body body' -> orel (EDef s body) (EDef s body')
  | o_removed : forall s body, silentR (EDef s body) -> orel (EDef s body) (EDummy [])
  | o_typeasc : forall e e', orel e e' -> orel (ETypeAsc e) (ETypeAsc e')
  | o_code : forall es es', orel (ECode es) (ECode es')
  | o_compound : forall es es', Forall2 orel es es' -> orel (ECompound es) (ECompound es')
  | o_dummy : forall es es', orel (EDummy es) (EDummy es')
  | o_other : forall k, orel (EOther k) (EOther k).

  Definition frel (f1 f2 : fentry) : Prop :=
    f_simple f1 = f_simple f2 /\ f_params f1 = f_params f2 /\ Forall2 orel (f_body f1) (f_body f2).

  Definition fopt_rel (a b : option fentry) : Prop :=
    match a, b with Some f1, Some f2 => frel f1 f2 | None, None => True | _, _ => False end.

  (** the states of the two runs *)
  Definition inv (a b : state) : Prop :=
    out a = out b /\
    (forall i, R i = false -> lookup (venv a) i = lookup (venv b) i) /\
    (forall i, R i = false -> fopt_rel (lookup (fenv a) i) (lookup (fenv b) i)).

  Lemma inv_bind_var : forall a b i v, inv a b -> inv (bind_var a i v) (bind_var b i v).
  Proof.
    intros a b i v (H1 & H2 & H3). split; [exact H1|split].
    - intros j Hj. simpl. destruct (i =? j); auto.
    - intros j Hj. simpl. auto.
  Qed.

  Lemma inv_bind_fun : forall a b i f1 f2, frel f1 f2 -> inv a b -> inv (bind_fun a i f1) (bind_fun b i f2).
  Proof.
    intros a b i f1 f2 Hf (H1 & H2 & H3). split; [exact H1|split].
    - intros j Hj. simpl. auto.
    - intros j Hj. simpl. destruct (i =? j); simpl; auto.
  Qed.

  Lemma inv_emit : forall a b l, inv a b -> inv (emit a l) (emit b l).
  Proof. intros a b l (H1 & H2 & H3). split; [simpl; congruence|split]; simpl; auto. Qed.

  Lemma inv_agree_l : forall a a' b, agree R a a' -> inv a b -> inv a' b.
  Proof.
    intros a a' b (A1 & A2 & A3) (H1 & H2 & H3). split; [|split].
    - congruence.
    - intros i Hi. rewrite <- A2; auto.
    - intros i Hi. rewrite <- A3; auto.
  Qed.

  Lemma inv_bind_vars : forall ps vs a b,
    inv a b ->
    match bind_vars a ps vs, bind_vars b ps vs with
    | Some a', Some b' => inv a' b'
    | None, None => True
    | _, _ => False
    end.
  Proof.
    induction ps as [|p ps IH]; intros vs a b H; destruct vs as [|v vs]; simpl; auto.
    apply IH. apply inv_bind_var; auto.
  Qed.

  (* -------------------------------------------------------------------------------------------- *)
  (** shapes are preserved *)
  Lemma as_var_rel : forall e e' d b, orel e e' -> as_var e = Some (d, b) -> e' = EVar d b /\ R d = false.
  Proof. intros e e' d b H Hv. destruct e; try discriminate. inversion Hv; subst. inversion H; subst. auto. Qed.

  Lemma as_thunk_rel : forall e e' b, orel e e' -> as_thunk e = Some b -> exists b', as_thunk e' = Some b' /\ Forall2 orel b b'.
  Proof.
    intros e e' b H Ht. destruct e; try discriminate. simpl in Ht. destruct ps; try discriminate. inversion Ht; subst.
    inversion H; subst. simpl. eauto.
  Qed.

  Lemma as_fun1_rel : forall e e' p b, orel e e' -> as_fun1 e = Some (p, b) ->
                                        exists b', as_fun1 e' = Some (p, b') /\ Forall2 orel b b'.
  Proof.
    intros e e' p b H Ht. destruct e; try discriminate. simpl in Ht. destruct ps as [|p0 [|]]; try discriminate. inversion Ht; subst.
    inversion H; subst. simpl. eauto.
  Qed.

  Lemma def_lambda_rel : forall body body', Forall2 orel body body' -> fopt_rel (def_lambda body) (def_lambda body').
  Proof.
    intros body body' H. destruct H as [|x x' r r' Hx Hr]; simpl; auto.
    destruct Hr; [|destruct x, x'; simpl; auto].
    inversion Hx; subst; simpl; auto. repeat split; auto.
  Qed.

  Lemma no_extra_rel : forall var var' kw kw' kwvar kwvar',
    Forall2 orel var var' -> Forall2 orel kw kw' -> Forall2 orel kwvar kwvar' ->
    no_extra var kw kwvar = no_extra var' kw' kwvar'.
  Proof.
    intros var var' kw kw' kwvar kwvar' H1 H2 H3. unfold no_extra.
    destruct H1; simpl; auto. destruct H2; simpl; auto. destruct H3; simpl; auto.
  Qed.

  (* -------------------------------------------------------------------------------------------- *)
  (** list evaluators, generic in the element evaluators *)
  Definition ev_sim (ev1 ev2 : state -> expr -> state * result) : Prop :=
    forall e e' st1 st2 st1' r, orel e e' -> inv st1 st2 -> ev1 st1 e = (st1', r) -> okr r ->
                                exists st2', ev2 st2 e' = (st2', r) /\ inv st1' st2'.

  Section Lists.
    Variables ev1 ev2 : state -> expr -> state * result.
    Hypothesis Hsim : ev_sim ev1 ev2.

    Lemma evals_sim : forall es es', Forall2 orel es es' -> forall st1 st2 st1' lr,
      inv st1 st2 -> evals ev1 st1 es = (st1', lr) -> (forall o, lr = LStop o -> okr o) ->
      exists st2', evals ev2 st2 es' = (st2', lr) /\ inv st1' st2'.
    Proof.
      induction 1 as [|e e' r r' He Hr IH]; intros st1 st2 st1' lr Hinv H Hok; simpl in *.
      - inversion H; subst. eauto.
      - destruct (ev1 st1 e) as [sa ra] eqn:E1.
        destruct ra as [v|c| |].
        + destruct (Hsim _ _ _ _ _ _ He Hinv E1 (okr_val v)) as [sb [E2 I2]]. rewrite E2.
          destruct (evals ev1 sa r) as [sc lr2] eqn:E3.
          assert (Hok2 : forall o, lr2 = LStop o -> okr o).
          { intros o Ho. subst lr2. inversion H; subst. apply Hok; auto. }
          destruct (IH _ _ _ _ I2 E3 Hok2) as [sd [E4 I4]]. rewrite E4.
          destruct lr2; inversion H; subst; eauto.
        + inversion H; subst.
          destruct (Hsim _ _ _ _ _ _ He Hinv E1 (okr_exc c)) as [sb [E2 I2]]. rewrite E2. eauto.
        + inversion H; subst. exfalso. apply not_okr_stuck. apply Hok; auto.
        + inversion H; subst. exfalso. apply not_okr_fuel. apply Hok; auto.
    Qed.

    Lemma eval_block_sim : forall b b', Forall2 orel b b' -> forall st1 st2 cur st1' r,
      inv st1 st2 -> eval_block ev1 st1 cur b = (st1', r) -> okr r ->
      exists st2', eval_block ev2 st2 cur b' = (st2', r) /\ inv st1' st2'.
    Proof.
      induction 1 as [|e e' r0 r0' He Hr IH]; intros st1 st2 cur st1' r Hinv H Hok; simpl in *.
      - inversion H; subst. eauto.
      - destruct (ev1 st1 e) as [sa ra] eqn:E1.
        destruct ra as [v|c| |].
        + destruct (Hsim _ _ _ _ _ _ He Hinv E1 (okr_val v)) as [sb [E2 I2]]. rewrite E2. eapply IH; eauto.
        + inversion H; subst.
          destruct (Hsim _ _ _ _ _ _ He Hinv E1 (okr_exc c)) as [sb [E2 I2]]. rewrite E2. eauto.
        + inversion H; subst. exfalso. apply not_okr_stuck; auto.
        + inversion H; subst. exfalso. apply not_okr_fuel; auto.
    Qed.

    Lemma for_loop_sim : forall body body' p, Forall2 orel body body' -> forall vs st1 st2 st1' r,
      inv st1 st2 -> for_loop ev1 st1 p body vs = (st1', r) -> okr r ->
      exists st2', for_loop ev2 st2 p body' vs = (st2', r) /\ inv st1' st2'.
    Proof.
      intros body body' p Hb. induction vs as [|v vs IH]; intros st1 st2 st1' r Hinv H Hok; simpl in *.
      - inversion H; subst. eauto.
      - destruct (eval_block ev1 (bind_var st1 p v) VNone body) as [sa ra] eqn:E1.
        assert (Hi : inv (bind_var st1 p v) (bind_var st2 p v)) by (apply inv_bind_var; auto).
        destruct ra as [v0|c| |].
        + destruct (eval_block_sim _ _ Hb _ _ _ _ _ Hi E1 (okr_val v0)) as [sb [E2 I2]]. rewrite E2. eapply IH; eauto.
        + inversion H; subst.
          destruct (eval_block_sim _ _ Hb _ _ _ _ _ Hi E1 (okr_exc c)) as [sb [E2 I2]]. rewrite E2. eauto.
        + inversion H; subst. exfalso. apply not_okr_stuck; auto.
        + inversion H; subst. exfalso. apply not_okr_fuel; auto.
    Qed.

    Lemma eval_opaque_sim : forall es es', Forall2 orel es es' -> forall st1 st2 st1' r,
      inv st1 st2 -> eval_opaque ev1 st1 es = (st1', r) -> okr r ->
      exists st2', eval_opaque ev2 st2 es' = (st2', r) /\ inv st1' st2'.
    Proof.
      intros es es' Hes st1 st2 st1' r Hinv H Hok. unfold eval_opaque in *.
      destruct (evals ev1 st1 es) as [sa lr] eqn:E1.
      assert (Hok2 : forall o, lr = LStop o -> okr o).
      { intros o Ho. subst lr. inversion H; subst. auto. }
      destruct (evals_sim _ _ Hes _ _ _ _ Hinv E1 Hok2) as [sb [E2 I2]]. rewrite E2.
      destruct lr; inversion H; subst; eauto.
    Qed.

    Lemma eval_cond_sim : forall c c' b1 b1' b2 b2', orel c c' -> Forall2 orel b1 b1' ->
      match b2, b2' with Some x, Some x' => Forall2 orel x x' | None, None => True | _, _ => False end ->
      forall st1 st2 st1' r, inv st1 st2 -> eval_cond ev1 st1 c b1 b2 = (st1', r) -> okr r ->
      exists st2', eval_cond ev2 st2 c' b1' b2' = (st2', r) /\ inv st1' st2'.
    Proof.
      intros c c' b1 b1' b2 b2' Hc Hb1 Hb2 st1 st2 st1' r Hinv H Hok. unfold eval_cond in *.
      destruct (ev1 st1 c) as [sa ra] eqn:E1.
      destruct ra as [v|c0| |].
      - destruct (Hsim _ _ _ _ _ _ Hc Hinv E1 (okr_val v)) as [sb [E2 I2]]. rewrite E2.
        destruct v as [| |[]| | |]; try (inversion H; subst; exfalso; apply not_okr_stuck; auto; fail).
        + eapply eval_block_sim; eauto.
        + destruct b2 as [x|], b2' as [x'|]; try contradiction.
          * eapply eval_block_sim; eauto.
          * inversion H; subst. eauto.
      - inversion H; subst.
        destruct (Hsim _ _ _ _ _ _ Hc Hinv E1 (okr_exc c0)) as [sb [E2 I2]]. rewrite E2. eauto.
      - inversion H; subst. exfalso. apply not_okr_stuck; auto.
      - inversion H; subst. exfalso. apply not_okr_fuel; auto.
    Qed.

    Lemma eval_if_sim : forall pos pos', Forall2 orel pos pos' -> forall st1 st2 st1' r,
      inv st1 st2 -> eval_if ev1 st1 pos = (st1', r) -> okr r ->
      exists st2', eval_if ev2 st2 pos' = (st2', r) /\ inv st1' st2'.
    Proof.
      intros pos pos' Hp st1 st2 st1' r Hinv H Hok. unfold eval_if in *.
      destruct Hp as [|c c' ? ? Hc Hp]; [inversion H; subst; exfalso; apply not_okr_stuck; auto|].
      destruct Hp as [|t1 t1' ? ? Ht1 Hp]; [inversion H; subst; exfalso; apply not_okr_stuck; auto|].
      destruct Hp as [|t2 t2' ? ? Ht2 Hp].
      - destruct (as_thunk t1) as [b1|] eqn:T1; [|inversion H; subst; exfalso; apply not_okr_stuck; auto].
        destruct (as_thunk_rel _ _ _ Ht1 T1) as [b1' [T1' Hb1]]. rewrite T1'.
        eapply (eval_cond_sim c c' b1 b1' None None); eauto.
      - destruct Hp; [|inversion H; subst; exfalso; apply not_okr_stuck; auto].
        destruct (as_thunk t1) as [b1|] eqn:T1; [|inversion H; subst; exfalso; apply not_okr_stuck; auto].
        destruct (as_thunk t2) as [b2|] eqn:T2; [|inversion H; subst; exfalso; apply not_okr_stuck; auto].
        destruct (as_thunk_rel _ _ _ Ht1 T1) as [b1' [T1' Hb1]]. rewrite T1'.
        destruct (as_thunk_rel _ _ _ Ht2 T2) as [b2' [T2' Hb2]]. rewrite T2'.
        eapply (eval_cond_sim c c' b1 b1' (Some b2) (Some b2')); eauto.
    Qed.

    Lemma eval_for_sim : forall pos pos', Forall2 orel pos pos' -> forall st1 st2 st1' r,
      inv st1 st2 -> eval_for ev1 st1 pos = (st1', r) -> okr r ->
      exists st2', eval_for ev2 st2 pos' = (st2', r) /\ inv st1' st2'.
    Proof.
      intros pos pos' Hp st1 st2 st1' r Hinv H Hok. unfold eval_for in *.
      destruct Hp as [|it it' ? ? Hit Hp]; [inversion H; subst; exfalso; apply not_okr_stuck; auto|].
      destruct Hp as [|f f' ? ? Hf Hp]; [inversion H; subst; exfalso; apply not_okr_stuck; auto|].
      destruct Hp; [|inversion H; subst; exfalso; apply not_okr_stuck; auto].
      destruct (as_fun1 f) as [[p body]|] eqn:F; [|inversion H; subst; exfalso; apply not_okr_stuck; auto].
      destruct (as_fun1_rel _ _ _ _ Hf F) as [body' [F' Hb]]. rewrite F'.
      destruct (ev1 st1 it) as [sa ra] eqn:E1.
      destruct ra as [v|c0| |].
      - destruct (Hsim _ _ _ _ _ _ Hit Hinv E1 (okr_val v)) as [sb [E2 I2]]. rewrite E2.
        destruct v; try (inversion H; subst; exfalso; apply not_okr_stuck; auto; fail).
        eapply for_loop_sim; eauto.
      - inversion H; subst.
        destruct (Hsim _ _ _ _ _ _ Hit Hinv E1 (okr_exc c0)) as [sb [E2 I2]]. rewrite E2. eauto.
      - inversion H; subst. exfalso. apply not_okr_stuck; auto.
      - inversion H; subst. exfalso. apply not_okr_fuel; auto.
    Qed.

    Lemma apply_builtin_inv : forall b st1 st2 vs st1' r,
      inv st1 st2 -> apply_builtin b st1 vs = (st1', r) ->
      exists st2', apply_builtin b st2 vs = (st2', r) /\ inv st1' st2'.
    Proof.
      intros b st1 st2 vs st1' r Hinv. unfold apply_builtin.
      repeat match goal with |- context [if ?c then _ else _] => destruct c end;
        repeat match goal with |- context [match ?x with _ => _ end] => destruct x end;
        intros H; inversion H; subst; eexists; split; try reflexivity; auto using inv_emit.
    Qed.

    Lemma eval_builtin_sim : forall b pos pos', Forall2 orel pos pos' -> forall st1 st2 st1' r,
      inv st1 st2 -> eval_builtin ev1 st1 b pos = (st1', r) -> okr r ->
      exists st2', eval_builtin ev2 st2 b pos' = (st2', r) /\ inv st1' st2'.
    Proof.
      intros b pos pos' Hp st1 st2 st1' r Hinv H Hok. unfold eval_builtin in *.
      destruct ((b =? 7) || (b =? 9)); [eapply eval_if_sim; eauto|].
      destruct (b =? 8); [eapply eval_for_sim; eauto|].
      destruct (evals ev1 st1 pos) as [sa lr] eqn:E1.
      assert (Hok2 : forall o, lr = LStop o -> okr o).
      { intros o Ho. subst lr. inversion H; subst. auto. }
      destruct (evals_sim _ _ Hp _ _ _ _ Hinv E1 Hok2) as [sb [E2 I2]]. rewrite E2.
      destruct lr; [|inversion H; subst; eauto].
      eapply apply_builtin_inv; eauto.
    Qed.

    Lemma eval_user_sim : forall d pos pos', R d = false -> Forall2 orel pos pos' -> forall st1 st2 st1' r,
      inv st1 st2 -> eval_user ev1 st1 d pos = (st1', r) -> okr r ->
      exists st2', eval_user ev2 st2 d pos' = (st2', r) /\ inv st1' st2'.
    Proof.
      intros d pos pos' Hd Hp st1 st2 st1' r Hinv H Hok. unfold eval_user in *.
      destruct (evals ev1 st1 pos) as [sa lr] eqn:E1.
      assert (Hok2 : forall o, lr = LStop o -> okr o).
      { intros o Ho. subst lr. inversion H; subst. auto. }
      destruct (evals_sim _ _ Hp _ _ _ _ Hinv E1 Hok2) as [sb [E2 I2]]. rewrite E2.
      destruct lr as [vs|o]; [|inversion H; subst; eauto].
      pose proof (proj2 (proj2 I2) d Hd) as Hf. unfold fopt_rel in Hf.
      destruct (lookup (fenv sa) d) as [f1|]; destruct (lookup (fenv sb) d) as [f2|]; try contradiction;
        [|inversion H; subst; exfalso; apply not_okr_stuck; auto].
      destruct Hf as (Hs & Hps & Hbody). rewrite <- Hs, <- Hps.
      destruct (f_simple f1); [|inversion H; subst; exfalso; apply not_okr_stuck; auto].
      pose proof (inv_bind_vars (f_params f1) vs _ _ I2) as Hbv.
      destruct (bind_vars sa (f_params f1) vs) as [sa'|]; destruct (bind_vars sb (f_params f1) vs) as [sb'|]; try contradiction;
        [|inversion H; subst; exfalso; apply not_okr_stuck; auto].
      eapply eval_block_sim; eauto.
    Qed.

    Lemma eval_mut_method_sim : forall m obj obj' pos pos', orel obj obj' -> Forall2 orel pos pos' -> forall st1 st2 st1' r,
      inv st1 st2 -> eval_mut_method ev1 st1 m obj pos = (st1', r) -> okr r ->
      exists st2', eval_mut_method ev2 st2 m obj' pos' = (st2', r) /\ inv st1' st2'.
    Proof.
      intros m obj obj' pos pos' Ho Hp st1 st2 st1' r Hinv H Hok. unfold eval_mut_method in *.
      destruct (as_var obj) as [[d b]|] eqn:V; [|inversion H; subst; exfalso; apply not_okr_stuck; auto].
      destruct (as_var_rel _ _ _ _ Ho V) as [-> Hd]. simpl.
      destruct (evals ev1 st1 pos) as [sa lr] eqn:E1.
      assert (Hok2 : forall o, lr = LStop o -> okr o).
      { intros o Ho'. subst lr. inversion H; subst. auto. }
      destruct (evals_sim _ _ Hp _ _ _ _ Hinv E1 Hok2) as [sb [E2 I2]]. rewrite E2.
      destruct lr as [vs|o]; [|inversion H; subst; eauto].
      rewrite <- (proj1 (proj2 I2) d Hd).
      destruct (lookup (venv sa) d) as [old|]; [|inversion H; subst; exfalso; apply not_okr_stuck; auto].
      destruct (apply_mut_method m old vs); [|inversion H; subst; exfalso; apply not_okr_stuck; auto].
      inversion H; subst. eexists; split; eauto. apply inv_bind_var; auto.
    Qed.

    Lemma eval_method_sim : forall m obj obj' pos pos', orel obj obj' -> Forall2 orel pos pos' -> forall st1 st2 st1' r,
      inv st1 st2 -> eval_method ev1 st1 m obj pos = (st1', r) -> okr r ->
      exists st2', eval_method ev2 st2 m obj' pos' = (st2', r) /\ inv st1' st2'.
    Proof.
      intros m obj obj' pos pos' Ho Hp st1 st2 st1' r Hinv H Hok. unfold eval_method in *.
      destruct (ev1 st1 obj) as [sa ra] eqn:E1.
      destruct ra as [v|c0| |].
      - destruct (Hsim _ _ _ _ _ _ Ho Hinv E1 (okr_val v)) as [sb [E2 I2]]. rewrite E2.
        destruct (evals ev1 sa pos) as [sc lr] eqn:E3.
        assert (Hok2 : forall o, lr = LStop o -> okr o).
        { intros o Ho'. subst lr. inversion H; subst. auto. }
        destruct (evals_sim _ _ Hp _ _ _ _ I2 E3 Hok2) as [sd [E4 I4]]. rewrite E4.
        destruct lr; inversion H; subst; eauto.
      - inversion H; subst.
        destruct (Hsim _ _ _ _ _ _ Ho Hinv E1 (okr_exc c0)) as [sb [E2 I2]]. rewrite E2. eauto.
      - inversion H; subst. exfalso. apply not_okr_stuck; auto.
      - inversion H; subst. exfalso. apply not_okr_fuel; auto.
    Qed.

    Lemma eval_call_sim : forall ci obj obj' pos pos' var var' kw kw' kwvar kwvar',
      orel obj obj' -> Forall2 orel pos pos' -> Forall2 orel var var' -> Forall2 orel kw kw' -> Forall2 orel kwvar kwvar' ->
      forall st1 st2 st1' r,
      inv st1 st2 -> eval_call ev1 st1 ci obj pos var kw kwvar = (st1', r) -> okr r ->
      exists st2', eval_call ev2 st2 ci obj' pos' var' kw' kwvar' = (st2', r) /\ inv st1' st2'.
    Proof.
      intros ci obj obj' pos pos' var var' kw kw' kwvar kwvar' Ho Hp Hv Hk Hkv st1 st2 st1' r Hinv H Hok.
      unfold eval_call in *. rewrite <- (no_extra_rel _ _ _ _ _ _ Hv Hk Hkv).
      destruct (no_extra var kw kwvar); [|inversion H; subst; exfalso; apply not_okr_stuck; auto].
      destruct (c_attr ci).
      - destruct (is_mut_method (c_meth ci)).
        + eapply eval_mut_method_sim; eauto.
        + eapply eval_method_sim; eauto.
      - destruct (as_var obj) as [[d b]|] eqn:V; [|inversion H; subst; exfalso; apply not_okr_stuck; auto].
        destruct (as_var_rel _ _ _ _ Ho V) as [-> Hd]. simpl.
        destruct (d =? 0).
        + eapply eval_builtin_sim; eauto.
        + eapply eval_user_sim; eauto.
    Qed.

    Lemma eval_def_kept_sim : forall s body body', Forall2 orel body body' -> forall st1 st2 st1' r,
      inv st1 st2 -> eval_def ev1 st1 s body = (st1', r) -> okr r ->
      exists st2', eval_def ev2 st2 s body' = (st2', r) /\ inv st1' st2'.
    Proof.
      intros s body body' Hb st1 st2 st1' r Hinv H Hok. unfold eval_def in *.
      destruct (d_glob s); [inversion H; subst; exfalso; apply not_okr_stuck; auto|].
      destruct (d_subr s).
      { inversion H; subst. eexists; split; eauto. apply inv_bind_fun; auto. repeat split; auto. }
      pose proof (def_lambda_rel _ _ Hb) as Hl. unfold fopt_rel in Hl.
      destruct (def_lambda body) as [f1|]; destruct (def_lambda body') as [f2|]; try contradiction.
      { inversion H; subst. eexists; split; eauto. apply inv_bind_fun; auto. }
      destruct (eval_block ev1 st1 VNone body) as [sa ra] eqn:E1.
      destruct ra as [v|c0| |].
      - destruct (eval_block_sim _ _ Hb _ _ _ _ _ Hinv E1 (okr_val v)) as [sb [E2 I2]]. rewrite E2.
        inversion H; subst. eexists; split; eauto. apply inv_bind_var; auto.
      - inversion H; subst.
        destruct (eval_block_sim _ _ Hb _ _ _ _ _ Hinv E1 (okr_exc c0)) as [sb [E2 I2]]. rewrite E2. eauto.
      - inversion H; subst. exfalso. apply not_okr_stuck; auto.
      - inversion H; subst. exfalso. apply not_okr_fuel; auto.
    Qed.
  End Lists.

  Lemma eval_def_val : forall ev st s body st' v, eval_def ev st s body = (st', RVal v) -> v = VNone.
  Proof.
    intros ev st s body st' v H. unfold eval_def in H.
    destruct (d_glob s); [discriminate|]. destruct (d_subr s); [inversion H; auto|].
    destruct (def_lambda body); [inversion H; auto|].
    destruct (eval_block ev st VNone body) as [sa [| | |]]; inversion H; auto.
  Qed.

  (** one more unit of fuel *)
  Lemma eval_sim_step : forall f, ev_sim (eval f) (eval f) -> ev_sim (eval (S f)) (eval (S f)).
  Proof.
    intros f IH e e' st1 st2 st1' r Hrel Hinv H Hok.
    inversion Hrel; subst; simpl in H |- *.
    - (* lit *) inversion H; subst. eauto.
    - (* var *) destruct (d =? 0); [inversion H; subst; exfalso; apply not_okr_stuck; auto|].
      rewrite <- (proj1 (proj2 Hinv) d H0).
      destruct (lookup (venv st1) d); inversion H; subst; eauto.
    - (* attr *) destruct (eval f st1 o) as [sa ra] eqn:E1.
      destruct ra as [v|c0| |]; inversion H; subst; try (contra_okr).
      destruct (IH _ _ _ _ _ _ H0 Hinv E1 (okr_exc c0)) as [sb [E2 I2]]. rewrite E2. eauto.
    - (* call *) eapply eval_call_sim; eauto.
    - (* bin *) destruct (eval f st1 l) as [sa ra] eqn:E1.
      destruct ra as [a|c0| |]; try (inversion H; subst; contra_okr).
      + destruct (IH _ _ _ _ _ _ H0 Hinv E1 (okr_val a)) as [sb [E2 I2]]. rewrite E2.
        destruct (eval f sa r0) as [sc rc] eqn:E3.
        destruct rc as [b|c1| |]; try (inversion H; subst; contra_okr).
        * destruct (IH _ _ _ _ _ _ H1 I2 E3 (okr_val b)) as [sd [E4 I4]]. rewrite E4. inversion H; subst. eauto.
        * destruct (IH _ _ _ _ _ _ H1 I2 E3 (okr_exc c1)) as [sd [E4 I4]]. rewrite E4. inversion H; subst. eauto.
      + destruct (IH _ _ _ _ _ _ H0 Hinv E1 (okr_exc c0)) as [sb [E2 I2]]. rewrite E2. inversion H; subst. eauto.
    - (* un *) destruct (eval f st1 e0) as [sa ra] eqn:E1.
      destruct ra as [a|c0| |]; try (inversion H; subst; contra_okr).
      + destruct (IH _ _ _ _ _ _ H0 Hinv E1 (okr_val a)) as [sb [E2 I2]]. rewrite E2. inversion H; subst. eauto.
      + destruct (IH _ _ _ _ _ _ H0 Hinv E1 (okr_exc c0)) as [sb [E2 I2]]. rewrite E2. inversion H; subst. eauto.
    - (* list *) destruct (evals (eval f) st1 es) as [sa lr] eqn:E1.
      assert (Hok2 : forall o, lr = LStop o -> okr o).
      { intros o Ho. subst lr. inversion H; subst. auto. }
      destruct (evals_sim _ _ IH _ _ H0 _ _ _ _ Hinv E1 Hok2) as [sb [E2 I2]]. rewrite E2.
      destruct lr; inversion H; subst; eauto.
    - (* listlen *) eapply (eval_opaque_sim _ _ IH (a :: l) (a' :: l')); eauto.
    - (* listother *) inversion H; subst. exfalso. apply not_okr_stuck; auto.
    - (* tuple *) destruct (evals (eval f) st1 es) as [sa lr] eqn:E1.
      assert (Hok2 : forall o, lr = LStop o -> okr o).
      { intros o Ho. subst lr. inversion H; subst. auto. }
      destruct (evals_sim _ _ IH _ _ H0 _ _ _ _ Hinv E1 Hok2) as [sb [E2 I2]]. rewrite E2.
      destruct lr; inversion H; subst; eauto.
    - (* set *) eapply (eval_opaque_sim _ _ IH); eauto.
    - (* setlen *) eapply (eval_opaque_sim _ _ IH [a; b] [a'; b']); eauto.
    - (* dict *) eapply (eval_opaque_sim _ _ IH); eauto.
    - (* dictother *) inversion H; subst. exfalso. apply not_okr_stuck; auto.
    - (* record *) eapply (eval_opaque_sim _ _ IH); eauto.
    - (* lambda *) inversion H; subst. eauto.
    - (* def kept *) eapply eval_def_kept_sim; eauto.
    - (* def removed *)
      assert (E : eval (S f) st1 (EDef s body) = (st1', r)) by exact H.
      destruct (H0 _ _ _ _ E) as [A N].
      destruct r as [v|c0| |].
      + apply eval_def_val in H. subst v. eexists; split; eauto. eapply inv_agree_l; eauto.
      + exfalso. eapply N; eauto.
      + exfalso. apply not_okr_stuck; auto.
      + exfalso. apply not_okr_fuel; auto.
    - (* typeasc *) eapply IH; eauto.
    - (* code *) inversion H; subst. eauto.
    - (* compound *) eapply eval_block_sim; eauto.
    - (* dummy *) inversion H; subst. eauto.
    - (* other *) inversion H; subst. exfalso. apply not_okr_stuck; auto.
  Qed.

  Lemma eval_sim : forall f, ev_sim (eval f) (eval f).
  Proof.
    induction f as [|f IH].
    - intros e e' st1 st2 st1' r _ _ H Hok. simpl in H. inversion H; subst. exfalso. apply not_okr_fuel; auto.
    - apply eval_sim_step; auto.
  Qed.

  Lemma inv_init : inv init_state init_state.
  Proof. repeat split; simpl; auto. Qed.

  Lemma behaviour_sim : forall p p' fuel b,
    Forall2 orel p p' -> behaviour fuel p = b -> observable b -> behaviour fuel p' = b.
  Proof.
    intros p p' fuel b Hp Hb [Ho1 Ho2]. unfold behaviour in *.
    destruct (eval_block (eval fuel) init_state VNone p) as [st1 r] eqn:E1.
    assert (Hok : okr r).
    { destruct r; subst b; simpl in *; split; try discriminate; congruence. }
    destruct (eval_block_sim _ _ (eval_sim fuel) _ _ Hp _ _ _ _ _ inv_init E1 Hok) as [st2 [E2 I2]].
    rewrite E2. destruct I2 as [Hout _]. rewrite <- Hout. exact Hb.
  Qed.
End Sim.
