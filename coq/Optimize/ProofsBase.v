(** C12 — basic lemmas: induction principle for [expr], three-valued or, [agree], list evaluators. *)
From Coq Require Import ZArith List Bool Arith Lia.
From ErgV Require Import Optimize.Model Optimize.Spec.
Import ListNotations.
Open Scope Z_scope.

(* ------------------------------------------------------------------------------------------------ *)
(** * induction principle (nested lists) *)
Section ExprInd.
  Variable P : expr -> Prop.
  Hypothesis HLit : forall l, P (ELit l).
  Hypothesis HVar : forall d b, P (EVar d b).
  Hypothesis HAttr : forall o n, P o -> P (EAttr o n).
  Hypothesis HCall : forall ci obj pos var kw kwvar, P obj -> Forall P pos -> Forall P var -> Forall P kw -> Forall P kwvar ->
                                                     P (ECall ci obj pos var kw kwvar).
  Hypothesis HBin : forall op l r, P l -> P r -> P (EBin op l r).
  Hypothesis HUn : forall op e, P e -> P (EUn op e).
  Hypothesis HList : forall es, Forall P es -> P (EList es).
  Hypothesis HListLen : forall a l, P a -> Forall P l -> P (EListLen a l).
  Hypothesis HListOther : P EListOther.
  Hypothesis HTuple : forall es, Forall P es -> P (ETuple es).
  Hypothesis HSet : forall es, Forall P es -> P (ESet es).
  Hypothesis HSetLen : forall a b, P a -> P b -> P (ESetLen a b).
  Hypothesis HDict : forall es, Forall P es -> P (EDict es).
  Hypothesis HDictOther : P EDictOther.
  Hypothesis HRecord : forall es, Forall P es -> P (ERecord es).
  Hypothesis HLambda : forall bang simple ps body, Forall P body -> P (ELambda bang simple ps body).
  Hypothesis HDef : forall s body, Forall P body -> P (EDef s body).
  Hypothesis HTypeAsc : forall e, P e -> P (ETypeAsc e).
  Hypothesis HCode : forall es, Forall P es -> P (ECode es).
  Hypothesis HCompound : forall es, Forall P es -> P (ECompound es).
  Hypothesis HDummy : forall es, Forall P es -> P (EDummy es).
  Hypothesis HOther : forall k, P (EOther k).

  Fixpoint expr_ind' (e : expr) : P e :=
    let all := fix all (l : list expr) : Forall P l :=
      match l with [] => Forall_nil P | x :: r => Forall_cons x (expr_ind' x) (all r) end in
    match e with
    | ELit l => HLit l
    | EVar d b => HVar d b
    | EAttr o n => HAttr o n (expr_ind' o)
    | ECall ci obj pos var kw kwvar => HCall ci obj pos var kw kwvar (expr_ind' obj) (all pos) (all var) (all kw) (all kwvar)
    | EBin op l r => HBin op l r (expr_ind' l) (expr_ind' r)
    | EUn op e1 => HUn op e1 (expr_ind' e1)
    | EList es => HList es (all es)
    | EListLen a l => HListLen a l (expr_ind' a) (all l)
    | EListOther => HListOther
    | ETuple es => HTuple es (all es)
    | ESet es => HSet es (all es)
    | ESetLen a b => HSetLen a b (expr_ind' a) (expr_ind' b)
    | EDict es => HDict es (all es)
    | EDictOther => HDictOther
    | ERecord es => HRecord es (all es)
    | ELambda bang simple ps body => HLambda bang simple ps body (all body)
    | EDef s body => HDef s body (all body)
    | ETypeAsc e1 => HTypeAsc e1 (expr_ind' e1)
    | ECode es => HCode es (all es)
    | ECompound es => HCompound es (all es)
    | EDummy es => HDummy es (all es)
    | EOther k => HOther k
    end.
End ExprInd.

(* ------------------------------------------------------------------------------------------------ *)
(** * three-valued or; list forms of the local fixpoints *)
Lemma tor_false : forall a b, tor a b = TFalse <-> a = TFalse /\ b = TFalse.
Proof. intros [] []; simpl; split; intros; try tauto; try discriminate; destruct H; discriminate. Qed.

Lemma tb_false : forall b, tb b = TFalse <-> b = false.
Proof. intros []; simpl; split; intros; congruence. Qed.

Fixpoint impure_all (l : list expr) : tri := match l with [] => TFalse | x :: r => tor (is_impure x) (impure_all r) end.
Fixpoint impure_nofix_all (l : list expr) : tri :=
  match l with [] => TFalse | x :: r => tor (is_impure_nofix x) (impure_nofix_all r) end.

Lemma impure_all_false : forall l, impure_all l = TFalse <-> Forall (fun e => is_impure e = TFalse) l.
Proof.
  induction l as [|x r IH]; simpl.
  - split; intros; auto.
  - rewrite tor_false, IH. split.
    + intros [H1 H2]. constructor; auto.
    + intros H. inversion H; subst. auto.
Qed.

Lemma risky_all_false : forall l, risky_all l = false <-> Forall (fun e => risky e = false) l.
Proof.
  induction l as [|x r IH]; simpl.
  - split; intros; auto.
  - rewrite orb_false_iff, IH. split.
    + intros [H1 H2]. constructor; auto.
    + intros H. inversion H; subst. auto.
Qed.

Lemma mentions_all_false : forall R l, mentions_all R l = false <-> Forall (fun e => mentions R e = false) l.
Proof.
  induction l as [|x r IH]; simpl.
  - split; intros; auto.
  - rewrite orb_false_iff, IH. split.
    + intros [H1 H2]. constructor; auto.
    + intros H. inversion H; subst. auto.
Qed.

(** unfolding equations: the local fixpoints are the list functions *)
Lemma is_impure_call : forall ci obj pos var kw kwvar,
  is_impure (ECall ci obj pos var kw kwvar) =
  tor (tb (c_obj_proc ci)) (tor (tb (c_attr ci && c_attr_proc ci)) (tor (is_impure obj)
      (tor (impure_all pos) (tor (impure_all var) (tor (impure_all kw) (impure_all kwvar)))))).
Proof. reflexivity. Qed.
Lemma is_impure_list : forall es, is_impure (EList es) = impure_all es. Proof. reflexivity. Qed.
Lemma is_impure_tuple : forall es, is_impure (ETuple es) = impure_all es. Proof. reflexivity. Qed.
Lemma is_impure_set : forall es, is_impure (ESet es) = impure_all es. Proof. reflexivity. Qed.
Lemma is_impure_dict : forall es, is_impure (EDict es) = impure_all es. Proof. reflexivity. Qed.
Lemma is_impure_record : forall es, is_impure (ERecord es) = impure_all es. Proof. reflexivity. Qed.
Lemma is_impure_code : forall es, is_impure (ECode es) = impure_all es. Proof. reflexivity. Qed.
Lemma is_impure_compound : forall es, is_impure (ECompound es) = impure_all es. Proof. reflexivity. Qed.
Lemma is_impure_listlen : forall a l, is_impure (EListLen a l) = tor (is_impure a) (impure_all l). Proof. reflexivity. Qed.
Lemma is_impure_lambda : forall bang s ps body, is_impure (ELambda bang s ps body) = tor (tb bang) (impure_all body).
Proof. reflexivity. Qed.
Lemma is_impure_def : forall s body, is_impure (EDef s body) = tor (tb (d_proc s)) (impure_all body).
Proof. reflexivity. Qed.

Lemma risky_call : forall ci obj pos var kw kwvar,
  risky (ECall ci obj pos var kw kwvar) =
  (negb (callee_procedural ci) && negb (total_builtin_call ci obj))
  || risky obj || risky_all pos || risky_all var || risky_all kw || risky_all kwvar.
Proof. reflexivity. Qed.
Lemma risky_list : forall es, risky (EList es) = risky_all es. Proof. reflexivity. Qed.
Lemma risky_tuple : forall es, risky (ETuple es) = risky_all es. Proof. reflexivity. Qed.
Lemma risky_set : forall es, risky (ESet es) = risky_all es. Proof. reflexivity. Qed.
Lemma risky_dict : forall es, risky (EDict es) = risky_all es. Proof. reflexivity. Qed.
Lemma risky_record : forall es, risky (ERecord es) = risky_all es. Proof. reflexivity. Qed.
Lemma risky_compound : forall es, risky (ECompound es) = risky_all es. Proof. reflexivity. Qed.
Lemma risky_listlen : forall a l, risky (EListLen a l) = risky a || risky_all l. Proof. reflexivity. Qed.
Lemma risky_lambda : forall bang s ps body, risky (ELambda bang s ps body) = risky_all body. Proof. reflexivity. Qed.
Lemma risky_def : forall s body, risky (EDef s body) = risky_all body. Proof. reflexivity. Qed.

Lemma binds_call : forall ci obj pos var kw kwvar,
  binds (ECall ci obj pos var kw kwvar) = binds obj ++ binds_all pos ++ binds_all var ++ binds_all kw ++ binds_all kwvar.
Proof. reflexivity. Qed.
Lemma binds_lambda : forall bang s ps body, binds (ELambda bang s ps body) = ps ++ binds_all body. Proof. reflexivity. Qed.
Lemma binds_def : forall s body, binds (EDef s body) = d_id s :: d_params s ++ binds_all body. Proof. reflexivity. Qed.

Lemma mentions_call : forall R ci obj pos var kw kwvar,
  mentions R (ECall ci obj pos var kw kwvar) =
  mentions R obj || mentions_all R pos || mentions_all R var || mentions_all R kw || mentions_all R kwvar.
Proof. reflexivity. Qed.

(* ------------------------------------------------------------------------------------------------ *)
(** * agree *)
Lemma agree_refl : forall R st, agree R st st.
Proof. intros; repeat split; auto. Qed.

Lemma agree_sym : forall R a b, agree R a b -> agree R b a.
Proof. intros R a b (H1 & H2 & H3). repeat split; intros; symmetry; auto. Qed.

Lemma agree_trans : forall R a b c, agree R a b -> agree R b c -> agree R a c.
Proof.
  intros R a b c (H1 & H2 & H3) (K1 & K2 & K3). repeat split; intros.
  - congruence.
  - rewrite H2, K2; auto.
  - rewrite H3, K3; auto.
Qed.

Lemma agree_mono : forall (R R' : ident -> bool) a b, (forall i, R i = true -> R' i = true) -> agree R a b -> agree R' a b.
Proof.
  intros R R' a b HR (H1 & H2 & H3). repeat split; auto; intros i Hi.
  - apply H2. destruct (R i) eqn:E; auto. rewrite (HR i E) in Hi; discriminate.
  - apply H3. destruct (R i) eqn:E; auto. rewrite (HR i E) in Hi; discriminate.
Qed.

Lemma agree_bind_var : forall (R : ident -> bool) st i v, R i = true -> agree R st (bind_var st i v).
Proof.
  intros R st i v Hi. repeat split; auto. intros j Hj. simpl.
  destruct (i =? j) eqn:E; auto. apply Z.eqb_eq in E; subst. congruence.
Qed.

Lemma agree_bind_fun : forall (R : ident -> bool) st i f, R i = true -> agree R st (bind_fun st i f).
Proof.
  intros R st i f Hi. repeat split; auto. intros j Hj. simpl.
  destruct (i =? j) eqn:E; auto. apply Z.eqb_eq in E; subst. congruence.
Qed.

Lemma inb_app : forall a b i, inb (a ++ b) i = inb a i || inb b i.
Proof. intros; unfold inb; apply existsb_app. Qed.

Lemma inb_cons : forall a l i, inb (a :: l) i = (i =? a) || inb l i.
Proof. reflexivity. Qed.

Lemma inb_self : forall a l, inb (a :: l) a = true.
Proof. intros; rewrite inb_cons, Z.eqb_refl; reflexivity. Qed.
