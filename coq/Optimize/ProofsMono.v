(** C12 — more fuel does not change a result that did not run out of fuel; behaviour as a partial function. *)
From Coq Require Import ZArith List Bool Arith Lia.
From ErgV Require Import Optimize.Model Optimize.Spec.
Import ListNotations.
Open Scope Z_scope.

Definition ext (ev ev' : state -> expr -> state * result) : Prop :=
  forall st e st' r, ev st e = (st', r) -> r <> RFuel -> ev' st e = (st', r).

Section Ext.
  Variables ev ev' : state -> expr -> state * result.
  Hypothesis Hext : ext ev ev'.

  Lemma evals_ext : forall es st st' lr,
    evals ev st es = (st', lr) -> lr <> LStop RFuel -> evals ev' st es = (st', lr).
  Proof.
    induction es as [|e r IH]; intros st st' lr H Hn; simpl in *; auto.
    destruct (ev st e) as [sa ra] eqn:E1.
    destruct ra as [v|c| |].
    - rewrite (Hext _ _ _ _ E1) by discriminate.
      destruct (evals ev sa r) as [sb lr2] eqn:E2.
      assert (Hn2 : lr2 <> LStop RFuel).
      { intro; subst lr2. inversion H; subst. congruence. }
      rewrite (IH _ _ _ E2 Hn2). exact H.
    - rewrite (Hext _ _ _ _ E1) by discriminate. exact H.
    - rewrite (Hext _ _ _ _ E1) by discriminate. exact H.
    - inversion H; subst. congruence.
  Qed.

  Lemma eval_block_ext : forall b st cur st' r,
    eval_block ev st cur b = (st', r) -> r <> RFuel -> eval_block ev' st cur b = (st', r).
  Proof.
    induction b as [|e r0 IH]; intros st cur st' r H Hn; simpl in *; auto.
    destruct (ev st e) as [sa ra] eqn:E1.
    destruct ra as [v|c| |].
    - rewrite (Hext _ _ _ _ E1) by discriminate. eauto.
    - rewrite (Hext _ _ _ _ E1) by discriminate. exact H.
    - rewrite (Hext _ _ _ _ E1) by discriminate. exact H.
    - inversion H; subst. congruence.
  Qed.

  Lemma for_loop_ext : forall p body vs st st' r,
    for_loop ev st p body vs = (st', r) -> r <> RFuel -> for_loop ev' st p body vs = (st', r).
  Proof.
    intros p body. induction vs as [|v vs IH]; intros st st' r H Hn; simpl in *; auto.
    destruct (eval_block ev (bind_var st p v) VNone body) as [sa ra] eqn:E1.
    destruct ra as [v0|c| |].
    - rewrite (eval_block_ext _ _ _ _ _ E1) by discriminate. eauto.
    - rewrite (eval_block_ext _ _ _ _ _ E1) by discriminate. exact H.
    - rewrite (eval_block_ext _ _ _ _ _ E1) by discriminate. exact H.
    - inversion H; subst. congruence.
  Qed.

  Lemma eval_cond_ext : forall st c b1 b2 st' r,
    eval_cond ev st c b1 b2 = (st', r) -> r <> RFuel -> eval_cond ev' st c b1 b2 = (st', r).
  Proof.
    intros st c b1 b2 st' r H Hn. unfold eval_cond in *.
    destruct (ev st c) as [sa ra] eqn:E1.
    destruct ra as [v|c0| |].
    - rewrite (Hext _ _ _ _ E1) by discriminate.
      destruct v as [| |[]| | |]; auto.
      + apply eval_block_ext; auto.
      + destruct b2; auto. apply eval_block_ext; auto.
    - rewrite (Hext _ _ _ _ E1) by discriminate. exact H.
    - rewrite (Hext _ _ _ _ E1) by discriminate. exact H.
    - inversion H; subst. congruence.
  Qed.

  Lemma eval_if_ext : forall st pos st' r, eval_if ev st pos = (st', r) -> r <> RFuel -> eval_if ev' st pos = (st', r).
  Proof.
    intros st pos st' r H Hn. unfold eval_if in *.
    destruct pos as [|c [|t1 [|t2 [|]]]]; auto.
    - destruct (as_thunk t1); auto. apply eval_cond_ext; auto.
    - destruct (as_thunk t1); auto. destruct (as_thunk t2); auto. apply eval_cond_ext; auto.
  Qed.

  Lemma eval_for_ext : forall st pos st' r, eval_for ev st pos = (st', r) -> r <> RFuel -> eval_for ev' st pos = (st', r).
  Proof.
    intros st pos st' r H Hn. unfold eval_for in *.
    destruct pos as [|it [|f [|]]]; auto.
    destruct (as_fun1 f) as [[p body]|]; auto.
    destruct (ev st it) as [sa ra] eqn:E1.
    destruct ra as [v|c0| |].
    - rewrite (Hext _ _ _ _ E1) by discriminate. destruct v; auto. apply for_loop_ext; auto.
    - rewrite (Hext _ _ _ _ E1) by discriminate. exact H.
    - rewrite (Hext _ _ _ _ E1) by discriminate. exact H.
    - inversion H; subst. congruence.
  Qed.

  Lemma evals_ext' : forall es st sa lr,
    evals ev st es = (sa, lr) -> (forall o, lr = LStop o -> o <> RFuel) -> evals ev' st es = (sa, lr).
  Proof.
    intros es st sa lr H Hn. apply evals_ext; auto. intro; subst. eapply Hn; eauto.
  Qed.

  Lemma eval_opaque_ext : forall st es st' r, eval_opaque ev st es = (st', r) -> r <> RFuel -> eval_opaque ev' st es = (st', r).
  Proof.
    intros st es st' r H Hn. unfold eval_opaque in *.
    destruct (evals ev st es) as [sa lr] eqn:E1.
    rewrite (evals_ext' _ _ _ _ E1); auto.
    intros o Ho. subst lr. inversion H; subst. auto.
  Qed.

  Lemma eval_call_ext : forall st ci obj pos var kw kwvar st' r,
    eval_call ev st ci obj pos var kw kwvar = (st', r) -> r <> RFuel -> eval_call ev' st ci obj pos var kw kwvar = (st', r).
  Proof.
    intros st ci obj pos var kw kwvar st' r H Hn. unfold eval_call in *.
    destruct (no_extra var kw kwvar); auto.
    destruct (c_attr ci).
    - destruct (is_mut_method (c_meth ci)).
      + unfold eval_mut_method in *. destruct (as_var obj) as [[d b]|]; auto.
        destruct (evals ev st pos) as [sa lr] eqn:E1.
        rewrite (evals_ext' _ _ _ _ E1); auto.
        intros o Ho. subst lr. inversion H; subst. auto.
      + unfold eval_method in *.
        destruct (ev st obj) as [sa ra] eqn:E1.
        destruct ra as [v|c0| |]; try (rewrite (Hext _ _ _ _ E1) by discriminate; exact H).
        * rewrite (Hext _ _ _ _ E1) by discriminate.
          destruct (evals ev sa pos) as [sb lr] eqn:E2.
          rewrite (evals_ext' _ _ _ _ E2); auto.
          intros o Ho. subst lr. inversion H; subst. auto.
        * inversion H; subst. congruence.
    - destruct (as_var obj) as [[d b]|]; auto.
      destruct (d =? 0).
      + unfold eval_builtin in *.
        destruct ((b =? 7) || (b =? 9)); [apply eval_if_ext; auto|].
        destruct (b =? 8); [apply eval_for_ext; auto|].
        destruct (evals ev st pos) as [sa lr] eqn:E1.
        rewrite (evals_ext' _ _ _ _ E1); auto.
        intros o Ho. subst lr. inversion H; subst. auto.
      + unfold eval_user in *.
        destruct (evals ev st pos) as [sa lr] eqn:E1.
        rewrite (evals_ext' _ _ _ _ E1).
        * destruct lr; auto. destruct (lookup (fenv sa) d); auto. destruct (f_simple f); auto.
          destruct (bind_vars sa (f_params f) vs); auto. apply eval_block_ext; auto.
        * intros o Ho. subst lr. inversion H; subst. auto.
  Qed.

  Lemma eval_def_ext : forall st s body st' r, eval_def ev st s body = (st', r) -> r <> RFuel -> eval_def ev' st s body = (st', r).
  Proof.
    intros st s body st' r H Hn. unfold eval_def in *.
    destruct (d_glob s); auto. destruct (d_subr s); auto. destruct (def_lambda body); auto.
    destruct (eval_block ev st VNone body) as [sa ra] eqn:E1.
    destruct ra as [v|c0| |]; try (rewrite (eval_block_ext _ _ _ _ _ E1) by discriminate; exact H).
    inversion H; subst. congruence.
  Qed.

  Lemma eval_step_ext : ext (eval_step ev) (eval_step ev').
  Proof.
    intros st e st' r H Hn. destruct e; simpl in *; auto.
    - (* attr *) destruct (ev st e) as [sa ra] eqn:E1.
      destruct ra; try (rewrite (Hext _ _ _ _ E1) by discriminate; exact H). inversion H; subst. congruence.
    - apply eval_call_ext; auto.
    - (* bin *) destruct (ev st e1) as [sa ra] eqn:E1.
      destruct ra as [a|c0| |]; try (rewrite (Hext _ _ _ _ E1) by discriminate; exact H).
      + rewrite (Hext _ _ _ _ E1) by discriminate.
        destruct (ev sa e2) as [sb rb] eqn:E2.
        destruct rb; try (rewrite (Hext _ _ _ _ E2) by discriminate; exact H). inversion H; subst. congruence.
      + inversion H; subst. congruence.
    - (* un *) destruct (ev st e) as [sa ra] eqn:E1.
      destruct ra; try (rewrite (Hext _ _ _ _ E1) by discriminate; exact H). inversion H; subst. congruence.
    - (* list *) destruct (evals ev st es) as [sa lr] eqn:E1.
      rewrite (evals_ext' _ _ _ _ E1); auto. intros o Ho. subst lr. inversion H; subst. auto.
    - apply eval_opaque_ext; auto.
    - (* tuple *) destruct (evals ev st es) as [sa lr] eqn:E1.
      rewrite (evals_ext' _ _ _ _ E1); auto. intros o Ho. subst lr. inversion H; subst. auto.
    - apply eval_opaque_ext; auto.
    - apply eval_opaque_ext; auto.
    - apply eval_opaque_ext; auto.
    - apply eval_opaque_ext; auto.
    - apply eval_def_ext; auto.
    - apply eval_block_ext; auto.
  Qed.
End Ext.

Lemma eval_mono_S : forall n, ext (eval n) (eval (S n)).
Proof.
  induction n as [|n IH].
  - intros st e st' r H Hn. simpl in H. inversion H; subst. congruence.
  - intros st e st' r H Hn. change (eval (S (S n))) with (eval_step (eval (S n))).
    change (eval (S n)) with (eval_step (eval n)) in H. eapply eval_step_ext; eauto.
Qed.

Lemma eval_mono : forall n m, (n <= m)%nat -> ext (eval n) (eval m).
Proof.
  intros n m Hle. induction Hle as [|m Hle IH].
  - intros st e st' r H _. exact H.
  - intros st e st' r H Hn. apply eval_mono_S; auto.
Qed.

Lemma behaviour_mono : forall n m p b,
  (n <= m)%nat -> behaviour n p = b -> snd b <> OutOfFuel -> behaviour m p = b.
Proof.
  intros n m p b Hle Hb Hn. unfold behaviour in *.
  destruct (eval_block (eval n) init_state VNone p) as [st r] eqn:E.
  assert (Hr : r <> RFuel). { intro; subst r b. simpl in Hn. congruence. }
  rewrite (eval_block_ext _ _ (eval_mono n m Hle) _ _ _ _ _ E Hr). exact Hb.
Qed.

(** a program has at most one observable behaviour *)
Lemma behaviour_unique : forall n m p,
  observable (behaviour n p) -> observable (behaviour m p) -> behaviour n p = behaviour m p.
Proof.
  intros n m p [_ H1] [_ H2].
  destruct (Nat.le_ge_cases n m) as [Hle|Hle].
  - symmetry. eapply behaviour_mono; eauto.
  - eapply behaviour_mono; eauto.
Qed.
