(** C12 — what "optimisation never changes observable behaviour" means for the mini language.

    * [silent e]: evaluating [e], in any state and with any fuel, prints nothing, raises nothing and changes no
      binding other than the ones [e] itself introduces.
    * [Known_C12 e] (= [risky e]): the class of the known finding — initialisers that are effect free but may still
      raise (or run code the semantics does not interpret): a call of a *function* other than the total builtins, a
      division / modulo / power, an import / class definition.
    * [oracle_sound]: what the reference index is trusted for — no identifier bound by a removed definition is
      mentioned in what is left of the program (decidable: the check evaluates it on every dumped program).
    * [judge]: the property on observed behaviour — all levels gave the same (stdout, exception class, exit status). *)
From Coq Require Import ZArith List Bool Arith.
From ErgV Require Import gen.OptLevels Optimize.Model.
Import ListNotations.
Open Scope Z_scope.

(* ------------------------------------------------------------------------------------------------ *)
(** * syntactic functions *)

(** identifiers bound anywhere inside [e] (definitions, parameters) *)
Fixpoint binds (e : expr) : list ident :=
  let all := fix all (l : list expr) : list ident := match l with [] => [] | x :: r => binds x ++ all r end in
  match e with
  | ELit _ | EVar _ _ | EListOther | EDictOther | EOther _ => []
  | EAttr o _ => binds o
  | ECall _ obj pos var kw kwvar => binds obj ++ all pos ++ all var ++ all kw ++ all kwvar
  | EBin _ l r => binds l ++ binds r
  | EUn _ e1 => binds e1
  | ETypeAsc e1 => binds e1
  | EList es => all es
  | ETuple es => all es
  | ESet es => all es
  | EDict es => all es
  | ERecord es => all es
  | ECode es => all es
  | ECompound es => all es
  | EDummy es => all es
  | EListLen a l => binds a ++ all l
  | ESetLen a b => binds a ++ binds b
  | ELambda _ _ ps body => ps ++ all body
  | EDef s body => d_id s :: d_params s ++ all body
  end.

Fixpoint binds_all (l : list expr) : list ident := match l with [] => [] | x :: r => binds x ++ binds_all r end.

(** [e] reads (or rebinds through a procedural method) an identifier of the set [R] *)
Section Mentions.
Variable R : ident -> bool.
Fixpoint mentions (e : expr) : bool :=
  let any := fix any (l : list expr) : bool := match l with [] => false | x :: r => mentions x || any r end in
  match e with
  | EVar d _ => R d
  | ELit _ | EListOther | EDictOther | EOther _ => false
  | EAttr o _ => mentions o
  | ECall _ obj pos var kw kwvar => mentions obj || any pos || any var || any kw || any kwvar
  | EBin _ l r => mentions l || mentions r
  | EUn _ e1 => mentions e1
  | ETypeAsc e1 => mentions e1
  | EList es => any es
  | ETuple es => any es
  | ESet es => any es
  | EDict es => any es
  | ERecord es => any es
  | ECode es => any es
  | ECompound es => any es
  | EDummy es => any es
  | EListLen a l => mentions a || any l
  | ESetLen a b => mentions a || mentions b
  | ELambda _ _ _ body => any body
  | EDef _ body => any body
  end.

Fixpoint mentions_all (l : list expr) : bool :=
  match l with [] => false | x :: r => mentions x || mentions_all r end.
End Mentions.

Definition inb (ids : list ident) (i : ident) : bool := existsb (Z.eqb i) ids.

(** builtin functions that return a value for every well-typed argument: 2 len | 3 abs | 9 if | 10 discard | 11 list *)
Definition total_builtin (b : Z) : bool := (b =? 2) || (b =? 3) || (b =? 9) || (b =? 10) || (b =? 11).

Definition callee_procedural (ci : callinfo) : bool := c_obj_proc ci || (c_attr ci && c_attr_proc ci).

Definition total_builtin_call (ci : callinfo) (obj : expr) : bool :=
  match obj with EVar d b => (d =? 0) && total_builtin b && negb (c_attr ci) | _ => false end.

(** the class of the known finding: effect free as far as [is_impure] can tell, but may raise *)
Fixpoint risky (e : expr) : bool :=
  let any := fix any (l : list expr) : bool := match l with [] => false | x :: r => risky x || any r end in
  match e with
  | ECall ci obj pos var kw kwvar =>
      (negb (callee_procedural ci) && negb (total_builtin_call ci obj))
      || risky obj || any pos || any var || any kw || any kwvar
  | EBin op l r => (op =? 4) || (op =? 5) || (op =? 6) || (op =? 7) || risky l || risky r
  | EOther k => negb (k =? 20)                 (* import, class, patch: code the semantics does not interpret *)
  | ELit _ | EVar _ _ | EListOther | EDictOther => false
  | EAttr o _ => risky o
  | EUn _ e1 => risky e1
  | ETypeAsc e1 => risky e1
  | EList es => any es
  | ETuple es => any es
  | ESet es => any es
  | EDict es => any es
  | ERecord es => any es
  | ECode es => any es
  | ECompound es => any es
  | EDummy es => any es
  | EListLen a l => risky a || any l
  | ESetLen a b => risky a || risky b
  | ELambda _ _ _ body => any body
  | EDef _ body => any body
  end.

Fixpoint risky_all (l : list expr) : bool := match l with [] => false | x :: r => risky x || risky_all r end.

Definition Known_C12 (e : expr) : bool := risky e.

(* ------------------------------------------------------------------------------------------------ *)
(** * semantic notions *)

(** the two states print the same and agree on every identifier outside [R] *)
Definition agree (R : ident -> bool) (a b : state) : Prop :=
  out a = out b /\
  (forall i, R i = false -> lookup (venv a) i = lookup (venv b) i) /\
  (forall i, R i = false -> lookup (fenv a) i = lookup (fenv b) i).

Definition noexc (r : result) : Prop := forall c, r <> RExc c.

Definition silent (e : expr) : Prop :=
  forall fuel st st' r, eval fuel st e = (st', r) -> agree (inb (binds e)) st st' /\ noexc r.

(** the optimiser as it is (is_impure of the tree, the pass table is a parameter) and before the repairs *)
Definition eliminate := eliminate_unused_variables is_impure.
Definition eliminate_nofix := eliminate_unused_variables is_impure_nofix.
Definition removed_defs (refs : ident -> option nat) (p : program) : list expr := removed_all is_impure refs p.
Definition removed_ids (refs : ident -> option nat) (p : program) : list ident := binds_all (removed_defs refs p).

(** the reference index is sound for [p]: nothing that is left mentions an identifier of a removed definition *)
Definition oracle_sound (refs : ident -> option nat) (p p' : program) : Prop :=
  mentions_all (inb (removed_ids refs p)) p' = false.

Definition oracle_soundb (refs : ident -> option nat) (p p' : program) : bool :=
  negb (mentions_all (inb (removed_ids refs p)) p').

(** HIROptimizer::optimize at a level: the passes the generated table (gen/OptLevels.v, read from optimize.rs) lists *)
Definition optimize (refs : ident -> option nat) (level : Z) (p : program) : res program :=
  optimize_with is_impure opt_level_passes refs level p.

(** no node on which is_impure reaches a [todo!()] *)
Fixpoint no_todo (e : expr) : bool :=
  let all := fix all (l : list expr) : bool := match l with [] => true | x :: r => no_todo x && all r end in
  match e with
  | EListOther | EDictOther => false
  | ELit _ | EVar _ _ | EOther _ => true
  | EAttr o _ => no_todo o
  | ECall _ obj pos var kw kwvar => no_todo obj && all pos && all var && all kw && all kwvar
  | EBin _ l r => no_todo l && no_todo r
  | EUn _ e1 => no_todo e1
  | ETypeAsc e1 => no_todo e1
  | EList es => all es
  | ETuple es => all es
  | ESet es => all es
  | EDict es => all es
  | ERecord es => all es
  | ECode es => all es
  | ECompound es => all es
  | EDummy es => all es
  | EListLen a l => no_todo a && all l
  | ESetLen a b => no_todo a && no_todo b
  | ELambda _ _ _ body => all body
  | EDef _ body => all body
  end.

Fixpoint no_todo_all (l : list expr) : bool := match l with [] => true | x :: r => no_todo x && no_todo_all r end.

(* ------------------------------------------------------------------------------------------------ *)
(** * executable judge on observed behaviour: one observation per optimisation level,
      (stdout as code points, class of the uncaught exception as code points ([] if none), exit status) *)
Definition obs := (list Z * list Z * Z)%type.

Fixpoint zs_eqb (a b : list Z) : bool :=
  match a, b with
  | [], [] => true
  | x :: a', y :: b' => (x =? y) && zs_eqb a' b'
  | _, _ => false
  end.

Definition obs_eqb (a b : obs) : bool :=
  zs_eqb (fst (fst a)) (fst (fst b)) && zs_eqb (snd (fst a)) (snd (fst b)) && (snd a =? snd b).

Definition judge (os : list obs) : bool :=
  match os with
  | [] => true
  | o :: r => forallb (obs_eqb o) r
  end.
