(** C12 — concrete programs: the refutations on the pre-repair model and on the known class, non-vacuity examples,
    and the no-panic lemma. *)
From Coq Require Import ZArith List Bool Arith Lia.
From ErgV Require Import Optimize.Model Optimize.Spec Optimize.ProofsBase Optimize.ProofsPure Optimize.ProofsSim Optimize.Proofs.
Import ListNotations.
Open Scope Z_scope.

(* ------------------------------------------------------------------------------------------------ *)
(** * witnesses (the same programs are replayed against the implementation by checks/c12.py) *)
Definition s_hello : list Z := [104; 101; 108; 108; 111].
Definition s_end : list Z := [101; 110; 100].
Definition ci_print := MkCI true false false false 0.        (* print!: the callee is a procedure, the result NoneType *)
Definition ci_fun := MkCI false false false false 0.
Definition print_ (e : expr) : expr := ECall ci_print (EVar 0 1) [e] [] [] [].
Definition var_sig (id : ident) : defsig := MkSig id false false false false false true [].

(** x = print! "hello"        (x unused)
    print! "end" *)
Definition w1_def : expr := EDef (var_sig 1000002) [print_ (ELit (LStr s_hello))].
Definition w1 : program := [w1_def; print_ (ELit (LStr s_end))].
Definition w1_refs (d : ident) : option nat := if d =? 1000002 then Some 0%nat else None.

(** x = {a = print! "hello"}  (x unused) *)
Definition w2_def : expr := EDef (var_sig 1000002) [ERecord [EDef (var_sig 1005006) [print_ (ELit (LStr s_hello))]]].
Definition w2 : program := [w2_def; print_ (ELit (LStr s_end))].

(** n = 0
    y = 1 // n                (y unused)
    print! "end" *)
Definition w3_def : expr := EDef (var_sig 2000002) [EBin 4 (ELit (LInt 1)) (EVar 1000002 0)].
Definition w3 : program := [EDef (var_sig 1000002) [ELit (LInt 0)]; w3_def; print_ (ELit (LStr s_end))].
Definition w3_refs (d : ident) : option nat :=
  if d =? 1000002 then Some 1%nat else if d =? 2000002 then Some 0%nat else None.

Lemma not_silent_by_output : forall e fuel,
  out (fst (eval fuel init_state e)) <> [] -> ~ silent e.
Proof.
  intros e fuel Hout Hs.
  destruct (Hs fuel init_state (fst (eval fuel init_state e)) (snd (eval fuel init_state e))) as [[Ho _] _].
  { apply surjective_pairing. }
  simpl in Ho. congruence.
Qed.

Lemma not_silent_by_exc : forall e fuel c,
  snd (eval fuel init_state e) = RExc c -> ~ silent e.
Proof.
  intros e fuel c Hr Hs.
  destruct (Hs fuel init_state (fst (eval fuel init_state e)) (snd (eval fuel init_state e))) as [_ N].
  { apply surjective_pairing. }
  exact (N c Hr).
Qed.

Lemma purity_sound_nofix_refuted_lemma :
  exists e, is_impure_nofix e = TFalse /\ Known_C12 e = false /\ ~ silent e.
Proof.
  exists w1_def. split; [reflexivity|split; [reflexivity|]].
  apply (not_silent_by_output w1_def 5%nat). vm_compute. discriminate.
Qed.

Lemma purity_sound_nofix_subexpr_refuted_lemma :
  exists e, is_impure_nofix e = TFalse /\ Known_C12 e = false /\ ~ silent e.
Proof.
  exists w2_def. split; [reflexivity|split; [reflexivity|]].
  apply (not_silent_by_output w2_def 8%nat). vm_compute. discriminate.
Qed.

(** after the repairs both witnesses are impure *)
Lemma witnesses_impure_now : is_impure w1_def = TTrue /\ is_impure w2_def = TTrue.
Proof. split; reflexivity. Qed.

Lemma purity_sound_known_refuted_lemma :
  exists e, is_impure e = TFalse /\ Known_C12 e = true /\ ~ silent e.
Proof.
  exists (EDef (var_sig 2000002) [EBin 4 (ELit (LInt 1)) (ELit (LInt 0))]).
  split; [reflexivity|split; [reflexivity|]].
  apply (not_silent_by_exc _ 5%nat 1). reflexivity.
Qed.

Lemma opt_preserves_nofix_refuted_lemma :
  exists refs p p' fuel,
    eliminate_nofix refs p = Ok p' /\
    mentions_all (inb (binds_all (removed_all is_impure_nofix refs p))) p' = false /\
    (forall e, In e (removed_all is_impure_nofix refs p) -> Known_C12 e = false) /\
    observable (behaviour fuel p) /\ behaviour fuel p' <> behaviour fuel p.
Proof.
  exists w1_refs, w1, [EDummy []; print_ (ELit (LStr s_end))], 5%nat.
  split; [reflexivity|split; [reflexivity|split; [|split]]].
  - intros e [<-|[]]. reflexivity.
  - vm_compute. split; discriminate.
  - vm_compute. discriminate.
Qed.

Lemma opt_preserves_known_refuted_lemma :
  exists refs p p' fuel,
    eliminate refs p = Ok p' /\ oracle_sound refs p p' /\
    (exists e, In e (removed_defs refs p) /\ Known_C12 e = true) /\
    observable (behaviour fuel p) /\ behaviour fuel p' <> behaviour fuel p.
Proof.
  exists w3_refs, w3, [EDef (var_sig 1000002) [ELit (LInt 0)]; EDummy []; print_ (ELit (LStr s_end))], 6%nat.
  split; [reflexivity|split; [reflexivity|split; [|split]]].
  - exists w3_def. split; [left; reflexivity|reflexivity].
  - vm_compute. split; discriminate.
  - vm_compute. discriminate.
Qed.

(* ------------------------------------------------------------------------------------------------ *)
(** * non-vacuity *)

(** l = ![1]
    x =                       (unused, pure: removed)
        a = 2
        [a, len([a, 3])]
    if! 1 == 1, do!:
        u = abs(-4) + 1       (unused, inside a block argument: removed)
        l.push! 2
    k = l.push! 3             (unused, but a procedural method: kept)
    print! l                                                                    *)
Definition ex_l := 1000002. Definition ex_x := 2000002. Definition ex_a := 3004006.
Definition ex_u := 6004006. Definition ex_k := 8000002.
Definition ci_meth_proc := MkCI false true true false 1.
Definition ex_prog : program :=
  [ EDef (var_sig ex_l) [EUn 1 (EList [ELit (LInt 1)])];
    EDef (var_sig ex_x) [EDef (var_sig ex_a) [ELit (LInt 2)];
                         EList [EVar ex_a 0; ECall ci_fun (EVar 0 2) [EList [EVar ex_a 0; ELit (LInt 3)]] [] [] []]];
    ECall ci_print (EVar 0 7) [EBin 8 (ELit (LInt 1)) (ELit (LInt 1));
                               ELambda false true [] [EDef (var_sig ex_u) [EBin 1 (ECall ci_fun (EVar 0 3) [ELit (LInt (-4))] [] [] []) (ELit (LInt 1))];
                                                      ECall ci_meth_proc (EVar ex_l 0) [ELit (LInt 2)] [] [] []]] [] [] [];
    EDef (var_sig ex_k) [ECall ci_meth_proc (EVar ex_l 0) [ELit (LInt 3)] [] [] []];
    print_ (EVar ex_l 0) ].
Definition ex_refs (d : ident) : option nat :=
  if d =? ex_l then Some 3%nat else if d =? ex_a then Some 2%nat
  else if (d =? ex_x) || (d =? ex_u) || (d =? ex_k) then Some 0%nat else None.

Lemma ex_purity_nonvacuous :
  let e := nth 1 ex_prog (EOther 0) in
  is_impure e = TFalse /\ Known_C12 e = false /\ binds e = [ex_x; ex_a] /\
  fst (behaviour 9 [e]) = [] /\ snd (behaviour 9 [e]) = Normal.
Proof. vm_compute. repeat split. Qed.

Lemma ex_opt_nonvacuous :
  exists p', eliminate ex_refs ex_prog = Ok p' /\
    map (fun e => match e with EDef s _ => d_id s | _ => 0 end) (removed_defs ex_refs ex_prog) = [ex_x; ex_u] /\
    oracle_sound ex_refs ex_prog p' /\
    (forall e, In e (removed_defs ex_refs ex_prog) -> Known_C12 e = false) /\
    behaviour 9 ex_prog = ([[VList false [VInt 1; VInt 2; VInt 3]]], Normal) /\
    behaviour 9 p' = behaviour 9 ex_prog /\ p' <> ex_prog.
Proof.
  eexists. split; [vm_compute; reflexivity|].
  split; [vm_compute; reflexivity|]. split; [vm_compute; reflexivity|].
  split; [|split; [vm_compute; reflexivity|split; [vm_compute; reflexivity|vm_compute; discriminate]]].
  intros e He. vm_compute in He. destruct He as [<-|[<-|[]]]; reflexivity.
Qed.

(* ------------------------------------------------------------------------------------------------ *)
(** * the optimiser does not panic when every definition is registered and there is no comprehension node *)
Lemma no_todo_all_forall : forall l, no_todo_all l = true <-> Forall (fun e => no_todo e = true) l.
Proof.
  induction l as [|x r IH]; simpl.
  - split; auto.
  - rewrite andb_true_iff, IH. split.
    + intros [H1 H2]; constructor; auto.
    + intros H; inversion H; auto.
Qed.

Lemma tor_nopanic : forall a b, a <> TPanic -> b <> TPanic -> tor a b <> TPanic.
Proof. intros [] []; simpl; congruence. Qed.

Lemma tb_nopanic : forall b, tb b <> TPanic.
Proof. intros []; simpl; discriminate. Qed.

Lemma impure_all_nopanic : forall l,
  Forall (fun e => no_todo e = true -> is_impure e <> TPanic) l -> no_todo_all l = true -> impure_all l <> TPanic.
Proof.
  induction 1 as [|x r Hx Hr IH]; simpl; intros Hn; [discriminate|].
  apply andb_true_iff in Hn. destruct Hn. apply tor_nopanic; auto.
Qed.

Lemma is_impure_nopanic : forall e, no_todo e = true -> is_impure e <> TPanic.
Proof.
  induction e using expr_ind'; intros Hn; try (simpl; discriminate).
  - simpl in *. auto.
  - rewrite is_impure_call.
    change (no_todo (ECall ci e pos var kw kwvar))
      with (no_todo e && no_todo_all pos && no_todo_all var && no_todo_all kw && no_todo_all kwvar) in Hn.
    repeat (apply andb_true_iff in Hn; let X := fresh "N" in destruct Hn as [Hn X]).
    repeat apply tor_nopanic; auto using tb_nopanic, impure_all_nopanic.
  - simpl in *. apply andb_true_iff in Hn. destruct Hn. apply tor_nopanic; auto.
  - simpl in *. auto.
  - rewrite is_impure_list. apply impure_all_nopanic; auto.
  - rewrite is_impure_listlen. change (no_todo (EListLen e l)) with (no_todo e && no_todo_all l) in Hn.
    apply andb_true_iff in Hn. destruct Hn. apply tor_nopanic; auto using impure_all_nopanic.
  - rewrite is_impure_tuple. apply impure_all_nopanic; auto.
  - rewrite is_impure_set. apply impure_all_nopanic; auto.
  - simpl in *. apply andb_true_iff in Hn. destruct Hn. apply tor_nopanic; auto.
  - rewrite is_impure_dict. apply impure_all_nopanic; auto.
  - rewrite is_impure_record. apply impure_all_nopanic; auto.
  - rewrite is_impure_lambda. apply tor_nopanic; auto using tb_nopanic, impure_all_nopanic.
  - rewrite is_impure_def. apply tor_nopanic; auto using tb_nopanic, impure_all_nopanic.
  - simpl in *. auto.
  - rewrite is_impure_code. apply impure_all_nopanic; auto.
  - rewrite is_impure_compound. apply impure_all_nopanic; auto.
  - simpl. apply tb_nopanic.
Qed.

Section NoPanic.
  Variable refs : ident -> option nat.
  Hypothesis registered : forall d, refs d <> None.

  Lemma elim_all_nopanic : forall l,
    Forall (fun e => no_todo e = true -> exists e', elim is_impure refs e = Ok e') l ->
    no_todo_all l = true -> exists l', elim_all is_impure refs l = Ok l'.
  Proof.
    induction 1 as [|x r Hx Hr IH]; simpl; intros Hn; [eauto|].
    apply andb_true_iff in Hn. destruct Hn as [N1 N2].
    destruct (Hx N1) as [x' ->]. destruct (IH N2) as [r' ->]. simpl. eauto.
  Qed.

  Lemma elim_nopanic : forall e, no_todo e = true -> exists e', elim is_impure refs e = Ok e'.
  Proof.
    induction e using expr_ind'; intros Hn; try (simpl; eauto; fail).
    - rewrite elim_call.
      change (no_todo (ECall ci e pos var kw kwvar))
        with (no_todo e && no_todo_all pos && no_todo_all var && no_todo_all kw && no_todo_all kwvar) in Hn.
      repeat (apply andb_true_iff in Hn; let X := fresh "N" in destruct Hn as [Hn X]).
      destruct (elim_all_nopanic pos H N2) as [pos' ->]. simpl. eauto.
    - rewrite elim_lambda. destruct (elim_all_nopanic body H Hn) as [b' ->]. simpl. eauto.
    - rewrite elim_def. destruct (d_glob s || d_disc s || d_pub s); eauto.
      destruct (refs (d_id s)) as [n|] eqn:E; [|exfalso; eapply registered; eauto].
      destruct (n =? 0)%nat; eauto.
      pose proof (is_impure_nopanic (EDef s body) Hn) as Hp.
      destruct (is_impure (EDef s body)); eauto. congruence.
    - rewrite elim_code. destruct (elim_all_nopanic es H Hn) as [b' ->]. simpl. eauto.
    - rewrite elim_compound. destruct (elim_all_nopanic es H Hn) as [b' ->]. simpl. eauto.
  Qed.

  Lemma optimize_no_panic_lemma : forall level p,
    In level [0; 1; 2; 3] -> no_todo_all p = true -> exists p', optimize refs level p = Ok p'.
  Proof.
    intros level p Hl Hn. destruct Hl as [<-|Hl].
    - rewrite optimize_level0. eauto.
    - rewrite (optimize_level123 refs level p Hl). unfold eliminate, eliminate_unused_variables.
      apply elim_all_nopanic; auto. apply Forall_forall. intros e _. apply elim_nopanic.
  Qed.
End NoPanic.
