(** C24 — model of the location calculus and of the arithmetic of the diagnostic renderer.

      crates/erg_common/error.rs   Location {Range, LineRange, Line, Unknown}; ln_begin / ln_end / col_begin /
                                   col_end / length; concat, left_main_concat, stream, slow_stream, unknown_or;
                                   format_context, SubMessage::format_code_and_pointer (the rows
                                   "<lineno> | <source line>" / "<gutter><spaces><marks>")
      crates/erg_common/io.rs      Input::reread_lines (InputKind::Str / Pipe and InputKind::File)
      crates/erg_parser/token.rs   Locational for Token (Token::loc)

    Definitions only.  Numbers are [Z]; u32 / usize additions are not modelled as overflowing (line and column
    numbers below 2^30, stated in the check's assumptions).  Every usize subtraction, power_assert! and slice index on
    the modelled path is an explicit [Panic] (saturating_sub, cmp::max and Vec::get(..) are total and modelled as
    such).  `" ".repeat(n)` / `mark.repeat(n)` are modelled by their count [n] (they allocate n bytes; no panic for
    n < 2^32 on a 64-bit machine; running out of memory is not modelled).
    Text is a [list Z] of Unicode scalar values; token locations come from the lexer model of C08. *)
From Coq Require Import ZArith List Bool Arith.
Require Import ErgV.Lexer.Model .
Import ListNotations.
Open Scope Z_scope.

(* ------------------------------------------------------------------ Location *)
Inductive location :=
| Range (ln_b col_b ln_e col_e : Z)      (* lines 1-origin, columns 0-origin, in characters *)
| LineRange (ln_b ln_e : Z)
| Line (ln : Z)
| Unknown.

(* Location::ln_begin / ln_end / col_begin / col_end : Option<u32> *)
Definition ln_begin (l : location) : option Z :=
  match l with Range b _ _ _ | LineRange b _ | Line b => Some b | Unknown => None end.
Definition ln_end (l : location) : option Z :=
  match l with Range _ _ e _ | LineRange _ e | Line e => Some e | Unknown => None end.
Definition col_begin (l : location) : option Z :=
  match l with Range _ c _ _ => Some c | _ => None end.
Definition col_end (l : location) : option Z :=
  match l with Range _ _ _ c => Some c | _ => None end.

Definition is_unknown (l : location) : bool := match l with Unknown => true | _ => false end.
(* Location::unknown_or *)
Definition unknown_or (l other : location) : location := if is_unknown l then other else l.
(* Location::is_real *)
Definition is_real (l : location) : bool :=
  match l with
  | Line a => negb (a =? 0)
  | LineRange a b | Range a _ b _ => negb (a =? 0) && negb (b =? 0)
  | Unknown => false
  end.

(* Location::length: `*col_end - *col_begin` on u32 (debug build: panics when col_end < col_begin) *)
Definition loc_length (l : location) : res (option Z) :=
  match l with
  | Range _ cb _ ce => if ce <? cb then Panic else Ok (Some (ce - cb))
  | _ => Ok None
  end.

(* Location::concat(l, r): from the beginning of l to the end of r *)
Definition concat (l r : location) : location :=
  match ln_begin l, col_begin l, ln_end r, col_end r with
  | Some lb, Some cb, Some le, Some ce => Range lb cb le ce
  | Some lb, _, Some le, _ => LineRange lb le
  | Some a, _, None, _ => Line a
  | None, _, Some a, _ => Line a
  | None, _, None, _ => Unknown
  end.

(* Location::left_main_concat *)
Definition left_main_concat (l r : location) : location :=
  match ln_begin l, col_begin l, ln_end r, col_end r with
  | Some lb, Some cb, Some le, Some ce => Range lb cb le ce
  | Some _, _, None, None => l
  | Some lb, _, Some le, _ => LineRange lb le
  | Some a, _, None, _ => Line a
  | None, _, Some a, _ => Line a
  | None, _, None, _ => Unknown
  end.

(* Location::stream: concat of the first and the last element *)
Definition stream (ls : list location) : location :=
  match ls with
  | [] => Unknown
  | f :: _ => concat f (last ls Unknown)
  end.

(* Location::slow_stream: concat of the first and the last element that are not Unknown *)
Definition slow_stream (ls : list location) : location :=
  match find (fun l => negb (is_unknown l)) ls, find (fun l => negb (is_unknown l)) (rev ls) with
  | Some f, Some l => concat f l
  | _, _ => Unknown
  end.

(* Locational for Token: Token::loc *)
Definition token_loc (t : token) : location :=
  if tk_line t =? 0 then Unknown else Range (tk_line t) (tk_col t) (tk_line t) (tk_col_end t).

(* ------------------------------------------------------------------ source lines *)
Definition zlenl {A} (l : list A) : Z := Z.of_nat (length l).

(* str::split('\n'): always at least one piece *)
Fixpoint split_nl_acc (l : list Z) (cur : list Z) : list (list Z) :=
  match l with
  | [] => [rev cur]
  | c :: r => if c =? 10 then rev cur :: split_nl_acc r [] else split_nl_acc r (c :: cur)
  end.
Definition split_nl (l : list Z) : list (list Z) := split_nl_acc l [].

(* str::lines(): lines end at \n or \r\n, a final empty piece is not a line *)
Definition strip_cr (l : list Z) : list Z :=
  match rev l with 13 :: r => rev r | _ => l end.
Definition lines_of (l : list Z) : list (list Z) :=
  let ps := split_nl l in
  let ps' := match rev ps with [] :: r => rev r | _ => ps end in
  map strip_cr ps'.

(* String::len(): bytes of the UTF-8 encoding *)
Definition utf8_len (c : Z) : Z := if c <? 128 then 1 else if c <? 2048 then 2 else if c <? 65536 then 3 else 4.
Fixpoint byte_len (l : list Z) : Z := match l with [] => 0 | c :: r => utf8_len c + byte_len r end.

(* u32::to_string().len() *)
Definition ndigits (z : Z) : Z :=
  if z <? 10 then 1 else if z <? 100 then 2 else if z <? 1000 then 3 else if z <? 10000 then 4
  else if z <? 100000 then 5 else if z <? 1000000 then 6 else if z <? 10000000 then 7
  else if z <? 100000000 then 8 else if z <? 1000000000 then 9 else 10.

Inductive ikind := IStr | IFile.     (* InputKind::Str / Pipe ; InputKind::File *)

Definition qqq : list Z := [63; 63; 63].     (* "???" *)

(* Input::reread_lines(ln_begin, ln_end) *)
Definition reread_lines (k : ikind) (src : list Z) (lb le : Z) : res (list (list Z)) :=
  if lb <? 1 then Panic                                       (* power_assert!(ln_begin, >=, 1) *)
  else
    match k with
    | IStr =>
      (* s.split('\n').collect::<Vec<_>>().get(ln_begin - 1..=ln_end - 1).unwrap_or_default() *)
      if le <? 1 then Panic                                   (* ln_end - 1 on usize *)
      else
        let ls := split_nl src in
        if (lb - 1 <=? le) && (le <=? zlenl ls)
        then Ok (firstn (Z.to_nat (le - (lb - 1))) (skipn (Z.to_nat (lb - 1)) ls))
        else Ok []
    | IFile =>
      (* let mut lines = code.lines().skip(ln_begin - 1); for _ in ln_begin..=ln_end { push(lines.next().unwrap_or("")) } *)
      let ls := skipn (Z.to_nat (lb - 1)) (lines_of src) in
      Ok (map (fun i => nth i ls []) (seq 0 (Z.to_nat (le - lb + 1))))
    end.

(* ------------------------------------------------------------------ rendering *)
(** one rendered source line: the line number printed, the code printed after the gutter, the number of blanks
    between the gutter character of the marker row and the first mark, and the number of marks
    ([-1]: no marker row). *)
Record row := { r_lineno : Z; r_code : list Z; r_blanks : Z; r_marks : Z }.

Definition sat_sub (a b : Z) : Z := Z.max 0 (a - b).       (* usize::saturating_sub *)

(* fn format_context(e, ln_begin, ln_end, col_begin, col_end, ..): the rows of the loop
   `for (i, lineno) in (ln_begin..=ln_end).enumerate()`; the gutter of the marker row is
   "<max_digit blanks> <vbreak> ", so one blank always precedes the `" ".repeat(col_begin)` *)
Definition format_context (k : ikind) (src : list Z) (lb le cb ce : Z) : res (list row) :=
  match reread_lines k src lb le with
  | Ok codes =>
    if le <? lb then Panic                                    (* let final_step = ln_end - ln_begin; *)
    else
      let final := Z.to_nat (le - lb) in
      Ok (map (fun i =>
                 let code := nth i codes qqq in               (* codes.get(i).unwrap_or(&not_found) *)
                 let lineno := lb + Z.of_nat i in
                 if Nat.eqb i 0 && Nat.eqb i final then
                   {| r_lineno := lineno; r_code := code; r_blanks := 1 + cb; r_marks := Z.max 1 (sat_sub ce cb) |}
                 else if Nat.eqb i 0 then
                   {| r_lineno := lineno; r_code := code; r_blanks := 1 + cb;
                      r_marks := Z.max 1 (sat_sub (byte_len code) cb) |}
                 else if Nat.eqb i final then
                   {| r_lineno := lineno; r_code := code; r_blanks := 1; r_marks := ce |}
                 else
                   {| r_lineno := lineno; r_code := code; r_blanks := 1; r_marks := Z.max 1 (byte_len code) |})
              (seq 0 (S final)))
  | Panic => Panic
  | Fuel => Fuel
  end.

(* SubMessage::format_code_and_pointer: match self.loc.unknown_or(e.core().loc) *)
Definition render (k : ikind) (src : list Z) (sub_loc core_loc : location) : res (list row) :=
  match unknown_or sub_loc core_loc with
  | Range lb cb le ce => format_context k src lb le cb ce
  | LineRange lb le =>
    match reread_lines k src lb le with
    | Ok codes =>
      (* for (i, lineno) in (ln_begin..=ln_end).enumerate(): gutter "<digits blanks> <vbreak>" then
         " ".repeat(digits) then mark.repeat(max(1, codes.get(i).map_or(1, len))) *)
      Ok (map (fun i =>
                 let lineno := lb + Z.of_nat i in
                 {| r_lineno := lineno; r_code := nth i codes [];
                    r_blanks := ndigits lineno;
                    r_marks := Z.max 1 (match nth_error codes i with Some c => byte_len c | None => 1 end) |})
              (seq 0 (Z.to_nat (le - lb + 1))))
    | Panic => Panic
    | Fuel => Fuel
    end
  | Line ln =>
    match reread_lines k src ln ln with
    | Ok codes => Ok [ {| r_lineno := ln; r_code := hd qqq codes; r_blanks := 0; r_marks := -1 |} ]
    | Panic => Panic
    | Fuel => Fuel
    end
  | Unknown => Ok []          (* File: "\n"; otherwise the whole input after " ? | " (no arithmetic) *)
  end.

(* ErrorDisplay::show: every sub message is rendered (an error without sub messages renders its own location) *)
Fixpoint render_all (k : ikind) (src : list Z) (subs : list location) (core_loc : location) : res (list (list row)) :=
  match subs with
  | [] => Ok []
  | s :: r =>
    match render k src s core_loc with
    | Ok rows => match render_all k src r core_loc with Ok rest => Ok (rows :: rest) | Panic => Panic | Fuel => Fuel end
    | Panic => Panic
    | Fuel => Fuel
    end
  end.
Definition show (k : ikind) (src : list Z) (subs : list location) (core_loc : location) : res (list (list row)) :=
  match subs with
  | [] => render_all k src [core_loc] core_loc
  | _ => render_all k src subs core_loc
  end.
