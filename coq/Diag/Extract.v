(** extraction entry point for the C24 correspondence check and judge *)
From Coq Require Import ZArith List Bool Arith.
Require Import ErgV.Common.Sx ErgV.Lexer.Model ErgV.Lexer.Spec ErgV.Diag.Model ErgV.Diag.Spec .
Import ListNotations.
Open Scope Z_scope.

Fixpoint index_kind (k : tkind) (l : list tkind) (i : Z) : Z :=
  match l with
  | [] => -1
  | x :: r => if kind_eqb k x then i else index_kind k r (i + 1)
  end.
Definition kind_code (k : tkind) : Z := index_kind k all_kinds 0.

(* loc = (0 lb cb le ce) | (1 lb le) | (2 l) | (3) *)
Definition enc_loc (l : location) : sx :=
  match l with
  | Range a b c d => SL [SZ 0; SZ a; SZ b; SZ c; SZ d]
  | LineRange a b => SL [SZ 1; SZ a; SZ b]
  | Line a => SL [SZ 2; SZ a]
  | Unknown => SL [SZ 3]
  end.
Definition dec_loc (x : sx) : location :=
  let z i := sx_z (sx_nth x i) in
  let t := z 0%nat in
  if t =? 0 then Range (z 1%nat) (z 2%nat) (z 3%nat) (z 4%nat)
  else if t =? 1 then LineRange (z 1%nat) (z 2%nat)
  else if t =? 2 then Line (z 1%nat)
  else Unknown.

Definition enc_token (t : token) : sx :=
  SL [SZ (kind_code (tk_kind t)); sx_of_zs (tk_content t); SZ (tk_line t); SZ (tk_col t); SZ (tk_col_end t);
      SZ (tk_start t); enc_loc (token_loc t)].

Definition enc_row (r : row) : sx := SL [SZ (r_lineno r); sx_of_zs (r_code r); SZ (r_blanks r); SZ (r_marks r)].
Definition dec_kind (x : sx) : ikind := if sx_z x =? 0 then IStr else IFile.

(* expectation = (0 name) | (1 ln cb ce) | (2) *)
Definition dec_exp (x : sx) : expectation :=
  let t := sx_z (sx_nth x 0) in
  if t =? 0 then ExpName (sx_zs (sx_nth x 1))
  else if t =? 1 then ExpWithin (sx_z (sx_nth x 1)) (sx_z (sx_nth x 2)) (sx_z (sx_nth x 3))
  else ExpNone.
(* first marker row = () | (blanks marks) *)
Definition dec_first_row (x : sx) : option (Z * Z) :=
  match sx_l x with
  | [a; b] => Some (sx_z a, sx_z b)
  | _ => None
  end.

Definition lex_all_tokens (x : sx) : option (list token) :=
  let starts := sx_zs (sx_nth x 1) in
  let conts := sx_zs (sx_nth x 2) in
  match lex (fun c => memz c starts) (fun c => memz c conts) true true (sx_zs (sx_nth x 3)) with
  | Ok items => Some (map item_token items)      (* also the tokens carried by lexical errors *)
  | _ => None
  end.

Definition lex_tokens (x : sx) : option (list token) :=
  let starts := sx_zs (sx_nth x 1) in
  let conts := sx_zs (sx_nth x 2) in
  match lex (fun c => memz c starts) (fun c => memz c conts) true true (sx_zs (sx_nth x 3)) with
  | Ok items => Some (tokens_of items)
  | _ => None
  end.

(** modes:
    (0 starts conts text)                  -> (0 token ...) | (-999): the tokens of the lexer model with their Token::loc
         token = (kind content line col col_end start loc)
    (1 input_kind text sub_loc core_loc)   -> (0 row ...) | (-999) panic      row = (lineno code blanks marks)
    (2 l r) concat   (3 (l ...)) stream   (4 (l ...)) slow_stream   (5 l r) left_main_concat   -> loc
    (6 text crashed loc expectation first_row) -> judge verdict
    (7 starts conts text loc)              -> 1 if the location is in the known class of C24 (known_c24) else 0 *)
Definition run (x : sx) : sx :=
  let mode := sx_z (sx_nth x 0) in
  if mode =? 0 then
    match lex_tokens x with
    | Some ts => SL (SZ 0 :: map enc_token ts)
    | None => SL [SZ (-999)]
    end
  else if mode =? 1 then
    match render (dec_kind (sx_nth x 1)) (sx_zs (sx_nth x 2)) (dec_loc (sx_nth x 3)) (dec_loc (sx_nth x 4)) with
    | Ok rows => SL (SZ 0 :: map enc_row rows)
    | _ => SL [SZ (-999)]
    end
  else if mode =? 2 then enc_loc (concat (dec_loc (sx_nth x 1)) (dec_loc (sx_nth x 2)))
  else if mode =? 3 then enc_loc (stream (map dec_loc (sx_l (sx_nth x 1))))
  else if mode =? 4 then enc_loc (slow_stream (map dec_loc (sx_l (sx_nth x 1))))
  else if mode =? 5 then enc_loc (left_main_concat (dec_loc (sx_nth x 1)) (dec_loc (sx_nth x 2)))
  else if mode =? 6 then
    SZ (judge (sx_zs (sx_nth x 1)) (sx_to_bool (sx_nth x 2)) (dec_loc (sx_nth x 3)) (dec_exp (sx_nth x 4))
              (dec_first_row (sx_nth x 5)))
  else
    match lex_all_tokens x with
    | Some ts => sx_bool (known_c24 (normalize_newline (sx_zs (sx_nth x 3))) ts (dec_loc (sx_nth x 4)))
    | None => SZ 0
    end.

Require Extraction.
Require Import ExtrOcamlBasic.
Extraction Language OCaml.
Extraction "model.ml" run.
