(** C24 — an identifier token's location is exactly its text in the source.

    Built on the lexer model and the theorems of C08 (Lexer/Proofs*.v): [lex_pos_faithful] gives the line/column of
    the first character of every token; here we add, for tokens of kind Symbol, that the content is the source
    text verbatim, contains no line break, and that col_end = col_begin + number of characters. *)
From Coq Require Import ZArith List Bool Arith Lia.
Require Import ErgV.Lexer.Model ErgV.Lexer.Spec ErgV.Lexer.Proofs ErgV.Lexer.ProofsSub ErgV.Lexer.ProofsNext .
Require Import ErgV.Diag.Model ErgV.Diag.Spec ErgV.Diag.Proofs .
Import ListNotations.
Open Scope Z_scope.

(* ------------------------------------------------------------------ a state-free logic for "which items can come out" *)
Definition wpi {A} (m : M A) (Q : A -> Prop) : Prop :=
  forall st, match m st with Ok (a, _) => Q a | _ => True end.

Lemma wpi_bind {A B} (m : M A) (f : A -> M B) (Q : B -> Prop) :
  (forall a, wpi (f a) Q) -> wpi (bind m f) Q.
Proof. intros H st. unfold bind. destruct (m st) as [[a st']| |]; auto. apply H. Qed.
Lemma wpi_bind' {A B} (m : M A) (f : A -> M B) (Q1 : A -> Prop) (Q : B -> Prop) :
  wpi m Q1 -> (forall a, Q1 a -> wpi (f a) Q) -> wpi (bind m f) Q.
Proof. intros H1 H st. unfold bind. specialize (H1 st). destruct (m st) as [[a st']| |]; auto. apply H. exact H1. Qed.
Lemma wpi_ret {A} (a : A) (Q : A -> Prop) : Q a -> wpi (ret a) Q.
Proof. intros H st. exact H. Qed.
Lemma wpi_stuck {A} (Q : A -> Prop) : wpi (@panic A) Q /\ wpi (@out_of_fuel A) Q.
Proof. split; intros st; exact I. Qed.

Definition built (t : token) (k : tkind) (c : list Z) (g : Z) : Prop :=
  tk_kind t = k /\ tk_content t = c /\ tk_start t = g /\ tk_col_end t = tk_col t + zlen c.
Lemma wpi_emit k c g : wpi (emit_singleline_token k c g) (fun t => built t k c g).
Proof. intros st. cbn. repeat split. Qed.
Lemma wpi_emit_multi k cb c g : wpi (emit_multiline_token true k cb c g) (fun t => built t k c g).
Proof. intros st. cbn. repeat split. Qed.

(** the item / step is not a Symbol token *)
Definition ns_item (it : item) : Prop := match it with ITok t => tk_kind t <> Symbol | IErr _ _ => True end.
Definition ns_opt (o : option item) : Prop := match o with Some it => ns_item it | None => True end.
Definition ns_step (s : step) : Prop := match s with SItem it => ns_item it | _ => True end.

Ltac ns_leaf :=
  cbn [ns_item ns_opt ns_step]; try exact I;
  match goal with
  | H : built ?t _ _ _ |- tk_kind ?t <> Symbol =>
    let K := fresh in destruct H as (K & _); rewrite K;
    first [ discriminate
          | match goal with |- int_or_nat ?n <> _ => unfold int_or_nat; destruct (opt_is (hd_error n) 45 && negb (is_zero n)); discriminate end
          | match goal with |- quote_kind ?q <> _ => destruct q; discriminate end
          | assumption ]
  end.

Ltac wi1 :=
  cbv zeta;
  lazymatch goal with
  | |- wpi (bind (emit_singleline_token _ _ _) _) _ => eapply wpi_bind'; [apply wpi_emit | cbv beta; intros ? ?]
  | |- wpi (bind (emit_multiline_token _ _ _ _ _) _) _ => eapply wpi_bind'; [apply wpi_emit_multi | cbv beta; intros ? ?]
  | |- wpi (bind _ _) _ => apply wpi_bind; intros ?
  | |- wpi (ret _) _ => apply wpi_ret
  | |- wpi (ok_tok _) _ => apply wpi_ret
  | |- wpi (err_tok _ _) _ => apply wpi_ret
  | |- wpi out_of_fuel _ => apply wpi_stuck
  | |- wpi panic _ => apply wpi_stuck
  | |- wpi (if ?b then _ else _) _ => destruct b
  | |- wpi (match ?x with _ => _ end) _ => destruct x
  | |- wpi (accept _ _ _) _ => unfold accept
  | |- wpi (reject _ _ _ _) _ => unfold reject
  | |- wpi (invalid_unicode_character _ _) _ => unfold invalid_unicode_character
  | |- wpi (unwrap _) _ => unfold unwrap
  end.

Create HintDb ns.
Ltac wi := repeat first [ wi1 | solve [ns_leaf] | solve [auto with ns] ].

Section NS.
Variable xc : Z -> bool.

Lemma lex_comment_loop_ns g : forall n s, wpi (lex_comment_loop true n s g) ns_opt.
Proof. induction n as [|n IH]; intros s; cbn [lex_comment_loop]; wi. Qed.

Lemma lex_multi_line_comment_loop_ns g : forall n s nest, wpi (lex_multi_line_comment_loop true n s nest g) ns_opt.
Proof. induction n as [|n IH]; intros s nest; cbn [lex_multi_line_comment_loop]; wi. Qed.

Lemma lex_indent_dedent_ns spaces : wpi (lex_indent_dedent spaces) ns_opt.
Proof.
  unfold lex_indent_dedent. wi.
Qed.

Lemma lex_space_indent_dedent_ns : wpi (lex_space_indent_dedent true) ns_opt.
Proof. unfold lex_space_indent_dedent. pose proof lex_indent_dedent_ns. wi. Qed.

Lemma lex_exponent_ns m g : wpi (lex_exponent true m g) ns_item.
Proof. unfold lex_exponent. wi. Qed.
Hint Resolve lex_exponent_ns : ns.

Lemma lex_ratio_ns m g : wpi (lex_ratio true m g) ns_item.
Proof. unfold lex_ratio. wi. Qed.
Hint Resolve lex_ratio_ns : ns.

Lemma lex_radix_ns k p m g : k <> Symbol -> wpi (lex_radix true k p m g) ns_item.
Proof. intros K. unfold lex_radix. wi. Qed.

Lemma lex_num_dot_ns m g : wpi (lex_num_dot xc true m g) ns_item.
Proof. unfold lex_num_dot. wi. Qed.
Hint Resolve lex_num_dot_ns : ns.

Lemma lex_num_loop_ns g : forall n m, wpi (lex_num_loop xc true n m g) ns_item.
Proof.
  induction n as [|n IH]; intros m; cbn [lex_num_loop]; wi;
    try (apply lex_radix_ns; discriminate).
Qed.

Lemma lex_num_ns c g : wpi (lex_num xc true c g) ns_item.
Proof. unfold lex_num. wi. apply lex_num_loop_ns. Qed.

Lemma lex_single_str_loop_ns g : forall n s, wpi (lex_single_str_loop true true n s g) ns_item.
Proof. induction n as [|n IH]; intros s; cbn [lex_single_str_loop]; wi. Qed.

Lemma lex_multi_line_str_loop_ns g q cb : forall n s, wpi (lex_multi_line_str_loop true true n q cb s g) ns_item.
Proof. induction n as [|n IH]; intros s; cbn [lex_multi_line_str_loop]; wi. Qed.

Lemma lex_interpolation_mid_loop_ns g : forall n s, wpi (lex_interpolation_mid_loop true true n s g) ns_item.
Proof. induction n as [|n IH]; intros s; cbn [lex_interpolation_mid_loop]; wi. Qed.

Lemma lex_single_str_ns g : wpi (lex_single_str true true g) ns_item.
Proof. unfold lex_single_str. wi. apply lex_single_str_loop_ns. Qed.
Lemma lex_multi_line_str_ns q g : wpi (lex_multi_line_str true true q g) ns_item.
Proof. unfold lex_multi_line_str. wi. apply lex_multi_line_str_loop_ns. Qed.
Lemma lex_interpolation_mid_ns g : wpi (lex_interpolation_mid true true g) ns_item.
Proof. unfold lex_interpolation_mid. wi. apply lex_interpolation_mid_loop_ns. Qed.

Lemma by_fix_ns ki kp cont ill g : ki <> Symbol -> kp <> Symbol -> wpi (by_fix ki kp cont ill g) ns_step.
Proof. intros A B. unfold by_fix. wi. Qed.
End NS.

(* ------------------------------------------------------------------ a partial-correctness logic with the state *)
Definition pwp {A} (m : M A) (Q : A -> lstate -> Prop) (st : lstate) : Prop :=
  match m st with Ok (a, st') => Q a st' | _ => True end.
Lemma pwp_bind {A B} (m : M A) (f : A -> M B) (Q : B -> lstate -> Prop) st :
  pwp m (fun a st' => pwp (f a) Q st') st -> pwp (bind m f) Q st.
Proof. unfold pwp, bind. destruct (m st) as [[a st']| |]; auto. Qed.
Lemma pwp_mono {A} (m : M A) (Q Q' : A -> lstate -> Prop) st :
  pwp m Q st -> (forall a st', Q a st' -> Q' a st') -> pwp m Q' st.
Proof. unfold pwp. destruct (m st) as [[a st']| |]; auto. Qed.
Lemma pwp_of_wpi {A} (m : M A) (Q : A -> Prop) st : wpi m Q -> pwp m (fun a _ => Q a) st.
Proof. intros H. exact (H st). Qed.
Lemma pwp_consume st (Q : option Z -> lstate -> Prop) :
  (forall st', match post st with c :: r => post st' = r -> Q (Some c) st' | [] => post st' = [] -> Q None st' end) ->
  pwp (consume true) Q st.
Proof.
  intros H. unfold pwp, consume. destruct (post st) as [|c r] eqn:E.
  - apply H. reflexivity.
  - apply H. cbn [andb]. destruct (c =? 10); reflexivity.
Qed.

(** what a Symbol token looks like: it starts at [g], its content is [hd] followed by the characters consumed *)
Definition verb (g : Z) (hd : list Z) (st0 : lstate) (t : token) (st' : lstate) : Prop :=
  tk_start t = g /\ tk_col_end t = tk_col t + zlen (tk_content t) /\
  exists y, tk_content t = hd ++ y /\ post st0 = y ++ post st'.

Definition nonl (w : list Z) : Prop := Forall (fun c => c <> 10) w.

Lemma take_while_post p : forall n acc st,
  pwp (take_while true n p acc)
      (fun r st' => exists x, r = acc ++ x /\ post st = x ++ post st' /\ Forall (fun c => p c = true) x) st.
Proof.
  induction n as [|n IH]; intros acc st; [exact I|].
  cbn [take_while]. apply pwp_bind. unfold pwp at 1, peek_cur, gets. cbv beta.
  unfold peek_cur_ch. destruct (post st) as [|c r] eqn:E; cbn [hd_error].
  - unfold pwp, ret. exists []. rewrite app_nil_r, E. repeat split. constructor.
  - destruct (p c) eqn:Pc.
    + apply pwp_bind. apply pwp_consume. rewrite E. intros st' E'.
      eapply pwp_mono; [apply IH|]. cbv beta. intros r' st'' (x & -> & Hx & Fx).
      exists (c :: x). rewrite <- app_assoc. split; [reflexivity|]. rewrite E' in Hx. rewrite Hx.
      split; [reflexivity|]. constructor; assumption.
    + unfold pwp, ret. exists []. rewrite app_nil_r, E. repeat split. constructor.
Qed.

Ltac fin :=
  cbn [post set_col set_prev]; repeat rewrite <- app_assoc; cbn [app]; subst;
  repeat (match goal with H : post ?s = _ |- context [post ?s] => rewrite H end);
  repeat rewrite <- app_assoc; cbn [app]; try rewrite app_nil_r; try congruence.

Section V.
Variable xs xc : Z -> bool.
Hypothesis xc_nl : xc 10 = false.

Definition sym_item (g : Z) (hd : list Z) (st0 : lstate) (it : item) (st' : lstate) : Prop :=
  forall t, it = ITok t -> verb g hd st0 t st' /\ (nonl hd -> nonl (tk_content t)).

Lemma lex_symbol_post c g st :
  pwp (lex_symbol xc true c g) (sym_item g [c] st) st.
Proof.
  unfold lex_symbol. apply pwp_bind. unfold pwp at 1, gets. cbv beta.
  apply pwp_bind. eapply pwp_mono; [apply take_while_post|]. cbv beta.
  intros cont st1 (x & -> & Hx & Fx).
  assert (NX : nonl x).
  { unfold nonl. rewrite Forall_forall in *. intros d Hd E. subst d. specialize (Fx _ Hd).
    unfold is_valid_continue_symbol_ch in Fx. rewrite xc_nl in Fx. discriminate. }
  apply pwp_bind. unfold pwp at 1, peek_cur, gets. cbv beta.
  unfold peek_cur_ch. destruct (post st1) as [|d r] eqn:E1; cbn [hd_error opt_is].
  - apply pwp_bind. unfold pwp at 1, ret. cbn [app].
    unfold pwp, bind, emit_singleline_token, ok_tok, ret. cbn.
    intros t [= <-]. cbn. split.
    + split; [reflexivity|]. split; [reflexivity|]. exists x. split; [reflexivity|]. fin.
    + intros Hc. unfold nonl in *. inversion Hc; subst. constructor; assumption.
  - destruct (d =? 33) eqn:E33.
    + apply Z.eqb_eq in E33. subst d.
      apply pwp_bind. apply pwp_bind. apply pwp_consume. rewrite E1. intros st2 E2.
      unfold pwp at 1, ret. cbn [app].
      destruct (x ++ [33]) as [|y0 ys] eqn:EX; [destruct x; discriminate|]. rewrite <- EX.
      assert (EC : c :: x ++ [33] = c :: (x ++ [33])) by reflexivity.
      unfold pwp, bind, emit_singleline_token, ok_tok, ret. cbn.
      intros t [= <-]. cbn. split.
      * split; [reflexivity|]. split; [reflexivity|]. exists (x ++ [33]). split; [reflexivity|].
        fin.
      * intros Hc. unfold nonl in *. inversion Hc; subst. constructor; [assumption|].
        apply Forall_app. split; [assumption|]. constructor; [discriminate|constructor].
    + apply pwp_bind. unfold pwp at 1, ret. cbn [app].
      unfold pwp, bind, emit_singleline_token, ok_tok, ret. cbn.
      intros t [= <-]. cbn. split.
      * split; [reflexivity|]. split; [reflexivity|]. exists x. split; [reflexivity|]. fin.
      * intros Hc. unfold nonl in *. inversion Hc; subst. constructor; assumption.
Qed.

Lemma lex_raw_ident_loop_post g st0 : forall n st z,
  post st0 = z ++ post st -> nonl z ->
  pwp (lex_raw_ident_loop true n (39 :: z) g)
      (fun it st' => forall t, it = ITok t -> verb g [39] st0 t st' /\ nonl (tk_content t)) st.
Proof.
  induction n as [|n IH]; intros st z HZ NZ; [exact I|].
  cbn [lex_raw_ident_loop]. apply pwp_bind. unfold pwp at 1, peek_cur, gets. cbv beta.
  unfold peek_cur_ch. destruct (post st) as [|c r] eqn:E; cbn [hd_error].
  - unfold pwp, bind, emit_singleline_token, err_tok, ret. cbn. intros t [=].
  - destruct (c =? 10) eqn:E10.
    { unfold pwp, bind, emit_singleline_token, err_tok, ret. cbn. intros t [=]. }
    apply Z.eqb_neq in E10.
    destruct (c =? 39) eqn:E39.
    + apply Z.eqb_eq in E39. subst c.
      apply pwp_bind. apply pwp_consume. rewrite E. intros st1 E1.
      apply pwp_bind. unfold pwp at 1, peek_cur, gets. cbv beta.
      unfold peek_cur_ch. destruct (post st1) as [|d r1] eqn:ED; cbn [hd_error opt_is].
      * apply pwp_bind. unfold pwp at 1, ret.
        unfold pwp, bind, emit_singleline_token, ok_tok, ret. cbn. intros t [= <-]. cbn. split.
        -- split; [reflexivity|]. split; [reflexivity|]. exists (z ++ [39]). split; [reflexivity|].
           fin.
        -- unfold nonl in *. constructor; [discriminate|]. apply Forall_app. split; [assumption|].
           constructor; [discriminate|constructor].
      * destruct (d =? 33) eqn:E33.
        -- apply Z.eqb_eq in E33. subst d.
           apply pwp_bind. apply pwp_bind. apply pwp_consume. rewrite ED. intros st2 E2.
           unfold pwp at 1, ret.
           unfold pwp, bind, emit_singleline_token, ok_tok, ret. cbn. intros t [= <-]. cbn. split.
           ++ split; [reflexivity|]. split; [reflexivity|]. exists (z ++ [39; 33]). split; [reflexivity|].
              fin.
           ++ unfold nonl in *. constructor; [discriminate|]. apply Forall_app. split; [assumption|].
              constructor; [discriminate|]. constructor; [discriminate|constructor].
        -- apply pwp_bind. unfold pwp at 1, ret.
           unfold pwp, bind, emit_singleline_token, ok_tok, ret. cbn. intros t [= <-]. cbn. split.
           ++ split; [reflexivity|]. split; [reflexivity|]. exists (z ++ [39]). split; [reflexivity|].
              fin.
           ++ unfold nonl in *. constructor; [discriminate|]. apply Forall_app. split; [assumption|].
              constructor; [discriminate|constructor].
    + apply pwp_bind. apply pwp_consume. rewrite E. intros st1 E1.
      destruct (is_bidi c).
      * unfold invalid_unicode_character, pwp, bind, emit_singleline_token, err_tok, ret. cbn. intros t [=].
      * replace ((39 :: z) ++ [c]) with (39 :: (z ++ [c])) by reflexivity.
        apply IH.
        -- fin.
        -- unfold nonl in *. apply Forall_app. split; [assumption|]. constructor; [assumption|constructor].
Qed.

Lemma list_eqb_eq a : forall b, list_eqb a b = true -> a = b.
Proof.
  induction a as [|x a IH]; intros [|y b] H; cbn in H; try discriminate; [reflexivity|].
  apply andb_prop in H as [H1 H2]. apply Z.eqb_eq in H1. subst. f_equal. apply IH. exact H2.
Qed.

Lemma definable_nonl op : is_definable_operator op = true -> nonl op.
Proof.
  unfold is_definable_operator. intros H. apply existsb_exists in H as (x & Hin & Hx).
  apply list_eqb_eq in Hx. subst x.
  assert (A : forallb (fun o => forallb (fun c => negb (c =? 10)) o) definable_operators = true) by reflexivity.
  rewrite forallb_forall in A. specialize (A _ Hin). rewrite forallb_forall in A.
  unfold nonl. rewrite Forall_forall. intros c Hc E. specialize (A _ Hc). subst c. discriminate.
Qed.

Lemma lex_backquote_loop_post g st0 : forall n op st,
  post st0 = op ++ post st ->
  pwp (lex_backquote_loop true n op g)
      (fun s st' => forall t, s = SItem (ITok t) -> verb g [96] st0 t st' /\ nonl (tk_content t)) st.
Proof.
  induction n as [|n IH]; intros op st HZ; [exact I|].
  cbn [lex_backquote_loop]. apply pwp_bind. apply pwp_consume.
  destruct (post st) as [|c r] eqn:E; intros st1 E1; cbv beta iota.
  - unfold reject, pwp, bind, emit_singleline_token, ret. cbn. intros t [=].
  - destruct (c =? 96) eqn:E96.
    + apply Z.eqb_eq in E96. subst c.
      destruct (is_definable_operator op) eqn:ED.
      * unfold accept, pwp, bind, emit_singleline_token, ret. cbn. intros t [= <-]. cbn. split.
        -- split; [reflexivity|]. split; [reflexivity|]. exists (op ++ [96]). split; [reflexivity|].
           fin.
        -- pose proof (definable_nonl _ ED) as N. unfold nonl in *. constructor; [discriminate|].
           apply Forall_app. split; [assumption|]. constructor; [discriminate|constructor].
      * unfold reject, pwp, bind, emit_singleline_token, ret. cbn. intros t [=].
    + apply IH. fin.
Qed.
End V.

(* ------------------------------------------------------------------ Iterator::next: where Symbol tokens come from *)
Lemma wpi_lift (m : M item) : wpi m ns_item -> wpi (lift m) ns_step.
Proof. intros H. unfold lift. eapply wpi_bind'; [exact H|]. cbv beta. intros i Hi. apply wpi_ret. exact Hi. Qed.

Lemma pwp_conj {A} (m : M A) (Q1 : A -> lstate -> Prop) (Q2 : A -> Prop) st :
  wp m Q1 st -> wpi m Q2 -> pwp m (fun a st' => Q1 a st' /\ Q2 a) st.
Proof. intros H1 H2. specialize (H2 st). unfold wp in H1. unfold pwp. destruct (m st) as [[a st']| |]; auto. Qed.

Section D.
Variable xs xc : Z -> bool.
Hypothesis xc_nl : xc 10 = false.

Hint Resolve lex_num_ns lex_ratio_ns lex_single_str_ns lex_multi_line_str_ns lex_interpolation_mid_ns : ns.
Hint Extern 1 (wpi (by_fix _ _ _ _ _) _) => apply by_fix_ns; discriminate : ns.
Hint Extern 1 (wpi (lift _) _) => apply wpi_lift : ns.

(** a Symbol token produced by the big match of Iterator::next (first character [c], consumed at [g]) *)
Definition SV (st0 : lstate) (c g : Z) (s : step) (st' : lstate) : Prop :=
  forall t, s = SItem (ITok t) -> tk_kind t = Symbol -> verb g [c] st0 t st' /\ nonl (tk_content t).

Lemma pwp_ns (m : M step) st0 c g st : wpi m ns_step -> pwp m (SV st0 c g) st.
Proof.
  intros H. specialize (H st). unfold pwp. destruct (m st) as [[s st']| |]; auto.
  intros t -> K. cbn in H. contradiction.
Qed.

Ltac arm := solve [apply pwp_ns; wi].

Lemma dispatch_sv c g st : pwp (dispatch xs xc true true c g) (SV st c g) st.
Proof.
  unfold dispatch.
  apply pwp_bind. unfold pwp at 1, peek_cur, gets. cbv beta.
  apply pwp_bind. unfold pwp at 1, peek_next, gets. cbv beta.
  repeat (lazymatch goal with |- pwp (if ?b then _ else _) _ _ => destruct b eqn:? end; [arm|]).
  (* c = ' : raw identifier, doc comment or error *)
  lazymatch goal with |- pwp (if ?b then _ else _) _ _ => destruct b eqn:E39 end.
  { apply Z.eqb_eq in E39. subst c.
    assert (RAW : pwp (lift (lex_raw_ident true g)) (SV st 39 g) st).
    { unfold lift, lex_raw_ident. apply pwp_bind. apply pwp_bind. unfold pwp at 1, gets. cbv beta.
      eapply pwp_mono; [apply (lex_raw_ident_loop_post g st _ st []); [reflexivity|constructor]|].
      cbv beta. intros it st' H. unfold pwp, ret. intros t [= ->] K. apply H. reflexivity. }
    destruct (peek_cur_ch st) as [c1|]; [|arm].
    destruct (peek_next_ch st) as [c2|].
    - destruct ((c1 =? 39) && (c2 =? 39)); [arm|]. destruct (c1 =? 39); [arm|exact RAW].
    - destruct (c1 =? 39); [arm|exact RAW]. }
  (* c = ` *)
  lazymatch goal with |- pwp (if ?b then _ else _) _ _ => destruct b eqn:E96 end.
  { apply Z.eqb_eq in E96. subst c.
    apply pwp_bind. unfold pwp at 1, gets. cbv beta.
    eapply pwp_mono; [apply (lex_backquote_loop_post g st _ [] st); reflexivity|].
    cbv beta. intros s st' H t Hs K. apply H. exact Hs. }
  lazymatch goal with |- pwp (if ?b then _ else _) _ _ => destruct b eqn:? end; [arm|].
  lazymatch goal with |- pwp (if ?b then _ else _) _ _ => destruct b eqn:? end; [|arm].
  (* an identifier *)
  assert (C10 : c <> 10).
  { repeat match goal with H : (c =? ?k) = false |- _ => apply Z.eqb_neq in H end. assumption. }
  unfold lift. apply pwp_bind.
  eapply pwp_mono; [apply (lex_symbol_post xc xc_nl c g st)|].
  cbv beta. intros it st' H. unfold pwp, ret. intros t [= ->] K.
  destruct (H t eq_refl) as [V N]. split; [exact V|]. apply N. constructor; [exact C10|constructor].
Qed.

(** a Symbol token is the source text verbatim, without line breaks *)
Definition sym_ok (src : list Z) (t : token) : Prop :=
  tk_col_end t = tk_col t + zlen (tk_content t) /\ nonl (tk_content t) /\
  exists rest, skipn (Z.to_nat (tk_start t)) src = tk_content t ++ rest.

Lemma skipn_rev_app (p q : list Z) : skipn (Z.to_nat (zlen p)) (rev p ++ q) = q.
Proof.
  unfold zlen. rewrite Nat2Z.id. rewrite <- (rev_length p). rewrite skipn_app, skipn_all, Nat.sub_diag. reflexivity.
Qed.

Lemma next_sym src st t st' :
  Inv src st -> next xs xc true true st = Ok (SItem (ITok t), st') -> tk_kind t = Symbol -> sym_ok src t.
Proof.
  intros I E K.
  assert (P : pwp (next xs xc true true)
                  (fun s st' => forall t, s = SItem (ITok t) -> tk_kind t = Symbol -> sym_ok src t) st).
  2:{ unfold pwp in P. rewrite E in P. apply P; [reflexivity|exact K]. }
  clear E K t st'. unfold next.
  apply pwp_bind. unfold pwp at 1, gets. cbv beta.
  destruct (kind_eqb (prev_kind st) EOF) eqn:EK; [unfold pwp, ret; intros t [=]|].
  assert (PE : prev_kind st <> EOF) by (intros H; rewrite H in EK; discriminate).
  apply pwp_bind.
  eapply pwp_mono; [apply pwp_conj; [apply (lex_space_indent_dedent_spec src st I PE)|apply lex_space_indent_dedent_ns]|].
  cbv beta. intros r st1 [H1 N1]. destruct r as [it|].
  { unfold pwp, ret. intros t [= ->] K. cbn in N1. contradiction. }
  cbn [sid_post] in H1. destruct H1 as (I1 & _).
  apply pwp_bind. unfold pwp at 1, peek_cur, gets. cbv beta.
  apply pwp_bind. unfold pwp at 1, peek_next, gets. cbv beta.
  apply pwp_bind.
  eapply pwp_mono; [apply pwp_conj; [apply (comments_spec src st1 I1)|]|].
  { unfold lex_multi_line_comment, lex_comment. pose proof lex_comment_loop_ns. pose proof lex_multi_line_comment_loop_ns. wi. }
  cbv beta. intros cm st2 [[(I2 & _) _] N2]. destruct cm as [it|].
  { unfold pwp, ret. intros t [= ->] K. cbn in N2. contradiction. }
  apply pwp_bind. unfold pwp at 1, sync_token_starts. cbn [andb].
  destruct (Z.min (cursor st2) (len st2) <? line_head st2); [exact Logic.I|].
  set (s3 := set_col (set_lineno st2 (cur_line st2)) (Z.min (cursor st2) (len st2) - line_head st2)).
  assert (I3 : Inv src s3) by (eapply Inv_core; [|exact I2]; repeat split).
  apply pwp_bind. unfold pwp at 1, ghost_pos, gets. cbv beta. rewrite (ghost_eq src _ I3).
  apply pwp_bind. apply pwp_consume. destruct (post s3) as [|c r] eqn:E3; intros st4 E4; cbv beta iota.
  - apply pwp_bind. unfold pwp at 1, gets. cbv beta.
    destruct (indent_stack st4);
      unfold pwp, bind, modify, accept, emit_singleline_token, ret; cbn; intros t [= <-]; cbn; discriminate.
  - eapply pwp_mono; [apply dispatch_sv|]. cbv beta. intros s st' H t Hs K.
    destruct (H t Hs K) as ((V1 & V2 & y & V3 & V4) & N).
    split; [exact V2|]. split; [exact N|].
    exists (post st'). rewrite V1, <- (inv_zip _ _ I3), skipn_rev_app, E3, V3. cbn [app]. rewrite <- V4, E4. reflexivity.
Qed.
End D.

(* ------------------------------------------------------------------ from Iterator::next to Lexer::lex *)
(** every item of a run comes out of a call of next on a state satisfying the invariant of C08 *)
Lemma lex_loop_forall (xs xc : Z -> bool) src (P : item -> Prop) :
  (forall st it st', Inv src st -> next xs xc true true st = Ok (SItem it, st') -> P it) ->
  forall n st acc r, Inv src st -> Forall P acc -> lex_loop xs xc true true n st acc = Ok r -> Forall P r.
Proof.
  intros HP. induction n as [|n IH]; intros st acc r I A E; [discriminate|].
  cbn [lex_loop] in E. pose proof (next_spec src xs xc st I) as W. unfold wp in W.
  destruct (next xs xc true true st) as [[s st']| |] eqn:EN; try contradiction.
  destruct s as [|it|]; cbn [next_post] in W.
  - injection E as <-. apply Forall_rev. exact A.
  - destruct W as (_ & I' & _). eapply IH; [exact I'| |exact E]. constructor; [|exact A]. eapply HP; [exact I|exact EN].
  - destruct W as (_ & I' & _). eapply IH; [exact I'|exact A|exact E].
Qed.

Lemma lex_symbols_ok (xs xc : Z -> bool) src items t :
  xc 10 = false -> lex xs xc true true src = Ok items -> In t (tokens_of items) -> tk_kind t = Symbol ->
  sym_ok (normalize_newline src) t.
Proof.
  intros X E Hin K. unfold lex in E. set (s := normalize_newline src) in *.
  assert (F : Forall (fun it => forall u, it = ITok u -> tk_kind u = Symbol -> sym_ok s u) items).
  { eapply (lex_loop_forall xs xc s); [|apply Inv_init; reflexivity|constructor|exact E].
    intros st it st' I EN u -> Ku. eapply next_sym; eassumption. }
  unfold tokens_of in Hin. apply in_flat_map in Hin as (it & Hit & Ht).
  rewrite Forall_forall in F. destruct it as [u|e u]; [|destruct Ht].
  destruct Ht as [<-|[]]. eapply F; [exact Hit|reflexivity|exact K].
Qed.

(* ------------------------------------------------------------------ positions and lines *)
Lemma split_first : forall l cur, exists tail tl, split_nl_acc l cur = (rev cur ++ tail) :: tl.
Proof.
  induction l as [|c r IH]; intros cur; cbn [split_nl_acc].
  - exists [], []. rewrite app_nil_r. reflexivity.
  - destruct (c =? 10).
    + exists [], (split_nl_acc r []). rewrite app_nil_r. reflexivity.
    + destruct (IH (c :: cur)) as (tail & tl & E). exists (c :: tail), tl. rewrite E. cbn [rev]. rewrite <- app_assoc. reflexivity.
Qed.

Lemma split_head : forall w rest cur, nonl w ->
  exists tail tl, split_nl_acc (w ++ rest) cur = (rev cur ++ w ++ tail) :: tl.
Proof.
  induction w as [|c w IH]; intros rest cur N; cbn [app].
  - apply split_first.
  - inversion N as [|? ? C N']; subst. cbn [split_nl_acc]. apply Z.eqb_neq in C. rewrite C.
    destruct (IH rest (c :: cur) N') as (tail & tl & E). exists tail, tl. rewrite E. cbn [rev]. rewrite <- app_assoc. reflexivity.
Qed.

Lemma pos_lines : forall k src cur ln0 w rest,
  (k <= length src)%nat -> skipn k src = w ++ rest -> nonl w ->
  exists L p tail,
    ln0 <= fst (pos_scan src k ln0 (zlen cur)) /\
    nth_error (split_nl_acc src cur) (Z.to_nat (fst (pos_scan src k ln0 (zlen cur)) - ln0)) = Some L /\
    L = p ++ w ++ tail /\ zlen p = snd (pos_scan src k ln0 (zlen cur)).
Proof.
  induction k as [|k IH]; intros src cur ln0 w rest Hk Hs N.
  - cbn [skipn] in Hs. subst src. rewrite pos_scan_0. cbn [fst snd]. rewrite Z.sub_diag. cbn [Z.to_nat].
    destruct (split_head w rest cur N) as (tail & tl & E). rewrite E. cbn [nth_error].
    exists (rev cur ++ w ++ tail), (rev cur), tail. split; [lia|]. split; [reflexivity|]. split; [reflexivity|].
    apply zlen_rev.
  - destruct src as [|c r]; [cbn in Hk; lia|]. cbn [skipn] in Hs. cbn [length] in Hk.
    cbn [pos_scan split_nl_acc]. destruct (c =? 10) eqn:E10.
    + destruct (IH r [] (ln0 + 1) w rest ltac:(lia) Hs N) as (L & p & tail & A & B & C & D).
      rewrite zlen_nil in *. exists L, p, tail. split; [lia|]. split; [|split; assumption].
      replace (Z.to_nat (fst (pos_scan r k (ln0 + 1) 0) - ln0))
        with (S (Z.to_nat (fst (pos_scan r k (ln0 + 1) 0) - (ln0 + 1)))) by lia.
      cbn [nth_error]. exact B.
    + destruct (IH r (c :: cur) ln0 w rest ltac:(lia) Hs N) as (L & p & tail & A & B & C & D).
      rewrite zlen_cons in *. exists L, p, tail. repeat split; assumption.
Qed.

Lemma pos_scan_col_nonneg : forall k l ln cl, 0 <= cl -> 0 <= snd (pos_scan l k ln cl).
Proof.
  induction k as [|k IH]; intros l ln cl H; [rewrite pos_scan_0; exact H|].
  destruct l as [|c r]; cbn [pos_scan]; [exact H|]. destruct (c =? 10); apply IH; lia.
Qed.

(** the text found at the position of source index [k]: if the source continues with [w] (no line break in it)
    then line [ln] exists, and columns [cl .. cl + |w|) of it are [w] *)
Lemma text_at_pos src k w rest :
  0 <= k <= zlen src -> skipn (Z.to_nat k) src = w ++ rest -> nonl w ->
  let ln := fst (pos_of src k) in let cl := snd (pos_of src k) in
  1 <= ln <= nlines src /\ 0 <= cl /\ cl + zlen w <= line_len src ln /\
  firstn (Z.to_nat (zlen w)) (skipn (Z.to_nat cl) (line_at src ln)) = w.
Proof.
  intros Hk Hs N. unfold pos_of. cbv zeta.
  destruct (pos_lines (Z.to_nat k) src [] 1 w rest) as (L & p & tail & A & B & C & D);
    [unfold zlen in Hk; lia|exact Hs|exact N|].
  rewrite zlen_nil in *.
  set (ln := fst (pos_scan src (Z.to_nat k) 1 0)) in *. set (cl := snd (pos_scan src (Z.to_nat k) 1 0)) in *.
  assert (HL : line_at src ln = L).
  { unfold line_at, split_nl. apply nth_error_nth. exact B. }
  assert (HN : (Z.to_nat (ln - 1) < length (split_nl_acc src []))%nat)
    by (apply nth_error_Some; rewrite B; discriminate).
  unfold line_len. rewrite HL.
  split; [unfold nlines, zlenl, split_nl; lia|].
  split; [subst cl; apply pos_scan_col_nonneg; lia|].
  split.
  - rewrite C, !zlen_app. pose proof (zlen_nonneg tail). lia.
  - rewrite C. rewrite <- D. unfold zlen at 2. rewrite Nat2Z.id, skipn_app, skipn_all, Nat.sub_diag. cbn [skipn app].
    unfold zlen. rewrite Nat2Z.id, firstn_app, firstn_all, Nat.sub_diag. cbn [firstn]. apply app_nil_r.
Qed.

Lemma ident_loc_exact_lemma (xs xc : Z -> bool) src items t :
  xc 10 = false -> lex xs xc true true src = Ok items -> In t (tokens_of items) -> tk_kind t = Symbol ->
  let s := normalize_newline src in
  token_loc t = Range (tk_line t) (tk_col t) (tk_line t) (tk_col t + zlen (tk_content t)) /\
  wf_loc (token_loc t) s /\
  slice s (token_loc t) = Some (tk_content t).
Proof.
  intros X E Hin K s.
  destruct (lex_symbols_ok xs xc src items t X E Hin K) as (CE & N & rest & SK). fold s in SK.
  destruct (lex_pos_faithful_lemma xs xc src items E) as [PF _]. fold s in PF.
  destruct (PF t Hin) as [RG PO].
  destruct (text_at_pos s (tk_start t) (tk_content t) rest RG SK N) as (A & B & C & D).
  rewrite <- PO in A, B, C, D. cbn [fst snd] in A, B, C, D.
  assert (L0 : tk_line t <> 0) by lia.
  rewrite (token_loc_range t L0), CE.
  split; [reflexivity|]. split.
  - cbn [wf_loc]. pose proof (zlen_nonneg (tk_content t)). repeat split; lia.
  - cbn [slice]. rewrite Z.eqb_refl. cbn [andb].
    pose proof (zlen_nonneg (tk_content t)).
    replace (0 <=? tk_col t) with true by (symmetry; apply Z.leb_le; lia).
    replace (tk_col t <=? tk_col t + zlen (tk_content t)) with true by (symmetry; apply Z.leb_le; lia).
    cbn [andb]. replace (tk_col t + zlen (tk_content t) - tk_col t) with (zlen (tk_content t)) by lia.
    rewrite D. reflexivity.
Qed.
