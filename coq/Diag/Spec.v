(** C24 — what "a diagnostic points inside the source at the offending construct" means, and the executable
    judge that is applied to the IMPLEMENTATION's diagnostics.

    A location is inside a text when its lines exist and its columns lie within those lines (a column may equal
    the length of the line: the position just after the last character).  It covers a construct when the text
    sliced at the location is the construct (an undefined name) or lies within it (an ill-typed expression). *)
From Coq Require Import ZArith List Bool Arith.
Require Import ErgV.Lexer.Model ErgV.Diag.Model .
Import ListNotations.
Open Scope Z_scope.

(** lines of a text for the purpose of locations: pieces between line breaks (code point 10) *)
Definition nlines (src : list Z) : Z := zlenl (split_nl src).
Definition line_at (src : list Z) (ln : Z) : list Z := nth (Z.to_nat (ln - 1)) (split_nl src) [].
Definition line_len (src : list Z) (ln : Z) : Z := zlen (line_at src ln).

(** the lines are ordered and numbered from 1: all the renderer needs *)
Definition ordered_loc (l : location) : Prop :=
  match l with
  | Range lb _ le _ | LineRange lb le => 1 <= lb <= le
  | Line a => 1 <= a
  | Unknown => True
  end.

(** inside the text *)
Definition wf_loc (l : location) (src : list Z) : Prop :=
  match l with
  | Range lb cb le ce =>
    1 <= lb <= le /\ le <= nlines src /\ 0 <= cb <= line_len src lb /\ 0 <= ce <= line_len src le /\
    (lb = le -> cb <= ce)
  | LineRange lb le => 1 <= lb <= le /\ le <= nlines src
  | Line a => 1 <= a <= nlines src
  | Unknown => True
  end.

Definition wf_locb (l : location) (src : list Z) : bool :=
  match l with
  | Range lb cb le ce =>
    (1 <=? lb) && (lb <=? le) && (le <=? nlines src) && (0 <=? cb) && (cb <=? line_len src lb) &&
    (0 <=? ce) && (ce <=? line_len src le) && (negb (lb =? le) || (cb <=? ce))
  | LineRange lb le => (1 <=? lb) && (lb <=? le) && (le <=? nlines src)
  | Line a => (1 <=? a) && (a <=? nlines src)
  | Unknown => true
  end.

(** [l] begins no later than [r] ends (lexicographic on (line, column); a missing column counts as 0 / infinity) *)
Definition begins_before_end (l r : location) : Prop :=
  match ln_begin l, ln_end r with
  | Some lb, Some le =>
    lb < le \/ (lb = le /\ match col_begin l, col_end r with Some cb, Some ce => cb <= ce | _, _ => True end)
  | _, _ => True
  end.

(** the text covered by a single-line range *)
Definition slice (src : list Z) (l : location) : option (list Z) :=
  match l with
  | Range lb cb le ce =>
    if (lb =? le) && (0 <=? cb) && (cb <=? ce)
    then Some (firstn (Z.to_nat (ce - cb)) (skipn (Z.to_nat cb) (line_at src lb)))
    else None
  | _ => None
  end.

(* ------------------------------------------------------------------ the judge *)
(** what the generator of the check knows about the one offending construct of a program *)
Inductive expectation :=
| ExpName (name : list Z)              (* an undefined name: the highlighted text must be that name *)
| ExpWithin (ln cb ce : Z)             (* an ill-typed expression occupying columns cb..ce of line ln: the location
                                          must be a non-empty range within it *)
| ExpNone.                             (* any other diagnostic: only "inside the input" is required *)

(** an observed marker row: blanks after the gutter character, number of marks; None = the rendering has no row *)
Definition caret_ok (src : list Z) (l : location) (first_row : option (Z * Z)) : bool :=
  match l, first_row with
  | Range lb cb le ce, Some (blanks, marks) =>
    if lb =? le then (blanks =? 1 + cb) && (marks =? Z.max 1 (ce - cb)) else (blanks =? 1 + cb)
  | Range _ _ _ _, None => false
  | _, _ => true
  end.

Definition ascii (l : list Z) : bool := forallb (fun c => c <? 128) l.

(** verdict: 0 passes; 1 the rendering crashed; 2 the location has no line/columns (not a Range);
    3 a line of the location does not exist or the lines are out of order; 4 a column lies outside its line;
    5 the location does not cover the construct; 6 the marker row is not under the location (counted in
    characters: as many blanks as the begin column, as many marks as the range has characters) *)
Definition judge (src : list Z) (crashed : bool) (l : location) (e : expectation) (first_row : option (Z * Z)) : Z :=
  if crashed then 1
  else
    match l with
    | Range lb cb le ce =>
      if negb ((1 <=? lb) && (lb <=? le) && (le <=? nlines src)) then 3
      else if negb (wf_locb l src) then 4
      else
        let covers :=
          match e with
          | ExpName name => match slice src l with Some s => list_eqb s name | None => false end
          | ExpWithin ln eb ee => (lb =? ln) && (le =? ln) && (eb <=? cb) && (ce <=? ee) && (cb <? ce)
          | ExpNone => true
          end in
        if negb covers then 5
        else if negb (caret_ok src l first_row) then 6
        else 0
    | _ => match e with ExpNone => if wf_locb l src then 0 else 3 | _ => 2 end
    end.

(* ------------------------------------------------------------------ the known finding of C24 *)
(** Token::new computes col_end from the COOKED content of a token.  For a string-like token (a string literal, a piece of an
    interpolated string, a doc comment, or the Illegal token of an unclosed one) whose cooked text is
    longer than what is left of its first source line (a `\t` escape is cooked to four blanks; a multi-line string
    keeps its line breaks in the content) the end column lies beyond the end of the line.  A diagnostic whose range
    ends with such a token is in this class. *)
Definition string_like (k : tkind) : bool :=
  match k with
  | StrLit | StrInterpLeft | StrInterpMid | StrInterpRight | DocComment | Illegal => true
  | _ => false
  end.
Definition known_c24 (src : list Z) (ts : list token) (l : location) : bool :=
  match l with
  | Range _ _ le ce =>
    existsb (fun t => string_like (tk_kind t) && (tk_line t =? le) && (tk_col_end t =? ce)
                      && (line_len src le <? ce)) ts
  | _ => false
  end.
