(** C24 — Diagnostics point inside the source at the offending construct.

    Model: Diag/Model.v (crates/erg_common/error.rs: Location calculus, format_context /
    SubMessage::format_code_and_pointer arithmetic; crates/erg_common/io.rs: Input::reread_lines; token.rs:
    Token::loc) on top of the lexer model of C08 (Lexer/Model.v, the current code = switches [true true]).
    Spec: Diag/Spec.v ([wf_loc]: the lines exist and the columns lie within them; [slice]: the text a range covers).

    NOT proved here (sampled by the check only): that the lowering pass attaches to each error the location of the
    right syntax node. *)
From Coq Require Import ZArith List Bool Arith Lia.
Require Import ErgV.Lexer.Model ErgV.Lexer.Spec ErgV.Diag.Model ErgV.Diag.Spec ErgV.Diag.Proofs ErgV.Diag.ProofsIdent .
Import ListNotations.
Open Scope Z_scope.

(** Location::concat (the location of a compound construct: from the beginning of its first part to the end of its
    last part): parts that lie inside the text, the first beginning no later than the last ends, give a location
    inside the text (lines ordered, columns within their lines). *)
Theorem concat_wf : forall (l r : location) (src : list Z),
  wf_loc l src -> wf_loc r src -> begins_before_end l r -> wf_loc (concat l r) src.
Proof. exact concat_wf_lemma. Qed.

Example concat_wf_example :
  let src := [120;32;61;32;49;32;43;10;32;32;34;97;34] in          (* x = 1 +  NEWLINE  two blanks "a" *)
  wf_loc (Range 1 4 1 5) src /\ wf_loc (Range 2 2 2 5) src /\ begins_before_end (Range 1 4 1 5) (Range 2 2 2 5) /\
  concat (Range 1 4 1 5) (Range 2 2 2 5) = Range 1 4 2 5.
Proof.
  cbv zeta. split; [apply wf_locb_iff; reflexivity|]. split; [apply wf_locb_iff; reflexivity|].
  split; [cbn; lia|reflexivity].
Qed.

(** the same for Location::left_main_concat and Location::stream (first and last element of a sequence of parts) *)
Theorem left_main_concat_wf : forall (l r : location) (src : list Z),
  wf_loc l src -> wf_loc r src -> begins_before_end l r -> wf_loc (left_main_concat l r) src.
Proof. exact left_main_concat_wf_lemma. Qed.

Theorem stream_wf : forall (ls : list location) (src : list Z),
  Forall (fun l => wf_loc l src) ls ->
  (forall f r, ls = f :: r -> begins_before_end f (last ls Unknown)) ->
  wf_loc (stream ls) src.
Proof. exact stream_wf_lemma. Qed.

Example stream_wf_example :
  stream [Range 1 0 1 1; Unknown; Range 1 4 1 7] = Range 1 0 1 7 /\
  wf_loc (stream [Range 1 0 1 1; Unknown; Range 1 4 1 7]) [120;32;61;32;122;122;122].
Proof. split; [reflexivity|]. apply wf_locb_iff. reflexivity. Qed.

(** Rendering never panics on a location that lies inside the text — for EVERY source text (any characters: wide,
    combining, control characters, tabs), both kinds of input (a string / a file), every sub-message location.
    Only the order of the lines matters: *)
Theorem render_no_panic : forall (k : ikind) (src : list Z) (sub core : location),
  wf_loc (unknown_or sub core) src -> render k src sub core <> Panic.
Proof. intros k src sub core H. apply render_no_panic_lemma. eapply wf_ordered. exact H. Qed.

Theorem render_no_panic_ordered : forall (k : ikind) (src : list Z) (sub core : location),
  ordered_loc (unknown_or sub core) -> render k src sub core <> Panic.
Proof. exact render_no_panic_lemma. Qed.

(** ErrorDisplay::show / fmt::Display of a whole error: all sub messages *)
Theorem show_no_panic : forall (k : ikind) (src : list Z) (subs : list location) (core : location),
  ordered_loc core -> Forall ordered_loc subs -> show k src subs core <> Panic.
Proof. exact show_no_panic_lemma. Qed.

Example render_example :
  (* the line  s = "日本語" + zzz  with the range of zzz: one row, 12 blanks after the gutter blank, 3 marks *)
  let src := [115;32;61;32;34;26085;26412;35486;34;32;43;32;122;122;122;10] in
  wf_loc (Range 1 12 1 15) src /\
  render IStr src (Range 1 12 1 15) Unknown =
    Ok [ {| r_lineno := 1; r_code := [115;32;61;32;34;26085;26412;35486;34;32;43;32;122;122;122];
            r_blanks := 13; r_marks := 3 |} ].
Proof. cbv zeta. split; [apply wf_locb_iff; reflexivity|]. vm_compute. reflexivity. Qed.

(** What happens on ill-formed locations: the renderer panics exactly in these cases (line number 0: the
    power_assert! of Input::reread_lines, `ln_end - 1` on usize; end line before begin line: `ln_end - ln_begin`
    on usize in format_context, debug build). *)
Theorem render_panic_iff : forall (k : ikind) (src : list Z) (sub core : location),
  render k src sub core = Panic <-> panics k (unknown_or sub core).
Proof. exact render_panic_iff_lemma. Qed.

(** so "rendering never panics" does NOT hold for arbitrary locations; the witnesses are replayed on the real
    renderer by the check.  (The compiler never produces them as long as locations are built from token locations
    by concat in source order: concat_wf.) *)
Theorem render_total_refuted :
  exists (l : location) (src : list Z),
    ~ ordered_loc l /\ render IStr src l Unknown = Panic /\ render IFile src l Unknown = Panic.
Proof. exists (Range 2 0 1 0), [97;10;98;10]. split; [cbn; lia|]. split; reflexivity. Qed.

Theorem render_line0_refuted :
  exists src : list Z, render IStr src (Line 0) Unknown = Panic /\ render IFile src (Line 0) Unknown = Panic.
Proof. exists [97;10]. split; reflexivity. Qed.

(** An identifier token's location is exactly its text: for every source text, every token of kind Symbol in the
    lexer's stream (identifiers, raw identifiers 'a b', back-quoted operators) has the single-line range
    line : col .. col + number of characters, that range lies inside the (newline-normalised) text, and the text
    sliced at the range is the token's content.  [xc] is unicode_xid's is_xid_continue (a parameter of the lexer
    model); a line break is not an identifier character. *)
Theorem ident_loc_exact : forall (xs xc : Z -> bool) (src : list Z) (items : list item) (t : token),
  xc 10 = false ->
  lex xs xc true true src = Ok items -> In t (tokens_of items) -> tk_kind t = Symbol ->
  let s := normalize_newline src in
  token_loc t = Range (tk_line t) (tk_col t) (tk_line t) (tk_col t + zlen (tk_content t)) /\
  wf_loc (token_loc t) s /\
  slice s (token_loc t) = Some (tk_content t).
Proof. exact ident_loc_exact_lemma. Qed.

Definition ascii_letter (c : Z) : bool := ((97 <=? c) && (c <=? 122)) || ((65 <=? c) && (c <=? 90)).
Definition ascii_cont (c : Z) : bool := ascii_letter c || ((48 <=? c) && (c <=? 57)) || (c =? 95).

(* x = "a\nb" + zzz : the identifier after a string with an escape is located at columns 13..16 *)
Example ident_loc_example :
  let src := [120;32;61;32;34;97;92;110;98;34;32;43;32;122;122;122;10] in
  exists items t, lex ascii_letter ascii_cont true true src = Ok items /\ In t (tokens_of items) /\
    tk_kind t = Symbol /\ tk_content t = [122;122;122] /\ token_loc t = Range 1 13 1 16 /\
    slice src (token_loc t) = Some [122;122;122].
Proof.
  cbv zeta. eexists. exists (mk_token Symbol [122;122;122] 1 13 13).
  split; [vm_compute; reflexivity|]. split; [cbn; tauto|]. repeat split; reflexivity.
Qed.

(** The known finding (known/C24.json): the END column of a string token is computed from its cooked content.
    `x = 1 + "\t\t\t"`: the literal occupies columns 8..16 of a 16-character line, its location says 8..22. *)
Theorem string_col_end_refuted :
  exists (src : list Z) (items : list item) (t : token),
    lex ascii_letter ascii_cont true true src = Ok items /\ In t (tokens_of items) /\
    tk_kind t = StrLit /\ ~ wf_loc (token_loc t) (normalize_newline src) /\
    known_c24 (normalize_newline src) (tokens_of items) (token_loc t) = true.
Proof.
  exists [120;32;61;32;49;32;43;32;34;92;116;92;116;92;116;34]. eexists.
  exists (mk_token StrLit [34;32;32;32;32;32;32;32;32;32;32;32;32;34] 1 8 8).
  split; [vm_compute; reflexivity|]. split; [cbn; tauto|]. split; [reflexivity|].
  split; [|vm_compute; reflexivity].
  intros H. apply wf_locb_iff in H. vm_compute in H. discriminate H.
Qed.
