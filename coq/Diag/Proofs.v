(** C24 — proofs about the location calculus and the renderer arithmetic (Diag/Model.v). *)
From Coq Require Import ZArith List Bool Arith Lia.
Require Import ErgV.Lexer.Model ErgV.Diag.Model ErgV.Diag.Spec .
Import ListNotations.
Open Scope Z_scope.

(* ------------------------------------------------------------------ wf_loc *)
Lemma wf_locb_iff l src : wf_locb l src = true <-> wf_loc l src.
Proof.
  destruct l as [lb cb le ce|lb le|a|]; cbn [wf_locb wf_loc].
  - rewrite !andb_true_iff, orb_true_iff, negb_true_iff, !Z.leb_le, Z.eqb_neq. split.
    + intros H. repeat match goal with H : _ /\ _ |- _ => destruct H end.
      repeat split; lia.
    + intros ((A & B) & C & (D & E) & (F & G) & H). repeat split; lia.
  - rewrite !andb_true_iff, !Z.leb_le. lia.
  - rewrite !andb_true_iff, !Z.leb_le. lia.
  - tauto.
Qed.

Lemma wf_ordered l src : wf_loc l src -> ordered_loc l.
Proof. destruct l; cbn [wf_loc ordered_loc]; intros; try tauto; lia. Qed.

(* ------------------------------------------------------------------ concat *)
Lemma concat_wf_lemma l r src :
  wf_loc l src -> wf_loc r src -> begins_before_end l r -> wf_loc (concat l r) src.
Proof.
  destruct l as [lb cb le ce|lb le|a|]; destruct r as [lb' cb' le' ce'|lb' le'|a'|];
    cbn [wf_loc concat ln_begin ln_end col_begin col_end begins_before_end]; intros; try tauto; lia.
Qed.

Lemma left_main_concat_wf_lemma l r src :
  wf_loc l src -> wf_loc r src -> begins_before_end l r -> wf_loc (left_main_concat l r) src.
Proof.
  destruct l as [lb cb le ce|lb le|a|]; destruct r as [lb' cb' le' ce'|lb' le'|a'|];
    cbn [wf_loc left_main_concat ln_begin ln_end col_begin col_end begins_before_end]; intros; try tauto; lia.
Qed.

Lemma last_in {A} (l : list A) d : l <> [] -> In (last l d) l.
Proof.
  induction l as [|x r IH]; [congruence|]. intros _. destruct r as [|y r']; [left; reflexivity|].
  right. apply IH. discriminate.
Qed.

Lemma stream_wf_lemma ls src :
  Forall (fun l => wf_loc l src) ls ->
  (forall f r, ls = f :: r -> begins_before_end f (last ls Unknown)) ->
  wf_loc (stream ls) src.
Proof.
  intros H B. destruct ls as [|f r]; [exact I|]. cbn [stream].
  apply concat_wf_lemma.
  - inversion H; assumption.
  - rewrite Forall_forall in H. apply H. apply last_in. discriminate.
  - eapply B. reflexivity.
Qed.

(* a location built by concat never has its columns without its lines etc.: shape facts used by the check *)
Lemma concat_unknown_l r : concat Unknown r = match ln_end r with Some a => Line a | None => Unknown end.
Proof. destruct r; reflexivity. Qed.

(* ------------------------------------------------------------------ token locations *)
Lemma token_loc_range t :
  tk_line t <> 0 -> token_loc t = Range (tk_line t) (tk_col t) (tk_line t) (tk_col_end t).
Proof. intros H. unfold token_loc. destruct (tk_line t =? 0) eqn:E; [apply Z.eqb_eq in E; contradiction|reflexivity]. Qed.

(* ------------------------------------------------------------------ rendering *)
(** exactly when the renderer panics *)
Definition panics (k : ikind) (l : location) : Prop :=
  match l with
  | Range lb _ le _ => lb < 1 \/ (k = IStr /\ le < 1) \/ le < lb
  | LineRange lb le => lb < 1 \/ (k = IStr /\ le < 1)
  | Line a => a < 1
  | Unknown => False
  end.

Lemma reread_lines_panic k src lb le :
  reread_lines k src lb le = Panic <-> (lb < 1 \/ (k = IStr /\ le < 1)).
Proof.
  unfold reread_lines. destruct (lb <? 1) eqn:E1.
  - apply Z.ltb_lt in E1. split; [intros _; left; exact E1|reflexivity].
  - apply Z.ltb_ge in E1. destruct k.
    + destruct (le <? 1) eqn:E2.
      * apply Z.ltb_lt in E2. split; [intros _; right; split; [reflexivity|exact E2]|reflexivity].
      * apply Z.ltb_ge in E2.
        split; [|intros [H|[_ H]]; lia].
        destruct ((lb - 1 <=? le) && (le <=? zlenl (split_nl src))); discriminate.
    + split; [discriminate|]. intros [H|[H _]]; [lia|discriminate].
Qed.

Lemma reread_lines_not_fuel k src lb le : reread_lines k src lb le <> Fuel.
Proof.
  unfold reread_lines. destruct (lb <? 1); [discriminate|]. destruct k; [|discriminate].
  destruct (le <? 1); [discriminate|]. destruct ((lb - 1 <=? le) && (le <=? zlenl (split_nl src))); discriminate.
Qed.

Lemma render_panic_iff_lemma k src sub core :
  render k src sub core = Panic <-> panics k (unknown_or sub core).
Proof.
  unfold render. destruct (unknown_or sub core) as [lb cb le ce|lb le|a|]; cbn [panics].
  - unfold format_context. pose proof (reread_lines_panic k src lb le) as RP.
    pose proof (reread_lines_not_fuel k src lb le) as RF.
    destruct (reread_lines k src lb le) as [codes| |].
    + destruct (le <? lb) eqn:E.
      * apply Z.ltb_lt in E. split; [intros _; right; right; exact E|reflexivity].
      * apply Z.ltb_ge in E. split; [discriminate|]. intros [H|[H|H]]; [| |lia].
        -- assert (X : @Ok (list (list Z)) codes = Panic) by (apply RP; left; exact H). discriminate X.
        -- assert (X : @Ok (list (list Z)) codes = Panic) by (apply RP; right; exact H). discriminate X.
    + split; [intros _|reflexivity]. destruct (proj1 RP eq_refl) as [H|H]; [left; exact H|right; left; exact H].
    + contradiction.
  - pose proof (reread_lines_panic k src lb le) as RP.
    pose proof (reread_lines_not_fuel k src lb le) as RF.
    destruct (reread_lines k src lb le) as [codes| |]; [|tauto|contradiction].
    split; [discriminate|]. intros H. apply RP in H. discriminate H.
  - pose proof (reread_lines_panic k src a a) as RP.
    pose proof (reread_lines_not_fuel k src a a) as RF.
    destruct (reread_lines k src a a) as [codes| |]; [| |contradiction].
    + split; [discriminate|]. intros H. assert (X : @Ok (list (list Z)) codes = Panic) by (apply RP; left; exact H).
      discriminate X.
    + split; [intros _|reflexivity]. destruct (proj1 RP eq_refl) as [H|[_ H]]; exact H.
  - split; [discriminate|tauto].
Qed.

Lemma ordered_not_panics k l : ordered_loc l -> ~ panics k l.
Proof. destruct l; cbn [ordered_loc panics]; intros H P; try tauto; lia. Qed.

Lemma render_no_panic_lemma k src sub core :
  ordered_loc (unknown_or sub core) -> render k src sub core <> Panic.
Proof. intros H E. apply render_panic_iff_lemma in E. exact (ordered_not_panics _ _ H E). Qed.

Lemma render_not_fuel k src sub core : render k src sub core <> Fuel.
Proof.
  unfold render. destruct (unknown_or sub core) as [lb cb le ce|lb le|a|]; try discriminate.
  - unfold format_context. pose proof (reread_lines_not_fuel k src lb le).
    destruct (reread_lines k src lb le); [|discriminate|contradiction]. destruct (le <? lb); discriminate.
  - pose proof (reread_lines_not_fuel k src lb le). destruct (reread_lines k src lb le); [discriminate..|contradiction].
  - pose proof (reread_lines_not_fuel k src a a). destruct (reread_lines k src a a); [discriminate..|contradiction].
Qed.

Lemma render_all_no_panic k src core subs :
  Forall (fun s => ordered_loc (unknown_or s core)) subs -> render_all k src subs core <> Panic.
Proof.
  induction subs as [|s r IH]; intros H; [discriminate|]. inversion H as [|? ? H1 H2]; subst.
  cbn [render_all]. pose proof (render_no_panic_lemma k src s core H1). pose proof (render_not_fuel k src s core).
  destruct (render k src s core); [|contradiction|contradiction].
  specialize (IH H2). destruct (render_all k src r core); [discriminate|contradiction|discriminate].
Qed.

Lemma show_no_panic_lemma k src subs core :
  ordered_loc core -> Forall ordered_loc subs -> show k src subs core <> Panic.
Proof.
  intros HC HS. unfold show.
  assert (U : forall s, ordered_loc s -> ordered_loc (unknown_or s core))
    by (intros s Hs; unfold unknown_or; destruct (is_unknown s); assumption).
  destruct subs as [|s r].
  - apply render_all_no_panic. constructor; [apply U; exact HC|constructor].
  - apply render_all_no_panic. rewrite Forall_forall in *. intros x Hx. apply U, HS, Hx.
Qed.

(** the rows of a well-formed single-line range: one row, the marker row starts under the first column of the range and
    has as many marks as the range has characters (at least one) *)
Lemma render_single_line k src lb cb ce core :
  1 <= lb -> exists code,
  render k src (Range lb cb lb ce) core =
    Ok [ {| r_lineno := lb; r_code := code; r_blanks := 1 + cb; r_marks := Z.max 1 (sat_sub ce cb) |} ].
Proof.
  intros H. unfold render, unknown_or. cbn [is_unknown]. unfold format_context.
  pose proof (reread_lines_panic k src lb lb) as RP. pose proof (reread_lines_not_fuel k src lb lb) as RF.
  destruct (reread_lines k src lb lb) as [codes| |]; [| |contradiction].
  - rewrite Z.ltb_irrefl, Z.sub_diag. cbn [Z.to_nat seq map Nat.eqb andb]. rewrite Z.add_0_r. eexists. reflexivity.
  - destruct (proj1 RP eq_refl) as [A|[_ A]]; lia.
Qed.
