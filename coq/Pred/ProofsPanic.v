(** C03 — within the machine range of the constants ([wf]) the model never reaches a [Panic] outcome
    (the u64 / i32 overflow in succ / pred of an open-interval bound). *)
From Coq Require Import ZArith List Bool Arith Lia Permutation.
From ErgV Require Import Pred.Model Pred.Spec Pred.Proofs Pred.ProofsSuper Pred.ProofsRefine Pred.ProofsFuel.
Import ListNotations.
Open Scope Z_scope.

Lemma bind_np : forall A B (r : res A) (k : A -> res B), r <> Panic -> (forall a, r = Ok a -> k a <> Panic) -> bind r k <> Panic.
Proof. intros A B [a| |] k H K; cbn; [apply K; reflexivity|congruence|discriminate]. Qed.
Lemma allM_np : forall A (g : A -> res bool) l, (forall x, In x l -> g x <> Panic) -> allM g l <> Panic.
Proof.
  induction l as [|a t IH]; intros H; cbn; [discriminate|]. apply bind_np; [apply H; cbn; auto|].
  intros [] _; [apply IH; intros x Hx; apply H; cbn; auto|discriminate].
Qed.
Lemma anyM_np : forall A (g : A -> res bool) l, (forall x, In x l -> g x <> Panic) -> anyM g l <> Panic.
Proof.
  induction l as [|a t IH]; intros H; cbn; [discriminate|]. apply bind_np; [apply H; cbn; auto|].
  intros [] _; [discriminate|apply IH; intros x Hx; apply H; cbn; auto].
Qed.
Lemma findM_np : forall A (g : A -> res bool) l, (forall x, In x l -> g x <> Panic) -> findM g l <> Panic.
Proof.
  induction l as [|a t IH]; intros H; cbn; [discriminate|]. apply bind_np; [apply H; cbn; auto|].
  intros [] _; [discriminate|apply IH; intros x Hx; apply H; cbn; auto].
Qed.
Lemma negM_np : forall a, a <> Panic -> negM a <> Panic.
Proof. intros [b| |] H; cbn; congruence. Qed.
Lemma orM_np : forall a b, a <> Panic -> b <> Panic -> orM a b <> Panic.
Proof. intros a b Ha Hb. unfold orM. apply bind_np; [assumption|]. intros [] _; [discriminate|assumption]. Qed.
Lemma andM_np : forall a b, a <> Panic -> b <> Panic -> andM a b <> Panic.
Proof. intros a b Ha Hb. unfold andM. apply bind_np; [assumption|]. intros [] _; [assumption|discriminate]. Qed.

(* constants in machine range *)
Definition cst_ok (c : cst) : bool := match c with CV _ => true | CSucc z | CPred z => z_ok z end.
Lemma wf_cst : forall c, (wf (PEq c) = true \/ wf (PNe c) = true \/ wf (PGe c) = true \/ wf (PLe c) = true) -> cst_ok c = true.
Proof. intros [z|z|z] [H|[H|[H|H]]]; cbn in *; auto; discriminate. Qed.
Lemma ceval_np : forall f c, cst_ok c = true -> ceval f c <> Panic.
Proof.
  intros f [z|z|z] H; cbn in *; [discriminate| |]; unfold z_ok in H; apply andb_prop in H; destruct H as [H1 H2].
  - unfold u64_max. destruct (Z.eqb_spec z 18446744073709551615); [lia|discriminate].
  - unfold i32_min. destruct (Z.eqb_spec z (-2147483648)); [lia|]. destruct ((z =? 0) && negb (fx_pred0 f)); discriminate.
Qed.
Lemma try_cmp_np : forall f a b, cst_ok a = true -> cst_ok b = true -> try_cmp f a b <> Panic.
Proof.
  intros f a b Ha Hb. unfold try_cmp. destruct (cst_eqb a b); [discriminate|].
  pose proof (ceval_np f a Ha). pose proof (ceval_np f b Hb).
  destruct (ceval f a); cbn; try congruence; destruct (ceval f b); cbn; congruence.
Qed.

Section NoPanic.
  Variable f : cfg.
  Variable perm : list pred -> list pred.
  Hypothesis perm_in : forall l x, In x (perm l) <-> In x l.

  Section Reduce.
    Variable sup : pred -> pred -> res bool.
    Lemma reduce_step_np : forall m red p (U : pred -> Prop),
      (forall x y, U x -> U y -> sup x y <> Panic) -> U p -> (forall x, In x red -> U x) ->
      reduce_step perm sup m red p <> Panic.
    Proof.
      intros m red p U HU Up Ured. unfold reduce_step.
      apply bind_np.
      - apply findM_np. intros e He. apply (proj1 (perm_in _ _)) in He. destruct m; apply HU; auto.
      - intros old Hold. apply bind_np; [|intros ins _; discriminate].
        apply allM_np. intros e He. apply (proj1 (perm_in _ _)) in He.
        assert (Ue : U e). { apply Ured. destruct old; [now apply set_remove_incl in He|assumption]. }
        apply negM_np. destruct m; apply HU; auto.
    Qed.
    Lemma reduce_loop_np : forall m l red (U : pred -> Prop),
      (forall x y, U x -> U y -> sup x y <> Panic) -> (forall x, In x l -> U x) -> (forall x, In x red -> U x) ->
      reduce_loop perm sup m red l <> Panic.
    Proof.
      induction l as [|p t IH]; intros red U HU Ul Ured; cbn [reduce_loop]; [discriminate|].
      apply bind_np.
      - apply (reduce_step_np m red p U); auto. apply Ul. cbn; auto.
      - intros r Hr. apply (IH r U); auto.
        + intros x Hx. apply Ul. cbn; auto.
        + intros x Hx. destruct (reduce_step_incl perm sup _ _ _ _ Hr x Hx) as [->|]; [apply Ul; cbn; auto|auto].
    Qed.
    Lemma reduce_preds_np : forall m L (U : pred -> Prop), (forall x y, U x -> U y -> sup x y <> Panic) ->
      (forall x, In x L -> U x) -> reduce_preds perm sup m L <> Panic.
    Proof.
      intros m L U H HL. unfold reduce_preds. apply (reduce_loop_np m (perm L) [] U); auto.
      - intros x Hx. apply HL. now apply perm_in.
      - intros x [].
    Qed.
  End Reduce.

  Lemma is_super_np : forall n lhs rhs, wf lhs = true -> wf rhs = true -> is_super f perm n lhs rhs <> Panic.
  Proof.
    induction n as [|n IH]; intros lhs rhs Wl Wr; [discriminate|].
    cbn [is_super]. destruct (pred_eqb lhs rhs); [discriminate|].
    assert (U : forall x y, wf x = true -> wf y = true -> is_super f perm n x y <> Panic) by exact IH.
    assert (A_rand : forall l r, rhs = PAnd l r -> orM (is_super f perm n lhs l) (is_super f perm n lhs r) <> Panic).
    { intros l r ->. cbn [wf] in Wr. apply andb_prop in Wr. destruct Wr. apply orM_np; apply IH; auto. }
    assert (A_ror : forall l, rhs = POr l -> allM (fun o => is_super f perm n lhs o) (perm l) <> Panic).
    { intros l ->. rewrite wf_or in Wr. apply allM_np. intros x Hx. apply (proj1 (perm_in _ _)) in Hx. apply IH; auto. }
    assert (A_lor : forall l, lhs = POr l -> anyM (fun o => is_super f perm n o rhs) (perm l) <> Panic).
    { intros l ->. rewrite wf_or in Wl. apply anyM_np. intros x Hx. apply (proj1 (perm_in _ _)) in Hx. apply IH; auto. }
    assert (A_land : forall l r, lhs = PAnd l r -> andM (is_super f perm n l rhs) (is_super f perm n r rhs) <> Panic).
    { intros l r ->. cbn [wf] in Wl. apply andb_prop in Wl. destruct Wl. apply andM_np; apply IH; auto. }
    assert (C : forall a b, (wf (PEq a) = true \/ wf (PNe a) = true \/ wf (PGe a) = true \/ wf (PLe a) = true) ->
                           (wf (PEq b) = true \/ wf (PNe b) = true \/ wf (PGe b) = true \/ wf (PLe b) = true) ->
                           try_cmp f a b <> Panic).
    { intros a b Ha Hb. apply try_cmp_np; apply wf_cst; assumption. }
    destruct lhs as [b1|c1|c1|c1|c1|l1|p1 p2|p1|n1|k1 t1 t2], rhs as [b2|c2|c2|c2|c2|l2|q1 q2|q1|n2|k2 u1 u2];
      try discriminate;
      try (apply bind_np; [apply C; tauto|intros; discriminate]);
      try (eapply A_rand; reflexivity); try (eapply A_ror; reflexivity);
      try (eapply A_lor; reflexivity); try (eapply A_land; reflexivity).
    - destruct (cst_eqb c1 c2); [discriminate|]. apply bind_np; [apply C; tauto|intros; discriminate].
    - (* Or / Or *)
      apply bind_np; [apply (reduce_preds_np _ _ _ (fun x => wf x = true)); [exact U|apply wf_ors; assumption]|]. intros L HL.
      apply bind_np; [apply (reduce_preds_np _ _ _ (fun x => wf x = true)); [exact U|apply wf_ors; assumption]|]. intros R HR.
      apply allM_np. intros r Hr. apply anyM_np. intros l Hl.
      apply (proj1 (perm_in _ _)) in Hr. apply (proj1 (perm_in _ _)) in Hl.
      apply (reduce_preds_incl perm perm_in _ _ _ _ HL) in Hl. apply (reduce_preds_incl perm perm_in _ _ _ _ HR) in Hr.
      apply IH; [exact (wf_ors _ Wl _ Hl)|exact (wf_ors _ Wr _ Hr)].
    - (* And / And *)
      apply bind_np; [apply (reduce_preds_np _ _ _ (fun x => wf x = true)); [exact U|apply wf_ands; assumption]|]. intros L HL.
      apply bind_np; [apply (reduce_preds_np _ _ _ (fun x => wf x = true)); [exact U|apply wf_ands; assumption]|]. intros R HR.
      assert (X : forall l r, In l (perm L) -> In r (perm R) -> is_super f perm n l r <> Panic).
      { intros l r Hl Hr. apply (proj1 (perm_in _ _)) in Hr. apply (proj1 (perm_in _ _)) in Hl.
        apply (reduce_preds_incl perm perm_in _ _ _ _ HL) in Hl. apply (reduce_preds_incl perm perm_in _ _ _ _ HR) in Hr.
        apply IH; [exact (wf_ands _ Wl _ Hl)|exact (wf_ands _ Wr _ Hr)]. }
      destruct (fx_and f); apply allM_np; intros a Ha; apply anyM_np; intros b Hb; auto.
    - destruct (gk_eqb k1 k2); discriminate.
  Qed.
End NoPanic.

(* all comparison constants are plain values (no symbolic succ / pred) *)
Fixpoint plainp (p : pred) : bool :=
  match p with
  | PEq (CV _) | PNe (CV _) | PGe (CV _) | PLe (CV _) => true
  | PEq _ | PNe _ | PGe _ | PLe _ => false
  | POr l => (fix all (l : list pred) : bool := match l with [] => true | x :: t => plainp x && all t end) l
  | PAnd l r => plainp l && plainp r
  | PNot q => plainp q
  | _ => true
  end.
Lemma plainp_PAnd : forall a b, plainp (PAnd a b) = plainp a && plainp b.
Proof. reflexivity. Qed.
Lemma plainp_or : forall l, plainp (POr l) = true <-> forall x, In x l -> plainp x = true.
Proof.
  intros l. cbn [plainp]. induction l as [|a t IH].
  - split; [intros _ x []|reflexivity].
  - rewrite andb_true_iff, IH. split.
    + intros [Ha Ht] x [<-|Hx]; auto.
    + intros H. split; [apply H; cbn; auto|intros x Hx; apply H; cbn; auto].
Qed.

Ltac pl_split :=
  repeat match goal with
  | H : plainp (PAnd _ _) = true |- _ => rewrite plainp_PAnd in H; apply andb_prop in H; destruct H
  end;
  repeat (rewrite plainp_PAnd; apply andb_true_intro; split); auto.

Lemma plainp_and1 : forall x o, plainp x = true -> plainp o = true -> plainp (and1 x o) = true.
Proof.
  induction x as [b0|c|c|c|c|l H|p1 p2 IH1 IH2|p IH|n|k a b0] using pred_ind'; intros o Wx Wo; cbn [and1];
    try destruct b0; auto;
    repeat match goal with |- context [if ?c then _ else _] => destruct c end; pl_split.
Qed.
Lemma plainp_pand : forall a b, plainp a = true -> plainp b = true -> plainp (pand a b) = true.
Proof.
  induction a as [b0|c|c|c|c|l H|p1 p2 IH1 IH2|p IH|n|k a b0] using pred_ind'; intros q Wa Wq; destruct q;
    repeat match goal with b : bool |- _ => destruct b end; cbn [pand]; auto;
    repeat match goal with |- context [if ?c then _ else _] => destruct c end; pl_split;
    try (apply plainp_and1; pl_split); try (apply IH1; pl_split); try (apply IH2; pl_split).
Qed.
Lemma plainp_invert : forall f p, plainp p = true -> plainp (invert f p) = true.
Proof.
  intros f p H. destruct p as [b|c|c|c|c|l|a b|q|n|k a b]; cbn [invert]; try exact H; try reflexivity;
    try (destruct c; try discriminate H; unfold plt, pgt; try reflexivity; apply plainp_pand; reflexivity).
  destruct k; try reflexivity; destruct (fx_inv f); try reflexivity; apply plainp_pand; reflexivity.
Qed.
Lemma plainp_set_of_list : forall l, (forall x, In x l -> plainp x = true) -> plainp (POr (set_of_list l)) = true.
Proof. intros l H. apply plainp_or. intros x Hx. apply H. now apply set_of_list_incl. Qed.

Lemma plainp_substitute : forall f z p, plainp (substitute f p (CV z)) = true.
Proof.
  intros f z p. induction p as [b0|c|c|c|c|l H|p1 p2 IH1 IH2|p IH|n|k a b0] using pred_ind'; cbn [substitute]; try reflexivity.
  - apply plainp_set_of_list. rewrite Forall_forall in H.
    induction l as [|x t IHt]; intros y Hy; [destruct Hy|]. destruct Hy as [<-|Hy].
    + apply H. cbn; auto.
    + apply IHt; [|assumption]. intros w Hw. apply H. cbn; auto.
  - now apply plainp_pand.
  - now apply plainp_invert.
Qed.

Lemma eval_pred_np : forall f p, plainp p = true -> eval_pred f p <> Panic.
Proof.
  intros f p. induction p as [b0|c|c|c|c|l H|p1 p2 IH1 IH2|p IH|n|k a b0] using pred_ind'; intros P; cbn [eval_pred];
    try discriminate;
    try (destruct c; try discriminate P; cbn; discriminate).
  - apply bind_np; [|intros; discriminate]. rewrite plainp_or in P. rewrite Forall_forall in H.
    induction l as [|x t IHt]; [discriminate|].
    apply bind_np; [apply H; [cbn; auto|apply P; cbn; auto]|]. intros a _.
    apply bind_np; [|intros; discriminate]. apply IHt; [intros y Hy; apply H; cbn; auto|intros y Hy; apply P; cbn; auto].
  - rewrite plainp_PAnd in P. apply andb_prop in P. destruct P.
    apply bind_np; [auto|]. intros a _. apply bind_np; [auto|intros; discriminate].
  - apply bind_np; [auto|intros; discriminate].
  - destruct a, b0; discriminate.
Qed.

Lemma possible_tps_plain : forall p, wf p = true -> forall tp, In tp (possible_tps p) -> exists z, tp = CV z.
Proof.
  induction p as [b0|c|c|c|c|l H|p1 p2 IH1 IH2|p IH|n|k a b0] using pred_ind'; intros W tp Hin; cbn [possible_tps] in Hin;
    try (now destruct Hin).
  - destruct Hin as [<-|[]]. exact (wf_plain_eq _ W).
  - rewrite wf_or in W. rewrite Forall_forall in H. induction l as [|x t IHt]; [destruct Hin|].
    apply in_app_or in Hin. destruct Hin as [Hx|Ht].
    + apply (H x (or_introl eq_refl)); [apply W; cbn; auto|assumption].
    + apply IHt; [intros y Hy; apply H; cbn; auto|intros y Hy; apply W; cbn; auto|assumption].
Qed.

Section NoPanic2.
  Variable f : cfg.
  Variable perm : list pred -> list pred.
  Hypothesis perm_in : forall l x, In x (perm l) <-> In x l.

  Lemma refine_arm_np : forall q p, wf q = true -> wf p = true -> refine_arm f perm q p <> Panic.
  Proof.
    intros q p Wq Wp. unfold refine_arm. apply bind_np.
    - unfold shortcut. apply anyM_np. intros tp Htp. destruct (possible_tps_plain p Wp tp Htp) as (z & ->).
      apply bind_np; [apply eval_pred_np, plainp_substitute|intros; discriminate].
    - intros [] _; [discriminate|]. now apply is_super_np.
  Qed.

  (** within the machine range of the constants Context::subtype_of does not overflow *)
  Lemma sub_refine_np : forall bp p bq q, wf p = true -> wf q = true -> sub_refine f perm bp p bq q <> Panic.
  Proof.
    intros bp p bq q Wp Wq. unfold sub_refine. destruct (base_eqb bq bp && pred_eqb q (cs f p)); [discriminate|].
    apply bind_np.
    - unfold struct_arm. destruct (class_sup bq bp); [now apply refine_arm_np|].
      destruct (fx_nat f); [|now apply refine_arm_np]. apply refine_arm_np; [|assumption]. apply wf_pand; auto.
    - intros [] _; discriminate.
  Qed.
End NoPanic2.
