(** C03 — from predicates to refinement types: change_subject_name, the possible_tps shortcut (constant folding
    that ignores comparisons), the (Refinement, Refinement) arm, Context::subtype_of; the witnesses that refute
    soundness for the arms as they were before the repairs and for the known class; interval sugar. *)
From Coq Require Import ZArith List Bool Arith Lia Btauto Permutation.
From ErgV Require Import Pred.Model Pred.Spec Pred.Proofs Pred.ProofsSuper.
Import ListNotations.
Open Scope Z_scope.

(* ------------------------------------------------------------------ change_subject_name keeps the denotation *)
Lemma den_cs : forall v tv f p i, fx_inv f = true -> den v tv (cs f p) i = den v tv p i.
Proof.
  intros v tv f p i F. induction p as [b|c|c|c|c|l H|p1 p2 IH1 IH2|p IH|n|k a b] using pred_ind'; try reflexivity.
  - cbn [cs]. rewrite !den_or, den_any_set_of_list. unfold den_any.
    induction l as [|x t IHt]; [reflexivity|]. inversion H; subst. cbn [existsb]. now rewrite H2, IHt.
  - cbn [cs]. rewrite den_pand. cbn [den]. now rewrite IH1, IH2.
  - cbn [cs]. rewrite den_invert by assumption. cbn [den]. now rewrite IH.
Qed.

(* ------------------------------------------------------------------ constant folding that ignores comparisons *)
Definition kand (a b : option bool) : option bool :=
  match a, b with
  | Some false, _ | _, Some false => Some false
  | Some true, Some true => Some true
  | _, _ => None
  end.
Definition kor (a b : option bool) : option bool :=
  match a, b with
  | Some true, _ | _, Some true => Some true
  | Some false, Some false => Some false
  | _, _ => None
  end.
Definition kneg (a : option bool) : option bool := match a with Some b => Some (negb b) | None => None end.

(* what a predicate folds to when comparisons with the subject are treated as unknown *)
Fixpoint fold3 (p : pred) : option bool :=
  match p with
  | PVal b => Some b
  | POr l => (fix go (l : list pred) : option bool := match l with [] => Some false | x :: t => kor (fold3 x) (go t) end) l
  | PAnd l r => kand (fold3 l) (fold3 r)
  | PNot q => kneg (fold3 q)
  | PGen k (TVal x) (TVal y) => Some (gk_eval k x y)
  | _ => None
  end.
Definition fold3_any (l : list pred) : option bool := fold_right (fun x acc => kor (fold3 x) acc) (Some false) l.
Lemma fold3_or : forall l, fold3 (POr l) = fold3_any l.
Proof. intros l. cbn [fold3]. induction l as [|x t IH]; [reflexivity|]. cbn [fold_right fold3_any]. now rewrite IH. Qed.

Lemma kor_absorb : forall a l, (exists x, In x l /\ fold3 x = a) -> kor a (fold3_any l) = fold3_any l.
Proof.
  intros a l (x & Hx & <-). induction l as [|y t IH]; [destruct Hx|]. cbn [fold3_any fold_right]. fold (fold3_any t).
  destruct Hx as [->|Hx].
  - destruct (fold3 x) as [[]|], (fold3_any t) as [[]|]; reflexivity.
  - specialize (IH Hx). destruct (fold3 x) as [[]|], (fold3 y) as [[]|], (fold3_any t) as [[]|]; cbn in *; congruence.
Qed.

Lemma fold3_sound : forall v tv p b, fold3 p = Some b -> forall i, den v tv p i = b.
Proof.
  intros v tv p. induction p as [b0|c|c|c|c|l H|p1 p2 IH1 IH2|p IH|n|k a b0] using pred_ind'; intros b F i; try discriminate F.
  - now injection F as <-.
  - rewrite fold3_or in F. rewrite den_or. unfold den_any. revert b F.
    induction l as [|x t IHt]; intros b F; cbn in F |- *; [now injection F as <-|].
    inversion H; subst. fold (fold3_any t) in F.
    destruct (fold3 x) as [bx|] eqn:Fx; destruct (fold3_any t) as [bt|] eqn:Ft.
    + rewrite (H2 bx eq_refl i), (IHt H3 bt eq_refl). destruct bx, bt; cbn in F; now injection F as <-.
    + destruct bx; cbn in F; [|discriminate]. injection F as <-. now rewrite (H2 true eq_refl i).
    + destruct bt; cbn in F; [|discriminate]. injection F as <-. rewrite (IHt H3 true eq_refl). apply orb_true_r.
    + discriminate.
  - cbn [fold3] in F. cbn [den].
    destruct (fold3 p1) as [b1|] eqn:F1; destruct (fold3 p2) as [b2|] eqn:F2.
    + rewrite (IH1 b1 eq_refl i), (IH2 b2 eq_refl i). destruct b1, b2; cbn in F; now injection F as <-.
    + destruct b1; cbn in F; [discriminate|]. injection F as <-. now rewrite (IH1 false eq_refl i).
    + destruct b2; cbn in F; [discriminate|]. injection F as <-. rewrite (IH2 false eq_refl i). apply andb_false_r.
    + discriminate.
  - cbn [fold3] in F. cbn [den]. destruct (fold3 p) as [b1|]; [|discriminate]. injection F as <-. now rewrite (IH b1 eq_refl i).
  - cbn [fold3] in F. destruct a, b0; try discriminate F. injection F as <-. reflexivity.
Qed.

Lemma fold3_eqb : forall p q, pred_eqb p q = true -> fold3 p = fold3 q.
Proof.
  induction p as [b0|c|c|c|c|l H|p1 p2 IH1 IH2|p IH|n|k a b0] using pred_ind'; intros q E; destruct q; try discriminate E;
    try reflexivity.
  - cbn in E. apply eqb_prop in E. now subst.
  - (* Or: same members, hence the same Kleene disjunction *)
    rewrite pred_eqb_or in E. apply andb_prop in E. destruct E as [E E2]. apply andb_prop in E. destruct E as [_ E1].
    rewrite !fold3_or.
    assert (A : forall k m, (forall x, In x k -> exists y, In y m /\ fold3 x = fold3 y) -> kor (fold3_any k) (fold3_any m) = fold3_any m).
    { induction k as [|x t IHk]; intros m Hm.
      - cbn. destruct (fold3_any m) as [[]|]; reflexivity.
      - cbn [fold3_any fold_right]. fold (fold3_any t).
        assert (T : kor (fold3_any t) (fold3_any m) = fold3_any m). { apply IHk. intros z Hz. apply Hm. cbn; auto. }
        assert (X : kor (fold3 x) (fold3_any m) = fold3_any m).
        { apply kor_absorb. destruct (Hm x (or_introl eq_refl)) as (y & Hy & Fy). exists y. auto. }
        destruct (fold3 x) as [[]|], (fold3_any t) as [[]|], (fold3_any m) as [[]|]; cbn in *; congruence. }
    assert (A1 : kor (fold3_any l) (fold3_any l0) = fold3_any l0).
    { apply A. intros x Hx. rewrite forallb_forall in E1. specialize (E1 x Hx). apply existsb_exists in E1.
      destruct E1 as (y & Hy & Exy). exists y. split; [assumption|]. rewrite Forall_forall in H. exact (H x Hx y Exy). }
    assert (A2 : kor (fold3_any l0) (fold3_any l) = fold3_any l).
    { apply A. intros y Hy. rewrite forallb_forall in E2. specialize (E2 y Hy). apply existsb_exists in E2.
      destruct E2 as (x & Hx & Exy). exists x. split; [assumption|]. rewrite Forall_forall in H. symmetry. exact (H x Hx y Exy). }
    destruct (fold3_any l) as [[]|], (fold3_any l0) as [[]|]; cbn in *; congruence.
  - cbn in E. apply andb_prop in E. destruct E as [E1 E2]. cbn [fold3]. now rewrite (IH1 _ E1), (IH2 _ E2).
  - cbn in E. cbn [fold3]. now rewrite (IH _ E).
  - cbn in E. apply andb_prop in E. destruct E as [E E3]. apply andb_prop in E. destruct E as [E1 E2].
    apply gk_eqb_eq in E1. apply term_eqb_eq in E2. apply term_eqb_eq in E3. now subst.
Qed.

Ltac k3 := repeat match goal with
  | |- context [fold3 ?p] => let o := fresh "o" in generalize (fold3 p); intros o
  | |- context [fold3_any ?p] => let o := fresh "o" in generalize (fold3_any p); intros o
  end; intros; repeat match goal with o : option bool |- _ => destruct o as [[]|] end; cbn in *; congruence.

Lemma fold3_PAnd : forall a b, fold3 (PAnd a b) = kand (fold3 a) (fold3 b).
Proof. reflexivity. Qed.
Lemma fold3_PVal : forall b, fold3 (PVal b) = Some b.
Proof. reflexivity. Qed.
Lemma fold3_PNot : forall p, fold3 (PNot p) = kneg (fold3 p).
Proof. reflexivity. Qed.

Lemma fold3_and1 : forall x o, fold3 (and1 x o) = kand (fold3 x) (fold3 o).
Proof.
  induction x as [b0|c|c|c|c|l H|p1 p2 IH1 IH2|p IH|n|k a b0] using pred_ind'; intros o; cbn [and1];
    try destruct b0;
    repeat match goal with
    | |- context [if pred_eqb ?x ?y then _ else _] =>
        let E := fresh "E" in destruct (pred_eqb x y) eqn:E;
        [ let Hd := fresh "Hd" in pose proof (fold3_eqb _ _ E : mark _) as Hd |]
    end;
    try rewrite IH1; try rewrite IH2; rewrite ?fold3_PAnd, ?fold3_PVal;
    repeat match goal with H : mark _ |- _ => unfold mark in H; rewrite ?fold3_PAnd, ?fold3_PVal in H; revert H end;
    k3.
Qed.

Lemma fold3_pand : forall a b, fold3 (pand a b) = kand (fold3 a) (fold3 b).
Proof.
  induction a as [b0|c|c|c|c|l H|p1 p2 IH1 IH2|p IH|n|k a b0] using pred_ind'; intros q; destruct q;
    repeat match goal with b : bool |- _ => destruct b end; cbn [pand];
    repeat match goal with
    | |- context [if pred_eqb ?x ?y then _ else _] =>
        let E := fresh "E" in destruct (pred_eqb x y) eqn:E;
        [ let Hd := fresh "Hd" in pose proof (fold3_eqb _ _ E : mark _) as Hd |]
    end;
    rewrite ?fold3_and1; try rewrite IH1; try rewrite IH2;
    rewrite ?fold3_PAnd, ?fold3_PVal;
    repeat match goal with H : mark _ |- _ => unfold mark in H; rewrite ?fold3_PAnd, ?fold3_PVal in H; revert H end;
    k3.
Qed.

Lemma fold3_invert : forall f p, fx_inv f = true -> fold3 (invert f p) = kneg (fold3 p).
Proof.
  intros f p F. destruct p; cbn [invert]; rewrite ?F; unfold pgt, plt; rewrite ?fold3_pand; try reflexivity.
  - cbn [fold3]. destruct (fold3 p) as [[]|]; reflexivity.
  - destruct k; rewrite ?fold3_pand; destruct a, b; cbn [fold3 kand kneg gk_eval]; try reflexivity;
      destruct (Z.leb_spec z z0), (Z.leb_spec z0 z), (Z.eqb_spec z z0); cbn; try reflexivity; lia.
Qed.

Lemma fold3_any_app : forall l r, fold3_any (l ++ r) = kor (fold3_any l) (fold3_any r).
Proof.
  induction l as [|x t IH]; intros r; cbn [app fold3_any fold_right].
  - fold (fold3_any r). destruct (fold3_any r) as [[]|]; reflexivity.
  - fold (fold3_any (t ++ r)) (fold3_any t). rewrite IH. k3.
Qed.
Lemma fold3_any_set_add : forall x l, fold3_any (set_add x l) = kor (fold3 x) (fold3_any l).
Proof.
  intros x l. unfold set_add. destruct (mem_pred x l) eqn:M.
  - apply mem_pred_true in M. destruct M as (y & Hy & E). symmetry. apply kor_absorb. exists y. split; [assumption|].
    symmetry. now apply fold3_eqb.
  - rewrite fold3_any_app. cbn [fold3_any fold_right]. k3.
Qed.
Lemma fold3_any_set_union : forall r l, fold3_any (set_union l r) = kor (fold3_any l) (fold3_any r).
Proof.
  unfold set_union. induction r as [|x t IH]; intros l; cbn [fold_left].
  - cbn. destruct (fold3_any l) as [[]|]; reflexivity.
  - rewrite IH, fold3_any_set_add. cbn [fold3_any fold_right]. fold (fold3_any t). k3.
Qed.
Lemma fold3_any_set_of_list : forall l, fold3_any (set_of_list l) = fold3_any l.
Proof. intros. unfold set_of_list. rewrite fold3_any_set_union. cbn. destruct (fold3_any l) as [[]|]; reflexivity. Qed.

Lemma fold3_substitute : forall f tp p, fx_inv f = true -> fold3 (substitute f p tp) = fold3 p.
Proof.
  intros f tp p F. induction p as [b0|c|c|c|c|l H|p1 p2 IH1 IH2|p IH|n|k a b0] using pred_ind'; try reflexivity.
  - cbn [substitute]. rewrite !fold3_or, fold3_any_set_of_list.
    induction l as [|x t IHt]; [reflexivity|]. inversion H; subst. cbn [fold3_any fold_right].
    fold (fold3_any t). rewrite <- (IHt H3), H2. reflexivity.
  - cbn [substitute]. rewrite fold3_pand, IH1, IH2. reflexivity.
  - cbn [substitute]. rewrite fold3_invert by assumption. now rewrite IH.
Qed.

Lemma fold3_eval : forall f p e, fx_inv f = true -> eval_pred f p = Ok e -> fold3 e = fold3 p.
Proof.
  intros f p. induction p as [b0|c|c|c|c|l H|p1 p2 IH1 IH2|p IH|n|k a b0] using pred_ind'; intros e F E;
    cbn [eval_pred] in E.
  - now injection E as <-.
  - apply bind_ok in E. destruct E as (z & _ & E). now injection E as <-.
  - apply bind_ok in E. destruct E as (z & _ & E). now injection E as <-.
  - apply bind_ok in E. destruct E as (z & _ & E). now injection E as <-.
  - apply bind_ok in E. destruct E as (z & _ & E). now injection E as <-.
  - apply bind_ok in E. destruct E as (l' & El & E). injection E as <-. rewrite !fold3_or, fold3_any_set_of_list.
    revert l' El. induction l as [|x t IHt]; intros l' El.
    + now injection El as <-.
    + inversion H; subst. apply bind_ok in El. destruct El as (a & Ea & El). apply bind_ok in El. destruct El as (t' & Et & El).
      injection El as <-. cbn [fold3_any fold_right]. fold (fold3_any t') (fold3_any t).
      now rewrite (H2 _ F Ea), (IHt H3 _ Et).
  - apply bind_ok in E. destruct E as (a & Ea & E). apply bind_ok in E. destruct E as (b & Eb & E). injection E as <-.
    rewrite fold3_pand, (IH1 _ F Ea), (IH2 _ F Eb). reflexivity.
  - apply bind_ok in E. destruct E as (a & Ea & E). injection E as <-. rewrite fold3_invert by assumption.
    now rewrite (IH _ F Ea).
  - now injection E as <-.
  - destruct a, b0; injection E as <-; reflexivity.
Qed.

(** the possible_tps shortcut fires only when the supertype predicate folds to True without looking at the
    comparisons, and then it is true of every integer *)
Lemma shortcut_sound : forall v tv f q p, fx_inv f = true -> shortcut f q p = Ok true -> forall i, den v tv q i = true.
Proof.
  intros v tv f q p F H i. unfold shortcut in H. apply anyM_true in H. destruct H as (tp & _ & H).
  apply bind_ok in H. destruct H as (e & Ee & H). injection H as H.
  destruct e as [[]| | | | | | | | |]; try discriminate H.
  apply (fold3_sound v tv q true).
  rewrite <- (fold3_substitute f tp q F). symmetry. exact (fold3_eval f _ _ F Ee).
Qed.

Lemma wf_PAnd : forall a b, wf (PAnd a b) = wf a && wf b.
Proof. reflexivity. Qed.

Ltac wf_split :=
  repeat match goal with
  | H : wf (PAnd _ _) = true |- _ => rewrite wf_PAnd in H; apply andb_prop in H; destruct H
  end;
  repeat (rewrite wf_PAnd; apply andb_true_intro; split); auto.

Lemma wf_and1 : forall x o, wf x = true -> wf o = true -> wf (and1 x o) = true.
Proof.
  induction x as [b0|c|c|c|c|l H|p1 p2 IH1 IH2|p IH|n|k a b0] using pred_ind'; intros o Wx Wo; cbn [and1];
    try destruct b0; auto;
    repeat match goal with |- context [if ?c then _ else _] => destruct c end; wf_split.
Qed.

Lemma wf_pand : forall a b, wf a = true -> wf b = true -> wf (pand a b) = true.
Proof.
  induction a as [b0|c|c|c|c|l H|p1 p2 IH1 IH2|p IH|n|k a b0] using pred_ind'; intros q Wa Wq; destruct q;
    repeat match goal with b : bool |- _ => destruct b end; cbn [pand]; auto;
    repeat match goal with |- context [if ?c then _ else _] => destruct c end; wf_split;
    try (apply wf_and1; wf_split); try (apply IH1; wf_split); try (apply IH2; wf_split).
Qed.

Section Refine.
  Variable perm : list pred -> list pred.
  Hypothesis perm_in : forall l x, In x (perm l) <-> In x l.

  Lemma refine_arm_sound : forall q p, wf q = true -> wf p = true ->
    refine_arm current perm q p = Ok true -> forall i, deni p i = true -> deni q i = true.
  Proof.
    intros q p Wq Wp H i Di. unfold refine_arm in H. apply bind_ok in H. destruct H as (s & Hs & H).
    destruct s.
    - exact (shortcut_sound v0 tv0 current q p eq_refl Hs i).
    - exact (is_super_sound perm perm_in v0 tv0 _ q p Wq Wp H i Di).
  Qed.

  (** C03: acceptance by the checker (outside the known class) implies inclusion of the two refinement types *)
  Lemma accept_sound_l : forall bp p bq q, wf p = true -> wf q = true ->
    Known_C03 perm bp p bq q = false ->
    sub_refine current perm bp p bq q = Ok true ->
    forall i, mem bp p i = true -> mem bq q i = true.
  Proof.
    intros bp p bq q Wp Wq K H i M. unfold mem in *. apply andb_prop in M. destruct M as [Bi Di].
    unfold sub_refine in H. destruct (base_eqb bq bp && pred_eqb q (cs current p)) eqn:C.
    - (* the two types are equal *)
      apply andb_prop in C. destruct C as [Eb Ep].
      assert (bq = bp) by (destruct bq, bp; cbn in Eb; congruence). subst bq. rewrite Bi. cbn [andb].
      unfold deni in *. pose proof (pred_eqb_den v0 tv0 _ _ Ep i) as Q. rewrite den_cs in Q by reflexivity. congruence.
    - apply bind_ok in H. destruct H as (s & Hs & H). destruct s.
      + (* structural arm *)
        clear K H. unfold struct_arm in Hs. destruct (class_sup bq bp) eqn:CS.
        * rewrite (refine_arm_sound q p Wq Wp Hs i Di), andb_true_r.
          destruct bq, bp; cbn in *; auto; discriminate.
        * destruct bq, bp; try discriminate CS. cbn [fx_nat current] in Hs.
          assert (W : wf (pand (PGe (CV 0)) q) = true) by (apply wf_pand; auto).
          pose proof (refine_arm_sound _ p W Wp Hs i Di) as R. unfold deni in R. rewrite den_pand in R.
          cbn [den cval] in R. apply andb_prop in R. destruct R as [R1 R2]. cbn [in_base]. unfold deni. now rewrite R1, R2.
      + (* only the nominal path accepted: that is the known class *)
        injection H as H. unfold Known_C03 in K. rewrite H, C, Hs in K. discriminate K.
  Qed.
End Refine.

Definition idp (l : list pred) : list pred := l.

(* g(x: {I: Int | I >= 5 and I >= 6}): {I: Int | I >= 0 and I <= 10} = x;  g(100) *)
Lemma refuted_and :
  let p := PAnd (PGe (CV 5)) (PGe (CV 6)) in let q := PAnd (PGe (CV 0)) (PLe (CV 10)) in
  wf p = true /\ wf q = true /\ sub_refine before_and idp BInt p BInt q = Ok true /\
  mem BInt p 100 = true /\ mem BInt q 100 = false.
Proof. vm_compute. repeat split. Qed.

Lemma refuted_nat :
  let p := PLe (CV 1) in let q := PLe (CV 1) in
  wf p = true /\ wf q = true /\ sub_refine before_nat idp BInt p BNat q = Ok true /\
  mem BInt p (-5) = true /\ mem BNat q (-5) = false.
Proof. vm_compute. repeat split. Qed.

Lemma refuted_pred0 :
  let p := PEq (CV 0) in let q := interval IRightOpen (-3) 0 in
  wf p = true /\ wf q = true /\ sub_refine before_pred0 idp BInt p BInt q = Ok true /\
  mem BInt p 0 = true /\ mem BInt q 0 = false.
Proof. vm_compute. repeat split. Qed.

Lemma refuted_cmp :
  let p := PEq (CV 9007199254740992) in let q := PEq (CV 9007199254740993) in
  wf p = true /\ wf q = true /\ sub_refine before_cmp idp BInt p BInt q = Ok true /\
  mem BInt p 9007199254740992 = true /\ mem BInt q 9007199254740992 = false.
Proof. vm_compute. repeat split. Qed.

(* g(x: 1..3): {I: Int | ~(I >= 0 and I <= 5)} = x *)
Lemma refuted_known :
  let p := interval IClosed 1 3 in let q := PNot (PAnd (PGe (CV 0)) (PLe (CV 5))) in
  wf p = true /\ wf q = true /\ Known_C03 idp BNat p BInt q = true /\
  sub_refine current idp BNat p BInt q = Ok true /\
  mem BNat p 2 = true /\ mem BInt q 2 = false.
Proof. vm_compute. repeat split. Qed.

(* the sugar: a..b, a<..b, a..<b, a<..<b *)
Lemma interval_den_l : forall op a b i,
  deni (interval op a b) i =
  match op with
  | IClosed => (a <=? i) && (i <=? b)
  | ILeftOpen => (a <? i) && (i <=? b)
  | IRightOpen => (a <=? i) && (i <? b)
  | IOpen => (a <? i) && (i <? b)
  end.
Proof. intros [] a b i; unfold interval, deni; rewrite den_pand; cbn [den cval]; lia. Qed.

(* ------------------------------------------------------------------ order oracles *)
Lemma perm_in_of_permutation : forall perm : list pred -> list pred,
  (forall l, Permutation (perm l) l) -> forall l x, In x (perm l) <-> In x l.
Proof.
  intros perm H l x. split; intros Hx.
  - exact (Permutation_in x (H l) Hx).
  - exact (Permutation_in x (Permutation_sym (H l)) Hx).
Qed.

Lemma rotl_perm : forall A k (l : list A), Permutation (rotl k l) l.
Proof.
  induction k as [|k IH]; intros l; [destruct l; apply Permutation_refl|].
  destruct l as [|x t]; [apply Permutation_refl|]. cbn [rotl].
  eapply Permutation_trans; [apply IH|]. apply Permutation_sym, Permutation_cons_append.
Qed.
(* the oracles used by the correspondence check are order oracles in the sense of the theorems *)
Lemma perm_k_perm : forall k l, Permutation (perm_k k l) l.
Proof.
  intros [|[|k]] l; cbn [perm_k]; [apply Permutation_refl|apply Permutation_sym, Permutation_rev|apply rotl_perm].
Qed.

(** C03, final form: stated with permutations *)
Lemma accept_sound_perm : forall perm : list pred -> list pred, (forall l, Permutation (perm l) l) ->
  forall bp p bq q, wf p = true -> wf q = true ->
  Known_C03 perm bp p bq q = false ->
  sub_refine current perm bp p bq q = Ok true ->
  forall i, mem bp p i = true -> mem bq q i = true.
Proof. intros perm H. apply accept_sound_l. now apply perm_in_of_permutation. Qed.

Lemma idp_perm : forall l, Permutation (idp l) l.
Proof. intros; apply Permutation_refl. Qed.

Lemma accept_example :
  let p := interval IClosed 2 3 in let q := PAnd (PGe (CSucc 1)) (PLe (CV 10)) in
  wf p = true /\ wf q = true /\ Known_C03 idp BNat p BNat q = false /\ sub_refine current idp BNat p BNat q = Ok true.
Proof. vm_compute. repeat split. Qed.

Lemma return_sound_l : forall perm : list pred -> list pred, (forall l, Permutation (perm l) l) ->
  forall bp p bq q, wf p = true -> wf q = true -> Known_C03 perm bp p bq q = false ->
  sub_refine current perm bp p bq q = Ok true ->
  ~ exists i, mem bp p i = true /\ mem bq q i = false.
Proof.
  intros perm H bp p bq q Wp Wq K A (i & M1 & M2).
  rewrite (accept_sound_perm perm H bp p bq q Wp Wq K A i M1) in M2. discriminate.
Qed.

Lemma window_example :
  implies_dec BInt (PAnd (PGe (CV 5)) (PGe (CV 6))) BInt (PAnd (PGe (CV 0)) (PLe (CV 10))) = false /\
  counterexample BInt (PAnd (PGe (CV 5)) (PGe (CV 6))) BInt (PAnd (PGe (CV 0)) (PLe (CV 10))) = Some 11 /\
  implies_dec BNat (interval IClosed 2 3) BNat (interval ILeftOpen 1 10) = true.
Proof. vm_compute. repeat split. Qed.
