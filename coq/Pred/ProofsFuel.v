(** C03 — the fuel handed to the model of is_super_pred_of always suffices (termination of the recursion). *)
From Coq Require Import ZArith List Bool Arith Lia Btauto Permutation.
From ErgV Require Import Pred.Model Pred.Spec Pred.Proofs Pred.ProofsSuper.
Import ListNotations.

(* ------------------------------------------------------------------ never out of fuel *)
Lemma bind_nf : forall A B (r : res A) (k : A -> res B), r <> Fuel -> (forall a, r = Ok a -> k a <> Fuel) -> bind r k <> Fuel.
Proof. intros A B [a| |] k H K; cbn; [apply K; reflexivity|discriminate|congruence]. Qed.
Lemma allM_nf : forall A (g : A -> res bool) l, (forall x, In x l -> g x <> Fuel) -> allM g l <> Fuel.
Proof.
  induction l as [|a t IH]; intros H; cbn; [discriminate|]. apply bind_nf; [apply H; cbn; auto|].
  intros [] _; [apply IH; intros x Hx; apply H; cbn; auto|discriminate].
Qed.
Lemma anyM_nf : forall A (g : A -> res bool) l, (forall x, In x l -> g x <> Fuel) -> anyM g l <> Fuel.
Proof.
  induction l as [|a t IH]; intros H; cbn; [discriminate|]. apply bind_nf; [apply H; cbn; auto|].
  intros [] _; [discriminate|apply IH; intros x Hx; apply H; cbn; auto].
Qed.
Lemma findM_nf : forall A (g : A -> res bool) l, (forall x, In x l -> g x <> Fuel) -> findM g l <> Fuel.
Proof.
  induction l as [|a t IH]; intros H; cbn; [discriminate|]. apply bind_nf; [apply H; cbn; auto|].
  intros [] _; [discriminate|apply IH; intros x Hx; apply H; cbn; auto].
Qed.
Lemma negM_nf : forall a, a <> Fuel -> negM a <> Fuel.
Proof. intros [b| |] H; cbn; congruence. Qed.
Lemma orM_nf : forall a b, a <> Fuel -> b <> Fuel -> orM a b <> Fuel.
Proof. intros a b Ha Hb. unfold orM. apply bind_nf; [assumption|]. intros [] _; [discriminate|assumption]. Qed.
Lemma andM_nf : forall a b, a <> Fuel -> b <> Fuel -> andM a b <> Fuel.
Proof. intros a b Ha Hb. unfold andM. apply bind_nf; [assumption|]. intros [] _; [assumption|discriminate]. Qed.
Lemma ceval_nf : forall f c, ceval f c <> Fuel.
Proof. intros f [z|z|z]; cbn; repeat match goal with |- context [if ?c then _ else _] => destruct c end; discriminate. Qed.
Lemma try_cmp_nf : forall f a b, try_cmp f a b <> Fuel.
Proof.
  intros f a b. unfold try_cmp. destruct (cst_eqb a b); [discriminate|].
  pose proof (ceval_nf f a). pose proof (ceval_nf f b).
  destruct (ceval f a); cbn; try congruence; destruct (ceval f b); cbn; congruence.
Qed.

(* ------------------------------------------------------------------ sizes *)
Definition sizes (l : list pred) : nat := fold_right (fun x acc => (size x + acc)%nat) O l.
Lemma size_or : forall l, size (POr l) = S (sizes l).
Proof. intros l. reflexivity. Qed.
Lemma size_pos : forall p, (1 <= size p)%nat.
Proof. destruct p; cbn [size]; lia. Qed.
Lemma sizes_in : forall l x, In x l -> (size x <= sizes l)%nat.
Proof.
  induction l as [|a t IH]; intros x Hx; [destruct Hx|]. cbn [sizes fold_right]. fold (sizes t).
  destruct Hx as [<-|H]; [lia|]. specialize (IH x H). lia.
Qed.
Lemma sizes_pair : forall l x y, In x l -> In y l -> x = y \/ (size x + size y <= sizes l)%nat.
Proof.
  induction l as [|a t IH]; intros x y Hx Hy; [destruct Hx|]. cbn [sizes fold_right]. fold (sizes t).
  destruct Hx as [<-|Hx], Hy as [<-|Hy]; auto.
  - right. pose proof (sizes_in t y Hy). lia.
  - right. pose proof (sizes_in t x Hx). lia.
  - destruct (IH x y Hx Hy); [auto|right; lia].
Qed.
Lemma ands_size : forall p x, In x (ands p) -> (size x <= size p)%nat.
Proof.
  induction p; intros x Hx; cbn [ands] in Hx; try (destruct Hx as [<-|[]]; lia).
  apply set_union_incl in Hx. cbn [size]. destruct Hx as [H|H]; [specialize (IHp1 x H)|specialize (IHp2 x H)]; lia.
Qed.
Lemma ands_pair : forall p x y, In x (ands p) -> In y (ands p) -> x = y \/ (size x + size y < size p)%nat.
Proof.
  induction p; intros x y Hx Hy; cbn [ands] in Hx, Hy;
    try (destruct Hx as [<-|[]]; destruct Hy as [<-|[]]; left; reflexivity).
  apply set_union_incl in Hx. apply set_union_incl in Hy. cbn [size].
  destruct Hx as [Hx|Hx], Hy as [Hy|Hy].
  - destruct (IHp1 x y Hx Hy); [auto|right; lia].
  - right. pose proof (ands_size _ _ Hx). pose proof (ands_size _ _ Hy). lia.
  - right. pose proof (ands_size _ _ Hx). pose proof (ands_size _ _ Hy). lia.
  - destruct (IHp2 x y Hx Hy); [auto|right; lia].
Qed.
Lemma ands_and_lt : forall a b x, In x (ands (PAnd a b)) -> (size x < size (PAnd a b))%nat.
Proof.
  intros a b x Hx. cbn [ands] in Hx. apply set_union_incl in Hx. cbn [size].
  destruct Hx as [H|H]; apply ands_size in H; lia.
Qed.

Section Fuel.
  Variable f : cfg.
  Variable perm : list pred -> list pred.
  Hypothesis perm_in : forall l x, In x (perm l) <-> In x l.

  Section Reduce.
    Variable sup : pred -> pred -> res bool.

    Lemma reduce_step_incl : forall m red p red', reduce_step perm sup m red p = Ok red' ->
      forall x, In x red' -> x = p \/ In x red.
    Proof.
      intros m red p red' H x Hx. unfold reduce_step in H. apply bind_ok in H. destruct H as (old & _ & H).
      apply bind_ok in H. destruct H as (ins & _ & H). injection H as <-.
      assert (I1 : forall y, In y (match old with Some o => set_remove o red | None => red end) -> In y red).
      { destruct old; [intros y; apply set_remove_incl|auto]. }
      destruct ins; [apply set_add_incl in Hx; destruct Hx; auto|auto].
    Qed.
    Lemma reduce_loop_incl : forall m l red R, reduce_loop perm sup m red l = Ok R ->
      forall x, In x R -> In x l \/ In x red.
    Proof.
      induction l as [|p t IH]; intros red R H x Hx; cbn [reduce_loop] in H.
      - injection H as <-. auto.
      - apply bind_ok in H. destruct H as (r & Hr & H). destruct (IH _ _ H x Hx) as [Ht|Hr'].
        + left. cbn; auto.
        + destruct (reduce_step_incl _ _ _ _ Hr x Hr') as [->|]; [left; cbn; auto|auto].
    Qed.
    Lemma reduce_preds_incl : forall m L R, reduce_preds perm sup m L = Ok R -> forall x, In x R -> In x L.
    Proof.
      intros m L R H x Hx. unfold reduce_preds in H. destruct (reduce_loop_incl _ _ _ _ H x Hx) as [Hp|[]].
      now apply perm_in.
    Qed.

    Lemma reduce_step_nf : forall m red p (U : pred -> Prop),
      (forall x y, U x -> U y -> sup x y <> Fuel) -> U p -> (forall x, In x red -> U x) ->
      reduce_step perm sup m red p <> Fuel.
    Proof.
      intros m red p U HU Up Ured. unfold reduce_step.
      apply bind_nf.
      - apply findM_nf. intros e He. apply (proj1 (perm_in _ _)) in He. destruct m; apply HU; auto.
      - intros old Hold. apply bind_nf; [|intros ins _; discriminate].
        apply allM_nf. intros e He. apply (proj1 (perm_in _ _)) in He.
        assert (Ue : U e). { apply Ured. destruct old; [now apply set_remove_incl in He|assumption]. }
        apply negM_nf. destruct m; apply HU; auto.
    Qed.
    Lemma reduce_loop_nf : forall m l red (U : pred -> Prop),
      (forall x y, U x -> U y -> sup x y <> Fuel) -> (forall x, In x l -> U x) -> (forall x, In x red -> U x) ->
      reduce_loop perm sup m red l <> Fuel.
    Proof.
      induction l as [|p t IH]; intros red U HU Ul Ured; cbn [reduce_loop]; [discriminate|].
      apply bind_nf.
      - apply (reduce_step_nf m red p U); auto. apply Ul. cbn; auto.
      - intros r Hr. apply (IH r U); auto.
        + intros x Hx. apply Ul. cbn; auto.
        + intros x Hx. destruct (reduce_step_incl _ _ _ _ Hr x Hx) as [->|]; [apply Ul; cbn; auto|auto].
    Qed.
    Lemma reduce_preds_nf : forall m L, (forall x y, In x L -> In y L -> sup x y <> Fuel) -> reduce_preds perm sup m L <> Fuel.
    Proof.
      intros m L H. unfold reduce_preds. apply (reduce_loop_nf m (perm L) [] (fun x => In x L)); auto.
      - intros x Hx. now apply perm_in.
      - intros x [].
    Qed.
  End Reduce.

  (** the fuel given to is_super_pred_of by the refinement arm is enough *)
  Lemma is_super_fuel : forall n lhs rhs, (size lhs + size rhs < n)%nat -> is_super f perm n lhs rhs <> Fuel.
  Proof.
    induction n as [|n IH]; intros lhs rhs Hn; [lia|].
    cbn [is_super]. destruct (pred_eqb lhs rhs); [discriminate|].
    pose proof (size_pos lhs) as Pl. pose proof (size_pos rhs) as Pr.
    assert (Hsame : forall x, is_super f perm n x x <> Fuel).
    { intros x. destruct n as [|n']; [lia|]. cbn [is_super]. rewrite pred_eqb_refl. discriminate. }
    (* arms that recurse on a sub-term of one side *)
    assert (A_rand : forall l r, rhs = PAnd l r -> orM (is_super f perm n lhs l) (is_super f perm n lhs r) <> Fuel).
    { intros l r ->. cbn [size] in Hn. apply orM_nf; apply IH; lia. }
    assert (A_ror : forall l, rhs = POr l -> allM (fun o => is_super f perm n lhs o) (perm l) <> Fuel).
    { intros l ->. rewrite size_or in Hn. apply allM_nf. intros x Hx. apply (proj1 (perm_in _ _)) in Hx.
      pose proof (sizes_in l x Hx). apply IH. lia. }
    assert (A_lor : forall l, lhs = POr l -> anyM (fun o => is_super f perm n o rhs) (perm l) <> Fuel).
    { intros l ->. rewrite size_or in Hn. apply anyM_nf. intros x Hx. apply (proj1 (perm_in _ _)) in Hx.
      pose proof (sizes_in l x Hx). apply IH. lia. }
    assert (A_land : forall l r, lhs = PAnd l r -> andM (is_super f perm n l rhs) (is_super f perm n r rhs) <> Fuel).
    { intros l r ->. cbn [size] in Hn. apply andM_nf; apply IH; lia. }
    (* And/And and Or/Or: pairs of conjuncts (disjuncts) of one side, then pairs across the sides *)
    assert (A_pairs : forall q, (size q < n)%nat -> forall x y, In x (ands q) -> In y (ands q) -> is_super f perm n x y <> Fuel).
    { intros q Hq x y Hx Hy. destruct (ands_pair q x y Hx Hy) as [->|Hs]; [apply Hsame|apply IH; lia]. }
    assert (O_pairs : forall l, (size (POr l) < n)%nat -> forall x y, In x (ors (POr l)) -> In y (ors (POr l)) -> is_super f perm n x y <> Fuel).
    { intros l Hq x y Hx Hy. cbn [ors] in Hx, Hy. apply set_of_list_incl in Hx. apply set_of_list_incl in Hy.
      rewrite size_or in Hq. destruct (sizes_pair l x y Hx Hy) as [->|Hs]; [apply Hsame|apply IH; lia]. }
    destruct lhs as [b1|c1|c1|c1|c1|l1|p1 p2|p1|n1|k1 t1 t2], rhs as [b2|c2|c2|c2|c2|l2|q1 q2|q1|n2|k2 u1 u2];
      try discriminate;
      try (apply bind_nf; [apply try_cmp_nf|intros; discriminate]);
      try (eapply A_rand; reflexivity); try (eapply A_ror; reflexivity);
      try (eapply A_lor; reflexivity); try (eapply A_land; reflexivity).
    - destruct (cst_eqb c1 c2); [discriminate|]. apply bind_nf; [apply try_cmp_nf|intros; discriminate].
    - (* Or / Or *)
      apply bind_nf; [apply reduce_preds_nf, O_pairs; lia|]. intros L HL.
      apply bind_nf; [apply reduce_preds_nf, O_pairs; lia|]. intros R HR.
      apply allM_nf. intros r Hr. apply anyM_nf. intros l Hl.
      apply (proj1 (perm_in _ _)) in Hr. apply (proj1 (perm_in _ _)) in Hl.
      apply (reduce_preds_incl _ _ _ _ HL) in Hl. apply (reduce_preds_incl _ _ _ _ HR) in Hr.
      cbn [ors] in Hl, Hr. apply set_of_list_incl in Hl. apply set_of_list_incl in Hr.
      pose proof (sizes_in _ _ Hl). pose proof (sizes_in _ _ Hr). rewrite !size_or in Hn. apply IH. lia.
    - (* And / And *)
      apply bind_nf; [apply reduce_preds_nf, A_pairs; lia|]. intros L HL.
      apply bind_nf; [apply reduce_preds_nf, A_pairs; lia|]. intros R HR.
      assert (X : forall l r, In l (perm L) -> In r (perm R) -> is_super f perm n l r <> Fuel).
      { intros l r Hl Hr. apply (proj1 (perm_in _ _)) in Hr. apply (proj1 (perm_in _ _)) in Hl.
        apply (reduce_preds_incl _ _ _ _ HL) in Hl. apply (reduce_preds_incl _ _ _ _ HR) in Hr.
        apply ands_and_lt in Hl. apply ands_and_lt in Hr. apply IH. lia. }
      destruct (fx_and f); apply allM_nf; intros a Ha; apply anyM_nf; intros b Hb; auto.
    - destruct (gk_eqb k1 k2); discriminate.
  Qed.

  Lemma eval_pred_nf : forall p, eval_pred f p <> Fuel.
  Proof.
    induction p as [b0|c|c|c|c|l H|p1 p2 IH1 IH2|p IH|n|k a b0] using pred_ind'; cbn [eval_pred]; try discriminate;
      try (apply bind_nf; [apply ceval_nf|intros; discriminate]).
    - apply bind_nf; [|intros; discriminate]. induction l as [|x t IHt]; [discriminate|]. inversion H; subst.
      apply bind_nf; [assumption|]. intros a _. apply bind_nf; [auto|intros; discriminate].
    - apply bind_nf; [assumption|]. intros a _. apply bind_nf; [assumption|intros; discriminate].
    - apply bind_nf; [assumption|intros; discriminate].
    - destruct a, b0; discriminate.
  Qed.

  (** Context::subtype_of on two Int/Nat refinement types: the model never runs out of fuel
      (the recursion of is_super_pred_of / reduce_preds terminates) *)
  Lemma sub_refine_fuel : forall bp p bq q, sub_refine f perm bp p bq q <> Fuel.
  Proof.
    intros bp p bq q. unfold sub_refine. destruct (base_eqb bq bp && pred_eqb q (cs f p)); [discriminate|].
    assert (R : forall a b, refine_arm f perm a b <> Fuel).
    { intros a b. unfold refine_arm. apply bind_nf.
      - unfold shortcut. apply anyM_nf. intros tp _. apply bind_nf; [apply eval_pred_nf|intros; discriminate].
      - intros [] _; [discriminate|]. apply is_super_fuel. unfold fuel_of. lia. }
    apply bind_nf.
    - unfold struct_arm. destruct (class_sup bq bp); [apply R|]. destruct (fx_nat f); apply R.
    - intros [] _; discriminate.
  Qed.
End Fuel.
