(** C32 / C03 — basic lemmas: induction principle for [pred], equality, sets, and the denotation of the
    constructors (the C32 laws). *)
From Coq Require Import ZArith List Bool Arith Lia Btauto.
From ErgV Require Import Pred.Model Pred.Spec.
Import ListNotations.
Open Scope Z_scope.

(** strong induction principle for the nested-list inductive *)
Section PredInd.
  Variable P : pred -> Prop.
  Hypothesis HVal : forall b, P (PVal b).
  Hypothesis HEq : forall c, P (PEq c).
  Hypothesis HNe : forall c, P (PNe c).
  Hypothesis HGe : forall c, P (PGe c).
  Hypothesis HLe : forall c, P (PLe c).
  Hypothesis HOr : forall l, Forall P l -> P (POr l).
  Hypothesis HAnd : forall l r, P l -> P r -> P (PAnd l r).
  Hypothesis HNot : forall p, P p -> P (PNot p).
  Hypothesis HOther : forall n, P (POther n).
  Hypothesis HGen : forall k a b, P (PGen k a b).
  Fixpoint pred_ind' (p : pred) : P p :=
    match p with
    | PVal b => HVal b | PEq c => HEq c | PNe c => HNe c | PGe c => HGe c | PLe c => HLe c
    | POr l => HOr l ((fix go (l : list pred) : Forall P l :=
                         match l with [] => Forall_nil P | x :: t => Forall_cons x (pred_ind' x) (go t) end) l)
    | PAnd l r => HAnd l r (pred_ind' l) (pred_ind' r)
    | PNot q => HNot q (pred_ind' q)
    | POther n => HOther n
    | PGen k a b => HGen k a b
    end.
End PredInd.
Definition mark (P : Prop) : Prop := P.

(* ------------------------------------------------------------------ unfolding the nested fixes *)
Section DenLemmas.
  Variable v : nat -> Z -> bool.
  Variable tv : nat -> Z -> Z.
  Notation D := (den v tv).

  Definition den_any (l : list pred) (i : Z) : bool := existsb (fun q => D q i) l.

  Lemma den_or : forall l i, D (POr l) i = den_any l i.
  Proof.
    intros l i. unfold den_any. cbn [den].
    induction l as [|x t IH]; cbn [existsb]; [reflexivity|]. now rewrite IH.
  Qed.

  Lemma den_any_true : forall l i, den_any l i = true <-> exists x, In x l /\ D x i = true.
  Proof. intros. unfold den_any. apply existsb_exists. Qed.

  Lemma den_any_app : forall l r i, den_any (l ++ r) i = den_any l i || den_any r i.
  Proof. intros. unfold den_any. apply existsb_app. Qed.
End DenLemmas.

Lemma cst_eqb_eq : forall a b, cst_eqb a b = true -> a = b.
Proof. intros [x|x|x] [y|y|y]; cbn; intros H; try discriminate; apply Z.eqb_eq in H; now subst. Qed.
Lemma cst_eqb_refl : forall a, cst_eqb a a = true.
Proof. intros [x|x|x]; cbn; apply Z.eqb_refl. Qed.
Lemma term_eqb_eq : forall a b, term_eqb a b = true -> a = b.
Proof.
  intros [|x|n] [|y|m]; cbn; intros H; try discriminate; auto.
  - apply Z.eqb_eq in H; now subst.
  - apply Nat.eqb_eq in H; now subst.
Qed.
Lemma term_eqb_refl : forall a, term_eqb a a = true.
Proof. intros [|x|n]; cbn; auto using Z.eqb_refl, Nat.eqb_refl. Qed.
Lemma gk_eqb_eq : forall a b, gk_eqb a b = true -> a = b.
Proof. intros [] []; cbn; intros; try discriminate; auto. Qed.
Lemma gk_eqb_refl : forall a, gk_eqb a a = true.
Proof. intros []; reflexivity. Qed.

(* the Or case of pred_eqb in terms of forallb / existsb *)
Lemma pred_eqb_or : forall l1 l2,
  pred_eqb (POr l1) (POr l2) =
  Nat.eqb (length l1) (length l2) &&
  forallb (fun x => existsb (fun y => pred_eqb x y) l2) l1 &&
  forallb (fun y => existsb (fun x => pred_eqb x y) l1) l2.
Proof.
  intros l1 l2. cbn [pred_eqb].
  assert (A : forall k m,
    (fix all (l : list pred) : bool :=
       match l with
       | [] => true
       | x :: t => (fix ex (m : list pred) : bool :=
                      match m with [] => false | y :: m' => pred_eqb x y || ex m' end) m && all t
       end) k = forallb (fun x => existsb (fun y => pred_eqb x y) m) k).
  { induction k as [|x t IH]; intros m; cbn [forallb]; [reflexivity|]. now rewrite IH. }
  assert (B : forall m k,
    (fix all2 (m : list pred) : bool :=
       match m with
       | [] => true
       | y :: m' => (fix ex2 (l : list pred) : bool :=
                       match l with [] => false | x :: t => pred_eqb x y || ex2 t end) k && all2 m'
       end) m = forallb (fun y => existsb (fun x => pred_eqb x y) k) m).
  { induction m as [|y m' IH]; intros k; cbn [forallb]; [reflexivity|]. now rewrite IH. }
  now rewrite A, B.
Qed.

(** equal predicates (derived PartialEq) have the same denotation *)
Lemma pred_eqb_den : forall v tv p q, pred_eqb p q = true -> forall i, den v tv p i = den v tv q i.
Proof.
  intros v tv p. induction p using pred_ind'; intros q E i; destruct q; try discriminate E.
  - cbn in *. apply eqb_prop in E. now subst.
  - cbn in E. apply cst_eqb_eq in E. now subst.
  - cbn in E. apply cst_eqb_eq in E. now subst.
  - cbn in E. apply cst_eqb_eq in E. now subst.
  - cbn in E. apply cst_eqb_eq in E. now subst.
  - rewrite pred_eqb_or in E. apply andb_prop in E. destruct E as [E E2]. apply andb_prop in E. destruct E as [_ E1].
    rewrite !den_or. apply eq_true_iff_eq. rewrite !den_any_true. split.
    + intros (x & Hx & Dx). rewrite forallb_forall in E1. specialize (E1 x Hx). apply existsb_exists in E1.
      destruct E1 as (y & Hy & Exy). exists y. split; [assumption|].
      rewrite Forall_forall in H. now rewrite <- (H x Hx y Exy i).
    + intros (y & Hy & Dy). rewrite forallb_forall in E2. specialize (E2 y Hy). apply existsb_exists in E2.
      destruct E2 as (x & Hx & Exy). exists x. split; [assumption|].
      rewrite Forall_forall in H. now rewrite (H x Hx y Exy i).
  - cbn in E. apply andb_prop in E. destruct E as [E1 E2]. cbn [den]. now rewrite (IHp1 _ E1 i), (IHp2 _ E2 i).
  - cbn in E. cbn [den]. now rewrite (IHp _ E i).
  - cbn in E. apply Nat.eqb_eq in E. now subst.
  - cbn in E. apply andb_prop in E. destruct E as [E E3]. apply andb_prop in E. destruct E as [E1 E2].
    apply gk_eqb_eq in E1. apply term_eqb_eq in E2. apply term_eqb_eq in E3. now subst.
Qed.

Lemma pred_eqb_refl : forall p, pred_eqb p p = true.
Proof.
  induction p as [b|c|c|c|c|l H|p1 p2 IH1 IH2|p IH|n|k a b] using pred_ind'.
  - cbn. apply eqb_reflx.
  - cbn. apply cst_eqb_refl.
  - cbn. apply cst_eqb_refl.
  - cbn. apply cst_eqb_refl.
  - cbn. apply cst_eqb_refl.
  - rewrite pred_eqb_or, Nat.eqb_refl. cbn [andb].
    rewrite Forall_forall in H.
    assert (A : forallb (fun x => existsb (fun y => pred_eqb x y) l) l = true).
    { apply forallb_forall. intros x Hx. apply existsb_exists. exists x. auto. }
    assert (B : forallb (fun y => existsb (fun x => pred_eqb x y) l) l = true).
    { apply forallb_forall. intros x Hx. apply existsb_exists. exists x. auto. }
    now rewrite A, B.
  - cbn. now rewrite IH1, IH2.
  - cbn. exact IH.
  - cbn. apply Nat.eqb_refl.
  - cbn. now rewrite gk_eqb_refl, !term_eqb_refl.
Qed.

(* ------------------------------------------------------------------ sets *)
Lemma mem_pred_true : forall x l, mem_pred x l = true <-> exists y, In y l /\ pred_eqb x y = true.
Proof. intros. unfold mem_pred. apply existsb_exists. Qed.

Lemma set_add_incl : forall x l y, In y (set_add x l) -> y = x \/ In y l.
Proof.
  intros x l y. unfold set_add. destruct (mem_pred x l); [auto|]. rewrite in_app_iff. cbn. intuition.
Qed.
Lemma set_add_keeps : forall x l y, In y l -> In y (set_add x l).
Proof. intros x l y H. unfold set_add. destruct (mem_pred x l); [auto|]. apply in_or_app. auto. Qed.
Lemma set_add_has : forall x l, exists y, In y (set_add x l) /\ pred_eqb x y = true.
Proof.
  intros x l. unfold set_add. destruct (mem_pred x l) eqn:M.
  - apply mem_pred_true in M. exact M.
  - exists x. split; [apply in_or_app; cbn; auto|apply pred_eqb_refl].
Qed.

Lemma set_union_incl : forall r l y, In y (set_union l r) -> In y l \/ In y r.
Proof.
  unfold set_union. induction r as [|x t IH]; intros l y H; cbn in *; [auto|].
  apply IH in H. destruct H as [H|H]; [|auto]. apply set_add_incl in H. intuition.
Qed.
Lemma set_union_keeps : forall r l y, In y l -> In y (set_union l r).
Proof.
  unfold set_union. induction r as [|x t IH]; intros l y H; cbn; [auto|]. apply IH. now apply set_add_keeps.
Qed.
Lemma set_union_has : forall r l x, In x l \/ In x r -> exists y, In y (set_union l r) /\ pred_eqb x y = true.
Proof.
  unfold set_union. induction r as [|a t IH]; intros l x H; cbn.
  - destruct H as [H|[]]. exists x. auto using pred_eqb_refl.
  - destruct H as [H|[H|H]].
    + apply IH. left. now apply set_add_keeps.
    + subst a. destruct (set_add_has x l) as (y & Hy & E). exists y. split; [|assumption].
      now apply (set_union_keeps t).
    + apply IH. now right.
Qed.
Lemma set_of_list_incl : forall l y, In y (set_of_list l) -> In y l.
Proof. intros l y H. apply set_union_incl in H. destruct H as [[]|H]. exact H. Qed.
Lemma set_of_list_has : forall l x, In x l -> exists y, In y (set_of_list l) /\ pred_eqb x y = true.
Proof. intros l x H. apply set_union_has. now right. Qed.
Lemma set_remove_incl : forall x l y, In y (set_remove x l) -> In y l.
Proof. intros x l y H. unfold set_remove in H. apply filter_In in H. tauto. Qed.
Lemma set_remove_other : forall x l y, In y l -> pred_eqb y x = false -> In y (set_remove x l).
Proof. intros x l y H E. unfold set_remove. apply filter_In. now rewrite E. Qed.

Section DenSets.
  Variable v : nat -> Z -> bool.
  Variable tv : nat -> Z -> Z.
  Notation D := (den v tv).

  Lemma den_any_set_add : forall x l i, den_any v tv (set_add x l) i = D x i || den_any v tv l i.
  Proof.
    intros x l i. unfold set_add. destruct (mem_pred x l) eqn:M.
    - apply mem_pred_true in M. destruct M as (y & Hy & E).
      destruct (D x i) eqn:Dx; [|reflexivity]. cbn. apply den_any_true. exists y. split; [assumption|].
      now rewrite <- (pred_eqb_den v tv x y E i).
    - rewrite den_any_app. unfold den_any at 2. cbn. rewrite orb_false_r. apply orb_comm.
  Qed.
  Lemma den_any_set_union : forall r l i, den_any v tv (set_union l r) i = den_any v tv l i || den_any v tv r i.
  Proof.
    unfold set_union. induction r as [|x t IH]; intros l i; cbn [fold_left].
    - unfold den_any at 3. cbn. now rewrite orb_false_r.
    - rewrite IH, den_any_set_add. unfold den_any at 4. cbn [existsb]. fold (den_any v tv t i).
      destruct (D x i), (den_any v tv l i), (den_any v tv t i); reflexivity.
  Qed.
  Lemma den_any_set_of_list : forall l i, den_any v tv (set_of_list l) i = den_any v tv l i.
  Proof. intros. unfold set_of_list. rewrite den_any_set_union. reflexivity. Qed.

  (* ---------------------------------------------------------------- C32: the constructors *)
  Lemma den_and1 : forall x o i, D (and1 x o) i = D x i && D o i.
  Proof.
    induction x using pred_ind'; intros o i; cbn [and1];
      try (destruct (pred_eqb _ o) eqn:E;
           [ rewrite <- (pred_eqb_den v tv _ _ E i); cbn [den]; now rewrite andb_diag | reflexivity ]).
    - destruct b; cbn; [reflexivity|reflexivity].
    - destruct (pred_eqb x1 o) eqn:E1.
      + rewrite IHx2. cbn [den]. rewrite (pred_eqb_den v tv _ _ E1 i). destruct (D o i), (D x2 i); reflexivity.
      + destruct (pred_eqb x2 o) eqn:E2.
        * rewrite IHx1. cbn [den]. rewrite (pred_eqb_den v tv _ _ E2 i). destruct (D o i), (D x1 i); reflexivity.
        * reflexivity.
  Qed.

  Lemma den_pand : forall a b i, D (pand a b) i = D a i && D b i.
  Proof.
    induction a using pred_ind'; intros q i; destruct q;
    repeat match goal with b : bool |- _ => destruct b end; cbn [pand];
    repeat match goal with
    | |- context [if pred_eqb ?x ?y then _ else _] =>
        let E := fresh "E" in destruct (pred_eqb x y) eqn:E;
        [ let Hd := fresh "Hd" in pose proof (pred_eqb_den v tv _ _ E i : mark _) as Hd; cbn [den] in Hd |]
    end;
    rewrite ?den_and1; try rewrite IHa1; try rewrite IHa2; cbn [den];
    repeat match goal with H : mark _ |- _ => unfold mark in H; try rewrite H; clear H end;
    btauto.
  Qed.
End DenSets.

(* ------------------------------------------------------------------ C32: or / invert / gt / lt *)
Section DenCons.
  Variable v : nat -> Z -> bool.
  Variable tv : nat -> Z -> Z.
  Notation D := (den v tv).

  Lemma den_por : forall a b i, D (por a b) i = D a i || D b i.
  Proof.
    intros a q i; destruct a; destruct q;
    repeat match goal with b : bool |- _ => destruct b end; cbn [por];
    repeat match goal with
    | |- context [if pred_eqb ?x ?y then _ else _] =>
        let E := fresh "E" in destruct (pred_eqb x y) eqn:E;
        [ let Hd := fresh "Hd" in pose proof (pred_eqb_den v tv _ _ E i : mark _) as Hd; cbn [den] in Hd |]
    | |- context [if cst_eqb ?x ?y then _ else _] =>
        let E := fresh "E" in destruct (cst_eqb x y) eqn:E; [apply cst_eqb_eq in E; subst|]
    end;
    rewrite ?den_or, ?den_any_set_union, ?den_any_set_add; unfold den_any; cbn [den existsb];
    repeat match goal with H : mark _ |- _ => unfold mark in H; try rewrite H; clear H end;
    try btauto.
    (* I == c or I >= c  =>  I >= c *)
    destruct (Z.eqb_spec i (cval c0)); [subst; rewrite Z.leb_refl; reflexivity|reflexivity].
  Qed.

  Lemma den_pgt : forall c i, D (pgt c) i = (cval c <? i).
  Proof. intros. unfold pgt. rewrite den_pand. cbn [den]. lia. Qed.
  Lemma den_plt : forall c i, D (plt c) i = (i <? cval c).
  Proof. intros. unfold plt. rewrite den_pand. cbn [den]. lia. Qed.

  Lemma gk_eval_neg : forall x y,
    gk_eval GGe x y && gk_eval GNe x y = negb (gk_eval GLe x y) /\
    gk_eval GLe x y && gk_eval GNe x y = negb (gk_eval GGe x y).
  Proof. intros. cbn [gk_eval]. split; lia. Qed.

  (** invert is complement once the general comparisons are inverted strictly *)
  Lemma den_invert : forall f p i, fx_inv f = true -> D (invert f p) i = negb (D p i).
  Proof.
    intros f p i F. destruct p; cbn [invert]; rewrite ?F, ?den_pgt, ?den_plt; cbn [den]; try reflexivity; try lia.
    - now rewrite negb_involutive.
    - destruct k; rewrite ?den_pand; cbn [den gk_eval]; lia.
  Qed.
End DenCons.

(* ------------------------------------------------------------------ statements used by Props_C32.v *)
Lemma den_invert_current : forall v tv p i, den v tv (invert current p) i = negb (den v tv p i).
Proof. intros. apply den_invert. reflexivity. Qed.

(* before the repair invert turned `3 <= I` into `3 >= I`: both hold for I = 3 *)
Lemma invert_refuted : exists p i, forall v tv, den v tv (invert before_inv p) i <> negb (den v tv p i).
Proof. exists (PGen GLe (TVal 3) TSubj), 3. intros v tv. vm_compute. discriminate. Qed.

Lemma and_example :
  pand (PAnd (PGe (CV 0)) (PLe (CV 9))) (PLe (CV 9)) = PAnd (PGe (CV 0)) (PLe (CV 9)) /\
  pand (PGe (CV 0)) (POther 1) = PAnd (PGe (CV 0)) (POther 1).
Proof. split; reflexivity. Qed.
Lemma or_example :
  por (PEq (CV 1)) (PGe (CV 1)) = PGe (CV 1) /\
  por (POr [PEq (CV 1); PEq (CV 2)]) (POr [PEq (CV 2); PEq (CV 3)]) = POr [PEq (CV 1); PEq (CV 2); PEq (CV 3)].
Proof. split; reflexivity. Qed.
Lemma invert_example :
  invert current (PGe (CV 3)) = PAnd (PLe (CV 3)) (PNe (CV 3)) /\
  invert current (PAnd (PGe (CV 0)) (PLe (CV 9))) = PNot (PAnd (PGe (CV 0)) (PLe (CV 9))) /\
  invert current (PGen GLe (TVal 3) TSubj) = PAnd (PGen GGe (TVal 3) TSubj) (PGen GNe (TVal 3) TSubj).
Proof. repeat split; reflexivity. Qed.
Lemma gt_lt_example : pgt (CV 5) = PAnd (PGe (CV 5)) (PNe (CV 5)) /\ plt (CV 5) = PAnd (PLe (CV 5)) (PNe (CV 5)).
Proof. split; reflexivity. Qed.
