(** C03 — property theorems (statements only; proofs are in Proofs*.v).

    Model.v: [sub_refine f perm bp p bq q] is the transcription of
    Context::subtype_of({I: bp | p}, {I: bq | q}) for Int/Nat bases (cheap_supertype_of, the
    (Refinement, Refinement) arm of structural_supertype_of with the possible_tps shortcut, is_super_pred_of with
    reduce_preds and try_cmp, and the nominal path); [f] chooses the code before/after each repair ([current] =
    the tree as it is now), [perm] is the iteration order of the hash sets (any permutation).
    Spec.v: [mem b p i] = integer i belongs to {I: b | p}; [wf] = predicates as the front end builds them
    (machine-range constants, succ/pred only where the open-interval sugar puts them); [Known_C03] = the class of
    the one defect that is not repaired (known/C03.json). *)
From Coq Require Import ZArith List Bool Permutation.
From ErgV Require Import Pred.Model Pred.Spec Pred.Proofs Pred.ProofsSuper Pred.ProofsRefine Pred.ProofsJudge Pred.ProofsFuel Pred.ProofsPanic.
Import ListNotations.
Open Scope Z_scope.

(** Whenever the checker accepts {I: bp | p} where {I: bq | q} is required, every integer of the first type is
    an integer of the second — for all predicates of the integer fragment (any size, any constants in machine
    range, ==, !=, <=, >=, <, >, and, or, not, interval forms), both base types, every iteration order of the
    hash sets; outside the known class. *)
Theorem accept_sound : forall perm : list pred -> list pred, (forall l, Permutation (perm l) l) ->
  forall bp p bq q, wf p = true -> wf q = true ->
  Known_C03 perm bp p bq q = false ->
  sub_refine current perm bp p bq q = Ok true ->
  forall i, mem bp p i = true -> mem bq q i = true.
Proof. exact accept_sound_perm. Qed.
Example accept_sound_nonvacuous :
  let p := interval IClosed 2 3 in let q := PAnd (PGe (CSucc 1)) (PLe (CV 10)) in
  wf p = true /\ wf q = true /\ Known_C03 idp BNat p BNat q = false /\ sub_refine current idp BNat p BNat q = Ok true.
Proof. exact accept_example. Qed.

(** consequence for `g(x: {I: bp | p}): {I: bq | q} = x`: if the definition is accepted, no argument of the
    declared parameter type makes g return an integer outside the declared return type *)
Corollary return_sound : forall perm : list pred -> list pred, (forall l, Permutation (perm l) l) ->
  forall bp p bq q, wf p = true -> wf q = true -> Known_C03 perm bp p bq q = false ->
  sub_refine current perm bp p bq q = Ok true ->
  ~ exists i, mem bp p i = true /\ mem bq q i = false.
Proof. exact return_sound_l. Qed.

(** the same statement is false of the code as it was before each repair (witness = the replay) *)
(* compare.rs is_super_pred_of (And, And): g(x: {I: Int | I >= 5 and I >= 6}): {I: Int | I >= 0 and I <= 10} = x; g(100) *)
Theorem accept_sound_refuted :
  let p := PAnd (PGe (CV 5)) (PGe (CV 6)) in let q := PAnd (PGe (CV 0)) (PLe (CV 10)) in
  wf p = true /\ wf q = true /\ sub_refine before_and idp BInt p BInt q = Ok true /\
  mem BInt p 100 = true /\ mem BInt q 100 = false.
Proof. exact refuted_and. Qed.
(* compare.rs (Refinement, Refinement): g(x: {I: Int | I <= 1}): {I: Nat | I <= 1} = x; g(-5) *)
Theorem nat_base_refuted :
  let p := PLe (CV 1) in let q := PLe (CV 1) in
  wf p = true /\ wf q = true /\ sub_refine before_nat idp BInt p BNat q = Ok true /\
  mem BInt p (-5) = true /\ mem BNat q (-5) = false.
Proof. exact refuted_nat. Qed.
(* const_func.rs pred_func: g(x: {0}): -3..<0 = x *)
Theorem pred_zero_refuted :
  let p := PEq (CV 0) in let q := interval IRightOpen (-3) 0 in
  wf p = true /\ wf q = true /\ sub_refine before_pred0 idp BInt p BInt q = Ok true /\
  mem BInt p 0 = true /\ mem BInt q 0 = false.
Proof. exact refuted_pred0. Qed.
(* value.rs ValueObj::try_cmp through f64: g(x: {I: Int | I == 2^53}): {I: Int | I == 2^53 + 1} = x *)
Theorem big_const_refuted :
  let p := PEq (CV 9007199254740992) in let q := PEq (CV 9007199254740993) in
  wf p = true /\ wf q = true /\ sub_refine before_cmp idp BInt p BInt q = Ok true /\
  mem BInt p 9007199254740992 = true /\ mem BInt q 9007199254740992 = false.
Proof. exact refuted_cmp. Qed.
(** and it is false inside the known class on the current tree: g(x: 1..3): {I: Int | ~(I >= 0 and I <= 5)} = x *)
Theorem known_class_refuted :
  let p := interval IClosed 1 3 in let q := PNot (PAnd (PGe (CV 0)) (PLe (CV 5))) in
  wf p = true /\ wf q = true /\ Known_C03 idp BNat p BInt q = true /\
  sub_refine current idp BNat p BInt q = Ok true /\
  mem BNat p 2 = true /\ mem BInt q 2 = false.
Proof. exact refuted_known. Qed.

(** the model never runs out of fuel: the recursion of is_super_pred_of / reduce_preds terminates, for every
    configuration and order oracle *)
Theorem fuel_enough : forall f (perm : list pred -> list pred), (forall l x, In x (perm l) <-> In x l) ->
  forall bp p bq q, sub_refine f perm bp p bq q <> Fuel.
Proof. exact sub_refine_fuel. Qed.

(** and within the machine range of the constants ([wf]) it reaches no [Panic] outcome: the only arithmetic on
    the modelled path, succ / pred of an open-interval bound (u64 + 1, i32 - 1), cannot overflow *)
Theorem no_panic : forall f (perm : list pred -> list pred), (forall l x, In x (perm l) <-> In x l) ->
  forall bp p bq q, wf p = true -> wf q = true -> sub_refine f perm bp p bq q <> Panic.
Proof. exact sub_refine_np. Qed.

(** the oracles the correspondence check runs the model with are permutations *)
Theorem oracle_family_ok : forall k l, Permutation (perm_k k l) l.
Proof. exact perm_k_perm. Qed.

(** the judge: testing c-1, c, c+1 for every constant c (and for 0) decides the implication over all integers *)
Theorem window_complete : forall bp p bq q, pure p = true -> pure q = true ->
  (implies_dec bp p bq q = true <-> forall i, mem bp p i = true -> mem bq q i = true).
Proof. exact window_complete_l. Qed.
Theorem counterexample_sound : forall bp p bq q i, counterexample bp p bq q = Some i ->
  mem bp p i = true /\ mem bq q i = false.
Proof. exact counterexample_spec. Qed.
Example window_nonvacuous :
  implies_dec BInt (PAnd (PGe (CV 5)) (PGe (CV 6))) BInt (PAnd (PGe (CV 0)) (PLe (CV 10))) = false /\
  counterexample BInt (PAnd (PGe (CV 5)) (PGe (CV 6))) BInt (PAnd (PGe (CV 0)) (PLe (CV 10))) = Some 11 /\
  implies_dec BNat (interval IClosed 2 3) BNat (interval ILeftOpen 1 10) = true.
Proof. exact window_example. Qed.

(** interval sugar a..b, a<..b, a..<b, a<..<b denotes the interval *)
Theorem interval_den : forall op a b i,
  deni (interval op a b) i =
  match op with
  | IClosed => (a <=? i) && (i <=? b)
  | ILeftOpen => (a <? i) && (i <=? b)
  | IRightOpen => (a <=? i) && (i <? b)
  | IOpen => (a <? i) && (i <? b)
  end.
Proof. exact interval_den_l. Qed.
