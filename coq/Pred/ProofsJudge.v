(** C03 — the executable judge [implies_dec] decides implication over all integers (window_complete). *)
From Coq Require Import ZArith List Bool Arith Lia Btauto Permutation.
From ErgV Require Import Pred.Model Pred.Spec Pred.Proofs.
Import ListNotations.
Open Scope Z_scope.

(* i and j compare alike with c *)
Definition same (i j c : Z) : Prop := (i ?= c) = (j ?= c).
Lemma same_iff : forall i j c, same i j c <-> ((i < c <-> j < c) /\ (i = c <-> j = c)).
Proof.
  intros i j c. unfold same. destruct (Z.compare_spec i c), (Z.compare_spec j c); split; intros HH; try discriminate HH;
    try reflexivity; try lia.
Qed.

Lemma deni_or : forall l i, deni (POr l) i = existsb (fun q => deni q i) l.
Proof. intros. unfold deni. rewrite den_or. reflexivity. Qed.

(** in the integer fragment the truth of a predicate depends only on how the integer compares with the constants *)
Lemma den_same : forall p i j, pure p = true -> (forall c, In c (consts p) -> same i j c) -> deni p i = deni p j.
Proof.
  induction p as [b0|c|c|c|c|l H|p1 p2 IH1 IH2|p IH|n|k a b0] using pred_ind'; intros i j P S; try discriminate P;
    try reflexivity;
    try (specialize (S (cval c) (or_introl eq_refl)); apply same_iff in S; unfold deni; cbn [den]; lia).
  - rewrite !deni_or. revert P S. induction l as [|x t IHt]; intros P S; [reflexivity|]. inversion H; subst.
    cbn [pure] in P. apply andb_prop in P. destruct P as [Px Pt]. cbn [existsb]. f_equal.
    + apply H2; [assumption|]. intros c Hc. apply S. cbn [consts]. apply in_or_app. now left.
    + apply IHt; [assumption|exact Pt|]. intros c Hc. apply S. cbn [consts] in *. apply in_or_app. now right.
  - cbn [pure] in P. apply andb_prop in P. destruct P as [P1 P2]. unfold deni in *. cbn [den]. f_equal.
    + apply IH1; [assumption|]. intros c Hc. apply S. cbn [consts]. apply in_or_app. now left.
    + apply IH2; [assumption|]. intros c Hc. apply S. cbn [consts]. apply in_or_app. now right.
  - cbn [pure] in P. unfold deni in *. cbn [den]. f_equal. apply IH; assumption.
Qed.

(** every integer compares with the constants of a non-empty list like one of c-1, c, c+1 *)
Lemma pts_repr : forall l a i, exists j, In j (pts (a :: l)) /\ forall c, In c (a :: l) -> same i j c.
Proof.
  induction l as [|b t IH]; intros a i.
  - destruct (Z.compare_spec i a).
    + exists a. split; [cbn; auto|]. intros c [<-|[]]. apply same_iff. lia.
    + exists (a - 1). split; [cbn; auto|]. intros c [<-|[]]. apply same_iff. lia.
    + exists (a + 1). split; [cbn; auto|]. intros c [<-|[]]. apply same_iff. lia.
  - destruct (IH b i) as (j' & Hj' & S').
    assert (T : forall j, In j (pts (b :: t)) -> In j (pts (a :: b :: t))).
    { intros j Hj. change (In j ((a - 1) :: a :: (a + 1) :: pts (b :: t))). cbn [In]. auto. }
    destruct (Z.compare_spec i a) as [E|L|G].
    + exists a. split; [cbn; auto|]. intros c [<-|Hc]; apply same_iff; [lia|]. subst. lia.
    + destruct (Z_lt_le_dec j' a).
      * exists j'. split; [auto|]. intros c [<-|Hc]; [apply same_iff; lia|auto].
      * exists (a - 1). split; [cbn; auto|]. intros c [<-|Hc]; apply same_iff; [lia|].
        specialize (S' c Hc). apply same_iff in S'. lia.
    + destruct (Z_lt_le_dec a j').
      * exists j'. split; [auto|]. intros c [<-|Hc]; [apply same_iff; lia|auto].
      * exists (a + 1). split; [cbn; auto|]. intros c [<-|Hc]; apply same_iff; [lia|].
        specialize (S' c Hc). apply same_iff in S'. lia.
Qed.

Lemma mem_same : forall b p i j, pure p = true -> same i j 0 -> (forall c, In c (consts p) -> same i j c) ->
  mem b p i = mem b p j.
Proof.
  intros b p i j P S0 S. unfold mem. rewrite (den_same p i j P S). f_equal.
  destruct b; cbn [in_base]; [reflexivity|]. apply same_iff in S0. lia.
Qed.

(** C03 judge: testing the points c-1, c, c+1 of every constant (and of 0) decides the implication over all integers *)
Lemma window_complete_l : forall bp p bq q, pure p = true -> pure q = true ->
  (implies_dec bp p bq q = true <-> forall i, mem bp p i = true -> mem bq q i = true).
Proof.
  intros bp p bq q Pp Pq. unfold implies_dec. rewrite forallb_forall. split.
  - intros H i Mi. unfold window in H.
    destruct (pts_repr (consts p ++ consts q) 0 i) as (j & Hj & S).
    specialize (H j Hj).
    assert (S0 : same i j 0) by (apply S; cbn; auto).
    assert (Sp : forall c, In c (consts p) -> same i j c). { intros c Hc. apply S. right. apply in_or_app. now left. }
    assert (Sq : forall c, In c (consts q) -> same i j c). { intros c Hc. apply S. right. apply in_or_app. now right. }
    rewrite (mem_same bp p i j Pp S0 Sp) in Mi. rewrite (mem_same bq q i j Pq S0 Sq).
    rewrite Mi in H. exact H.
  - intros H i _. destruct (mem bp p i) eqn:M; [|reflexivity]. cbn. auto.
Qed.

Lemma counterexample_spec : forall bp p bq q i, counterexample bp p bq q = Some i ->
  mem bp p i = true /\ mem bq q i = false.
Proof.
  intros bp p bq q i H. unfold counterexample in H. apply find_some in H. destruct H as [_ H].
  destruct (mem bp p i), (mem bq q i); cbn in H; try discriminate; auto.
Qed.
