(** C32 — property theorems (statements only; proofs are in Proofs.v).

    [den v tv p i]: integer [i] satisfies [p] when the opaque boolean atoms are valued by [v] and the opaque
    integer terms by [tv] (Spec.v).  [pand], [por], [invert], [pgt], [plt] are the transcriptions of
    Predicate::{and, or, invert, gt, lt} (Model.v).  All statements are for every predicate tree (any depth,
    including opaque atoms, general comparisons such as `3 <= I`, and enum values the constructors never
    build), every integer and every valuation. *)
From Coq Require Import ZArith List Bool.
From ErgV Require Import Pred.Model Pred.Spec Pred.Proofs.
Import ListNotations.
Open Scope Z_scope.

(** and = intersection *)
Theorem and_den : forall v tv p q i, den v tv (pand p q) i = den v tv p i && den v tv q i.
Proof. exact den_pand. Qed.
Example and_den_nonvacuous :
  pand (PAnd (PGe (CV 0)) (PLe (CV 9))) (PLe (CV 9)) = PAnd (PGe (CV 0)) (PLe (CV 9)) /\
  pand (PGe (CV 0)) (POther 1) = PAnd (PGe (CV 0)) (POther 1).
Proof. exact and_example. Qed.

(** or = union *)
Theorem or_den : forall v tv p q i, den v tv (por p q) i = den v tv p i || den v tv q i.
Proof. exact den_por. Qed.
Example or_den_nonvacuous :
  por (PEq (CV 1)) (PGe (CV 1)) = PGe (CV 1) /\
  por (POr [PEq (CV 1); PEq (CV 2)]) (POr [PEq (CV 2); PEq (CV 3)]) = POr [PEq (CV 1); PEq (CV 2); PEq (CV 3)].
Proof. exact or_example. Qed.

(** invert = complement (tree as it is now: Model.current) *)
Theorem invert_den : forall v tv p i, den v tv (invert current p) i = negb (den v tv p i).
Proof. exact den_invert_current. Qed.
Example invert_den_nonvacuous :
  invert current (PGe (CV 3)) = PAnd (PLe (CV 3)) (PNe (CV 3)) /\
  invert current (PAnd (PGe (CV 0)) (PLe (CV 9))) = PNot (PAnd (PGe (CV 0)) (PLe (CV 9))) /\
  invert current (PGen GLe (TVal 3) TSubj) = PAnd (PGen GGe (TVal 3) TSubj) (PGen GNe (TVal 3) TSubj).
Proof. exact invert_example. Qed.

(** before the repair (Model.before_inv) invert turned `3 <= I` into `3 >= I`: both hold for I = 3 *)
Theorem invert_den_refuted :
  exists p i, forall v tv, den v tv (invert before_inv p) i <> negb (den v tv p i).
Proof. exact invert_refuted. Qed.

(** gt / lt *)
Theorem gt_den : forall v tv c i, den v tv (pgt c) i = (cval c <? i).
Proof. exact den_pgt. Qed.
Theorem lt_den : forall v tv c i, den v tv (plt c) i = (i <? cval c).
Proof. exact den_plt. Qed.
Example gt_lt_nonvacuous : pgt (CV 5) = PAnd (PGe (CV 5)) (PNe (CV 5)) /\ plt (CV 5) = PAnd (PLe (CV 5)) (PNe (CV 5)).
Proof. exact gt_lt_example. Qed.
