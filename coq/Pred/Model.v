(** C32 / C03 — model of the integer fragment of refinement predicates.

    Transcribed from
      crates/erg_compiler/ty/predicate.rs      Predicate::{and, or, invert, gt, lt, ands, ors, substitute,
                                               change_subject_name, possible_tps, mentions, can_be_false}
      crates/erg_compiler/context/compare.rs   Context::{is_super_pred_of, reduce_preds, try_cmp} and the
                                               (Refinement, Refinement) / (Refinement, class) arms of
                                               structural_supertype_of, cheap_supertype_of, nominal path for Int/Nat
      crates/erg_compiler/context/eval.rs      Context::eval_pred (bool_eval_pred)
      crates/erg_compiler/ty/value.rs          ValueObj::try_cmp on Int/Nat
      crates/erg_compiler/ty/constructors.rs   interval
    Definitions only; proofs are in Proofs*.v.

    One subject variable.  Constants are integers ([CV]) or the symbolic [succ(c)] / [pred(c)] that the
    open-interval sugar produces ([TyParam::App]).  A [Set<Predicate>] (FxHashSet) is a duplicate-free list in
    arbitrary order: every place where the Rust code iterates over such a set goes through the order oracle
    [perm] (any function returning a permutation of its argument); the theorems hold for every oracle.

    [cfg] selects, for each defect found with this machinery and repaired in /repo, the code before ([false]) or
    after ([true]) the repair; [current] is the tree as it is now.  The [*_refuted] theorems are about the old
    arms, the clean theorems about [current]. *)
From Coq Require Import ZArith List Bool Arith.
Import ListNotations.
Open Scope Z_scope.

Inductive res (A : Type) : Type :=
| Ok (a : A)
| Panic            (* the Rust code would panic here (integer overflow in a debug build) *)
| Fuel.            (* model ran out of fuel; excluded by the fuel-bound lemma *)
Arguments Ok {A} a.
Arguments Panic {A}.
Arguments Fuel {A}.

Definition bind {A B} (r : res A) (f : A -> res B) : res B :=
  match r with Ok a => f a | Panic => Panic | Fuel => Fuel end.
Notation "'do' x <- r ; k" := (bind r (fun x => k)) (at level 200, x pattern, r at level 100, k at level 200).

Record cfg := {
  fx_and   : bool;  (* (And, And) arm of is_super_pred_of: quantifier order repaired *)
  fx_nat   : bool;  (* {I: Nat | Q} :> {I: Int | P}: the I >= 0 of Nat is kept *)
  fx_pred0 : bool;  (* pred(0) = -1 (was 0: saturating u64 subtraction) *)
  fx_cmp   : bool;  (* ValueObj::try_cmp compares integers exactly (was: through f64) *)
  fx_inv   : bool   (* invert of General <= / >= is the strict opposite (was: the non-strict one) *)
}.

(* ------------------------------------------------------------------ constants *)
Inductive cst :=
| CV (z : Z)        (* TyParam::Value(Nat z) for z >= 0, TyParam::Value(Int z) for z < 0 *)
| CSucc (z : Z)     (* TyParam::App{succ, [Value z]}   (l<..r) *)
| CPred (z : Z).    (* TyParam::App{pred, [Value z]}   (l..<r) *)

Definition cst_eqb (a b : cst) : bool :=
  match a, b with
  | CV x, CV y | CSucc x, CSucc y | CPred x, CPred y => x =? y
  | _, _ => false
  end.

(* what the constant means *)
Definition cval (c : cst) : Z :=
  match c with CV z => z | CSucc z => z + 1 | CPred z => z - 1 end.

Definition u64_max : Z := 18446744073709551615.
Definition i32_min : Z := -2147483648.

(* const_func.rs succ_func / pred_func through eval_app: Nat(n) + 1 on u64, Int(n) - 1 on i32 *)
Definition ceval (f : cfg) (c : cst) : res Z :=
  match c with
  | CV z => Ok z
  | CSucc z => if z =? u64_max then Panic else Ok (z + 1)
  | CPred z => if z =? i32_min then Panic
               else if (z =? 0) && negb (fx_pred0 f) then Ok 0   (* Nat(0).saturating_sub(1) *)
               else Ok (z - 1)
  end.

(* u64/i32 -> f64 conversion: round to nearest, ties to even, 53 significant bits *)
Definition f64r (z : Z) : Z :=
  let a := Z.abs z in
  if a <=? 9007199254740992 then z
  else
    let e := Z.log2 a - 52 in
    let q := Z.shiftr a e in
    let r := a - Z.shiftl q e in
    let half := Z.shiftl 1 (e - 1) in
    let q' := if r <? half then q else if half <? r then q + 1 else if Z.even q then q else q + 1 in
    Z.sgn z * Z.shiftl q' e.

(* ValueObj::try_cmp on two integers (after `self == other`) *)
Definition cmp_val (f : cfg) (x y : Z) : comparison :=
  if x =? y then Eq else if fx_cmp f then x ?= y else f64r x ?= f64r y.

(* Context::try_cmp on constants: `l == r` first, App is evaluated with eval_app *)
Definition try_cmp (f : cfg) (a b : cst) : res comparison :=
  if cst_eqb a b then Ok Eq
  else do x <- ceval f a; do y <- ceval f b; Ok (cmp_val f x y).

Definition is_lt (c : comparison) := match c with Lt => true | _ => false end.
Definition is_gt (c : comparison) := match c with Gt => true | _ => false end.
Definition is_eq (c : comparison) := match c with Eq => true | _ => false end.
Definition canbe_le (c : comparison) := match c with Gt => false | _ => true end.
Definition canbe_ge (c : comparison) := match c with Lt => false | _ => true end.

(* ------------------------------------------------------------------ predicates *)
Inductive term :=
| TSubj              (* Predicate::Const(subject) *)
| TVal (z : Z)       (* Predicate::Value(integer) *)
| TOther (n : nat).  (* Predicate::Const("c<n>"): an opaque integer term *)

Inductive gk := GEq | GNe | GGe | GLe.

Inductive pred :=
| PVal (b : bool)
| PEq (c : cst) | PNe (c : cst) | PGe (c : cst) | PLe (c : cst)
| POr (l : list pred)            (* Set<Predicate> *)
| PAnd (l r : pred)
| PNot (p : pred)
| POther (n : nat)               (* Predicate::Const("c<n>"): an opaque boolean atom (stands for Const/Call/Attr) *)
| PGen (k : gk) (a b : term).    (* General{Equal,NotEqual,GreaterEqual,LessEqual}{lhs: a, rhs: b} *)

Definition term_eqb (a b : term) : bool :=
  match a, b with
  | TSubj, TSubj => true
  | TVal x, TVal y => x =? y
  | TOther n, TOther m => Nat.eqb n m
  | _, _ => false
  end.
Definition gk_eqb (a b : gk) : bool :=
  match a, b with GEq, GEq | GNe, GNe | GGe, GGe | GLe, GLe => true | _, _ => false end.

(* derived PartialEq; two Or sets are equal when they have the same size and every member of the first is a
   member of the second (HashSet::eq).  For duplicate-free lists - what a Set is - the converse inclusion
   follows; it is spelled out here so that no invariant on the lists is needed. *)
Fixpoint pred_eqb (p q : pred) {struct p} : bool :=
  match p, q with
  | PVal a, PVal b => Bool.eqb a b
  | PEq a, PEq b | PNe a, PNe b | PGe a, PGe b | PLe a, PLe b => cst_eqb a b
  | POr l1, POr l2 =>
    Nat.eqb (length l1) (length l2) &&
    (fix all (l : list pred) : bool :=
       match l with
       | [] => true
       | x :: t => (fix ex (m : list pred) : bool :=
                      match m with [] => false | y :: m' => pred_eqb x y || ex m' end) l2 && all t
       end) l1 &&
    (fix all2 (m : list pred) : bool :=
       match m with
       | [] => true
       | y :: m' => (fix ex2 (l : list pred) : bool :=
                       match l with [] => false | x :: t => pred_eqb x y || ex2 t end) l1 && all2 m'
       end) l2
  | PAnd a b, PAnd c d => pred_eqb a c && pred_eqb b d
  | PNot a, PNot b => pred_eqb a b
  | POther n, POther m => Nat.eqb n m
  | PGen k a b, PGen k2 a2 b2 => gk_eqb k k2 && term_eqb a a2 && term_eqb b b2
  | _, _ => false
  end.

Definition mem_pred (x : pred) (l : list pred) : bool := existsb (pred_eqb x) l.
(* FxHashSet::insert *)
Definition set_add (x : pred) (l : list pred) : list pred := if mem_pred x l then l else l ++ [x].
(* Set::union / extend / collect *)
Definition set_union (l r : list pred) : list pred := fold_left (fun acc x => set_add x acc) r l.
Definition set_of_list (l : list pred) : list pred := set_union [] l.
(* Set::linear_remove *)
Definition set_remove (x : pred) (l : list pred) : list pred := filter (fun y => negb (pred_eqb y x)) l.

Fixpoint size (p : pred) : nat :=
  match p with
  | POr l => S ((fix sum (l : list pred) : nat := match l with [] => O | x :: t => (size x + sum t)%nat end) l)
  | PAnd l r => S (size l + size r)
  | PNot q => S (size q)
  | _ => 1%nat
  end.

(* ------------------------------------------------------------------ constructors (predicate.rs) *)

(* Predicate::and(x, o) when o is neither a Value nor an And *)
Fixpoint and1 (x o : pred) {struct x} : pred :=
  match x with
  | PVal true => o
  | PVal false => PVal false
  | PAnd l r => if pred_eqb l o then and1 r o else if pred_eqb r o then and1 l o else PAnd (PAnd l r) o
  | _ => if pred_eqb x o then x else PAnd x o
  end.

(* Predicate::and.  The Rust function recurses as `*r & other` / `*l & other`; when the And is the left
   argument that is a call on a sub-term of the left argument with the same right argument ([pand] itself),
   when the And is the right argument the other argument is neither a Value nor an And ([and1]). *)
Fixpoint pand (a b : pred) {struct a} : pred :=
  match a, b with
  | PVal true, _ => b
  | _, PVal true => a
  | PVal false, _ => PVal false
  | _, PVal false => PVal false
  | PAnd l r, _ => if pred_eqb l b then pand r b else if pred_eqb r b then pand l b else PAnd (PAnd l r) b
  | _, PAnd l r => if pred_eqb l a then and1 r a else if pred_eqb r a then and1 l a else PAnd (PAnd l r) a
  | _, _ => if pred_eqb a b then a else PAnd a b
  end.

(* Predicate::or *)
Definition por (a b : pred) : pred :=
  match a, b with
  | PVal true, _ => PVal true
  | _, PVal true => PVal true
  | PVal false, _ => b
  | _, PVal false => a
  | POr l, POr r => POr (set_union l r)
  | POr l, o => POr (set_add o l)
  | o, POr l => POr (set_add o l)
  | PEq c, PGe c2 => if cst_eqb c c2 then PGe c else POr [a; b]
  | _, _ => if pred_eqb a b then a else POr [a; b]
  end.

Definition pgt (c : cst) : pred := pand (PGe c) (PNe c).
Definition plt (c : cst) : pred := pand (PLe c) (PNe c).

(* Predicate::invert *)
Definition invert (f : cfg) (p : pred) : pred :=
  match p with
  | PVal b => PVal (negb b)
  | PEq c => PNe c
  | PGe c => plt c
  | PLe c => pgt c
  | PNe c => PEq c
  | PGen GEq a b => PGen GNe a b
  | PGen GLe a b => if fx_inv f then pand (PGen GGe a b) (PGen GNe a b) else PGen GGe a b
  | PGen GGe a b => if fx_inv f then pand (PGen GLe a b) (PGen GNe a b) else PGen GLe a b
  | PGen GNe a b => PGen GEq a b
  | PNot q => q
  | other => PNot other
  end.

(* Predicate::ands / ors: Set<&Predicate> *)
Fixpoint ands (p : pred) : list pred :=
  match p with
  | PAnd l r => set_union (ands l) (ands r)
  | _ => [p]
  end.
Definition ors (p : pred) : list pred :=
  match p with
  | POr l => set_of_list l
  | _ => [p]
  end.

(* Predicate::possible_tps *)
Fixpoint possible_tps (p : pred) : list cst :=
  match p with
  | POr l => (fix go (l : list pred) : list cst := match l with [] => [] | x :: t => possible_tps x ++ go t end) l
  | PEq c => [c]
  | _ => []
  end.

(* Predicate::change_subject_name (the name does not matter here; what matters is that it rebuilds
   And with Predicate::and, Or by collecting into a set and Not with Predicate::not = invert) *)
Fixpoint cs (f : cfg) (p : pred) : pred :=
  match p with
  | PAnd l r => pand (cs f l) (cs f r)
  | POr l => POr (set_of_list ((fix go (l : list pred) : list pred :=
                                  match l with [] => [] | x :: t => cs f x :: go t end) l))
  | PNot q => invert f (cs f q)
  | _ => p
  end.

Definition subst_term (t : term) (tp : cst) : term := t.   (* Const / Value are left alone *)

(* Predicate::substitute(subject, tp) *)
Fixpoint substitute (f : cfg) (p : pred) (tp : cst) : pred :=
  match p with
  | PEq _ => PEq tp
  | PNe _ => PNe tp
  | PGe _ => PGe tp
  | PLe _ => PLe tp
  | PAnd l r => pand (substitute f l tp) (substitute f r tp)
  | POr l => POr (set_of_list ((fix go (l : list pred) : list pred :=
                                  match l with [] => [] | x :: t => substitute f x tp :: go t end) l))
  | PNot q => invert f (substitute f q tp)
  | _ => p
  end.

Definition gk_eval (k : gk) (x y : Z) : bool :=
  match k with GEq => x =? y | GNe => negb (x =? y) | GGe => y <=? x | GLe => x <=? y end.

(* eval.rs eval_pred: comparison constants are evaluated (succ(1) becomes 2), And is rebuilt with `&`,
   Or by collecting, Not with `!` *)
Fixpoint eval_pred (f : cfg) (p : pred) : res pred :=
  match p with
  | PEq c => do z <- ceval f c; Ok (PEq (CV z))
  | PNe c => do z <- ceval f c; Ok (PNe (CV z))
  | PGe c => do z <- ceval f c; Ok (PGe (CV z))
  | PLe c => do z <- ceval f c; Ok (PLe (CV z))
  | PAnd l r => do a <- eval_pred f l; do b <- eval_pred f r; Ok (pand a b)
  | POr l => do l' <- (fix go (l : list pred) : res (list pred) :=
                         match l with
                         | [] => Ok []
                         | x :: t => do a <- eval_pred f x; do t' <- go t; Ok (a :: t')
                         end) l;
             Ok (POr (set_of_list l'))
  | PNot q => do a <- eval_pred f q; Ok (invert f a)
  | PGen k (TVal x) (TVal y) => Ok (PVal (gk_eval k x y))
  | _ => Ok p
  end.

(* Predicate::mentions(subject) *)
Fixpoint mentions (p : pred) : bool :=
  match p with
  | PEq _ | PNe _ | PGe _ | PLe _ => true
  | POr l => (fix go (l : list pred) : bool := match l with [] => false | x :: t => mentions x || go t end) l
  | PAnd l r => mentions l || mentions r
  | PNot q => mentions q
  | PGen _ a b => term_eqb a TSubj || term_eqb b TSubj
  | _ => false
  end.

(* Predicate::can_be_false *)
Fixpoint can_be_false (p : pred) : option bool :=
  match p with
  | PVal b => Some (negb b)
  | POther _ => None
  | POr l => (fix go (l : list pred) : option bool :=
                match l with
                | [] => Some false
                | x :: t => match can_be_false x with
                            | None => None
                            | Some true => Some true
                            | Some false => go t
                            end
                end) l
  | PAnd l r => match can_be_false l with
                | None => None
                | Some a => match can_be_false r with None => None | Some b => Some (a && b) end
                end
  | PNot q => match can_be_false q with None => None | Some a => Some (negb a) end
  | _ => Some true
  end.

(* ------------------------------------------------------------------ is_super_pred_of (compare.rs) *)

Fixpoint allM {A} (g : A -> res bool) (l : list A) : res bool :=
  match l with
  | [] => Ok true
  | x :: t => do b <- g x; if b then allM g t else Ok false
  end.
Fixpoint anyM {A} (g : A -> res bool) (l : list A) : res bool :=
  match l with
  | [] => Ok false
  | x :: t => do b <- g x; if b then Ok true else anyM g t
  end.
Fixpoint findM {A} (g : A -> res bool) (l : list A) : res (option A) :=
  match l with
  | [] => Ok None
  | x :: t => do b <- g x; if b then Ok (Some x) else findM g t
  end.
Definition orM (a : res bool) (b : res bool) : res bool := do x <- a; if x then Ok true else b.
Definition andM (a : res bool) (b : res bool) : res bool := do x <- a; if x then b else Ok false.
Definition negM (a : res bool) : res bool := do x <- a; Ok (negb x).

Section IsSuper.
  Variable f : cfg.
  (* the iteration order of a hash set: any permutation of the stored elements *)
  Variable perm : list pred -> list pred.

  (* reduce_preds(mode, preds) with the recursive call abstracted: sup l r = is_super_pred_of(l, r) *)
  Definition reduce_step (sup : pred -> pred -> res bool) (is_and : bool) (reduced : list pred) (p : pred)
    : res (list pred) :=
    do old <- findM (fun e => if is_and then sup e p else sup p e) (perm reduced);
    let reduced1 := match old with Some o => set_remove o reduced | None => reduced end in
    do ins <- allM (fun e => negM (if is_and then sup p e else sup e p)) (perm reduced1);
    Ok (if ins then set_add p reduced1 else reduced1).

  Fixpoint reduce_loop (sup : pred -> pred -> res bool) (is_and : bool) (reduced : list pred) (l : list pred)
    : res (list pred) :=
    match l with
    | [] => Ok reduced
    | p :: t => do r <- reduce_step sup is_and reduced p; reduce_loop sup is_and r t
    end.

  Definition reduce_preds (sup : pred -> pred -> res bool) (is_and : bool) (preds : list pred) : res (list pred) :=
    reduce_loop sup is_and [] (perm preds).

  Fixpoint is_super (n : nat) (lhs rhs : pred) {struct n} : res bool :=
    match n with
    | O => Fuel
    | S n' =>
      if pred_eqb lhs rhs then Ok true
      else
        let sup := is_super n' in
        match lhs, rhs with
        | PEq _, (PGe _ | PLe _ | PNe _) => Ok false
        | PLe _, PGe _ => Ok false
        | PGe _, PLe _ => Ok false
        | PNe a, PEq b => Ok (negb (cst_eqb a b))
        | PNe a, PGe b => do o <- try_cmp f a b; Ok (is_lt o)
        | PNe a, PLe b => do o <- try_cmp f a b; Ok (is_gt o)
        | PNe a, PNe b => do o <- try_cmp f a b; Ok (is_eq o)
        | PEq a, PEq b => if cst_eqb a b then Ok true else do o <- try_cmp f a b; Ok (is_eq o)
        | PGen k a b, PGen k2 a2 b2 =>
          if gk_eqb k k2 then Ok (term_eqb a a2 && term_eqb b b2) else Ok false
        | PGe a, PGe b => do o <- try_cmp f a b; Ok (canbe_le o)
        | PGe a, PEq b => do o <- try_cmp f a b; Ok (canbe_le o)
        | PLe a, PLe b => do o <- try_cmp f a b; Ok (canbe_ge o)
        | PLe a, PEq b => do o <- try_cmp f a b; Ok (canbe_ge o)
        | PAnd _ _, PAnd _ _ =>
          do L <- reduce_preds sup true (ands lhs);
          do R <- reduce_preds sup true (ands rhs);
          if fx_and f
          then allM (fun l => anyM (fun r => sup l r) (perm R)) (perm L)
          else allM (fun r => anyM (fun l => sup l r) (perm L)) (perm R)
        | POr _, POr _ =>
          do L <- reduce_preds sup false (ors lhs);
          do R <- reduce_preds sup false (ors rhs);
          allM (fun r => anyM (fun l => sup l r) (perm L)) (perm R)
        | PVal b, _ => Ok b
        | _, PVal b => Ok (negb b)
        | _, PAnd l r => orM (sup lhs l) (sup lhs r)
        | _, POr l => allM (fun o => sup lhs o) (perm l)
        | POr l, _ => anyM (fun o => sup o rhs) (perm l)
        | PAnd l r, _ => andM (sup l rhs) (sup r rhs)
        | _, _ => Ok false
        end
    end.
End IsSuper.

(* ------------------------------------------------------------------ refinement types over Int / Nat *)
Inductive base := BInt | BNat.
Definition base_eqb (a b : base) : bool := match a, b with BInt, BInt | BNat, BNat => true | _, _ => false end.
(* cheap_supertype_of on the classes: a :> b *)
Definition class_sup (a b : base) : bool := match a, b with BNat, BInt => false | _, _ => true end.

Definition fuel_of (q p : pred) : nat := S (size q + size p).

Section Refine.
  Variable f : cfg.
  Variable perm : list pred -> list pred.

  (* the possible_tps shortcut of the (Refinement, Refinement) arm *)
  Definition shortcut (q p : pred) : res bool :=
    anyM (fun tp => do e <- eval_pred f (substitute f q tp);
                    Ok (match e with PVal true => true | _ => false end)) (possible_tps p).

  (* (Refinement(l), Refinement(r)) with l.t :> r.t *)
  Definition refine_arm (q p : pred) : res bool :=
    do s <- shortcut q p;
    if s then Ok true else is_super f perm (fuel_of q p) q p.

  (* structural_supertype_of({I: bq | q}, {I: bp | p}) *)
  Definition struct_arm (bq : base) (q : pred) (bp : base) (p : pred) : res bool :=
    if class_sup bq bp then refine_arm q p
    else (* bq = Nat, bp = Int: Nat.into_refinement() = {I: Int | I >= 0}, whose class is above Int *)
      if fx_nat f then refine_arm (pand (PGe (CV 0)) q) p
      else refine_arm q p.

  (* (Refinement(l), r) arm for r a class above l.t *)
  Definition class_arm (q : pred) : bool :=
    if mentions q then match can_be_false q with Some true => false | _ => true end else true.

  (* nominal_supertype_of: only Nat has a super class (Int) that is below an Int-based refinement *)
  Definition nominal_arm (bq : base) (q : pred) (bp : base) : bool :=
    match bq, bp with BInt, BNat => class_arm q | _, _ => false end.

  (* Context::subtype_of({I: bp | p}, {I: bq | q}) *)
  Definition sub_refine (bp : base) (p : pred) (bq : base) (q : pred) : res bool :=
    if base_eqb bq bp && pred_eqb q (cs f p) then Ok true      (* cheap_supertype_of: lhs == rhs *)
    else
      do s <- struct_arm bq q bp p;
      if s then Ok true else Ok (nominal_arm bq q bp).
End Refine.

(* ------------------------------------------------------------------ sugar (constructors.rs interval) *)
Inductive iop := IClosed | ILeftOpen | IRightOpen | IOpen.
Definition interval (op : iop) (a b : Z) : pred :=
  match op with
  | IClosed => pand (PGe (CV a)) (PLe (CV b))
  | ILeftOpen => pand (PGe (CSucc a)) (PLe (CV b))
  | IRightOpen => pand (PGe (CV a)) (PLe (CPred b))
  | IOpen => pand (PGe (CSucc a)) (PLe (CPred b))
  end.
(* the class of an interval's bounds: union of the classes of the two literals *)
Definition interval_base (a b : Z) : base := if (0 <=? a) && (0 <=? b) then BNat else BInt.

(* ------------------------------------------------------------------ configurations and order oracles *)
Definition current : cfg := {| fx_and := true; fx_nat := true; fx_pred0 := true; fx_cmp := true; fx_inv := true |}.
Definition before_and : cfg := {| fx_and := false; fx_nat := true; fx_pred0 := true; fx_cmp := true; fx_inv := true |}.
Definition before_nat : cfg := {| fx_and := true; fx_nat := false; fx_pred0 := true; fx_cmp := true; fx_inv := true |}.
Definition before_pred0 : cfg := {| fx_and := true; fx_nat := true; fx_pred0 := false; fx_cmp := true; fx_inv := true |}.
Definition before_cmp : cfg := {| fx_and := true; fx_nat := true; fx_pred0 := true; fx_cmp := false; fx_inv := true |}.
Definition before_inv : cfg := {| fx_and := true; fx_nat := true; fx_pred0 := true; fx_cmp := true; fx_inv := false |}.

Fixpoint rotl {A} (k : nat) (l : list A) : list A :=
  match k, l with
  | S k', x :: t => rotl k' (t ++ [x])
  | _, _ => l
  end.
(* a small family of order oracles for the correspondence check: 0 identity, 1 reverse, k >= 2 rotation *)
Definition perm_k (k : nat) (l : list pred) : list pred :=
  match k with
  | O => l
  | S O => rev l
  | S (S k') => rotl (S k') l
  end.
