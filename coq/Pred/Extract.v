(** extraction entry point for the C32 / C03 correspondence checks and judges *)
From Coq Require Import ZArith List Bool Arith.
(* the model runner builds exactly the files named here: ErgV.Common.Sx ErgV.Pred.Model ErgV.Pred.Spec *)
From ErgV Require Import Common.Sx Pred.Model Pred.Spec.
Import ListNotations.
Open Scope Z_scope.

(* constants: z | (1 z) succ(z) | (-1 z) pred(z) *)
Definition dec_cst (x : sx) : cst :=
  match x with
  | SZ z => CV z
  | SL _ => if sx_z (sx_nth x 0) =? 1 then CSucc (sx_z (sx_nth x 1)) else CPred (sx_z (sx_nth x 1))
  end.
Definition enc_cst (c : cst) : sx :=
  match c with CV z => SZ z | CSucc z => SL [SZ 1; SZ z] | CPred z => SL [SZ (-1); SZ z] end.

(* terms: (0) subject | (1 z) | (2 n) *)
Definition dec_term (x : sx) : term :=
  let k := sx_z (sx_nth x 0) in
  if k =? 0 then TSubj else if k =? 1 then TVal (sx_z (sx_nth x 1)) else TOther (sx_to_nat (sx_nth x 1)).
Definition enc_term (t : term) : sx :=
  match t with TSubj => SL [SZ 0] | TVal z => SL [SZ 1; SZ z] | TOther n => SL [SZ 2; sx_nat n] end.
Definition dec_gk (z : Z) : gk := if z =? 0 then GEq else if z =? 1 then GNe else if z =? 2 then GGe else GLe.
Definition enc_gk (k : gk) : Z := match k with GEq => 0 | GNe => 1 | GGe => 2 | GLe => 3 end.

(* raw predicates: (0 b) (1 c) (2 c) (3 c) (4 c) (5 p ...) (6 l r) (7 p) (8 n) (9 k ta tb) *)
Fixpoint dec_pred (x : sx) : pred :=
  match x with
  | SZ _ => PVal false
  | SL l =>
    let k := sx_z (nth 0 l (SL [])) in
    let a1 := nth 1 l (SL []) in
    let a2 := nth 2 l (SL []) in
    if k =? 0 then PVal (sx_to_bool a1)
    else if k =? 1 then PEq (dec_cst a1)
    else if k =? 2 then PNe (dec_cst a1)
    else if k =? 3 then PGe (dec_cst a1)
    else if k =? 4 then PLe (dec_cst a1)
    else if k =? 5 then
      match l with
      | _ :: rest => POr ((fix go (l : list sx) : list pred := match l with [] => [] | y :: t => dec_pred y :: go t end) rest)
      | [] => PVal false
      end
    else if k =? 6 then
      (* And: two sub-terms *)
      match l with
      | _ :: y1 :: y2 :: _ => PAnd (dec_pred y1) (dec_pred y2)
      | _ => PVal false
      end
    else if k =? 7 then match l with _ :: y1 :: _ => PNot (dec_pred y1) | _ => PVal false end
    else if k =? 8 then POther (sx_to_nat a1)
    else PGen (dec_gk (sx_z a1)) (dec_term a2) (dec_term (nth 3 l (SL [])))
  end.

Fixpoint enc_pred (p : pred) : sx :=
  match p with
  | PVal b => SL [SZ 0; sx_bool b]
  | PEq c => SL [SZ 1; enc_cst c]
  | PNe c => SL [SZ 2; enc_cst c]
  | PGe c => SL [SZ 3; enc_cst c]
  | PLe c => SL [SZ 4; enc_cst c]
  | POr l => SL (SZ 5 :: (fix go (l : list pred) : list sx := match l with [] => [] | y :: t => enc_pred y :: go t end) l)
  | PAnd a b => SL [SZ 6; enc_pred a; enc_pred b]
  | PNot q => SL [SZ 7; enc_pred q]
  | POther n => SL [SZ 8; sx_nat n]
  | PGen k a b => SL [SZ 9; SZ (enc_gk k); enc_term a; enc_term b]
  end.

Definition dec_iop (z : Z) : iop := if z =? 0 then IClosed else if z =? 1 then ILeftOpen else if z =? 2 then IRightOpen else IOpen.

(* constructor-call trees: (0 b) (1 c) eq (2 c) ne (3 c) ge (4 c) le (5 c) gt (6 c) lt (7 a b) and (8 a b) or
   (9 a) invert (10 n) atom (11 raw) (12 k ta tb) general comparison (13 op a b) interval *)
Fixpoint build (f : cfg) (x : sx) : pred :=
  match x with
  | SZ _ => PVal false
  | SL l =>
    let k := sx_z (nth 0 l (SL [])) in
    let a1 := nth 1 l (SL []) in
    if k =? 0 then PVal (sx_to_bool a1)
    else if k =? 1 then PEq (dec_cst a1)
    else if k =? 2 then PNe (dec_cst a1)
    else if k =? 3 then PGe (dec_cst a1)
    else if k =? 4 then PLe (dec_cst a1)
    else if k =? 5 then pgt (dec_cst a1)
    else if k =? 6 then plt (dec_cst a1)
    else if k =? 7 then match l with _ :: y1 :: y2 :: _ => pand (build f y1) (build f y2) | _ => PVal false end
    else if k =? 8 then match l with _ :: y1 :: y2 :: _ => por (build f y1) (build f y2) | _ => PVal false end
    else if k =? 9 then match l with _ :: y1 :: _ => invert f (build f y1) | _ => PVal false end
    else if k =? 10 then POther (sx_to_nat a1)
    else if k =? 11 then dec_pred a1
    else if k =? 12 then PGen (dec_gk (sx_z a1)) (dec_term (nth 2 l (SL []))) (dec_term (nth 3 l (SL [])))
    else interval (dec_iop (sx_z a1)) (sx_z (nth 2 l (SL []))) (sx_z (nth 3 l (SL [])))
  end.

Definition dec_cfg (x : sx) : cfg :=
  {| fx_and := sx_to_bool (sx_nth x 0); fx_nat := sx_to_bool (sx_nth x 1); fx_pred0 := sx_to_bool (sx_nth x 2);
     fx_cmp := sx_to_bool (sx_nth x 3); fx_inv := sx_to_bool (sx_nth x 4) |}.
Definition dec_base (x : sx) : base := if sx_z x =? 1 then BNat else BInt.
Definition enc_res (r : res bool) : sx :=
  match r with Ok b => sx_bool b | Panic => SZ (-999) | Fuel => SZ (-998) end.
Definition dec_law (z : Z) : law :=
  if z =? 0 then LAnd else if z =? 1 then LOr else if z =? 2 then LNot else if z =? 3 then LGt else LLt.

(** modes:
    (0 cfg T)                     -> predicate the model's constructors build for the tree
    (1 cfg k T T bp bq)           -> sub_refine with order oracle perm_k: {I: bp | build T1} <: {I: bq | build T2}
    (2 P Q bp bq)                 -> (implies_dec counterexample-or-() known-class-bit)      C03 judge on raw predicates
    (3 P points k)                -> truth table of P on the given integers under valuation k
    (4 law P Q c R points)        -> () when the law holds at the points for all valuations, else (k i)   C32 judge
    (5 T)                         -> raw predicate of a tree under the current configuration (for printing) *)
Definition run (x : sx) : sx :=
  let mode := sx_z (sx_nth x 0) in
  if mode =? 0 then enc_pred (build (dec_cfg (sx_nth x 1)) (sx_nth x 2))
  else if mode =? 1 then
    let f := dec_cfg (sx_nth x 1) in
    let k := sx_to_nat (sx_nth x 2) in
    let p := build f (sx_nth x 3) in
    let q := build f (sx_nth x 4) in
    enc_res (sub_refine f (perm_k k) (dec_base (sx_nth x 5)) p (dec_base (sx_nth x 6)) q)
  else if mode =? 2 then
    let p := dec_pred (sx_nth x 1) in
    let q := dec_pred (sx_nth x 2) in
    let bp := dec_base (sx_nth x 3) in
    let bq := dec_base (sx_nth x 4) in
    SL [sx_bool (implies_dec bp p bq q);
        match counterexample bp p bq q with Some i => SL [SZ i] | None => SL [] end;
        sx_bool (Known_C03 (perm_k 0) bp p bq q);
        sx_bool (pure p && pure q && wf p && wf q)]
  else if mode =? 3 then
    let p := dec_pred (sx_nth x 1) in
    let k := sx_to_nat (sx_nth x 3) in
    SL (map (fun i => sx_bool (den (vk k) (tvk k) p i)) (sx_zs (sx_nth x 2)))
  else if mode =? 4 then
    match law_counterexample (dec_law (sx_z (sx_nth x 1))) (dec_pred (sx_nth x 2)) (dec_pred (sx_nth x 3))
                             (dec_cst (sx_nth x 4)) (dec_pred (sx_nth x 5)) (sx_zs (sx_nth x 6)) with
    | None => SL []
    | Some (k, i) => SL [sx_nat k; SZ i]
    end
  else enc_pred (build current (sx_nth x 1)).

Require Extraction.
Require Import ExtrOcamlBasic.
Extraction Language OCaml.
Extraction "model.ml" run.
