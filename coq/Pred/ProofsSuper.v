(** C03 — soundness of the model of Context::is_super_pred_of (with reduce_preds) under the current configuration:
    `is_super lhs rhs = Ok true` implies that every integer satisfying rhs satisfies lhs, for every order
    oracle, every valuation of the opaque atoms, all well-formed predicates. *)
From Coq Require Import ZArith List Bool Arith Lia Btauto Permutation.
From ErgV Require Import Pred.Model Pred.Spec Pred.Proofs.
Import ListNotations.
Open Scope Z_scope.

(* ------------------------------------------------------------------ the little monad *)
Lemma bind_ok : forall A B (r : res A) (k : A -> res B) b, bind r k = Ok b -> exists a, r = Ok a /\ k a = Ok b.
Proof. intros A B [a| |] k b H; cbn in H; try discriminate. eauto. Qed.

Lemma allM_true : forall A (g : A -> res bool) l, allM g l = Ok true -> forall x, In x l -> g x = Ok true.
Proof.
  induction l as [|a t IH]; intros H x Hx; [destruct Hx|]. cbn in H. apply bind_ok in H. destruct H as (b & Ha & H).
  destruct b; [|discriminate]. destruct Hx as [<-|Hx]; auto.
Qed.
Lemma allM_false : forall A (g : A -> res bool) l, allM g l = Ok false -> exists x, In x l /\ g x = Ok false.
Proof.
  induction l as [|a t IH]; intros H; [discriminate|]. cbn in H. apply bind_ok in H. destruct H as (b & Ha & H).
  destruct b.
  - destruct (IH H) as (x & Hx & Gx). exists x. cbn; auto.
  - exists a. cbn; auto.
Qed.
Lemma anyM_true : forall A (g : A -> res bool) l, anyM g l = Ok true -> exists x, In x l /\ g x = Ok true.
Proof.
  induction l as [|a t IH]; intros H; [discriminate|]. cbn in H. apply bind_ok in H. destruct H as (b & Ha & H).
  destruct b.
  - exists a. cbn; auto.
  - destruct (IH H) as (x & Hx & Gx). exists x. cbn; auto.
Qed.
Lemma findM_some : forall A (g : A -> res bool) l x, findM g l = Ok (Some x) -> In x l /\ g x = Ok true.
Proof.
  induction l as [|a t IH]; intros x H; [discriminate|]. cbn in H. apply bind_ok in H. destruct H as (b & Ha & H).
  destruct b.
  - injection H as <-. cbn; auto.
  - destruct (IH _ H). cbn; auto.
Qed.
Lemma orM_true : forall a b, orM a b = Ok true -> a = Ok true \/ b = Ok true.
Proof. intros a b H. unfold orM in H. apply bind_ok in H. destruct H as ([] & Ha & H); auto. Qed.
Lemma andM_true : forall a b, andM a b = Ok true -> a = Ok true /\ b = Ok true.
Proof. intros a b H. unfold andM in H. apply bind_ok in H. destruct H as ([] & Ha & H); auto. discriminate. Qed.
Lemma negM_true : forall a, negM a = Ok true -> a = Ok false.
Proof. intros a H. unfold negM in H. apply bind_ok in H. destruct H as ([] & Ha & H); auto. discriminate. Qed.
Lemma negM_false : forall a, negM a = Ok false -> a = Ok true.
Proof. intros a H. unfold negM in H. apply bind_ok in H. destruct H as ([] & Ha & H); auto. discriminate. Qed.

(* ------------------------------------------------------------------ constants under the current configuration *)
Lemma ceval_current : forall c z, ceval current c = Ok z -> z = cval c.
Proof.
  intros [x|x|x] z H; cbn in H.
  - now injection H as <-.
  - destruct (x =? u64_max); [discriminate|]. now injection H as <-.
  - destruct (x =? i32_min); [discriminate|]. rewrite andb_false_r in H. now injection H as <-.
Qed.

Lemma try_cmp_current : forall a b o, try_cmp current a b = Ok o -> o = (cval a ?= cval b).
Proof.
  intros a b o H. unfold try_cmp in H. destruct (cst_eqb a b) eqn:E.
  - apply cst_eqb_eq in E. subst. injection H as <-. symmetry. apply Z.compare_refl.
  - apply bind_ok in H. destruct H as (x & Hx & H). apply bind_ok in H. destruct H as (y & Hy & H).
    apply ceval_current in Hx. apply ceval_current in Hy. subst. injection H as <-.
    unfold cmp_val. cbn [fx_cmp current]. destruct (Z.eqb_spec (cval a) (cval b)) as [->|]; [|reflexivity].
    symmetry. apply Z.compare_refl.
Qed.

(* ------------------------------------------------------------------ well-formedness is inherited *)
Lemma wf_or : forall l, wf (POr l) = true <-> forall x, In x l -> wf x = true.
Proof.
  intros l. cbn [wf]. induction l as [|a t IH].
  - split; [intros _ x []|reflexivity].
  - rewrite andb_true_iff, IH. split.
    + intros [Ha Ht] x [<-|Hx]; auto.
    + intros H. split; [apply H; cbn; auto|intros x Hx; apply H; cbn; auto].
Qed.

Lemma wf_ands : forall p, wf p = true -> forall x, In x (ands p) -> wf x = true.
Proof.
  induction p; intros W x Hx; cbn [ands] in Hx; try (destruct Hx as [<-|[]]; exact W).
  cbn [wf] in W. apply andb_prop in W. destruct W. apply set_union_incl in Hx. destruct Hx; auto.
Qed.
Lemma wf_ors : forall p, wf p = true -> forall x, In x (ors p) -> wf x = true.
Proof.
  intros p W x Hx. destruct p; cbn [ors] in Hx; try (destruct Hx as [<-|[]]; exact W).
  apply set_of_list_incl in Hx. rewrite wf_or in W. auto.
Qed.

(* ------------------------------------------------------------------ conjuncts / disjuncts and denotation *)
Section Den.
  Variable v : nat -> Z -> bool.
  Variable tv : nat -> Z -> Z.
  Notation D := (den v tv).

  Lemma ands_den : forall p i, D p i = true <-> forall x, In x (ands p) -> D x i = true.
  Proof.
    induction p; intros i; cbn [ands]; try (split; [intros H x [<-|[]]; exact H|intros H; apply H; cbn; auto]).
    cbn [den]. rewrite andb_true_iff, IHp1, IHp2. split.
    - intros [H1 H2] x Hx. apply set_union_incl in Hx. destruct Hx; auto.
    - intros H. split; intros x Hx.
      + destruct (set_union_has (ands p2) (ands p1) x (or_introl Hx)) as (y & Hy & E).
        rewrite (pred_eqb_den v tv _ _ E i). auto.
      + destruct (set_union_has (ands p2) (ands p1) x (or_intror Hx)) as (y & Hy & E).
        rewrite (pred_eqb_den v tv _ _ E i). auto.
  Qed.

  Lemma ors_den : forall p i, D p i = true <-> exists x, In x (ors p) /\ D x i = true.
  Proof.
    intros p i. destruct p; cbn [ors];
      try (split; [intros H; eexists; split; [left; reflexivity|exact H]|intros (x & [<-|[]] & H); exact H]).
    rewrite den_or, <- (den_any_set_of_list v tv l i). apply den_any_true.
  Qed.
End Den.

Section Sound.
  Variable perm : list pred -> list pred.
  Hypothesis perm_in : forall l x, In x (perm l) <-> In x l.
  Variable v : nat -> Z -> bool.
  Variable tv : nat -> Z -> Z.
  Notation D := (den v tv).

  (* every integer satisfying [r] satisfies [l] *)
  Definition imp (r l : pred) : Prop := forall i, D r i = true -> D l i = true.

  Section Reduce.
    Variable sup : pred -> pred -> res bool.
    Hypothesis sup_sound : forall a b, wf a = true -> wf b = true -> sup a b = Ok true -> imp b a.

    (* the kept conjuncts are among the seen ones and imply all of them *)
    Definition inv_and (S : pred -> Prop) (red : list pred) : Prop :=
      (forall x, In x red -> S x) /\
      (forall i, (forall x, In x red -> D x i = true) -> forall x, S x -> D x i = true).
    (* the kept disjuncts are among the seen ones and cover all of them *)
    Definition inv_or (S : pred -> Prop) (red : list pred) : Prop :=
      (forall x, In x red -> S x) /\
      (forall i, (exists x, S x /\ D x i = true) -> exists x, In x red /\ D x i = true).

    Lemma reduce_step_and : forall (S : pred -> Prop) red p red',
      (forall x, S x -> wf x = true) -> wf p = true -> inv_and S red ->
      reduce_step perm sup true red p = Ok red' -> inv_and (fun x => x = p \/ S x) red'.
    Proof.
      intros S red p red' WS Wp [Hincl Hinv] H.
      unfold reduce_step in H. apply bind_ok in H. destruct H as (old & Hold & H).
      apply bind_ok in H. destruct H as (ins & Hins & H). injection H as <-.
      set (red1 := match old with Some o => set_remove o red | None => red end) in *.
      assert (I1 : forall x, In x red1 -> In x red).
      { destruct old; subst red1; [intros x; apply set_remove_incl | auto]. }
      assert (Hold' : forall i, D p i = true -> (forall x, In x red1 -> D x i = true) ->
                                forall x, In x red -> D x i = true).
      { intros i Dp H1 x Hx. destruct old as [o|]; [|subst red1; auto].
        apply findM_some in Hold. destruct Hold as [Ho So]. apply (proj1 (perm_in _ _)) in Ho.
        destruct (pred_eqb x o) eqn:E.
        - rewrite (pred_eqb_den v tv _ _ E i). exact (sup_sound o p (WS o (Hincl o Ho)) Wp So i Dp).
        - apply H1. subst red1. now apply set_remove_other. }
      destruct ins.
      - split.
        + intros x Hx. apply set_add_incl in Hx. destruct Hx as [->|Hx]; [left; reflexivity|right; auto].
        + intros i Hall.
          assert (Dp : D p i = true).
          { destruct (set_add_has p red1) as (y & Hy & E). rewrite (pred_eqb_den v tv _ _ E i). auto. }
          assert (H1 : forall x, In x red1 -> D x i = true). { intros x Hx. apply Hall. now apply set_add_keeps. }
          intros x [->|Hx]; [exact Dp|]. apply Hinv; auto.
      - apply allM_false in Hins. destruct Hins as (e & He & Se). apply (proj1 (perm_in _ _)) in He. apply negM_false in Se.
        split.
        + intros x Hx. right. auto.
        + intros i Hall.
          assert (Dp : D p i = true). { exact (sup_sound p e Wp (WS e (Hincl e (I1 e He))) Se i (Hall e He)). }
          intros x [->|Hx]; [exact Dp|]. apply Hinv; auto.
    Qed.

    Lemma reduce_step_or : forall (S : pred -> Prop) red p red',
      (forall x, S x -> wf x = true) -> wf p = true -> inv_or S red ->
      reduce_step perm sup false red p = Ok red' -> inv_or (fun x => x = p \/ S x) red'.
    Proof.
      intros S red p red' WS Wp [Hincl Hinv] H.
      unfold reduce_step in H. apply bind_ok in H. destruct H as (old & Hold & H).
      apply bind_ok in H. destruct H as (ins & Hins & H). injection H as <-.
      set (red1 := match old with Some o => set_remove o red | None => red end) in *.
      assert (I1 : forall x, In x red1 -> In x red).
      { destruct old; subst red1; [intros x; apply set_remove_incl | auto]. }
      (* an element of red that holds at i either survives or makes p hold *)
      assert (Hold' : forall i x, In x red -> D x i = true -> D p i = true \/ In x red1).
      { intros i x Hx Dx. destruct old as [o|]; [|subst red1; auto].
        apply findM_some in Hold. destruct Hold as [Ho So]. apply (proj1 (perm_in _ _)) in Ho.
        destruct (pred_eqb x o) eqn:E.
        - left. apply (sup_sound p o Wp (WS o (Hincl o Ho)) So i). now rewrite <- (pred_eqb_den v tv _ _ E i).
        - right. subst red1. now apply set_remove_other. }
      destruct ins.
      - split.
        + intros x Hx. apply set_add_incl in Hx. destruct Hx as [->|Hx]; [left; reflexivity|right; auto].
        + assert (P1 : forall i, D p i = true -> exists x, In x (set_add p red1) /\ D x i = true).
          { intros i Dp. destruct (set_add_has p red1) as (y & Hy & E). exists y. split; [assumption|].
            now rewrite <- (pred_eqb_den v tv _ _ E i). }
          intros i (x & [->|Sx] & Dx); [auto|].
          destruct (Hinv i (ex_intro _ x (conj Sx Dx))) as (y & Hy & Dy).
          destruct (Hold' i y Hy Dy) as [Dp|Hy1]; [auto|]. exists y. split; [now apply set_add_keeps|assumption].
      - apply allM_false in Hins. destruct Hins as (e & He & Se). apply (proj1 (perm_in _ _)) in He. apply negM_false in Se.
        split.
        + intros x Hx. right. auto.
        + assert (P1 : forall i, D p i = true -> exists x, In x red1 /\ D x i = true).
          { intros i Dp. exists e. split; [assumption|]. exact (sup_sound e p (WS e (Hincl e (I1 e He))) Wp Se i Dp). }
          intros i (x & [->|Sx] & Dx); [auto|].
          destruct (Hinv i (ex_intro _ x (conj Sx Dx))) as (y & Hy & Dy).
          destruct (Hold' i y Hy Dy) as [Dp|Hy1]; [auto|]. exists y. auto.
    Qed.

    Lemma inv_and_ext : forall (S T : pred -> Prop) red, (forall x, S x <-> T x) -> inv_and S red -> inv_and T red.
    Proof. intros S T red E [A B]. split; [intros x Hx; apply E; auto|intros i H x Tx; apply B; auto; now apply E]. Qed.
    Lemma inv_or_ext : forall (S T : pred -> Prop) red, (forall x, S x <-> T x) -> inv_or S red -> inv_or T red.
    Proof.
      intros S T red E [A B]. split; [intros x Hx; apply E; auto|].
      intros i (x & Tx & Dx). apply B. exists x. split; [now apply E|assumption].
    Qed.

    Lemma reduce_loop_and : forall l (S : pred -> Prop) red R,
      (forall x, S x -> wf x = true) -> (forall x, In x l -> wf x = true) -> inv_and S red ->
      reduce_loop perm sup true red l = Ok R -> inv_and (fun x => In x l \/ S x) R.
    Proof.
      induction l as [|p t IH]; intros S red R WS Wl I H; cbn [reduce_loop] in H.
      - injection H as <-. eapply inv_and_ext; [|exact I]. intros x; cbn; tauto.
      - apply bind_ok in H. destruct H as (r & Hr & H).
        apply (reduce_step_and S red p r WS (Wl p (or_introl eq_refl)) I) in Hr.
        assert (WS' : forall x, x = p \/ S x -> wf x = true).
        { intros x [->|Sx]; [apply Wl; cbn; auto|auto]. }
        assert (Wt : forall x, In x t -> wf x = true). { intros x Hx; apply Wl; cbn; auto. }
        pose proof (IH (fun x => x = p \/ S x) r R WS' Wt Hr H) as H'.
        eapply inv_and_ext; [|exact H']. intros x; cbn; intuition.
    Qed.
    Lemma reduce_loop_or : forall l (S : pred -> Prop) red R,
      (forall x, S x -> wf x = true) -> (forall x, In x l -> wf x = true) -> inv_or S red ->
      reduce_loop perm sup false red l = Ok R -> inv_or (fun x => In x l \/ S x) R.
    Proof.
      induction l as [|p t IH]; intros S red R WS Wl I H; cbn [reduce_loop] in H.
      - injection H as <-. eapply inv_or_ext; [|exact I]. intros x; cbn; tauto.
      - apply bind_ok in H. destruct H as (r & Hr & H).
        apply (reduce_step_or S red p r WS (Wl p (or_introl eq_refl)) I) in Hr.
        assert (WS' : forall x, x = p \/ S x -> wf x = true).
        { intros x [->|Sx]; [apply Wl; cbn; auto|auto]. }
        assert (Wt : forall x, In x t -> wf x = true). { intros x Hx; apply Wl; cbn; auto. }
        pose proof (IH (fun x => x = p \/ S x) r R WS' Wt Hr H) as H'.
        eapply inv_or_ext; [|exact H']. intros x; cbn; intuition.
    Qed.

    (** reduce_preds "and": the result is a subset whose conjunction implies every given conjunct *)
    Lemma reduce_and_sound : forall L R, (forall x, In x L -> wf x = true) -> reduce_preds perm sup true L = Ok R ->
      (forall x, In x R -> In x L) /\
      (forall i, (forall x, In x R -> D x i = true) -> forall x, In x L -> D x i = true).
    Proof.
      intros L R WL H. unfold reduce_preds in H.
      apply (reduce_loop_and _ (fun _ => False) [] R) in H.
      - destruct H as [A B]. split.
        + intros x Hx. destruct (A x Hx) as [Hp|[]]. now apply perm_in.
        + intros i Hall x Hx. apply B; auto. left. now apply perm_in.
      - intros x [].
      - intros x Hx. apply WL. now apply perm_in.
      - split; [intros x []|intros i _ x []].
    Qed.
    (** reduce_preds "or": the result is a subset that covers every given disjunct *)
    Lemma reduce_or_sound : forall L R, (forall x, In x L -> wf x = true) -> reduce_preds perm sup false L = Ok R ->
      (forall x, In x R -> In x L) /\
      (forall i, (exists x, In x L /\ D x i = true) -> exists x, In x R /\ D x i = true).
    Proof.
      intros L R WL H. unfold reduce_preds in H.
      apply (reduce_loop_or _ (fun _ => False) [] R) in H.
      - destruct H as [A B]. split.
        + intros x Hx. destruct (A x Hx) as [Hp|[]]. now apply perm_in.
        + intros i (x & Hx & Dx). apply B. exists x. split; [left; now apply perm_in|assumption].
      - intros x [].
      - intros x Hx. apply WL. now apply perm_in.
      - split; [intros x []|intros i (x & [] & _)].
    Qed.
  End Reduce.
End Sound.

Lemma wf_plain_eq : forall c, wf (PEq c) = true -> exists z, c = CV z.
Proof. intros [z|z|z] H; cbn in H; try discriminate; eauto. Qed.
Lemma wf_plain_ne : forall c, wf (PNe c) = true -> exists z, c = CV z.
Proof. intros [z|z|z] H; cbn in H; try discriminate; eauto. Qed.

Section Sound.
  Variable perm : list pred -> list pred.
  Hypothesis perm_in : forall l x, In x (perm l) <-> In x l.
  Variable v : nat -> Z -> bool.
  Variable tv : nat -> Z -> Z.
  Notation D := (den v tv).
  Notation imp := (imp v tv).

  Section Arms.
    Variable sup : pred -> pred -> res bool.
    Hypothesis SS : forall a b, wf a = true -> wf b = true -> sup a b = Ok true -> imp b a.

    Lemma arm_rhs_and : forall lhs r1 r2, wf lhs = true -> wf (PAnd r1 r2) = true ->
      orM (sup lhs r1) (sup lhs r2) = Ok true -> imp (PAnd r1 r2) lhs.
    Proof.
      intros lhs r1 r2 Wl Wr H i Di. cbn [wf] in Wr. apply andb_prop in Wr. destruct Wr as [W1 W2].
      cbn [den] in Di. apply andb_prop in Di. destruct Di as [D1 D2].
      apply orM_true in H. destruct H as [H|H]; [exact (SS _ _ Wl W1 H i D1)|exact (SS _ _ Wl W2 H i D2)].
    Qed.
    Lemma arm_rhs_or : forall lhs l, wf lhs = true -> wf (POr l) = true ->
      allM (fun o => sup lhs o) (perm l) = Ok true -> imp (POr l) lhs.
    Proof.
      intros lhs l Wl Wr H i Di. rewrite den_or in Di. apply den_any_true in Di. destruct Di as (x & Hx & Dx).
      rewrite wf_or in Wr. apply (SS lhs x Wl (Wr x Hx)); [|exact Dx].
      apply (allM_true _ _ _ H). now apply perm_in.
    Qed.
    Lemma arm_lhs_or : forall l rhs, wf (POr l) = true -> wf rhs = true ->
      anyM (fun o => sup o rhs) (perm l) = Ok true -> imp rhs (POr l).
    Proof.
      intros l rhs Wl Wr H i Di. apply anyM_true in H. destruct H as (x & Hx & Sx). apply (proj1 (perm_in _ _)) in Hx.
      rewrite den_or. apply den_any_true. exists x. split; [assumption|].
      rewrite wf_or in Wl. exact (SS x rhs (Wl x Hx) Wr Sx i Di).
    Qed.
    Lemma arm_lhs_and : forall l1 l2 rhs, wf (PAnd l1 l2) = true -> wf rhs = true ->
      andM (sup l1 rhs) (sup l2 rhs) = Ok true -> imp rhs (PAnd l1 l2).
    Proof.
      intros l1 l2 rhs Wl Wr H i Di. cbn [wf] in Wl. apply andb_prop in Wl. destruct Wl as [W1 W2].
      apply andM_true in H. destruct H as [H1 H2]. cbn [den].
      now rewrite (SS _ _ W1 Wr H1 i Di), (SS _ _ W2 Wr H2 i Di).
    Qed.

    (* the repaired (And, And) arm: every conjunct of lhs is implied by some conjunct of rhs *)
    Lemma arm_and_and : forall lhs rhs, wf lhs = true -> wf rhs = true ->
      (do L <- reduce_preds perm sup true (ands lhs);
       do R <- reduce_preds perm sup true (ands rhs);
       allM (fun l => anyM (fun r => sup l r) (perm R)) (perm L)) = Ok true -> imp rhs lhs.
    Proof.
      intros lhs rhs Wl Wr H i Di.
      apply bind_ok in H. destruct H as (L & HL & H). apply bind_ok in H. destruct H as (R & HR & H).
      destruct (reduce_and_sound perm perm_in v tv sup SS _ _ (wf_ands lhs Wl) HL) as [LI LS].
      destruct (reduce_and_sound perm perm_in v tv sup SS _ _ (wf_ands rhs Wr) HR) as [RI RS].
      apply (ands_den v tv lhs i). apply LS. intros l Hl.
      assert (Hl' : In l (perm L)) by now apply perm_in.
      pose proof (allM_true _ _ _ H l Hl') as A. apply anyM_true in A. destruct A as (r & Hr & Sr).
      apply (proj1 (perm_in _ _)) in Hr.
      apply (SS l r (wf_ands lhs Wl l (LI l Hl)) (wf_ands rhs Wr r (RI r Hr)) Sr i).
      apply (proj1 (ands_den v tv rhs i) Di). auto.
    Qed.

    Lemma arm_or_or : forall lhs rhs, wf lhs = true -> wf rhs = true ->
      (do L <- reduce_preds perm sup false (ors lhs);
       do R <- reduce_preds perm sup false (ors rhs);
       allM (fun r => anyM (fun l => sup l r) (perm L)) (perm R)) = Ok true -> imp rhs lhs.
    Proof.
      intros lhs rhs Wl Wr H i Di.
      apply bind_ok in H. destruct H as (L & HL & H). apply bind_ok in H. destruct H as (R & HR & H).
      destruct (reduce_or_sound perm perm_in v tv sup SS _ _ (wf_ors lhs Wl) HL) as [LI LS].
      destruct (reduce_or_sound perm perm_in v tv sup SS _ _ (wf_ors rhs Wr) HR) as [RI RS].
      apply (ors_den v tv rhs i) in Di. apply RS in Di. destruct Di as (r & Hr & Dr).
      assert (Hr' : In r (perm R)) by now apply perm_in.
      pose proof (allM_true _ _ _ H r Hr') as A. apply anyM_true in A. destruct A as (l & Hl & Sl).
      apply (proj1 (perm_in _ _)) in Hl.
      apply (ors_den v tv lhs i). exists l. split; [auto|].
      exact (SS l r (wf_ors lhs Wl l (LI l Hl)) (wf_ors rhs Wr r (RI r Hr)) Sl i Dr).
    Qed.
  End Arms.

  Ltac cmp_arm H :=
    apply bind_ok in H; destruct H as (?o & ?Hc & H); apply try_cmp_current in Hc; subst;
    injection H as H; intros i Di; cbn [den] in *;
    match type of H with context [?a ?= ?b] => destruct (Z.compare_spec a b) end; cbn in H; try discriminate H; lia.

  (** is_super_pred_of(lhs, rhs) = true  ==>  every integer satisfying rhs satisfies lhs *)
  Lemma is_super_sound : forall n lhs rhs, wf lhs = true -> wf rhs = true ->
    is_super current perm n lhs rhs = Ok true -> imp rhs lhs.
  Proof.
    induction n as [|n IH]; intros lhs rhs Wl Wr H; [discriminate|].
    cbn [is_super] in H.
    destruct (pred_eqb lhs rhs) eqn:E.
    { intros i Di. now rewrite (pred_eqb_den v tv _ _ E i). }
    clear E.
    assert (SS : forall a b, wf a = true -> wf b = true -> is_super current perm n a b = Ok true -> imp b a) by exact IH.
    destruct lhs as [b1|c1|c1|c1|c1|l1|p1 p2|p1|n1|k1 t1 t2], rhs as [b2|c2|c2|c2|c2|l2|q1 q2|q1|n2|k2 u1 u2];
      try discriminate H;
      try (apply (arm_rhs_and _ SS) in H; assumption);
      try (apply (arm_rhs_or _ SS) in H; assumption);
      try (apply (arm_lhs_or _ SS) in H; assumption);
      try (apply (arm_lhs_and _ SS) in H; assumption);
      try (apply (arm_and_and _ SS) in H; assumption);
      try (apply (arm_or_or _ SS) in H; assumption);
      try (cmp_arm H).
    all: try (injection H as ->; intros i _; reflexivity).
    all: try (injection H as H; destruct b2; [discriminate H|]; intros i Di; discriminate Di).
    - (* I == c1 :> I == c2 *)
      intros i Di. cbn [den] in *. destruct (cst_eqb c1 c2) eqn:E.
      + apply cst_eqb_eq in E. now subst.
      + apply bind_ok in H. destruct H as (o & Hc & H). apply try_cmp_current in Hc. subst o. injection H as H.
        destruct (Z.compare_spec (cval c1) (cval c2)); cbn in H; try discriminate H. lia.
    - (* I != c1 :> I == c2: the constants are plain values, so `!=` on them is integer inequality *)
      injection H as H. destruct (wf_plain_ne _ Wl) as (x & ->). destruct (wf_plain_eq _ Wr) as (y & ->).
      cbn [cst_eqb] in H. intros i Di. cbn [den cval] in *. lia.
    - (* general comparisons: only syntactically equal ones *)
      destruct (gk_eqb k1 k2) eqn:Ek; [|discriminate H]. injection H as H. apply andb_prop in H. destruct H as [E1 E2].
      apply gk_eqb_eq in Ek. apply term_eqb_eq in E1. apply term_eqb_eq in E2. subst. intros i Di. exact Di.
  Qed.
End Sound.
