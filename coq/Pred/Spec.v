(** C32 / C03 — what the properties say, as plain denotations and executable judges.

    [den v tv p i]: does integer [i] satisfy predicate [p]; [v] gives the truth value of the opaque boolean
    atoms, [tv] the value of the opaque integer terms (both may depend on [i]).
    C32: and / or / invert denote intersection / union / complement ([law_ok] is the judge).
    C03: acceptance of {I: bp | p} where {I: bq | q} is required implies that every member of the first is a
    member of the second ([implies_dec] is the judge: it tests the points c-1, c, c+1 for every constant c,
    which is complete for the integer fragment, lemma window_complete). *)
From Coq Require Import ZArith List Bool Arith.
From ErgV Require Import Pred.Model.
Import ListNotations.
Open Scope Z_scope.

Section Den.
  Variable v : nat -> Z -> bool.
  Variable tv : nat -> Z -> Z.

  Definition tval (t : term) (i : Z) : Z :=
    match t with TSubj => i | TVal z => z | TOther n => tv n i end.

  Fixpoint den (p : pred) (i : Z) : bool :=
    match p with
    | PVal b => b
    | PEq c => i =? cval c
    | PNe c => negb (i =? cval c)
    | PGe c => cval c <=? i
    | PLe c => i <=? cval c
    | POr l => (fix any (l : list pred) : bool := match l with [] => false | x :: t => den x i || any t end) l
    | PAnd l r => den l i && den r i
    | PNot q => negb (den q i)
    | POther n => v n i
    | PGen k a b => gk_eval k (tval a i) (tval b i)
    end.
End Den.

(* ------------------------------------------------------------------ the integer fragment *)
(* no opaque atoms, no general comparisons *)
Fixpoint pure (p : pred) : bool :=
  match p with
  | POr l => (fix all (l : list pred) : bool := match l with [] => true | x :: t => pure x && all t end) l
  | PAnd l r => pure l && pure r
  | PNot q => pure q
  | POther _ | PGen _ _ _ => false
  | _ => true
  end.

Definition v0 : nat -> Z -> bool := fun _ _ => false.
Definition tv0 : nat -> Z -> Z := fun _ _ => 0.
(* denotation in the integer fragment (the valuations are irrelevant there) *)
Definition deni (p : pred) (i : Z) : bool := den v0 tv0 p i.

Definition in_base (b : base) (i : Z) : bool := match b with BInt => true | BNat => 0 <=? i end.
(* i is a member of {I: b | p} *)
Definition mem (b : base) (p : pred) (i : Z) : bool := in_base b i && deni p i.

(* constants are machine integers: negative ones fit i32 (ValueObj::Int), the others are ValueObj::Nat; above
   2^63 `Int(i) == Nat(n)` compares `i as u64` and is not integer equality any more *)
Definition z_ok (z : Z) : bool := (-2147483648 <? z) && (z <? 9223372036854775807).
(* source-reachable shape: succ(c) only under >=, pred(c) only under <= (open intervals), plain constants under == / != *)
Fixpoint wf (p : pred) : bool :=
  match p with
  | PEq (CV z) | PNe (CV z) | PGe (CV z) | PLe (CV z) => z_ok z
  | PGe (CSucc z) | PLe (CPred z) => z_ok z
  | PEq _ | PNe _ | PGe _ | PLe _ => false
  | POr l => (fix all (l : list pred) : bool := match l with [] => true | x :: t => wf x && all t end) l
  | PAnd l r => wf l && wf r
  | PNot q => wf q
  | _ => true
  end.

Fixpoint consts (p : pred) : list Z :=
  match p with
  | PEq c | PNe c | PGe c | PLe c => [cval c]
  | POr l => (fix go (l : list pred) : list Z := match l with [] => [] | x :: t => consts x ++ go t end) l
  | PAnd l r => consts l ++ consts r
  | PNot q => consts q
  | _ => []
  end.

Fixpoint pts (l : list Z) : list Z :=
  match l with [] => [] | c :: t => (c - 1) :: c :: (c + 1) :: pts t end.

(* the points at which an implication between two integer-fragment predicates has to be tested *)
Definition window (p q : pred) : list Z := pts (0 :: consts p ++ consts q).

(* C03 judge: every member of {I: bp | p} is a member of {I: bq | q} *)
Definition implies_dec (bp : base) (p : pred) (bq : base) (q : pred) : bool :=
  forallb (fun i => implb (mem bp p i) (mem bq q i)) (window p q).
Definition counterexample (bp : base) (p : pred) (bq : base) (q : pred) : option Z :=
  find (fun i => negb (implb (mem bp p i) (mem bq q i))) (window p q).

(* ------------------------------------------------------------------ C32 judge *)
Inductive law := LAnd | LOr | LNot | LGt | LLt.

(* a few fixed valuations of the opaque atoms / terms for the executable judge *)
Definition vk (k : nat) (n : nat) (i : Z) : bool := Z.odd (Z.shiftr (i + 64 + Z.of_nat k) (Z.of_nat (n mod 3)) + Z.of_nat k * Z.of_nat n).
Definition tvk (k : nat) (n : nat) (i : Z) : Z :=
  match k with
  | O => 0
  | S O => i
  | _ => (i * Z.of_nat (n + k) + Z.of_nat k) mod 5 - 2
  end.

(* the set-operation law for one constructor application: [r] is what the constructor returned for operands
   [p] (and [q]); for LGt / LLt the operand is the comparison constant [c] *)
Definition law_at (k : nat) (w : law) (p q : pred) (c : cst) (r : pred) (i : Z) : bool :=
  let d := den (vk k) (tvk k) in
  Bool.eqb (d r i)
    match w with
    | LAnd => d p i && d q i
    | LOr => d p i || d q i
    | LNot => negb (d p i)
    | LGt => cval c <? i
    | LLt => i <? cval c
    end.

Definition nvals : nat := 4.
(* first (valuation, integer) at which the law fails, among the given integers *)
Definition law_counterexample (w : law) (p q : pred) (c : cst) (r : pred) (points : list Z) : option (nat * Z) :=
  find (fun ki => negb (law_at (fst ki) w p q c r (snd ki)))
       (flat_map (fun k => map (fun i => (k, i)) points) (seq 0 nvals)).
Definition law_ok (w : law) (p q : pred) (c : cst) (r : pred) (points : list Z) : bool :=
  match law_counterexample w p q c r points with None => true | Some _ => false end.

(* ------------------------------------------------------------------ C03 known finding (not repaired) *)
(* compare.rs structural_supertype_of, arm (Refinement(l), r): `{I: Int | q} :> Int` is answered with
   Predicate::mentions / can_be_false, which say "cannot be false" for False, for And(True, _) and for every
   Not(comparison).  The arm is reached from a pair of refinement types through nominal_supertype_of when the
   subtype is Nat-based and the supertype Int-based.  Class: the pair is accepted by that arm alone. *)
Definition Known_C03 (perm : list pred -> list pred) (bp : base) (p : pred) (bq : base) (q : pred) : bool :=
  nominal_arm bq q bp &&
  negb (base_eqb bq bp && pred_eqb q (cs current p)) &&
  match struct_arm current perm bq q bp p with Ok true => false | _ => true end.
