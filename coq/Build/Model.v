(** C20 / C19 — model of multi-module compilation:
      crates/erg_compiler/build_package.rs   GenericPackageBuilder::{resolve, check_import, register,
                                             execute, build_deps_and_module, build_inlined_module,
                                             start_analysis_process}
      crates/erg_compiler/module/promise.rs  SharedPromises::{join, wait_until_finished, mark_as_joined, join_all}
      crates/erg_compiler/context/inquire.rs Context::get_mod_with_path (the only caller of join in batch mode)
      crates/erg_compiler/lower.rs           lower_inline_module
    The module dependency graph is C21's model (ErgV.Graph.Model), used unchanged.
    Definitions only; proofs are in Proofs*.v.  Modules (paths) are integers.
    Not modelled: `foo/bar` imports that also import the package root `foo` (flat projects only),
    `.d.er`/pyimport modules (build_decl_mod), the language-server mode, pylyzer. *)
From Coq Require Import ZArith List Bool Arith.
From ErgV Require Import Graph.Model.
Import ListNotations.
Open Scope Z_scope.

(* ------------------------------------------------------------------------------------------------ *)
(** * A. Dependency resolution (build_root -> resolve -> check_import -> register)                   *)

(** a project: module -> the modules named by its `import "..."` calls, in source order.
    An import of a module that is not in the table is a file that does not exist
    (register: `None => return Ok(())`, the error is reported later by the lowerer). *)
Definition project := list (Z * list Z).

Definition find_mod (P : project) (m : Z) : option (list Z) :=
  match find (fun e => Z.eqb (fst e) m) P with Some e => Some (snd e) | None => None end.
Definition imports_of (P : project) (m : Z) : list Z :=
  match find_mod P m with Some l => l | None => [] end.

(** Dict<inlined module, inliner> *)
Fixpoint inl_get (l : list (Z * Z)) (p : Z) : option Z :=
  match l with
  | [] => None
  | (k, v) :: r => if Z.eqb k p then Some v else inl_get r p
  end.
Definition inl_mem (p : Z) (l : list (Z * Z)) : bool :=
  match inl_get l p with Some _ => true | None => false end.

Record rst := {
  rg : graph;                (* self.shared.graph *)
  rinl : list (Z * Z);       (* self.inlines : inlined module -> inliner *)
  rasts : list Z;            (* keys of self.asts *)
  rcyc : list Z;             (* self.cyclic *)
  rlog : list op;            (* ghost: the graph operations performed, in order *)
  rref : list (Z * Z)        (* ghost: refused imports (referrer, import) *)
}.

Definition rst0 : rst :=
  {| rg := empty; rinl := []; rasts := []; rcyc := []; rlog := []; rref := [] |}.

(** resolve: `for chunk in ast.module.iter_mut() { if let Err(err) = self.check_import(..) { errs.extend(err) } }`
    [reg i st] is `register` of the import of module [i]; the errors (ResolveError.path) are accumulated *)
Definition each_import (reg : Z -> rst -> res (list Z * rst)) :=
  fix each (is : list Z) (errs : list Z) (st : rst) {struct is} : res (list Z * rst) :=
    match is with
    | [] => Ok (errs, st)
    | i :: is' => do r <- reg i st; each is' (errs ++ fst r) (snd r)
    end.

(** register(expr, cfg): [from] = cfg.input.path(), [imp] = the resolved import path.
    Returns the list of ResolveError paths ([] = Ok(())). *)
Fixpoint register (fuel : nat) (P : project) (from imp : Z) (st : rst) {struct fuel}
  : res (list Z * rst) :=
  match fuel with
  | O => Fuel
  | S f =>
    match find_mod P imp with
    | None => Ok ([], st)                       (* resolved = None => return Ok(()) *)
    | Some imps =>
      (* self.shared.graph.add_node_if_none(&import_path); ... inc_ref(&from_path, import_path) *)
      let g1 := add_node_if_none (rg st) imp in
      do x <- inc_ref g1 from imp;
      let log := rlog st ++ [OAdd imp; OInc from imp] in
      match fst x with
      | IncCycle =>
        (* return Err(vec![ResolveError { path: import_path, .. }]) *)
        Ok ([imp], {| rg := snd x; rinl := rinl st; rasts := rasts st; rcyc := rcyc st; rlog := log;
                      rref := rref st ++ [(from, imp)] |})
      | IncOk =>
        let st1 := {| rg := snd x; rinl := rinl st; rasts := rasts st; rcyc := rcyc st; rlog := log;
                      rref := rref st |} in
        if Z.eqb imp from || inl_mem imp (rinl st1) || memz imp (rasts st1) then Ok ([], st1)
        else
          (* let mut ast = self.parse(&import_path)...; self.resolve(&mut ast, &import_cfg) *)
          do r <- each_import (register f P imp) imps [] st1;
          let st2 := snd r in
          match fst r with
          | [] =>
            (* self.asts.insert(import_path, entry) *)
            Ok ([], {| rg := rg st2; rinl := rinl st2; rasts := rasts st2 ++ [imp]; rcyc := rcyc st2;
                       rlog := rlog st2; rref := rref st2 |})
          | errs =>
            (* self.inlines.insert(import_path, from_path); *expr = Expr::InlineModule(..);
               errs.retain(|e| e.path != from_path) *)
            let inl := rinl st2 ++ [(imp, from)] in
            match filter (fun p => negb (Z.eqb p from)) errs with
            | [] => Ok ([], {| rg := rg st2; rinl := inl; rasts := rasts st2; rcyc := rcyc st2 ++ [from];
                               rlog := rlog st2; rref := rref st2 |})
            | errs' => Ok (errs', {| rg := rg st2; rinl := inl; rasts := rasts st2; rcyc := rcyc st2;
                                     rlog := rlog st2; rref := rref st2 |})
            end
          end
      end
    end
  end.

(** build_root: `let res = self.resolve(&mut ast, &cfg); debug_assert!(res.is_ok())` (debug build) *)
Definition resolve_root (fuel : nat) (P : project) (root : Z) : res rst :=
  do r <- each_import (register fuel P root) (imports_of P root) [] rst0;
  match fst r with
  | [] => Ok (snd r)
  | _ => Panic
  end.

Definition resolve_fuel (P : project) : nat := S (S (length P)).

(* ------------------------------------------------------------------------------------------------ *)
(** * B. execute / build_deps_and_module / build_inlined_module / start_analysis_process             *)

Inductive bevent :=
| EvEnter (path : Z) (anc : list Z)   (* build_deps_and_module(path): the `ancestors` vector *)
| EvPop (a : Z)                       (* graph.remove(&ancestor) of a ready ancestor *)
| EvStart (a : Z)                     (* start_analysis_process spawns / runs the analysis of a *)
| EvSkip (a : Z)                      (* start_analysis_process: mod_registered => return *)
| EvWait (a : Z)                      (* build_inlined_module: already cached / registered (wait_until_finished) *)
| EvMark (a : Z)                      (* build_inlined_module: mark_as_joined after build_deps(inliner) *)
| EvLeave (path : Z).

Record bst := {
  bg : graph;              (* the local clone `graph` *)
  basts : list Z;          (* self.asts keys *)
  binl : list (Z * Z);     (* self.inlines *)
  breg : list Z;           (* registered in self.shared.promises (or cached) *)
  bev : list bevent;       (* trace *)
  bord : list (list Z)     (* oracle: iteration orders of the `ancestors` sets, one per call (Set = FxHashSet) *)
}.

Definition same_members (a b : list Z) : bool :=
  forallb (fun x => memz x b) a && forallb (fun x => memz x a) b && Nat.eqb (length a) (length b).

(** the vector `graph.ancestors(path).cloned().into_vec()`: the computed set in the order given by the oracle
    (when the oracle's next entry is not a permutation of the set, or is missing, the computed order is used) *)
Definition pick_order (ords : list (list Z)) (anc : list Z) : list Z * list (list Z) :=
  match ords with
  | o :: rest => if same_members o anc then (o, rest) else (anc, rest)
  | [] => (anc, [])
  end.

Definition add_ev (st : bst) (e : bevent) : bst :=
  {| bg := bg st; basts := basts st; binl := binl st; breg := breg st; bev := bev st ++ [e]; bord := bord st |}.
Definition set_graph (st : bst) (g : graph) : bst :=
  {| bg := g; basts := basts st; binl := binl st; breg := breg st; bev := bev st; bord := bord st |}.
Definition set_ords (st : bst) (o : list (list Z)) : bst :=
  {| bg := bg st; basts := basts st; binl := binl st; breg := breg st; bev := bev st; bord := o |}.
Definition add_reg (st : bst) (a : Z) : bst :=
  {| bg := bg st; basts := basts st; binl := binl st; breg := set_insert a (breg st); bev := bev st; bord := bord st |}.
Definition del_ast (st : bst) (a : Z) : bst :=
  {| bg := bg st; basts := set_remove a (basts st); binl := binl st; breg := breg st; bev := bev st; bord := bord st |}.

(** start_analysis_process (exec mode): returns at once when the module is registered/cached, otherwise
    spawns the thread and registers the promise (PARALLEL) or runs it and marks it joined (sequential) *)
Definition start (st : bst) (a : Z) : bst :=
  if memz a (breg st) then add_ev st (EvSkip a)
  else add_ev (add_reg st a) (EvStart a).

Definition is_nil {A} (l : list A) : bool := match l with [] => true | _ => false end.

(** build_deps_and_module(path, graph) and its `while let Some(ancestor) = ancestors.pop()` loop.
    [stack] is the vector reversed: `pop()` takes the head, `insert(0, x)` appends at the end. *)
Fixpoint deps (fuel : nat) (path : Z) (st : bst) {struct fuel} : res bst :=
  match fuel with
  | O => Fuel
  | S f =>
    do anc0 <- ancestors (bg st) path;
    let po := pick_order (bord st) anc0 in
    let st := add_ev (set_ords st (snd po)) (EvEnter path (fst po)) in
    do st' <- loop f path (rev (fst po)) st;
    Ok (add_ev st' (EvLeave path))
  end
with loop (fuel : nat) (path : Z) (stack : list Z) (st : bst) {struct fuel} : res bst :=
  match fuel with
  | O => Fuel
  | S f =>
    match stack with
    | [] => Ok st
    | a :: rest =>
      do par <- parents (bg st) a;
      (* graph.parents(&ancestor).is_none_or(|parents| parents.is_empty()) *)
      if match par with None => true | Some l => is_nil l end then
        do g' <- remove (bg st) a;
        let st := add_ev (set_graph st g') (EvPop a) in
        if memz a (basts st) then
          (* self.asts.remove(&ancestor) is Some: start_analysis_process *)
          loop f path rest (start (del_ast st a) a)
        else
          (* build_inlined_module(&ancestor, graph) *)
          if memz a (breg st) then loop f path rest (add_ev st (EvWait a))
          else
            match inl_get (binl st) a with
            | Some inliner =>
              do st' <- deps f inliner st;
              loop f path rest (add_ev (add_reg st' a) (EvMark a))
            | None => Panic   (* unreachable!("{path} is not found in self.inlines and self.asts") *)
            end
      else loop f path (rest ++ [a]) st      (* ancestors.insert(0, ancestor) *)
    end
  end.

(** fuel that is always enough on an acyclic graph (Proofs: deps_fuel_enough) *)
Definition loop_bound (n : nat) : nat := S (n * S n)%nat.
Fixpoint deps_bound (n : nat) : nat :=
  match n with O => S (S (loop_bound O)) | S k => S (S (loop_bound (S k))) + deps_bound k end%nat.

Definition bst_of (r : rst) (ords : list (list Z)) : bst :=
  {| bg := rg r; basts := rasts r; binl := rinl r; breg := []; bev := []; bord := ords |}.

(** execute: `let mut graph = self.shared.graph.clone_inner(); self.build_deps_and_module(&root, &mut graph)`,
    then the assertion that every ancestor of the root is registered *)
Definition execute (r : rst) (root : Z) (ords : list (list Z)) : res bst :=
  let st := bst_of r ords in
  do st' <- deps (deps_bound (length (nodes (rg r)))) root st;
  do anc <- ancestors (rg r) root;
  if forallb (fun p => memz p (breg st')) anc then Ok st' else Panic.

(** the main thread's actions in the order they happen, as a script for the transition system below *)
Inductive action := AStart (p : Z) | AMark (p : Z) | AWaitFin (p : Z).
Fixpoint script_of (evs : list bevent) : list action :=
  match evs with
  | [] => []
  | EvStart a :: r => AStart a :: script_of r
  | EvMark a :: r => AMark a :: script_of r
  | EvWait a :: r => AWaitFin a :: script_of r
  | _ :: r => script_of r
  end.

(* ------------------------------------------------------------------------------------------------ *)
(** * C. The join protocol as a labelled transition system, with module results                      *)

(** thread status.  Threads are modules; the main thread is the root module. *)
Inductive tstat := TRun | TWait (p : Z) | TFin.

Definition tstat_eqb (a b : tstat) : bool :=
  match a, b with
  | TRun, TRun => true
  | TFin, TFin => true
  | TWait p, TWait q => Z.eqb p q
  | _, _ => false
  end.

Fixpoint sget {A} (l : list (Z * A)) (p : Z) : option A :=
  match l with
  | [] => None
  | (k, v) :: r => if Z.eqb k p then Some v else sget r p
  end.
Fixpoint sset {A} (l : list (Z * A)) (p : Z) (v : A) : list (Z * A) :=
  match l with
  | [] => [(p, v)]
  | (k, w) :: r => if Z.eqb k p then (k, v) :: r else (k, w) :: sset r p v
  end.

(** what the analysis of a module yields (HIR + context + its diagnostics), abstractly *)
Definition result := Z.

Record lstate := {
  lroot : Z;
  lphase : bool;                   (* false: the main thread is in build_deps_and_module; true: it lowers the root *)
  lscript : list action;           (* what build_deps_and_module still has to do *)
  lstat : list (Z * tstat);        (* promises (registered modules) + the root *)
  lres : list (Z * result)         (* module cache: results of finished analyses *)
}.

Definition linit (root : Z) (script : list action) : lstate :=
  {| lroot := root; lphase := false; lscript := script; lstat := [(root, TRun)]; lres := [] |}.

Inductive label :=
| LStart (p : Z)          (* main: promises.insert(p, Running) *)
| LMark (p : Z)           (* main: mark_as_joined(p) *)
| LWaitFin (p : Z)        (* main: wait_until_finished(p) *)
| LDone                   (* main: build_deps_and_module returns; assert every ancestor is registered *)
| LJoin (m p : Z)         (* thread m: get_mod_with_path(p) -> join(p) *)
| LWake (m : Z)           (* thread m: the thread it waits for is finished *)
| LInline (m p : Z)       (* thread m: lower_inline_module(p) registers p in the module cache *)
| LFinish (m : Z).        (* thread m: cache.register(m); the thread ends *)

(** SharedPromises::join's decision for the current thread [m] and the path [p]:
    `if self.graph.ancestors(path).contains(&current) || path == &current { return }`
    `if !self.graph.deep_depends_on(&current, path) { return }` (panics with the `debug` feature)
    otherwise wait.  Called only when p is registered and not cached (get_mod_with_path). *)
Inductive decision := DNotRegistered | DSelfOrDependent | DUnrelated | DWait.

Definition decision_code (d : decision) : Z :=
  match d with DNotRegistered => 0 | DSelfOrDependent => 1 | DUnrelated => 2 | DWait => 3 end.

Section LTS.
(** the dependency graph after resolution (edges referrer -> dependency), the inlines table, the pure
    analysis function: result of a module from the results of its direct dependencies that are available *)
Variable E : list (Z * Z).
Variable inl : list (Z * Z).
Variable F : Z -> list (Z * option result) -> result.

Definition lsuccs (a : Z) : list Z := map snd (filter (fun e => Z.eqb (fst e) a) E).

(** reachability by |E| rounds of successor closure (as Graph.Spec.reachb, restated here because the
    transition system is extracted without the C21 files) *)
Definition sunion (a b : list Z) : list Z := fold_left (fun acc x => set_insert x acc) b a.
Fixpoint sclose (n : nat) (s : list Z) : list Z :=
  match n with O => s | S k => sclose k (sunion s (flat_map lsuccs s)) end.
Definition reaches (a b : Z) : bool := memz b (sclose (length E) (lsuccs a)).

Definition join_decision (s : lstate) (m p : Z) : decision :=
  match sget (lstat s) p with
  | None => DNotRegistered
  | Some _ =>
    if Z.eqb p m || reaches p m then DSelfOrDependent
    else if negb (reaches m p) then DUnrelated
    else DWait
  end.

Definition set_stat (s : lstate) (m : Z) (t : tstat) : lstate :=
  {| lroot := lroot s; lphase := lphase s; lscript := lscript s; lstat := sset (lstat s) m t; lres := lres s |}.
Definition set_script (s : lstate) (sc : list action) : lstate :=
  {| lroot := lroot s; lphase := lphase s; lscript := sc; lstat := lstat s; lres := lres s |}.
Definition set_phase (s : lstate) (b : bool) : lstate :=
  {| lroot := lroot s; lphase := b; lscript := lscript s; lstat := lstat s; lres := lres s |}.
Definition add_res (s : lstate) (m : Z) (r : result) : lstate :=
  {| lroot := lroot s; lphase := lphase s; lscript := lscript s; lstat := lstat s; lres := sset (lres s) m r |}.

Definition analyse (s : lstate) (m : Z) : result :=
  F m (map (fun d => (d, sget (lres s) d)) (lsuccs m)).

Definition is_run (s : lstate) (m : Z) : bool :=
  match sget (lstat s) m with Some TRun => true | _ => false end.
Definition is_fin (s : lstate) (m : Z) : bool :=
  match sget (lstat s) m with Some TFin => true | _ => false end.

(** modules inlined directly into [m]; the thread that analyses a module (the end of its chain of inliners) *)
Definition hosted (m : Z) : list Z := map fst (filter (fun kv => Z.eqb (snd kv) m) inl).
Fixpoint thread_of_ (fuel : nat) (p : Z) : Z :=
  match fuel with
  | O => p
  | S f => match inl_get inl p with Some q => thread_of_ f q | None => p end
  end.
Definition thread_of (p : Z) : Z := thread_of_ (length inl) p.

(** a module's analysis yields its result only after it has looked at every module it imports:
    each registered import has been joined (is finished: get_mod_with_path joins before it reads the cache),
    each module inlined into it has been lowered (lower_inline_module happens at the import) *)
Definition may_finish (s : lstate) (m : Z) : bool :=
  forallb (fun d => match sget (lstat s) d with Some TFin | None => true | Some _ => false end) (lsuccs m)
  && forallb (fun p => match sget (lres s) p with Some _ => true | None => false end) (hosted m).

Definition registered (s : lstate) (p : Z) : bool :=
  match sget (lstat s) p with Some _ => true | None => false end.

(** the transition function: [lstep s l = Some s'] iff the step labelled [l] is enabled in [s] *)
Definition lstep (s : lstate) (l : label) : option lstate :=
  match l with
  | LStart p =>
    match lphase s, lscript s with
    | false, AStart q :: sc =>
      if Z.eqb p q && is_run s (lroot s) then
        match sget (lstat s) p with
        | None => Some (set_stat (set_script s sc) p TRun)
        | Some _ => None       (* SharedPromises::insert: "already registered" (panics with `debug`) *)
        end
      else None
    | _, _ => None
    end
  | LMark p =>
    match lphase s, lscript s with
    | false, AMark q :: sc =>
      if Z.eqb p q && is_run s (lroot s) then
        match sget (lstat s) p with
        | None => Some (set_stat (set_script s sc) p TFin)
        | Some _ => None       (* build_inlined_module reaches mark_as_joined only for an unregistered path *)
        end
      else None
    | _, _ => None
    end
  | LWaitFin p =>
    match lphase s, lscript s with
    | false, AWaitFin q :: sc =>
      if Z.eqb p q && is_run s (lroot s) && negb (Z.eqb p (lroot s)) then
        match sget (lstat s) p with
        | Some _ => Some (set_stat (set_script s sc) (lroot s) (TWait p))
        | None => None
        end
      else None
    | _, _ => None
    end
  | LDone =>
    (* execute continues with the lowering of the root (its assertion that every ancestor is registered is
       [execute]'s last line in part B) *)
    match lphase s, lscript s with
    | false, [] => if is_run s (lroot s) then Some (set_phase s true) else None
    | _, _ => None
    end
  | LJoin m p =>
    if is_run s m && (negb (Z.eqb m (lroot s)) || lphase s) then
      match join_decision s m p with
      | DWait => Some (set_stat s m (TWait p))
      | _ => Some s
      end
    else None
  | LWake m =>
    match sget (lstat s) m with
    | Some (TWait p) => if is_fin s p then Some (set_stat s m TRun) else None
    | _ => None
    end
  | LInline m p =>
    (* lower_inline_module(p) inside the analysis of m (p is inlined into m or into a module inlined into m ...) *)
    if is_run s m && (negb (Z.eqb m (lroot s)) || lphase s) && inl_mem p inl && Z.eqb (thread_of p) m
       && registered s p && may_finish s p then
      match sget (lres s) p with
      | Some _ => None                           (* get_module(p).is_complete(): nothing to do *)
      | None => Some (add_res s p (analyse s p))
      end
    else None
  | LFinish m =>
    if is_run s m && (negb (Z.eqb m (lroot s)) || lphase s) && may_finish s m then
      Some (set_stat (add_res s m (analyse s m)) m TFin)
    else None
  end.

Fixpoint lrun (s : lstate) (ls : list label) : option lstate :=
  match ls with
  | [] => Some s
  | l :: r => match lstep s l with Some s' => lrun s' r | None => None end
  end.

Definition all_fin (s : lstate) : bool :=
  forallb (fun kv => tstat_eqb (snd kv) TFin) (lstat s).

(** every label that could possibly be enabled in [s] (used by the executable deadlock check) *)
Definition candidates (s : lstate) : list label :=
  let ms := map fst (lstat s) in
  [LDone] ++
  match lscript s with
  | AStart p :: _ => [LStart p] | AMark p :: _ => [LMark p] | AWaitFin p :: _ => [LWaitFin p] | [] => []
  end ++
  flat_map (fun m => [LWake m; LFinish m] ++ map (LJoin m) (lsuccs m) ++ map (LInline m) (map fst inl)) ms.

Definition can_step (s : lstate) : bool :=
  existsb (fun l => match lstep s l with Some _ => true | None => false end) (candidates s).

End LTS.
