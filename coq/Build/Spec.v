(** C20 / C19 — the properties as executable judges over what is observed, the checkable well-formedness of a
    resolution result, the side conditions of the theorems, and the known-finding classes. *)
From Coq Require Import ZArith List Bool Arith.
From ErgV Require Import Graph.Model Graph.Spec Build.Model.
Import ListNotations.
Open Scope Z_scope.

(* ------------------------------------------------------------------------------------------------ *)
(** * the import relation of a project as a plain graph *)
Definition pedges (P : project) : list (Z * Z) :=
  flat_map (fun e => map (fun d => (fst e, d)) (filter (fun d => match find_mod P d with Some _ => true | None => false end) (snd e))) P.

(** modules the entry module reaches through imports (the entry itself included) *)
Definition reachable_mods (P : project) (root : Z) : list Z := set_insert root (reach_set (pedges P) root).

(* ------------------------------------------------------------------------------------------------ *)
(** * what resolution must have produced for build_deps_and_module to be applicable (checked on every snapshot) *)
Definition wf_resb (r : rst) (root : Z) : bool :=
  let ns := map nid (nodes (rg r)) in
  let es := edges_of (nodes (rg r)) in
  forallb (fun e => memz (snd e) ns && negb (Z.eqb (snd e) root)) es &&
  forallb (fun x => Z.eqb x root || memz x (rasts r) || inl_mem x (rinl r)) ns &&
  forallb (fun x => memz x ns) (rasts r).

(* ------------------------------------------------------------------------------------------------ *)
(** * side conditions on the main thread's script (the order in which build_deps_and_module starts things) *)

(** enabledness: a module is started / marked at most once and is waited for only when registered *)
Fixpoint script_okb (root : Z) (dom : list Z) (sc : list action) : bool :=
  match sc with
  | [] => true
  | AStart p :: r => negb (memz p dom) && script_okb root (p :: dom) r
  | AMark p :: r => negb (memz p dom) && script_okb root (p :: dom) r
  | AWaitFin p :: r => memz p dom && negb (Z.eqb p root) && script_okb root dom r
  end.

Section Good.
Variable E : list (Z * Z).
Variable inl : list (Z * Z).

(** every module is started (marked) after the modules it imports have been registered;
    started modules are not inlined ones, marked modules are *)
Fixpoint script_topob (dom : list Z) (sc : list action) : bool :=
  match sc with
  | [] => true
  | AStart p :: r => forallb (fun d => memz d dom) (lsuccs E p) && negb (inl_mem p inl) && script_topob (p :: dom) r
  | AMark p :: r => forallb (fun d => memz d dom) (lsuccs E p) && inl_mem p inl && script_topob (p :: dom) r
  | AWaitFin _ :: r => script_topob dom r
  end.

(** an inlined module is imported by its inliner only *)
Definition private_inlines : bool :=
  forallb (fun e => match inl_get inl (snd e) with Some q => Z.eqb (fst e) q | None => true end) E.

Definition good_script (root : Z) (sc : list action) : bool :=
  script_okb root [root] sc && script_topob [root] sc && private_inlines && negb (inl_mem root inl).
End Good.

(* ------------------------------------------------------------------------------------------------ *)
(** * known-finding classes (DESIGN.md section 3; /verif/known/C20.json, C19.json) *)

(** K1: the entry module is on an import cycle: a module other than the entry, reachable from the entry, imports it *)
Definition known_entry_cycle (P : project) (root : Z) : bool :=
  existsb (fun m => negb (Z.eqb m root) && memz root (imports_of P m)) (reachable_mods P root).

(** K2: a module that was inlined into its cycle partner is also imported by another module
    (it is marked as joined before it is analysed, so the other importer may read an empty module) *)
Definition known_shared_inlined (r : rst) : bool :=
  negb (private_inlines (edges_of (nodes (rg r))) (rinl r)).

(** K4: a cycle-closing import whose importer reads a *variable* of the module that is still being analysed
    ([backvar] is a flag of the generated project: the refused imports are used through `.v`, not `.getc()`) *)
Definition known_backvar (r : rst) (backvar : bool) : bool :=
  backvar && negb (is_nil (rref r)).

Definition Known_C20 (P : project) (root : Z) (backvar : bool) : bool :=
  known_entry_cycle P root ||
  match resolve_root (resolve_fuel P) P root with
  | Ok r => known_shared_inlined r || known_backvar r backvar
  | _ => true
  end.

(** C19: the schedule can only matter in class K2 (and the entry-cycle class never compiles the same way twice
    only in so far as it fails; it is deterministic) *)
Definition Known_C19 (P : project) (root : Z) : bool :=
  match resolve_root (resolve_fuel P) P root with
  | Ok r => known_shared_inlined r
  | _ => true
  end.

(* ------------------------------------------------------------------------------------------------ *)
(** * the judges: the property text applied to one observed build + run *)

(** C20.  [mods]: the modules reachable from the entry.  Observed: did `erg check` / `erg run` terminate,
    which modules were analysed (one record per analysis, from the trace), which markers the program printed,
    and whether every printed cross-module value / type-checked use was as intended ([values_ok]). *)
Definition count_z (x : Z) (l : list Z) : nat := length (filter (Z.eqb x) l).
Definition each_once (mods obs : list Z) : bool :=
  forallb (fun m => Nat.eqb (count_z m obs) 1) mods && forallb (fun m => memz m mods) obs.

Definition judge_C20 (mods analysed markers : list Z) (terminated compiled values_ok : bool) : bool :=
  terminated && compiled && each_once mods analysed && each_once mods markers && values_ok.

(** C19.  Two builds of the same sources agree when the bytes 16.. of every .pyc and the sorted diagnostics are equal
    (python compares the byte strings and passes the verdicts). *)
Definition judge_C19 (pyc_equal diags_equal : bool) : bool := pyc_equal && diags_equal.

(* ------------------------------------------------------------------------------------------------ *)
(** * replaying an observed trace through the transition system *)

(** a label together with the decision the implementation reported for a join (-1: not a join) *)
Definition olabel := (label * Z)%type.

Section Replay.
Variable E : list (Z * Z).
Variable inl : list (Z * Z).
Let F : Z -> list (Z * option result) -> result := fun _ _ => 0.

(** index of the first label that is not enabled or whose join decision differs (or -1), and the last state *)
Fixpoint replay (s : lstate) (ls : list olabel) (i : Z) : Z * lstate :=
  match ls with
  | [] => (-1, s)
  | (l, d) :: r =>
    let dec_ok := match l with
                  | LJoin m p => Z.eqb d (-1) || Z.eqb d (decision_code (join_decision E s m p))
                  | _ => true
                  end in
    if dec_ok then
      match lstep E inl F s l with
      | Some s' => replay s' r (i + 1)
      | None => (i, s)
      end
    else (i, s)
  end.
End Replay.
