(** C20 — build_deps_and_module: termination, no panic, each module started once and after its dependencies *)
From Coq Require Import ZArith List Bool Arith Lia.
From ErgV Require Import Graph.Model Graph.Spec Graph.ProofsReach Graph.Proofs Build.Model Build.ProofsAnc.
Import ListNotations.
Open Scope Z_scope.

Definition Nd (g : graph) : list Z := map nid (nodes g).
Definition Ed (g : graph) : list (Z * Z) := edges_of (nodes g).

(* ---------------------------------------------------------------- graph facts *)
Definition readyb (g : graph) (a : Z) : bool :=
  match find_node (nodes g) a with None => true | Some n => is_nil (ndeps n) end.

Lemma readyb_spec : forall g a, index_inv g -> (readyb g a = true <-> forall d, ~ In (a, d) (Ed g)).
Proof.
  intros g a Hinv. unfold readyb, Ed. split.
  - intros H d Hd. apply (edges_find _ a d (proj1 Hinv)) in Hd. destruct Hd as [n [Hn Hx]]. rewrite Hn in H.
    destruct (ndeps n); [contradiction|discriminate].
  - intros H. destruct (find_node (nodes g) a) as [n|] eqn:Hf; [|reflexivity].
    destruct (ndeps n) as [|d r] eqn:Hd; [reflexivity|]. exfalso. apply (H d).
    apply (edges_find _ a d (proj1 Hinv)). exists n. split; [exact Hf|]. rewrite Hd. left. reflexivity.
Qed.

Lemma parents_ready : forall g a, index_inv g ->
  exists par, parents g a = Ok par /\ (match par with None => true | Some l => is_nil l end) = readyb g a.
Proof.
  intros g a Hinv. unfold parents. rewrite (get_node_spec g a Hinv). cbn [bind]. eexists. split; [reflexivity|].
  unfold readyb. destruct (find_node (nodes g) a); reflexivity.
Qed.

Lemma find_node_In : forall g x, find_node (nodes g) x <> None <-> In x (Nd g).
Proof.
  intros g x. unfold Nd. split.
  - intros H. destruct (find_node (nodes g) x) eqn:Hf; [|congruence]. apply find_node_Some in Hf.
    destruct Hf as [Hn <-]. apply in_map. exact Hn.
  - intros H Hf. apply find_node_None in Hf. contradiction.
Qed.

Lemma remove_facts : forall g a g', index_inv g -> remove g a = Ok g' ->
  index_inv g' /\
  (forall x, In x (Nd g') <-> In x (Nd g) /\ x <> a) /\
  (forall x d, In (x, d) (Ed g') <-> In (x, d) (Ed g) /\ x <> a /\ d <> a).
Proof.
  intros g a g' Hinv H. split; [eapply index_inv_remove; eassumption|].
  destruct (abs_remove g a g' Hinv H) as [HV HE]. split.
  - intros x. specialize (HV x). cbn [abs V r_remove] in HV. rewrite set_remove_In in HV. exact HV.
  - intros x d. specialize (HE (x, d)). cbn [abs E r_remove] in HE. rewrite filter_In in HE. cbn [fst snd] in HE.
    rewrite andb_true_iff, !negb_true_iff, !Z.eqb_neq in HE. exact HE.
Qed.

Lemma nodes_length_lt : forall g g' a, NoDup (Nd g') -> In a (Nd g) -> ~ In a (Nd g') ->
  (forall x, In x (Nd g') -> In x (Nd g)) -> (length (nodes g') < length (nodes g))%nat.
Proof.
  intros g g' a Hnd Ha Hna Hi.
  assert (H : (length (a :: Nd g') <= length (Nd g))%nat).
  { apply NoDup_incl_length; [constructor; assumption|]. intros x [<-|Hx]; [exact Ha|apply Hi; exact Hx]. }
  unfold Nd in H. cbn [length] in H. rewrite !map_length in H. lia.
Qed.

(** a minimal element of a non-empty list w.r.t. reachability in an acyclic graph *)
Lemma minimal_exists : forall (EE : list (Z * Z)) (l : list Z), acyclic EE -> l <> [] ->
  exists m, In m l /\ forall p, In p l -> ~ reach EE m p.
Proof.
  intros EE l Hac. induction l as [|x l IH]; intros Hne; [congruence|].
  destruct l as [|y l'].
  - exists x. split; [left; reflexivity|]. intros p [<-|[]]. apply Hac.
  - destruct IH as [m [Hm Hmin]]; [discriminate|].
    destruct (reach_dec EE m x) as [Hr|Hnr].
    + exists x. split; [left; reflexivity|]. intros p [<-|Hp]; [apply Hac|].
      intros Hxp. apply (Hmin p Hp). eapply reach_trans; eassumption.
    + exists m. split; [right; exact Hm|]. intros p [<-|Hp]; [exact Hnr|apply Hmin; exact Hp].
Qed.

Lemma first_true : forall (A : Type) (p : A -> bool) (l : list A), existsb p l = true ->
  exists pre a post, l = pre ++ a :: post /\ forallb (fun x => negb (p x)) pre = true /\ p a = true.
Proof.
  intros A p. induction l as [|x l IH]; intros H; [discriminate|]. cbn [existsb] in H.
  destruct (p x) eqn:Hx.
  - exists [], x, l. repeat split; assumption.
  - cbn [orb] in H. destruct (IH H) as [pre [a [post [-> [Hpre Ha]]]]]. exists (x :: pre), a, post.
    split; [reflexivity|]. split; [cbn [forallb]; rewrite Hx; exact Hpre|exact Ha].
Qed.

(* ---------------------------------------------------------------- events *)
Definition started (evs : list bevent) : list Z := flat_map (fun e => match e with EvStart a => [a] | _ => [] end) evs.
Definition marked (evs : list bevent) : list Z := flat_map (fun e => match e with EvMark a => [a] | _ => [] end) evs.
Definition popped (evs : list bevent) : list Z := flat_map (fun e => match e with EvPop a => [a] | _ => [] end) evs.

Lemma started_app : forall a b, started (a ++ b) = started a ++ started b.
Proof. intros. unfold started. apply flat_map_app. Qed.
Lemma marked_app : forall a b, marked (a ++ b) = marked a ++ marked b.
Proof. intros. unfold marked. apply flat_map_app. Qed.
Lemma popped_app : forall a b, popped (a ++ b) = popped a ++ popped b.
Proof. intros. unfold popped. apply flat_map_app. Qed.

(** the modules handed to an analysis (thread) or marked as joined, in order *)
Definition handled (evs : list bevent) : list Z :=
  flat_map (fun e => match e with EvStart a => [a] | EvMark a => [a] | _ => [] end) evs.
Lemma handled_app : forall a b, handled (a ++ b) = handled a ++ handled b.
Proof. intros. unfold handled. apply flat_map_app. Qed.
Lemma handled_In : forall evs x, In x (handled evs) <-> In x (started evs) \/ In x (marked evs).
Proof.
  induction evs as [|e r IH]; intros x; [cbn; tauto|].
  change (e :: r) with ([e] ++ r). rewrite handled_app, started_app, marked_app, !in_app_iff, IH.
  destruct e; cbn; tauto.
Qed.

Section Deps.
Variable root : Z.
Variable G0 : graph.
Let E0 := Ed G0.

Record WF (st : bst) : Prop := {
  wf_inv : index_inv (bg st);
  wf_acyc : acyclic (Ed (bg st));
  wf_closed : forall a d, In (a, d) (Ed (bg st)) -> In d (Nd (bg st));
  wf_class : forall x, In x (Nd (bg st)) -> x <> root ->
               In x (basts st) \/ inl_mem x (binl st) = true \/ In x (breg st);
  wf_root : forall a, ~ In (a, root) (Ed (bg st));
  wf_asts : forall x, In x (basts st) -> In x (Nd (bg st));
  wf_regnode : forall x, In x (breg st) -> ~ In x (Nd (bg st));
  wf_exact : forall b d, In b (Nd (bg st)) -> In (b, d) E0 -> In (b, d) (Ed (bg st)) \/ In d (popped (bev st));
  wf_regev : forall x, In x (breg st) <-> In x (handled (bev st));
  wf_nodup : NoDup (handled (bev st));
  wf_topo : forall a d pre post, bev st = pre ++ EvStart a :: post -> In (a, d) E0 -> In d (popped pre)
}.

Record Post (st st' : bst) : Prop := {
  p_wf : WF st';
  p_nodes : forall x, In x (Nd (bg st')) -> In x (Nd (bg st));
  p_edges : forall e, In e (Ed (bg st')) -> In e (Ed (bg st));
  p_reg : forall x, In x (breg st) -> In x (breg st');
  p_inl : binl st' = binl st;
  p_removed : forall x, In x (Nd (bg st)) -> ~ In x (Nd (bg st')) -> In x (breg st');
  p_regfrom : forall x, In x (breg st') -> In x (breg st) \/ In x (Nd (bg st))
}.

Lemma Post_refl : forall st, WF st -> Post st st.
Proof. intros st H. constructor; auto. intros x H1 H2. contradiction. Qed.

Lemma Post_trans : forall s1 s2 s3, Post s1 s2 -> Post s2 s3 -> Post s1 s3.
Proof.
  intros s1 s2 s3 A B. constructor.
  - exact (p_wf _ _ B).
  - intros x Hx. apply (p_nodes _ _ A), (p_nodes _ _ B), Hx.
  - intros e He. apply (p_edges _ _ A), (p_edges _ _ B), He.
  - intros x Hx. apply (p_reg _ _ B), (p_reg _ _ A), Hx.
  - rewrite (p_inl _ _ B). exact (p_inl _ _ A).
  - intros x Hx Hn. destruct (in_dec Z.eq_dec x (Nd (bg s2))) as [Hin|Hnin].
    + apply (p_removed _ _ B); assumption.
    + apply (p_reg _ _ B). apply (p_removed _ _ A); assumption.
  - intros x Hx. destruct (p_regfrom _ _ B x Hx) as [H|H].
    + apply (p_regfrom _ _ A x H).
    + right. apply (p_nodes _ _ A). exact H.
Qed.

(* ---------------------------------------------------------------- the primitive state changes *)
(** events that are neither a pop nor a start nor a mark do not matter *)
Definition neutral (e : bevent) : Prop :=
  match e with EvPop _ | EvStart _ | EvMark _ => False | _ => True end.

Lemma handled_neutral : forall evs e, neutral e -> handled (evs ++ [e]) = handled evs.
Proof. intros evs e H. rewrite handled_app. destruct e; cbn in *; try contradiction; apply app_nil_r. Qed.
Lemma popped_neutral : forall evs e, neutral e -> popped (evs ++ [e]) = popped evs.
Proof. intros evs e H. rewrite popped_app. destruct e; cbn in *; try contradiction; apply app_nil_r. Qed.

Lemma topo_snoc : forall (evs : list bevent) e,
  (forall a d pre post, evs = pre ++ EvStart a :: post -> In (a, d) E0 -> In d (popped pre)) ->
  (forall a, e = EvStart a -> forall d, In (a, d) E0 -> In d (popped evs)) ->
  forall a d pre post, evs ++ [e] = pre ++ EvStart a :: post -> In (a, d) E0 -> In d (popped pre).
Proof.
  intros evs e Hold Hnew a d pre post Heq Hd.
  destruct post as [|x post'] using rev_ind.
  - apply app_inj_tail in Heq. destruct Heq as [-> ->]. eapply Hnew; [reflexivity|exact Hd].
  - clear IHpost'. rewrite app_comm_cons, app_assoc in Heq. apply app_inj_tail in Heq. destruct Heq as [Heq _].
    eapply Hold; eassumption.
Qed.

Lemma WF_neutral : forall st e, neutral e -> WF st -> WF (add_ev st e).
Proof.
  intros st e Hn H. destruct H. constructor; cbn [add_ev bg basts binl breg bev]; auto.
  - intros b d Hb Hd. rewrite (popped_neutral _ _ Hn). auto.
  - intros x. rewrite (handled_neutral _ _ Hn). auto.
  - rewrite (handled_neutral _ _ Hn). auto.
  - apply topo_snoc; [exact wf_topo0|]. intros a ->. contradiction.
Qed.

Lemma Post_neutral : forall st st' e, neutral e -> Post st st' -> Post st (add_ev st' e).
Proof.
  intros st st' e Hn H. destruct H. constructor; cbn [add_ev bg basts binl breg bev]; auto.
  apply WF_neutral; assumption.
Qed.

Lemma WF_set_ords : forall st o, WF st -> WF (set_ords st o).
Proof. intros st o H. destruct H. constructor; cbn [set_ords bg basts binl breg bev]; auto. Qed.

(** graph.remove(a) of a ready item + the EvPop event *)
Definition pop_state (st : bst) (g' : graph) (a : Z) : bst := add_ev (set_graph st g') (EvPop a).

Lemma in_set_insert : forall x a l, In x (set_insert a l) <-> x = a \/ In x l.
Proof. intros. apply set_insert_In. Qed.

Section Pop.
Variables (st : bst) (a : Z) (g' : graph).
Hypothesis Hwf : WF st.
Hypothesis Hrem : remove (bg st) a = Ok g'.
Hypothesis Hready : readyb (bg st) a = true.

Let Hf := remove_facts (bg st) a g' (wf_inv _ Hwf) Hrem.
Let st1 := pop_state st g' a.

Lemma pop_nodes : forall x, In x (Nd g') <-> In x (Nd (bg st)) /\ x <> a.
Proof. exact (proj1 (proj2 Hf)). Qed.
Lemma pop_edges : forall x d, In (x, d) (Ed g') <-> In (x, d) (Ed (bg st)) /\ x <> a /\ d <> a.
Proof. exact (proj2 (proj2 Hf)). Qed.

Lemma pop_graph :
  index_inv g' /\ acyclic (Ed g') /\ (forall x d, In (x, d) (Ed g') -> In d (Nd g')) /\
  (forall x, ~ In (x, root) (Ed g')) /\
  (forall b d, In b (Nd g') -> In (b, d) E0 -> In (b, d) (Ed g') \/ In d (popped (bev st ++ [EvPop a]))).
Proof.
  split; [exact (proj1 Hf)|]. split.
  - eapply acyclic_incl; [|exact (wf_acyc _ Hwf)]. intros [x d] He. apply pop_edges in He. tauto.
  - split.
    + intros x d He. apply pop_edges in He. destruct He as [He [_ Hd]]. apply pop_nodes. split; [|exact Hd].
      eapply wf_closed; eassumption.
    + split.
      * intros x He. apply pop_edges in He. exact (wf_root _ Hwf x (proj1 He)).
      * intros b d Hb Hd. apply pop_nodes in Hb. destruct Hb as [Hb Hba].
        rewrite popped_app, in_app_iff. cbn [popped flat_map app In].
        destruct (Z.eq_dec d a) as [->|Hda]; [right; right; left; reflexivity|].
        destruct (wf_exact _ Hwf b d Hb Hd) as [He|Hp]; [left; apply pop_edges; auto|right; left; exact Hp].
Qed.

(** the three continuations after the pop *)
(* 1. the module has an AST: start its analysis *)
Lemma pop_start : In a (basts st) ->
  start (del_ast st1 a) a = add_ev (add_reg (del_ast st1 a) a) (EvStart a) /\
  Post st (start (del_ast st1 a) a).
Proof.
  intros Hast. assert (Hnode : In a (Nd (bg st))) by (apply (wf_asts _ Hwf); exact Hast).
  assert (Hnreg : ~ In a (breg st)) by (intros H; exact (wf_regnode _ Hwf a H Hnode)).
  assert (Hst : start (del_ast st1 a) a = add_ev (add_reg (del_ast st1 a) a) (EvStart a)).
  { unfold start. cbn [del_ast st1 pop_state add_ev set_graph breg].
    apply memz_false in Hnreg. rewrite Hnreg. reflexivity. }
  split; [exact Hst|]. rewrite Hst.
  destruct pop_graph as [G1 [G2 [G3 [G4 G5]]]].
  assert (Hev : bev (add_ev (add_reg (del_ast st1 a) a) (EvStart a)) = (bev st ++ [EvPop a]) ++ [EvStart a]) by reflexivity.
  assert (Hwf' : WF (add_ev (add_reg (del_ast st1 a) a) (EvStart a))).
  { constructor; cbn [add_ev add_reg del_ast st1 pop_state set_graph bg basts binl breg bev].
    - exact G1.
    - exact G2.
    - exact G3.
    - intros x Hx Hxr. apply pop_nodes in Hx. destruct Hx as [Hx Hxa].
      destruct (wf_class _ Hwf x Hx Hxr) as [H|[H|H]].
      + left. apply set_remove_In. auto.
      + right. left. exact H.
      + right. right. apply in_set_insert. right. exact H.
    - exact G4.
    - intros x Hx. apply set_remove_In in Hx. destruct Hx as [Hx Hxa]. apply pop_nodes. split; [|exact Hxa].
      apply (wf_asts _ Hwf). exact Hx.
    - intros x Hx Hn. apply in_set_insert in Hx. apply pop_nodes in Hn. destruct Hn as [Hn Hxa].
      destruct Hx as [->|Hx]; [congruence|]. exact (wf_regnode _ Hwf x Hx Hn).
    - intros b d Hb Hd. destruct (G5 b d Hb Hd) as [H|H]; [left; exact H|right].
      rewrite popped_app, in_app_iff. left. exact H.
    - intros x. rewrite !handled_app, !in_app_iff, in_set_insert. cbn [handled flat_map app In].
      rewrite (wf_regev _ Hwf x). intuition congruence.
    - rewrite !handled_app. cbn [handled flat_map app]. rewrite app_nil_r. apply NoDup_snoc; [exact (wf_nodup _ Hwf)|].
      intros H. apply (wf_regev _ Hwf) in H. contradiction.
    - apply topo_snoc.
      + apply topo_snoc; [exact (wf_topo _ Hwf)|]. intros a0 H; discriminate.
      + intros a0 H0 d Hd. inversion H0; subst a0.
        destruct (wf_exact _ Hwf a d Hnode Hd) as [He|Hp].
        * exfalso. exact (proj1 (readyb_spec _ a (wf_inv _ Hwf)) Hready d He).
        * rewrite popped_app, in_app_iff. left. exact Hp. }
  constructor; cbn [add_ev add_reg del_ast st1 pop_state set_graph bg basts binl breg bev].
  - exact Hwf'.
  - intros x Hx. apply pop_nodes in Hx. tauto.
  - intros [x d] He. apply pop_edges in He. tauto.
  - intros x Hx. apply in_set_insert. right. exact Hx.
  - reflexivity.
  - intros x Hx Hn. apply in_set_insert. destruct (Z.eq_dec x a) as [->|Hxa]; [left; reflexivity|].
    exfalso. apply Hn. apply pop_nodes. auto.
  - intros x Hx. apply in_set_insert in Hx. destruct Hx as [->|Hx]; [right; exact Hnode|left; exact Hx].
Qed.

(* 2. already registered: wait *)
Lemma pop_wait : In a (breg st) -> Post st (add_ev st1 (EvWait a)).
Proof.
  intros Hreg. assert (Hnn : ~ In a (Nd (bg st))) by (apply (wf_regnode _ Hwf); exact Hreg).
  destruct pop_graph as [G1 [G2 [G3 [G4 G5]]]].
  assert (Hsame : forall x, In x (Nd g') <-> In x (Nd (bg st))).
  { intros x. rewrite pop_nodes. split; [tauto|]. intros Hx. split; [exact Hx|]. intros ->. contradiction. }
  apply Post_neutral; [exact I|].
  assert (Hwf' : WF st1).
  { constructor; cbn [st1 pop_state add_ev set_graph bg basts binl breg bev].
    - exact G1.
    - exact G2.
    - exact G3.
    - intros x Hx Hxr. apply Hsame in Hx. apply (wf_class _ Hwf); assumption.
    - exact G4.
    - intros x Hx. apply Hsame. apply (wf_asts _ Hwf). exact Hx.
    - intros x Hx Hn. apply Hsame in Hn. exact (wf_regnode _ Hwf x Hx Hn).
    - exact G5.
    - intros x. rewrite handled_app. cbn [handled flat_map app]. rewrite app_nil_r. apply (wf_regev _ Hwf).
    - rewrite handled_app. cbn [handled flat_map app]. rewrite app_nil_r. apply (wf_nodup _ Hwf).
    - apply topo_snoc; [exact (wf_topo _ Hwf)|]. intros a0 H; discriminate. }
  constructor; cbn [st1 pop_state add_ev set_graph bg basts binl breg bev]; auto.
  - intros x Hx. apply Hsame. exact Hx.
  - intros [x d] He. apply pop_edges in He. tauto.
  - intros x Hx Hn. exfalso. apply Hn. apply Hsame. exact Hx.
Qed.

(* 3. inlined: the state handed to the nested build_deps_and_module(inliner) *)
Lemma pop_inline : In a (Nd (bg st)) -> ~ In a (basts st) -> ~ In a (breg st) ->
  WF st1 /\ ~ In a (Nd (bg st1)) /\ ~ In a (breg st1) /\ (length (nodes (bg st1)) < length (nodes (bg st)))%nat.
Proof.
  intros Hnode Hnast Hnreg. destruct pop_graph as [G1 [G2 [G3 [G4 G5]]]].
  assert (Hna : ~ In a (Nd g')) by (intros H; apply pop_nodes in H; tauto).
  split; [|split; [exact Hna|split; [exact Hnreg|]]].
  - constructor; cbn [st1 pop_state add_ev set_graph bg basts binl breg bev].
    + exact G1.
    + exact G2.
    + exact G3.
    + intros x Hx Hxr. apply pop_nodes in Hx. apply (wf_class _ Hwf); tauto.
    + exact G4.
    + intros x Hx. apply pop_nodes. split; [apply (wf_asts _ Hwf); exact Hx|]. intros ->. contradiction.
    + intros x Hx Hn. apply pop_nodes in Hn. exact (wf_regnode _ Hwf x Hx (proj1 Hn)).
    + exact G5.
    + intros x. rewrite handled_app. cbn [handled flat_map app]. rewrite app_nil_r. apply (wf_regev _ Hwf).
    + rewrite handled_app. cbn [handled flat_map app]. rewrite app_nil_r. apply (wf_nodup _ Hwf).
    + apply topo_snoc; [exact (wf_topo _ Hwf)|]. intros a0 H; discriminate.
  - cbn [st1 pop_state add_ev set_graph bg]. eapply nodes_length_lt with (a := a).
    + exact (proj1 G1).
    + exact Hnode.
    + exact Hna.
    + intros x Hx. apply pop_nodes in Hx. tauto.
Qed.

Lemma pop_post1 : In a (Nd (bg st)) -> ~ In a (basts st) -> ~ In a (breg st) ->
  forall st'', Post st1 st'' -> Post st (add_ev (add_reg st'' a) (EvMark a)).
Proof.
  intros Hnode Hnast Hnreg st'' HP. destruct (pop_inline Hnode Hnast Hnreg) as [W1 [N1 [R1 _]]].
  pose proof (p_wf _ _ HP) as W2.
  assert (Hn2 : ~ In a (Nd (bg st''))) by (intros H; apply N1; apply (p_nodes _ _ HP); exact H).
  assert (Hr2 : ~ In a (breg st'')).
  { intros H. destruct (p_regfrom _ _ HP a H) as [H1|H1]; contradiction. }
  constructor; cbn [add_ev add_reg bg basts binl breg bev].
  - constructor; cbn [add_ev add_reg bg basts binl breg bev]; try apply W2.
    + intros x Hx Hxr. destruct (wf_class _ W2 x Hx Hxr) as [H|[H|H]]; auto. right. right. apply in_set_insert. auto.
    + intros x Hx Hn. apply in_set_insert in Hx. destruct Hx as [->|Hx]; [contradiction|]. exact (wf_regnode _ W2 x Hx Hn).
    + intros b d Hb Hd. destruct (wf_exact _ W2 b d Hb Hd) as [H|H]; [left; exact H|right].
      rewrite popped_app, in_app_iff. left. exact H.
    + intros x. rewrite handled_app, in_app_iff, in_set_insert. cbn [handled flat_map app In].
      rewrite (wf_regev _ W2 x). intuition congruence.
    + rewrite handled_app. cbn [handled flat_map app]. apply NoDup_snoc; [exact (wf_nodup _ W2)|].
      intros H. apply (wf_regev _ W2) in H. contradiction.
    + apply topo_snoc; [exact (wf_topo _ W2)|]. intros a0 H; discriminate.
  - intros x Hx. apply (p_nodes _ _ HP) in Hx. cbn [st1 pop_state add_ev set_graph bg] in Hx. apply pop_nodes in Hx. tauto.
  - intros e He. apply (p_edges _ _ HP) in He. cbn [st1 pop_state add_ev set_graph bg] in He. destruct e as [x d].
    apply pop_edges in He. tauto.
  - intros x Hx. apply in_set_insert. right. apply (p_reg _ _ HP). exact Hx.
  - rewrite (p_inl _ _ HP). reflexivity.
  - intros x Hx Hn. apply in_set_insert. destruct (Z.eq_dec x a) as [->|Hxa]; [left; reflexivity|right].
    apply (p_removed _ _ HP); [|exact Hn]. cbn [st1 pop_state add_ev set_graph bg]. apply pop_nodes. auto.
  - intros x Hx. apply in_set_insert in Hx. destruct Hx as [->|Hx]; [right; exact Hnode|].
    destruct (p_regfrom _ _ HP x Hx) as [H|H]; [left; exact H|right].
    cbn [st1 pop_state add_ev set_graph bg] in H. apply pop_nodes in H. tauto.
Qed.

End Pop.

(* ---------------------------------------------------------------- the stack of the `while let Some(..) = pop()` loop *)
Definition SI (stack : list Z) (st : bst) : Prop :=
  NoDup stack /\ forall a, In a stack -> a <> root /\
    ((In a (Nd (bg st)) /\ forall d, In (a, d) (Ed (bg st)) -> In d stack) \/
     (~ In a (Nd (bg st)) /\ In a (breg st))).

Lemma SI_ready_exists : forall stack st, WF st -> SI stack st -> stack <> [] ->
  existsb (readyb (bg st)) stack = true.
Proof.
  intros stack st Hwf [Hnd Hall] Hne.
  destruct (minimal_exists (Ed (bg st)) stack (wf_acyc _ Hwf) Hne) as [m [Hm Hmin]].
  apply existsb_exists. exists m. split; [exact Hm|].
  destruct (Hall m Hm) as [_ [[Hnode Hdeps]|[Hnn _]]].
  - apply (readyb_spec _ m (wf_inv _ Hwf)). intros d Hd. apply (Hmin d (Hdeps d Hd)). apply reach_edge. exact Hd.
  - unfold readyb. destruct (find_node (nodes (bg st)) m) eqn:Hf; [|reflexivity]. exfalso. apply Hnn.
    apply find_node_In. rewrite Hf. discriminate.
Qed.

Lemma SI_rotate : forall a rest st, SI (a :: rest) st -> SI (rest ++ [a]) st.
Proof.
  intros a rest st [Hnd Hall]. split.
  - inversion Hnd; subst. apply NoDup_snoc; assumption.
  - intros b Hb. assert (Hb' : In b (a :: rest)).
    { apply in_app_or in Hb. destruct Hb as [Hb|[<-|[]]]; [right; exact Hb|left; reflexivity]. }
    destruct (Hall b Hb') as [Hr [[Hn Hd]|H]]; split; try exact Hr; [left|right; exact H].
    split; [exact Hn|]. intros d He. specialize (Hd d He). apply in_or_app. destruct Hd as [<-|Hd]; [right; left; reflexivity|left; exact Hd].
Qed.

Lemma SI_tail : forall a rest st st2, SI (a :: rest) st -> Post st st2 -> ~ In a (Nd (bg st2)) -> SI rest st2.
Proof.
  intros a rest st st2 [Hnd Hall] HP Hna. inversion Hnd as [|x l Hnin Hnd']; subst. split; [exact Hnd'|].
  intros b Hb. destruct (Hall b (or_intror Hb)) as [Hr [[Hn Hd]|[Hnn Hreg]]]; split; try exact Hr.
  - destruct (in_dec Z.eq_dec b (Nd (bg st2))) as [Hin|Hnin2].
    + left. split; [exact Hin|]. intros d He. pose proof (wf_closed _ (p_wf _ _ HP) b d He) as Hdn.
      apply (p_edges _ _ HP) in He. destruct (Hd d He) as [<-|Hdr]; [contradiction|exact Hdr].
    + right. split; [exact Hnin2|]. apply (p_removed _ _ HP); assumption.
  - right. split; [intros H; apply Hnn; apply (p_nodes _ _ HP); exact H|apply (p_reg _ _ HP); exact Hreg].
Qed.

Lemma loop_nil : forall f path st, loop (S f) path [] st = Ok st.
Proof. reflexivity. Qed.

Lemma loop_cons : forall f path a rest st,
  loop (S f) path (a :: rest) st =
    (do par <- parents (bg st) a;
     if match par with None => true | Some l => is_nil l end then
       do g' <- remove (bg st) a;
       let st := add_ev (set_graph st g') (EvPop a) in
       if memz a (basts st) then loop f path rest (start (del_ast st a) a)
       else if memz a (breg st) then loop f path rest (add_ev st (EvWait a))
       else match inl_get (binl st) a with
            | Some inliner => do st' <- deps f inliner st; loop f path rest (add_ev (add_reg st' a) (EvMark a))
            | None => Panic
            end
     else loop f path (rest ++ [a]) st).
Proof. reflexivity. Qed.

Lemma deps_S : forall f path st,
  deps (S f) path st =
    (do anc0 <- ancestors (bg st) path;
     let po := pick_order (bord st) anc0 in
     let st := add_ev (set_ords st (snd po)) (EvEnter path (fst po)) in
     do st' <- loop f path (rev (fst po)) st;
     Ok (add_ev st' (EvLeave path))).
Proof. reflexivity. Qed.

Definition nneed (n : nat) : nat := match n with O => O | S k => deps_bound k end.

Lemma nodes_le : forall st st', Post st st' -> (length (nodes (bg st')) <= length (nodes (bg st)))%nat.
Proof.
  intros st st' HP. rewrite <- (map_length nid (nodes (bg st'))), <- (map_length nid (nodes (bg st))).
  apply NoDup_incl_length; [exact (proj1 (wf_inv _ (p_wf _ _ HP)))|]. intros x Hx. apply (p_nodes _ _ HP). exact Hx.
Qed.

Section Loop.
Variable n : nat.
Hypothesis Hnest : forall st path f, WF st -> (length (nodes (bg st)) < n)%nat -> (nneed n <= f)%nat ->
  exists st', deps f path st = Ok st' /\ Post st st'.

Lemma loop_ok : forall len stack st f path, length stack = len -> WF st ->
  (length (nodes (bg st)) <= n)%nat -> SI stack st -> (loop_bound len + nneed n <= f)%nat ->
  exists st', loop f path stack st = Ok st' /\ Post st st' /\ (forall a, In a stack -> In a (breg st')).
Proof.
  induction len as [|l IHl]; intros stack st f path Hlen Hwf Hn HSI Hf.
  - destruct stack; [|discriminate]. destruct f as [|f]; [unfold loop_bound in Hf; lia|].
    rewrite loop_nil. exists st. split; [reflexivity|]. split; [apply Post_refl; exact Hwf|]. intros a [].
  - assert (Hne : stack <> []) by (intros ->; discriminate).
    destruct (first_true _ _ _ (SI_ready_exists stack st Hwf HSI Hne)) as [pre [a [post [-> [Hpre Ha]]]]].
    assert (Hplen : (length pre <= l)%nat) by (rewrite app_length in Hlen; cbn [length] in Hlen; lia).
    assert (Hf' : (length pre + 1 + loop_bound l + nneed n <= f)%nat) by (unfold loop_bound in *; nia).
    clear Hf Hne. revert post f Hlen HSI Hf'.
    induction pre as [|b pre IHpre]; intros post f Hlen HSI Hf.
    + cbn [app] in *. destruct f as [|f]; [lia|]. cbn [length] in Hf.
      rewrite loop_cons. destruct (parents_ready (bg st) a (wf_inv _ Hwf)) as [par [Hpar Hrb]].
      rewrite Hpar. cbn [bind]. rewrite Hrb, Ha.
      destruct (remove_total (bg st) a (wf_inv _ Hwf)) as [g' Hrem]. rewrite Hrem. cbn [bind].
      cbv zeta. cbn [add_ev set_graph basts breg binl].
      (* the state after handling [a], in each of the three arms *)
      assert (Hstep : exists st2, Post st st2 /\ In a (breg st2) /\ ~ In a (Nd (bg st2)) /\
                (if memz a (basts st) then loop f path post (start (del_ast (add_ev (set_graph st g') (EvPop a)) a) a)
                 else if memz a (breg st) then loop f path post (add_ev (add_ev (set_graph st g') (EvPop a)) (EvWait a))
                 else match inl_get (binl st) a with
                      | Some inliner => do st' <- deps f inliner (add_ev (set_graph st g') (EvPop a));
                                        loop f path post (add_ev (add_reg st' a) (EvMark a))
                      | None => Panic
                      end) = loop f path post st2).
      { destruct (memz a (basts st)) eqn:Hast.
        - apply memz_In in Hast. destruct (pop_start st a g' Hwf Hrem Ha Hast) as [Heq HP].
          exists (start (del_ast (pop_state st g' a) a) a). split; [exact HP|]. split; [|split; [|reflexivity]].
          + rewrite Heq. cbn [add_ev add_reg breg]. apply in_set_insert. left. reflexivity.
          + rewrite Heq. cbn [add_ev add_reg del_ast pop_state set_graph bg]. intros H.
            apply (pop_nodes st a g' Hwf Hrem) in H. tauto.
        - apply memz_false in Hast. destruct (memz a (breg st)) eqn:Hreg.
          + apply memz_In in Hreg. exists (add_ev (pop_state st g' a) (EvWait a)).
            split; [apply pop_wait; assumption|]. split; [exact Hreg|]. split; [|reflexivity].
            cbn [add_ev pop_state set_graph bg]. intros H. apply (pop_nodes st a g' Hwf Hrem) in H. tauto.
          + apply memz_false in Hreg.
            destruct HSI as [HSnd HSall]. destruct (HSall a (or_introl eq_refl)) as [Har [[Hnode _]|[_ Hr]]]; [|contradiction].
            destruct (wf_class _ Hwf a Hnode Har) as [H|[H|H]]; [contradiction| |contradiction].
            unfold inl_mem in H. destruct (inl_get (binl st) a) as [q|] eqn:Hq; [|discriminate].
            destruct (pop_inline st a g' Hwf Hrem Hnode Hast Hreg) as [W1 [N1 [R1 L1]]].
            destruct (Hnest (pop_state st g' a) q f W1) as [st'' [Hd HP'']]; [lia|lia|].
            exists (add_ev (add_reg st'' a) (EvMark a)).
            split; [eapply pop_post1; eassumption|]. split; [|split].
            * cbn [add_ev add_reg breg]. apply in_set_insert. left. reflexivity.
            * cbn [add_ev add_reg bg]. intros H'. apply N1. apply (p_nodes _ _ HP''). exact H'.
            * unfold pop_state in Hd. rewrite Hd. reflexivity. }
      destruct Hstep as [st2 [HP2 [Hreg2 [Hnn2 Heq]]]]. rewrite Heq.
      assert (Hlen' : length post = l) by (cbn [length] in Hlen; lia).
      destruct (IHl post st2 f path Hlen' (p_wf _ _ HP2)) as [st' [Hl [HP' Hall]]].
      * pose proof (nodes_le _ _ HP2). lia.
      * eapply SI_tail; eassumption.
      * lia.
      * exists st'. split; [exact Hl|]. split; [eapply Post_trans; eassumption|].
        intros x [<-|Hx]; [apply (p_reg _ _ HP'); exact Hreg2|apply Hall; exact Hx].
    + cbn [forallb] in Hpre. apply andb_true_iff in Hpre. destruct Hpre as [Hb Hpre]. apply negb_true_iff in Hb.
      destruct f as [|f]; [cbn [length] in Hf; lia|]. cbn [app].
      rewrite loop_cons. destruct (parents_ready (bg st) b (wf_inv _ Hwf)) as [par [Hpar Hrb]].
      rewrite Hpar. cbn [bind]. rewrite Hrb, Hb. rewrite <- app_assoc. cbn [app].
      destruct (IHpre Hpre ltac:(cbn [length] in Hplen; lia) (post ++ [b]) f) as [st' [Hl [HP' Hall]]].
      * rewrite !app_length in *. cbn [length] in *. rewrite app_length. cbn [length]. lia.
      * apply SI_rotate in HSI. rewrite <- app_assoc in HSI. exact HSI.
      * cbn [length] in Hf. lia.
      * exists st'. split; [exact Hl|]. split; [exact HP'|]. intros x Hx. apply Hall.
        cbn [app] in Hx. destruct Hx as [<-|Hx].
        -- apply in_or_app. right. right. apply in_or_app. right. left. reflexivity.
        -- apply in_app_or in Hx. apply in_or_app. destruct Hx as [Hx|[<-|Hx]]; [left; exact Hx|right; left; reflexivity|].
           right. right. apply in_or_app. left. exact Hx.
Qed.
End Loop.

Lemma Post_set_ords : forall st o, WF st -> Post st (set_ords st o).
Proof.
  intros st o H. constructor; cbn [set_ords bg basts binl breg bev]; auto.
  - apply WF_set_ords. exact H.
  - intros x H1 H2. contradiction.
Qed.

Lemma same_members_spec : forall o l, same_members o l = true ->
  (forall x, In x o <-> In x l) /\ length o = length l.
Proof.
  intros o l H. unfold same_members in H. apply andb_true_iff in H. destruct H as [H H3].
  apply andb_true_iff in H. destruct H as [H1 H2]. rewrite forallb_forall in H1, H2. apply Nat.eqb_eq in H3.
  split; [|exact H3]. intros x. split; intros Hx; apply memz_In; auto.
Qed.

Lemma pick_order_spec : forall ords anc, NoDup anc ->
  NoDup (fst (pick_order ords anc)) /\ (forall x, In x (fst (pick_order ords anc)) <-> In x anc) /\
  length (fst (pick_order ords anc)) = length anc.
Proof.
  intros ords anc Hnd. unfold pick_order. destruct ords as [|o rest]; [cbn; tauto|].
  destruct (same_members o anc) eqn:Hs; [|cbn; tauto]. cbn [fst].
  destruct (same_members_spec _ _ Hs) as [Hm Hl]. split; [|split; [exact Hm|exact Hl]].
  apply (NoDup_incl_NoDup (l := anc)); [exact Hnd|lia|]. intros x Hx. apply Hm. exact Hx.
Qed.

Lemma loop_bound_mono : forall a b, (a <= b)%nat -> (loop_bound a <= loop_bound b)%nat.
Proof. intros a b H. unfold loop_bound. nia. Qed.

Lemma deps_bound_S : forall k, deps_bound (S k) = (S (S (loop_bound (S k))) + deps_bound k)%nat.
Proof. reflexivity. Qed.

(** build_deps_and_module terminates without panic within [deps_bound n] steps on a well-formed state whose
    graph has at most n nodes; afterwards every ancestor of [path] is registered *)
Lemma deps_ok : forall n st path f, WF st -> (length (nodes (bg st)) <= n)%nat -> (deps_bound n <= f)%nat ->
  exists st', deps f path st = Ok st' /\ Post st st' /\
    (forall anc0 a, ancestors (bg st) path = Ok anc0 -> In a anc0 -> In a (breg st')).
Proof.
  induction n as [|k IHk]; intros st path f Hwf Hn Hf.
  - destruct f as [|f]; [cbn in Hf; lia|]. rewrite deps_S.
    destruct (ancestors_spec (bg st) (wf_inv _ Hwf) path) as [anc0 [Hanc [Hnd [Hdir [Hcl Htgt]]]]].
    rewrite Hanc. cbn [bind]. cbv zeta.
    destruct (pick_order_spec (bord st) anc0 Hnd) as [Pnd [Pm Pl]].
    set (po := pick_order (bord st) anc0) in *.
    set (st1 := add_ev (set_ords st (snd po)) (EvEnter path (fst po))).
    assert (HP1 : Post st st1) by (apply Post_neutral; [exact I|apply Post_set_ords; exact Hwf]).
    assert (Hnil : anc0 = []).
    { destruct anc0 as [|y r]; [reflexivity|]. exfalso. destruct (Htgt y (or_introl eq_refl)) as [x Hx].
      pose proof (wf_closed _ Hwf x y Hx) as Hy. unfold Nd in Hy. destruct (nodes (bg st)); [contradiction|cbn in Hn; lia]. }
    assert (Hfst : fst po = []) by (subst anc0; destruct (fst po); [reflexivity|cbn in Pl; discriminate]).
    rewrite Hfst. cbn [rev]. destruct f as [|f]; [cbn in Hf; lia|]. rewrite loop_nil. cbn [bind].
    eexists. split; [reflexivity|]. split.
    + apply Post_neutral; [exact I|exact HP1].
    + intros anc a Ha. inversion Ha; subst. intros [].
  - destruct f as [|f]; [rewrite deps_bound_S in Hf; lia|]. rewrite deps_S.
    destruct (ancestors_spec (bg st) (wf_inv _ Hwf) path) as [anc0 [Hanc [Hnd [Hdir [Hcl Htgt]]]]].
    rewrite Hanc. cbn [bind]. cbv zeta.
    destruct (pick_order_spec (bord st) anc0 Hnd) as [Pnd [Pm Pl]].
    set (po := pick_order (bord st) anc0) in *.
    set (st1 := add_ev (set_ords st (snd po)) (EvEnter path (fst po))).
    assert (HP1 : Post st st1) by (apply Post_neutral; [exact I|apply Post_set_ords; exact Hwf]).
    assert (Hnodes : forall y, In y anc0 -> In y (Nd (bg st)) /\ y <> root).
    { intros y Hy. destruct (Htgt y Hy) as [x Hx]. split; [eapply wf_closed; eassumption|].
      intros ->. exact (wf_root _ Hwf x Hx). }
    assert (Hlen : (length anc0 <= S k)%nat).
    { transitivity (length (Nd (bg st))); [|unfold Nd; rewrite map_length; exact Hn].
      apply NoDup_incl_length; [exact Hnd|]. intros y Hy. apply Hnodes. exact Hy. }
    assert (HSI : SI (rev (fst po)) st1).
    { split; [apply NoDup_rev; exact Pnd|]. intros a Ha. apply in_rev in Ha. apply Pm in Ha.
      destruct (Hnodes a Ha) as [Hnode Hr]. split; [exact Hr|]. left. split; [exact Hnode|].
      intros d Hd. rewrite <- in_rev. apply Pm. eapply Hcl; eassumption. }
    assert (Hnest : forall st0 path0 f0, WF st0 -> (length (nodes (bg st0)) < S k)%nat -> (nneed (S k) <= f0)%nat ->
              exists st', deps f0 path0 st0 = Ok st' /\ Post st0 st').
    { intros st0 path0 f0 W0 L0 F0. destruct (IHk st0 path0 f0 W0) as [s' [H1 [H2 _]]]; [lia|exact F0|].
      exists s'. split; assumption. }
    destruct (loop_ok (S k) Hnest (length (rev (fst po))) (rev (fst po)) st1 f path eq_refl (p_wf _ _ HP1))
      as [st' [Hl [HP' Hall]]].
    + exact Hn.
    + exact HSI.
    + rewrite rev_length, Pl. rewrite deps_bound_S in Hf. pose proof (loop_bound_mono _ _ Hlen). cbn [nneed]. lia.
    + rewrite Hl. cbn [bind]. eexists. split; [reflexivity|]. split.
      * apply Post_neutral; [exact I|]. eapply Post_trans; eassumption.
      * intros anc a Ha Hin. inversion Ha; subst anc. cbn [add_ev breg].
        apply Hall. rewrite <- in_rev. apply Pm. exact Hin.
Qed.

End Deps.
