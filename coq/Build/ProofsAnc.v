(** C20 — what ModuleGraph::ancestors computes (needed by the proofs about build_deps_and_module):
    a duplicate-free list that contains the direct dependencies of the start node and is closed under
    dependency edges; hence it contains everything reachable. *)
From Coq Require Import ZArith List Bool Arith Lia.
From ErgV Require Import Graph.Model Graph.Spec Graph.ProofsReach Graph.Proofs.
Import ListNotations.
Open Scope Z_scope.

Section Anc.
Variable g : graph.
Hypothesis Hinv : index_inv g.
Let EE := edges_of (nodes g).

Definition apost (anc vis anc' vis' : list Z) : Prop :=
  incl anc anc' /\ incl vis vis' /\ (NoDup anc -> NoDup anc') /\
  (forall x, In x vis' -> ~ In x vis -> forall d, In (x, d) EE -> In d anc') /\
  (forall y, In y anc' -> ~ In y anc -> In y vis') /\
  (forall y, In y anc' -> ~ In y anc -> exists x, In (x, y) EE).

Lemma apost_refl : forall anc vis, apost anc vis anc vis.
Proof.
  intros anc vis. split; [apply incl_refl|]. split; [apply incl_refl|]. split; [auto|].
  split; [intros x H1 H2; contradiction|]. split; intros y H1 H2; contradiction.
Qed.

Lemma each_spec : forall f,
  (forall p anc vis, (cnt g vis < f)%nat ->
     exists anc' vis', ancestors_ f g p anc vis = Ok (anc', vis') /\ apost anc vis anc' vis' /\ In p vis') ->
  forall src ps anc vis, (cnt g vis < f)%nat -> (forall q, In q ps -> In (src, q) EE) ->
    exists anc' vis', anc_each f g ps anc vis = Ok (anc', vis') /\ apost anc vis anc' vis' /\
                      (forall q, In q ps -> In q anc').
Proof.
  intros f IHf src. induction ps as [|q ps IHps]; intros anc vis Hc Hsrc.
  - exists anc, vis. split; [reflexivity|]. split; [apply apost_refl|]. intros q [].
  - rewrite anc_each_cons. destruct (memz q anc) eqn:Hq.
    + assert (Hsrc' : forall q0, In q0 ps -> In (src, q0) EE) by (intros q0 H0; apply Hsrc; right; exact H0).
      destruct (IHps anc vis Hc Hsrc') as [a' [v' [H [Hp Hall]]]]. exists a', v'. split; [exact H|]. split; [exact Hp|].
      intros q0 [<-|Hq0]; [|apply Hall; exact Hq0]. destruct Hp as [Hi _]. apply Hi. apply memz_In. exact Hq.
    + apply memz_false in Hq.
      destruct (IHf q (anc ++ [q]) vis Hc) as [a2 [v2 [H2 [[Hi2 [Hv2 [Hn2 [Hc2 [Hy2 Hs2]]]]] Hq2]]]].
      rewrite H2. cbn [bind fst snd].
      assert (Hcnt : (cnt g v2 < f)%nat) by (pose proof (cnt_mono g vis v2 Hv2); lia).
      assert (Hsrc' : forall q0, In q0 ps -> In (src, q0) EE) by (intros q0 H0; apply Hsrc; right; exact H0).
      destruct (IHps a2 v2 Hcnt Hsrc') as [a3 [v3 [H3 [[Hi3 [Hv3 [Hn3 [Hc3 [Hy3 Hs3]]]]] Hall]]]].
      exists a3, v3. split; [exact H3|]. split.
      * split; [intros x Hx; apply Hi3, Hi2, in_or_app; left; exact Hx|].
        split; [eapply incl_tran; eassumption|].
        split; [intros Hnd; apply Hn3, Hn2; apply NoDup_snoc; assumption|].
        split; [|split].
        -- intros x Hx Hnx d Hd. destruct (in_dec Z.eq_dec x v2) as [Hin|Hnin].
           ++ apply Hi3. eapply Hc2; eassumption.
           ++ eapply Hc3; eassumption.
        -- intros y Hy Hny. destruct (in_dec Z.eq_dec y a2) as [Hin|Hnin].
           ++ destruct (in_dec Z.eq_dec y (anc ++ [q])) as [Hin2|Hnin2].
              ** apply in_app_or in Hin2. destruct Hin2 as [Ha|[<-|[]]]; [contradiction|]. apply Hv3. exact Hq2.
              ** apply Hv3. apply Hy2; assumption.
           ++ apply Hy3; assumption.
        -- intros y Hy Hny. destruct (in_dec Z.eq_dec y a2) as [Hin|Hnin].
           ++ destruct (in_dec Z.eq_dec y (anc ++ [q])) as [Hin2|Hnin2].
              ** apply in_app_or in Hin2. destruct Hin2 as [Ha|[<-|[]]]; [contradiction|].
                 exists src. apply Hsrc. left. reflexivity.
              ** apply Hs2; assumption.
           ++ apply Hs3; assumption.
      * intros q0 [<-|Hq0]; [|apply Hall; exact Hq0]. apply Hi3, Hi2, in_or_app. right. left. reflexivity.
Qed.

Lemma anc_spec : forall f p anc vis, (cnt g vis < f)%nat ->
  exists anc' vis', ancestors_ f g p anc vis = Ok (anc', vis') /\ apost anc vis anc' vis' /\ In p vis'.
Proof.
  induction f as [|f IHf]; intros p anc vis Hc; [lia|].
  rewrite anc_unfold. destruct (memz p vis) eqn:Hpv.
  - exists anc, vis. split; [reflexivity|]. split; [apply apost_refl|apply memz_In; exact Hpv].
  - apply memz_false in Hpv. rewrite (get_node_spec g p Hinv). cbn [bind].
    destruct (find_node (nodes g) p) as [n|] eqn:Hf.
    + assert (Hpin : In p (map nid (nodes g))).
      { apply find_node_Some in Hf. destruct Hf as [Hn Hid]. rewrite <- Hid. apply in_map. exact Hn. }
      assert (Hc' : (cnt g (p :: vis) < f)%nat) by (pose proof (cnt_cons g p vis Hpin Hpv); lia).
      assert (Hsrc : forall q, In q (ndeps n) -> In (p, q) EE).
      { intros q Hq. apply (edges_found _ _ _ _ (proj1 Hinv) Hf). exact Hq. }
      destruct (each_spec f IHf p (ndeps n) anc (p :: vis) Hc' Hsrc) as [a' [v' [H [[Hi [Hv [Hn [Hcl [Hy Hs]]]]] Hall]]]].
      exists a', v'. split; [exact H|]. split.
      * split; [exact Hi|]. split; [intros x Hx; apply Hv; right; exact Hx|]. split; [exact Hn|]. split; [|split].
        -- intros x Hx Hnx d Hd. destruct (Z.eq_dec x p) as [->|Hxp].
           ++ apply Hall. apply (edges_found _ _ _ _ (proj1 Hinv) Hf). exact Hd.
           ++ eapply Hcl; [exact Hx| |exact Hd]. intros [Hh|Hh]; [apply Hxp; symmetry; exact Hh|contradiction].
        -- exact Hy.
        -- exact Hs.
      * apply Hv. left. reflexivity.
    + exists anc, (p :: vis). split; [reflexivity|]. split.
      * split; [apply incl_refl|]. split; [apply incl_tl, incl_refl|]. split; [auto|]. split; [|split].
        -- intros x [Hx|Hx] Hnx d Hd; [subst x|contradiction]. exfalso. eapply edges_notfound; eassumption.
        -- intros y H1 H2. contradiction.
        -- intros y H1 H2. contradiction.
      * left. reflexivity.
Qed.

(** the answer of [ancestors]: duplicate-free, contains the direct dependencies of [p], closed under edges,
    every member is the target of an edge *)
Lemma ancestors_spec : forall p, exists l, ancestors g p = Ok l /\ NoDup l /\
  (forall d, In (p, d) EE -> In d l) /\ (forall x d, In x l -> In (x, d) EE -> In d l) /\
  (forall y, In y l -> exists x, In (x, y) EE).
Proof.
  intros p. unfold ancestors.
  assert (Hc : (cnt g [] < fuel_of g)%nat) by (unfold fuel_of; pose proof (cnt_le g []); lia).
  destruct (anc_spec (fuel_of g) p [] [] Hc) as [a [v [H [[Hi [Hv [Hn [Hcl [Hy Hs]]]]] Hp]]]].
  rewrite H. cbn [bind fst]. exists a. split; [reflexivity|]. split; [apply Hn; constructor|]. split; [|split].
  - intros d Hd. eapply Hcl; [exact Hp|intros []|exact Hd].
  - intros x d Hx Hd. eapply Hcl; [apply Hy; [exact Hx|intros []]|intros []|exact Hd].
  - intros y Hyin. apply Hs; [exact Hyin|intros []].
Qed.

Lemma closed_reach_in : forall (l : list Z), (forall x d, In x l -> In (x, d) EE -> In d l) ->
  forall x z, reach EE x z -> In x l -> In z l.
Proof.
  intros l Hc x z Hr. induction Hr as [a b He|a c b He Hr IH]; intros Hin.
  - eapply Hc; eassumption.
  - apply IH. eapply Hc; eassumption.
Qed.

Lemma ancestors_complete : forall p l, ancestors g p = Ok l -> forall y, reach EE p y -> In y l.
Proof.
  intros p l Hl. destruct (ancestors_spec p) as [l' [H' [_ [Hd [Hc _]]]]]. rewrite Hl in H'. inversion H'; subst l'.
  intros y Hr. destruct (reach_first _ _ _ Hr) as [c [He [->|Hr']]].
  - apply Hd. exact He.
  - eapply closed_reach_in; [exact Hc|exact Hr'|apply Hd; exact He].
Qed.

End Anc.
