(** extraction entry point for the C20 / C19 correspondence checks and judges *)
(* built before extraction (lib/vplib.py Model reads these names): ErgV.Common.Sx ErgV.Graph.Model ErgV.Graph.Spec
   ErgV.Build.Model ErgV.Build.Spec *)
From Coq Require Import ZArith List Bool Arith.
From ErgV Require Import Common.Sx Graph.Model Graph.Spec Build.Model Build.Spec.
Import ListNotations.
Open Scope Z_scope.

Definition enc_res {A} (f : A -> sx) (r : res A) : sx :=
  match r with Ok a => f a | Panic => SZ (-999) | Fuel => SZ (-998) end.
Definition enc_pairs (l : list (Z * Z)) : sx := SL (map (fun e => SL [SZ (fst e); SZ (snd e)]) l).
Definition dec_pairs (x : sx) : list (Z * Z) := map (fun e => (sx_z (sx_nth e 0), sx_z (sx_nth e 1))) (sx_l x).
Definition enc_node (n : node) : sx := SL [SZ (nid n); sx_of_zs (ndeps n)].

Definition dec_project (x : sx) : project := map (fun e => (sx_z (sx_nth e 0), sx_zs (sx_nth e 1))) (sx_l x).
Definition dec_ords (x : sx) : list (list Z) := map sx_zs (sx_l x).

(** the graph snapshot printed by the hook: nodes in vector order with their dependency sets in iteration order *)
Definition dec_graph (x : sx) : graph :=
  let ns := map (fun n => {| nid := sx_z (sx_nth n 0); ndeps := sx_zs (sx_nth n 1) |}) (sx_l x) in
  {| nodes := ns; index := rebuild_index ns |}.

Definition enc_event (e : bevent) : sx :=
  match e with
  | EvEnter p anc => SL [SZ 0; SZ p; sx_of_zs anc]
  | EvPop a => SL [SZ 1; SZ a]
  | EvStart a => SL [SZ 2; SZ a]
  | EvSkip a => SL [SZ 3; SZ a]
  | EvWait a => SL [SZ 4; SZ a]
  | EvMark a => SL [SZ 5; SZ a]
  | EvLeave p => SL [SZ 6; SZ p]
  end.
Definition enc_action (a : action) : sx :=
  match a with AStart p => SL [SZ 0; SZ p] | AMark p => SL [SZ 1; SZ p] | AWaitFin p => SL [SZ 2; SZ p] end.
Definition dec_action (x : sx) : action :=
  let k := sx_z (sx_nth x 0) in let p := sx_z (sx_nth x 1) in
  if k =? 0 then AStart p else if k =? 1 then AMark p else AWaitFin p.

Definition dec_label (x : sx) : olabel :=
  let k := sx_z (sx_nth x 0) in let a := sx_z (sx_nth x 1) in let b := sx_z (sx_nth x 2) in
  let d := sx_z (sx_nth x 3) in
  ((if k =? 0 then LStart a else if k =? 1 then LMark a else if k =? 2 then LWaitFin a else if k =? 3 then LDone
    else if k =? 4 then LJoin a b else if k =? 5 then LWake a else if k =? 6 then LInline a b else LFinish a), d).

Definition enc_bst (st : bst) : sx :=
  SL [SL (map enc_event (bev st)); SL (map enc_action (script_of (bev st))); sx_of_zs (breg st)].

(** has the graph a cycle / an edge into the root (hypotheses of no_deadlock, checked on the observed graph) *)
Definition acyclicb (E : list (Z * Z)) : bool := negb (has_cycle {| V := []; E := E |}).
Definition no_edge_into (E : list (Z * Z)) (root : Z) : bool := forallb (fun e => negb (Z.eqb (snd e) root)) E.

(** modes:
    (0 root project ords backvar) -> resolution + execute on the model's own graph:
        (code (nodes) (inlines) (asts) (refused) (cyclic) wf (events script registered | code) K1 K2 Known_C20 Known_C19 (reachable))
    (1 root nodes inlines asts ords) -> execute from the observed snapshot: (wf acyclic (events script registered | code))
    (2 root edges inlines script labels) -> replay of the observed trace through the transition system:
        (first_bad_label all_fin script_ok good_script acyclic no_edge_into_root can_step_at_end)
    (3 mods analysed markers terminated compiled values_ok) -> judge_C20
    (4 pyc_equal diags_equal) -> judge_C19 *)
Definition run (x : sx) : sx :=
  let mode := sx_z (sx_nth x 0) in
  if mode =? 0 then
    let root := sx_z (sx_nth x 1) in
    let P := dec_project (sx_nth x 2) in
    let ords := dec_ords (sx_nth x 3) in
    let backvar := sx_to_bool (sx_nth x 4) in
    match resolve_root (resolve_fuel P) P root with
    | Ok r =>
      SL [SZ 0; SL (map enc_node (nodes (rg r))); enc_pairs (rinl r); sx_of_zs (rasts r); enc_pairs (rref r);
          sx_of_zs (rcyc r); sx_bool (wf_resb r root);
          enc_res enc_bst (execute r root ords);
          sx_bool (known_entry_cycle P root); sx_bool (known_shared_inlined r);
          sx_bool (Known_C20 P root backvar); sx_bool (Known_C19 P root); sx_of_zs (reachable_mods P root)]
    | Panic => SL [SZ (-999); sx_bool (known_entry_cycle P root); sx_of_zs (reachable_mods P root)]
    | Fuel => SL [SZ (-998); sx_bool (known_entry_cycle P root); sx_of_zs (reachable_mods P root)]
    end
  else if mode =? 1 then
    let root := sx_z (sx_nth x 1) in
    let g := dec_graph (sx_nth x 2) in
    let r := {| rg := g; rinl := dec_pairs (sx_nth x 3); rasts := sx_zs (sx_nth x 4); rcyc := []; rlog := []; rref := [] |} in
    SL [sx_bool (wf_resb r root); sx_bool (acyclicb (edges_of (nodes g)));
        enc_res enc_bst (execute r root (dec_ords (sx_nth x 5)))]
  else if mode =? 2 then
    let root := sx_z (sx_nth x 1) in
    let E := dec_pairs (sx_nth x 2) in
    let inl := dec_pairs (sx_nth x 3) in
    let sc := map dec_action (sx_l (sx_nth x 4)) in
    let ls := map dec_label (sx_l (sx_nth x 5)) in
    let r := replay E inl (linit root sc) ls 0 in
    SL [SZ (fst r); sx_bool (all_fin (snd r)); sx_bool (script_okb root [root] sc); sx_bool (good_script E inl root sc);
        sx_bool (acyclicb E); sx_bool (no_edge_into E root);
        sx_bool (can_step E inl (fun _ _ => 0) (snd r))]
  else if mode =? 3 then
    sx_bool (judge_C20 (sx_zs (sx_nth x 1)) (sx_zs (sx_nth x 2)) (sx_zs (sx_nth x 3))
                       (sx_to_bool (sx_nth x 4)) (sx_to_bool (sx_nth x 5)) (sx_to_bool (sx_nth x 6)))
  else sx_bool (judge_C19 (sx_to_bool (sx_nth x 1)) (sx_to_bool (sx_nth x 2))).

Require Extraction.
Require Import ExtrOcamlBasic.
Extraction Language OCaml.
Extraction "model.ml" run.
