(** C19 — property theorems (statements only; proofs are in ProofsConf.v / Proofs.v).
    "Compilation output is deterministic and schedule-independent."
    Proved on the transition system of Build/Model.v part C, with the result of analysing a module an arbitrary
    pure function [F] of the module and of the results of the modules it imports (its diagnostics are part of the
    result).  Not modelled, hence not proved: data races inside Shared<T>, the iteration order of FxHash
    collections (assumed deterministic: no random seed), code generation (C01).  The byte-level statement is
    decided by [judge_C19] on real builds under varied thread timing (checks/c19.py). *)
From Coq Require Import ZArith List Bool.
From ErgV Require Import Graph.Model Graph.Spec.
From ErgV Require Import Build.Model Build.Spec Build.ProofsConf Build.Proofs.
Import ListNotations.
Open Scope Z_scope.

(** 1. confluence.  Let the main thread's script be good: enabled step by step, every module started after the
    modules it imports are registered, inlined modules imported by their inliner only, the entry not inlined
    ([good_script], evaluated on every observed trace), and every import of the entry registered by the script.
    Then any two runs, whatever the interleaving of the threads, agree on the result of every module for which both
    have one; and two complete runs have the same result for every module that has its own analysis (so the same
    result map and the same multiset of diagnostics). *)
Theorem confluence : forall E inl F root sc ls1 ls2 s1 s2, good_script E inl root sc = true ->
  (forall d, In (root, d) E -> In d (acts sc)) ->
  lrun E inl F (linit root sc) ls1 = Some s1 -> lrun E inl F (linit root sc) ls2 = Some s2 ->
  (forall m r1 r2, sget (lres s1) m = Some r1 -> sget (lres s2) m = Some r2 -> r1 = r2) /\
  (all_fin s1 = true -> all_fin s2 = true -> forall m, inl_mem m inl = false -> sget (lres s1) m = sget (lres s2) m).
Proof. exact confluence_run. Qed.

(** 2. parallel_equals_sequential.  A complete run in which every started analysis runs to its end before the
    main thread continues (the build without the `parallel` feature) and any complete parallel run give the same
    results. *)
Theorem parallel_equals_sequential : forall E inl F root sc ls_par ls_seq s_par s_seq,
  good_script E inl root sc = true -> (forall d, In (root, d) E -> In d (acts sc)) ->
  sequentialb None ls_seq = true ->
  lrun E inl F (linit root sc) ls_par = Some s_par -> lrun E inl F (linit root sc) ls_seq = Some s_seq ->
  all_fin s_par = true -> all_fin s_seq = true ->
  forall m, inl_mem m inl = false -> sget (lres s_par) m = sget (lres s_seq) m.
Proof. exact parallel_equals_sequential_l. Qed.

(** 3. the guard is needed (known finding, class [Known_C19] = K2): with an inlined module that has a second
    importer (0 -> 1, 3; 1 <-> 2; 3 -> 2: module 2 is inlined into 1 and marked as joined before it is analysed)
    two complete runs differ in the result of module 3: in the first, 3 reads module 2 before thread 1 has
    lowered it. *)
Definition k2_P : project := [(0, [1; 3]); (1, [2]); (2, [1]); (3, [2])].
Definition k2_r : rst := match resolve_root (resolve_fuel k2_P) k2_P 0 with Ok r => r | _ => rst0 end.
Definition k2_E : list (Z * Z) := edges_of (nodes (rg k2_r)).
Definition k2_F : Z -> list (Z * option result) -> result :=
  fun m ds => m + fold_right (fun d acc => match snd d with Some r => 10 * acc + r | None => -1000 end) 0 ds.
Definition k2_sc : list action := [AMark 2; AStart 1; AStart 3].
Definition k2_run1 : list label :=
  [LMark 2; LStart 1; LStart 3; LDone; LFinish 3; LInline 1 2; LFinish 1; LFinish 0].
Definition k2_run2 : list label :=
  [LMark 2; LStart 1; LStart 3; LDone; LInline 1 2; LFinish 3; LFinish 1; LFinish 0].

Theorem confluence_refuted :
  Known_C19 k2_P 0 = true /\ good_script k2_E (rinl k2_r) 0 k2_sc = false /\
  exists s1 s2, lrun k2_E (rinl k2_r) k2_F (linit 0 k2_sc) k2_run1 = Some s1 /\
                lrun k2_E (rinl k2_r) k2_F (linit 0 k2_sc) k2_run2 = Some s2 /\
                all_fin s1 = true /\ all_fin s2 = true /\ sget (lres s1) 3 <> sget (lres s2) 3.
Proof.
  split; [vm_compute; reflexivity|]. split; [vm_compute; reflexivity|].
  eexists. eexists. split; [vm_compute; reflexivity|]. split; [vm_compute; reflexivity|].
  split; [vm_compute; reflexivity|]. split; [vm_compute; reflexivity|]. vm_compute. discriminate.
Qed.

(* ------------------------------------------------------------------------------------------------ *)
(** non-vacuity: the diamond-with-a-cycle project of Props_C20 has a good script; a parallel and a sequential
    complete run exist and (by the theorems, and by computation) agree *)
Definition ex_P : project := [(0, [1; 2]); (1, [3]); (2, [3]); (3, [4]); (4, [3])].
Definition ex_r : rst := match resolve_root (resolve_fuel ex_P) ex_P 0 with Ok r => r | _ => rst0 end.
Definition ex_E : list (Z * Z) := edges_of (nodes (rg ex_r)).
Definition ex_sc : list action := [AMark 4; AStart 3; AStart 1; AStart 2].
Definition ex_par : list label :=
  [LMark 4; LStart 3; LStart 1; LJoin 1 3; LStart 2; LDone; LJoin 0 1; LInline 3 4; LFinish 3; LWake 1; LJoin 2 3;
   LWake 2; LFinish 1; LWake 0; LFinish 2; LJoin 0 2; LWake 0; LFinish 0].
Definition ex_seq : list label :=
  [LMark 4; LStart 3; LInline 3 4; LFinish 3; LStart 1; LJoin 1 3; LWake 1; LFinish 1; LStart 2; LJoin 2 3; LWake 2;
   LFinish 2; LDone; LJoin 0 1; LWake 0; LJoin 0 2; LWake 0; LFinish 0].

Example ex_good : good_script ex_E (rinl ex_r) 0 ex_sc = true /\ Known_C19 ex_P 0 = false /\
                  (forall d, In (0, d) ex_E -> In d (acts ex_sc)) /\ sequentialb None ex_seq = true /\
                  sequentialb None ex_par = false.
Proof.
  split; [vm_compute; reflexivity|]. split; [vm_compute; reflexivity|]. split; [|split; vm_compute; reflexivity].
  intros d Hd. vm_compute in Hd. vm_compute. intuition congruence.
Qed.

Example ex_runs : exists s1 s2, lrun ex_E (rinl ex_r) k2_F (linit 0 ex_sc) ex_par = Some s1 /\
                                lrun ex_E (rinl ex_r) k2_F (linit 0 ex_sc) ex_seq = Some s2 /\
                                all_fin s1 = true /\ all_fin s2 = true /\
                                map (sget (lres s1)) [0; 1; 2; 3; 4] = map (sget (lres s2)) [0; 1; 2; 3; 4] /\
                                sget (lres s1) 0 <> None.
Proof.
  eexists. eexists. split; [vm_compute; reflexivity|]. split; [vm_compute; reflexivity|].
  split; [vm_compute; reflexivity|]. split; [vm_compute; reflexivity|]. split; [vm_compute; reflexivity|].
  vm_compute. discriminate.
Qed.
