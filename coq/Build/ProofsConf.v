(** C19 — confluence of the analysis transition system: with module results as pure functions of the source and of
    the results of the imported modules, every run computes the same result for a module, whatever the schedule. *)
From Coq Require Import ZArith List Bool Arith Lia.
From ErgV Require Import Graph.Model Graph.Spec Graph.ProofsReach Graph.Proofs Build.Model Build.Spec Build.ProofsDeps Build.ProofsLts.
Import ListNotations.
Open Scope Z_scope.

(** modules registered by a script *)
Definition acts (sc : list action) : list Z :=
  flat_map (fun a => match a with AStart p | AMark p => [p] | AWaitFin _ => [] end) sc.

Lemma forallb_ext' : forall (A : Type) (f g : A -> bool) l, (forall x, f x = g x) -> forallb f l = forallb g l.
Proof. intros A f g l H. induction l as [|x r IH]; [reflexivity|]. cbn [forallb]. rewrite H, IH. reflexivity. Qed.

Lemma script_topob_ext : forall E inl sc d1 d2, (forall x, In x d1 <-> In x d2) ->
  script_topob E inl d1 sc = script_topob E inl d2 sc.
Proof.
  intros E inl. induction sc as [|a sc IH]; intros d1 d2 H; [reflexivity|].
  assert (Hm : forall x, memz x d1 = memz x d2).
  { intros x. apply bool_eq_iff. rewrite !memz_In. apply H. }
  assert (Hc : forall p x, In x (p :: d1) <-> In x (p :: d2)) by (intros p x; cbn [In]; rewrite H; tauto).
  assert (Hf : forall p, forallb (fun d => memz d d1) (lsuccs E p) = forallb (fun d => memz d d2) (lsuccs E p)).
  { intros p. apply forallb_ext'. intros d. apply Hm. }
  destruct a; cbn [script_topob]; rewrite ?Hf.
  - rewrite (IH (p :: d1) (p :: d2) (Hc p)). reflexivity.
  - rewrite (IH (p :: d1) (p :: d2) (Hc p)). reflexivity.
  - apply IH. exact H.
Qed.

Lemma hosted_of_get : forall inl p q, inl_get inl p = Some q -> In p (hosted inl q).
Proof.
  intros inl p q H. unfold hosted. induction inl as [|[k v] r IH]; [discriminate|]. cbn [inl_get] in H. cbn [filter snd].
  destruct (Z.eqb k p) eqn:Hk.
  - inversion H; subst v. apply Z.eqb_eq in Hk. subst k. rewrite Z.eqb_refl. left. reflexivity.
  - destruct (Z.eqb v q); [right|]; apply IH; exact H.
Qed.


Section Conf.
Variable E : list (Z * Z).
Variable inl : list (Z * Z).
Variable F : Z -> list (Z * option result) -> result.
Variable root : Z.
Variable sc0 : list action.

Notation step := (lstep E inl F).

Hypothesis Hok : script_okb root [root] sc0 = true.
Hypothesis Htopo : script_topob E inl [root] sc0 = true.
Hypothesis Hpriv : private_inlines E inl = true.
Hypothesis Hrooth : inl_mem root inl = false.
Hypothesis Hrootsuccs : forall d, In (root, d) E -> In d (acts sc0).

Inductive Reach : lstate -> Prop :=
| R0 : Reach (linit root sc0)
| RS : forall s l s', Reach s -> step s l = Some s' -> Reach s'.

Lemma lrun_Reach : forall ls s s', Reach s -> lrun E inl F s ls = Some s' -> Reach s'.
Proof.
  induction ls as [|l ls IH]; intros s s' Hr H; cbn [lrun] in H; [inversion H; subst; exact Hr|].
  destruct (step s l) as [s1|] eqn:Hs; [|discriminate]. eapply IH; [eapply RS; eassumption|exact H].
Qed.

Record CInv (s : lstate) : Prop := {
  c_l : LInv E root s;
  c_succ : forall m, In m (dom s) -> m <> root -> forall d, In (m, d) E -> In d (dom s);
  c_rootsucc : forall d, In (root, d) E -> In d (dom s) \/ (lphase s = false /\ In d (acts (lscript s)));
  c_topo : lphase s = false -> script_topob E inl (dom s) (lscript s) = true;
  c_fin : forall m, sget (lstat s) m = Some TFin -> inl_mem m inl = false -> sget (lres s) m <> None;
  c_hosted : forall m t, sget (lstat s) m = Some t -> inl_mem m inl = true -> t = TFin;
  c_reskeys : forall m, sget (lres s) m <> None -> In m (dom s);
  c_doms : forall x, (In x (dom s) \/ (lphase s = false /\ In x (acts (lscript s)))) <-> (x = root \/ In x (acts sc0));
  c_rootph : sget (lstat s) root = Some TFin -> lphase s = true
}.

Lemma CInv_init : CInv (linit root sc0).
Proof.
  constructor; cbn [linit lroot lstat lphase lscript lres dom map fst sget].
  - apply LInv_init. exact Hok.
  - intros m [<-|[]] Hne. congruence.
  - intros d Hd. right. split; [reflexivity|apply Hrootsuccs; exact Hd].
  - intros _. exact Htopo.
  - intros m Hm. destruct (Z.eqb root m); discriminate.
  - intros m t Hm Hh. destruct (Z.eqb root m) eqn:He; [|discriminate]. apply Z.eqb_eq in He. subst m. congruence.
  - intros m Hm. congruence.
  - intros x. cbn [In]. split; [intros [[<-|[]]|[_ H]]; auto|intros [->|H]; auto].
  - rewrite Z.eqb_refl. discriminate.
Qed.

Lemma dom_set_stat_reg : forall s m t, sget (lstat s) m <> None -> forall x, In x (dom (set_stat s m t)) <-> In x (dom s).
Proof.
  intros s m t Hm x. unfold dom. cbn [set_stat lstat]. rewrite sset_keys. apply sget_In in Hm.
  split; [intros [->|H]; assumption|auto].
Qed.

(** a status change of a registered thread that keeps finished threads finished and does not finish a new one
    without a result *)
Lemma CInv_set_stat : forall s m t, CInv s -> LInv E root (set_stat s m t) -> sget (lstat s) m <> None ->
  (inl_mem m inl = true -> t = TFin) -> (t = TFin -> inl_mem m inl = false -> sget (lres s) m <> None) ->
  (t = TFin -> m = root -> lphase s = true) ->
  CInv (set_stat s m t).
Proof.
  intros s m t H HL Hm Hh Hf Hrp. destruct H as [C1 C2 C3 C4 C5 C6 C7 C8 C9].
  pose proof (dom_set_stat_reg s m t Hm) as Hd.
  constructor; cbn [set_stat lroot lphase lscript lres].
  - exact HL.
  - intros m' Hm' Hne d He. apply Hd. apply (C2 m'); [apply Hd; exact Hm'|exact Hne|exact He].
  - intros d He. destruct (C3 d He) as [H|H]; [left; apply Hd; exact H|right; exact H].
  - intros Hp. rewrite (script_topob_ext E inl (lscript s) _ (dom s) Hd). apply C4. exact Hp.
  - intros m' Hm' Hnh. cbn [set_stat lstat] in Hm'. rewrite sget_sset in Hm'. destruct (Z.eqb m m') eqn:Hmm.
    + apply Z.eqb_eq in Hmm. subst m'. inversion Hm'; subst t. apply Hf; [reflexivity|exact Hnh].
    + apply C5; assumption.
  - intros m' t' Hm' Hh'. cbn [set_stat lstat] in Hm'. rewrite sget_sset in Hm'. destruct (Z.eqb m m') eqn:Hmm.
    + apply Z.eqb_eq in Hmm. subst m'. inversion Hm'; subst t'. apply Hh. exact Hh'.
    + eapply C6; eassumption.
  - intros m' Hm'. apply Hd. apply C7. exact Hm'.
  - intros x. rewrite <- C8. split; (intros [H|H]; [left; apply Hd; exact H|right; exact H]).
  - cbn [set_stat lstat]. rewrite sget_sset. destruct (Z.eqb m root) eqn:Hmr.
    + apply Z.eqb_eq in Hmr. intros Ht. inversion Ht. apply Hrp; assumption.
    + exact C9.
Qed.

Lemma CInv_add_res : forall s m r, CInv s -> In m (dom s) -> CInv (add_res s m r).
Proof.
  intros s m r H Hm. destruct H as [C1 C2 C3 C4 C5 C6 C7 C8 C9].
  constructor; cbn [add_res lroot lphase lscript lres lstat dom]; auto.
  - apply LInv_add_res. exact C1.
  - intros m' Hm' Hnh. rewrite sget_sset. destruct (Z.eqb m m'); [discriminate|]. apply C5; assumption.
  - intros m' Hm'. rewrite sget_sset in Hm'. destruct (Z.eqb m m') eqn:Hmm; [apply Z.eqb_eq in Hmm; subst; exact Hm|].
    apply C7. exact Hm'.
Qed.

(** main thread registers [p] (head of the script) *)
Lemma CInv_register : forall s p t sc a, CInv s -> lphase s = false -> lscript s = a :: sc ->
  (a = AStart p /\ t = TRun \/ a = AMark p /\ t = TFin) -> sget (lstat s) p = None ->
  LInv E root (set_stat (set_script s sc) p t) -> CInv (set_stat (set_script s sc) p t).
Proof.
  intros s p t sc a H Hph Hsc Ha Hp HL. destruct H as [C1 C2 C3 C4 C5 C6 C7 C8 C9].
  assert (Hd : forall x, In x (dom (set_stat (set_script s sc) p t)) <-> x = p \/ In x (dom s)).
  { intros x. unfold dom. cbn [set_stat set_script lstat]. apply sset_keys. }
  specialize (C4 Hph). rewrite Hsc in C4.
  assert (Hacts : forall x, In x (acts (lscript s)) <-> x = p \/ In x (acts sc)).
  { intros x. rewrite Hsc. destruct Ha as [[-> _]|[-> _]]; cbn [acts flat_map app In]; fold (acts sc); intuition congruence. }
  assert (Hsuccs : forall d, In (p, d) E -> In d (dom s)).
  { intros d He. destruct Ha as [[-> _]|[-> _]]; cbn [script_topob] in C4; apply andb_true_iff in C4; destruct C4 as [C4 _];
      apply andb_true_iff in C4; destruct C4 as [C4 _]; rewrite forallb_forall in C4;
      apply memz_In; apply C4; apply lsuccs_In; exact He. }
  assert (Hhost : inl_mem p inl = (match t with TFin => true | _ => false end)).
  { destruct Ha as [[-> ->]|[-> ->]]; cbn [script_topob] in C4; apply andb_true_iff in C4; destruct C4 as [C4 _];
      apply andb_true_iff in C4; destruct C4 as [_ C4]; [apply negb_true_iff in C4|]; exact C4. }
  assert (Hpr : p <> root).
  { intros ->. apply (li_rootreg _ _ _ C1). exact Hp. }
  constructor; cbn [set_stat set_script lroot lphase lscript lres].
  - exact HL.
  - intros m Hm Hne d He. apply Hd. apply Hd in Hm. destruct Hm as [->|Hm]; [right; apply Hsuccs; exact He|].
    right. eapply C2; eassumption.
  - intros d He. destruct (C3 d He) as [H|[_ H]]; [left; apply Hd; right; exact H|].
    apply Hacts in H. destruct H as [->|H]; [left; apply Hd; left; reflexivity|right; split; [exact Hph|exact H]].
  - intros _. rewrite (script_topob_ext E inl sc _ (p :: dom s)); [|intros x; rewrite Hd; cbn [In]; intuition congruence].
    destruct Ha as [[-> _]|[-> _]]; cbn [script_topob] in C4; apply andb_true_iff in C4; apply C4.
  - intros m Hm Hnh. cbn [set_stat set_script lstat] in Hm. rewrite sget_sset in Hm. destruct (Z.eqb p m) eqn:Hpm.
    + apply Z.eqb_eq in Hpm. subst m. inversion Hm; subst t. rewrite Hnh in Hhost. discriminate.
    + apply C5; assumption.
  - intros m t' Hm Hh. cbn [set_stat set_script lstat] in Hm. rewrite sget_sset in Hm. destruct (Z.eqb p m) eqn:Hpm.
    + apply Z.eqb_eq in Hpm. subst m. inversion Hm; subst t'. rewrite Hh in Hhost. destruct t; congruence.
    + eapply C6; eassumption.
  - intros m Hm. apply Hd. right. apply C7. exact Hm.
  - intros x. rewrite <- C8. rewrite Hd. rewrite Hph. split.
    + intros [[->|H]|[_ H]]; [right; split; [reflexivity|apply Hacts; left; reflexivity]|left; exact H|].
      right. split; [reflexivity|apply Hacts; right; exact H].
    + intros [H|[_ H]]; [left; right; exact H|]. apply Hacts in H. destruct H as [->|H]; [left; left; reflexivity|].
      right. split; [reflexivity|exact H].
  - cbn [set_stat set_script lstat]. rewrite sget_sset. destruct (Z.eqb p root) eqn:Hpe.
    + apply Z.eqb_eq in Hpe. congruence.
    + intros Hx. specialize (C9 Hx). congruence.
Qed.

Theorem CInv_step : forall s l s', CInv s -> step s l = Some s' -> CInv s'.
Proof.
  intros s l s' HC H. pose proof (lstep_inv E inl F root s l s' (c_l _ HC) H) as HL.
  pose proof (li_root _ _ _ (c_l _ HC)) as Hroot. destruct l; cbn [lstep] in H.
  - destruct (lphase s) eqn:Hph; [discriminate|]. destruct (lscript s) as [|[q|q|q] sc] eqn:Hsc; try discriminate.
    destruct (Z.eqb p q && is_run s (lroot s)) eqn:Hc; [|discriminate]. apply andb_true_iff in Hc. destruct Hc as [Hpq _].
    apply Z.eqb_eq in Hpq. subst q. destruct (sget (lstat s) p) eqn:Hp; [discriminate|]. inversion H; subst s'.
    eapply CInv_register; eauto.
  - destruct (lphase s) eqn:Hph; [discriminate|]. destruct (lscript s) as [|[q|q|q] sc] eqn:Hsc; try discriminate.
    destruct (Z.eqb p q && is_run s (lroot s)) eqn:Hc; [|discriminate]. apply andb_true_iff in Hc. destruct Hc as [Hpq _].
    apply Z.eqb_eq in Hpq. subst q. destruct (sget (lstat s) p) eqn:Hp; [discriminate|]. inversion H; subst s'.
    eapply CInv_register; eauto.
  - destruct (lphase s) eqn:Hph; [discriminate|]. destruct (lscript s) as [|[q|q|q] sc] eqn:Hsc; try discriminate.
    destruct (Z.eqb p q && is_run s (lroot s) && negb (Z.eqb p (lroot s))) eqn:Hc; [|discriminate].
    apply andb_true_iff in Hc. destruct Hc as [Hc _]. apply andb_true_iff in Hc. destruct Hc as [Hpq Hrun].
    apply Z.eqb_eq in Hpq. subst q. destruct (sget (lstat s) p) eqn:Hp; [|discriminate]. inversion H; subst s'.
    rewrite Hroot in *.
    assert (HC2 : CInv (set_script s sc)).
    { destruct HC as [C1 C2 C3 C4 C5 C6 C7 C8 C9]. constructor; cbn [set_script lroot lstat lphase lscript lres dom]; auto.
      - destruct C1 as [H1 H2 H3 H4 H5]. constructor; cbn [set_script lroot lstat lphase lscript dom]; auto.
        intros Hph'. specialize (H5 Hph'). rewrite Hsc in H5. cbn [script_okb] in H5. apply andb_true_iff in H5. apply H5.
      - intros d He. destruct (C3 d He) as [Hx|[Hx1 Hx2]]; [left; exact Hx|right; split; [exact Hx1|]].
        rewrite Hsc in Hx2. exact Hx2.
      - intros Hph'. specialize (C4 Hph'). rewrite Hsc in C4. exact C4.
      - intros x. rewrite <- C8. rewrite Hsc. cbn [acts flat_map app]. tauto. }
    apply CInv_set_stat; [exact HC2|exact HL|cbn [set_script lstat]; exact (li_rootreg _ _ _ (c_l _ HC))| |discriminate|discriminate].
    intros Hh. congruence.
  - destruct (lphase s) eqn:Hph; [discriminate|]. destruct (lscript s) eqn:Hsc; [|discriminate].
    destruct (is_run s (lroot s)) eqn:Hr; [|discriminate]. inversion H; subst s'.
    destruct HC as [C1 C2 C3 C4 C5 C6 C7 C8 C9]. constructor; cbn [set_phase lroot lstat lphase lscript lres dom].
    + exact HL.
    + exact C2.
    + intros d He. destruct (C3 d He) as [Hx|[_ Hx]]; [left; exact Hx|]. rewrite Hsc in Hx. contradiction.
    + discriminate.
    + exact C5.
    + exact C6.
    + exact C7.
    + intros x. rewrite <- C8. rewrite Hsc. cbn [acts flat_map In]. intuition discriminate.
    + intros _. reflexivity.
  - destruct (is_run s m && (negb (Z.eqb m (lroot s)) || lphase s)) eqn:Hc; [|discriminate].
    apply andb_true_iff in Hc. destruct Hc as [Hrun _]. apply is_run_spec in Hrun.
    destruct (join_decision E s m p); inversion H; subst s'; try exact HC.
    apply CInv_set_stat; [exact HC|exact HL|congruence| |discriminate|discriminate].
    intros Hh. pose proof (c_hosted _ HC m TRun Hrun Hh). discriminate.
  - destruct (sget (lstat s) m) as [[|p|]|] eqn:Hm; try discriminate. destruct (is_fin s p); [|discriminate].
    inversion H; subst s'. apply CInv_set_stat; [exact HC|exact HL|congruence| |discriminate|discriminate].
    intros Hh. pose proof (c_hosted _ HC m (TWait p) Hm Hh). discriminate.
  - match type of H with (if ?c then _ else _) = _ => destruct c eqn:Hc; [|discriminate] end.
    destruct (sget (lres s) p); [discriminate|]. inversion H; subst s'.
    repeat (apply andb_true_iff in Hc; destruct Hc as [Hc ?]).
    apply CInv_add_res; [exact HC|]. apply sget_In. unfold registered in *. destruct (sget (lstat s) p); [discriminate|discriminate].
  - match type of H with (if ?c then _ else _) = _ => destruct c eqn:Hc; [|discriminate] end.
    apply andb_true_iff in Hc. destruct Hc as [Hc _]. apply andb_true_iff in Hc. destruct Hc as [Hrun Hphc].
    apply is_run_spec in Hrun. inversion H; subst s'.
    assert (Hin : In m (dom s)) by (apply sget_In; congruence).
    apply CInv_set_stat; [apply CInv_add_res; assumption|exact HL|cbn [add_res lstat]; congruence| | |].
    + intros _. reflexivity.
    + intros _ _. cbn [add_res lres]. rewrite sget_sset, Z.eqb_refl. discriminate.
    + intros _ ->. cbn [add_res lphase]. rewrite Hroot, Z.eqb_refl in Hphc. exact Hphc.
Qed.

Lemma Reach_CInv : forall s, Reach s -> CInv s.
Proof. intros s H. induction H; [apply CInv_init|eapply CInv_step; eassumption]. Qed.

(* ---------------------------------------------------------------- writes *)
Definition full (s : lstate) (x : Z) : Prop := forall d, In d (lsuccs E x) -> sget (lres s) d <> None.

(** when the analysis of [x] is registered, the results of all modules it imports are available *)
Lemma full_at_write : forall s x, CInv s -> In x (dom s) -> (x = root -> lphase s = true) ->
  may_finish E inl s x = true -> full s x.
Proof.
  intros s x HC Hx Hxr Hmf d Hd. unfold may_finish in Hmf. apply andb_true_iff in Hmf. destruct Hmf as [M1 M2].
  rewrite forallb_forall in M1, M2. pose proof (proj1 (lsuccs_In E x d) Hd) as He.
  destruct (inl_get inl d) as [q|] eqn:Hq.
  - (* inlined: then x is its inliner *)
    unfold private_inlines in Hpriv. rewrite forallb_forall in Hpriv. specialize (Hpriv (x, d) He). cbn [fst snd] in Hpriv.
    rewrite Hq in Hpriv. apply Z.eqb_eq in Hpriv. subst q.
    specialize (M2 d (hosted_of_get inl d x Hq)). destruct (sget (lres s) d); [discriminate|discriminate].
  - assert (Hnh : inl_mem d inl = false) by (unfold inl_mem; rewrite Hq; reflexivity).
    assert (Hdd : In d (dom s)).
    { destruct (Z.eq_dec x root) as [->|Hne].
      - destruct (c_rootsucc _ HC d He) as [H|[H _]]; [exact H|]. rewrite (Hxr eq_refl) in H. discriminate.
      - eapply (c_succ _ HC x); eassumption. }
    specialize (M1 d Hd). apply sget_In in Hdd. destruct (sget (lstat s) d) as [[| |]|] eqn:Hs; try discriminate; [|congruence].
    apply (c_fin _ HC d Hs Hnh).
Qed.

Definition agree (s1 s2 : lstate) : Prop :=
  forall m r1 r2, sget (lres s1) m = Some r1 -> sget (lres s2) m = Some r2 -> r1 = r2.

(** a step either leaves the results alone or registers the analysis of one module whose imports are all available *)
Lemma step_writes : forall s l s', CInv s -> step s l = Some s' ->
  lres s' = lres s \/ exists x, lres s' = sset (lres s) x (analyse E F s x) /\ full s x.
Proof.
  intros s l s' HC H. pose proof (li_root _ _ _ (c_l _ HC)) as Hroot. destruct l; cbn [lstep] in H.
  - left. destruct (lphase s); [discriminate|]. destruct (lscript s) as [|[q|q|q] sc]; try discriminate.
    destruct (Z.eqb p q && is_run s (lroot s)); [|discriminate]. destruct (sget (lstat s) p); [discriminate|].
    inversion H; reflexivity.
  - left. destruct (lphase s); [discriminate|]. destruct (lscript s) as [|[q|q|q] sc]; try discriminate.
    destruct (Z.eqb p q && is_run s (lroot s)); [|discriminate]. destruct (sget (lstat s) p); [discriminate|].
    inversion H; reflexivity.
  - left. destruct (lphase s); [discriminate|]. destruct (lscript s) as [|[q|q|q] sc]; try discriminate.
    destruct (Z.eqb p q && is_run s (lroot s) && negb (Z.eqb p (lroot s))); [|discriminate].
    destruct (sget (lstat s) p); [|discriminate]. inversion H; reflexivity.
  - left. destruct (lphase s); [discriminate|]. destruct (lscript s); [|discriminate].
    destruct (is_run s (lroot s)); [|discriminate]. inversion H; reflexivity.
  - left. destruct (is_run s m && (negb (Z.eqb m (lroot s)) || lphase s)); [|discriminate].
    destruct (join_decision E s m p); inversion H; reflexivity.
  - left. destruct (sget (lstat s) m) as [[|p|]|]; try discriminate. destruct (is_fin s p); [|discriminate].
    inversion H; reflexivity.
  - right. match type of H with (if ?c then _ else _) = _ => destruct c eqn:Hc; [|discriminate] end.
    destruct (sget (lres s) p); [discriminate|]. inversion H; subst s'. exists p. split; [reflexivity|].
    apply andb_true_iff in Hc. destruct Hc as [Hc Hmf]. apply andb_true_iff in Hc. destruct Hc as [Hc Hreg].
    apply andb_true_iff in Hc. destruct Hc as [Hc _]. apply andb_true_iff in Hc. destruct Hc as [_ Hh].
    apply full_at_write; [exact HC| | |exact Hmf].
    + apply sget_In. unfold registered in Hreg. destruct (sget (lstat s) p); [discriminate|discriminate].
    + intros ->. congruence.
  - right. match type of H with (if ?c then _ else _) = _ => destruct c eqn:Hc; [|discriminate] end.
    inversion H; subst s'. exists m. split; [reflexivity|].
    apply andb_true_iff in Hc. destruct Hc as [Hc Hmf]. apply andb_true_iff in Hc. destruct Hc as [Hrun Hph].
    apply is_run_spec in Hrun. apply full_at_write; [exact HC|apply sget_In; congruence| |exact Hmf].
    intros ->. rewrite Hroot, Z.eqb_refl in Hph. cbn [negb orb] in Hph. exact Hph.
Qed.

Lemma analyse_agree : forall s1 s2 x, agree s1 s2 -> full s1 x -> full s2 x -> analyse E F s1 x = analyse E F s2 x.
Proof.
  intros s1 s2 x Ha F1 F2. unfold analyse. f_equal. apply map_ext_in. intros d Hd. f_equal.
  specialize (F1 d Hd). specialize (F2 d Hd).
  destruct (sget (lres s1) d) as [a|] eqn:H1; [|congruence]. destruct (sget (lres s2) d) as [b|] eqn:H2; [|congruence].
  f_equal. eapply Ha; eassumption.
Qed.

Theorem reach_agree : forall s1, Reach s1 -> forall s2, Reach s2 -> agree s1 s2.
Proof.
  intros s1 H1. induction H1 as [|s1' l1 s1 R1 IH1 St1].
  - intros s2 _ m r1 r2 Hm. discriminate.
  - intros s2 H2. induction H2 as [|s2' l2 s2 R2 IH2 St2].
    + intros m r1 r2 _ Hm. discriminate.
    + intros m r1 r2 Hm1 Hm2.
      destruct (step_writes _ _ _ (Reach_CInv _ R1) St1) as [W1|[x1 [W1 Fu1]]].
      * rewrite W1 in Hm1. exact (IH1 _ (RS _ _ _ R2 St2) m r1 r2 Hm1 Hm2).
      * rewrite W1, sget_sset in Hm1. destruct (Z.eqb x1 m) eqn:Hx1.
        2: { exact (IH1 _ (RS _ _ _ R2 St2) m r1 r2 Hm1 Hm2). }
        apply Z.eqb_eq in Hx1. subst x1. inversion Hm1; subst r1.
        destruct (step_writes _ _ _ (Reach_CInv _ R2) St2) as [W2|[x2 [W2 Fu2]]].
        -- rewrite W2 in Hm2. apply (IH2 m _ r2); [|exact Hm2]. rewrite W1, sget_sset, Z.eqb_refl. reflexivity.
        -- rewrite W2, sget_sset in Hm2. destruct (Z.eqb x2 m) eqn:Hx2.
           2: { apply (IH2 m _ r2); [|exact Hm2]. rewrite W1, sget_sset, Z.eqb_refl. reflexivity. }
           apply Z.eqb_eq in Hx2. subst x2. inversion Hm2; subst r2.
           apply analyse_agree; [exact (IH1 _ R2)|exact Fu1|exact Fu2].
Qed.

Lemma sget_pair : forall (A : Type) (l : list (Z * A)) k v, sget l k = Some v -> In (k, v) l.
Proof.
  intros A l k v. induction l as [|[a w] r IH]; [discriminate|]. cbn [sget]. destruct (Z.eqb a k) eqn:Hak.
  - intros H. inversion H; subst. apply Z.eqb_eq in Hak. subst. left. reflexivity.
  - intros H. right. apply IH. exact H.
Qed.

Lemma all_fin_stat : forall s m t, all_fin s = true -> sget (lstat s) m = Some t -> t = TFin.
Proof.
  intros s m t Hf Hm. unfold all_fin in Hf. rewrite forallb_forall in Hf. specialize (Hf (m, t) (sget_pair _ _ _ _ Hm)).
  cbn [snd] in Hf. destruct t; [discriminate|discriminate|reflexivity].
Qed.

(** complete runs have registered the same modules, and every module that has its own analysis has a result *)
Lemma complete_dom : forall s, CInv s -> all_fin s = true -> forall x, In x (dom s) <-> (x = root \/ In x (acts sc0)).
Proof.
  intros s HC Hf x. rewrite <- (c_doms _ HC x).
  assert (Hph : lphase s = true).
  { apply (c_rootph _ HC). destruct (sget (lstat s) root) as [t|] eqn:Hr; [|exfalso; exact (li_rootreg _ _ _ (c_l _ HC) Hr)].
    rewrite (all_fin_stat s root t Hf Hr). reflexivity. }
  rewrite Hph. intuition discriminate.
Qed.

Theorem confluence_l : forall ls1 ls2 s1 s2,
  lrun E inl F (linit root sc0) ls1 = Some s1 -> lrun E inl F (linit root sc0) ls2 = Some s2 ->
  agree s1 s2 /\
  (all_fin s1 = true -> all_fin s2 = true ->
     forall m, inl_mem m inl = false -> sget (lres s1) m = sget (lres s2) m).
Proof.
  intros ls1 ls2 s1 s2 H1 H2. pose proof (lrun_Reach _ _ _ R0 H1) as R1. pose proof (lrun_Reach _ _ _ R0 H2) as R2.
  pose proof (reach_agree _ R1 _ R2) as Hag. split; [exact Hag|]. intros F1 F2 m Hnh.
  pose proof (Reach_CInv _ R1) as C1. pose proof (Reach_CInv _ R2) as C2.
  assert (Hres : forall s, CInv s -> all_fin s = true -> In m (dom s) -> sget (lres s) m <> None).
  { intros s C Ff Hin. apply sget_In in Hin. destruct (sget (lstat s) m) as [t|] eqn:Hm; [|congruence].
    rewrite (all_fin_stat s m t Ff Hm) in Hm. exact (c_fin _ C m Hm Hnh). }
  destruct (in_dec Z.eq_dec m (dom s1)) as [Hin|Hnin].
  - assert (Hin2 : In m (dom s2)) by (apply (complete_dom _ C2 F2); apply (complete_dom _ C1 F1); exact Hin).
    pose proof (Hres s1 C1 F1 Hin) as N1. pose proof (Hres s2 C2 F2 Hin2) as N2.
    destruct (sget (lres s1) m) as [a|] eqn:E1; [|congruence]. destruct (sget (lres s2) m) as [b|] eqn:E2; [|congruence].
    f_equal. eapply Hag; eassumption.
  - assert (Hnin2 : ~ In m (dom s2)) by (intros H; apply Hnin; apply (complete_dom _ C1 F1); apply (complete_dom _ C2 F2); exact H).
    destruct (sget (lres s1) m) eqn:E1; [exfalso; apply Hnin; apply (c_reskeys _ C1); congruence|].
    destruct (sget (lres s2) m) eqn:E2; [exfalso; apply Hnin2; apply (c_reskeys _ C2); congruence|]. reflexivity.
Qed.

End Conf.
