(** C20 — property theorems (statements only; proofs are in Proofs*.v).
    "Multi-module analysis terminates and resolves every import graph."
    What is proved about the model (Build/Model.v) and what is only observed is said at each theorem;
    the whole-compiler parts of the property (names visible with their declared types, top levels executed once)
    are decided by the judge [judge_C20] on real builds (checks/c20.py). *)
From Coq Require Import ZArith List Bool.
From ErgV Require Import Graph.Model Graph.Spec Graph.Proofs.
From ErgV Require Import Build.Model Build.Spec Build.ProofsDeps Build.ProofsResolve Build.ProofsLts Build.Proofs.
Import ListNotations.
Open Scope Z_scope.

(** 1. cycle_inlined.  Dependency resolution (resolve / register) touches the module graph only through
    add_node_if_none and inc_ref, so by C21 (inc_ref_refuses_cycle, acyclic_inv) its result is a DAG for every
    project, import cycles included; every edge is an import; an import is refused exactly because it would close
    a cycle (the imported module already reaches the importer); and the module that contains a refused import has
    been inlined into a module that imports it. *)
Theorem cycle_inlined : forall P fuel root r, resolve_root fuel P root = Ok r ->
  index_inv (rg r) /\ acyclic (Ed (rg r)) /\
  (exists os, no_rename os = true /\ run_ops empty os = Ok (rg r)) /\
  (forall a b, In (a, b) (Ed (rg r)) -> In b (imports_of P a)) /\
  (forall a b, In (a, b) (rref r) ->
     a <> b /\ In b (imports_of P a) /\ reach (Ed (rg r)) b a /\
     exists q, inl_get (rinl r) a = Some q) /\
  (forall p q, In (p, q) (rinl r) -> In p (imports_of P q)).
Proof. exact cycle_inlined_l. Qed.

(** 2. deps_loop_terminates.  On every well-formed state (graph invariant of C21, acyclic, closed, every node
    known as AST / inlined / registered, nothing depends on the root) build_deps_and_module(path) finishes within
    [deps_bound n] steps, n = number of graph nodes, without reaching `unreachable!`; all ancestors of [path] are
    then registered.  ([Post]: the graph only shrinks, registered modules stay registered, removed ones are registered.) *)
Theorem deps_loop_terminates : forall root G0 n st path fuel, WF root G0 st ->
  (length (nodes (bg st)) <= n)%nat -> (deps_bound n <= fuel)%nat ->
  exists st', deps fuel path st = Ok st' /\ Post root G0 st st' /\
    (forall anc a, ancestors (bg st) path = Ok anc -> In a anc -> In a (breg st')).
Proof. exact deps_ok. Qed.

(** ... in particular for what resolution produced, whenever the checkable predicate [wf_resb] holds (it is
    evaluated on every observed graph snapshot, and holds for every project of up to three modules: theorem 5):
    execute's assertion "every ancestor of the root is registered" holds as well. *)
Theorem execute_terminates : forall P fuel root r ords, resolve_root fuel P root = Ok r -> wf_resb r root = true ->
  exists st', execute r root ords = Ok st'.
Proof. exact execute_terminates_l. Qed.

(** 3. the design round's question.  On a cyclic graph the loop does rotate for ever (every fuel runs out) ... *)
Theorem deps_loop_cyclic_refuted : index_inv g_cyc /\ ~ acyclic (Ed g_cyc) /\ forall n, deps n 1 st_cyc = Fuel.
Proof. exact deps_cyclic_diverges. Qed.
(** ... but no such graph reaches it: [cycle_inlined] (the graph after resolution is acyclic for every project). *)

(** 4. starts_each_once_topologically.  In the event list of execute: no module is started or marked twice,
    every module the entry reaches is started or marked, and when the analysis of [a] is started every module [a]
    depends on has already been taken out of the graph (started, found registered, or being inlined). *)
Theorem starts_each_once_topologically : forall P fuel root r ords st',
  resolve_root fuel P root = Ok r -> wf_resb r root = true -> execute r root ords = Ok st' ->
  NoDup (handled (bev st')) /\
  (forall x, reach (Ed (rg r)) root x -> In x (handled (bev st'))) /\
  (forall a d pre post, bev st' = pre ++ EvStart a :: post -> In (a, d) (Ed (rg r)) -> In d (popped pre)).
Proof. exact starts_each_once_l. Qed.

(** 5. small scope: for every project of three modules (each import list any duplicate-free list over the three,
    4096 projects, entry = module 0) resolution neither panics nor runs out of fuel, its result is well-formed,
    execute succeeds and the main thread's script is enabled step by step ([script_okb]). *)
Theorem resolve_wf_small_scope : forallb (fun P => resolves_wf P 0) projects3 = true.
Proof. exact resolve_wf_small. Qed.

(** 6. waitfor_subset_deps.  In every state reachable in the join transition system, a thread that waits, waits
    for a registered module other than itself that it (deep-)depends on; the only other wait is the main thread's
    wait_until_finished, during build_deps_and_module, for a module it has started. *)
Theorem waitfor_subset_deps : forall E inl F root sc ls s, script_okb root [root] sc = true ->
  lrun E inl F (linit root sc) ls = Some s ->
  forall m p, sget (lstat s) m = Some (TWait p) ->
    sget (lstat s) p <> None /\ p <> m /\ (reach E m p \/ (m = root /\ lphase s = false)).
Proof. exact waitfor_subset_deps_l. Qed.

(** 7. no_deadlock.  If the dependency graph is acyclic and nothing depends on the entry module, then in every
    reachable state with an unfinished thread some thread can step; and there is no circular wait: when every
    unfinished thread is blocked in a join, one of them waits for a thread that has finished. *)
Theorem no_deadlock : forall E inl F root sc ls s, acyclic E -> (forall a, ~ In (a, root) E) ->
  script_okb root [root] sc = true -> lrun E inl F (linit root sc) ls = Some s -> all_fin s = false ->
  exists l s', lstep E inl F s l = Some s'.
Proof. exact no_deadlock_run. Qed.

Theorem no_circular_wait : forall E inl F root sc ls s, acyclic E -> (forall a, ~ In (a, root) E) ->
  script_okb root [root] sc = true -> lrun E inl F (linit root sc) ls = Some s ->
  (exists m, unfinished s m = true) ->
  (forall m, unfinished s m = true -> exists p, sget (lstat s) m = Some (TWait p)) ->
  exists m s', lstep E inl F s (LWake m) = Some s'.
Proof. exact no_circular_wait_run. Qed.

(** 8. the known-finding classes are inhabited: K1 (entry on a cycle), K2 (an inlined module with a second importer) *)
Theorem known_classes_refuted :
  Known_C20 [(0, [1]); (1, [0])] 0 false = true /\
  Known_C20 [(0, [1; 3]); (1, [2]); (2, [1]); (3, [2])] 0 false = true /\
  Known_C20 [(0, [1]); (1, [2]); (2, [1])] 0 true = true /\
  Known_C20 [(0, [1]); (1, [2]); (2, [1])] 0 false = false.
Proof. vm_compute. repeat split; reflexivity. Qed.

(* ------------------------------------------------------------------------------------------------ *)
(** non-vacuity: a project with a diamond and a 2-cycle below the entry (0 -> 1, 2; 1 -> 3; 2 -> 3; 3 <-> 4) *)
Definition ex_P : project := [(0, [1; 2]); (1, [3]); (2, [3]); (3, [4]); (4, [3])].
Definition ex_r : rst := match resolve_root (resolve_fuel ex_P) ex_P 0 with Ok r => r | _ => rst0 end.

Example ex_resolve : resolve_root (resolve_fuel ex_P) ex_P 0 = Ok ex_r /\ rinl ex_r = [(4, 3)] /\ rref ex_r = [(4, 3)] /\
                     rasts ex_r = [3; 1; 2] /\ wf_resb ex_r 0 = true.
Proof. vm_compute. repeat split; reflexivity. Qed.

Example ex_execute : exists st, execute ex_r 0 [] = Ok st /\
  script_of (bev st) = [AMark 4; AStart 3; AStart 1; AStart 2] /\ good_script (Ed (rg ex_r)) (rinl ex_r) 0 (script_of (bev st)) = true.
Proof. eexists. split; [vm_compute; reflexivity|]. split; vm_compute; reflexivity. Qed.

(* a complete run of the transition system for that script: threads 3 (which lowers the inlined 4), 2, 1 and the main thread *)
Definition ex_E : list (Z * Z) := Ed (rg ex_r).
Definition ex_F : Z -> list (Z * option result) -> result :=
  fun m ds => m + fold_right (fun d acc => match snd d with Some r => 10 * acc + r | None => -1000 end) 0 ds.
Definition ex_run : list label :=
  [LMark 4; LStart 3; LStart 1; LJoin 1 3; LStart 2; LDone; LJoin 0 1; LInline 3 4; LFinish 3; LWake 1; LJoin 2 3;
   LWake 2; LFinish 1; LWake 0; LFinish 2; LJoin 0 2; LWake 0; LFinish 0].
Example ex_lrun : exists s, lrun ex_E (rinl ex_r) ex_F (linit 0 [AMark 4; AStart 3; AStart 1; AStart 2]) ex_run = Some s /\
                            all_fin s = true.
Proof. eexists. split; vm_compute; reflexivity. Qed.

(* a state in which two threads wait (1 for 3, the main thread for 1): the hypotheses of theorems 6 and 7 are met *)
Example ex_waiting : exists s, lrun ex_E (rinl ex_r) ex_F (linit 0 [AMark 4; AStart 3; AStart 1; AStart 2])
                                 [LMark 4; LStart 3; LStart 1; LJoin 1 3; LStart 2; LDone; LJoin 0 1] = Some s /\
                               sget (lstat s) 1 = Some (TWait 3) /\ sget (lstat s) 0 = Some (TWait 1) /\ all_fin s = false.
Proof. eexists. split; [vm_compute; reflexivity|]. repeat split; vm_compute; reflexivity. Qed.
