(** C20 — the join protocol: the wait-for relation is inside the dependency relation, hence no deadlock *)
From Coq Require Import ZArith List Bool Arith Lia.
From ErgV Require Import Graph.Model Graph.Spec Graph.ProofsReach Graph.Proofs Build.Model Build.Spec Build.ProofsDeps.
Import ListNotations.
Open Scope Z_scope.

(* ---------------------------------------------------------------- association lists *)
Lemma sget_sset : forall (A : Type) (l : list (Z * A)) k v k',
  sget (sset l k v) k' = if Z.eqb k k' then Some v else sget l k'.
Proof.
  intros A l k v k'. induction l as [|[a w] r IH]; cbn [sset sget].
  - destruct (Z.eqb k k'); reflexivity.
  - destruct (Z.eqb a k) eqn:Hak; cbn [sget].
    + apply Z.eqb_eq in Hak. subst a. destruct (Z.eqb k k'); reflexivity.
    + destruct (Z.eqb a k') eqn:Hak'.
      * apply Z.eqb_eq in Hak'. subst a. rewrite Z.eqb_sym, Hak. reflexivity.
      * exact IH.
Qed.

Lemma sget_In : forall (A : Type) (l : list (Z * A)) k, sget l k <> None <-> In k (map fst l).
Proof.
  intros A l k. induction l as [|[a w] r IH]; cbn [sget map fst In]; [tauto|].
  destruct (Z.eqb a k) eqn:Hak.
  - apply Z.eqb_eq in Hak. split; [auto|discriminate].
  - apply Z.eqb_neq in Hak. rewrite IH. tauto.
Qed.

Lemma sset_keys : forall (A : Type) (l : list (Z * A)) k v x,
  In x (map fst (sset l k v)) <-> x = k \/ In x (map fst l).
Proof.
  intros A l k v x. rewrite <- !sget_In, sget_sset. destruct (Z.eqb k x) eqn:H.
  - apply Z.eqb_eq in H. subst. split; [auto|discriminate].
  - apply Z.eqb_neq in H. split; [auto|]. intros [->|H']; [congruence|exact H'].
Qed.

Lemma sset_nodup : forall (A : Type) (l : list (Z * A)) k v, NoDup (map fst l) -> NoDup (map fst (sset l k v)).
Proof.
  intros A l k v. induction l as [|[a w] r IH]; intros H; cbn [sset map fst].
  - constructor; [intros []|constructor].
  - inversion H as [|x y Hn Hr]; subst. destruct (Z.eqb a k) eqn:Hak; cbn [map fst].
    + constructor; assumption.
    + constructor; [|apply IH; exact Hr]. intros Hin. apply sset_keys in Hin. apply Z.eqb_neq in Hak.
      destruct Hin as [->|Hin]; [congruence|contradiction].
Qed.

Lemma sget_of_In : forall (A : Type) (l : list (Z * A)) k v, NoDup (map fst l) -> In (k, v) l -> sget l k = Some v.
Proof.
  intros A l k v. induction l as [|[a w] r IH]; intros Hnd Hin; [contradiction|]. cbn [sget].
  inversion Hnd as [|x y Hn Hr]; subst. destruct Hin as [Heq|Hin].
  - inversion Heq; subst. rewrite Z.eqb_refl. reflexivity.
  - destruct (Z.eqb a k) eqn:Hak; [|apply IH; assumption]. apply Z.eqb_eq in Hak. subst a. exfalso. apply Hn.
    change k with (fst (k, v)). apply in_map. exact Hin.
Qed.

(* ---------------------------------------------------------------- reachability *)
Lemma sclose_close : forall E n s, sclose E n s = close n E s.
Proof. intros E. induction n as [|n IH]; intros s; [reflexivity|]. cbn [sclose close]. apply IH. Qed.

Lemma reaches_spec : forall E a b, reaches E a b = true <-> reach E a b.
Proof.
  intros E a b. unfold reaches. rewrite sclose_close. change (memz b (close (length E) E (lsuccs E a))) with (reachb E a b).
  apply reachb_spec.
Qed.

Lemma lsuccs_In : forall E a b, In b (lsuccs E a) <-> In (a, b) E.
Proof. intros. apply succs_In. Qed.

Lemma script_okb_ext : forall root sc d1 d2, (forall x, In x d1 <-> In x d2) ->
  script_okb root d1 sc = script_okb root d2 sc.
Proof.
  intros root. induction sc as [|a sc IH]; intros d1 d2 H; [reflexivity|].
  assert (Hm : forall x, memz x d1 = memz x d2).
  { intros x. apply bool_eq_iff. rewrite !memz_In. apply H. }
  assert (Hc : forall p x, In x (p :: d1) <-> In x (p :: d2)) by (intros p x; cbn [In]; rewrite H; tauto).
  destruct a; cbn [script_okb]; rewrite Hm.
  - rewrite (IH (p :: d1) (p :: d2) (Hc p)). reflexivity.
  - rewrite (IH (p :: d1) (p :: d2) (Hc p)). reflexivity.
  - rewrite (IH d1 d2 H). reflexivity.
Qed.

Section LTS.
Variable E : list (Z * Z).
Variable inl : list (Z * Z).
Variable F : Z -> list (Z * option result) -> result.
Variable root : Z.

Notation step := (lstep E inl F).

Definition dom (s : lstate) : list Z := map fst (lstat s).

Record LInv (s : lstate) : Prop := {
  li_root : lroot s = root;
  li_rootreg : sget (lstat s) root <> None;
  li_nodup : NoDup (dom s);
  li_wait : forall m p, sget (lstat s) m = Some (TWait p) ->
              sget (lstat s) p <> None /\ p <> m /\ (reach E m p \/ (m = root /\ lphase s = false));
  li_script : lphase s = false -> script_okb root (dom s) (lscript s) = true
}.

Lemma LInv_init : forall sc, script_okb root [root] sc = true -> LInv (linit root sc).
Proof.
  intros sc H. constructor; cbn [linit lroot lstat lphase lscript dom map fst sget].
  - reflexivity.
  - rewrite Z.eqb_refl. discriminate.
  - constructor; [intros []|constructor].
  - intros m p Hm. destruct (Z.eqb root m); discriminate.
  - intros _. exact H.
Qed.

(** changing the status of a registered thread [m] to something that is not a wait *)
Lemma LInv_set_stat : forall s m t, LInv s -> sget (lstat s) m <> None ->
  (forall p, t = TWait p -> sget (lstat s) p <> None /\ p <> m /\ (reach E m p \/ (m = root /\ lphase s = false))) ->
  LInv (set_stat s m t).
Proof.
  intros s m t H Hm Ht. destruct H as [H1 H2 H3 H4 H5].
  assert (Hdom : forall x, In x (dom (set_stat s m t)) <-> In x (dom s)).
  { intros x. unfold dom. cbn [set_stat lstat]. rewrite sset_keys. apply sget_In in Hm. split; [intros [->|H]; assumption|auto]. }
  assert (Hreg : forall p, sget (lstat s) p <> None -> sget (sset (lstat s) m t) p <> None).
  { intros p Hp. apply sget_In. apply sset_keys. right. apply sget_In. exact Hp. }
  constructor; cbn [set_stat lroot lstat lphase lscript].
  - exact H1.
  - apply Hreg. exact H2.
  - apply sset_nodup. exact H3.
  - intros m' p Hw. rewrite sget_sset in Hw. destruct (Z.eqb m m') eqn:Hmm.
    + apply Z.eqb_eq in Hmm. subst m'. inversion Hw; subst t. destruct (Ht p eq_refl) as [A [B C]].
      split; [apply Hreg; exact A|]. split; assumption.
    + destruct (H4 m' p Hw) as [A [B C]]. split; [apply Hreg; exact A|]. split; assumption.
  - intros Hp. rewrite (script_okb_ext root (lscript s) _ (dom s) Hdom). apply H5. exact Hp.
Qed.

(** main thread: registering a new module and dropping the head of the script *)
Lemma LInv_register : forall s p t sc a, LInv s -> lphase s = false -> lscript s = a :: sc ->
  (a = AStart p \/ a = AMark p) -> sget (lstat s) p = None -> (forall q, t <> TWait q) ->
  LInv (set_stat (set_script s sc) p t).
Proof.
  intros s p t sc a H Hph Hsc Ha Hp Ht. destruct H as [H1 H2 H3 H4 H5].
  assert (Hreg : forall q, sget (lstat s) q <> None -> sget (sset (lstat s) p t) q <> None).
  { intros q Hq. apply sget_In. apply sset_keys. right. apply sget_In. exact Hq. }
  assert (Hpn : ~ In p (dom s)) by (intros Hin; apply sget_In in Hin; congruence).
  constructor; cbn [set_stat set_script lroot lstat lphase lscript].
  - exact H1.
  - apply Hreg. exact H2.
  - apply sset_nodup. exact H3.
  - intros m' q Hw. rewrite sget_sset in Hw. destruct (Z.eqb p m') eqn:Hmm.
    + inversion Hw; subst t. exfalso. eapply Ht; reflexivity.
    + destruct (H4 m' q Hw) as [A [B C]]. split; [apply Hreg; exact A|]. split; assumption.
  - intros _. specialize (H5 Hph). rewrite Hsc in H5.
    assert (Hd : forall x, In x (dom (set_stat (set_script s sc) p t)) <-> In x (p :: dom s)).
    { intros x. unfold dom. cbn [set_stat set_script lstat In]. rewrite sset_keys. split; intros [->|Hx]; auto. }
    rewrite (script_okb_ext root sc _ (p :: dom s) Hd).
    destruct Ha as [->| ->]; cbn [script_okb] in H5; apply andb_true_iff in H5; apply H5.
Qed.

Lemma is_run_spec : forall s m, is_run s m = true <-> sget (lstat s) m = Some TRun.
Proof. intros s m. unfold is_run. destruct (sget (lstat s) m) as [[| |]|]; split; congruence. Qed.
Lemma is_fin_spec : forall s m, is_fin s m = true <-> sget (lstat s) m = Some TFin.
Proof. intros s m. unfold is_fin. destruct (sget (lstat s) m) as [[| |]|]; split; congruence. Qed.

Lemma LInv_add_res : forall s m r, LInv s -> LInv (add_res s m r).
Proof. intros s m r H. destruct H. constructor; cbn [add_res lroot lstat lphase lscript dom]; auto. Qed.

Lemma LInv_phase : forall s, LInv s -> is_run s root = true -> LInv (set_phase s true).
Proof.
  intros s H Hr. destruct H as [H1 H2 H3 H4 H5]. constructor; cbn [set_phase lroot lstat lphase lscript dom]; auto.
  - intros m p Hw. destruct (H4 m p Hw) as [A [B C]]. split; [exact A|]. split; [exact B|].
    destruct C as [C|[-> _]]; [left; exact C|]. apply is_run_spec in Hr. congruence.
  - discriminate.
Qed.

Theorem lstep_inv : forall s l s', LInv s -> step s l = Some s' -> LInv s'.
Proof.
  intros s l s' HI H. pose proof (li_root _ HI) as Hroot. destruct l; cbn [lstep] in H.
  - (* LStart *)
    destruct (lphase s) eqn:Hph; [discriminate|]. destruct (lscript s) as [|[q|q|q] sc] eqn:Hsc; try discriminate.
    destruct (Z.eqb p q && is_run s (lroot s)) eqn:Hc; [|discriminate]. apply andb_true_iff in Hc. destruct Hc as [Hpq _].
    apply Z.eqb_eq in Hpq. subst q. destruct (sget (lstat s) p) eqn:Hp; [discriminate|]. inversion H; subst s'.
    eapply LInv_register; eauto. discriminate.
  - (* LMark *)
    destruct (lphase s) eqn:Hph; [discriminate|]. destruct (lscript s) as [|[q|q|q] sc] eqn:Hsc; try discriminate.
    destruct (Z.eqb p q && is_run s (lroot s)) eqn:Hc; [|discriminate]. apply andb_true_iff in Hc. destruct Hc as [Hpq _].
    apply Z.eqb_eq in Hpq. subst q. destruct (sget (lstat s) p) eqn:Hp; [discriminate|]. inversion H; subst s'.
    eapply LInv_register; eauto. discriminate.
  - (* LWaitFin *)
    destruct (lphase s) eqn:Hph; [discriminate|]. destruct (lscript s) as [|[q|q|q] sc] eqn:Hsc; try discriminate.
    destruct (Z.eqb p q && is_run s (lroot s) && negb (Z.eqb p (lroot s))) eqn:Hc; [|discriminate].
    apply andb_true_iff in Hc. destruct Hc as [Hc Hne]. apply andb_true_iff in Hc. destruct Hc as [Hpq Hrun].
    apply Z.eqb_eq in Hpq. subst q. apply negb_true_iff, Z.eqb_neq in Hne. rewrite Hroot in *.
    destruct (sget (lstat s) p) eqn:Hp; [|discriminate]. inversion H; subst s'.
    assert (HI2 : LInv (set_script s sc)).
    { destruct HI as [H1 H2 H3 H4 H5]. constructor; cbn [set_script lroot lstat lphase lscript dom]; auto.
      intros Hph'. specialize (H5 Hph'). rewrite Hsc in H5. cbn [script_okb] in H5.
      apply andb_true_iff in H5. apply H5. }
    apply LInv_set_stat; [exact HI2|cbn [set_script lstat]; exact (li_rootreg _ HI)|].
    intros p0 Hp0. inversion Hp0; subst p0. cbn [set_script lstat lphase]. split; [congruence|]. split; [exact Hne|].
    right. split; [reflexivity|exact Hph].
  - (* LDone *)
    destruct (lphase s) eqn:Hph; [discriminate|]. destruct (lscript s) eqn:Hsc; [|discriminate].
    destruct (is_run s (lroot s)) eqn:Hr; [|discriminate]. inversion H; subst s'. apply LInv_phase; [exact HI|].
    rewrite <- Hroot. exact Hr.
  - (* LJoin *)
    destruct (is_run s m && (negb (Z.eqb m (lroot s)) || lphase s)) eqn:Hc; [|discriminate].
    apply andb_true_iff in Hc. destruct Hc as [Hrun Hph]. apply is_run_spec in Hrun.
    destruct (join_decision E s m p) eqn:Hd; inversion H; subst s'; try exact HI.
    unfold join_decision in Hd. destruct (sget (lstat s) p) eqn:Hp; [|discriminate].
    destruct (Z.eqb p m || reaches E p m) eqn:Hs; [discriminate|]. destruct (negb (reaches E m p)) eqn:Hr; [discriminate|].
    apply orb_false_iff in Hs. destruct Hs as [Hpm _]. apply Z.eqb_neq in Hpm. apply negb_false_iff in Hr.
    apply LInv_set_stat; [exact HI|congruence|]. intros p0 Hp0. inversion Hp0; subst p0.
    split; [congruence|]. split; [exact Hpm|]. left. apply reaches_spec. exact Hr.
  - (* LWake *)
    destruct (sget (lstat s) m) as [[|p|]|] eqn:Hm; try discriminate. destruct (is_fin s p); [|discriminate].
    inversion H; subst s'. apply LInv_set_stat; [exact HI|congruence|]. intros p0 Hp0. discriminate.
  - (* LInline *)
    match type of H with (if ?c then _ else _) = _ => destruct c; [|discriminate] end.
    destruct (sget (lres s) p); [discriminate|]. inversion H; subst s'. apply LInv_add_res. exact HI.
  - (* LFinish *)
    match type of H with (if ?c then _ else _) = _ => destruct c eqn:Hc; [|discriminate] end.
    apply andb_true_iff in Hc. destruct Hc as [Hc _]. apply andb_true_iff in Hc. destruct Hc as [Hrun _].
    apply is_run_spec in Hrun. inversion H; subst s'.
    apply LInv_set_stat; [apply LInv_add_res; exact HI|cbn [add_res lstat]; congruence|]. intros p0 Hp0. discriminate.
Qed.

Theorem lrun_inv : forall ls s s', LInv s -> lrun E inl F s ls = Some s' -> LInv s'.
Proof.
  induction ls as [|l ls IH]; intros s s' HI H; cbn [lrun] in H; [inversion H; subst; exact HI|].
  destruct (step s l) as [s1|] eqn:Hs; [|discriminate]. eapply IH; [eapply lstep_inv; eassumption|exact H].
Qed.

(** the wait-for relation is inside the dependency relation (the main thread additionally waits, in
    build_inlined_module, for modules it has started itself) *)
Theorem waitfor_subset_deps_l : forall sc ls s, script_okb root [root] sc = true ->
  lrun E inl F (linit root sc) ls = Some s ->
  forall m p, sget (lstat s) m = Some (TWait p) ->
    sget (lstat s) p <> None /\ p <> m /\ (reach E m p \/ (m = root /\ lphase s = false)).
Proof.
  intros sc ls s Hsc Hrun. exact (li_wait _ (lrun_inv ls _ _ (LInv_init sc Hsc) Hrun)).
Qed.

(* ---------------------------------------------------------------- no deadlock *)
Definition unfinished (s : lstate) (m : Z) : bool :=
  match sget (lstat s) m with Some TFin | None => false | _ => true end.

(** a step that changes something: a join that really waits, or any other enabled step *)
Definition productive (s : lstate) (l : label) : Prop :=
  match l with LJoin m p => join_decision E s m p = DWait | _ => True end.

Hypothesis Hacyc : acyclic E.
Hypothesis Hnoroot : forall a, ~ In (a, root) E.

Lemma no_reach_root : forall m, ~ reach E m root.
Proof. intros m Hr. destruct (reach_last _ _ _ Hr) as [c [_ Hc]]. exact (Hnoroot c Hc). Qed.

Lemma all_fin_false : forall s, NoDup (dom s) -> all_fin s = false -> exists m, unfinished s m = true.
Proof.
  intros s Hnd H. unfold all_fin in H.
  assert (Hex : exists kv, In kv (lstat s) /\ tstat_eqb (snd kv) TFin = false).
  { clear Hnd. induction (lstat s) as [|kv r IH]; [discriminate|]. cbn [forallb] in H. apply andb_false_iff in H.
    destruct H as [H|H]; [exists kv; split; [left; reflexivity|exact H]|].
    destruct (IH H) as [kv' [Hin Hk]]. exists kv'. split; [right; exact Hin|exact Hk]. }
  destruct Hex as [[k v] [Hin Hk]]. exists k. unfold unfinished. rewrite (sget_of_In _ _ k v Hnd Hin).
  cbn [snd] in Hk. destruct v; [reflexivity|reflexivity|discriminate].
Qed.

(** when a running thread cannot yet finish, it can join an import that is still running or lower an inlined module *)
Lemma may_finish_false : forall s m, may_finish E inl s m = false ->
  (exists d, In (m, d) E /\ unfinished s d = true) \/ (exists p, In p (hosted inl m) /\ sget (lres s) p = None).
Proof.
  intros s m H. unfold may_finish in H. apply andb_false_iff in H. destruct H as [H|H].
  - left. destruct (forallb_false_ex _ _ _ H) as [d [Hd Hf]]. exists d. split; [apply lsuccs_In; exact Hd|].
    unfold unfinished. destruct (sget (lstat s) d) as [[| |]|]; try reflexivity; discriminate.
  - right. destruct (forallb_false_ex _ _ _ H) as [p [Hp Hf]]. exists p. split; [exact Hp|].
    destruct (sget (lres s) p); [discriminate|reflexivity].
Qed.

Lemma join_waits : forall s m d, In (m, d) E -> sget (lstat s) d <> None -> join_decision E s m d = DWait.
Proof.
  intros s m d He Hd. unfold join_decision. destruct (sget (lstat s) d); [|congruence].
  assert (Hmd : reach E m d) by (apply reach_edge; exact He).
  assert (Hne : Z.eqb d m = false).
  { apply Z.eqb_neq. intros ->. exact (Hacyc m Hmd). }
  assert (Hnr : reaches E d m = false).
  { destruct (reaches E d m) eqn:Hr; [|reflexivity]. apply reaches_spec in Hr. exfalso. apply (Hacyc m).
    eapply reach_trans; eassumption. }
  rewrite Hne, Hnr. cbn [orb]. apply reaches_spec in Hmd. rewrite Hmd. reflexivity.
Qed.


Lemma fin_of_registered : forall s p, sget (lstat s) p <> None -> unfinished s p = false -> is_fin s p = true.
Proof.
  intros s p Hr Hu. unfold unfinished in Hu. unfold is_fin. destruct (sget (lstat s) p) as [[| |]|]; congruence.
Qed.

(** no circular wait: when every unfinished thread is blocked in a join, one of them waits for a finished thread *)
Theorem blocked_wake : forall s, LInv s -> (exists m, unfinished s m = true) ->
  (forall m, unfinished s m = true -> exists p, sget (lstat s) m = Some (TWait p)) ->
  exists m s', step s (LWake m) = Some s'.
Proof.
  intros s HI [m0 Hm0] Hall.
  assert (Hwake : forall m p, sget (lstat s) m = Some (TWait p) -> is_fin s p = true ->
            exists m s', step s (LWake m) = Some s').
  { intros m p Hm Hp. exists m. cbn [lstep]. rewrite Hm, Hp. eexists. reflexivity. }
  set (U' := filter (fun m => unfinished s m && negb (Z.eqb m root)) (dom s)).
  destruct U' as [|u U''] eqn:HU.
  - (* only the main thread is unfinished *)
    assert (Honly : forall m, unfinished s m = true -> m = root).
    { intros m Hm. destruct (Z.eq_dec m root) as [|Hne]; [assumption|]. exfalso.
      assert (Hin : In m U').
      { apply filter_In. split.
        - apply sget_In. unfold unfinished in Hm. destruct (sget (lstat s) m); [discriminate|discriminate].
        - rewrite Hm. apply Z.eqb_neq in Hne. rewrite Hne. reflexivity. }
      rewrite HU in Hin. contradiction. }
    pose proof (Honly m0 Hm0) as ->. destruct (Hall root Hm0) as [p Hp].
    destruct (li_wait _ HI root p Hp) as [Hreg [Hne _]].
    apply (Hwake root p Hp). apply fin_of_registered; [exact Hreg|].
    destruct (unfinished s p) eqn:Hu; [|reflexivity]. exfalso. apply Hne. apply Honly. exact Hu.
  - assert (HneU : U' <> []) by (rewrite HU; discriminate).
    destruct (minimal_exists E U' Hacyc HneU) as [m [Hm Hmin]].
    apply filter_In in Hm. destruct Hm as [Hmd Hmc]. apply andb_true_iff in Hmc. destruct Hmc as [Hmu Hmr].
    apply negb_true_iff, Z.eqb_neq in Hmr. destruct (Hall m Hmu) as [p Hp].
    destruct (li_wait _ HI m p Hp) as [Hreg [Hne [Hreach|[Hc _]]]]; [|contradiction].
    apply (Hwake m p Hp). apply fin_of_registered; [exact Hreg|].
    destruct (unfinished s p) eqn:Hu; [|reflexivity]. exfalso. apply (Hmin p); [|exact Hreach].
    apply filter_In. split; [apply sget_In; exact Hreg|]. rewrite Hu. cbn [andb]. apply negb_true_iff, Z.eqb_neq.
    intros ->. exact (no_reach_root m Hreach).
Qed.

(** in every state in which some thread is unfinished, some thread can take a step *)
Theorem no_deadlock_l : forall s, LInv s -> all_fin s = false -> exists l s', step s l = Some s'.
Proof.
  intros s HI Hnf. pose proof (li_root _ HI) as Hroot.
  destruct (all_fin_false s (li_nodup _ HI) Hnf) as [m0 Hm0].
  (* is some thread running? *)
  destruct (existsb (fun m => is_run s m) (dom s)) eqn:Hex.
  - apply existsb_exists in Hex. destruct Hex as [m [Hmd Hrun]].
    destruct (Z.eq_dec m root) as [->|Hne].
    + destruct (lphase s) eqn:Hph.
      * exists (LJoin root root). cbn [lstep]. rewrite Hrun, Hph, orb_true_r. cbn [andb].
        destruct (join_decision E s root root); eexists; reflexivity.
      * pose proof (li_script _ HI Hph) as Hsc. destruct (lscript s) as [|[p|p|p] sc] eqn:Hl.
        -- exists LDone. cbn [lstep]. rewrite Hph, Hl, Hroot, Hrun. eexists. reflexivity.
        -- cbn [script_okb] in Hsc. apply andb_true_iff in Hsc. destruct Hsc as [Hp _].
           apply negb_true_iff, memz_false in Hp. exists (LStart p). cbn [lstep]. rewrite Hph, Hl, Hroot, Hrun, Z.eqb_refl.
           cbn [andb]. destruct (sget (lstat s) p) eqn:Hg; [exfalso; apply Hp; apply sget_In; congruence|]. eexists. reflexivity.
        -- cbn [script_okb] in Hsc. apply andb_true_iff in Hsc. destruct Hsc as [Hp _].
           apply negb_true_iff, memz_false in Hp. exists (LMark p). cbn [lstep]. rewrite Hph, Hl, Hroot, Hrun, Z.eqb_refl.
           cbn [andb]. destruct (sget (lstat s) p) eqn:Hg; [exfalso; apply Hp; apply sget_In; congruence|]. eexists. reflexivity.
        -- cbn [script_okb] in Hsc. apply andb_true_iff in Hsc. destruct Hsc as [Hp _]. apply andb_true_iff in Hp.
           destruct Hp as [Hp Hpr]. apply memz_In in Hp. exists (LWaitFin p). cbn [lstep].
           rewrite Hph, Hl, Hroot, Hrun, Z.eqb_refl, Hpr. cbn [andb].
           destruct (sget (lstat s) p) eqn:Hg; [eexists; reflexivity|]. exfalso. apply sget_In in Hp. congruence.
    + exists (LJoin m m). cbn [lstep]. rewrite Hrun, Hroot. apply Z.eqb_neq in Hne. rewrite Hne. cbn [negb orb andb].
      destruct (join_decision E s m m); eexists; reflexivity.
  - (* nobody runs: every unfinished thread is blocked *)
    assert (Hall : forall m, unfinished s m = true -> exists p, sget (lstat s) m = Some (TWait p)).
    { intros m Hm. unfold unfinished in Hm. destruct (sget (lstat s) m) as [[|p|]|] eqn:Hg; try discriminate.
      - exfalso. assert (Hin : In m (dom s)) by (apply sget_In; congruence).
        assert (Hf : existsb (fun m => is_run s m) (dom s) = true).
        { apply existsb_exists. exists m. split; [exact Hin|]. apply is_run_spec. exact Hg. }
        congruence.
      - exists p. reflexivity. }
    destruct (blocked_wake s HI (ex_intro _ m0 Hm0) Hall) as [m [s' Hs]]. exists (LWake m), s'. exact Hs.
Qed.

End LTS.
