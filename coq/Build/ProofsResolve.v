(** C20 — dependency resolution builds the graph only through add_node_if_none / inc_ref, hence (C21) the result
    is a DAG; every refused import closes an import cycle and the module containing it is inlined. *)
From Coq Require Import ZArith List Bool Arith Lia.
From ErgV Require Import Graph.Model Graph.Spec Graph.ProofsReach Graph.Proofs Build.Model Build.ProofsAnc Build.ProofsDeps.
Import ListNotations.
Open Scope Z_scope.

Lemma run_ops_app : forall a b g, run_ops g (a ++ b) = (do g' <- run_ops g a; run_ops g' b).
Proof.
  induction a as [|o a IH]; intros b g; [reflexivity|]. cbn [app run_ops].
  destruct (step g o) as [x| |]; cbn [bind]; [apply IH|reflexivity|reflexivity].
Qed.

Lemma no_rename_app : forall a b, no_rename (a ++ b) = no_rename a && no_rename b.
Proof. intros. unfold no_rename. apply forallb_app. Qed.

Lemma no_rename_hist_ok : forall os g, no_rename os = true -> hist_ok g os = true.
Proof.
  induction os as [|o os IH]; intros g H; [reflexivity|]. cbn [no_rename forallb] in H. apply andb_true_iff in H.
  destruct H as [Ho Hos]. cbn [hist_ok]. apply andb_true_iff. split.
  - destruct o; try reflexivity. discriminate.
  - destruct (step g o) as [x| |]; [apply IH; exact Hos|reflexivity|reflexivity].
Qed.

Lemma inl_mem_app : forall a l l', inl_mem a l = true -> inl_mem a (l ++ l') = true.
Proof.
  intros a l l'. unfold inl_mem. induction l as [|[k v] r IH]; [discriminate|]. cbn [app inl_get].
  destruct (Z.eqb k a); [reflexivity|exact IH].
Qed.
Lemma inl_mem_snoc : forall a l q, inl_mem a (l ++ [(a, q)]) = true.
Proof.
  intros a l q. unfold inl_mem. induction l as [|[k v] r IH]; cbn [app inl_get].
  - rewrite Z.eqb_refl. reflexivity.
  - destruct (Z.eqb k a); [reflexivity|exact IH].
Qed.

Lemma zz_dec : forall x y : Z * Z, {x = y} + {x <> y}.
Proof. decide equality; apply Z.eq_dec. Qed.

Section Resolve.
Variable P : project.

Record Inv (st : rst) : Prop := {
  i_inv : index_inv (rg st);
  i_run : run_ops empty (rlog st) = Ok (rg st);
  i_nor : no_rename (rlog st) = true;
  i_ref : forall a b, In (a, b) (rref st) -> a <> b /\ reach (Ed (rg st)) b a /\ In b (imports_of P a);
  i_imp : forall a b, In (a, b) (Ed (rg st)) -> In b (imports_of P a);
  i_closed : forall a b, In (a, b) (Ed (rg st)) -> In b (Nd (rg st));
  i_inl : forall p q, In (p, q) (rinl st) -> In p (imports_of P q)
}.

(** what a call adds *)
Definition grows (st st' : rst) : Prop :=
  (exists l, rinl st' = rinl st ++ l) /\ (exists l, rref st' = rref st ++ l) /\
  (forall e, In e (Ed (rg st)) -> In e (Ed (rg st'))).

Lemma grows_refl : forall st, grows st st.
Proof. intros st. split; [exists []; symmetry; apply app_nil_r|]. split; [exists []; symmetry; apply app_nil_r|auto]. Qed.
Lemma grows_trans : forall a b c, grows a b -> grows b c -> grows a c.
Proof.
  intros a b c [[l1 H1] [[m1 M1] E1]] [[l2 H2] [[m2 M2] E2]]. split; [|split].
  - exists (l1 ++ l2). rewrite H2, H1, app_assoc. reflexivity.
  - exists (m1 ++ m2). rewrite M2, M1, app_assoc. reflexivity.
  - auto.
Qed.

(** new refused imports of a call made on behalf of module [m]: either the refusal is [m]'s own (and then the
    call reports an error) or the refusing module has been inlined *)
Definition newref (m : Z) (st st' : rst) (errs : list Z) : Prop :=
  forall a b, In (a, b) (rref st') -> ~ In (a, b) (rref st) -> (a = m /\ errs <> []) \/ inl_mem a (rinl st') = true.

(** one `add_node_if_none(import); inc_ref(from, import)` *)
Lemma inc_step : forall st from imp x, Inv st -> In imp (imports_of P from) ->
  inc_ref (add_node_if_none (rg st) imp) from imp = Ok x ->
  let log := rlog st ++ [OAdd imp; OInc from imp] in
  index_inv (snd x) /\ run_ops empty log = Ok (snd x) /\ no_rename log = true /\
  (forall e, In e (Ed (rg st)) -> In e (Ed (snd x))) /\
  (forall a b, In (a, b) (Ed (snd x)) -> In b (imports_of P a)) /\
  (forall a b, In (a, b) (Ed (snd x)) -> In b (Nd (snd x))) /\
  (fst x = IncCycle -> from <> imp /\ reach (Ed (snd x)) imp from).
Proof.
  intros st from imp x HI Himp Hinc log. destruct HI as [Hinv Hrun Hnor Href Himps Hcl Hinl].
  set (g1 := add_node_if_none (rg st) imp) in *.
  assert (Hinv1 : index_inv g1) by (apply index_inv_add; exact Hinv).
  assert (Hed1 : Ed g1 = Ed (rg st)) by (apply add_node_edges).
  assert (Hnd1 : forall y, In y (Nd g1) <-> y = imp \/ In y (Nd (rg st))).
  { intros y. unfold Nd, g1. rewrite (add_node_ids (rg st) imp Hinv y). cbn [In]. split; intros [H1|H1]; auto. }
  assert (Hlog : run_ops empty log = Ok (snd x)).
  { unfold log. rewrite run_ops_app, Hrun. cbn [bind run_ops step snd fst]. fold g1. rewrite Hinc. reflexivity. }
  assert (Hnor' : no_rename log = true) by (unfold log; rewrite no_rename_app, Hnor; reflexivity).
  assert (Hinvx : index_inv (snd x)) by (eapply index_inv_inc; eassumption).
  destruct (inc_ref_spec g1 from imp Hinv1) as [S1 [S2 S3]].
  set (g1' := add_node_if_none g1 from) in *.
  assert (Hed1' : Ed g1' = Ed (rg st)) by (unfold g1'; rewrite <- Hed1; apply add_node_edges).
  assert (Hnd1' : forall y, In y (Nd g1) -> In y (Nd g1')).
  { intros y Hy. pose proof (add_node_ids g1 from Hinv1 y) as H. apply H. right. exact Hy. }
  destruct (Z.eq_dec from imp) as [Heq|Hne].
  - rewrite (S1 Heq) in Hinc. inversion Hinc; subst x. cbn [fst snd].
    split; [exact Hinvx|]. split; [exact Hlog|]. split; [exact Hnor'|]. rewrite Hed1'.
    split; [auto|]. split; [exact Himps|]. split; [|discriminate].
    intros a b He. apply Hnd1', Hnd1. right. eapply Hcl; eassumption.
  - destruct (reach_dec (edges_of (nodes g1)) imp from) as [Hr|Hnr].
    + rewrite (S2 Hne Hr) in Hinc. inversion Hinc; subst x. cbn [fst snd].
      split; [exact Hinvx|]. split; [exact Hlog|]. split; [exact Hnor'|]. rewrite Hed1'.
      split; [auto|]. split; [exact Himps|]. split.
      * intros a b He. apply Hnd1', Hnd1. right. eapply Hcl; eassumption.
      * intros _. split; [exact Hne|]. change (edges_of (nodes g1)) with (Ed g1) in Hr. rewrite Hed1 in Hr. exact Hr.
    + destruct (S3 Hne Hnr) as [g2 [Hg2 [Hinv2 [Hids He2]]]]. rewrite Hg2 in Hinc. inversion Hinc; subst x. cbn [fst snd].
      change (edges_of (nodes g1)) with (Ed g1) in He2. rewrite Hed1 in He2.
      split; [exact Hinv2|]. split; [exact Hlog|]. split; [exact Hnor'|].
      split; [intros e He; apply He2; right; exact He|]. split; [|split; [|discriminate]].
      * intros a b He. apply He2 in He. destruct He as [He|He]; [inversion He; subst; exact Himp|apply Himps; exact He].
      * intros a b He. unfold Nd. rewrite Hids. apply Hnd1'. apply Hnd1. apply He2 in He.
        destruct He as [He|He]; [inversion He; subst; left; reflexivity|right; eapply Hcl; eassumption].
Qed.

Lemma Inv_core : forall st st', Inv st -> rg st' = rg st -> rlog st' = rlog st -> rref st' = rref st ->
  (forall p q, In (p, q) (rinl st') -> In p (imports_of P q)) -> Inv st'.
Proof.
  intros st st' H Hg Hl Hr Hi. destruct H. constructor; rewrite ?Hg, ?Hl, ?Hr; auto.
Qed.

Lemma register_S : forall f from imp st,
  register (S f) P from imp st =
    match find_mod P imp with
    | None => Ok ([], st)
    | Some imps =>
      let g1 := add_node_if_none (rg st) imp in
      do x <- inc_ref g1 from imp;
      let log := rlog st ++ [OAdd imp; OInc from imp] in
      match fst x with
      | IncCycle =>
        Ok ([imp], {| rg := snd x; rinl := rinl st; rasts := rasts st; rcyc := rcyc st; rlog := log;
                      rref := rref st ++ [(from, imp)] |})
      | IncOk =>
        let st1 := {| rg := snd x; rinl := rinl st; rasts := rasts st; rcyc := rcyc st; rlog := log;
                      rref := rref st |} in
        if Z.eqb imp from || inl_mem imp (rinl st1) || memz imp (rasts st1) then Ok ([], st1)
        else
          do r <- each_import (register f P imp) imps [] st1;
          let st2 := snd r in
          match fst r with
          | [] =>
            Ok ([], {| rg := rg st2; rinl := rinl st2; rasts := rasts st2 ++ [imp]; rcyc := rcyc st2;
                       rlog := rlog st2; rref := rref st2 |})
          | errs =>
            let inl := rinl st2 ++ [(imp, from)] in
            match filter (fun p => negb (Z.eqb p from)) errs with
            | [] => Ok ([], {| rg := rg st2; rinl := inl; rasts := rasts st2; rcyc := rcyc st2 ++ [from];
                               rlog := rlog st2; rref := rref st2 |})
            | errs' => Ok (errs', {| rg := rg st2; rinl := inl; rasts := rasts st2; rcyc := rcyc st2;
                                     rlog := rlog st2; rref := rref st2 |})
            end
          end
      end
    end.
Proof. reflexivity. Qed.

Definition reg_post (from : Z) (st : rst) (errs : list Z) (st' : rst) : Prop :=
  Inv st' /\ grows st st' /\ newref from st st' errs.

Lemma each_spec_r : forall (reg : Z -> rst -> res (list Z * rst)) m,
  (forall i st errs st', In i (imports_of P m) -> Inv st -> reg i st = Ok (errs, st') -> reg_post m st errs st') ->
  forall is errs st errs' st', incl is (imports_of P m) -> Inv st ->
    each_import reg is errs st = Ok (errs', st') ->
    Inv st' /\ grows st st' /\ (errs <> [] -> errs' <> []) /\
    (forall a b, In (a, b) (rref st') -> ~ In (a, b) (rref st) -> (a = m /\ errs' <> []) \/ inl_mem a (rinl st') = true).
Proof.
  intros reg m Hreg. induction is as [|i is IH]; intros errs st errs' st' Hincl HI H.
  - cbn [each_import] in H. inversion H; subst. split; [exact HI|]. split; [apply grows_refl|]. split; [auto|].
    intros a b H1 H2. contradiction.
  - cbn [each_import] in H. destruct (reg i st) as [[e1 s1]| |] eqn:Hr; cbn [bind fst snd] in H; try discriminate.
    destruct (Hreg i st e1 s1 (Hincl i (or_introl eq_refl)) HI Hr) as [HI1 [G1 N1]].
    destruct (IH (errs ++ e1) s1 errs' st' (fun x Hx => Hincl x (or_intror Hx)) HI1 H) as [HI2 [G2 [NE2 N2]]].
    split; [exact HI2|]. split; [eapply grows_trans; eassumption|]. split.
    + intros Hne. apply NE2. intros Hc. apply app_eq_nil in Hc. tauto.
    + intros a b Hin Hnin. destruct (in_dec zz_dec (a, b) (rref s1)) as [H1|H1].
      * destruct (N1 a b H1 Hnin) as [[-> Hne]|Hm].
        -- left. split; [reflexivity|]. apply NE2. intros Hc. apply app_eq_nil in Hc. tauto.
        -- right. destruct G2 as [[l Hl] _]. rewrite Hl. apply inl_mem_app. exact Hm.
      * apply (N2 a b); assumption.
Qed.


Lemma reach_grow : forall (E1 E2 : list (Z * Z)) a b, (forall e, In e E1 -> In e E2) -> reach E1 a b -> reach E2 a b.
Proof. intros E1 E2 a b H. apply reach_mono. exact H. Qed.

Lemma register_spec : forall f from imp st errs st', In imp (imports_of P from) -> Inv st ->
  register f P from imp st = Ok (errs, st') -> reg_post from st errs st'.
Proof.
  induction f as [|f IH]; intros from imp st errs st' Himp HI H; [discriminate|].
  rewrite register_S in H. destruct (find_mod P imp) as [imps|] eqn:Hfm.
  2: { inversion H; subst. split; [exact HI|]. split; [apply grows_refl|]. intros a b H1 H2; contradiction. }
  cbv zeta in H.
  destruct (inc_ref (add_node_if_none (rg st) imp) from imp) as [x| |] eqn:Hinc; cbn [bind] in H; try discriminate.
  destruct (inc_step st from imp x HI Himp Hinc) as [J1 [J2 [J3 [J4 [J5 [J6 J7]]]]]].
  destruct (fst x) eqn:Hfx.
  - (* the edge was accepted *)
    set (st1 := {| rg := snd x; rinl := rinl st; rasts := rasts st; rcyc := rcyc st;
                   rlog := rlog st ++ [OAdd imp; OInc from imp]; rref := rref st |}) in *.
    assert (HI1 : Inv st1).
    { constructor; cbn [st1 rg rinl rasts rcyc rlog rref]; auto.
      - intros a b Hab. destruct (i_ref _ HI a b Hab) as [H1 [H2 H3]]. split; [exact H1|]. split; [|exact H3].
        eapply reach_grow; [exact J4|exact H2].
      - exact (i_inl _ HI). }
    assert (G1 : grows st st1).
    { split; [exists []; cbn [st1 rinl]; symmetry; apply app_nil_r|].
      split; [exists []; cbn [st1 rref]; symmetry; apply app_nil_r|exact J4]. }
    destruct (Z.eqb imp from || inl_mem imp (rinl st1) || memz imp (rasts st1)) eqn:Hc.
    + inversion H; subst. split; [exact HI1|]. split; [exact G1|]. intros a b H1 H2. contradiction.
    + destruct (each_import (register f P imp) imps [] st1) as [[e2 s2]| |] eqn:He; cbn [bind fst snd] in H; try discriminate.
      assert (Himps : imports_of P imp = imps) by (unfold imports_of; rewrite Hfm; reflexivity).
      destruct (each_spec_r (register f P imp) imp
                  (fun i s e s' Hi HIs Hr => IH imp i s e s' Hi HIs Hr) imps [] st1 e2 s2) as [HI2 [G2 [_ N2]]];
        [rewrite Himps; apply incl_refl|exact HI1|exact He|].
      destruct e2 as [|z e2].
      * inversion H; subst. split; [|split].
        -- eapply Inv_core; [exact HI2|reflexivity|reflexivity|reflexivity|exact (i_inl _ HI2)].
        -- eapply grows_trans; [exact G1|]. destruct G2 as [A [B C]]. split; [exact A|]. split; [exact B|exact C].
        -- intros a b H1 H2. cbn [rref rinl] in *. destruct (N2 a b H1 H2) as [[_ Hn]|Hm]; [congruence|right; exact Hm].
      * assert (Hfin : forall errs0 cyc, reg_post from st errs0
                  {| rg := rg s2; rinl := rinl s2 ++ [(imp, from)]; rasts := rasts s2; rcyc := cyc;
                     rlog := rlog s2; rref := rref s2 |}).
        { intros errs0 cyc. split; [|split].
          - eapply Inv_core; [exact HI2|reflexivity|reflexivity|reflexivity|]. cbn [rinl]. intros p q Hpq.
            apply in_app_or in Hpq. destruct Hpq as [Hpq|[Hpq|[]]]; [exact (i_inl _ HI2 p q Hpq)|]. inversion Hpq; subst. exact Himp.
          - eapply grows_trans; [exact G1|]. destruct G2 as [[l A] [B C]]. split; [|split; [exact B|exact C]].
            exists (l ++ [(imp, from)]). cbn [rinl]. rewrite A, app_assoc. reflexivity.
          - intros a b H1 H2. cbn [rref rinl] in *. right. destruct (N2 a b H1 H2) as [[-> _]|Hm].
            + apply inl_mem_snoc.
            + apply inl_mem_app. exact Hm. }
        cbv zeta in H. destruct (filter (fun p => negb (Z.eqb p from)) (z :: e2)); inversion H; subst; apply Hfin.
  - (* the edge was refused: it would close a cycle *)
    inversion H; subst. destruct (J7 eq_refl) as [K1 K2]. split; [|split].
    + constructor; cbn [rg rinl rasts rcyc rlog rref]; auto.
      * intros a b Hab. apply in_app_or in Hab. destruct Hab as [Hab|[Hab|[]]].
        -- destruct (i_ref _ HI a b Hab) as [H1 [H2 H3]]. split; [exact H1|]. split; [|exact H3].
           eapply reach_grow; [exact J4|exact H2].
        -- inversion Hab; subst. auto.
      * exact (i_inl _ HI).
    + split; [exists []; cbn [rinl]; symmetry; apply app_nil_r|]. split; [eexists; cbn [rref]; reflexivity|exact J4].
    + intros a b H1 H2. cbn [rref] in H1. apply in_app_or in H1. destruct H1 as [H1|[H1|[]]]; [contradiction|].
      inversion H1; subst. left. split; [reflexivity|discriminate].
Qed.

Lemma Inv_rst0 : Inv rst0.
Proof.
  constructor; cbn [rst0 rg rinl rasts rcyc rlog rref]; try (intros; contradiction).
  - apply index_inv_empty.
  - reflexivity.
  - reflexivity.
Qed.

Lemma resolve_root_spec : forall fuel root r, resolve_root fuel P root = Ok r ->
  Inv r /\ (forall a b, In (a, b) (rref r) -> inl_mem a (rinl r) = true).
Proof.
  intros fuel root r H. unfold resolve_root in H.
  destruct (each_import (register fuel P root) (imports_of P root) [] rst0) as [[e s]| |] eqn:He; cbn [bind fst snd] in H; try discriminate.
  destruct e; [|discriminate]. inversion H; subst s.
  destruct (each_spec_r (register fuel P root) root
              (fun i s e s' Hi HIs Hr => register_spec fuel root i s e s' Hi HIs Hr) (imports_of P root) [] rst0 [] r)
    as [HI [_ [_ N]]]; [apply incl_refl|apply Inv_rst0|exact He|].
  split; [exact HI|]. intros a b Hab. destruct (N a b Hab (fun x => x)) as [[_ Hn]|Hm]; [congruence|exact Hm].
Qed.

Lemma resolve_acyclic : forall r, Inv r -> acyclic (Ed (rg r)).
Proof. intros r HI. exact (acyclic_inv_l (rlog r) (rg r) (i_nor _ HI) (i_run _ HI)). Qed.

End Resolve.
