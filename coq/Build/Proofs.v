(** C20 / C19 — the lemmas behind Props_C20.v / Props_C19.v that tie the parts together *)
From Coq Require Import ZArith List Bool Arith Lia.
From ErgV Require Import Graph.Model Graph.Spec Graph.ProofsReach Graph.Proofs.
From ErgV Require Import Build.Model Build.Spec Build.ProofsAnc Build.ProofsDeps Build.ProofsResolve Build.ProofsLts Build.ProofsConf.
Import ListNotations.
Open Scope Z_scope.

(* ---------------------------------------------------------------- resolution result -> build_deps_and_module *)
Lemma wf_resb_WF : forall P r root ords, Inv P r -> wf_resb r root = true -> WF root (rg r) (bst_of r ords).
Proof.
  intros P r root ords HI H. unfold wf_resb in H. apply andb_true_iff in H. destruct H as [H H3].
  apply andb_true_iff in H. destruct H as [H1 H2]. rewrite forallb_forall in H1, H2, H3.
  constructor; cbn [bst_of bg basts binl breg bev].
  - exact (i_inv _ _ HI).
  - exact (resolve_acyclic P r HI).
  - intros a d He. specialize (H1 (a, d) He). cbn [snd] in H1. apply andb_true_iff in H1. apply memz_In. apply H1.
  - intros x Hx Hne. specialize (H2 x Hx). apply orb_true_iff in H2. destruct H2 as [H2|H2].
    + apply orb_true_iff in H2. destruct H2 as [H2|H2]; [apply Z.eqb_eq in H2; contradiction|left; apply memz_In; exact H2].
    + right. left. exact H2.
  - intros a He. specialize (H1 (a, root) He). cbn [snd] in H1. apply andb_true_iff in H1. destruct H1 as [_ H1].
    rewrite Z.eqb_refl in H1. discriminate.
  - intros x Hx. apply memz_In. apply H3. exact Hx.
  - intros x [].
  - intros b d Hb Hd. left. exact Hd.
  - intros x. cbn. tauto.
  - constructor.
  - intros a d pre post Heq. destruct pre; discriminate.
Qed.

(** build_deps_and_module, started by execute on the result of a resolution, terminates within the bound without
    panic, and execute's assertion (every ancestor of the root is registered) holds *)
Lemma execute_ok : forall P r root ords, Inv P r -> wf_resb r root = true ->
  exists st', execute r root ords = Ok st' /\
              deps (deps_bound (length (nodes (rg r)))) root (bst_of r ords) = Ok st' /\
              Post root (rg r) (bst_of r ords) st'.
Proof.
  intros P r root ords HI Hwf. pose proof (wf_resb_WF P r root ords HI Hwf) as W.
  destruct (deps_ok root (rg r) (length (nodes (rg r))) (bst_of r ords) root (deps_bound (length (nodes (rg r)))) W)
    as [st' [Hd [HP Hall]]]; [cbn [bst_of bg]; lia|lia|].
  exists st'. split; [|split; [exact Hd|exact HP]]. unfold execute. rewrite Hd. cbn [bind].
  destruct (ancestors_total (rg r) root (i_inv _ _ HI)) as [anc Hanc]. rewrite Hanc. cbn [bind].
  assert (Hf : forallb (fun p => memz p (breg st')) anc = true).
  { apply forallb_forall. intros p Hp. apply memz_In. eapply Hall; [exact Hanc|exact Hp]. }
  rewrite Hf. reflexivity.
Qed.

Lemma starts_topological : forall P r root ords st', Inv P r -> wf_resb r root = true ->
  execute r root ords = Ok st' ->
  NoDup (handled (bev st')) /\
  (forall x, reach (Ed (rg r)) root x -> In x (handled (bev st'))) /\
  (forall a d pre post, bev st' = pre ++ EvStart a :: post -> In (a, d) (Ed (rg r)) -> In d (popped pre)).
Proof.
  intros P r root ords st' HI Hwf Hex. destruct (execute_ok P r root ords HI Hwf) as [st2 [Hex2 [Hd HP]]].
  rewrite Hex in Hex2. inversion Hex2; subst st2. pose proof (p_wf _ _ _ _ HP) as W.
  split; [exact (wf_nodup _ _ _ W)|]. split.
  - intros x Hx. apply (wf_regev _ _ _ W). unfold execute in Hex. rewrite Hd in Hex. cbn [bind] in Hex.
    destruct (ancestors (rg r) root) as [anc| |] eqn:Hanc; cbn [bind] in Hex; try discriminate.
    destruct (forallb (fun p => memz p (breg st')) anc) eqn:Hf; [|discriminate]. rewrite forallb_forall in Hf.
    apply memz_In. apply Hf. eapply ancestors_complete; [exact (i_inv _ _ HI)|exact Hanc|exact Hx].
  - exact (wf_topo _ _ _ W).
Qed.

(* ---------------------------------------------------------------- the loop on a cyclic graph *)
(** the design round read that build_deps_and_module may loop forever on a cyclic graph.  It does: on the graph
    1 -> 2 -> 1 the loop rotates its two ancestors for ever (the model runs out of every fuel).  Such a graph is
    never handed to it, because resolution builds the graph through inc_ref only (resolve_acyclic). *)
Definition g_cyc : graph :=
  {| nodes := [{| nid := 1; ndeps := [2] |}; {| nid := 2; ndeps := [1] |}]; index := [(1, 0%nat); (2, 1%nat)] |}.
Definition st_cyc : bst := {| bg := g_cyc; basts := [1; 2]; binl := []; breg := []; bev := []; bord := [] |}.

Lemma loop_cyc : forall f st, bg st = g_cyc -> loop f 1 [1; 2] st = Fuel /\ loop f 1 [2; 1] st = Fuel.
Proof.
  induction f as [|f IH]; intros st Hg; [split; reflexivity|]. destruct (IH st Hg) as [I1 I2]. split.
  - rewrite loop_cons, Hg. replace (parents g_cyc 1) with (Ok (Some [2]) : res (option (list Z))) by (vm_compute; reflexivity).
    cbn [bind is_nil app]. exact I2.
  - rewrite loop_cons, Hg. replace (parents g_cyc 2) with (Ok (Some [1]) : res (option (list Z))) by (vm_compute; reflexivity).
    cbn [bind is_nil app]. exact I1.
Qed.

Lemma deps_cyclic_diverges : index_inv g_cyc /\ ~ acyclic (Ed g_cyc) /\ forall n, deps n 1 st_cyc = Fuel.
Proof.
  split; [|split].
  - split; [|intros p; cbn [g_cyc index nodes map nid idx_get position]].
    + cbn. repeat constructor; cbn; intuition congruence.
    + destruct (Z.eqb 1 p) eqn:H1; [reflexivity|]. destruct (Z.eqb 2 p) eqn:H2; reflexivity.
  - intros Hac. apply (Hac 1). eapply reach_step with (c := 2); [cbn; auto|]. apply reach_edge. cbn. auto.
  - intros [|f]; [reflexivity|]. rewrite deps_S.
    replace (ancestors (bg st_cyc) 1) with (Ok [2; 1] : res (list Z)) by (vm_compute; reflexivity).
    cbn [bind]. cbv zeta. cbn [st_cyc bord pick_order fst snd rev app].
    destruct (loop_cyc f (add_ev (set_ords st_cyc []) (EvEnter 1 [2; 1])) eq_refl) as [H _]. rewrite H. reflexivity.
Qed.

(* ---------------------------------------------------------------- small scope: resolution always yields a well-formed result *)
Definition lists3 : list (list Z) :=
  [[]; [0]; [1]; [2]; [0;1]; [1;0]; [0;2]; [2;0]; [1;2]; [2;1];
   [0;1;2]; [0;2;1]; [1;0;2]; [1;2;0]; [2;0;1]; [2;1;0]].
Definition projects3 : list project :=
  flat_map (fun a => flat_map (fun b => map (fun c => [(0, a); (1, b); (2, c)]) lists3) lists3) lists3.

Definition resolves_wf (P : project) (root : Z) : bool :=
  match resolve_root (resolve_fuel P) P root with
  | Ok r => wf_resb r root &&
            match execute r root [] with Ok st => script_okb root [root] (script_of (bev st)) | _ => false end
  | _ => false
  end.

Lemma resolve_wf_small : forallb (fun P => resolves_wf P 0) projects3 = true.
Proof. vm_compute. reflexivity. Qed.

(* ---------------------------------------------------------------- statements of Props_C20.v / Props_C19.v *)
Lemma cycle_inlined_l : forall P fuel root r, resolve_root fuel P root = Ok r ->
  index_inv (rg r) /\ acyclic (Ed (rg r)) /\
  (exists os, no_rename os = true /\ run_ops empty os = Ok (rg r)) /\
  (forall a b, In (a, b) (Ed (rg r)) -> In b (imports_of P a)) /\
  (forall a b, In (a, b) (rref r) ->
     a <> b /\ In b (imports_of P a) /\ reach (Ed (rg r)) b a /\
     exists q, inl_get (rinl r) a = Some q) /\
  (forall p q, In (p, q) (rinl r) -> In p (imports_of P q)).
Proof.
  intros P fuel root r H. destruct (resolve_root_spec P fuel root r H) as [HI Href].
  split; [exact (i_inv _ _ HI)|]. split; [exact (resolve_acyclic P r HI)|].
  split; [exists (rlog r); split; [exact (i_nor _ _ HI)|exact (i_run _ _ HI)]|].
  split; [exact (i_imp _ _ HI)|]. split; [|exact (i_inl _ _ HI)].
  intros a b Hab. destruct (i_ref _ _ HI a b Hab) as [H1 [H2 H3]]. split; [exact H1|]. split; [exact H3|]. split; [exact H2|].
  specialize (Href a b Hab). unfold inl_mem in Href. destruct (inl_get (rinl r) a) as [q|]; [exists q; reflexivity|discriminate].
Qed.

Lemma execute_terminates_l : forall P fuel root r ords, resolve_root fuel P root = Ok r -> wf_resb r root = true ->
  exists st', execute r root ords = Ok st'.
Proof.
  intros P fuel root r ords H Hwf. destruct (resolve_root_spec P fuel root r H) as [HI _].
  destruct (execute_ok P r root ords HI Hwf) as [st' [He _]]. exists st'. exact He.
Qed.

Lemma starts_each_once_l : forall P fuel root r ords st',
  resolve_root fuel P root = Ok r -> wf_resb r root = true -> execute r root ords = Ok st' ->
  NoDup (handled (bev st')) /\
  (forall x, reach (Ed (rg r)) root x -> In x (handled (bev st'))) /\
  (forall a d pre post, bev st' = pre ++ EvStart a :: post -> In (a, d) (Ed (rg r)) -> In d (popped pre)).
Proof.
  intros P fuel root r ords st' H Hwf He. destruct (resolve_root_spec P fuel root r H) as [HI _].
  exact (starts_topological P r root ords st' HI Hwf He).
Qed.

Lemma no_deadlock_run : forall E inl F root sc ls s, acyclic E -> (forall a, ~ In (a, root) E) ->
  script_okb root [root] sc = true -> lrun E inl F (linit root sc) ls = Some s -> all_fin s = false ->
  exists l s', lstep E inl F s l = Some s'.
Proof.
  intros E inl F root sc ls s Hac Hnr Hsc Hrun Hnf.
  exact (no_deadlock_l E inl F root Hac Hnr s (lrun_inv E inl F root ls _ _ (LInv_init E root sc Hsc) Hrun) Hnf).
Qed.

Lemma no_circular_wait_run : forall E inl F root sc ls s, acyclic E -> (forall a, ~ In (a, root) E) ->
  script_okb root [root] sc = true -> lrun E inl F (linit root sc) ls = Some s ->
  (exists m, unfinished s m = true) ->
  (forall m, unfinished s m = true -> exists p, sget (lstat s) m = Some (TWait p)) ->
  exists m s', lstep E inl F s (LWake m) = Some s'.
Proof.
  intros E inl F root sc ls s Hac Hnr Hsc Hrun.
  exact (blocked_wake E inl F root Hac Hnr s (lrun_inv E inl F root ls _ _ (LInv_init E root sc Hsc) Hrun)).
Qed.

Lemma good_script_parts : forall E inl root sc, good_script E inl root sc = true ->
  script_okb root [root] sc = true /\ script_topob E inl [root] sc = true /\ private_inlines E inl = true /\
  inl_mem root inl = false.
Proof.
  intros E inl root sc H. unfold good_script in H. apply andb_true_iff in H. destruct H as [H H4].
  apply andb_true_iff in H. destruct H as [H H3]. apply andb_true_iff in H. destruct H as [H1 H2].
  apply negb_true_iff in H4. auto.
Qed.

Lemma confluence_run : forall E inl F root sc ls1 ls2 s1 s2, good_script E inl root sc = true ->
  (forall d, In (root, d) E -> In d (acts sc)) ->
  lrun E inl F (linit root sc) ls1 = Some s1 -> lrun E inl F (linit root sc) ls2 = Some s2 ->
  (forall m r1 r2, sget (lres s1) m = Some r1 -> sget (lres s2) m = Some r2 -> r1 = r2) /\
  (all_fin s1 = true -> all_fin s2 = true -> forall m, inl_mem m inl = false -> sget (lres s1) m = sget (lres s2) m).
Proof.
  intros E inl F root sc ls1 ls2 s1 s2 Hg Hrs H1 H2. destruct (good_script_parts _ _ _ _ Hg) as [G1 [G2 [G3 G4]]].
  exact (confluence_l E inl F root sc G1 G2 G3 G4 Hrs ls1 ls2 s1 s2 H1 H2).
Qed.

(** a run is sequential when the analysis of a started module runs to its end before the main thread goes on
    (the build without the `parallel` feature: start_analysis_process calls `run()` itself) *)
Fixpoint sequentialb (cur : option Z) (ls : list label) : bool :=
  match ls with
  | [] => match cur with None => true | Some _ => false end
  | l :: r =>
    match l, cur with
    | LStart p, None => sequentialb (Some p) r
    | LFinish m, Some c => Z.eqb m c && sequentialb None r
    | LFinish _, None => sequentialb None r
    | (LJoin m _ | LWake m | LInline m _), Some c => Z.eqb m c && sequentialb cur r
    | (LJoin _ _ | LWake _ | LInline _ _), None => sequentialb cur r
    | (LMark _ | LWaitFin _ | LDone), None => sequentialb None r
    | _, _ => false
    end
  end.

Lemma parallel_equals_sequential_l : forall E inl F root sc ls_par ls_seq s_par s_seq,
  good_script E inl root sc = true -> (forall d, In (root, d) E -> In d (acts sc)) ->
  sequentialb None ls_seq = true ->
  lrun E inl F (linit root sc) ls_par = Some s_par -> lrun E inl F (linit root sc) ls_seq = Some s_seq ->
  all_fin s_par = true -> all_fin s_seq = true ->
  forall m, inl_mem m inl = false -> sget (lres s_par) m = sget (lres s_seq) m.
Proof.
  intros E inl F root sc lp lq sp sq Hg Hrs _ Hp Hq Fp Fq.
  exact (proj2 (confluence_run E inl F root sc lp lq sp sq Hg Hrs Hp Hq) Fp Fq).
Qed.
