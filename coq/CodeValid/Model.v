(** C14 -- structural validity of a CPython code object (3.7 .. 3.11): the *validator*.

    Nothing here models erg's code generator: [valid_code] is a checker that is run on the real code objects
    the compiler emitted, and [Props_C14.valid_code_sound] proves that acceptance implies the four clauses of
    the property for that object (all paths, no bound).

    What is modelled is the *interpreter's* view of a code object:
      - instruction decoding (2-byte units, EXTENDED_ARG accumulation, 3.11 inline CACHE entries)
        = Python/ceval.c dispatch / Lib/dis.py _unpack_opargs;
      - jump targets per version (byte offsets <= 3.9; code-unit offsets 3.10; relative-only incl. backward 3.11)
        = Lib/dis.py findlabels / ceval.c JUMPTO, JUMPBY;
      - the line lookup used for tracebacks, Objects/codeobject.c PyCode_Addr2Line, transcribed per format:
        co_lnotab (<= 3.9), co_linetable (3.10), location table (3.11).  Where the C code would read past the end
        of a malformed table the model answers [LBad] (the C code has no bounds check there);
      - opcode classes / inline cache counts come from the generated table [ErgV.gen.PyOps] (the interpreters' own
        dis module), stack effects travel with each code object (dis.stack_effect of the target interpreter for
        exactly the (opcode, arg) pairs occurring in it).

    The stack-depth part is a certificate checker: [compute_annot] (not verified, fuelled Gauss-Seidel iteration)
    proposes an interval [lo, hi] of depths per instruction, the verified [check_annot] checks that the
    annotation is inductive. *)
From Coq Require Import ZArith List Bool FMapPositive.
From ErgV Require Import gen.PyOps.
Import ListNotations.
Open Scope Z_scope.

(** * Interpreter description *)
Record opinfo := mkop { oi_op : Z; oi_jmp : Z; oi_flow : Z; oi_idx : Z; oi_cache : Z }.

Record pyver := mkver {
  pv_id : Z;            (* 37 38 39 310 311 *)
  pv_ext : Z;           (* opcode number of EXTENDED_ARG *)
  pv_jscale : Z;        (* jump argument unit in bytes: 1 (<= 3.9) or 2 (>= 3.10) *)
  pv_linefmt : Z;       (* 0 co_lnotab | 1 co_linetable 3.10 | 2 location table 3.11 *)
  pv_ncmp : Z;          (* len(dis.cmp_op) *)
  pv_ops : list opinfo }.

Definition mkops (l : list (Z * Z * Z * Z * Z)) : list opinfo :=
  map (fun r => match r with (o, j, f, i, c) => mkop o j f i c end) l.

Definition py37 := mkver 37 pyext_37 1 0 pyncmp_37 (mkops pyops_37).
Definition py38 := mkver 38 pyext_38 1 0 pyncmp_38 (mkops pyops_38).
Definition py39 := mkver 39 pyext_39 1 0 pyncmp_39 (mkops pyops_39).
Definition py310 := mkver 310 pyext_310 2 1 pyncmp_310 (mkops pyops_310).
Definition py311 := mkver 311 pyext_311 2 2 pyncmp_311 (mkops pyops_311).

Definition pyver_of (id : Z) : option pyver :=
  if id =? 37 then Some py37 else if id =? 38 then Some py38 else if id =? 39 then Some py39
  else if id =? 310 then Some py310 else if id =? 311 then Some py311 else None.

Fixpoint lookup_op (ops : list opinfo) (op : Z) : option opinfo :=
  match ops with
  | [] => None
  | o :: r => if oi_op o =? op then Some o else lookup_op r op
  end.

(** stack effects: (opcode, arg, effect when falling through, effect when jumping) *)
Definition effects := list (Z * Z * Z * Z).
Fixpoint eff_lookup (E : effects) (op arg : Z) : option (Z * Z) :=
  match E with
  | [] => None
  | (o, a, en, ej) :: r => if (o =? op) && (a =? arg) then Some (en, ej) else eff_lookup r op arg
  end.

(** * Code objects *)
Record codeobj := mkco {
  co_code : list Z;        (* co_code, bytes *)
  co_stacksize : Z;
  co_nconsts : Z;          (* len(co_consts) *)
  co_nnames : Z;           (* len(co_names) *)
  co_nlocals : Z;          (* valid range of local operands: len(co_varnames); 3.11: nlocalsplus *)
  co_nfree : Z;            (* valid range of free/cell operands: len(cellvars)+len(freevars); 3.11: nlocalsplus *)
  co_firstlineno : Z;
  co_linetable : list Z;   (* co_lnotab / co_linetable bytes *)
  co_nlines : Z;           (* number of lines of the source file *)
  co_exclen : Z;           (* length of co_exceptiontable (3.11), 0 otherwise *)
  co_chkdepth : bool;      (* false only for 3.7 objects containing opcodes for which 3.7's dis.stack_effect
                              is no per-path oracle (END_FINALLY, WITH_CLEANUP_*, POP_EXCEPT) *)
  co_linked : bool;        (* the object is (inside) the body of an imported erg module that the compiler linked
                              into this file (a code object named %v_codegen_N); only used by [Known_C14] *)
  co_entry : Z             (* operand-stack depth at offset 0: 0, except 1 for generator / coroutine code under 3.10
                              (gen_send_ex pushes the sent value, GEN_START pops it; compile.c stackdepth()) and 3.11
                              (pushed on resumption after RETURN_GENERATOR, whose dis.stack_effect is 0 there) *)
}.

(** * Decoding *)
Record instr := mkI {
  i_off : Z;     (* offset of the first unit (first EXTENDED_ARG prefix if any): the address jumps must use *)
  i_opoff : Z;   (* offset of the unit holding the opcode: the address the interpreter reports (f_lasti) *)
  i_op : Z;
  i_arg : Z;     (* full argument *)
  i_next : Z     (* offset after the instruction and its inline cache entries *)
}.

(** bytes -> units (offset, opcode byte, argument byte); an odd length is malformed *)
Fixpoint units (bs : list Z) (off : Z) : option (list (Z * Z * Z)) :=
  match bs with
  | [] => Some []
  | [_] => None
  | op :: a :: r => match units r (off + 2) with
                    | None => None
                    | Some l => Some ((off, op, a) :: l)
                    end
  end.

(** units -> instructions. [start]: offset where a pending EXTENDED_ARG chain began, [acc]: its accumulated
    argument, [skip]: inline cache units still to be skipped.  Unknown opcode, argument above 32 bits, a
    dangling prefix or a cache running past the end: malformed. *)
Fixpoint dec (v : pyver) (us : list (Z * Z * Z)) (start : option Z) (acc : Z) (skip : Z) : option (list instr) :=
  match us with
  | [] => match start with
          | None => if skip =? 0 then Some [] else None
          | Some _ => None
          end
  | (off, op, a) :: r =>
    if 0 <? skip then dec v r start acc (skip - 1)
    else
      let st := match start with Some s => s | None => off end in
      let arg := acc * 256 + a in
      if 4294967296 <=? arg then None
      else if op =? pv_ext v then dec v r (Some st) arg 0
      else match lookup_op (pv_ops v) op with
           | None => None
           | Some oi =>
             match dec v r None 0 (oi_cache oi) with
             | None => None
             | Some l => Some (mkI st off op arg (off + 2 + 2 * oi_cache oi) :: l)
             end
           end
  end.

Definition decode (v : pyver) (code : list Z) : option (list instr) :=
  match units code 0 with
  | None => None
  | Some us => dec v us None 0 0
  end.

(** * Control flow *)
Definition exit_pc : Z := -1.

Definition jump_target (v : pyver) (oi : opinfo) (i : instr) : option Z :=
  let k := oi_jmp oi in
  if k =? 0 then None
  else if k =? 1 then Some (i_next i + pv_jscale v * i_arg i)
  else if k =? 2 then Some (pv_jscale v * i_arg i)
  else Some (i_next i - pv_jscale v * i_arg i).

(** control successors inside the code: fall-through and/or jump target *)
Definition targets (v : pyver) (i : instr) : list Z :=
  match lookup_op (pv_ops v) (i_op i) with
  | None => []
  | Some oi =>
    (if oi_flow oi =? 0 then [i_next i] else []) ++
    match jump_target v oi i with Some t => [t] | None => [] end
  end.

(** all outgoing edges with their stack effect; a terminal instruction has one edge to [exit_pc];
    [None]: no stack effect known for (opcode, arg) (dis.stack_effect raised) or implicit control transfer *)
Definition edges (v : pyver) (E : effects) (i : instr) : option (list (Z * Z)) :=
  match lookup_op (pv_ops v) (i_op i) with
  | None => None
  | Some oi =>
    if oi_flow oi =? 3 then None
    else match eff_lookup E (i_op i) (i_arg i) with
    | None => None
    | Some (en, ej) =>
      Some ((if oi_flow oi =? 0 then [(i_next i, en)] else if oi_flow oi =? 2 then [(exit_pc, en)] else []) ++
            match jump_target v oi i with Some t => [(t, ej)] | None => [] end)
    end
  end.

(** * Depth annotation (certificate) *)
Definition annot := PositiveMap.t (Z * Z).
Definition akey (pc : Z) : positive := Z.to_pos (pc + 1).
Definition aget (m : annot) (pc : Z) : option (Z * Z) :=
  if pc <? 0 then None else PositiveMap.find (akey pc) m.
Definition aset (m : annot) (pc : Z) (x : Z * Z) : annot := PositiveMap.add (akey pc) x m.

Definition check_edge (S : Z) (m : annot) (lo hi : Z) (te : Z * Z) : bool :=
  let t := fst te in let e := snd te in
  (0 <=? lo + e) && (hi + e <=? S) &&
  (if t =? exit_pc then true
   else match aget m t with
        | Some (lo', hi') => (lo' <=? lo + e) && (hi + e <=? hi')
        | None => false
        end).

Definition check_instr (v : pyver) (E : effects) (S : Z) (m : annot) (i : instr) : bool :=
  match aget m (i_off i) with
  | None => true                                (* not reached from the entry: nothing to show *)
  | Some (lo, hi) =>
    match edges v E i with
    | None => false
    | Some es => forallb (check_edge S m lo hi) es
    end
  end.

(** the verified part: the annotation is inductive and stays within 0 .. stacksize *)
Definition check_annot (v : pyver) (E : effects) (S : Z) (d0 : Z) (p : list instr) (m : annot) : bool :=
  (0 <=? d0) && (d0 <=? S) &&
  match aget m 0 with
  | Some (lo, hi) => (lo <=? d0) && (d0 <=? hi)
  | None => false
  end &&
  forallb (fun i => 0 <=? i_off i) p &&
  forallb (check_instr v E S m) p.

(** ** producing the annotation (unverified; its result is checked by [check_annot]) *)
Inductive ares := ADone (m : annot) | ABad (pc : Z) (d : Z) | AFuel.

Definition join (m : annot) (t lo hi : Z) : annot * bool :=
  match aget m t with
  | None => (aset m t (lo, hi), true)
  | Some (lo', hi') =>
    let lo2 := Z.min lo lo' in
    let hi2 := Z.max hi hi' in
    if (lo2 =? lo') && (hi2 =? hi') then (m, false) else (aset m t (lo2, hi2), true)
  end.

(* state: map, changed?, first violation *)
Definition prop_edge (cap : Z) (pc lo hi : Z) (st : annot * bool * option (Z * Z)) (te : Z * Z)
  : annot * bool * option (Z * Z) :=
  match st with
  | (m, ch, Some b) => st
  | (m, ch, None) =>
    let t := fst te in let e := snd te in
    if lo + e <? 0 then (m, ch, Some (pc, lo + e))
    else if cap <? hi + e then (m, ch, Some (pc, hi + e))
    else if t <? 0 then st
    else let '(m', c) := join m t (lo + e) (hi + e) in (m', ch || c, None)
  end.

Definition prop_instr (v : pyver) (E : effects) (cap : Z) (st : annot * bool * option (Z * Z)) (i : instr) :=
  match st with
  | (m, ch, Some b) => st
  | (m, ch, None) =>
    match aget m (i_off i) with
    | None => st
    | Some (lo, hi) =>
      match edges v E i with
      | None => (m, ch, Some (i_off i, -1000000))
      | Some es => fold_left (prop_edge cap (i_off i) lo hi) es st
      end
    end
  end.

Definition round (v : pyver) (E : effects) (cap : Z) (p : list instr) (m : annot) :=
  fold_left (prop_instr v E cap) p (m, false, None).

Fixpoint inner (n : nat) (v : pyver) (E : effects) (cap : Z) (p : list instr) (m : annot) : ares + annot :=
  match n with
  | O => inr m
  | S n' =>
    match round v E cap p m with
    | (_, _, Some (pc, d)) => inl (ABad pc d)
    | (m', true, None) => inner n' v E cap p m'
    | (m', false, None) => inl (ADone m')
    end
  end.

(* outer fuel: one [inner] run per instruction of the program (the list itself is the fuel).
   Every round that is not the last strictly widens one of at most |p| intervals inside 0..cap, so
   |p| * (2*cap+2) + 1 rounds always suffice; inner * outer = (2*cap+3) * (|p|+1). *)
Fixpoint outer (fuel : list instr) (k : nat) (v : pyver) (E : effects) (cap : Z) (p : list instr) (m : annot) : ares :=
  match inner k v E cap p m with
  | inl r => r
  | inr m' => match fuel with
              | [] => AFuel
              | _ :: f' => outer f' k v E cap p m'
              end
  end.

(** an upper bound for any depth on a path that repeats no instruction: 1 + sum of the positive effects *)
Definition pos_effect (v : pyver) (E : effects) (i : instr) : Z :=
  match eff_lookup E (i_op i) (i_arg i) with
  | None => 0
  | Some (en, ej) => Z.max 0 (Z.max en ej)
  end.
Definition depth_cap (v : pyver) (E : effects) (S : Z) (p : list instr) : Z :=
  Z.min S (1 + fold_left (fun a i => a + pos_effect v E i) p 0).

Definition compute_annot (v : pyver) (E : effects) (S : Z) (d0 : Z) (p : list instr) : ares :=
  let cap := Z.min S (d0 + depth_cap v E S p) in
  if (cap <? d0) || (d0 <? 0) then ABad 0 d0
  else outer p (Z.to_nat (2 * cap + 3)) v E cap p (aset (PositiveMap.empty _) 0 (d0, d0)).

Definition depth_ok (v : pyver) (E : effects) (S : Z) (d0 : Z) (p : list instr) : bool :=
  match compute_annot v E S d0 p with
  | ADone m => check_annot v E S d0 p m
  | _ => false
  end.

(** * Jumps and fall-through land on instruction boundaries inside the code *)
Definition offs_map (p : list instr) : PositiveMap.t unit :=
  fold_right (fun i m => PositiveMap.add (akey (i_off i)) tt m) (PositiveMap.empty unit) p.

Definition boundary_fast (bm : PositiveMap.t unit) (t : Z) : bool :=
  (0 <=? t) && match PositiveMap.find (akey t) bm with Some _ => true | None => false end.

Definition Zlen (l : list Z) : Z := Z.of_nat (length l).

Definition jumps_ok (v : pyver) (len : Z) (p : list instr) : bool :=
  let bm := offs_map p in
  forallb (fun i => 0 <=? i_off i) p &&
  forallb (fun i => forallb (fun t => boundary_fast bm t && (t <? len)) (targets v i)) p.

(** * Operand indices *)
Definition index_ok1 (v : pyver) (c : codeobj) (i : instr) : bool :=
  match lookup_op (pv_ops v) (i_op i) with
  | None => false
  | Some oi =>
    let k := oi_idx oi in
    let a := i_arg i in
    if k =? 0 then true
    else if k =? 1 then a <? co_nconsts c
    else if k =? 2 then a <? co_nnames c
    else if k =? 3 then a <? co_nlocals c
    else if k =? 4 then a <? co_nfree c
    else if k =? 5 then a <? pv_ncmp v
    else if k =? 6 then a / 2 <? co_nnames c
    else false
  end.

Definition index_ok (v : pyver) (c : codeobj) (p : list instr) : bool := forallb (index_ok1 v c) p.

(** * Line lookup (Objects/codeobject.c PyCode_Addr2Line of each version) *)
Inductive lineres := LLine (l : Z) | LNone | LBad.

Definition sbyte (b : Z) : Z := if b <? 128 then b else b - 256.

(** <= 3.9:  while (--size >= 0) { addr += p[0]; if (addr > addrq) break; line += (signed char) p[1]; p += 2; }
    (size = len/2: an odd trailing byte is ignored) *)
Fixpoint lnotab_line (tab : list Z) (addr line addrq : Z) : Z :=
  match tab with
  | sd :: ld :: r =>
    let addr' := addr + sd in
    if addrq <? addr' then line else lnotab_line r addr' (line + sbyte ld) addrq
  | _ => line
  end.

(** 3.10: _PyCode_CheckLineNumber / PyLineTable_NextAddressRange / advance.  Entries (range length, line delta);
    -128 = no line; zero-length ranges only carry their line delta to the next entry.  The C code reads the
    second byte of an entry, and the entry after a zero-length one, without checking the limit: [LBad]. *)
Fixpoint lt310 (tab : list Z) (ar_end cl addrq : Z) : lineres :=
  match tab with
  | [] => LNone
  | [_] => LBad
  | sd :: ld :: r =>
    let en := ar_end + sd in
    let ldv := sbyte ld in
    let cl' := if ldv =? -128 then cl else cl + ldv in
    if sd =? 0 then match r with [] => LBad | _ => lt310 r en cl' addrq end
    else if addrq <? en then (if ldv =? -128 then LNone else LLine cl')
    else lt310 r en cl' addrq
  end.

(** 3.11: scan_varint: 6-bit groups, bit 6 = continuation (no limit check in C: [None]); unsigned int arithmetic *)
Fixpoint scan_varint (bs : list Z) (shift acc : Z) : option Z :=
  match bs with
  | [] => None
  | b :: r =>
    if 32 <=? shift then None          (* shift of a 32-bit unsigned by >= 32: undefined in C *)
    else
    let acc' := (acc + (b mod 64) * 2 ^ shift) mod 4294967296 in
    if Z.testbit b 6 then scan_varint r (shift + 6) acc' else Some acc'
  end.

Definition svarint (u : Z) : Z := if Z.odd u then - (u / 2) else u / 2.

(** 3.11: advance(): computed_line += get_line_delta(ptr); ar_line = no-line-marker ? -1 : computed_line;
    ar_end += ((ptr[0] & 7) + 1) * 2; then skip to the next byte with bit 7 set.  [head] is true for the very
    first byte, which the C code takes as an entry head without looking at bit 7. *)
Fixpoint loc311 (bs : list Z) (head : bool) (ar_end cl addrq : Z) : lineres :=
  match bs with
  | [] => LNone
  | b :: r =>
    if head || (128 <=? b) then
      let code := (b / 8) mod 16 in
      match (if (code =? 13) || (code =? 14) then option_map svarint (scan_varint r 0 0)
             else Some (if code =? 11 then 1 else if code =? 12 then 2 else 0)) with
      | None => LBad
      | Some dl =>
        let cl' := cl + dl in
        let en := ar_end + ((b mod 8) + 1) * 2 in
        if addrq <? en then (if b / 8 =? 31 then LNone else LLine cl')
        else loc311 r false en cl' addrq
      end
    else loc311 r false ar_end cl addrq
  end.

Definition line_at (v : pyver) (c : codeobj) (addr : Z) : lineres :=
  if pv_linefmt v =? 0 then LLine (lnotab_line (co_linetable c) 0 (co_firstlineno c) addr)
  else if pv_linefmt v =? 1 then lt310 (co_linetable c) 0 (co_firstlineno c) addr
  else loc311 (co_linetable c) true 0 (co_firstlineno c) addr.

Definition line_ok1 (v : pyver) (c : codeobj) (i : instr) : bool :=
  match line_at v c (i_opoff i) with
  | LLine l => (1 <=? l) && (l <=? co_nlines c)
  | _ => false
  end.

Definition lines_ok (v : pyver) (c : codeobj) (p : list instr) : bool := forallb (line_ok1 v c) p.

(** * The validator *)
(** everything except the line table *)
Definition valid_nolines (v : pyver) (E : effects) (c : codeobj) : bool :=
  match decode v (co_code c) with
  | None => false
  | Some p =>
    match p with [] => false | _ => true end &&
    (co_exclen c =? 0) &&
    (if co_chkdepth c then depth_ok v E (co_stacksize c) (co_entry c) p else true) &&
    jumps_ok v (Zlen (co_code c)) p &&
    index_ok v c p
  end.

Definition valid_code (v : pyver) (E : effects) (c : codeobj) : bool :=
  valid_nolines v E c &&
  match decode v (co_code c) with
  | None => false
  | Some p => lines_ok v c p
  end.

(** * Known finding classes (see known/C14.json); both concern the line clause only
    - C14-linetable-format-310: the compiler writes co_lnotab byte pairs for every target, so no 3.10 / 3.11 line
      table is meaningful;
    - C14-linked-module-filename: code of an imported erg module is linked into the importing file's code object
      with the importer's co_filename but the imported file's line numbers. *)
Definition Known_C14 (v : pyver) (c : codeobj) : bool := (310 <=? pv_id v) || co_linked c.
