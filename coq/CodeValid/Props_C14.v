(** C14 -- property theorems (statements only; proofs are in Proofs.v)

    Property: every code object the compiler emits is structurally valid for its target interpreter.
    The theorems below are about the *validator* that is applied to every emitted code object at check time:
    acceptance implies the clauses of the property, for every code object, every interpreter table and every path.
    Whether erg's objects are accepted is observed per object by checks/c14.py (that is the tie to the code). *)
From Coq Require Import ZArith List Bool.
From ErgV Require Import CodeValid.Model CodeValid.Spec CodeValid.Proofs CodeValid.Witness.
Import ListNotations.
Open Scope Z_scope.

(** 1. Soundness of the validator, all four clauses:
       decode succeeds; (depth) every path from the entry keeps 0 <= depth <= co_stacksize and never meets an
       instruction without a stack effect; (jumps) every jump target and fall-through successor of every instruction
       is the first unit of an instruction inside the code; (indices) const / name / local / free / compare operands
       in range; (lines) PyCode_Addr2Line gives every instruction a line in 1..lines(src). *)
Theorem valid_code_sound : forall v E c, valid_code v E c = true -> structurally_valid v E c.
Proof. exact valid_code_sound_l. Qed.

(** 2. The same without the line clause (used to classify the known line-table finding: an object in the class
       [Known_C14] is still required to satisfy everything else). *)
Theorem valid_nolines_sound : forall v E c, valid_nolines v E c = true -> structurally_valid_nolines v E c.
Proof. exact valid_nolines_sound_l. Qed.

(** 3. The certificate checker alone: ANY annotation accepted by [check_annot] bounds every path, whoever produced it. *)
Theorem check_annot_sound : forall v E S d0 p m, check_annot v E S d0 p m = true ->
  forall pc d, reachable_depth v E d0 p pc d -> 0 <= d <= S.
Proof. intros v E S d0 p m H pc d Hr. exact (proj1 (annot_invariant v E S d0 p m H pc d Hr)). Qed.

(** 4. Paths never leave instruction boundaries: with the jump clause, every offset a path reaches is the entry,
       the exit, or the first unit of an instruction inside the code. *)
Theorem paths_stay_on_boundaries : forall v E d0 len p, jumps_land v len p ->
  forall pc d, reachable_depth v E d0 p pc d ->
  pc = 0 \/ pc = exit_pc \/ (0 <= pc < len /\ exists j, instr_at p pc j).
Proof. exact reachable_on_boundary. Qed.

(** 5. Known finding C14-linetable-format-310 (known/C14.json): push_lnotab writes co_lnotab byte pairs for every target.
       Refutation witness: function [g] of the program in Witness.v compiled for 3.10 is in the class, satisfies every
       other clause, and its instruction at offset 20 has no line. *)
Theorem lines_refuted_310 :
  exists v E c, Known_C14 v c = true /\ valid_nolines v E c = true /\ ~ structurally_valid v E c.
Proof.
  exists py310, ex310_g_eff, ex310_g. split; [reflexivity|]. split; [vm_compute; reflexivity|].
  intros [p [Hd [_ [_ [_ [_ [_ Hl]]]]]]].
  assert (Hp : exists q, decode py310 (co_code ex310_g) = Some q /\ forallb (line_ok1 py310 ex310_g) q = false).
  { eexists. split; [vm_compute; reflexivity|vm_compute; reflexivity]. }
  destruct Hp as [q [Hq Hf]]. rewrite Hq in Hd. injection Hd as Hd. subst q.
  assert (Ht : forallb (line_ok1 py310 ex310_g) p = true).
  { apply forallb_forall. intros i Hi. destruct (Hl i Hi) as [l [Ha [H1 H2]]].
    unfold line_ok1. rewrite Ha. apply andb_true_iff. split; apply Z.leb_le; assumption. }
  rewrite Ht in Hf. discriminate.
Qed.

(** 6. The generated opcode tables are well formed: opcode numbers unique per version, EXTENDED_ARG is no jump and has
       no cache, unconditional jumps are jumps, jump opcodes have no inline cache entries (the jump-target rule relies
       on it). Finite, by computation over gen/PyOps.v. *)
Definition table_wf (v : pyver) : bool :=
  let ops := pv_ops v in
  forallb (fun o => match lookup_op ops (oi_op o) with
                    | Some o' => (oi_jmp o' =? oi_jmp o) && (oi_flow o' =? oi_flow o) && (oi_idx o' =? oi_idx o) && (oi_cache o' =? oi_cache o)
                    | None => false end) ops &&
  forallb (fun o => (if oi_flow o =? 1 then negb (oi_jmp o =? 0) else true) &&
                    (if negb (oi_jmp o =? 0) then oi_cache o =? 0 else true) &&
                    (0 <=? oi_cache o) && (0 <=? oi_op o) && (oi_op o <? 256)) ops &&
  match lookup_op ops (pv_ext v) with Some o => (oi_jmp o =? 0) && (oi_cache o =? 0) && (oi_flow o =? 0) | None => false end.

Theorem pyops_wellformed : forallb table_wf [py37; py38; py39; py310; py311] = true.
Proof. vm_compute. reflexivity. Qed.

(** Non-vacuity: real code objects emitted by erg are accepted (module code with a for-loop, EXTENDED_ARG-prefixed
    jumps, nested calls; 44 distinct (opcode, arg) pairs), for the three targets whose line table format erg writes,
    and everything but the line clause also for 3.11 (relative backward jump, inline caches). *)
Example valid_code_ex39 : valid_code py39 ex39_module_eff ex39_module = true.
Proof. vm_compute. reflexivity. Qed.
Example valid_code_ex38 : valid_code py38 ex38_module_eff ex38_module = true.
Proof. vm_compute. reflexivity. Qed.
Example valid_nolines_ex311 : valid_nolines py311 ex311_module_eff ex311_module = true.
Proof. vm_compute. reflexivity. Qed.
(* the loop is really there: offset 128 (FOR_ITER, reached by the back edge) is reachable with depth 1 *)
Example reachable_ex39 : exists p, decode py39 (co_code ex39_module) = Some p /\ p <> [] /\
  depth_bounded py39 ex39_module_eff (co_stacksize ex39_module) 0 p.
Proof.
  destruct (valid_code_sound py39 ex39_module_eff ex39_module valid_code_ex39) as [p [Hd [Hne [_ [Hdep _]]]]].
  exists p. split; [exact Hd|]. split; [exact Hne|]. apply Hdep. reflexivity.
Qed.
(* and the validator is not trivially true: one slot less of stack and the same object is rejected *)
Example stacksize_too_small_rejected :
  valid_code py39 ex39_module_eff
    (mkco (co_code ex39_module) 4 (co_nconsts ex39_module) (co_nnames ex39_module) (co_nlocals ex39_module)
          (co_nfree ex39_module) (co_firstlineno ex39_module) (co_linetable ex39_module) (co_nlines ex39_module) 0 true false 0) = false.
Proof. vm_compute. reflexivity. Qed.
