(** C14 -- soundness of the validator of Model.v with respect to Spec.v *)
From Coq Require Import ZArith List Bool Lia FMapPositive.
From ErgV Require Import CodeValid.Model CodeValid.Spec.
Import ListNotations.
Open Scope Z_scope.

(** * 1. an inductive annotation bounds every path *)
Lemma check_edge_spec : forall S m lo hi t e,
  check_edge S m lo hi (t, e) = true ->
  0 <= lo + e /\ hi + e <= S /\
  (t = exit_pc \/ exists lo' hi', aget m t = Some (lo', hi') /\ lo' <= lo + e /\ hi + e <= hi').
Proof.
  intros S m lo hi t e H. unfold check_edge in H. cbn [fst snd] in H.
  apply andb_true_iff in H. destruct H as [H H3].
  apply andb_true_iff in H. destruct H as [H1 H2].
  apply Z.leb_le in H1. apply Z.leb_le in H2.
  split; [exact H1|]. split; [exact H2|].
  destruct (t =? exit_pc) eqn:Et.
  - left. apply Z.eqb_eq in Et. exact Et.
  - right. destruct (aget m t) as [[lo' hi']|] eqn:Ea; [|discriminate].
    apply andb_true_iff in H3. destruct H3 as [Ha Hb].
    apply Z.leb_le in Ha. apply Z.leb_le in Hb.
    exists lo', hi'. split; [reflexivity|]. split; assumption.
Qed.

Lemma check_annot_parts : forall v E S d0 p m, check_annot v E S d0 p m = true ->
  0 <= d0 <= S /\
  (exists lo hi, aget m 0 = Some (lo, hi) /\ lo <= d0 <= hi) /\
  (forall i, In i p -> 0 <= i_off i) /\
  (forall i, In i p -> check_instr v E S m i = true).
Proof.
  intros v E S d0 p m H. unfold check_annot in H.
  apply andb_true_iff in H. destruct H as [H H4].
  apply andb_true_iff in H. destruct H as [H H3].
  apply andb_true_iff in H. destruct H as [H1 H2].
  apply andb_true_iff in H1. destruct H1 as [H1 H1'].
  apply Z.leb_le in H1. apply Z.leb_le in H1'.
  rewrite forallb_forall in H3. rewrite forallb_forall in H4.
  split; [lia|]. split; [|split].
  - destruct (aget m 0) as [[lo hi]|]; [|discriminate].
    apply andb_true_iff in H2. destruct H2 as [Ha Hb].
    apply Z.leb_le in Ha. apply Z.leb_le in Hb.
    exists lo, hi. split; [reflexivity|lia].
  - intros i Hi. apply H3 in Hi. apply Z.leb_le in Hi. exact Hi.
  - exact H4.
Qed.

Section Annot.
  Variables (v : pyver) (E : effects) (S : Z) (d0 : Z) (p : list instr) (m : annot).
  Hypothesis Hchk : check_annot v E S d0 p m = true.

  Lemma chk_S : 0 <= d0 <= S.
  Proof. exact (proj1 (check_annot_parts v E S d0 p m Hchk)). Qed.
  Lemma chk_entry : exists lo hi, aget m 0 = Some (lo, hi) /\ lo <= d0 <= hi.
  Proof. exact (proj1 (proj2 (check_annot_parts v E S d0 p m Hchk))). Qed.
  Lemma chk_nonneg : forall i, In i p -> 0 <= i_off i.
  Proof. exact (proj1 (proj2 (proj2 (check_annot_parts v E S d0 p m Hchk)))). Qed.
  Lemma chk_instr : forall i, In i p -> check_instr v E S m i = true.
  Proof. exact (proj2 (proj2 (proj2 (check_annot_parts v E S d0 p m Hchk)))). Qed.

  Lemma annot_invariant : forall pc d, reachable_depth v E d0 p pc d ->
    0 <= d <= S /\
    (forall i, instr_at p pc i -> exists lo hi, aget m pc = Some (lo, hi) /\ lo <= d <= hi).
  Proof.
    intros pc d H. induction H as [|pc d i es t e Hr IH Hat He Hin].
    - split.
      + pose proof chk_S. lia.
      + intros i _. destruct chk_entry as [lo [hi [Ha Hb]]]. exists lo, hi. split; assumption.
    - destruct IH as [_ IH]. destruct (IH i Hat) as [lo [hi [Ha Hd]]].
      destruct Hat as [Hip Hoff].
      pose proof (chk_instr i Hip) as Hc. unfold check_instr in Hc.
      rewrite Hoff, Ha, He in Hc.
      rewrite forallb_forall in Hc. specialize (Hc (t, e) Hin).
      apply check_edge_spec in Hc. destruct Hc as [H1 [H2 H3]].
      split; [lia|].
      intros j [Hjp Hjo].
      destruct H3 as [Hx | [lo' [hi' [Ha' [Hl Hh]]]]].
      + pose proof (chk_nonneg j Hjp) as Hn. rewrite Hjo, Hx in Hn. unfold exit_pc in Hn. lia.
      + exists lo', hi'. split; [exact Ha'|lia].
  Qed.

  Lemma annot_progress : forall pc d i, reachable_depth v E d0 p pc d -> instr_at p pc i ->
    exists es, edges v E i = Some es.
  Proof.
    intros pc d i Hr Hat.
    destruct (annot_invariant pc d Hr) as [_ IH].
    destruct (IH i Hat) as [lo [hi [Ha _]]].
    destruct Hat as [Hip Hoff].
    pose proof (chk_instr i Hip) as Hc. unfold check_instr in Hc.
    rewrite Hoff, Ha in Hc.
    destruct (edges v E i) as [es|]; [exists es; reflexivity|discriminate].
  Qed.
End Annot.

Lemma depth_ok_sound : forall v E S d0 p, depth_ok v E S d0 p = true -> depth_bounded v E S d0 p.
Proof.
  intros v E S d0 p H. unfold depth_ok in H.
  destruct (compute_annot v E S d0 p) as [m| |]; try discriminate.
  split.
  - intros pc d Hr. exact (proj1 (annot_invariant v E S d0 p m H pc d Hr)).
  - intros pc d i Hr Hat. exact (annot_progress v E S d0 p m H pc d i Hr Hat).
Qed.

(** * 2. boundaries *)
Lemma akey_inj : forall a b, 0 <= a -> 0 <= b -> akey a = akey b -> a = b.
Proof.
  intros a b Ha Hb H. unfold akey in H.
  apply Z2Pos.inj in H; lia.
Qed.

Lemma offs_map_find : forall p t,
  0 <= t -> (forall i, In i p -> 0 <= i_off i) ->
  PositiveMap.find (akey t) (offs_map p) <> None ->
  exists j, In j p /\ i_off j = t.
Proof.
  induction p as [|a p IH]; intros t Ht Hn Hf.
  - cbn in Hf. rewrite PositiveMap.gempty in Hf. congruence.
  - cbn [offs_map fold_right] in Hf.
    destruct (Pos.eq_dec (akey t) (akey (i_off a))) as [Heq|Hne].
    + apply akey_inj in Heq; [|exact Ht|apply Hn; left; reflexivity].
      exists a. split; [left; reflexivity|symmetry; exact Heq].
    + rewrite PositiveMap.gso in Hf by exact Hne.
      destruct (IH t Ht) as [j [Hj Ho]].
      * intros i Hi. apply Hn. right. exact Hi.
      * exact Hf.
      * exists j. split; [right; exact Hj|exact Ho].
Qed.

Lemma jumps_ok_sound : forall v len p, jumps_ok v len p = true -> jumps_land v len p.
Proof.
  intros v len p H. unfold jumps_ok in H.
  apply andb_true_iff in H. destruct H as [Hn Hj].
  rewrite forallb_forall in Hn. rewrite forallb_forall in Hj.
  intros i t Hi Ht.
  specialize (Hj i Hi). rewrite forallb_forall in Hj. specialize (Hj t Ht).
  apply andb_true_iff in Hj. destruct Hj as [Hb Hl].
  apply Z.ltb_lt in Hl.
  unfold boundary_fast in Hb. apply andb_true_iff in Hb. destruct Hb as [H0 Hf].
  apply Z.leb_le in H0.
  split; [lia|].
  destruct (offs_map_find p t H0) as [j [Hjp Hjo]].
  - intros k Hk. specialize (Hn k Hk). apply Z.leb_le in Hn. exact Hn.
  - destruct (PositiveMap.find (akey t) (offs_map p)); [discriminate|discriminate Hf].
  - exists j. split; assumption.
Qed.

(** successors of [edges] are [exit_pc] or [targets] *)
Lemma edges_targets : forall v E i es t e,
  edges v E i = Some es -> In (t, e) es -> t = exit_pc \/ In t (targets v i).
Proof.
  intros v E i es t e He Hin. unfold edges in He. unfold targets.
  destruct (lookup_op (pv_ops v) (i_op i)) as [oi|]; [|discriminate].
  destruct (oi_flow oi =? 3); [discriminate|].
  destruct (eff_lookup E (i_op i) (i_arg i)) as [[en ej]|]; [|discriminate].
  injection He as He. subst es.
  apply in_app_or in Hin. destruct Hin as [Hin|Hin].
  - destruct (oi_flow oi =? 0).
    + destruct Hin as [Hin|[]]. injection Hin as Ht _. right. apply in_or_app. left. left. exact Ht.
    + destruct (oi_flow oi =? 2).
      * destruct Hin as [Hin|[]]. injection Hin as Ht _. left. symmetry. exact Ht.
      * destruct Hin.
  - destruct (jump_target v oi i) as [t'|].
    + destruct Hin as [Hin|[]]. injection Hin as Ht _. right. apply in_or_app. right. left. exact Ht.
    + destruct Hin.
Qed.

(** paths stay on instruction boundaries: every reachable offset is the entry, the exit, or an instruction start *)
Lemma reachable_on_boundary : forall v E d0 len p,
  jumps_land v len p -> forall pc d, reachable_depth v E d0 p pc d ->
  pc = 0 \/ pc = exit_pc \/ (0 <= pc < len /\ exists j, instr_at p pc j).
Proof.
  intros v E d0 len p Hj pc d H. destruct H as [|pc d i es t e Hr Hat He Hin].
  - left. reflexivity.
  - right. destruct (edges_targets v E i es t e He Hin) as [Hx|Ht].
    + left. exact Hx.
    + right. destruct Hat as [Hip _]. exact (Hj i t Hip Ht).
Qed.

(** * 3. indices and lines *)
Lemma index_ok1_sound : forall v c i, index_ok1 v c i = true -> operand_in_range v c i.
Proof.
  intros v c i H. unfold index_ok1 in H. unfold operand_in_range.
  destruct (lookup_op (pv_ops v) (i_op i)) as [oi|]; [|discriminate].
  exists oi. split; [reflexivity|]. cbv zeta.
  destruct (oi_idx oi =? 0) eqn:E0; [apply Z.eqb_eq in E0; left; exact E0|].
  destruct (oi_idx oi =? 1) eqn:E1; [apply Z.eqb_eq in E1; apply Z.ltb_lt in H; right; left; split; assumption|].
  destruct (oi_idx oi =? 2) eqn:E2; [apply Z.eqb_eq in E2; apply Z.ltb_lt in H; right; right; left; split; assumption|].
  destruct (oi_idx oi =? 3) eqn:E3; [apply Z.eqb_eq in E3; apply Z.ltb_lt in H; right; right; right; left; split; assumption|].
  destruct (oi_idx oi =? 4) eqn:E4; [apply Z.eqb_eq in E4; apply Z.ltb_lt in H; right; right; right; right; left; split; assumption|].
  destruct (oi_idx oi =? 5) eqn:E5; [apply Z.eqb_eq in E5; apply Z.ltb_lt in H; right; right; right; right; right; left; split; assumption|].
  destruct (oi_idx oi =? 6) eqn:E6; [apply Z.eqb_eq in E6; apply Z.ltb_lt in H; right; right; right; right; right; right; split; assumption|].
  discriminate.
Qed.

Lemma index_ok_sound : forall v c p, index_ok v c p = true -> indices_in_range v c p.
Proof.
  intros v c p H i Hi. unfold index_ok in H. rewrite forallb_forall in H.
  apply index_ok1_sound. apply H. exact Hi.
Qed.

Lemma lines_ok_sound : forall v c p, lines_ok v c p = true -> lines_in_file v c p.
Proof.
  intros v c p H i Hi. unfold lines_ok in H. rewrite forallb_forall in H.
  specialize (H i Hi). unfold line_ok1 in H. unfold line_in_file.
  destruct (line_at v c (i_opoff i)) as [l| |]; try discriminate.
  apply andb_true_iff in H. destruct H as [Ha Hb].
  apply Z.leb_le in Ha. apply Z.leb_le in Hb.
  exists l. split; [reflexivity|lia].
Qed.

(** * 4. the validator *)
Lemma valid_nolines_sound_l : forall v E c, valid_nolines v E c = true -> structurally_valid_nolines v E c.
Proof.
  intros v E c H. unfold valid_nolines in H. unfold structurally_valid_nolines.
  destruct (decode v (co_code c)) as [p|]; [|discriminate].
  exists p. split; [reflexivity|].
  apply andb_true_iff in H. destruct H as [H Hidx].
  apply andb_true_iff in H. destruct H as [H Hjmp].
  apply andb_true_iff in H. destruct H as [H Hdep].
  apply andb_true_iff in H. destruct H as [Hne Hexc].
  split; [destruct p; [discriminate|discriminate]|].
  split; [apply Z.eqb_eq in Hexc; exact Hexc|].
  split.
  - intros Hc. rewrite Hc in Hdep. apply depth_ok_sound. exact Hdep.
  - split; [apply jumps_ok_sound; exact Hjmp|apply index_ok_sound; exact Hidx].
Qed.

Lemma valid_code_sound_l : forall v E c, valid_code v E c = true -> structurally_valid v E c.
Proof.
  intros v E c H. unfold valid_code in H. apply andb_true_iff in H. destruct H as [Hn Hl].
  apply valid_nolines_sound_l in Hn. destruct Hn as [p [Hd [Hne [Hx [Hdep [Hj Hi]]]]]].
  rewrite Hd in Hl.
  exists p.
  split; [exact Hd|]. split; [exact Hne|]. split; [exact Hx|]. split; [exact Hdep|].
  split; [exact Hj|]. split; [exact Hi|].
  apply lines_ok_sound. exact Hl.
Qed.
