(** extraction entry point for C14: the validator on one code object per line *)
(* built before extraction (lib/vplib.py Model reads these names): ErgV.Common.Sx ErgV.gen.PyOps ErgV.CodeValid.Model ErgV.CodeValid.Spec *)
From Coq Require Import ZArith List Bool FMapPositive.
From ErgV Require Import Common.Sx CodeValid.Model CodeValid.Spec.
Import ListNotations.
Open Scope Z_scope.

Definition dec_effects (x : sx) : effects :=
  map (fun e => (sx_z (sx_nth e 0), sx_z (sx_nth e 1), sx_z (sx_nth e 2), sx_z (sx_nth e 3))) (sx_l x).

(* (mode ver code stacksize nconsts nnames nlocals nfree firstlineno linetable nlines exclen chkdepth effects linked entrydepth) *)
Definition dec_co (x : sx) : codeobj :=
  mkco (sx_zs (sx_nth x 2)) (sx_z (sx_nth x 3)) (sx_z (sx_nth x 4)) (sx_z (sx_nth x 5)) (sx_z (sx_nth x 6))
       (sx_z (sx_nth x 7)) (sx_z (sx_nth x 8)) (sx_zs (sx_nth x 9)) (sx_z (sx_nth x 10)) (sx_z (sx_nth x 11))
       (sx_to_bool (sx_nth x 12)) (sx_to_bool (sx_nth x 14)) (sx_z (sx_nth x 15)).

Definition enc_line (r : lineres) : list sx :=
  match r with LLine l => [SZ 0; SZ l] | LNone => [SZ 1; SZ 0] | LBad => [SZ 2; SZ 0] end.

Definition enc_instr (v : pyver) (c : codeobj) (i : instr) : sx :=
  let tgt := match lookup_op (pv_ops v) (i_op i) with
             | Some oi => match jump_target v oi i with Some t => t | None => -1 end
             | None => -1
             end in
  SL ([SZ (i_off i); SZ (i_opoff i); SZ (i_op i); SZ (i_arg i); SZ (i_next i); SZ tgt] ++ enc_line (line_at v c (i_opoff i))).

(* diagnostics (not verified, only used to word a report) *)
Definition first_bad {A} (f : A -> bool) (l : list A) : option A := find (fun x => negb (f x)) l.

Definition max_depth (v : pyver) (E : effects) (p : list instr) (m : annot) : Z :=
  fold_left (fun a i =>
    match aget m (i_off i) with
    | None => a
    | Some (lo, hi) =>
      match edges v E i with
      | None => a
      | Some es => fold_left (fun b te => Z.max b (hi + snd te)) es (Z.max a hi)
      end
    end) p 0.

Definition run_validate (v : pyver) (x : sx) : sx :=
  let c := dec_co x in
  let E := dec_effects (sx_nth x 13) in
  match decode v (co_code c) with
  | None => SL [SZ 0]
  | Some p =>
    let S := co_stacksize c in
    let ann := if co_chkdepth c then compute_annot v E S (co_entry c) p else AFuel in
    let depth := (* status pc d maxdepth *)
      if co_chkdepth c then
        match ann with
        | ADone m => if check_annot v E S (co_entry c) p m then [SZ 0; SZ 0; SZ 0; SZ (max_depth v E p m)] else [SZ 4; SZ 0; SZ 0; SZ 0]
        | ABad pc d => [SZ 1; SZ pc; SZ d; SZ 0]
        | AFuel => [SZ 2; SZ 0; SZ 0; SZ 0]
        end
      else [SZ 3; SZ 0; SZ 0; SZ 0] in
    let bm := offs_map p in
    let len := Zlen (co_code c) in
    let badj := first_bad (fun i => forallb (fun t => boundary_fast bm t && (t <? len)) (targets v i)) p in
    let badi := first_bad (index_ok1 v c) p in
    let badl := first_bad (line_ok1 v c) p in
    let vn := valid_nolines v E c in
    let lo := lines_ok v c p in
    SL [SZ 1;
        sx_bool (match p with [] => false | _ => true end);
        sx_bool (co_exclen c =? 0);
        SL depth;
        SL [sx_bool (jumps_ok v len p); match badj with Some i => SL [SZ (i_off i); sx_of_zs (targets v i)] | None => SL [] end];
        SL [sx_bool (index_ok v c p); match badi with Some i => SL [SZ (i_off i); SZ (i_op i); SZ (i_arg i)] | None => SL [] end];
        SL [sx_bool lo; match badl with Some i => SL (SZ (i_opoff i) :: enc_line (line_at v c (i_opoff i))) | None => SL [] end];
        sx_bool vn;
        sx_bool (vn && lo);                (* = valid_code v E c, see Model.valid_code *)
        SZ (if 310 <=? pv_id v then 1 else if co_linked c then 2 else 0);  (* Known_C14 v c, with the class *)
        SL (map (enc_instr v c) p)]
  end.

(** modes:
    (0 ver code stacksize nconsts nnames nlocals nfree firstlineno linetable nlines exclen chkdepth effects linked entrydepth)
        -> (0) undecodable | (1 nonempty exc_ok (depth_status pc d maxdepth) (jumps_ok bad) (index_ok bad) (lines_ok bad)
                               valid_nolines valid_code known instrs)
           depth_status: 0 ok | 1 a path leaves 0..stacksize at pc with depth d (or no stack effect: d=-1000000)
                         | 2 out of fuel | 3 not checked (3.7 finally opcodes) | 4 annotation rejected by check_annot
    (1 ver firstlineno linetable (addr ...))  -> line lookup for each address: ((kind line) ...)
    (2 ver ...same as 0...)  -> (valid_code) only: the judge *)
Definition run (x : sx) : sx :=
  let mode := sx_z (sx_nth x 0) in
  match pyver_of (sx_z (sx_nth x 1)) with
  | None => SL [SZ (-1)]
  | Some v =>
    if mode =? 0 then run_validate v x
    else if mode =? 1 then
      let c := mkco [] 0 0 0 0 0 (sx_z (sx_nth x 2)) (sx_zs (sx_nth x 3)) 0 0 false false 0 in
      SL (map (fun a => SL (enc_line (line_at v c a))) (sx_zs (sx_nth x 4)))
    else SL [sx_bool (judge v (dec_effects (sx_nth x 13)) (dec_co x))]
  end.

Require Extraction.
Require Import ExtrOcamlBasic.
Extraction Language OCaml.
Extraction "model.ml" run.
