(** C14 -- what "structurally valid for the interpreter" means, stated over the decoded instruction list.

    The interpreter-side functions used here ([decode], [edges], [targets], [line_at]) are defined in Model.v:
    they describe CPython (instruction decoding, successors with dis.stack_effect, PyCode_Addr2Line), not erg,
    and each run compares them with the interpreters themselves (dis.get_instructions, PyCode_Addr2Line through
    ctypes, an independent python abstract interpreter).  The validator proper ([compute_annot], [check_annot],
    [jumps_ok], ... ) is NOT used in this file. *)
From Coq Require Import ZArith List Bool.
From ErgV Require Import CodeValid.Model.
Import ListNotations.
Open Scope Z_scope.

Definition instr_at (p : list instr) (pc : Z) (i : instr) : Prop := In i p /\ i_off i = pc.

(** Path semantics: [reachable_depth v E p pc d] -- some execution path from the entry (offset 0, operand stack of
    depth [d0] = co_entry: empty, except for 3.10 generators) arrives at offset [pc] with [d] values on the operand stack.  One step follows any outgoing edge of
    the instruction at [pc] (fall-through, jump taken, or leaving the code object at a terminal instruction:
    [exit_pc]) and adds the interpreter's stack effect for that edge.  Conditions are not interpreted: every
    branch of every conditional jump is a path. *)
Inductive reachable_depth (v : pyver) (E : effects) (d0 : Z) (p : list instr) : Z -> Z -> Prop :=
| rd_entry : reachable_depth v E d0 p 0 d0
| rd_step : forall pc d i es t e,
    reachable_depth v E d0 p pc d ->
    instr_at p pc i ->
    edges v E i = Some es ->
    In (t, e) es ->
    reachable_depth v E d0 p t (d + e).

(** clause 1: the declared stack size bounds the depth on every path (and the depth never goes negative);
    the interpreter's stack effect is defined for every instruction a path reaches *)
Definition depth_bounded (v : pyver) (E : effects) (S : Z) (d0 : Z) (p : list instr) : Prop :=
  (forall pc d, reachable_depth v E d0 p pc d -> 0 <= d <= S) /\
  (forall pc d i, reachable_depth v E d0 p pc d -> instr_at p pc i -> exists es, edges v E i = Some es).

(** clause 2: every jump target and every fall-through successor, of every instruction (reachable or not), is
    the first unit of an instruction inside the code *)
Definition jumps_land (v : pyver) (len : Z) (p : list instr) : Prop :=
  forall i t, In i p -> In t (targets v i) -> 0 <= t < len /\ exists j, instr_at p t j.

(** clause 3: operand indices by opcode class *)
Definition operand_in_range (v : pyver) (c : codeobj) (i : instr) : Prop :=
  exists oi, lookup_op (pv_ops v) (i_op i) = Some oi /\
    let k := oi_idx oi in
    (k = 0 \/
     (k = 1 /\ i_arg i < co_nconsts c) \/
     (k = 2 /\ i_arg i < co_nnames c) \/
     (k = 3 /\ i_arg i < co_nlocals c) \/
     (k = 4 /\ i_arg i < co_nfree c) \/
     (k = 5 /\ i_arg i < pv_ncmp v) \/
     (k = 6 /\ i_arg i / 2 < co_nnames c)).

Definition indices_in_range (v : pyver) (c : codeobj) (p : list instr) : Prop :=
  forall i, In i p -> operand_in_range v c i.

(** clause 4: the interpreter's own line lookup gives every instruction a line of the source file.
    "No line" (3.10: -128, 3.11: code 15, or an address the table does not cover) is not a line. *)
Definition line_in_file (v : pyver) (c : codeobj) (i : instr) : Prop :=
  exists l, line_at v c (i_opoff i) = LLine l /\ 1 <= l <= co_nlines c.

Definition lines_in_file (v : pyver) (c : codeobj) (p : list instr) : Prop :=
  forall i, In i p -> line_in_file v c i.

(** the property for one code object *)
Definition structurally_valid_nolines (v : pyver) (E : effects) (c : codeobj) : Prop :=
  exists p, decode v (co_code c) = Some p /\ p <> [] /\ co_exclen c = 0 /\
    (co_chkdepth c = true -> depth_bounded v E (co_stacksize c) (co_entry c) p) /\
    jumps_land v (Zlen (co_code c)) p /\
    indices_in_range v c p.

Definition structurally_valid (v : pyver) (E : effects) (c : codeobj) : Prop :=
  exists p, decode v (co_code c) = Some p /\ p <> [] /\ co_exclen c = 0 /\
    (co_chkdepth c = true -> depth_bounded v E (co_stacksize c) (co_entry c) p) /\
    jumps_land v (Zlen (co_code c)) p /\
    indices_in_range v c p /\
    lines_in_file v c p.

(** executable judge: the validator itself ([Model.valid_code]); per clause for reporting *)
Definition judge (v : pyver) (E : effects) (c : codeobj) : bool := valid_code v E c.
