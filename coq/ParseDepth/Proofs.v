(** C09 — lemmas behind the property theorems (Props_C09.v). *)
From Coq Require Import List Arith Bool Lia.
Require Import ErgV.ParseDepth.Model ErgV.ParseDepth.Spec ErgV.ParseDepth.ProofsLen ErgV.ParseDepth.ProofsLenStep ErgV.ParseDepth.ProofsBnd ErgV.ParseDepth.ProofsFuel ErgV.ParseDepth.ProofsDeep .
Import ListNotations.

(** ---- progress of the loops *)
Lemma module_iter_progress n l d s s2 :
  module_iter (exec n) l d s = Again s2 -> length (toks s2) < length (toks s).
Proof.
  unfold module_iter, cur_is, cur. intro H.
  destruct (toks s) as [|t r] eqn:Ets; [discriminate|].
  destruct (is NL t) eqn:Enl; [inversion H; subst; cbn; lia|].
  destruct (is EOF t) eqn:Eeof; [discriminate|].
  destruct (exec n (CChunk true false) (S l) d s) as [o s1] eqn:E.
  destruct (len_inv_exec n _ _ _ _ _ _ E) as [_ Hlt].
  rewrite Ets in Hlt. unfold must_consume, hd_live, cur in Hlt. rewrite Eeof in Hlt.
  destruct o; try discriminate; specialize (Hlt eq_refl).
  - destruct (negb _); inversion H; subst; norm_toks; [pose proof (next_expr_le (toks s1)); unfold next_line|]; cbn [length] in *; lia.
  - inversion H; subst; cbn [length] in *; lia.
Qed.

Lemma block_iter_progress n ne l d s ne' s2 :
  block_iter (exec n) ne l d s = (ne', Again s2) -> length (toks s2) < length (toks s).
Proof.
  unfold block_iter, cur_is, cur. intro H.
  destruct (toks s) as [|t r] eqn:Ets; [discriminate|].
  destruct (is NL t && _); [discriminate|].
  destruct (is DED t) eqn:Eded; [discriminate|].
  destruct (is NL t) eqn:Enl; [inversion H; subst; cbn; lia|].
  destruct (is EOF t) eqn:Eeof; [discriminate|].
  destruct (exec n (CChunk true false) (S l) d s) as [o s1] eqn:E.
  destruct (len_inv_exec n _ _ _ _ _ _ E) as [_ Hlt].
  rewrite Ets in Hlt. unfold must_consume, hd_live, cur in Hlt. rewrite Eeof in Hlt.
  destruct o; try discriminate; specialize (Hlt eq_refl).
  - destruct (negb _); inversion H; subst; norm_toks; [pose proof (next_expr_le (toks s1)); unfold next_line|]; cbn [length] in *; lia.
  - inversion H; subst; cbn [length] in *; lia.
Qed.

(** the recovery loops next_expr / next_line / until_dedent / the skip of `nested` are structural recursions over the
    token list; they never lengthen it, and next_expr / the drain consume when a token other than EOF is next *)
Lemma recovery_progress ts :
  length (next_expr ts) <= length ts /\ length (next_line ts) <= length ts /\
  (forall k, length (until_dedent k ts) <= length ts) /\ length (drain ts) <= length ts /\
  (hd_live ts = true -> length (next_expr ts) < length ts /\ length (drain ts) < length ts).
Proof.
  repeat split; try apply next_expr_le; try apply drain_le; try (intro; apply until_dedent_le).
  - apply next_expr_lt; assumption.
  - apply drain_lt; assumption.
Qed.

(** ---- bounds for [parse] *)
Lemma parse_bounded ts : max_depth (parse ts) <= LIMIT /\ max_level (parse ts) <= 6 * LIMIT + 2.
Proof. apply parse_fuel_bounded. Qed.

(** ---- the nesting families, by computation *)
Definition all_kinds : list kind := [KParen; KList; KSet; KUnary; KLambda; KCall; KCallNp; KSubscr; KMul].
Definition clean (r : out * st) : bool := match fst r with Ok _ => negb (has_errors r) | _ => false end.
Definition reports (r : out * st) : bool := match fst r with Ok _ | Err => has_errors r | _ => false end.

Lemma all_kinds_complete k : k <> KLamBlock -> In k all_kinds.
Proof. destruct k; cbn; intro; try tauto; congruence. Qed.

(** nesting up to the depth CPython accepts parses without any error, for each kind of construct *)
Lemma shallow_uniform_ok :
  forallb (fun k => forallb (fun n => clean (parse (uniform k n))) (seq 0 (S CPYTHON_DEPTH))) all_kinds = true.
Proof. vm_compute. reflexivity. Qed.

Lemma shallow_uniform k n : k <> KLamBlock -> n <= CPYTHON_DEPTH -> clean (parse (uniform k n)) = true.
Proof.
  intros Hk Hn. pose proof shallow_uniform_ok as H. rewrite forallb_forall in H.
  specialize (H k (all_kinds_complete k Hk)). rewrite forallb_forall in H. apply H.
  apply in_seq. lia.
Qed.

(** indented blocks: the lexer never produces more than 100 levels (known finding) *)
Lemma shallow_lamblock_ok : forallb (fun n => clean (parse (lamblock n))) (seq 0 101) = true.
Proof. vm_compute. reflexivity. Qed.
Lemma shallow_lamblock n : n <= 100 -> clean (parse (lamblock n)) = true.
Proof. intro Hn. pose proof shallow_lamblock_ok as H. rewrite forallb_forall in H. apply H. apply in_seq. lia. Qed.

(** the depth reached by such a program is its nesting plus one *)
Lemma uniform_depth_ok :
  forallb (fun k => forallb (fun n => Nat.eqb (max_depth (parse (uniform k n))) (S n)) (seq 0 (S CPYTHON_DEPTH))) all_kinds = true.
Proof. vm_compute. reflexivity. Qed.

(** ---- before the repair: the depth grows with the nesting, without bound *)
Lemma nofix_depth_grows :
  forallb (fun n => Nat.leb n (max_depth (parse_nofix (bound (uniform KParen n)) (uniform KParen n))))
          [1; 10; 100; 600; 1000] = true.
Proof. vm_compute. reflexivity. Qed.

(** ---- nesting at least LIMIT deep: the whole parse reports an error (every depth, each one-line kind) *)
Lemma drain_spine ks : forall rest, ~ In KLamBlock ks -> drain (spine_on ks rest) = drain rest.
Proof.
  induction ks as [|k r IH]; intros rest Hn; cbn [spine_on]; [reflexivity|].
  rewrite drain_opener, IH by (intro; apply Hn; right; assumption).
  destruct k; reflexivity.
Qed.

Lemma deep_parse k n : k <> KLamBlock -> LIMIT <= n -> reports (parse (uniform k n)) = true.
Proof.
  intros Hk Hn.
  pose proof (fuel_sufficient (uniform k n)) as Hfuel.
  unfold parse, parse_fuel, bound in *. set (f := potential _ 0) in *.
  assert (Hf1 : 1 <= f) by (unfold f, potential, RANK; lia).
  destruct f as [|f]; [lia|]. clear Hf1.
  (* first turn of the module loop: the chunk *)
  assert (Hhead : exists t r, uniform k n = t :: r /\ is NL t = false /\ is EOF t = false).
  { unfold uniform, nest. destruct n as [|m]; [unfold LIMIT in Hn; lia|]. cbn [repeat spine_on].
    destruct k; cbn [opener app]; eexists _, _; repeat split; reflexivity. }
  destruct Hhead as (t & r & Eu & Enl & Eeof).
  remember (S f) as F eqn:EF.
  change (exec (S F) CModule 1 0 ?s) with (body (exec F) CModule 1 0 s) in *.
  unfold body at 1 in Hfuel. unfold body at 1. unfold module_iter in *.
  cbn [toks enter] in *. rewrite Eu in *. rewrite Enl, Eeof in *. rewrite <- Eu in *.
  destruct (exec F (CChunk true false) 2 0 (enter 1 0 (mkst (uniform k n) 0 0 0))) as [o1 s1] eqn:E1.
  assert (Ho1 : o1 <> Fuel) by (intros ->; apply Hfuel; reflexivity).
  destruct (deep_uniform k Hk n F (CChunk true false) 2 0 (enter 1 0 (mkst (uniform k n) 0 0 0)) [NL; EOF] o1 s1 I eq_refl ltac:(lia) E1 Ho1) as (-> & Hn1 & Ht1).
  cbn [toks enter nerr] in Hn1, Ht1. unfold uniform, nest in Ht1.
  rewrite drain_spine in Ht1.
  2:{ intro Hin. apply repeat_spec in Hin. congruence. }
  cbn [drain] in Ht1.
  (* second turn: EOF *)
  subst F. change (exec (S f) CModule 1 0 ?s) with (body (exec f) CModule 1 0 s).
  unfold body at 1. unfold module_iter. rewrite Ht1. cbn [is].
  unfold reports, has_errors. cbn [fst snd]. rewrite Hn1. reflexivity.
Qed.

(** ---- the source constant *)
Require Import ErgV.gen.ParseDepthConst .
From Coq Require Import NArith.
Lemma limit_matches_source_proof : N.of_nat LIMIT = MAX_NEST /\ (2 * CPYTHON_DEPTH + 8 <= LIMIT)%nat.
Proof. split; [vm_compute; reflexivity | unfold CPYTHON_DEPTH, LIMIT; lia]. Qed.

(** ---- the judge on the model *)
Lemma model_judge k n :
  k <> KLamBlock -> n <= CPYTHON_DEPTH \/ LIMIT < n ->
  judge (mkobs (Some n) 0 0 (model_ending (parse (uniform k n)))) = true.
Proof.
  intros Hk [Hn | Hn].
  - pose proof (shallow_uniform k n Hk Hn) as H. unfold clean in H.
    unfold judge, model_ending, Known_C09, Known_indent, Known_chain. cbn [o_end o_nest o_cols o_chain].
    destruct (fst (parse (uniform k n))); try discriminate.
    apply negb_true_iff in H. rewrite H.
    assert (Hle : Nat.leb n CPYTHON_DEPTH = true) by (apply Nat.leb_le; assumption).
    assert (Hlt : Nat.ltb LIMIT n = false) by (apply Nat.ltb_ge; unfold CPYTHON_DEPTH, LIMIT in *; lia).
    rewrite Hle, Hlt. reflexivity.
  - pose proof (deep_parse k n Hk ltac:(lia)) as H. unfold reports in H.
    unfold judge, model_ending, Known_C09, Known_indent, Known_chain. cbn [o_end o_nest o_cols o_chain].
    assert (Hle : Nat.leb n CPYTHON_DEPTH = false) by (apply Nat.leb_gt; unfold CPYTHON_DEPTH, LIMIT in *; lia).
    assert (Hlt : Nat.ltb LIMIT n = true) by (apply Nat.ltb_lt; assumption).
    rewrite Hle, Hlt.
    assert (Hne : Nat.eqb (nerr (snd (parse (uniform k n)))) 0 = false).
    { destruct (fst (parse (uniform k n))); try discriminate; unfold has_errors in H; apply negb_true_iff in H; exact H. }
    destruct (fst (parse (uniform k n))); try discriminate; rewrite ?H; cbn [total_ok]; rewrite Hne; reflexivity.
Qed.

Lemma nofix_unbounded :
  exists ts, LIMIT < max_depth (parse_nofix (bound ts) ts) /\
             forallb (fun n => Nat.leb n (max_depth (parse_nofix (bound (uniform KParen n)) (uniform KParen n)))) [1; 10; 100; 600; 1000] = true.
Proof. exists (uniform KParen 600). split; [vm_compute; lia | exact nofix_depth_grows]. Qed.

Lemma parse_never_out_of_fuel ts : fst (parse ts) <> Fuel.
Proof. apply fuel_sufficient. Qed.
