(** C09 — recursion skeleton of the recursive-descent parser, crates/erg_parser/parse.rs (repaired code:
    `Parser::nested` refuses to go deeper than MAX_NEST).

    The model is a function over token lists for a token alphabet that is closed under the nesting constructs:
      ( ) [ ] { }  prefix operator  symbol  natural literal  newline indent dedent  lambda arrow  comma  EOF
    ("glued" variants of ( and [ start in the column where the previous token ended: `f(x)`, `a[i]`).
    Every parser method that can be reached with these tokens is transcribed arm by arm; arms that need another
    token kind are absent.  Tracked: remaining tokens, number of errors pushed to `self.errs`, the deepest nesting of
    instrumented frames (methods that start with `debug_call_info!`; abstractly "level") and the deepest value of
    `self.depth` (the counter that `nested` compares with MAX_NEST).
    Not modelled: the syntax tree (only a `shape` that later decisions look at), the `level` counter itself (it is a
    logging aid and drifts: several methods forget to decrement it), warnings, locations.
    `Unm`: the parser took a decision that depends on parts of the tree the model does not keep
    (convert_rhs_to_lambda_sig on a call / tuple / list pattern); the model then makes no prediction.
    `Panic`: an `unwrap()` on `None` (`Parser::lpop` on an empty stream) or `switch_unreachable!()`. *)
From Coq Require Import List Arith Bool.
Import ListNotations.

Inductive tok : Type :=
| LP | LPg | RP | LS | LSg | RS | LB | RB | PRE | SYM | NAT | NL | IND | DED | ARROW | COMMA | EOF.

(** what a later arm asks about an already parsed expression *)
Inductive shape : Type :=
| SIdent   (* Accessor::Ident *)
| SLit     (* Literal *)
| SUnit    (* `()` *)
| SAcc     (* Accessor::Subscr *)
| SCall    (* Call *)
| STuple   (* non-empty Tuple *)
| SList    (* List *)
| SOther.  (* UnaryOp, Lambda, Set, BinOp of a star-less multiplication: always rejected as a parameter *)

Inductive out : Type :=
| Ok (s : shape)
| Err            (* ParseResult Err(()) *)
| Unm
| Fuel
| Panic.

Record st : Type := mkst { toks : list tok; nerr : nat; mdep : nat; mlev : nat }.

(** parse.rs MAX_NEST (checked against the source by the translator, gen/ParseDepthConst.v) *)
Definition LIMIT : nat := 32 * 16.

Definition adv (s : st) (ts : list tok) : st := mkst ts (nerr s) (mdep s) (mlev s).
Definition err1 (s : st) : st := mkst (toks s) (S (nerr s)) (mdep s) (mlev s).
(** debug_call_info!: a new instrumented frame at nesting [l], while self.depth = [d] *)
Definition enter (l d : nat) (s : st) : st := mkst (toks s) (nerr s) (Nat.max (mdep s) d) (Nat.max (mlev s) l).

(** Parser::next_expr: skip up to and including the next separator; stop before EOF *)
Fixpoint next_expr (ts : list tok) : list tok :=
  match ts with
  | [] => []
  | NL :: r => r
  | EOF :: _ => ts
  | _ :: r => next_expr r
  end.
(** Parser::next_line: the same with Newline only (`;` is not in the alphabet) *)
Definition next_line (ts : list tok) : list tok := next_expr ts.
(** Parser::until_dedent; [n] = nest_cnt *)
Fixpoint until_dedent (n : nat) (ts : list tok) : list tok :=
  match ts with
  | [] => []
  | IND :: r => until_dedent (S n) r
  | DED :: r => if Nat.leb n 1 then r else until_dedent (n - 1) r
  | EOF :: _ => ts
  | _ :: r => until_dedent n r
  end.
(** Parser::nested, over the limit: `while self.peek().is_some_and(|t| !t.is(EOF)) { self.skip() }` *)
Fixpoint drain (ts : list tok) : list tok :=
  match ts with
  | [] => []
  | EOF :: _ => ts
  | _ :: r => drain r
  end.
(** `while self.cur_is(Newline) { self.skip() }` *)
Fixpoint skip_nl (ts : list tok) : list tok := match ts with NL :: r => skip_nl r | _ => ts end.
(** `while self.cur_is(Dedent) { self.skip() }` *)
Fixpoint skip_ded (ts : list tok) : list tok := match ts with DED :: r => skip_ded r | _ => ts end.
Definition skip_one_ded (ts : list tok) : list tok := match ts with DED :: r => r | _ => ts end.

(** TokenCategory::REnclosure *)
Definition renc (t : tok) : bool := match t with RP | RS | RB | DED => true | _ => false end.
(** the tokens on which opt_reduce_args parses arguments *)
Definition arg_start (t : tok) : bool :=
  match t with NAT | SYM | PRE | LP | LPg | LS | LSg | LB => true | _ => false end.

(** the parser methods (and their loops; a loop runs in the frame of its method) *)
Inductive call : Type :=
| CModule                                  (* try_reduce_module: the loop *)
| CBlock | CBlockLoop (nonempty : bool)    (* try_reduce_block *)
| CChunk (w b : bool)                      (* try_reduce_chunk(winding, in_brace) = nested + try_reduce_chunk_ *)
| CChunkLoop (w b : bool) (lhs : shape)
| CExpr (w b lb : bool)                    (* nested + try_reduce_expr_above(_, winding, _, in_brace, line_break) *)
| CExprLoop (w b lb : bool) (lhs : shape)
| CBody (ml : bool)                        (* body of a lambda: try_reduce_block if the arrow ends the line, else try_reduce_expr *)
| CBinLhs (b : bool)                       (* try_reduce_bin_lhs(_, in_brace) *)
| CCallOrAcc | CCallLoop (obj : shape)     (* try_reduce_call_or_acc, `while let Some(res) = self.opt_reduce_args(..)` *)
| CAccChain | CAccLoop (obj : shape)       (* try_reduce_acc_chain *)
| CArgs | CArgsLoop (lp multi : bool)      (* try_reduce_args *)
| CArg                                     (* try_reduce_arg *)
| CUnary                                   (* try_reduce_unary *)
| CList | CListElems | CListLoop           (* try_reduce_list, try_reduce_list_elems *)
| CElem                                    (* try_reduce_elem *)
| CBrace | CSet | CSetLoop                 (* try_reduce_brace_container, try_reduce_set *)
| CTuple (lb : bool) | CTupleLoop (lb : bool). (* try_reduce_nonempty_tuple(_, line_break) *)

(** convert.rs convert_rhs_to_lambda_sig (a frame at [l]; its callees at [l+1]) *)
Definition conv (lhs : shape) (l d : nat) (s : st) : out * st :=
  let s0 := enter l d s in
  match lhs with
  | SLit => (Ok SOther, s0)
  | SIdent => (Ok SOther, enter (S l) d s0)          (* convert_accessor_to_param_sig *)
  | SUnit => (Ok SOther, enter (S l) d s0)           (* convert_tuple_to_params, no elements *)
  | SAcc => (Err, err1 (enter (S l) d s0))           (* convert_accessor_to_param_sig: not an identifier *)
  | SOther => (Err, err1 s0)
  | SCall | STuple | SList => (Unm, s0)
  end.

Section Body.
  (** [rec c l d s]: run method [c] as a frame at nesting [l] (for a loop: the frame of its method) with self.depth = [d] *)
  Variable rec : call -> nat -> nat -> st -> out * st.

  (** an `->` was just popped ([s]: after it); [chk_first]: try_reduce_chunk tests for EOF before converting the
      left-hand side, try_reduce_expr_above after *)
  Definition lambda_arm (chk_first : bool) (lhs : shape) (l d : nat) (s : st) (k : st -> out * st) : out * st :=
    let at_eof := match toks s with EOF :: _ => true | _ => false end in
    let ml := match toks s with NL :: _ => true | _ => false end in
    if chk_first && at_eof then (Err, err1 s)
    else match conv lhs (S l) d s with
         | (Ok _, s1) =>
           if at_eof then (Err, err1 s1)
           else match rec (CBody ml) l d s1 with
                | (Ok _, s2) => k s2
                | r => r
                end
         | r => r
         end.

  Definition body (c : call) (l d : nat) (s : st) : out * st :=
    match c with
    (* ---- try_reduce_module *)
    | CModule =>
      match toks s with
      | [] => if Nat.eqb (nerr s) 0 then (Panic, s) else (Ok SOther, err1 s)
      | NL :: r => rec CModule l d (adv s r)
      | EOF :: _ => (Ok SOther, s)
      | _ =>
        match rec (CChunk true false) (S l) d s with
        | (Ok _, s1) =>
          let bad := match toks s1 with EOF :: _ | NL :: _ => false | _ => true end in
          rec CModule l d (if bad then err1 (adv s1 (next_line (toks s1))) else s1)
        | (Err, s1) => rec CModule l d s1
        | r => r
        end
      end
    (* ---- try_reduce_block *)
    | CBlock =>
      let s := enter l d s in
      match toks s with
      | NL :: r =>
        match skip_nl r with
        | IND :: r2 => rec (CBlockLoop false) l d (adv s r2)
        | r1 => (Err, err1 (adv s r1))
        end
      | _ =>
        match rec (CExpr true false false) (S l) d s with
        | (Ok _, s1) =>
          let bad := match toks s1 with DED :: _ | NL :: _ | RP :: _ | RB :: _ | RS :: _ => false | _ => true end in
          (Ok SOther, if bad then err1 (adv s1 (next_line (toks s1))) else s1)
        | r => r
        end
      end
    | CBlockLoop ne =>
      let finish (s' : st) := if ne then (Ok SOther, s') else (Err, err1 s') in
      match toks s with
      | NL :: DED :: r => finish (adv s (NL :: r))
      | DED :: r => finish (adv s r)
      | NL :: r => rec (CBlockLoop ne) l d (adv s r)
      | EOF :: _ => finish s
      | [] => finish (err1 s)
      | _ =>
        match rec (CChunk true false) (S l) d s with
        | (Ok _, s1) =>
          let bad := match toks s1 with DED :: _ | NL :: _ => false | _ => true end in
          rec (CBlockLoop true) l d (if bad then err1 (adv s1 (next_line (toks s1))) else s1)
        | (Err, s1) => rec (CBlockLoop ne) l d s1
        | r => r
        end
      end
    (* ---- try_reduce_chunk *)
    | CChunk w b =>
      if Nat.leb LIMIT d then (Err, err1 (adv s (drain (toks s))))
      else
        let d := S d in
        let s := enter l d s in
        match rec (CBinLhs b) (S l) d s with
        | (Ok sh, s1) => rec (CChunkLoop w b sh) l d s1
        | r => r
        end
    | CChunkLoop w b lhs =>
      match toks s with
      | SYM :: _ | NAT :: _ =>
        match rec CArgs (S l) d s with
        | (Ok _, s1) => rec (CChunkLoop w b SCall) l d s1
        | r => r
        end
      | ARROW :: r => lambda_arm true lhs l d (adv s r) (fun s2 => rec (CChunkLoop w b SOther) l d s2)
      | LS :: r | LSg :: r =>
        match rec (CExpr false b false) (S l) d (adv s r) with
        | (Ok _, s1) =>
          match toks s1 with
          | RS :: r1 => rec (CChunkLoop w b SAcc) l d (adv s1 r1)
          | ts1 => (Err, err1 (adv s1 (next_line ts1)))
          end
        | r => r
        end
      | COMMA :: _ =>
        if w then
          match rec (CTuple false) (S l) d s with
          | (Ok _, s1) => rec (CChunkLoop w b STuple) l d s1
          | r => r
          end
        else (Ok lhs, s)
      | _ => (Ok lhs, s)
      end
    (* ---- try_reduce_expr -> nested -> try_reduce_expr_above *)
    | CExpr w b lb =>
      if Nat.leb LIMIT d then (Err, err1 (adv s (drain (toks s))))
      else
        let d := S d in
        let s := enter l d s in
        match rec (CBinLhs b) (S l) d s with
        | (Ok sh, s1) => rec (CExprLoop w b lb sh) l d s1
        | r => r
        end
    | CExprLoop w b lb lhs =>
      match toks s with
      | ARROW :: r => lambda_arm false lhs l d (adv s r) (fun s2 => rec (CExprLoop w b lb SOther) l d s2)
      | LS :: r | LSg :: r =>
        match rec (CExpr false b false) (S l) d (adv s r) with
        | (Ok _, s1) =>
          match toks s1 with
          | [] => (Panic, s1)                                  (* `let r_sqbr = self.lpop();` *)
          | RS :: r1 => rec (CExprLoop w b lb SAcc) l d (adv s1 r1)
          | _ :: r1 => (Err, err1 (adv s1 (next_expr r1)))
          end
        | r => r
        end
      | COMMA :: _ =>
        if w then
          match rec (CTuple lb) (S l) d s with
          | (Ok _, s1) => rec (CExprLoop w b lb STuple) l d s1
          | r => r
          end
        else (Ok lhs, s)
      | _ => (Ok lhs, s)
      end
    | CBody ml => if ml then rec CBlock (S l) d s else rec (CExpr false false false) (S l) d s
    (* ---- try_reduce_bin_lhs *)
    | CBinLhs b =>
      let s := enter l d s in
      match toks s with
      | NAT :: r =>
        let s1 := enter (S l) d (adv s r) in                    (* try_reduce_lit *)
        match r with
        | SYM :: _ =>                                           (* 3x *)
          match rec CCallOrAcc (S l) d s1 with
          | (Ok _, s2) => (Ok SOther, s2)
          | r => r
          end
        | LP :: r2 | LPg :: r2 =>                               (* 3(x) *)
          match rec (CExpr false false false) (S l) d (adv s1 r2) with
          | (Ok _, s2) =>
            match toks s2 with
            | RP :: r3 => (Ok SOther, adv s2 r3)
            | _ => (Err, err1 s2)
            end
          | r => r
          end
        | _ => (Ok SLit, s1)
        end
      | SYM :: _ => rec CCallOrAcc (S l) d s
      | PRE :: _ =>
        match rec CUnary (S l) d s with
        | (Ok _, s1) => (Ok SOther, s1)
        | r => r
        end
      | LP :: r | LPg :: r =>
        let r1 := skip_nl r in
        let lb := match r1 with IND :: _ => true | _ => false end in
        let r2 := match r1 with IND :: r' => r' | _ => r1 end in
        match r2 with
        | RP :: r3 => (Ok SUnit, adv s r3)
        | _ =>
          match rec (CExpr true false lb) (S l) d (adv s r2) with
          | (Ok sh, s1) =>
            let ts1 := if lb then skip_one_ded (skip_nl (toks s1)) else toks s1 in
            match ts1 with
            | RP :: r4 => (Ok sh, adv s1 r4)
            | [] => (Err, err1 (adv s1 []))
            | _ => (Err, err1 (adv s1 (next_expr ts1)))
            end
          | r => r
          end
        end
      | LS :: _ | LSg :: _ =>
        match rec CList (S l) d s with
        | (Ok _, s1) => (Ok SList, s1)
        | r => r
        end
      | LB :: _ =>
        match rec CBrace (S l) d s with
        | (Ok _, s1) => (Ok SOther, s1)
        | r => r
        end
      | [] => (Err, err1 s)
      | _ => (Err, err1 (adv s (next_expr (toks s))))
      end
    (* ---- try_reduce_call_or_acc (with try_reduce_acc_lhs inlined: one more frame) *)
    | CCallOrAcc =>
      let s := enter l d s in
      let s := enter (S l) d s in
      match toks s with
      | SYM :: r =>
        match rec CAccChain (S l) d (adv s r) with
        | (Ok obj, s1) => rec (CCallLoop obj) l d s1
        | r => r
        end
      | _ => (Err, err1 (adv s (next_expr (toks s))))
      end
    | CCallLoop obj =>
      let s := enter (S l) d s in                               (* opt_reduce_args *)
      match toks s with
      | t :: _ =>
        if arg_start t then
          match rec CArgs (S (S l)) d s with
          | (Ok _, s1) => rec (CCallLoop SCall) l d s1
          | r => r
          end
        else (Ok obj, s)
      | [] => (Ok obj, s)
      end
    (* ---- try_reduce_acc_chain *)
    | CAccChain => rec (CAccLoop SIdent) l d (enter l d s)
    | CAccLoop obj =>
      match toks s with
      | LSg :: r =>
        match rec (CExpr true false false) (S l) d (adv s r) with
        | (Ok _, s1) =>
          match toks s1 with
          | RS :: r1 => rec (CAccLoop SAcc) l d (adv s1 r1)
          | ts1 => (Err, err1 (adv s1 (next_line ts1)))
          end
        | r => r
        end
      | LPg :: _ =>
        match rec CArgs (S l) d s with
        | (Ok _, s1) => rec (CAccLoop SCall) l d s1
        | r => r
        end
      | _ => (Ok obj, s)
      end
    (* ---- try_reduce_args *)
    | CArgs =>
      let s := enter l d s in
      let lp := match toks s with LP :: _ | LPg :: _ => true | _ => false end in
      let ts1 := match toks s with LP :: r | LPg :: r => r | ts => ts end in
      let first (multi : bool) (s' : st) :=
        match rec CArg (S l) d s' with
        | (Ok _, s2) => rec (CArgsLoop lp multi) l d s2
        | r => r
        end in
      match ts1 with
      | RP :: r => if lp then (Ok SOther, adv s r) else (Ok SOther, adv s ts1)
      | RB :: _ | RS :: _ | DED :: _ => (Ok SOther, adv s ts1)
      | NL :: r =>
        if lp then first true (adv s (match r with IND :: r2 => r2 | _ => r end))
        else first false (adv s ts1)
      | _ => first false (adv s ts1)
      end
    | CArgsLoop lp multi =>
      match toks s with
      | COMMA :: r =>
        match r with
        | COMMA :: _ => (Err, err1 (adv s (until_dedent 1 r)))
        | _ =>
          let r1 := if multi then skip_one_ded (skip_nl r) else r in
          match r1 with
          | RP :: r2 =>
            if lp then (Ok SOther, adv s r2)
            else match rec CArg (S l) d (adv s r1) with
                 | (Ok _, s2) => rec (CArgsLoop lp multi) l d s2
                 | r => r
                 end
          | _ =>
            match rec CArg (S l) d (adv s r1) with
            | (Ok _, s2) => rec (CArgsLoop lp multi) l d s2
            | r => r
            end
          end
        end
      | RP :: r => if lp then (Ok SOther, adv s r) else (Ok SOther, s)
      | NL :: r =>
        if lp && negb multi then (Err, err1 (adv s r))         (* next_expr consumes this newline *)
        else if multi then
          match skip_ded r with
          | RP :: r2 => (Ok SOther, adv s r2)
          | r1 => (Err, err1 (adv s (next_line r1)))
          end
        else (Ok SOther, s)
      | [] => (Err, err1 s)
      | _ => (Ok SOther, s)
      end
    (* ---- try_reduce_arg *)
    | CArg =>
      let s := enter l d s in
      match toks s with
      | [] => (Err, err1 s)
      | _ => rec (CExpr false false false) (S l) d s
      end
    (* ---- try_reduce_unary *)
    | CUnary =>
      let s := enter l d s in
      match toks s with
      | _ :: r => rec (CExpr false false false) (S l) d (adv s r)
      | [] => (Panic, s)
      end
    (* ---- try_reduce_list *)
    | CList =>
      let s := enter l d s in
      match toks s with
      | LS :: r | LSg :: r =>
        match rec CListElems (S l) d (adv s r) with
        | (Ok _, s1) =>
          match toks s1 with
          | RS :: r1 => (Ok SList, adv s1 r1)
          | ts1 => (Err, err1 (adv s1 (next_line ts1)))
          end
        | r => r
        end
      | ts => (Err, err1 (adv s (next_line ts)))
      end
    (* ---- try_reduce_list_elems *)
    | CListElems =>
      let s := enter l d s in
      match toks s with
      | EOF :: _ => (Err, err1 s)
      | RP :: _ | RS :: _ | RB :: _ | DED :: _ => (Ok SOther, s)
      | _ =>
        match rec CElem (S l) d s with
        | (Ok _, s1) =>
          match toks s1 with
          | RP :: _ | RS :: _ | RB :: _ | DED :: _ | COMMA :: _ => rec CListLoop l d s1
          | [] => (Err, err1 s1)
          | _ =>
            match rec CElem (S l) d s1 with
            | (Ok _, s2) => rec CListLoop l d s2
            | r => r
            end
          end
        | r => r
        end
      end
    | CListLoop =>
      match toks s with
      | COMMA :: r =>
        match r with
        | COMMA :: _ => (Err, err1 (adv s (next_expr r)))
        | RP :: _ | RS :: _ | RB :: _ | DED :: _ => (Ok SOther, adv s r)
        | _ =>
          match rec CElem (S l) d (adv s r) with
          | (Ok _, s1) => rec CListLoop l d s1
          | r => r
          end
        end
      | RP :: _ | RS :: _ | RB :: _ | DED :: _ => (Ok SOther, s)
      | [] => (Err, err1 s)
      | _ => (Err, err1 (adv s (next_expr (toks s))))
      end
    (* ---- try_reduce_elem *)
    | CElem =>
      let s := enter l d s in
      match toks s with
      | [] => (Err, err1 s)
      | _ => rec (CExpr false false false) (S l) d s
      end
    (* ---- try_reduce_brace_container *)
    | CBrace =>
      let s := enter l d s in
      match toks s with
      | LB :: r =>
        match r with
        | EOF :: _ => (Err, err1 (adv s r))
        | RB :: r1 => (Ok SOther, adv s r1)
        | _ =>
          match rec (CChunk false true) (S l) d (adv s r) with
          | (Ok _, s1) =>
            match toks s1 with
            | RB :: r2 => (Ok SOther, adv s1 r2)
            | _ => rec CSet (S l) d s1
            end
          | r => r
          end
        end
      | ts => (Err, err1 (adv s (next_line ts)))
      end
    (* ---- try_reduce_set *)
    | CSet => rec CSetLoop l d (enter l d s)
    | CSetLoop =>
      match toks s with
      | COMMA :: r =>
        match r with
        | COMMA :: _ => (Err, err1 (adv s (next_expr r)))
        | RB :: r1 => (Ok SOther, adv s r1)
        | _ =>
          let r1 := match r with NL :: r' | IND :: r' | DED :: r' => r' | _ => r end in
          match rec CArg (S l) d (adv s r1) with
          | (Ok _, s1) => rec CSetLoop l d s1
          | r => r
          end
        end
      | NL :: r | IND :: r | DED :: r => rec CSetLoop l d (adv s r)
      | RB :: r => (Ok SOther, adv s r)
      | [] => (Err, err1 s)
      | _ => (Err, err1 (adv s (next_expr (toks s))))
      end
    (* ---- try_reduce_nonempty_tuple *)
    | CTuple lb => rec (CTupleLoop lb) l d (enter l d s)
    | CTupleLoop lb =>
      match toks s with
      | COMMA :: r =>
        let r1 := if lb then skip_nl r else r in
        match r1 with
        | COMMA :: _ => (Err, err1 (adv s (next_expr r1)))
        | DED :: _ | RP :: _ => (Ok STuple, adv s r1)
        | _ =>
          match rec CArg (S l) d (adv s r1) with
          | (Ok _, s1) => rec (CTupleLoop lb) l d s1
          | r => r
          end
        end
      | [] => (Err, err1 s)
      | _ => (Ok STuple, s)
      end
    end.
End Body.

Fixpoint exec (fuel : nat) (c : call) (l d : nat) (s : st) : out * st :=
  match fuel with
  | O => (Fuel, s)
  | S f => body (exec f) c l d s
  end.

(** Parser::parse on a token stream: try_reduce_module is the frame at nesting 1 *)
Definition parse_fuel (fuel : nat) (ts : list tok) : out * st :=
  exec fuel CModule 1 0 (enter 1 0 (mkst ts 0 0 0)).

(** enough fuel for every token list (ParseDepth/Proofs.v fuel_sufficient) *)
Definition RANK : nat := 24.
Definition potential (n d : nat) : nat := (2 * RANK) * n + RANK * (LIMIT - d) + RANK.
Definition bound (ts : list tok) : nat := S (potential (length ts) 0).
Definition parse (ts : list tok) : out * st := parse_fuel (bound ts) ts.

(** the observables compared with the implementation: Ok(tree) without errors / Err(errors), number of errors,
    deepest nesting of frames, deepest depth *)
Definition has_errors (r : out * st) : bool := negb (Nat.eqb (nerr (snd r)) 0).
Definition max_level (r : out * st) : nat := mlev (snd r).
Definition max_depth (r : out * st) : nat := mdep (snd r).

(** ---------------------------------------------------------------------------------------------------------
    The code before the repair (no `nested`): same skeleton without the depth test. Only used for
    [depth_unbounded_refuted]. *)
Definition nofix_body (rec : call -> nat -> nat -> st -> out * st) (c : call) (l d : nat) (s : st) : out * st :=
  match c with
  | CChunk w b =>
    let d := S d in
    let s := enter l d s in
    match rec (CBinLhs b) (S l) d s with
    | (Ok sh, s1) => rec (CChunkLoop w b sh) l d s1
    | r => r
    end
  | CExpr w b lb =>
    let d := S d in
    let s := enter l d s in
    match rec (CBinLhs b) (S l) d s with
    | (Ok sh, s1) => rec (CExprLoop w b lb sh) l d s1
    | r => r
    end
  | _ => body rec c l d s
  end.
Fixpoint exec_nofix (fuel : nat) (c : call) (l d : nat) (s : st) : out * st :=
  match fuel with
  | O => (Fuel, s)
  | S f => nofix_body (exec_nofix f) c l d s
  end.
Definition parse_nofix (fuel : nat) (ts : list tok) : out * st :=
  exec_nofix fuel CModule 1 0 (enter 1 0 (mkst ts 0 0 0)).
