(** C09 — recursion skeleton of the recursive-descent parser, crates/erg_parser/parse.rs (repaired code:
    `Parser::nested` refuses to go deeper than MAX_NEST).

    The model is a function over token lists for a token alphabet that is closed under the nesting constructs:
      ( ) [ ] { }  prefix operator  symbol  natural literal  newline indent dedent  lambda arrow  comma  EOF
    ("glued" variants of ( and [ start in the column where the previous token ended: `f(x)`, `a[i]`).
    Every parser method that can be reached with these tokens is transcribed arm by arm; arms that need another
    token kind are absent.  Tracked: remaining tokens, number of errors pushed to `self.errs`, the deepest nesting of
    instrumented frames (methods that start with `debug_call_info!`; abstractly "level") and the deepest value of
    `self.depth` (the counter that `nested` compares with MAX_NEST).
    Not modelled: the syntax tree (only a `shape` that later decisions look at), the `level` counter itself (it is a
    logging aid and drifts: several methods forget to decrement it), warnings, locations.
    `Unm`: the parser took a decision that depends on parts of the tree the model does not keep
    (convert_rhs_to_lambda_sig on a call / tuple / list pattern); the model then makes no prediction.
    `Panic`: an `unwrap()` on `None` (`Parser::lpop` on an empty stream) or `switch_unreachable!()`. *)
From Coq Require Import List Arith Bool.
Import ListNotations.

Inductive tok : Type :=
| LP | LPg | RP | LS | LSg | RS | LB | RB | PRE | SYM | NAT | NL | IND | DED | ARROW | COMMA | EOF.

(** what a later arm asks about an already parsed expression *)
Inductive shape : Type :=
| SIdent   (* Accessor::Ident *)
| SLit     (* Literal *)
| SUnit    (* `()` *)
| SAcc     (* Accessor::Subscr *)
| SCall    (* Call *)
| STuple   (* non-empty Tuple *)
| SList    (* List *)
| SOther.  (* UnaryOp, Lambda, Set, BinOp of a star-less multiplication: always rejected as a parameter *)

Inductive out : Type :=
| Ok (s : shape)
| Err            (* ParseResult Err(()) *)
| Unm
| Fuel
| Panic.

Record st : Type := mkst { toks : list tok; nerr : nat; mdep : nat; mlev : nat }.

(** parse.rs MAX_NEST (checked against the source by the translator, gen/ParseDepthConst.v) *)
Definition LIMIT : nat := 32 * 16.

Definition adv (s : st) (ts : list tok) : st := mkst ts (nerr s) (mdep s) (mlev s).
Definition err1 (s : st) : st := mkst (toks s) (S (nerr s)) (mdep s) (mlev s).
(** debug_call_info!: a new instrumented frame at nesting [l], while self.depth = [d] *)
Definition enter (l d : nat) (s : st) : st := mkst (toks s) (nerr s) (Nat.max (mdep s) d) (Nat.max (mlev s) l).

(** Parser::next_expr: skip up to and including the next separator; stop before EOF *)
Fixpoint next_expr (ts : list tok) : list tok :=
  match ts with
  | [] => []
  | NL :: r => r
  | EOF :: _ => ts
  | _ :: r => next_expr r
  end.
(** Parser::next_line: the same with Newline only (`;` is not in the alphabet) *)
Definition next_line (ts : list tok) : list tok := next_expr ts.
(** Parser::until_dedent; [n] = nest_cnt *)
Fixpoint until_dedent (n : nat) (ts : list tok) : list tok :=
  match ts with
  | [] => []
  | IND :: r => until_dedent (S n) r
  | DED :: r => if Nat.leb n 1 then r else until_dedent (n - 1) r
  | EOF :: _ => ts
  | _ :: r => until_dedent n r
  end.
(** Parser::nested, over the limit: `while self.peek().is_some_and(|t| !t.is(EOF)) { self.skip() }` *)
Fixpoint drain (ts : list tok) : list tok :=
  match ts with
  | [] => []
  | EOF :: _ => ts
  | _ :: r => drain r
  end.
(** `while self.cur_is(Newline) { self.skip() }` *)
Fixpoint skip_nl (ts : list tok) : list tok := match ts with NL :: r => skip_nl r | _ => ts end.
(** `while self.cur_is(Dedent) { self.skip() }` *)
Fixpoint skip_ded (ts : list tok) : list tok := match ts with DED :: r => skip_ded r | _ => ts end.
Definition skip_one_ded (ts : list tok) : list tok := match ts with DED :: r => r | _ => ts end.

(** after `(`: `while self.cur_is(Newline) { self.skip() }`, then `line_break` = an Indent follows (skipped) *)
Definition open_paren (r : list tok) : bool * list tok :=
  match skip_nl r with
  | IND :: r' => (true, r')
  | r1 => (false, r1)
  end.
(** before `)`: `if line_break { while self.cur_is(Newline) { self.skip() }; if self.cur_is(Dedent) { self.skip() } }` *)
Definition close_paren (lb : bool) (ts : list tok) : list tok := if lb then skip_one_ded (skip_nl ts) else ts.

(** Token::is *)
Definition is (k t : tok) : bool :=
  match k, t with
  | LP, LP | LPg, LPg | RP, RP | LS, LS | LSg, LSg | RS, RS | LB, LB | RB, RB | PRE, PRE | SYM, SYM | NAT, NAT
  | NL, NL | IND, IND | DED, DED | ARROW, ARROW | COMMA, COMMA | EOF, EOF => true
  | _, _ => false
  end.
(** Token::is(LParen) / is(LSqBr), glued or not *)
Definition is_lp (t : tok) : bool := is LP t || is LPg t.
Definition is_ls (t : tok) : bool := is LS t || is LSg t.
(** TokenCategory::REnclosure *)
Definition renc (t : tok) : bool := is RP t || is RS t || is RB t || is DED t.
(** the tokens on which opt_reduce_args parses arguments *)
Definition arg_start (t : tok) : bool :=
  is NAT t || is SYM t || is PRE t || is_lp t || is_ls t || is LB t.
(** Parser::cur_is and friends: tests on the next token, false at the end of the stream *)
Definition cur (p : tok -> bool) (ts : list tok) : bool := match ts with t :: _ => p t | [] => false end.
Definition cur_is (k : tok) (ts : list tok) : bool := cur (is k) ts.
Definition cur_lp := cur is_lp.
Definition cur_ls := cur is_ls.
Definition cur_renc := cur renc.
Definition cur_arg_start := cur arg_start.

(** the parser methods (and their loops; a loop runs in the frame of its method) *)
Inductive call : Type :=
| CModule                                  (* try_reduce_module: the loop *)
| CBlock | CBlockLoop (nonempty : bool)    (* try_reduce_block *)
| CChunk (w b : bool)                      (* try_reduce_chunk(winding, in_brace) = nested + try_reduce_chunk_ *)
| CChunkLoop (w b : bool) (lhs : shape)
| CExpr (w b lb : bool)                    (* nested + try_reduce_expr_above(_, winding, _, in_brace, line_break) *)
| CExprLoop (w b lb : bool) (lhs : shape)
| CBody (ml : bool)                        (* body of a lambda: try_reduce_block if the arrow ends the line, else try_reduce_expr *)
| CBinLhs (b : bool)                       (* try_reduce_bin_lhs(_, in_brace) *)
| CCallOrAcc | CCallLoop (obj : shape)     (* try_reduce_call_or_acc, `while let Some(res) = self.opt_reduce_args(..)` *)
| CAccChain | CAccLoop (obj : shape)       (* try_reduce_acc_chain *)
| CArgs | CArgsLoop (lp multi : bool)      (* try_reduce_args *)
| CArg                                     (* try_reduce_arg *)
| CUnary                                   (* try_reduce_unary *)
| CList | CListElems | CListLoop           (* try_reduce_list, try_reduce_list_elems *)
| CElem                                    (* try_reduce_elem *)
| CBrace | CSet | CSetLoop                 (* try_reduce_brace_container, try_reduce_set *)
| CTuple (lb : bool) | CTupleLoop (lb : bool). (* try_reduce_nonempty_tuple(_, line_break) *)

(** convert.rs convert_rhs_to_lambda_sig (a frame at [l]; its callees at [l+1]) *)
Definition conv (lhs : shape) (l d : nat) (s : st) : out * st :=
  let s0 := enter l d s in
  match lhs with
  | SLit => (Ok SOther, s0)
  | SIdent => (Ok SOther, enter (S l) d s0)          (* convert_accessor_to_param_sig *)
  | SUnit => (Ok SOther, enter (S l) d s0)           (* convert_tuple_to_params, no elements *)
  | SAcc => (Err, err1 (enter (S l) d s0))           (* convert_accessor_to_param_sig: not an identifier *)
  | SOther => (Err, err1 s0)
  | SCall | STuple | SList => (Unm, s0)
  end.

(** a loop body either ends the loop with the method's result or goes around again *)
Inductive iter : Type := Stop (r : out * st) | Again (s : st).

Section Body.
  (** [rec c l d s]: run method [c] as a frame at nesting [l] (for a loop: the frame of its method) with self.depth = [d] *)
  Variable rec : call -> nat -> nat -> st -> out * st.

  (** an `->` was just popped ([s]: after it); [chk_first]: try_reduce_chunk tests for EOF before converting the
      left-hand side, try_reduce_expr_above after *)
  Definition lambda_arm (chk_first : bool) (lhs : shape) (l d : nat) (s : st) (k : st -> out * st) : out * st :=
    let at_eof := cur_is EOF (toks s) in
    let ml := cur_is NL (toks s) in
    if chk_first && at_eof then (Err, err1 s)
    else match conv lhs (S l) d s with
         | (Ok _, s1) =>
           if at_eof then (Err, err1 s1)
           else match rec (CBody ml) l d s1 with
                | (Ok _, s2) => k s2
                | r => r
                end
         | r => r
         end.

  (** `let x = self.f(..).map_err(..)?; <k>` *)
  Definition andthen (r : out * st) (k : shape -> st -> out * st) : out * st :=
    match r with
    | (Ok sh, s1) => k sh s1
    | _ => r
    end.

  (** one turn of the `loop` of try_reduce_module: done with a result, or around again in a new state *)
  Definition module_iter (l d : nat) (s : st) : iter :=
    match toks s with
    | [] => Stop (if Nat.eqb (nerr s) 0 then (Panic, s) else (Ok SOther, err1 s))
    | t :: r =>
      if is NL t then Again (adv s r)
      else if is EOF t then Stop (Ok SOther, s)
      else
        match rec (CChunk true false) (S l) d s with
        | (Ok _, s1) =>
          let bad := negb (cur_is EOF (toks s1) || cur_is NL (toks s1)) in
          Again (if bad then err1 (adv s1 (next_line (toks s1))) else s1)
        | (Err, s1) => Again s1
        | r => Stop r
        end
    end.

  (** one turn of the `loop` of try_reduce_block ([ne]: the block has an expression already) *)
  Definition block_iter (ne : bool) (l d : nat) (s : st) : bool * iter :=
    let finish (s' : st) := Stop (if ne then (Ok SOther, s') else (Err, err1 s')) in
    match toks s with
    | [] => (ne, finish (err1 s))
    | t :: r =>
      if is NL t && cur_is DED r then (ne, finish (adv s (NL :: tl r)))
      else if is DED t then (ne, finish (adv s r))
      else if is NL t then (ne, Again (adv s r))
      else if is EOF t then (ne, finish s)
      else
        match rec (CChunk true false) (S l) d s with
        | (Ok _, s1) =>
          let bad := negb (cur_is DED (toks s1) || cur_is NL (toks s1)) in
          (true, Again (if bad then err1 (adv s1 (next_line (toks s1))) else s1))
        | (Err, s1) => (ne, Again s1)
        | r => (ne, Stop r)
        end
    end.

  Definition body (c : call) (l d : nat) (s : st) : out * st :=
    match c with
    (* ---- try_reduce_module *)
    | CModule =>
      match module_iter l d s with
      | Stop r => r
      | Again s2 => rec CModule l d s2
      end
    (* ---- try_reduce_block *)
    | CBlock =>
      let s := enter l d s in
      if cur_is NL (toks s) then
        match skip_nl (toks s) with
        | [] => (Err, err1 (adv s []))
        | t :: r2 => if is IND t then rec (CBlockLoop false) l d (adv s r2) else (Err, err1 (adv s (t :: r2)))
        end
      else
        andthen (rec (CExpr true false false) (S l) d s) (fun _ s1 =>
          let bad := negb (cur_is DED (toks s1) || cur_is NL (toks s1) || cur_renc (toks s1)) in
          (Ok SOther, if bad then err1 (adv s1 (next_line (toks s1))) else s1))
    | CBlockLoop ne =>
      match block_iter ne l d s with
      | (_, Stop r) => r
      | (ne', Again s2) => rec (CBlockLoop ne') l d s2
      end
    (* ---- try_reduce_chunk = nested + try_reduce_chunk_ *)
    | CChunk w b =>
      if Nat.leb LIMIT d then (Err, err1 (adv s (drain (toks s))))
      else
        let d := S d in
        let s := enter l d s in
        andthen (rec (CBinLhs b) (S l) d s) (fun sh s1 => rec (CChunkLoop w b sh) l d s1)
    | CChunkLoop w b lhs =>
      match toks s with
      | [] => (Ok lhs, s)
      | t :: r =>
        if is SYM t || is NAT t then
          andthen (rec CArgs (S l) d s) (fun _ s1 => rec (CChunkLoop w b SCall) l d s1)
        else if is ARROW t then
          lambda_arm true lhs l d (adv s r) (fun s2 => rec (CChunkLoop w b SOther) l d s2)
        else if is_ls t then
          andthen (rec (CExpr false b false) (S l) d (adv s r)) (fun _ s1 =>
            match toks s1 with
            | t1 :: r1 => if is RS t1 then rec (CChunkLoop w b SAcc) l d (adv s1 r1)
                          else (Err, err1 (adv s1 (next_line (toks s1))))
            | [] => (Err, err1 (adv s1 (next_line (toks s1))))
            end)
        else if is COMMA t && w then
          andthen (rec (CTuple false) (S l) d s) (fun _ s1 => rec (CChunkLoop w b STuple) l d s1)
        else (Ok lhs, s)
      end
    (* ---- try_reduce_expr -> nested -> try_reduce_expr_above *)
    | CExpr w b lb =>
      if Nat.leb LIMIT d then (Err, err1 (adv s (drain (toks s))))
      else
        let d := S d in
        let s := enter l d s in
        andthen (rec (CBinLhs b) (S l) d s) (fun sh s1 => rec (CExprLoop w b lb sh) l d s1)
    | CExprLoop w b lb lhs =>
      match toks s with
      | [] => (Ok lhs, s)
      | t :: r =>
        if is ARROW t then
          lambda_arm false lhs l d (adv s r) (fun s2 => rec (CExprLoop w b lb SOther) l d s2)
        else if is_ls t then
          andthen (rec (CExpr false b false) (S l) d (adv s r)) (fun _ s1 =>
            match toks s1 with
            | [] => (Panic, s1)                                  (* `let r_sqbr = self.lpop();` *)
            | t1 :: r1 => if is RS t1 then rec (CExprLoop w b lb SAcc) l d (adv s1 r1)
                          else (Err, err1 (adv s1 (next_expr r1)))
            end)
        else if is COMMA t && w then
          andthen (rec (CTuple lb) (S l) d s) (fun _ s1 => rec (CExprLoop w b lb STuple) l d s1)
        else (Ok lhs, s)
      end
    | CBody ml => if ml then rec CBlock (S l) d s else rec (CExpr false false false) (S l) d s
    (* ---- try_reduce_bin_lhs *)
    | CBinLhs b =>
      let s := enter l d s in
      match toks s with
      | [] => (Err, err1 s)
      | t :: r =>
        if is NAT t then
          let s1 := enter (S l) d (adv s r) in                    (* try_reduce_lit *)
          match r with
          | [] => (Ok SLit, s1)
          | t2 :: r2 =>
            if is SYM t2 then                                     (* 3x *)
              andthen (rec CCallOrAcc (S l) d s1) (fun _ s2 => (Ok SOther, s2))
            else if is_lp t2 then                                 (* 3(x) *)
              andthen (rec (CExpr false false false) (S l) d (adv s1 r2)) (fun _ s2 =>
                match toks s2 with
                | t3 :: r3 => if is RP t3 then (Ok SOther, adv s2 r3) else (Err, err1 s2)
                | [] => (Err, err1 s2)
                end)
            else (Ok SLit, s1)
          end
        else if is SYM t then rec CCallOrAcc (S l) d s
        else if is PRE t then andthen (rec CUnary (S l) d s) (fun _ s1 => (Ok SOther, s1))
        else if is_lp t then
          let (lb, r2) := open_paren r in
          if cur_is RP r2 then (Ok SUnit, adv s (tl r2))
          else
            andthen (rec (CExpr true false lb) (S l) d (adv s r2)) (fun sh s1 =>
              let ts1 := close_paren lb (toks s1) in
              match ts1 with
              | [] => (Err, err1 (adv s1 []))
              | t4 :: r4 => if is RP t4 then (Ok sh, adv s1 r4) else (Err, err1 (adv s1 (next_expr ts1)))
              end)
        else if is_ls t then andthen (rec CList (S l) d s) (fun _ s1 => (Ok SList, s1))
        else if is LB t then andthen (rec CBrace (S l) d s) (fun _ s1 => (Ok SOther, s1))
        else (Err, err1 (adv s (next_expr (toks s))))
      end
    (* ---- try_reduce_call_or_acc (with try_reduce_acc_lhs inlined: one more frame) *)
    | CCallOrAcc =>
      let s := enter l d s in
      let s := enter (S l) d s in
      if cur_is SYM (toks s) then
        andthen (rec CAccChain (S l) d (adv s (tl (toks s)))) (fun obj s1 => rec (CCallLoop obj) l d s1)
      else (Err, err1 (adv s (next_expr (toks s))))
    | CCallLoop obj =>
      let s := enter (S l) d s in                               (* opt_reduce_args *)
      if cur_arg_start (toks s) then
        andthen (rec CArgs (S (S l)) d s) (fun _ s1 => rec (CCallLoop SCall) l d s1)
      else (Ok obj, s)
    (* ---- try_reduce_acc_chain *)
    | CAccChain => rec (CAccLoop SIdent) l d (enter l d s)
    | CAccLoop obj =>
      if cur_is LSg (toks s) then
        andthen (rec (CExpr true false false) (S l) d (adv s (tl (toks s)))) (fun _ s1 =>
          if cur_is RS (toks s1) then rec (CAccLoop SAcc) l d (adv s1 (tl (toks s1)))
          else (Err, err1 (adv s1 (next_line (toks s1)))))
      else if cur_is LPg (toks s) then
        andthen (rec CArgs (S l) d s) (fun _ s1 => rec (CAccLoop SCall) l d s1)
      else (Ok obj, s)
    (* ---- try_reduce_args *)
    | CArgs =>
      let s := enter l d s in
      let lp := cur_lp (toks s) in
      let ts1 := if lp then tl (toks s) else toks s in
      let first (multi : bool) (s' : st) :=
        andthen (rec CArg (S l) d s') (fun _ s2 => rec (CArgsLoop lp multi) l d s2) in
      if cur_is RP ts1 then (if lp then (Ok SOther, adv s (tl ts1)) else (Ok SOther, adv s ts1))
      else if cur_is RB ts1 || cur_is RS ts1 || cur_is DED ts1 then (Ok SOther, adv s ts1)
      else if cur_is NL ts1 && lp then first true (adv s (if cur_is IND (tl ts1) then tl (tl ts1) else tl ts1))
      else first false (adv s ts1)
    | CArgsLoop lp multi =>
      match toks s with
      | [] => (Err, err1 s)
      | t :: r =>
        if is COMMA t then
          if cur_is COMMA r then (Err, err1 (adv s (until_dedent 1 r)))
          else
            let r1 := if multi then skip_one_ded (skip_nl r) else r in
            if cur_is RP r1 && lp then (Ok SOther, adv s (tl r1))
            else andthen (rec CArg (S l) d (adv s r1)) (fun _ s2 => rec (CArgsLoop lp multi) l d s2)
        else if is RP t then (if lp then (Ok SOther, adv s r) else (Ok SOther, s))
        else if is NL t then
          if lp && negb multi then (Err, err1 (adv s r))         (* next_expr consumes this newline *)
          else if multi then
            let r1 := skip_ded r in
            if cur_is RP r1 then (Ok SOther, adv s (tl r1)) else (Err, err1 (adv s (next_line r1)))
          else (Ok SOther, s)
        else (Ok SOther, s)
      end
    (* ---- try_reduce_arg *)
    | CArg =>
      let s := enter l d s in
      match toks s with
      | [] => (Err, err1 s)
      | _ :: _ => rec (CExpr false false false) (S l) d s
      end
    (* ---- try_reduce_unary *)
    | CUnary =>
      let s := enter l d s in
      match toks s with
      | _ :: r => rec (CExpr false false false) (S l) d (adv s r)
      | [] => (Panic, s)
      end
    (* ---- try_reduce_list *)
    | CList =>
      let s := enter l d s in
      if cur_ls (toks s) then
        andthen (rec CListElems (S l) d (adv s (tl (toks s)))) (fun _ s1 =>
          if cur_is RS (toks s1) then (Ok SList, adv s1 (tl (toks s1)))
          else (Err, err1 (adv s1 (next_line (toks s1)))))
      else (Err, err1 (adv s (next_line (toks s))))
    (* ---- try_reduce_list_elems *)
    | CListElems =>
      let s := enter l d s in
      if cur_is EOF (toks s) then (Err, err1 s)
      else if cur_renc (toks s) then (Ok SOther, s)
      else
        andthen (rec CElem (S l) d s) (fun _ s1 =>
          match toks s1 with
          | [] => (Err, err1 s1)
          | t1 :: _ =>
            if renc t1 || is COMMA t1 then rec CListLoop l d s1
            else andthen (rec CElem (S l) d s1) (fun _ s2 => rec CListLoop l d s2)
          end)
    | CListLoop =>
      match toks s with
      | [] => (Err, err1 s)
      | t :: r =>
        if is COMMA t then
          if cur_is COMMA r then (Err, err1 (adv s (next_expr r)))
          else if cur_renc r then (Ok SOther, adv s r)
          else andthen (rec CElem (S l) d (adv s r)) (fun _ s1 => rec CListLoop l d s1)
        else if renc t then (Ok SOther, s)
        else (Err, err1 (adv s (next_expr (toks s))))
      end
    (* ---- try_reduce_elem *)
    | CElem =>
      let s := enter l d s in
      match toks s with
      | [] => (Err, err1 s)
      | _ :: _ => rec (CExpr false false false) (S l) d s
      end
    (* ---- try_reduce_brace_container *)
    | CBrace =>
      let s := enter l d s in
      if cur_is LB (toks s) then
        let r := tl (toks s) in
        if cur_is EOF r then (Err, err1 (adv s r))
        else if cur_is RB r then (Ok SOther, adv s (tl r))
        else
          andthen (rec (CChunk false true) (S l) d (adv s r)) (fun _ s1 =>
            if cur_is RB (toks s1) then (Ok SOther, adv s1 (tl (toks s1)))
            else rec CSet (S l) d s1)
      else (Err, err1 (adv s (next_line (toks s))))
    (* ---- try_reduce_set *)
    | CSet => rec CSetLoop l d (enter l d s)
    | CSetLoop =>
      match toks s with
      | [] => (Err, err1 s)
      | t :: r =>
        if is COMMA t then
          if cur_is COMMA r then (Err, err1 (adv s (next_expr r)))
          else if cur_is RB r then (Ok SOther, adv s (tl r))
          else
            let r1 := if cur_is NL r || cur_is IND r || cur_is DED r then tl r else r in
            andthen (rec CArg (S l) d (adv s r1)) (fun _ s1 => rec CSetLoop l d s1)
        else if is NL t || is IND t || is DED t then rec CSetLoop l d (adv s r)
        else if is RB t then (Ok SOther, adv s r)
        else (Err, err1 (adv s (next_expr (toks s))))
      end
    (* ---- try_reduce_nonempty_tuple *)
    | CTuple lb => rec (CTupleLoop lb) l d (enter l d s)
    | CTupleLoop lb =>
      match toks s with
      | [] => (Err, err1 s)
      | t :: r =>
        if is COMMA t then
          let r1 := if lb then skip_nl r else r in
          if cur_is COMMA r1 then (Err, err1 (adv s (next_expr r1)))
          else if cur_is DED r1 || cur_is RP r1 then (Ok STuple, adv s r1)
          else andthen (rec CArg (S l) d (adv s r1)) (fun _ s1 => rec (CTupleLoop lb) l d s1)
        else (Ok STuple, s)
      end
    end.
End Body.

Fixpoint exec (fuel : nat) (c : call) (l d : nat) (s : st) : out * st :=
  match fuel with
  | O => (Fuel, s)
  | S f => body (exec f) c l d s
  end.

(** Parser::parse on a token stream: try_reduce_module is the frame at nesting 1 *)
Definition parse_fuel (fuel : nat) (ts : list tok) : out * st :=
  exec fuel CModule 1 0 (enter 1 0 (mkst ts 0 0 0)).

(** enough fuel for every token list (ParseDepth/Proofs.v fuel_sufficient) *)
Definition RANK : nat := 6.
Definition potential (n d : nat) : nat := (2 * RANK) * n + RANK * (LIMIT - d) + RANK.
Definition bound (ts : list tok) : nat := S (potential (length ts) 0).
Definition parse (ts : list tok) : out * st := parse_fuel (bound ts) ts.

(** the observables compared with the implementation: Ok(tree) without errors / Err(errors), number of errors,
    deepest nesting of frames, deepest depth *)
Definition has_errors (r : out * st) : bool := negb (Nat.eqb (nerr (snd r)) 0).
Definition max_level (r : out * st) : nat := mlev (snd r).
Definition max_depth (r : out * st) : nat := mdep (snd r).

(** ---------------------------------------------------------------------------------------------------------
    The code before the repair (no `nested`): same skeleton without the depth test. Only used for
    [depth_unbounded_refuted]. *)
Definition nofix_body (rec : call -> nat -> nat -> st -> out * st) (c : call) (l d : nat) (s : st) : out * st :=
  match c with
  | CChunk w b =>
    let d := S d in
    let s := enter l d s in
    match rec (CBinLhs b) (S l) d s with
    | (Ok sh, s1) => rec (CChunkLoop w b sh) l d s1
    | r => r
    end
  | CExpr w b lb =>
    let d := S d in
    let s := enter l d s in
    match rec (CBinLhs b) (S l) d s with
    | (Ok sh, s1) => rec (CExprLoop w b lb sh) l d s1
    | r => r
    end
  | _ => body rec c l d s
  end.
Fixpoint exec_nofix (fuel : nat) (c : call) (l d : nat) (s : st) : out * st :=
  match fuel with
  | O => (Fuel, s)
  | S f => nofix_body (exec_nofix f) c l d s
  end.
Definition parse_nofix (fuel : nat) (ts : list tok) : out * st :=
  exec_nofix fuel CModule 1 0 (enter 1 0 (mkst ts 0 0 0)).
