(** C09 — The parser is total and never exhausts the stack.

    For every input text, parsing terminates without crashing or aborting and yields either a syntax tree with no
    errors or at least one syntax error; bracket and block nesting up to the depth CPython accepts (200) is handled,
    and deeper nesting is reported as an error instead of overflowing the stack.

    Theorems over the model of ParseDepth/Model.v ([parse]: the recursion skeleton of the repaired parser on a token
    stream; `LIMIT` = MAX_NEST). What a Coq model cannot show - bytes of stack per frame - is measured by the check
    (checks/c09.py) and combined with [depth_bounded]. *)
From Coq Require Import List Arith Bool NArith.
Require Import ErgV.gen.ParseDepthConst .
Require Import ErgV.ParseDepth.Model ErgV.ParseDepth.Spec ErgV.ParseDepth.ProofsLen ErgV.ParseDepth.Proofs .
Import ListNotations.

(** The model's limit is the one in the source (gen/ParseDepthConst.v is regenerated from parse.rs on every run), and
    it leaves room for 200 constructs that cost 2 each (records, `if c, do:` blocks) plus the enclosing definition. *)
Theorem limit_matches_source : N.of_nat LIMIT = MAX_NEST /\ (2 * CPYTHON_DEPTH + 8 <= LIMIT)%nat.
Proof. exact limit_matches_source_proof. Qed.

(** Each turn of the top-level loop (try_reduce_module) that goes around again has consumed at least one token. *)
Theorem module_loop_progress : forall fuel l d s s2,
  module_iter (exec fuel) l d s = Again s2 -> length (toks s2) < length (toks s).
Proof. exact module_iter_progress. Qed.
Example module_loop_progress_ex :
  exists s2, module_iter (exec 50) 1 0 (mkst [RP; NL; SYM; NL; EOF] 0 0 0) = Again s2 /\ toks s2 = [SYM; NL; EOF].
Proof. eexists; split; vm_compute; reflexivity. Qed.

(** The same for the loop over the lines of an indented block (try_reduce_block). *)
Theorem block_loop_progress : forall fuel ne l d s ne' s2,
  block_iter (exec fuel) ne l d s = (ne', Again s2) -> length (toks s2) < length (toks s).
Proof. exact block_iter_progress. Qed.
Example block_loop_progress_ex :
  exists s2, block_iter (exec 50) false 3 1 (mkst [NAT; RP; NL; SYM; NL; DED; EOF] 0 0 0) = (true, Again s2)
             /\ toks s2 = [SYM; NL; DED; EOF].
Proof. eexists; split; vm_compute; reflexivity. Qed.

(** The recovery loops next_expr, next_line, until_dedent and the give-up loop of `nested` only drop tokens, and
    next_expr / the give-up loop drop at least one when the next token is not EOF. *)
Theorem recovery_loops_progress : forall ts,
  length (next_expr ts) <= length ts /\ length (next_line ts) <= length ts /\
  (forall k, length (until_dedent k ts) <= length ts) /\ length (drain ts) <= length ts /\
  (hd_live ts = true -> length (next_expr ts) < length ts /\ length (drain ts) < length ts).
Proof. exact recovery_progress. Qed.
Example recovery_loops_progress_ex : next_expr [RP; RP; NL; SYM; EOF] = [SYM; EOF] /\ until_dedent 1 [IND; SYM; DED; DED; NAT] = [NAT].
Proof. split; reflexivity. Qed.

(** Termination for all token lists: [bound ts] units of fuel are never used up. *)
Theorem parse_terminates : forall ts, fst (parse ts) <> Fuel.
Proof. exact parse_never_out_of_fuel. Qed.
Example parse_terminates_ex : fst (parse [RP; LP; LS; COMMA; ARROW; PRE; EOF]) = Ok SOther /\ nerr (snd (parse [RP; LP; LS; COMMA; ARROW; PRE; EOF])) = 1.
Proof. split; vm_compute; reflexivity. Qed.

(** For ALL token sequences the recursion of the model is bounded by a constant determined by LIMIT: `depth` never
    exceeds LIMIT and at most 6 * LIMIT + 2 instrumented frames are ever nested. *)
Theorem depth_bounded : forall ts, max_depth (parse ts) <= LIMIT /\ max_level (parse ts) <= 6 * LIMIT + 2.
Proof. exact parse_bounded. Qed.
(** non-vacuity, and the bound is tight: 1000 nested calls reach depth LIMIT and 6 * LIMIT + 1 frames *)
Example depth_bounded_ex :
  max_depth (parse (uniform KCall 1000)) = LIMIT /\ max_level (parse (uniform KCall 1000)) = 6 * LIMIT + 1.
Proof. split; vm_compute; reflexivity. Qed.

(** Full statement wanted: for every well-nested program, nesting > LIMIT -> an error is reported.
    Proved: for every depth (no bound) and each one-line construct nested uniformly - parentheses, list, set, prefix
    operator, lambda, call with and without parentheses, subscript, star-less multiplication.
    Missing: mixtures of kinds (a combination may cost less than one unit of depth per construct, e.g. `f (x)` is one
    call, so the statement needs the cost function; sampled by the check) and indented blocks (the lexer refuses more
    than 100 columns of indentation before the parser sees them: known finding, Spec.Known_indent). *)
Theorem deep_nesting_is_error_partial : forall k n,
  k <> KLamBlock -> LIMIT <= n -> reports (parse (uniform k n)) = true.
Proof. exact deep_parse. Qed.
Example deep_nesting_is_error_ex :
  reports (parse (uniform KSet 513)) = true /\ nerr (snd (parse (uniform KSet 513))) = 1 /\ reports (parse (lamblock 600)) = true.
Proof. repeat split; vm_compute; reflexivity. Qed.

(** Full statement wanted: every well-nested program with at most 200 nested constructs parses without any error.
    Proved (by computation, the bound is in the statement): each one-line construct nested uniformly 0..200 deep, and
    0..100 indented lambda blocks (all the lexer can deliver). Missing: mixtures (sampled by the check). *)
Theorem shallow_nesting_ok_partial :
  (forall k n, k <> KLamBlock -> n <= CPYTHON_DEPTH -> clean (parse (uniform k n)) = true) /\
  (forall n, n <= 100 -> clean (parse (lamblock n)) = true).
Proof. split; [exact shallow_uniform | exact shallow_lamblock]. Qed.
Example shallow_nesting_ok_ex : clean (parse (uniform KSubscr 200)) = true /\ max_depth (parse (uniform KSubscr 200)) = 201.
Proof. split; vm_compute; reflexivity. Qed.

(** The executable statement of the property (Spec.judge) accepts what the model does on these programs. *)
Theorem model_meets_judge : forall k n,
  k <> KLamBlock -> n <= CPYTHON_DEPTH \/ LIMIT < n ->
  judge (mkobs (Some n) 0 0 (model_ending (parse (uniform k n)))) = true.
Proof. exact model_judge. Qed.

(** Before the repair there was no bound: nesting n reaches depth at least n. *)
Theorem depth_unbounded_refuted :
  exists ts, LIMIT < max_depth (parse_nofix (bound ts) ts) /\
             forallb (fun n => Nat.leb n (max_depth (parse_nofix (bound (uniform KParen n)) (uniform KParen n)))) [1; 10; 100; 600; 1000] = true.
Proof. exact nofix_unbounded. Qed.
