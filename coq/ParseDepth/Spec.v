(** C09 — what the property says, in terms of observations of one parse, and the nesting families it quantifies over.

    Property: for every input text, parsing terminates without crashing or aborting and yields either a syntax tree
    with no errors or at least one syntax error; nesting up to the depth CPython accepts (200) is handled, deeper
    nesting (beyond the parser's limit) is reported as an error instead of overflowing the stack. *)
From Coq Require Import List Arith Bool.
Require Import ErgV.ParseDepth.Model .
Import ListNotations.

(** ---- nesting families (single spine: every construct contains exactly one construct) *)
Inductive kind : Type :=
| KParen     (* ( e )      *)
| KList      (* [ e ]      *)
| KSet       (* { e }      *)
| KUnary     (* ~ e        *)
| KLambda    (* x -> e     *)
| KCall      (* f( e )     *)
| KCallNp    (* f e        *)
| KSubscr    (* a[ e ]     *)
| KMul       (* 2 ( e )    *)
| KLamBlock. (* x ->⏎ e   the body is an indented block (the dedents come at the end of the program) *)

Definition opener (k : kind) : list tok :=
  match k with
  | KParen => [LP] | KList => [LS] | KSet => [LB] | KUnary => [PRE] | KLambda => [SYM; ARROW]
  | KCall => [SYM; LPg] | KCallNp => [SYM] | KSubscr => [SYM; LSg] | KMul => [NAT; LP]
  | KLamBlock => [SYM; ARROW; NL; IND]
  end.
Definition closer (k : kind) : list tok :=
  match k with
  | KParen | KCall | KMul => [RP] | KList | KSubscr => [RS] | KSet => [RB] | KUnary | KLambda | KCallNp | KLamBlock => []
  end.

(** the token stream of the one-line program that nests the constructs [ks] (outermost first) around `1`,
    followed by [rest] *)
Fixpoint spine_on (ks : list kind) (rest : list tok) : list tok :=
  match ks with
  | [] => NAT :: rest
  | k :: r => opener k ++ spine_on r (closer k ++ rest)
  end.
Definition nest (ks : list kind) : list tok := spine_on ks [NL; EOF].
Definition uniform (k : kind) (n : nat) : list tok := nest (repeat k n).

(** [n] lambdas whose bodies are indented blocks, as the lexer delivers them:  x ->⏎ x ->⏎  ...  1⏎ dedents *)
Definition lamblock (n : nat) : list tok := spine_on (repeat KLamBlock n) (NL :: repeat DED n ++ [EOF]).

(** number of nested constructs of a well-nested program *)
Definition nesting (ks : list kind) : nat := length ks.

(** depth CPython accepts *)
Definition CPYTHON_DEPTH : nat := 200.

(** ---- observations and the executable judge *)
(** how one parse of one input ended *)
Inductive ending : Type :=
| EOk (nerrs : nat)        (* Ok(tree); [nerrs] errors were reported with it (must be 0) *)
| EErr (nerrs : nat)       (* Err(errors) *)
| ECrash                   (* panic, abort, killed by a signal *)
| EHang.                   (* no answer within the time limit *)

(** what is known about the input: [Some n]: a well-nested program with [n] nested constructs, which is
    indented [cols] columns at its deepest line; [None]: arbitrary text. [o_chain]: a lower bound of the longest chain
    of infix / postfix operations applied one after the other in one expression (`1 + 1 + ...`, `f(1)(1)...`) *)
Record obs : Type := mkobs { o_nest : option nat; o_cols : nat; o_chain : nat; o_end : ending }.

(** Known findings.
    (1) crates/erg_parser/lex.rs lex_indent_dedent: the lexer rejects any line indented more than 100 columns
        ("indentation is too deep"), so indented blocks cannot be nested 200 deep (25 deep with 4 spaces).
    (2) crates/erg_parser/desugar.rs: a chain of more than 1000 operations is parsed by a loop (no recursion, no
        depth) into a tree that deep; the recursive desugarer overflows the stack on it (measured: 2500 `+` are
        fine, 3000 abort, in both builds). *)
Definition CHAIN_SAFE : nat := 1000.
Definition Known_indent (o : obs) : bool := Nat.ltb 100 (o_cols o).
Definition Known_chain (o : obs) : bool := Nat.ltb CHAIN_SAFE (o_chain o).
Definition Known_C09 (o : obs) : bool := Known_indent o || Known_chain o.

Definition total_ok (e : ending) : bool :=
  match e with
  | EOk n => Nat.eqb n 0
  | EErr n => negb (Nat.eqb n 0)
  | ECrash | EHang => false
  end.

Definition judge (o : obs) : bool :=
  (total_ok (o_end o) || (Known_chain o && match o_end o with ECrash => true | _ => false end)) &&
  match o_nest o with
  | None => true
  | Some n =>
    (* shallow nesting is accepted *)
    (if Nat.leb n CPYTHON_DEPTH && negb (Known_C09 o) then match o_end o with EOk _ => true | _ => false end else true) &&
    (* nesting beyond the limit is an error *)
    (if Nat.ltb LIMIT n then match o_end o with EErr _ => true | _ => false end else true)
  end.

(** the model's ending *)
Definition model_ending (r : out * st) : ending :=
  match fst r with
  | Ok _ => if has_errors r then EErr (nerr (snd r)) else EOk 0
  | Err => EErr (nerr (snd r))
  | Unm | Fuel => EHang
  | Panic => ECrash
  end.
