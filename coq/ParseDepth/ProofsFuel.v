(** C09 — the parser model terminates: [bound ts] units of fuel are enough for every token stream. *)
From Coq Require Import List Arith Bool Lia.
Require Import ErgV.ParseDepth.Model ErgV.ParseDepth.ProofsLen ErgV.ParseDepth.ProofsLenStep .
Import ListNotations.

(** order of the calls that are made without consuming a token and without going deeper *)
Definition rank (c : call) : nat :=
  match c with
  | CExpr _ _ _ | CChunk _ _ | CTupleLoop _ | CSetLoop | CListLoop | CList | CUnary | CCallOrAcc => 0
  | CArg | CElem | CBlock | CArgsLoop _ _ | CTuple _ | CSet | CBlockLoop _ | CModule => 1
  | CBody _ | CArgs | CBrace | CListElems | CExprLoop _ _ _ _ => 2
  | CAccLoop _ | CCallLoop _ | CBinLhs _ | CChunkLoop _ _ _ => 3
  | CAccChain => 4
  end.
(** what a call may still cost: tokens left, depth left, rank *)
Definition pot (c : call) (n d : nat) : nat := (2 * RANK) * n + RANK * (LIMIT - d) + rank c.

Definition fuel_inv (n : nat) (rec : call -> nat -> nat -> st -> out * st) : Prop :=
  forall c l d s o s', rec c l d s = (o, s') -> pot c (length (toks s)) d < n -> o <> Fuel.

Lemma conv_not_fuel lhs l d s o s1 : conv lhs l d s = (o, s1) -> o <> Fuel.
Proof. unfold conv; destruct lhs; intro H; inversion H; discriminate. Qed.
Lemma not_fuel_neq : Fuel <> Fuel -> False. Proof. intro H; apply H; reflexivity. Qed.

Section Step.
  Variable rec : call -> nat -> nat -> st -> out * st.
  Variable n : nat.
  Hypothesis Hlen : len_inv rec.
  Hypothesis Hf : fuel_inv n rec.

  Ltac use_rec :=
    match goal with
    | H : context [rec ?c ?l ?d ?s] |- _ =>
      let o := fresh "o" in let s1 := fresh "s" in let E := fresh "E" in
      destruct (rec c l d s) as [o s1] eqn:E;
      let F := fresh "F" in pose proof (Hlen _ _ _ _ _ _ E) as F;
      let G := fresh "G" in pose proof (Hf _ _ _ _ _ _ E) as G;
      norm_toks_in F; norm_toks_in G; clear E
    end.
  Ltac use_conv :=
    match goal with
    | H : context [conv ?a ?b ?c ?s] |- _ =>
      let o := fresh "o" in let s1 := fresh "s" in let E := fresh "E" in
      destruct (conv a b c s) as [o s1] eqn:E;
      let F := fresh "F" in pose proof (conv_toks _ _ _ _ _ _ E) as F; norm_toks_in F;
      let G := fresh "G" in pose proof (conv_not_fuel _ _ _ _ _ _ E) as G; clear E
    end.
  Ltac split_match H :=
    match type of H with
    | context [match ?x with _ => _ end] =>
      lazymatch x with
      | rec _ _ _ _ => fail
      | conv _ _ _ _ => fail
      | context [match _ with _ => _ end] => fail
      | _ => destruct x eqn:?
      end
    end.
  Ltac solve_bool :=
    first [ reflexivity | assumption
          | apply symnat_arg_start; assumption
          | match goal with t : tok |- _ => solve [destruct t; try discriminate; reflexivity] end ].
  Ltac fin H :=
    try discriminate;
    inv_pair H;
    first
      [ solve [let X := fresh in intro X; discriminate X]
      | assumption
      | norm_toks;
        repeat match goal with E : toks ?s = ?r |- _ => rewrite E in *; clear E end;
        unfold must_consume, tl in *;
        repeat match goal with
               | F : _ /\ _ |- _ => destruct F
               | F : (?p = true) -> _ < _ |- _ =>
                 first [ let P := fresh "P" in assert (P : p = true) by (unfold hd_live, cur; solve_bool); specialize (F P); clear P
                       | clear F ]
               end;
        repeat match goal with
               | E : (LIMIT <=? _) = false |- _ => apply Nat.leb_gt in E
               | E : (LIMIT <=? _) = true |- _ => apply Nat.leb_le in E
               end;
        eqn_les; pose_les; norm_len;
        unfold pot, RANK in *; cbn [rank] in *;
        match goal with G : _ -> ?o <> Fuel |- ?o <> Fuel => apply G; lia end ].
  Ltac go H := unfold_body H;
    repeat (first [progress cbn [tl toks adv err1 enter] in H | split_match H | use_rec | use_conv]); try solve [fin H].

  Definition goal_of (c : call) : Prop := forall l d s o s', body rec c l d s = (o, s') ->
    pot c (length (toks s)) d < S n -> o <> Fuel.

  Lemma step_CModule  : goal_of CModule. Proof. intros l d s o s' H Hp. go H. Qed.
  Lemma step_CBlock  : goal_of CBlock. Proof. intros l d s o s' H Hp. go H. Qed.
  Lemma step_CBlockLoop ne : goal_of (CBlockLoop ne). Proof. intros l d s o s' H Hp. go H. Qed.
  Lemma step_CChunk w b : goal_of (CChunk w b). Proof. intros l d s o s' H Hp. go H. Qed.
  Lemma step_CChunkLoop w b lhs : goal_of (CChunkLoop w b lhs). Proof. intros l d s o s' H Hp. go H. Qed.
  Lemma step_CExpr w b lb : goal_of (CExpr w b lb). Proof. intros l d s o s' H Hp. go H. Qed.
  Lemma step_CExprLoop w b lb lhs : goal_of (CExprLoop w b lb lhs). Proof. intros l d s o s' H Hp. go H. Qed.
  Lemma step_CBody ml : goal_of (CBody ml). Proof. intros l d s o s' H Hp. go H. Qed.
  Lemma step_CBinLhs b : goal_of (CBinLhs b). Proof. intros l d s o s' H Hp. go H. Qed.
  Lemma step_CCallOrAcc  : goal_of CCallOrAcc. Proof. intros l d s o s' H Hp. go H. Qed.
  Lemma step_CCallLoop obj : goal_of (CCallLoop obj). Proof. intros l d s o s' H Hp. go H. Qed.
  Lemma step_CAccChain  : goal_of CAccChain. Proof. intros l d s o s' H Hp. go H. Qed.
  Lemma step_CAccLoop obj : goal_of (CAccLoop obj). Proof. intros l d s o s' H Hp. go H. Qed.
  Lemma step_CArgs  : goal_of CArgs. Proof. intros l d s o s' H Hp. go H. Qed.
  Lemma step_CArgsLoop lp multi : goal_of (CArgsLoop lp multi). Proof. intros l d s o s' H Hp. go H. Qed.
  Lemma step_CArg  : goal_of CArg. Proof. intros l d s o s' H Hp. go H. Qed.
  Lemma step_CUnary  : goal_of CUnary. Proof. intros l d s o s' H Hp. go H. Qed.
  Lemma step_CList  : goal_of CList. Proof. intros l d s o s' H Hp. go H. Qed.
  Lemma step_CListElems  : goal_of CListElems. Proof. intros l d s o s' H Hp. go H. Qed.
  Lemma step_CListLoop  : goal_of CListLoop. Proof. intros l d s o s' H Hp. go H. Qed.
  Lemma step_CElem  : goal_of CElem. Proof. intros l d s o s' H Hp. go H. Qed.
  Lemma step_CBrace  : goal_of CBrace. Proof. intros l d s o s' H Hp. go H. Qed.
  Lemma step_CSet  : goal_of CSet. Proof. intros l d s o s' H Hp. go H. Qed.
  Lemma step_CSetLoop  : goal_of CSetLoop. Proof. intros l d s o s' H Hp. go H. Qed.
  Lemma step_CTuple lb : goal_of (CTuple lb). Proof. intros l d s o s' H Hp. go H. Qed.
  Lemma step_CTupleLoop lb : goal_of (CTupleLoop lb). Proof. intros l d s o s' H Hp. go H. Qed.

  Lemma fuel_step : fuel_inv (S n) (body rec).
  Proof.
    intros c l d s o s' H. destruct c.
    - eapply step_CModule; eauto.
    - eapply step_CBlock; eauto.
    - eapply step_CBlockLoop; eauto.
    - eapply step_CChunk; eauto.
    - eapply step_CChunkLoop; eauto.
    - eapply step_CExpr; eauto.
    - eapply step_CExprLoop; eauto.
    - eapply step_CBody; eauto.
    - eapply step_CBinLhs; eauto.
    - eapply step_CCallOrAcc; eauto.
    - eapply step_CCallLoop; eauto.
    - eapply step_CAccChain; eauto.
    - eapply step_CAccLoop; eauto.
    - eapply step_CArgs; eauto.
    - eapply step_CArgsLoop; eauto.
    - eapply step_CArg; eauto.
    - eapply step_CUnary; eauto.
    - eapply step_CList; eauto.
    - eapply step_CListElems; eauto.
    - eapply step_CListLoop; eauto.
    - eapply step_CElem; eauto.
    - eapply step_CBrace; eauto.
    - eapply step_CSet; eauto.
    - eapply step_CSetLoop; eauto.
    - eapply step_CTuple; eauto.
    - eapply step_CTupleLoop; eauto.
  Qed.
End Step.

Lemma fuel_inv_exec n : fuel_inv n (exec n).
Proof.
  induction n as [|n IH].
  - intros c l d s o s' _ H. lia.
  - cbn [exec]. apply fuel_step; [apply len_inv_exec | exact IH].
Qed.

(** [bound ts] is enough fuel *)
Lemma fuel_sufficient ts : fst (parse ts) <> Fuel.
Proof.
  unfold parse, parse_fuel, bound.
  destruct (exec _ CModule 1 0 (enter 1 0 (mkst ts 0 0 0))) as [o s'] eqn:E. cbn [fst].
  eapply fuel_inv_exec; [exact E|].
  unfold pot, potential. cbn [rank toks enter length]. unfold RANK. lia.
Qed.
