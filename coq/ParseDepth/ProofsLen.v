(** C09 — the parser model never produces tokens, and the calls that loops rely on consume at least one. *)
From Coq Require Import List Arith Bool Lia.
Require Import ErgV.ParseDepth.Model .
Import ListNotations.

Lemma next_expr_le ts : length (next_expr ts) <= length ts.
Proof. induction ts as [|t r IH]; cbn; [lia|]. destruct t; cbn; lia. Qed.
Lemma until_dedent_le ts : forall n, length (until_dedent n ts) <= length ts.
Proof.
  induction ts as [|t r IH]; intro n; cbn; [lia|].
  destruct t; cbn; try (specialize (IH n); lia).
  - specialize (IH (S n)); lia.
  - destruct (Nat.leb n 1); [lia|]. specialize (IH (n - 1)); lia.
Qed.
Lemma drain_le ts : length (drain ts) <= length ts.
Proof. induction ts as [|t r IH]; cbn; [lia|]. destruct t; cbn; lia. Qed.
Lemma skip_nl_le ts : length (skip_nl ts) <= length ts.
Proof. induction ts as [|t r IH]; cbn; [lia|]. destruct t; cbn; lia. Qed.
Lemma skip_ded_le ts : length (skip_ded ts) <= length ts.
Proof. induction ts as [|t r IH]; cbn; [lia|]. destruct t; cbn; lia. Qed.
Lemma skip_one_ded_le ts : length (skip_one_ded ts) <= length ts.
Proof. destruct ts as [|t r]; cbn; [lia|]. destruct t; cbn; lia. Qed.
Lemma open_paren_le r lb r2 : open_paren r = (lb, r2) -> length r2 <= length r.
Proof.
  unfold open_paren. pose proof (skip_nl_le r) as L. destruct (skip_nl r) as [|t r1]; intro H.
  - inversion H; subst; cbn in *; lia.
  - destruct t; inversion H; subst; cbn in *; lia.
Qed.
Lemma close_paren_le lb ts : length (close_paren lb ts) <= length ts.
Proof. unfold close_paren. destruct lb; [|lia]. pose proof (skip_one_ded_le (skip_nl ts)). pose proof (skip_nl_le ts). lia. Qed.
Lemma skip_nl_cons_lt t r : is NL t = true -> length (skip_nl (t :: r)) <= length r.
Proof. destruct t; cbn; try discriminate. intros _. apply skip_nl_le. Qed.

(** the stream has a token to consume that is not EOF *)
Definition hd_live (ts : list tok) : bool := cur (fun t => negb (is EOF t)) ts.

Lemma next_expr_lt ts : hd_live ts = true -> length (next_expr ts) < length ts.
Proof.
  destruct ts as [|t r]; cbn; [discriminate|].
  pose proof (next_expr_le r). destruct t; cbn; intro; try discriminate; lia.
Qed.
Lemma drain_lt ts : hd_live ts = true -> length (drain ts) < length ts.
Proof.
  destruct ts as [|t r]; cbn; [discriminate|].
  pose proof (drain_le r). destruct t; cbn; intro; try discriminate; lia.
Qed.
Lemma symnat_arg_start t : is SYM t || is NAT t = true -> arg_start t = true.
Proof. destruct t; cbn; intro; try discriminate; reflexivity. Qed.
Lemma arg_start_live t : arg_start t = true -> negb (is EOF t) = true.
Proof. destruct t; cbn; intro; try discriminate; reflexivity. Qed.
Lemma is_live k t : is k t = true -> is EOF k = false -> negb (is EOF t) = true.
Proof. destruct k, t; cbn; intros; try discriminate; reflexivity. Qed.

(** when a call must have consumed a token *)
Definition must_consume (c : call) (ts : list tok) (o : out) : bool :=
  match c with
  | CChunk _ _ | CExpr _ _ _ | CBinLhs _ => match o with Ok _ | Err => hd_live ts | _ => false end
  | CArg | CElem => match o with Ok _ => hd_live ts | _ => false end
  | CArgs => match o with Ok _ => cur arg_start ts | _ => false end
  | CTuple _ | CTupleLoop _ => match o with Ok _ => cur (is COMMA) ts | _ => false end
  | CCallOrAcc | CUnary | CList | CBrace => match o with Ok _ => true | Err => hd_live ts | _ => false end
  | _ => false
  end.

Definition len_inv (rec : call -> nat -> nat -> st -> out * st) : Prop :=
  forall c l d s o s', rec c l d s = (o, s') ->
    length (toks s') <= length (toks s) /\
    (must_consume c (toks s) o = true -> length (toks s') < length (toks s)).

Lemma len_inv_0 : len_inv (exec 0).
Proof.
  intros c l d s o s' H; cbn in H; inversion H; subst; split; [lia|].
  destruct c; cbn; discriminate.
Qed.

Lemma conv_toks lhs l d s o s1 : conv lhs l d s = (o, s1) -> toks s1 = toks s.
Proof. unfold conv; destruct lhs; intro H; inversion H; reflexivity. Qed.

(** ([inversion] would simplify [next_line (t :: r)] away) *)
Lemma pair_inv {A B} (a a' : A) (b b' : B) : (a, b) = (a', b') -> a = a' /\ b = b'.
Proof. intro H; inversion H; auto. Qed.
Ltac inv_pair H := apply pair_inv in H; destruct H; subst.
Lemma len_cons (t : tok) r : length (t :: r) = S (length r). Proof. reflexivity. Qed.
Lemma len_nil : length (@nil tok) = 0. Proof. reflexivity. Qed.
Ltac norm_len := rewrite ?len_cons, ?len_nil in *.
Lemma toks_adv s ts : toks (adv s ts) = ts. Proof. reflexivity. Qed.
Lemma toks_err1 s : toks (err1 s) = toks s. Proof. reflexivity. Qed.
Lemma toks_enter l d s : toks (enter l d s) = toks s. Proof. reflexivity. Qed.
Global Hint Rewrite toks_adv toks_err1 toks_enter : toks.
(** (cbn would also reduce [next_expr] under [length]) *)
Ltac norm_toks := autorewrite with toks in *.
Ltac norm_toks_in F := autorewrite with toks in F.

(** ---- tactics shared by the three invariants (length, bounds, fuel): unfold one step of [body], split on every
    test, name the result of every recursive call and keep what the invariant says about it *)
Ltac unfold_body H :=
  unfold body, module_iter, block_iter, lambda_arm, andthen, cur_is, cur_lp, cur_ls, cur_renc, cur_arg_start, cur in H;
  cbv beta zeta in H; cbn [toks enter adv err1 tl] in H.

Ltac pose_one f lem :=
  match goal with
  | |- context [f ?x] => lazymatch goal with H : length (f x) <= length x |- _ => fail | _ => pose proof (lem x) end
  | H0 : context [f ?x] |- _ => lazymatch goal with H : length (f x) <= length x |- _ => fail | _ => pose proof (lem x) end
  end.
Ltac pose_two f lem :=
  match goal with
  | |- context [f ?n ?x] => lazymatch goal with H : length (f n x) <= length x |- _ => fail | _ => pose proof (lem n x) end
  | H0 : context [f ?n ?x] |- _ => lazymatch goal with H : length (f n x) <= length x |- _ => fail | _ => pose proof (lem n x) end
  end.
Lemma until_dedent_le' n ts : length (until_dedent n ts) <= length ts.
Proof. apply until_dedent_le. Qed.
Ltac pose_les :=
  unfold next_line in *;
  repeat first [ pose_one next_expr next_expr_le | pose_one drain drain_le | pose_one skip_nl skip_nl_le
               | pose_one skip_ded skip_ded_le | pose_one skip_one_ded skip_one_ded_le
               | pose_two close_paren close_paren_le | pose_two until_dedent until_dedent_le' ].
(** equations left by destructing a helper's result *)
Ltac eqn_les :=
  repeat match goal with
         | E : skip_nl ?y = _ |- _ => let L := fresh "L" in pose proof (skip_nl_le y) as L; rewrite E in L; clear E
         | E : skip_ded ?y = _ |- _ => let L := fresh "L" in pose proof (skip_ded_le y) as L; rewrite E in L; clear E
         | E : skip_one_ded ?y = _ |- _ => let L := fresh "L" in pose proof (skip_one_ded_le y) as L; rewrite E in L; clear E
         | E : next_expr ?y = _ |- _ => let L := fresh "L" in pose proof (next_expr_le y) as L; rewrite E in L; clear E
         | E : close_paren ?b ?y = _ |- _ => let L := fresh "L" in pose proof (close_paren_le b y) as L; rewrite E in L; clear E
         | E : open_paren ?y = (_, _) |- _ => apply open_paren_le in E
         end.
