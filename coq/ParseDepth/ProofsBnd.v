(** C09 — the recursion depth of the parser model is bounded for every token stream. *)
From Coq Require Import List Arith Bool Lia.
Require Import ErgV.ParseDepth.Model ErgV.ParseDepth.ProofsLen .
Import ListNotations.

(** frames that a call can still stack up before it reaches the next `nested` *)
Definition hgt (c : call) : nat :=
  match c with
  | CChunk _ _ | CExpr _ _ _ => 0
  | CModule | CBlock | CBlockLoop _ | CArg | CElem | CUnary => 1
  | CBody _ | CTuple _ | CTupleLoop _ | CSet | CSetLoop | CListLoop | CListElems | CArgs | CArgsLoop _ _ => 2
  | CList | CBrace | CAccLoop _ | CAccChain | CChunkLoop _ _ _ | CExprLoop _ _ _ _ => 3
  | CCallLoop _ | CCallOrAcc => 4
  | CBinLhs _ => 5
  end.
(** frames per unit of depth *)
Definition CF : nat := 6.
Definition lev_bound (c : call) (l d : nat) : nat := l + hgt c + CF * (LIMIT - d).

(** [D] / [M]: any bounds of the depths / frame nestings recorded so far that leave room for this call *)
Definition bnd_inv (rec : call -> nat -> nat -> st -> out * st) : Prop :=
  forall c l d s o s' D M, rec c l d s = (o, s') -> d <= LIMIT ->
    mdep s <= D -> LIMIT <= D -> mlev s <= M -> lev_bound c l d <= M ->
    mdep s' <= D /\ mlev s' <= M.

Lemma bnd_inv_0 : bnd_inv (exec 0).
Proof. intros c l d s o s' D M H; cbn in H; inversion H; subst; split; lia. Qed.

Lemma conv_bnd lhs l d s o s1 D M : conv lhs l d s = (o, s1) ->
  mdep s <= D -> d <= D -> mlev s <= M -> S l <= M -> mdep s1 <= D /\ mlev s1 <= M.
Proof. unfold conv; destruct lhs; intro H; inversion H; subst; cbn; split; lia. Qed.

Section Step.
  Variable rec : call -> nat -> nat -> st -> out * st.
  Hypothesis Hrec : bnd_inv rec.
  Variables D M : nat.

  Ltac use_rec :=
    match goal with
    | H : context [rec ?c ?l ?d ?s] |- _ =>
      let o := fresh "o" in let s1 := fresh "s" in let E := fresh "E" in
      destruct (rec c l d s) as [o s1] eqn:E;
      let F := fresh "F" in pose proof (Hrec _ _ _ _ _ _ D M E) as F;
      cbn [mdep mlev toks adv err1 enter] in F; clear E
    end.
  Ltac use_conv :=
    match goal with
    | H : context [conv ?a ?b ?c ?s] |- _ =>
      let o := fresh "o" in let s1 := fresh "s" in let E := fresh "E" in
      destruct (conv a b c s) as [o s1] eqn:E;
      let F := fresh "F" in pose proof (conv_bnd _ _ _ _ _ _ D M E) as F; cbn [mdep mlev toks adv err1 enter] in F; clear E
    end.
  Ltac split_match H :=
    match type of H with
    | context [match ?x with _ => _ end] =>
      lazymatch x with
      | rec _ _ _ _ => fail
      | conv _ _ _ _ => fail
      | context [match _ with _ => _ end] => fail
      | _ => destruct x eqn:?
      end
    end.
  Ltac fin H :=
    try discriminate;
    inv_pair H;
    cbn [mdep mlev toks adv err1 enter] in *;
    unfold lev_bound, CF in *; cbn [hgt] in *;
    repeat match goal with
           | E : (LIMIT <=? _) = false |- _ => apply Nat.leb_gt in E
           | E : (LIMIT <=? _) = true |- _ => apply Nat.leb_le in E
           | E : _ = _ |- _ => clear E
           end;
    rewrite ?Nat.max_lub_iff in *;
    repeat match goal with
           | F : ?p -> _ |- _ => let P := fresh "P" in assert (P : p) by lia; specialize (F P); clear P
           | F : _ /\ _ |- _ => destruct F
           end;
    repeat split; lia.
  Ltac go H := unfold_body H;
    repeat (first [progress cbn [tl toks adv err1 enter] in H | split_match H | use_rec | use_conv]); try solve [fin H].

  Definition goal_of (c : call) : Prop := forall l d s o s', body rec c l d s = (o, s') -> d <= LIMIT ->
    mdep s <= D -> LIMIT <= D -> mlev s <= M -> lev_bound c l d <= M ->
    mdep s' <= D /\ mlev s' <= M.

  Lemma step_CModule  : goal_of CModule. Proof. intros l d s o s' H Hd HD HL HM HB. go H. Qed.
  Lemma step_CBlock  : goal_of CBlock. Proof. intros l d s o s' H Hd HD HL HM HB. go H. Qed.
  Lemma step_CBlockLoop ne : goal_of (CBlockLoop ne). Proof. intros l d s o s' H Hd HD HL HM HB. go H. Qed.
  Lemma step_CChunk w b : goal_of (CChunk w b). Proof. intros l d s o s' H Hd HD HL HM HB. go H. Qed.
  Lemma step_CChunkLoop w b lhs : goal_of (CChunkLoop w b lhs). Proof. intros l d s o s' H Hd HD HL HM HB. go H. Qed.
  Lemma step_CExpr w b lb : goal_of (CExpr w b lb). Proof. intros l d s o s' H Hd HD HL HM HB. go H. Qed.
  Lemma step_CExprLoop w b lb lhs : goal_of (CExprLoop w b lb lhs). Proof. intros l d s o s' H Hd HD HL HM HB. go H. Qed.
  Lemma step_CBody ml : goal_of (CBody ml). Proof. intros l d s o s' H Hd HD HL HM HB. go H. Qed.
  Lemma step_CBinLhs b : goal_of (CBinLhs b). Proof. intros l d s o s' H Hd HD HL HM HB. go H. Qed.
  Lemma step_CCallOrAcc  : goal_of CCallOrAcc. Proof. intros l d s o s' H Hd HD HL HM HB. go H. Qed.
  Lemma step_CCallLoop obj : goal_of (CCallLoop obj). Proof. intros l d s o s' H Hd HD HL HM HB. go H. Qed.
  Lemma step_CAccChain  : goal_of CAccChain. Proof. intros l d s o s' H Hd HD HL HM HB. go H. Qed.
  Lemma step_CAccLoop obj : goal_of (CAccLoop obj). Proof. intros l d s o s' H Hd HD HL HM HB. go H. Qed.
  Lemma step_CArgs  : goal_of CArgs. Proof. intros l d s o s' H Hd HD HL HM HB. go H. Qed.
  Lemma step_CArgsLoop lp multi : goal_of (CArgsLoop lp multi). Proof. intros l d s o s' H Hd HD HL HM HB. go H. Qed.
  Lemma step_CArg  : goal_of CArg. Proof. intros l d s o s' H Hd HD HL HM HB. go H. Qed.
  Lemma step_CUnary  : goal_of CUnary. Proof. intros l d s o s' H Hd HD HL HM HB. go H. Qed.
  Lemma step_CList  : goal_of CList. Proof. intros l d s o s' H Hd HD HL HM HB. go H. Qed.
  Lemma step_CListElems  : goal_of CListElems. Proof. intros l d s o s' H Hd HD HL HM HB. go H. Qed.
  Lemma step_CListLoop  : goal_of CListLoop. Proof. intros l d s o s' H Hd HD HL HM HB. go H. Qed.
  Lemma step_CElem  : goal_of CElem. Proof. intros l d s o s' H Hd HD HL HM HB. go H. Qed.
  Lemma step_CBrace  : goal_of CBrace. Proof. intros l d s o s' H Hd HD HL HM HB. go H. Qed.
  Lemma step_CSet  : goal_of CSet. Proof. intros l d s o s' H Hd HD HL HM HB. go H. Qed.
  Lemma step_CSetLoop  : goal_of CSetLoop. Proof. intros l d s o s' H Hd HD HL HM HB. go H. Qed.
  Lemma step_CTuple lb : goal_of (CTuple lb). Proof. intros l d s o s' H Hd HD HL HM HB. go H. Qed.
  Lemma step_CTupleLoop lb : goal_of (CTupleLoop lb). Proof. intros l d s o s' H Hd HD HL HM HB. go H. Qed.

  Lemma bnd_step0 c : goal_of c.
  Proof.
    destruct c.
    - apply step_CModule.
    - apply step_CBlock.
    - apply step_CBlockLoop.
    - apply step_CChunk.
    - apply step_CChunkLoop.
    - apply step_CExpr.
    - apply step_CExprLoop.
    - apply step_CBody.
    - apply step_CBinLhs.
    - apply step_CCallOrAcc.
    - apply step_CCallLoop.
    - apply step_CAccChain.
    - apply step_CAccLoop.
    - apply step_CArgs.
    - apply step_CArgsLoop.
    - apply step_CArg.
    - apply step_CUnary.
    - apply step_CList.
    - apply step_CListElems.
    - apply step_CListLoop.
    - apply step_CElem.
    - apply step_CBrace.
    - apply step_CSet.
    - apply step_CSetLoop.
    - apply step_CTuple.
    - apply step_CTupleLoop.
  Qed.
End Step.

Lemma bnd_step rec : bnd_inv rec -> bnd_inv (body rec).
Proof. intros Hrec c l d s o s' D M. apply bnd_step0; exact Hrec. Qed.

Lemma bnd_inv_exec n : bnd_inv (exec n).
Proof. induction n as [|n IH]; [apply bnd_inv_0|]. cbn [exec]. apply bnd_step; exact IH. Qed.

Lemma parse_fuel_bounded n ts :
  max_depth (parse_fuel n ts) <= LIMIT /\ max_level (parse_fuel n ts) <= CF * LIMIT + 2.
Proof.
  unfold parse_fuel, max_depth, max_level.
  destruct (exec n CModule 1 0 (enter 1 0 (mkst ts 0 0 0))) as [o s'] eqn:E.
  destruct (bnd_inv_exec n _ _ _ _ _ _ LIMIT (CF * LIMIT + 2) E) as [A B]; cbn [snd mdep mlev enter]; unfold lev_bound; cbn [hgt]; lia.
Qed.
