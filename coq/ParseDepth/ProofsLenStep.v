From Coq Require Import List Arith Bool Lia.
Require Import ErgV.ParseDepth.Model ErgV.ParseDepth.ProofsLen .
Import ListNotations.

Section Step.
  Variable rec : call -> nat -> nat -> st -> out * st.
  Hypothesis Hrec : len_inv rec.

  Ltac use_rec :=
    match goal with
    | H : context [rec ?c ?l ?d ?s] |- _ =>
      let o := fresh "o" in let s1 := fresh "s" in let E := fresh "E" in
      destruct (rec c l d s) as [o s1] eqn:E;
      let F := fresh "F" in pose proof (Hrec _ _ _ _ _ _ E) as F;
      norm_toks_in F; clear E
    end.
  Ltac use_conv :=
    match goal with
    | H : context [conv ?a ?b ?c ?s] |- _ =>
      let o := fresh "o" in let s1 := fresh "s" in let E := fresh "E" in
      destruct (conv a b c s) as [o s1] eqn:E;
      let F := fresh "F" in pose proof (conv_toks _ _ _ _ _ _ E) as F; norm_toks_in F; clear E
    end.
  Ltac split_match H :=
    match type of H with
    | context [match ?x with _ => _ end] =>
      lazymatch x with
      | rec _ _ _ _ => fail
      | conv _ _ _ _ => fail
      | context [match _ with _ => _ end] => fail
      | _ => destruct x eqn:?
      end
    end.
  Ltac booleqs :=
    repeat match goal with
           | E : ?b = true |- _ => rewrite E in *; clear E
           | E : ?b = false |- _ => rewrite E in *; clear E
           end.
  Ltac premises Hmc :=
    repeat match goal with
           | F : ?p -> _ |- _ =>
             first [ specialize (F eq_refl)
                   | specialize (F Hmc)
                   | let P := fresh "P" in assert (P : p) by (first [ apply arg_start_live; assumption | apply symnat_arg_start; assumption ]); specialize (F P); clear P
                   | clear F ]
           end.
  Ltac fin H :=
    try discriminate;
    inv_pair H;
    try match goal with |- context [must_consume _ _ ?o] => is_var o; destruct o end;
    norm_toks;
    repeat match goal with E : toks ?s = ?r |- _ => rewrite E in *; clear E end;
    unfold must_consume, tl in *;
    repeat match goal with F : _ /\ _ |- _ => destruct F end;
    eqn_les; pose_les; norm_len;
    (split; [lia |
      try discriminate; let Hmc := fresh "Hmc" in intro Hmc;
      try (pose proof (drain_lt _ Hmc)); try (pose proof (next_expr_lt _ Hmc));
      unfold hd_live, cur in *;
      try (pose proof (arg_start_live _ Hmc));
      premises Hmc; norm_len; try lia;
      try solve [booleqs; unfold negb, andb, orb in *; try discriminate; try lia];
      try solve [match goal with t : tok |- _ => destruct t; try discriminate; cbn in *; try discriminate; try lia end] ]).
  Ltac go H := unfold_body H;
    repeat (first [progress cbn [tl toks adv err1 enter] in H | split_match H | use_rec | use_conv]); try solve [fin H].

  Definition goal_of (c : call) : Prop := forall l d s o s', body rec c l d s = (o, s') ->
    length (toks s') <= length (toks s) /\ (must_consume c (toks s) o = true -> length (toks s') < length (toks s)).

  Lemma step_CModule  : goal_of CModule. Proof. intros l d s o s' H. go H. Qed.
  Lemma step_CBlock  : goal_of CBlock. Proof. intros l d s o s' H. go H. Qed.
  Lemma step_CBlockLoop ne : goal_of (CBlockLoop ne). Proof. intros l d s o s' H. go H. Qed.
  Lemma step_CChunk w b : goal_of (CChunk w b). Proof. intros l d s o s' H. go H. Qed.
  Lemma step_CChunkLoop w b lhs : goal_of (CChunkLoop w b lhs). Proof. intros l d s o s' H. go H. Qed.
  Lemma step_CExpr w b lb : goal_of (CExpr w b lb). Proof. intros l d s o s' H. go H. Qed.
  Lemma step_CExprLoop w b lb lhs : goal_of (CExprLoop w b lb lhs). Proof. intros l d s o s' H. go H. Qed.
  Lemma step_CBody ml : goal_of (CBody ml). Proof. intros l d s o s' H. go H. Qed.
  Lemma step_CBinLhs b : goal_of (CBinLhs b). Proof. intros l d s o s' H. go H. Qed.
  Lemma step_CCallOrAcc  : goal_of CCallOrAcc. Proof. intros l d s o s' H. go H. Qed.
  Lemma step_CCallLoop obj : goal_of (CCallLoop obj). Proof. intros l d s o s' H. go H. Qed.
  Lemma step_CAccChain  : goal_of CAccChain. Proof. intros l d s o s' H. go H. Qed.
  Lemma step_CAccLoop obj : goal_of (CAccLoop obj). Proof. intros l d s o s' H. go H. Qed.
  Lemma step_CArgs  : goal_of CArgs. Proof. intros l d s o s' H. go H. Qed.
  Lemma step_CArgsLoop lp multi : goal_of (CArgsLoop lp multi). Proof. intros l d s o s' H. go H. Qed.
  Lemma step_CArg  : goal_of CArg. Proof. intros l d s o s' H. go H. Qed.
  Lemma step_CUnary  : goal_of CUnary. Proof. intros l d s o s' H. go H. Qed.
  Lemma step_CList  : goal_of CList. Proof. intros l d s o s' H. go H. Qed.
  Lemma step_CListElems  : goal_of CListElems. Proof. intros l d s o s' H. go H. Qed.
  Lemma step_CListLoop  : goal_of CListLoop. Proof. intros l d s o s' H. go H. Qed.
  Lemma step_CElem  : goal_of CElem. Proof. intros l d s o s' H. go H. Qed.
  Lemma step_CBrace  : goal_of CBrace. Proof. intros l d s o s' H. go H. Qed.
  Lemma step_CSet  : goal_of CSet. Proof. intros l d s o s' H. go H. Qed.
  Lemma step_CSetLoop  : goal_of CSetLoop. Proof. intros l d s o s' H. go H. Qed.
  Lemma step_CTuple lb : goal_of (CTuple lb). Proof. intros l d s o s' H. go H. Qed.
  Lemma step_CTupleLoop lb : goal_of (CTupleLoop lb). Proof. intros l d s o s' H. go H. Qed.

  Lemma len_step : len_inv (body rec).
  Proof.
    intros c l d s o s' H. destruct c.
    - eapply step_CModule; eauto.
    - eapply step_CBlock; eauto.
    - eapply step_CBlockLoop; eauto.
    - eapply step_CChunk; eauto.
    - eapply step_CChunkLoop; eauto.
    - eapply step_CExpr; eauto.
    - eapply step_CExprLoop; eauto.
    - eapply step_CBody; eauto.
    - eapply step_CBinLhs; eauto.
    - eapply step_CCallOrAcc; eauto.
    - eapply step_CCallLoop; eauto.
    - eapply step_CAccChain; eauto.
    - eapply step_CAccLoop; eauto.
    - eapply step_CArgs; eauto.
    - eapply step_CArgsLoop; eauto.
    - eapply step_CArg; eauto.
    - eapply step_CUnary; eauto.
    - eapply step_CList; eauto.
    - eapply step_CListElems; eauto.
    - eapply step_CListLoop; eauto.
    - eapply step_CElem; eauto.
    - eapply step_CBrace; eauto.
    - eapply step_CSet; eauto.
    - eapply step_CSetLoop; eauto.
    - eapply step_CTuple; eauto.
    - eapply step_CTupleLoop; eauto.
  Qed.
End Step.

Lemma len_inv_exec n : len_inv (exec n).
Proof. induction n as [|n IH]; [apply len_inv_0|]. cbn [exec]. apply len_step; exact IH. Qed.
