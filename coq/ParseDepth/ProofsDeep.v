(** C09 — nesting at least LIMIT deep is reported as an error, for every depth (no bound) and each kind of construct. *)
From Coq Require Import List Arith Bool Lia.
Require Import ErgV.ParseDepth.Model ErgV.ParseDepth.Spec ErgV.ParseDepth.ProofsLen .
Import ListNotations.

Definition counted (c : call) : Prop := match c with CExpr _ _ _ | CChunk _ _ => True | _ => False end.

(** what running into the limit looks like from a counted call *)
Definition deep_result (s : st) (o : out) (s' : st) : Prop :=
  o = Err /\ nerr s' = S (nerr s) /\ toks s' = drain (toks s).

Lemma at_limit fuel c l d s o s' : counted c -> LIMIT <= d ->
  exec fuel c l d s = (o, s') -> o <> Fuel -> deep_result s o s'.
Proof.
  intros Hc Hd H Hf. destruct fuel as [|f]; [cbn in H; inversion H; subst; contradiction|].
  apply Nat.leb_le in Hd.
  destruct c; try contradiction; cbn [exec body] in H; rewrite Hd in H; inversion H; subst; repeat split.
Qed.

(** a counted call below the limit: the frame is entered and try_reduce_bin_lhs runs *)
Lemma below_limit f c l d s : counted c -> d < LIMIT ->
  exists b k, exec (S f) c l d s = andthen (exec f (CBinLhs b) (S l) (S d) (enter l (S d) s)) k.
Proof.
  intros Hc Hd. apply Nat.leb_gt in Hd.
  destruct c; try contradiction; cbn [exec body]; rewrite Hd; eauto.
Qed.

Lemma andthen_fail r k o s' : andthen r k = (o, s') -> (forall sh, fst r <> Ok sh) -> r = (o, s').
Proof. destruct r as [[] ?]; cbn; intros H N; try assumption. exfalso; eapply N; reflexivity. Qed.

(** ---- descending through one construct: evaluation of the model on a known head of the stream *)
Ltac fuel_out H Hf :=
  cbn [exec andthen] in H; apply pair_inv in H; destruct H as [H _]; subst; exfalso; apply Hf; reflexivity.

(** unfold the outermost pending call [exec f c ..] in H; with no fuel left the whole result is Fuel *)
Ltac unf H Hf :=
  match type of H with
  | context [exec ?f _ _ _ _] =>
    is_var f; let f' := fresh "fu" in
    destruct f as [|f']; [solve [fuel_out H Hf] |];
    match type of H with
    | context C [exec (S f') ?c ?l ?d ?s] =>
      let t := context C [body (exec f') c l d s] in change t in H
    end;
    unfold body at 1 in H; cbv beta zeta in H;
    cbn [toks enter adv err1 nerr] in H
  end.

(** the pending call already has fuel of the form [S f] *)
Ltac unf_s H :=
  match type of H with
  | context C [exec (S ?f) ?c ?l ?d ?s] =>
    let t := context C [body (exec f) c l d s] in change t in H;
    unfold body at 1 in H; cbv beta zeta in H;
    cbn [toks enter adv err1 nerr] in H
  end.

Ltac eval_toks H Ht :=
  rewrite ?Ht in H;
  cbn [is is_lp is_ls renc arg_start orb andb negb cur cur_is cur_lp cur_ls cur_renc cur_arg_start tl
       open_paren close_paren skip_nl skip_one_ded toks enter adv err1 nerr andthen] in H.

(** the counted call inside a construct of kind [k] *)
Definition inner (k : kind) : call :=
  match k with
  | KParen | KSubscr => CExpr true false false
  | KSet => CChunk false true
  | _ => CExpr false false false
  end.
Lemma inner_counted k : counted (inner k). Proof. destruct k; exact I. Qed.

(** the first token after the opener in a uniform nest: the opener again, or the literal *)
Definition good_head (k : kind) (r : list tok) : Prop :=
  exists t r', r = t :: r' /\ (t = NAT \/ Some t = hd_error (opener k)).

Section Descend.
  Variables (T : list tok) (E : nat) (d : nat) (k : kind) (r : list tok).
  Hypothesis Hin : forall fuel' l' s1 o1 s1', toks s1 = r -> nerr s1 = E ->
      exec fuel' (inner k) l' d s1 = (o1, s1') -> o1 <> Fuel ->
      o1 = Err /\ nerr s1' = S E /\ toks s1' = T.
  Hypothesis Hgood : good_head k r.

  (** finish: the pending call is the inner counted call *)
  Ltac finish H Hf :=
    match type of H with
    | context [exec ?f ?c ?l ?d ?s1] =>
      let o1 := fresh "o" in let s1' := fresh "s" in let E1 := fresh "E" in
      destruct (exec f c l d s1) as [o1 s1'] eqn:E1;
      apply Hin in E1;
      [ destruct E1 as (-> & ? & ?); cbn [andthen] in H; apply pair_inv in H; destruct H; subst; auto
      | reflexivity
      | assumption
      | intros ->; cbn [andthen] in H; apply pair_inv in H; destruct H; subst; apply Hf; reflexivity ]
    end.
  Ltac descend H Hf Ht :=
    repeat (first [ progress (eval_toks H Ht) | solve [finish H Hf] | unf_s H | unf H Hf; unfold lambda_arm, conv in H; cbv beta zeta in H ]).

  Lemma binlhs_descend fuel b l s o s' :
    k <> KLambda -> k <> KLamBlock -> toks s = opener k ++ r -> nerr s = E ->
    exec fuel (CBinLhs b) l d s = (o, s') -> o <> Fuel -> o = Err /\ nerr s' = S E /\ toks s' = T.
  Proof.
    intros Hk Hk' Ht He H Hf.
    destruct Hgood as (t & r' & Hr & Hh). subst r.
    destruct k; try congruence; cbn [opener app hd_error] in *;
      (destruct Hh as [-> | Hh]; [| inversion Hh; subst t]); cbn [inner] in Hin.
    all: descend H Hf Ht.
  Qed.
End Descend.

Lemma drain_opener k r : drain (opener k ++ r) = drain r.
Proof. destruct k; reflexivity. Qed.

Section Counted.
  Variables (T : list tok) (E : nat) (d : nat) (k : kind) (r : list tok).
  Hypothesis Hin : forall fuel' l' s1 o1 s1', toks s1 = r -> nerr s1 = E ->
      exec fuel' (inner k) l' (S d) s1 = (o1, s1') -> o1 <> Fuel ->
      o1 = Err /\ nerr s1' = S E /\ toks s1' = T.
  Hypothesis Hgood : good_head k r.
  Hypothesis Hd : (LIMIT <=? d) = false.

  Ltac finish H Hf :=
    match type of H with
    | context [exec ?f ?c ?l ?d ?s1] =>
      let o1 := fresh "o" in let s1' := fresh "s" in let E1 := fresh "E" in
      destruct (exec f c l d s1) as [o1 s1'] eqn:E1;
      apply Hin in E1;
      [ destruct E1 as (-> & ? & ?); cbn [andthen] in H; apply pair_inv in H; destruct H; subst; auto
      | reflexivity
      | assumption
      | intros ->; cbn [andthen] in H; apply pair_inv in H; destruct H; subst; apply Hf; reflexivity ]
    end.
  Ltac descend H Hf Ht :=
    repeat (first [ progress (rewrite ?Hd in H; eval_toks H Ht) | solve [finish H Hf]
                  | progress (unfold lambda_arm, conv in H; cbv beta zeta in H) | unf_s H | unf H Hf ]).

  Lemma counted_descend fuel c l s o s' :
    k <> KLamBlock -> counted c -> toks s = opener k ++ r -> nerr s = E ->
    exec fuel c l d s = (o, s') -> o <> Fuel -> o = Err /\ nerr s' = S E /\ toks s' = T.
  Proof.
    intros Hk Hc Ht He H Hf.
    destruct Hgood as (t & r' & Hr & Hh). subst r.
    destruct c; try contradiction;
      (destruct k; try congruence; cbn [opener app hd_error] in *;
       (destruct Hh as [-> | Hh]; [| inversion Hh; subst t]); cbn [inner] in Hin).
    all: descend H Hf Ht.
  Qed.
End Counted.

(** ---- every uniform nest at least LIMIT deep runs into the limit *)
Lemma uniform_good_head k m rest : good_head k (spine_on (repeat k m) rest).
Proof.
  destruct m as [|m]; cbn [repeat spine_on].
  - exists NAT, rest. auto.
  - destruct k; cbn [opener app]; eexists _, _; split; try reflexivity; right; reflexivity.
Qed.

Lemma deep_uniform k : k <> KLamBlock -> forall n fuel c l d s rest o s',
  counted c -> toks s = spine_on (repeat k n) rest -> LIMIT <= d + n ->
  exec fuel c l d s = (o, s') -> o <> Fuel -> deep_result s o s'.
Proof.
  intro Hk. induction n as [|m IH]; intros fuel c l d s rest o s' Hc Ht Hl H Hf.
  - apply (at_limit fuel c l d s o s' Hc ltac:(lia) H Hf).
  - destruct (le_lt_dec LIMIT d) as [Hd|Hd]; [apply (at_limit fuel c l d s o s' Hc Hd H Hf)|].
    cbn [repeat spine_on] in Ht.
    unfold deep_result. rewrite Ht, drain_opener.
    eapply (counted_descend (drain (spine_on (repeat k m) (closer k ++ rest))) (nerr s) d k
                            (spine_on (repeat k m) (closer k ++ rest))); eauto.
    + intros fuel' l' s1 o1 s1' Ht1 He1 H1 Hf1.
      destruct (IH fuel' (inner k) l' (S d) s1 (closer k ++ rest) o1 s1' (inner_counted k) Ht1 ltac:(lia) H1 Hf1) as (A & B & C).
      rewrite <- He1, <- Ht1. auto.
    + apply uniform_good_head.
    + apply Nat.leb_gt; assumption.
Qed.
