(** extraction entry point for the C09 correspondence check and judge *)
(* built before extraction (lib/vplib.py Model reads these names): ErgV.Common.Sx ErgV.ParseDepth.Model ErgV.ParseDepth.Spec *)
From Coq Require Import ZArith List Bool Arith.
Require Import ErgV.Common.Sx ErgV.ParseDepth.Model ErgV.ParseDepth.Spec .
Import ListNotations.
Open Scope Z_scope.

(** token codes of harness/parsedepth (code glued) *)
Definition dec_tok (x : sx) : option tok :=
  let c := sx_z (sx_nth x 0) in
  let g := sx_to_bool (sx_nth x 1) in
  if c =? 0 then Some (if g then LPg else LP)
  else if c =? 1 then Some RP
  else if c =? 2 then Some (if g then LSg else LS)
  else if c =? 3 then Some RS
  else if c =? 4 then Some LB
  else if c =? 5 then Some RB
  else if c =? 6 then Some PRE
  else if c =? 7 then Some SYM
  else if c =? 8 then Some NAT
  else if c =? 9 then Some NL
  else if c =? 10 then Some IND
  else if c =? 11 then Some DED
  else if c =? 12 then Some ARROW
  else if c =? 13 then Some COMMA
  else if c =? 14 then Some EOF
  else None.
Fixpoint dec_toks (l : list sx) : option (list tok) :=
  match l with
  | [] => Some []
  | x :: r => match dec_tok x, dec_toks r with Some t, Some ts => Some (t :: ts) | _, _ => None end
  end.
(** (code glued-matters glued): for tokens other than ( and [ the harness's glue flag is not looked at *)
Definition enc_tok (t : tok) : sx :=
  let mk (c g : Z) := SL [SZ c; SZ g] in
  match t with
  | LP => mk 0 0 | LPg => mk 0 1 | RP => mk 1 2 | LS => mk 2 0 | LSg => mk 2 1 | RS => mk 3 2 | LB => mk 4 2 | RB => mk 5 2
  | PRE => mk 6 2 | SYM => mk 7 2 | NAT => mk 8 2 | NL => mk 9 2 | IND => mk 10 2 | DED => mk 11 2 | ARROW => mk 12 2
  | COMMA => mk 13 2 | EOF => mk 14 2
  end.

Definition dec_kind (z : Z) : kind :=
  if z =? 0 then KParen else if z =? 1 then KList else if z =? 2 then KSet else if z =? 3 then KUnary
  else if z =? 4 then KLambda else if z =? 5 then KCall else if z =? 6 then KCallNp else if z =? 7 then KSubscr
  else if z =? 8 then KMul else KLamBlock.

(** 0: Ok without errors  1: errors  5: not modelled  6: out of fuel  7: panic *)
Definition enc_out (r : out * st) : sx :=
  let code := match fst r with
              | Ok _ => if has_errors r then 1 else 0
              | Err => 1
              | Unm => 5 | Fuel => 6 | Panic => 7
              end in
  SL [SZ code; sx_nat (nerr (snd r)); sx_nat (mlev (snd r)); sx_nat (mdep (snd r))].

Definition dec_ending (code : Z) (n : nat) : ending :=
  if code =? 0 then EOk n else if code =? 1 then EErr n else if code =? 2 then ECrash else EHang.

Definition run (x : sx) : sx :=
  let mode := sx_z (sx_nth x 0) in
  if mode =? 0 then
    (* (0 toks): the model on a token stream *)
    match dec_toks (sx_l (sx_nth x 1)) with
    | Some ts => enc_out (parse ts)
    | None => SL [SZ 9]
    end
  else if mode =? 1 then
    (* (1 nest|-1 cols ending nerrs chain): judge of Spec.v; answers (verdict known-indent known-chain) *)
    let n := sx_z (sx_nth x 1) in
    let o := mkobs (if n <? 0 then None else Some (Z.to_nat n)) (sx_to_nat (sx_nth x 2)) (sx_to_nat (sx_nth x 5))
                   (dec_ending (sx_z (sx_nth x 3)) (sx_to_nat (sx_nth x 4))) in
    SL [sx_bool (judge o); sx_bool (Known_indent o); sx_bool (Known_chain o)]
  else if mode =? 2 then
    (* (2 (kinds)): token stream of the spine; (2 (9) n): lamblock n *)
    let ks := sx_zs (sx_nth x 1) in
    match ks with
    | [9] => SL (map enc_tok (lamblock (sx_to_nat (sx_nth x 2))))
    | _ => SL (map enc_tok (nest (map dec_kind ks)))
    end
  else
    (* (3): constants *)
    SL [sx_nat LIMIT; sx_nat CPYTHON_DEPTH].

Require Extraction. Require Import ExtrOcamlBasic. Extraction Language OCaml. Extraction "model.ml" run.
