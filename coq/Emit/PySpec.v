(** C17 — specification for the literal level: the denotation of a Python short string literal in
    double quotes (Python 3 language reference 2.4.1, "shortstring" without prefix), as an executable parser.

    [py_str_parse text = Some s]: [text] is one double-quoted, single-line, unprefixed string literal and
    evaluates to the code points [s]. Not modelled (rejected): named escapes backslash-N, the triple-quoted
    and prefixed forms. An unrecognised escape keeps its backslash (CPython: DeprecationWarning, still valid).
    The parser is extracted and compared on every run with CPython's own tokenizer + ast.literal_eval on
    the transpiler's literals and on mutated texts. *)
From Coq Require Import ZArith List Bool.
From ErgV Require Import Emit.Text Emit.Py.
Import ListNotations.
Open Scope Z_scope.

Definition is_oct (c : Z) : bool := (48 <=? c) && (c <=? 55).
Definition hexv (c : Z) : option Z :=
  if (48 <=? c) && (c <=? 57) then Some (c - 48)
  else if (97 <=? c) && (c <=? 102) then Some (c - 87)
  else if (65 <=? c) && (c <=? 70) then Some (c - 55)
  else None.
Fixpoint hexs (l : list Z) (acc : Z) : option Z :=
  match l with
  | [] => Some acc
  | c :: r => match hexv c with Some d => hexs r (acc * 16 + d) | None => None end
  end.

Definition ocons (c : Z) (x : option (text * text)) : option (text * text) :=
  match x with Some (t, r) => Some (c :: t, r) | None => None end.

(** body of the literal after the opening quotation mark: denoted string and the text after the closing one *)
Fixpoint py_body (s : text) : option (text * text) :=
  match s with
  | [] => None                                              (* unterminated *)
  | c :: r =>
    if c =? 34 then Some ([], r)
    else if (c =? 10) || (c =? 13) || (c =? 0) then None    (* raw line end / NUL inside a short string *)
    else if negb (c =? 92) then ocons c (py_body r)
    else
      match r with
      | [] => None
      | e :: r1 =>
        if e =? 10 then py_body r1                          (* backslash-newline: ignored *)
        else if e =? 13 then match r1 with
                             | n :: r2 => if n =? 10 then py_body r2 else py_body r1
                             | [] => None
                             end
        else if e =? 0 then None
        else if e =? 92 then ocons 92 (py_body r1)
        else if e =? 39 then ocons 39 (py_body r1)
        else if e =? 34 then ocons 34 (py_body r1)
        else if e =? 97 then ocons 7 (py_body r1)
        else if e =? 98 then ocons 8 (py_body r1)
        else if e =? 102 then ocons 12 (py_body r1)
        else if e =? 110 then ocons 10 (py_body r1)
        else if e =? 114 then ocons 13 (py_body r1)
        else if e =? 116 then ocons 9 (py_body r1)
        else if e =? 118 then ocons 11 (py_body r1)
        else if is_oct e then                               (* one to three octal digits *)
          match r1 with
          | o2 :: r2 =>
            if is_oct o2 then
              match r2 with
              | o3 :: r3 => if is_oct o3 then ocons (((e - 48) * 8 + (o2 - 48)) * 8 + (o3 - 48)) (py_body r3)
                            else ocons ((e - 48) * 8 + (o2 - 48)) (py_body r2)
              | [] => None
              end
            else ocons (e - 48) (py_body r1)
          | [] => None
          end
        else if e =? 120 then                               (* xhh *)
          match r1 with
          | a :: b :: r2 => match hexs [a; b] 0 with Some v => ocons v (py_body r2) | None => None end
          | _ => None
          end
        else if e =? 117 then                               (* uxxxx *)
          match r1 with
          | a :: b :: c1 :: d :: r2 =>
            match hexs [a; b; c1; d] 0 with Some v => ocons v (py_body r2) | None => None end
          | _ => None
          end
        else if e =? 85 then                                (* Uxxxxxxxx *)
          match r1 with
          | a :: b :: c1 :: d :: a2 :: b2 :: c2 :: d2 :: r2 =>
            match hexs [a; b; c1; d; a2; b2; c2; d2] 0 with
            | Some v => if v <=? 1114111 then ocons v (py_body r2) else None
            | None => None
            end
          | _ => None
          end
        else if e =? 78 then None                           (* named character: not modelled *)
        else ocons 92 (ocons e (py_body r1))                (* unrecognised escape: both characters stay *)
      end
  end.

Definition py_str_parse (t : text) : option text :=
  match t with
  | q :: b => if q =? 34 then match py_body b with Some (s, []) => Some s | _ => None end else None
  | [] => None
  end.
Definition py_str_lit_denotes (t : text) (s : text) : Prop := py_str_parse t = Some s.

(** the expression printed for a string literal: the call [Str(<literal>)] *)
Definition py_lit_parse (t : text) : option text :=
  match strip_prefix [83; 116; 114; 40] t with
  | Some (q :: b) => if q =? 34 then match py_body b with Some (s, [41]) => Some s | _ => None end else None
  | _ => None
  end.
Definition py_lit_denotes (t : text) (s : text) : Prop := py_lit_parse t = Some s.

(* ------------------------------------------------------------------ names *)

(** an Erg variable as the name printer sees it *)
Record ename : Type := { e_public : bool; e_base : text; e_proc : bool; e_line : Z; e_col : Z }.
Definition e_name (e : ename) : text := e_base e ++ if e_proc e then [33] else [].
Definition mangle (e : ename) : text := transpile_name (e_public e) (e_name e) None (e_line e) (e_col e).

(** same variable: same visibility and name, and for private variables the same defining occurrence *)
Definition same_var (a b : ename) : Prop :=
  e_public a = e_public b /\ e_name a = e_name b /\
  (e_public a = false -> e_line a = e_line b /\ e_col a = e_col b).

Definition is_alnum (c : Z) : bool :=
  ((48 <=? c) && (c <=? 57)) || ((97 <=? c) && (c <=? 122)) || ((65 <=? c) && (c <=? 90)).
(** the fragment on which mangling is proved injective: alphanumeric base name (no underscore), optional
    procedure mark, a private variable defined at a real source position (line >= 1) *)
Definition plain (e : ename) : bool :=
  forallb is_alnum (e_base e) && negb (match e_base e with [] => true | _ => false end) &&
  (e_public e || ((1 <=? e_line e) && (0 <=? e_col e))).

(** Known finding C17-mangle-collision: a public name that looks like a mangled private one. [collide a b]:
    two different variables get the same Python name. *)
Definition ename_eqb (a b : ename) : bool :=
  Bool.eqb (e_public a) (e_public b) && text_eqb (e_name a) (e_name b) &&
  (e_public a || ((e_line a =? e_line b) && (e_col a =? e_col b))).
Definition collide (a b : ename) : bool := negb (ename_eqb a b) && text_eqb (mangle a) (mangle b).
Definition Known_C17_mangle (names : list ename) : bool :=
  existsb (fun a => existsb (fun b => collide a b) names) names.
