(** Emit theme — lemmas about the shared text helpers (decimal printing) *)
From Coq Require Import ZArith List Bool Lia.
From ErgV Require Import Emit.Text.
Import ListNotations.
Open Scope Z_scope.

(* ------------------------------------------------------------------ digits *)
Lemma digits_val_acc : forall l a, fold_left (fun a d => 10 * a + d) l a = a * 10 ^ Z.of_nat (length l) + digits_val l.
Proof.
  unfold digits_val. induction l as [|d l IH]; intros a.
  - cbn. lia.
  - cbn [fold_left length]. rewrite IH. rewrite (IH (10 * 0 + d)).
    rewrite Nat2Z.inj_succ, Z.pow_succ_r by lia. lia.
Qed.

Lemma digits_val_snoc : forall l d, digits_val (l ++ [d]) = 10 * digits_val l + d.
Proof.
  intros. unfold digits_val. rewrite fold_left_app. cbn. reflexivity.
Qed.

Lemma canon_digits_snoc : forall l d, l <> [] -> canon_digits l = true -> is_digit_val d = true ->
  (match l with [x] => negb (x =? 0) | _ => true end) = true -> canon_digits (l ++ [d]) = true.
Proof.
  intros l d Hne Hc Hd Hz. unfold canon_digits in *.
  apply andb_true_iff in Hc. destruct Hc as [Ha Hb].
  rewrite forallb_app, Ha. cbn [forallb]. rewrite Hd. cbn.
  destruct l as [|x [|y l]]; [congruence| |]; cbn in *; auto.
Qed.

Lemma dec_digits_spec : forall fuel n, 0 <= n < 2 ^ Z.of_nat fuel -> (0 < fuel)%nat ->
  digits_val (dec_digits fuel n) = n /\ canon_digits (dec_digits fuel n) = true /\
  (n <> 0 -> match dec_digits fuel n with x :: _ => x <> 0 | [] => False end).
Proof.
  induction fuel as [|f IH]; intros n Hn Hf.
  - lia.
  - cbn [dec_digits]. destruct (n <? 10) eqn:E.
    + apply Z.ltb_lt in E.
      assert (H1 : 0 <=? n = true) by (apply Z.leb_le; lia).
      assert (H2 : n <=? 9 = true) by (apply Z.leb_le; lia).
      split; [|split].
      * unfold digits_val. cbn. lia.
      * unfold canon_digits, is_digit_val. cbn [forallb]. rewrite H1, H2. reflexivity.
      * intros Hz. exact Hz.
    + apply Z.ltb_ge in E.
      assert (Hq : 0 <= n / 10 < 2 ^ Z.of_nat f).
      { split. apply Z.div_pos; lia.
        rewrite Nat2Z.inj_succ, Z.pow_succ_r in Hn by lia.
        apply Z.div_lt_upper_bound; lia. }
      assert (Hf0 : (0 < f)%nat).
      { destruct f; [|lia]. cbn in Hn. lia. }
      destruct (IH _ Hq Hf0) as (Hv & Hc & Hh).
      assert (Hq0 : n / 10 <> 0).
      { intro H0. assert (n / 10 >= 1). { apply Z.le_ge. apply Z.div_le_lower_bound; lia. } lia. }
      specialize (Hh Hq0).
      assert (Hm : 0 <= n mod 10 < 10) by (apply Z.mod_pos_bound; lia).
      rewrite digits_val_snoc, Hv.
      repeat split.
      * rewrite (Z.div_mod n 10) at 3 by lia. lia.
      * apply canon_digits_snoc; auto.
        -- destruct (dec_digits f (n / 10)); [contradiction|congruence].
        -- unfold is_digit_val. apply andb_true_iff. split; [apply Z.leb_le|apply Z.leb_le]; lia.
        -- destruct (dec_digits f (n / 10)) as [|x [|y l]]; auto.
           apply negb_true_iff. apply Z.eqb_neq. exact Hh.
      * intros _. destruct (dec_digits f (n / 10)); [contradiction|]. cbn. exact Hh.
Qed.

Lemma nat_digits_spec : forall n, 0 <= n ->
  digits_val (nat_digits n) = n /\ canon_digits (nat_digits n) = true.
Proof.
  intros n Hn. unfold nat_digits.
  assert (H : 0 <= n < 2 ^ Z.of_nat (S (Z.to_nat (Z.log2 n)))).
  { split; [assumption|]. rewrite Nat2Z.inj_succ, Z2Nat.id by apply Z.log2_nonneg.
    destruct (Z.eq_dec n 0) as [->|Hz]. cbn; lia.
    apply Z.log2_spec. lia. }
  destruct (dec_digits_spec _ _ H) as (A & B & _). lia. auto.
Qed.

