(** C18 — specification: the JSON grammar of RFC 8259 as an executable parser.

    [json_parse text = Some v]  iff  [text] is a JSON text (section 2: ws value ws) denoting [v].
    [json_denotes text v] is that statement; the parser itself is the judge (it is extracted and run on
    the implementation's real output, and it is itself validated on every run against Python's [json]
    module on valid and malformed texts).

    Text is a list of Unicode scalar values (the UTF-8 decoding of the output file).
    Numbers are kept exactly: sign, decimal mantissa, decimal exponent ((-1)^neg * mant * 10^exp10);
    objects are association lists in source order (duplicate names kept, RFC 8259 section 4). *)
From Coq Require Import ZArith List Bool.
From ErgV Require Import Emit.Text Emit.Json.
Import ListNotations.
Open Scope Z_scope.

Inductive jvalue : Type :=
| JNull
| JBool (b : bool)
| JNum (neg : bool) (mant : Z) (exp10 : Z)
| JStr (s : text)
| JArr (l : list jvalue)
| JObj (l : list (text * jvalue)).

(** ws = *( %x20 / %x09 / %x0A / %x0D ) *)
Definition is_ws (c : Z) : bool := (c =? 32) || (c =? 9) || (c =? 10) || (c =? 13).
Fixpoint skip_ws (s : text) : text :=
  match s with
  | c :: r => if is_ws c then skip_ws r else s
  | [] => []
  end.

Definition is_digit (c : Z) : bool := (48 <=? c) && (c <=? 57).
(** longest prefix of digits: their values, and the rest *)
Fixpoint span_digits (s : text) : list Z * text :=
  match s with
  | c :: r => if is_digit c then let (ds, r') := span_digits r in ((c - 48) :: ds, r') else ([], s)
  | [] => ([], [])
  end.

(** number = [ minus ] int [ frac ] [ exp ];  int = zero / ( digit1-9 *DIGIT ) *)
Definition psign (s : text) : bool * text :=
  match s with
  | c :: r => if c =? 45 then (true, r) else (false, s)
  | [] => (false, s)
  end.
(** frac = decimal-point 1*DIGIT *)
Definition pfrac (s : text) : option (list Z * text) :=
  match s with
  | c :: r => if c =? 46 then let (fp, r') := span_digits r in match fp with [] => None | _ => Some (fp, r') end
              else Some ([], s)
  | [] => Some ([], s)
  end.
(** exp = e [ minus / plus ] 1*DIGIT *)
Definition pexp (s : text) : option (Z * text) :=
  match s with
  | c :: r =>
    if (c =? 101) || (c =? 69) then
      let (eneg, r1) := match r with
                        | c1 :: r' => if c1 =? 45 then (true, r') else if c1 =? 43 then (false, r') else (false, r)
                        | [] => (false, r)
                        end in
      let (ed, r2) := span_digits r1 in
      match ed with [] => None | _ => Some ((if eneg then - digits_val ed else digits_val ed), r2) end
    else Some (0, s)
  | [] => Some (0, s)
  end.
Definition pnumber (s : text) : option (jvalue * text) :=
  let (neg, s1) := psign s in
  let (ip, s2) := span_digits s1 in
  if negb (canon_digits ip) then None else
  match pfrac s2 with
  | None => None
  | Some (fp, s3) =>
    match pexp s3 with
    | None => None
    | Some (e, s4) => Some (JNum neg (digits_val (ip ++ fp)) (e - Z.of_nat (length fp)), s4)
    end
  end.

Definition hex_val (c : Z) : option Z :=
  if (48 <=? c) && (c <=? 57) then Some (c - 48)
  else if (97 <=? c) && (c <=? 102) then Some (c - 87)
  else if (65 <=? c) && (c <=? 70) then Some (c - 55)
  else None.
Definition hex4 (a b c d : Z) : option Z :=
  match hex_val a, hex_val b, hex_val c, hex_val d with
  | Some x, Some y, Some z, Some w => Some (((x * 16 + y) * 16 + z) * 16 + w)
  | _, _, _, _ => None
  end.
Definition is_high_surr (u : Z) : bool := (55296 <=? u) && (u <=? 56319).
Definition is_low_surr (u : Z) : bool := (56320 <=? u) && (u <=? 57343).

(** string body after the opening quotation mark:
    unescaped = %x20-21 / %x23-5B / %x5D-10FFFF;  escapes: backslash followed by quotation-mark, backslash,
    solidus, b, f, n, r, t, or uXXXX
    (a \u high surrogate directly followed by a \u low surrogate is one code point; any other \uXXXX is
    the code unit itself). Returns the denoted code points and the rest after the closing quote. *)
Fixpoint pstring (s : text) : option (text * text) :=
  let cons c (x : option (text * text)) := match x with Some (t, r) => Some (c :: t, r) | None => None end in
  match s with
  | [] => None
  | c :: r =>
    if c =? 34 then Some ([], r)
    else if c =? 92 then
      match r with
      | [] => None
      | e :: r1 =>
        if e =? 34 then cons 34 (pstring r1)
        else if e =? 92 then cons 92 (pstring r1)
        else if e =? 47 then cons 47 (pstring r1)
        else if e =? 98 then cons 8 (pstring r1)
        else if e =? 102 then cons 12 (pstring r1)
        else if e =? 110 then cons 10 (pstring r1)
        else if e =? 114 then cons 13 (pstring r1)
        else if e =? 116 then cons 9 (pstring r1)
        else if e =? 117 then
          match r1 with
          | a :: b :: c' :: d :: r2 =>
            match hex4 a b c' d with
            | None => None
            | Some u =>
              match r2 with
              | b1 :: u1 :: a2 :: b2 :: c2 :: d2 :: r3 =>
                match (if is_high_surr u && (b1 =? 92) && (u1 =? 117) then hex4 a2 b2 c2 d2 else None) with
                | Some lo => if is_low_surr lo
                             then cons (65536 + (u - 55296) * 1024 + (lo - 56320)) (pstring r3)
                             else cons u (pstring r2)
                | None => cons u (pstring r2)
                end
              | _ => cons u (pstring r2)
              end
            end
          | _ => None
          end
        else None
      end
    else if (c <? 32) || (1114111 <? c) then None
    else cons c (pstring r)
  end.

(** value = false / null / true / object / array / number / string, with the surrounding ws of the
    structural characters. [fuel] bounds the nesting depth plus the number of elements; the length of the
    text is always enough (theorem [json_parse_fuel] is not needed: the property theorem is stated for
    [json_parse], which uses the length). *)
Fixpoint pvalue (fuel : nat) (s : text) : option (jvalue * text) :=
  match fuel with
  | O => None
  | S f =>
    match skip_ws s with
    | [] => None
    | c :: r =>
      if c =? 34 then match pstring r with Some (t, r') => Some (JStr t, r') | None => None end
      else if c =? 91 then
        match skip_ws r with
        | c2 :: r2 => if c2 =? 93 then Some (JArr [], r2)
                      else match pelems f r with Some (l, r') => Some (JArr l, r') | None => None end
        | [] => None
        end
      else if c =? 123 then
        match skip_ws r with
        | c2 :: r2 => if c2 =? 125 then Some (JObj [], r2)
                      else match pmembers f r with Some (l, r') => Some (JObj l, r') | None => None end
        | [] => None
        end
      else match strip_prefix [110; 117; 108; 108] (c :: r) with Some r' => Some (JNull, r') | None =>
           match strip_prefix [116; 114; 117; 101] (c :: r) with Some r' => Some (JBool true, r') | None =>
           match strip_prefix [102; 97; 108; 115; 101] (c :: r) with Some r' => Some (JBool false, r') | None =>
           pnumber (c :: r) end end end
    end
  end
(** value *( ws comma ws value ) ws close-bracket *)
with pelems (fuel : nat) (s : text) : option (list jvalue * text) :=
  match fuel with
  | O => None
  | S f =>
    match pvalue f s with
    | None => None
    | Some (v, r) =>
      match skip_ws r with
      | c :: r1 =>
        if c =? 44 then match pelems f r1 with Some (l, r2) => Some (v :: l, r2) | None => None end
        else if c =? 93 then Some ([v], r1)
        else None
      | [] => None
      end
    end
  end
(** member *( ws comma ws member ) ws close-brace;  member = string ws colon ws value *)
with pmembers (fuel : nat) (s : text) : option (list (text * jvalue) * text) :=
  match fuel with
  | O => None
  | S f =>
    match skip_ws s with
    | q :: r =>
      if negb (q =? 34) then None else
      match pstring r with
      | None => None
      | Some (k, r1) =>
        match skip_ws r1 with
        | col :: r2 =>
          if negb (col =? 58) then None else
          match pvalue f r2 with
          | None => None
          | Some (v, r3) =>
            match skip_ws r3 with
            | c :: r4 =>
              if c =? 44 then match pmembers f r4 with Some (l, r5) => Some ((k, v) :: l, r5) | None => None end
              else if c =? 125 then Some ([(k, v)], r4)
              else None
            | [] => None
            end
          end
        | [] => None
        end
      end
    | [] => None
    end
  end.

(** JSON-text = ws value ws *)
Definition json_parse (s : text) : option jvalue :=
  match pvalue (S (length s)) s with
  | Some (v, r) => match skip_ws r with [] => Some v | _ => None end
  | None => None
  end.

Definition json_denotes (s : text) (v : jvalue) : Prop := json_parse s = Some v.

(* ------------------------------------------------------------------ what a module should denote *)

Definition key_text (k : value) : text := match k with VStr s => s | _ => [] end.

(** the JSON value a constant stands for (meaningful when the constant has a JSON form, [jsonable]) *)
Fixpoint abs_value (v : value) : jvalue :=
  match v with
  | VInt z => JNum (z <? 0) (Z.abs z) 0
  | VFloat neg ip fp => JNum neg (digits_val (ip ++ fp)) (- Z.of_nat (length fp))
  | VStr s => JStr s
  | VBool b => JBool b
  | VNone | VFloatNonFinite | VOther => JNull
  | VList l | VTuple l => JArr (map abs_value l)
  | VRecord l => JObj (map (fun kv => (fst kv, abs_value (snd kv))) l)
  | VDict l => JObj (map (fun kv => (key_text (fst kv), abs_value (snd kv))) l)
  end.

(** the constant an initialiser evaluates to *)
Fixpoint expr_val (e : expr) : value :=
  match e with
  | ELit _ v => v
  | EAcc (Some v) _ => v
  | EAcc None _ => VOther
  | EList l => VList (map expr_val l)
  | ETuple l => VTuple (map expr_val l)
  | ERecord l => VRecord (map (fun kv => (fst kv, expr_val (snd kv))) l)
  | EDict l => VDict (map (fun kv => (expr_val (fst kv), expr_val (snd kv))) l)
  | EOther (Some v) => v
  | EOther None => VOther
  end.

Definition valid_cp (c : Z) : bool := (0 <=? c) && (c <=? 1114111).
Definition valid_text (s : text) : bool := forallb valid_cp s.

(** has a JSON form: finite floats, no types/functions, string keys *)
Fixpoint jsonable (v : value) : bool :=
  match v with
  | VInt _ | VFloat _ _ _ | VStr _ | VBool _ | VNone => true
  | VFloatNonFinite | VOther => false
  | VList l | VTuple l => forallb jsonable l
  | VRecord l => forallb (fun kv => jsonable (snd kv)) l
  | VDict l => forallb (fun kv => match fst kv with VStr _ => jsonable (snd kv) | _ => false end) l
  end.

(** representation invariants of the model's inputs: strings are Unicode code points, float expansions are
    canonical decimal digit sequences *)
Fixpoint wf_value (v : value) : bool :=
  match v with
  | VInt _ | VBool _ | VNone | VFloatNonFinite | VOther => true
  | VFloat _ ip fp => canon_digits ip && forallb is_digit_val fp
  | VStr s => valid_text s
  | VList l | VTuple l => forallb wf_value l
  | VRecord l => forallb (fun kv => valid_text (fst kv) && wf_value (snd kv)) l
  | VDict l => forallb (fun kv => wf_value (fst kv) && wf_value (snd kv)) l
  end.

(** the fragment of the property: initialisers are literals, lists, tuples, records and string-keyed dicts
    (plus references to / expressions over bound constants); an unbound accessor is outside it *)
Fixpoint wf_expr (e : expr) : bool :=
  match e with
  | ELit _ _ | EAcc (Some _) _ | EOther _ => true
  | EAcc None _ => false
  | EList l | ETuple l => forallb wf_expr l
  | ERecord l => forallb (fun kv => wf_expr (snd kv)) l
  | EDict l => forallb (fun kv => wf_expr (fst kv) && wf_expr (snd kv) &&
                                  match expr_val (fst kv) with VStr _ => true | _ => false end) l
  end.

(** a module of bindings (public or private); [module_obj] is the object it should denote *)
Definition wf_chunk (c : chunk) : bool :=
  match c with
  | CDef _ name body => valid_text name && wf_expr body && wf_value (expr_val body)
  | CExpr _ => false
  end.
Definition wf_module (m : module) : bool := forallb wf_chunk m.
Definition chunk_jsonable (c : chunk) : bool :=
  match c with CDef true _ body => jsonable (expr_val body) | _ => true end.
Fixpoint module_obj (m : module) : list (text * jvalue) :=
  match m with
  | [] => []
  | CDef true name body :: r => (name, abs_value (expr_val body)) :: module_obj r
  | _ :: r => module_obj r
  end.

(** Known finding C18-quote-strip (crates/erg_compiler/ty/value.rs ValueObj::from_str, Type::Str arm; outside
    this model): the frontend computes the value of a string literal from the token text (the string between
    quotation marks) by stripping three quotation marks from an end that shows three, else one. A single-line
    literal whose string begins or ends with two quotation marks (or is one quotation mark) therefore reaches
    the generator with a different [lit.value]. [from_str_strip] transcribes that arm; [known_c18_str s]
    says that the literal for [s] is mis-valued; [Known_C18 m] that the module contains such a literal. *)
Definition strip_front (c : text) : text :=
  match c with
  | a :: b :: d :: r => if (a =? 34) && (b =? 34) && (d =? 34) then r else if a =? 34 then b :: d :: r else c
  | a :: r => if a =? 34 then r else c
  | [] => []
  end.
Definition from_str_strip (content : text) : text :=
  if text_eqb content [34; 34] then [] else rev (strip_front (rev (strip_front content))).
Definition known_c18_str (s : text) : bool := negb (text_eqb (from_str_strip (34 :: s ++ [34])) s).
Fixpoint expr_known (e : expr) : bool :=
  match e with
  | ELit _ (VStr s) => known_c18_str s
  | ELit _ _ | EAcc _ _ | EOther _ => false
  | EList l | ETuple l =>
    (fix go (l : list expr) : bool := match l with [] => false | x :: r => expr_known x || go r end) l
  | ERecord l =>
    (fix go (l : list (text * expr)) : bool :=
       match l with [] => false | (_, x) :: r => expr_known x || go r end) l
  | EDict l =>
    (fix go (l : list (expr * expr)) : bool :=
       match l with [] => false | (k, x) :: r => expr_known k || expr_known x || go r end) l
  end.
Definition Known_C18 (m : module) : bool :=
  existsb (fun c => match c with CDef _ _ body => expr_known body | CExpr e => expr_known e end) m.

(** the judge applied to an implementation output: it parses, and to the expected object *)
Fixpoint jvalue_eqb (a b : jvalue) : bool :=
  match a, b with
  | JNull, JNull => true
  | JBool x, JBool y => Bool.eqb x y
  | JNum n1 m1 e1, JNum n2 m2 e2 => Bool.eqb n1 n2 && (m1 =? m2) && (e1 =? e2)
  | JStr s, JStr t => text_eqb s t
  | JArr l1, JArr l2 =>
    (fix go (l1 l2 : list jvalue) : bool :=
       match l1, l2 with
       | [], [] => true
       | x :: r1, y :: r2 => jvalue_eqb x y && go r1 r2
       | _, _ => false
       end) l1 l2
  | JObj l1, JObj l2 =>
    (fix go (l1 l2 : list (text * jvalue)) : bool :=
       match l1, l2 with
       | [], [] => true
       | (k1, x) :: r1, (k2, y) :: r2 => text_eqb k1 k2 && jvalue_eqb x y && go r1 r2
       | _, _ => false
       end) l1 l2
  | _, _ => false
  end.
Definition judge (m : module) (output : text) : bool :=
  match json_parse output with
  | Some v => jvalue_eqb v (JObj (module_obj m))
  | None => false
  end.
