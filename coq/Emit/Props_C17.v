(** C17 — property theorems for the LITERAL and NAME level of the Python transpile target
    (statements only; proofs are in PyProofs.v).

    The property itself ("the transpiled script behaves like the bytecode") is a statement about whole
    programs; this development proves it only for how string literals and names are printed
    (REGISTRY: proof (partial)). Statement- and expression-level translation is tied by the differential part
    of checks/c17.py only.

    Full statement, NOT proved here:
      forall p : program, transpile p = Some script -> valid_python script /\ run_python script = run_bytecode (compile p). *)
From Coq Require Import ZArith List Bool.
From ErgV Require Import Emit.Text Emit.Py Emit.PySpec Emit.PyProofs.
Import ListNotations.
Open Scope Z_scope.

(** For ALL strings (every list of code points: quotes, backslashes, braces, NUL and other control characters,
    non-BMP) the expression printed for the literal is the call of Str on one Python short string literal (double
    quotes) that denotes exactly that string. *)
Theorem str_lit_roundtrip : forall tok s, py_lit_denotes (transpile_lit tok (LStr s)) s.
Proof. exact str_lit_roundtrip_l. Qed.

Theorem str_body_roundtrip : forall s, py_str_lit_denotes (34 :: escape_str s ++ [34]) s.
Proof. exact str_body_roundtrip_l. Qed.

(** The code as found: the literal printed for the string a, quotation mark, b, backslash, c (token text
    included its delimiters, quotation mark and backslash were not escaped) does not denote it. *)
Theorem str_lit_nofix_refuted :
  py_lit_parse (transpile_lit_nofix (34 :: w_c17 ++ [34]) (LStr w_c17)) <> Some w_c17.
Proof. exact str_lit_nofix_refuted_l. Qed.

(** Name mangling. Full statement (FALSE, see [mangle_refuted]):
      forall a b, mangle a = mangle b -> same_var a b.
    Proved on the fragment [plain]: alphanumeric base names (no underscore) with an optional procedure mark,
    public, or private and defined at a source position (line >= 1): two variables get the same Python name
    only if they are the same variable. *)
Theorem mangle_injective_partial : forall a b, plain a = true -> plain b = true ->
  mangle a = mangle b -> same_var a b.
Proof. exact mangle_injective_partial_l. Qed.

(** Outside the fragment it fails: the public name x_L1 and the private variable x defined at line 1, column 0
    are both printed as x_L1 (known finding C17-mangle-collision; replayed by the check:
    the program  x = 1 / .x_L1 = 2 / print! x  prints 1 as bytecode and 2 as transpiled script). *)
Theorem mangle_refuted : ~ same_var n_pub_xL1 n_priv_x /\ mangle n_pub_xL1 = mangle n_priv_x /\
  Known_C17_mangle [n_pub_xL1; n_priv_x] = true.
Proof. exact mangle_refuted_l. Qed.

(** non-vacuity *)
Example ex_str_lit :
  transpile_lit [] (LStr [97; 34; 98; 92; 99; 10; 0; 49; 123; 128512]) =
  [83; 116; 114; 40; 34; 97; 92; 34; 98; 92; 92; 99; 92; 110; 92; 120; 48; 48; 49; 123; 128512; 34; 41] /\
  py_lit_parse (transpile_lit [] (LStr [97; 34; 98; 92; 99; 10; 0; 49; 123; 128512])) =
  Some [97; 34; 98; 92; 99; 10; 0; 49; 123; 128512].
Proof. vm_compute. split; reflexivity. Qed.

Example ex_mangle :
  let f := {| e_public := false; e_base := [102]; e_proc := true; e_line := 3; e_col := 4 |} in
  let g := {| e_public := true; e_base := [102]; e_proc := false; e_line := 0; e_col := 0 |} in
  plain f = true /\ plain g = true /\
  mangle f = [102; 95; 95; 101; 114; 103; 95; 112; 114; 111; 99; 95; 95; 95; 76; 51; 95; 67; 52] /\ mangle g = [102] /\
  Known_C17_mangle [f; g] = false.
Proof. vm_compute. repeat split; reflexivity. Qed.
