(** C18 — model of the JSON transpile target, crates/erg_compiler/transpile.rs [JsonGenerator].

    Two transcriptions:
      * [transpile]        the code as it is now (after the two [fix:] commits recorded in /verif/known/C18.json):
                           literals and bound constants are printed by [JsonGenerator::value_to_json] /
                           [json_str]; chunks are joined with [",\n"] only between non-empty chunks;
      * [transpile_nofix]  the code as it was found: [Expr::Literal(lit) => lit.token.content], keys printed
                           between raw quotes, separator decided by the length of the previous chunk.

    Abstractions (sound for the observable "Ok(code) / Err"):
      * [self.errors.push(..); "".to_string()] followed by [if self.errors.is_empty() { Ok } else { Err }]
        is the option monad: any pushed error makes the whole result [None];
      * [self.binds.get(&acc.var_info().def_loc)] (filled by [register_def] / [expr_into_value]) is not
        modelled: an accessor carries the looked-up value ([EAcc (Some v)]) or nothing;
      * a finite [f64] is represented by the decimal expansion that [impl Display for f64] prints
        (sign, integer digits, fraction digits; never an exponent) — Rust's float formatter is trusted, the
        correspondence check compares that expansion with an independent shortest-round-trip printer;
      * [Dict]/[Record] constants ([HashMap]) are association lists in the iteration order. *)
From Coq Require Import ZArith List Bool.
From ErgV Require Import Emit.Text.
Import ListNotations.
Open Scope Z_scope.

(** ValueObj (crates/erg_compiler/ty/value.rs), the constants a JSON module can bind *)
Inductive value : Type :=
| VInt (z : Z)                                  (* Int(i32) | Nat(u64) *)
| VFloat (neg : bool) (ip fp : list Z)          (* Float(f) with f.is_finite(): digits printed by Display *)
| VFloatNonFinite                               (* Float(inf | -inf | nan) *)
| VStr (s : text)
| VBool (b : bool)
| VNone
| VOther                                        (* Type, Subr, Set, Inf, Ellipsis, Failure, ... *)
| VList (l : list value)
| VTuple (l : list value)
| VRecord (l : list (text * value))
| VDict (l : list (value * value)).

(** hir::Expr as far as [JsonGenerator::transpile_expr] distinguishes *)
Inductive expr : Type :=
| ELit (tok : text) (v : value)                 (* Literal { token.content, value } *)
| EAcc (bound : option value) (shown : text)    (* Accessor: binds.get(def_loc), replace_non_symbolic(acc.to_string()) *)
| EList (l : list expr)                         (* List::Normal *)
| ETuple (l : list expr)                        (* Tuple::Normal *)
| ERecord (l : list (text * expr))              (* Record: attr.sig.inspect(), attr.body.block[0] *)
| EDict (l : list (expr * expr))                (* Dict::Normal *)
| EOther (v : option value).                    (* any other expression: self.expr_into_value(other) *)

Inductive chunk : Type :=
| CDef (public : bool) (name : text) (body : expr)   (* Expr::Def with body.block[0] *)
| CExpr (e : expr).
Definition module := list chunk.

(* ------------------------------------------------------------------ the code as it is now *)

(** JsonGenerator::json_str *)
Definition json_str_char (c : Z) : text :=
  if c =? 34 then [92; 34]                                    (* '"' => "\\\"" *)
  else if c =? 92 then [92; 92]                               (* '\\' => "\\\\" *)
  else if c <? 32 then [92; 117; 48; 48; hex_digit (c / 16); hex_digit (c mod 16)]   (* format!("\\u{:04x}") *)
  else [c].
Definition json_str (s : text) : text := 34 :: flat_map json_str_char s ++ [34].

(** f.to_string() of a finite float *)
Definition float_to_string (neg : bool) (ip fp : list Z) : text :=
  (if neg then [45] else []) ++ digit_chars ip ++ match fp with [] => [] | _ => 46 :: digit_chars fp end.

Definition opt_cons {A} (a : option A) (b : option (list A)) : option (list A) :=
  match a, b with Some x, Some l => Some (x :: l) | _, _ => None end.
Definition pair_text (k v : text) : text := k ++ [58; 32] ++ v.       (* format!("{}: {}") *)

(** JsonGenerator::value_to_json; [collect::<Option<Vec<_>>>()?] is [opt_cons] *)
Fixpoint value_to_json (v : value) : option text :=
  match v with
  | VInt z => Some (int_to_string z)
  | VFloat neg ip fp => Some (float_to_string neg ip fp)
  | VFloatNonFinite => None
  | VBool b => Some (if b then [116; 114; 117; 101] else [102; 97; 108; 115; 101])
  | VNone => Some [110; 117; 108; 108]
  | VStr s => Some (json_str s)
  | VList l | VTuple l =>
    match (fix go (l : list value) : option (list text) :=
             match l with [] => Some [] | x :: r => opt_cons (value_to_json x) (go r) end) l with
    | Some ts => Some (91 :: join [44; 32] ts ++ [93])
    | None => None
    end
  | VRecord l =>
    match (fix go (l : list (text * value)) : option (list text) :=
             match l with
             | [] => Some []
             | (k, x) :: r => opt_cons (option_map (pair_text (json_str k)) (value_to_json x)) (go r)
             end) l with
    | Some ts => Some (123 :: join [44; 32] ts ++ [125])
    | None => None
    end
  | VDict l =>
    match (fix go (l : list (value * value)) : option (list text) :=
             match l with
             | [] => Some []
             | (VStr k, x) :: r => opt_cons (option_map (pair_text (json_str k)) (value_to_json x)) (go r)
             | _ :: _ => None
             end) l with
    | Some ts => Some (123 :: join [44; 32] ts ++ [125])
    | None => None
    end
  | VOther => None
  end.

(** the loops of transpile_expr, [if i > 0 { code += ", " } code += &elem], are [join ", "] *)
Definition sep_concat : list text -> text := join [44; 32].

(** JsonGenerator::transpile_expr *)
Fixpoint transpile_expr (e : expr) : option text :=
  match e with
  | ELit _ v => value_to_json v                                   (* transpile_value(&lit.value) *)
  | EAcc (Some v) _ => value_to_json v
  | EAcc None shown => Some shown
  | EList l | ETuple l =>
    match (fix go (l : list expr) : option (list text) :=
             match l with [] => Some [] | x :: r => opt_cons (transpile_expr x) (go r) end) l with
    | Some ts => Some (91 :: sep_concat ts ++ [93])
    | None => None
    end
  | ERecord l =>
    match (fix go (l : list (text * expr)) : option (list text) :=
             match l with
             | [] => Some []
             | (k, x) :: r => opt_cons (option_map (pair_text (json_str k)) (transpile_expr x)) (go r)
             end) l with
    | Some ts => Some (123 :: sep_concat ts ++ [125])
    | None => None
    end
  | EDict l =>
    match (fix go (l : list (expr * expr)) : option (list text) :=
             match l with
             | [] => Some []
             | (k, x) :: r =>
               opt_cons (match transpile_expr k, transpile_expr x with
                         | Some a, Some b => Some (pair_text a b) | _, _ => None end) (go r)
             end) l with
    | Some ts => Some (123 :: sep_concat ts ++ [125])
    | None => None
    end
  | EOther (Some v) => value_to_json v
  | EOther None => None                                           (* ValueObj::Failure has no JSON form *)
  end.

(** JsonGenerator::transpile_def (and transpile_expr on Expr::Def) *)
Definition transpile_chunk (c : chunk) : option text :=
  match c with
  | CDef true name body => option_map (pair_text (json_str name)) (transpile_expr body)
  | CDef false _ _ => Some []
  | CExpr e => transpile_expr e
  end.

(** JsonGenerator::transpile: [if !expr.is_empty() { if !code.is_empty() { code += ",\n" } code += &expr }] *)
Fixpoint transpile_chunks (code : text) (m : module) : option text :=
  match m with
  | [] => Some code
  | c :: r =>
    match transpile_chunk c with
    | None => None
    | Some [] => transpile_chunks code r
    | Some ex => transpile_chunks (match code with [] => ex | _ => code ++ [44; 10] ++ ex end) r
    end
  end.
Definition transpile (m : module) : option text :=
  option_map (fun code => [123; 10] ++ code ++ [10; 125]) (transpile_chunks [] m).   (* format!("{{\n{code}\n}}") *)

(* ------------------------------------------------------------------ the code as found (before the fixes) *)

Definition raw_quoted (s : text) : text := 34 :: s ++ [34].       (* format!("\"{}\"") *)

(** literal fragment only: accessors and other expressions went through [impl Display for ValueObj],
    which is not modelled ([None] here means "outside the fragment") *)
Fixpoint transpile_expr_nofix (e : expr) : option text :=
  match e with
  | ELit tok _ => Some tok                                        (* lit.token.content.to_string() *)
  | EList l | ETuple l =>
    match (fix go (l : list expr) : option (list text) :=
             match l with [] => Some [] | x :: r => opt_cons (transpile_expr_nofix x) (go r) end) l with
    | Some ts => Some (91 :: sep_concat ts ++ [93])
    | None => None
    end
  | ERecord l =>
    match (fix go (l : list (text * expr)) : option (list text) :=
             match l with
             | [] => Some []
             | (k, x) :: r => opt_cons (option_map (pair_text (raw_quoted k)) (transpile_expr_nofix x)) (go r)
             end) l with
    | Some ts => Some (123 :: sep_concat ts ++ [125])
    | None => None
    end
  | EDict l =>
    match (fix go (l : list (expr * expr)) : option (list text) :=
             match l with
             | [] => Some []
             | (k, x) :: r =>
               opt_cons (match transpile_expr_nofix k, transpile_expr_nofix x with
                         | Some a, Some b => Some (pair_text a b) | _, _ => None end) (go r)
             end) l with
    | Some ts => Some (123 :: sep_concat ts ++ [125])
    | None => None
    end
  | EAcc _ _ | EOther _ => None
  end.

Definition transpile_chunk_nofix (c : chunk) : option text :=
  match c with
  | CDef true name body => option_map (pair_text (raw_quoted name)) (transpile_expr_nofix body)
  | CDef false _ _ => Some []
  | CExpr e => transpile_expr_nofix e
  end.

(** [for (i, chunk) in ..enumerate() { if i > 0 && len > 0 { code += ",\n" } let expr = ..; len = expr.len(); code += &expr }] *)
Fixpoint transpile_chunks_nofix (i : nat) (len : nat) (code : text) (m : module) : option text :=
  match m with
  | [] => Some code
  | c :: r =>
    match transpile_chunk_nofix c with
    | None => None
    | Some ex =>
      let code1 := if (Nat.ltb 0 i && Nat.ltb 0 len)%bool then code ++ [44; 10] else code in
      transpile_chunks_nofix (S i) (length ex) (code1 ++ ex) r
    end
  end.
Definition transpile_nofix (m : module) : option text :=
  option_map (fun code => [123; 10] ++ code ++ [10; 125]) (transpile_chunks_nofix 0 0 [] m).
