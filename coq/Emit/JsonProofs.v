(** C18 — proofs *)
From Coq Require Import ZArith List Bool Lia.
From ErgV Require Import Emit.Text Emit.TextProofs Emit.Json Emit.JsonSpec.
Import ListNotations.
Open Scope Z_scope.

(* ------------------------------------------------------------------ numbers *)
Definition safe (rest : text) : bool :=
  match rest with
  | [] => true
  | c :: _ => negb (is_digit c || (c =? 46) || (c =? 101) || (c =? 69))
  end.

Lemma is_digit_char : forall d, is_digit_val d = true -> is_digit (48 + d) = true /\ 48 + d - 48 = d.
Proof.
  intros d H. unfold is_digit_val in H. apply andb_true_iff in H. destruct H as [A B].
  apply Z.leb_le in A. apply Z.leb_le in B. split; [|lia].
  unfold is_digit. apply andb_true_iff. split; apply Z.leb_le; lia.
Qed.

Lemma span_digits_chars : forall ds rest, forallb is_digit_val ds = true ->
  (match rest with [] => true | c :: _ => negb (is_digit c) end) = true ->
  span_digits (digit_chars ds ++ rest) = (ds, rest).
Proof.
  induction ds as [|d ds IH]; intros rest Hd Hr.
  - cbn. destruct rest as [|c r]; [reflexivity|]. cbn. apply negb_true_iff in Hr. rewrite Hr. reflexivity.
  - cbn [forallb] in Hd. apply andb_true_iff in Hd. destruct Hd as [H1 H2].
    cbn [digit_chars map app span_digits]. destruct (is_digit_char _ H1) as [A B].
    rewrite A. fold (digit_chars ds). rewrite (IH rest H2 Hr). rewrite B. reflexivity.
Qed.

Lemma safe_nondigit : forall rest, safe rest = true ->
  (match rest with [] => true | c :: _ => negb (is_digit c) end) = true.
Proof.
  intros [|c r] H; [reflexivity|]. cbn in H. apply negb_true_iff in H.
  apply orb_false_iff in H. destruct H as [H _]. apply orb_false_iff in H. destruct H as [H _].
  apply orb_false_iff in H. destruct H as [H _]. rewrite H. reflexivity.
Qed.

Lemma canon_digits_inv : forall ds, canon_digits ds = true ->
  forallb is_digit_val ds = true /\ exists d r, ds = d :: r /\ is_digit_val d = true.
Proof.
  intros ds H. unfold canon_digits in H. apply andb_true_iff in H. destruct H as [A B].
  split; [assumption|]. destruct ds as [|d r]; [discriminate|].
  exists d, r. split; [reflexivity|]. cbn in A. apply andb_true_iff in A. tauto.
Qed.

(** the number printed for a float expansion (and for an integer: fp = []) parses back *)
Lemma pnumber_print : forall neg ip fp rest,
  canon_digits ip = true -> forallb is_digit_val fp = true -> safe rest = true ->
  pnumber (float_to_string neg ip fp ++ rest) =
  Some (JNum neg (digits_val (ip ++ fp)) (- Z.of_nat (length fp)), rest).
Proof.
  intros neg ip fp rest Hip Hfp Hs.
  destruct (canon_digits_inv _ Hip) as (Hall & d & r & -> & Hd).
  destruct (is_digit_char _ Hd) as [Hdc _].
  assert (H45 : (48 + d =? 45) = false).
  { unfold is_digit_val in Hd. apply andb_true_iff in Hd. destruct Hd as [A _]. apply Z.leb_le in A.
    apply Z.eqb_neq. lia. }
  set (tail := match fp with [] => [] | _ :: _ => 46 :: digit_chars fp end ++ rest).
  assert (Hsign : psign (float_to_string neg (d :: r) fp ++ rest) = (neg, digit_chars (d :: r) ++ tail)).
  { unfold float_to_string, tail. destruct neg; cbn [app psign].
    - cbn. rewrite <- app_assoc. reflexivity.
    - cbn [digit_chars map app psign]. rewrite H45. rewrite <- app_assoc. reflexivity. }
  unfold pnumber. rewrite Hsign.
  assert (Htail : (match tail with [] => true | c :: _ => negb (is_digit c) end) = true).
  { unfold tail. destruct fp; cbn [app]; [apply safe_nondigit; assumption|reflexivity]. }
  rewrite (span_digits_chars _ _ Hall Htail). rewrite Hip. cbn [negb].
  unfold tail. destruct fp as [|f fp'].
  - (* integer *)
    cbn [app]. assert (Hf : pfrac rest = Some ([], rest)).
    { destruct rest as [|c rr]; [reflexivity|]. cbn in Hs. apply negb_true_iff in Hs.
      apply orb_false_iff in Hs. destruct Hs as [Hs _]. apply orb_false_iff in Hs. destruct Hs as [Hs _].
      apply orb_false_iff in Hs. destruct Hs as [_ Hs]. cbn. rewrite Hs. reflexivity. }
    rewrite Hf.
    assert (He : pexp rest = Some (0, rest)).
    { destruct rest as [|c rr]; [reflexivity|]. cbn in Hs. apply negb_true_iff in Hs.
      apply orb_false_iff in Hs. destruct Hs as [Hs H69]. apply orb_false_iff in Hs. destruct Hs as [_ H101].
      cbn. rewrite H101, H69. reflexivity. }
    rewrite He. cbn [length Z.of_nat]. reflexivity.
  - rewrite <- app_comm_cons. unfold pfrac. change (46 =? 46) with true. cbv iota.
    rewrite (span_digits_chars (f :: fp') rest Hfp (safe_nondigit _ Hs)).
    assert (He : pexp rest = Some (0, rest)).
    { destruct rest as [|c rr]; [reflexivity|]. cbn in Hs. apply negb_true_iff in Hs.
      apply orb_false_iff in Hs. destruct Hs as [Hs H69]. apply orb_false_iff in Hs. destruct Hs as [_ H101].
      cbn. rewrite H101, H69. reflexivity. }
    rewrite He. f_equal.
Qed.

(* ------------------------------------------------------------------ strings *)
Definition ocons (c : Z) (x : option (text * text)) : option (text * text) :=
  match x with Some (t, r) => Some (c :: t, r) | None => None end.

Lemma pstring_quote : forall X, pstring (92 :: 34 :: X) = ocons 34 (pstring X).
Proof. intros. reflexivity. Qed.
Lemma pstring_backslash : forall X, pstring (92 :: 92 :: X) = ocons 92 (pstring X).
Proof. intros. reflexivity. Qed.

Lemma hex_val_digit : forall d, 0 <= d < 16 -> hex_val (hex_digit d) = Some d.
Proof.
  intros d H. assert (d = 0 \/ d = 1 \/ d = 2 \/ d = 3 \/ d = 4 \/ d = 5 \/ d = 6 \/ d = 7 \/ d = 8 \/ d = 9 \/
    d = 10 \/ d = 11 \/ d = 12 \/ d = 13 \/ d = 14 \/ d = 15) as Hc by lia.
  repeat (destruct Hc as [-> | Hc]; [reflexivity|]). subst. reflexivity.
Qed.

Lemma pstring_plain : forall c X, (c =? 34) = false -> (c =? 92) = false -> (c <? 32) = false ->
  (1114111 <? c) = false -> pstring (c :: X) = ocons c (pstring X).
Proof.
  intros c X H1 H2 H3 H4. cbn [pstring]. rewrite H1, H2, H3, H4. reflexivity.
Qed.

Lemma pstring_ctl : forall c X, 0 <= c < 32 ->
  pstring (92 :: 117 :: 48 :: 48 :: hex_digit (c / 16) :: hex_digit (c mod 16) :: X) = ocons c (pstring X).
Proof.
  intros c X Hc.
  assert (H16 : 0 <= c / 16 < 16).
  { split. apply Z.div_pos; lia. apply Z.div_lt_upper_bound; lia. }
  assert (Hm : 0 <= c mod 16 < 16) by (apply Z.mod_pos_bound; lia).
  assert (Hh : hex4 48 48 (hex_digit (c / 16)) (hex_digit (c mod 16)) = Some c).
  { unfold hex4. rewrite (hex_val_digit _ H16), (hex_val_digit _ Hm). cbn [hex_val].
    change (hex_val 48) with (Some 0). cbv iota. f_equal.
    rewrite (Z.div_mod c 16) at 3 by lia. lia. }
  assert (Hs : is_high_surr c = false).
  { unfold is_high_surr. apply andb_false_iff. left. apply Z.leb_gt. lia. }
  cbn [pstring]. change (92 =? 34) with false. change (92 =? 92) with true. cbv iota.
  change (117 =? 34) with false. change (117 =? 92) with false. change (117 =? 47) with false.
  change (117 =? 98) with false. change (117 =? 102) with false. change (117 =? 110) with false.
  change (117 =? 114) with false. change (117 =? 116) with false. change (117 =? 117) with true. cbv iota.
  rewrite Hh. rewrite Hs. cbn [andb].
  destruct X as [|? [|? [|? [|? [|? [|? ?]]]]]]; reflexivity.
Qed.

Lemma pstring_json_str : forall s rest, valid_text s = true ->
  pstring (flat_map json_str_char s ++ 34 :: rest) = Some (s, rest).
Proof.
  induction s as [|c s IH]; intros rest Hv.
  - reflexivity.
  - cbn [valid_text forallb] in Hv. apply andb_true_iff in Hv. destruct Hv as [Hc Hv].
    unfold valid_cp in Hc. apply andb_true_iff in Hc. destruct Hc as [Hc0 Hc1].
    apply Z.leb_le in Hc0. apply Z.leb_le in Hc1.
    cbn [flat_map]. rewrite <- app_assoc. unfold json_str_char at 1.
    destruct (c =? 34) eqn:E34.
    { apply Z.eqb_eq in E34. subst c. cbn [app]. rewrite pstring_quote, (IH rest Hv). reflexivity. }
    destruct (c =? 92) eqn:E92.
    { apply Z.eqb_eq in E92. subst c. cbn [app]. rewrite pstring_backslash, (IH rest Hv). reflexivity. }
    destruct (c <? 32) eqn:E32.
    { apply Z.ltb_lt in E32. cbn [app]. rewrite pstring_ctl by lia. rewrite (IH rest Hv). reflexivity. }
    cbn [app]. rewrite pstring_plain; auto.
    + rewrite (IH rest Hv). reflexivity.
    + apply Z.ltb_ge. lia.
Qed.

(* ------------------------------------------------------------------ whitespace and structure *)
Lemma skip_ws_app : forall w s, forallb is_ws w = true -> skip_ws (w ++ s) = skip_ws s.
Proof.
  induction w as [|c w IH]; intros s H; [reflexivity|].
  cbn [forallb] in H. apply andb_true_iff in H. destruct H as [A B].
  cbn [app skip_ws]. rewrite A. apply IH. assumption.
Qed.

Lemma skip_ws_head : forall c s, is_ws c = false -> skip_ws (c :: s) = c :: s.
Proof. intros c s H. cbn. rewrite H. reflexivity. Qed.

Lemma skip_ws_ws1 : forall c s, is_ws c = true -> skip_ws (c :: s) = skip_ws s.
Proof. intros c s H. cbn. rewrite H. reflexivity. Qed.

Lemma pvalue_ws : forall w fuel s, forallb is_ws w = true -> pvalue fuel (w ++ s) = pvalue fuel s.
Proof.
  intros w fuel s H. destruct fuel; [reflexivity|]. cbn [pvalue]. rewrite skip_ws_app by assumption. reflexivity.
Qed.

Lemma pelems_ws : forall w fuel s, forallb is_ws w = true -> pelems fuel (w ++ s) = pelems fuel s.
Proof.
  intros w fuel s H. destruct fuel; [reflexivity|]. cbn [pelems]. rewrite pvalue_ws by assumption. reflexivity.
Qed.

Lemma pmembers_ws : forall w fuel s, forallb is_ws w = true -> pmembers fuel (w ++ s) = pmembers fuel s.
Proof.
  intros w fuel s H. destruct fuel; [reflexivity|]. cbn [pmembers]. rewrite skip_ws_app by assumption. reflexivity.
Qed.

Lemma pvalue_ws1 : forall c fuel s, is_ws c = true -> pvalue fuel (c :: s) = pvalue fuel s.
Proof. intros c fuel s H. apply (pvalue_ws [c]). cbn. rewrite H. reflexivity. Qed.
Lemma pelems_ws1 : forall c fuel s, is_ws c = true -> pelems fuel (c :: s) = pelems fuel s.
Proof. intros c fuel s H. apply (pelems_ws [c]). cbn. rewrite H. reflexivity. Qed.

Lemma safe_ws_app : forall w c r, forallb is_ws w = true -> safe (c :: r) = true -> safe (w ++ c :: r) = true.
Proof.
  intros [|x w] c r H Hs; [exact Hs|].
  cbn [forallb] in H. apply andb_true_iff in H. destruct H as [A _].
  cbn [app safe]. unfold is_ws in A. unfold is_digit.
  destruct (x =? 32) eqn:E1; [apply Z.eqb_eq in E1; subst; reflexivity|].
  destruct (x =? 9) eqn:E2; [apply Z.eqb_eq in E2; subst; reflexivity|].
  destruct (x =? 10) eqn:E3; [apply Z.eqb_eq in E3; subst; reflexivity|].
  destruct (x =? 13) eqn:E4; [apply Z.eqb_eq in E4; subst; reflexivity|]. discriminate.
Qed.

(** what the proofs need to know about one printed value: it parses back in any safe context *)
Definition parses (t : text) (jv : jvalue) : Prop :=
  forall fuel rest, (length t <= fuel)%nat -> safe rest = true -> pvalue fuel (t ++ rest) = Some (jv, rest).

Lemma join_cons2 : forall sep (x y : text) l, join sep (x :: y :: l) = x ++ sep ++ join sep (y :: l).
Proof. reflexivity. Qed.

Lemma pelems_generic : forall (items : list (text * jvalue)), items <> [] ->
  Forall (fun it => parses (fst it) (snd it)) items ->
  forall fuel rest, le (S (length (join [44; 32] (map fst items)))) fuel ->
  pelems fuel (join [44; 32] (map fst items) ++ 93 :: rest) = Some (map snd items, rest).
Proof.
  induction items as [|[tx jx] items IH]; intros Hne HF fuel rest Hfuel; [congruence|].
  inversion HF as [|? ? Hx HF']; subst. cbn [fst snd] in Hx.
  destruct fuel as [|f]; [lia|].
  destruct items as [|[ty jy] items'].
  - cbn [map join fst snd] in *. cbn [pelems].
    rewrite (Hx f (93 :: rest)) by (try reflexivity; lia).
    reflexivity.
  - cbn [map fst snd] in *. rewrite join_cons2 in *. rewrite !app_length in Hfuel. cbn [length] in Hfuel.
    rewrite <- !app_assoc. cbn [pelems].
    rewrite (Hx f ([44; 32] ++ join [44; 32] (ty :: map fst items') ++ 93 :: rest)) by (try reflexivity; lia).
    cbn [app]. rewrite skip_ws_head by reflexivity. change (44 =? 44) with true. cbv iota.
    rewrite pelems_ws1 by reflexivity.
    rewrite (IH ltac:(congruence) HF' f rest) by (cbn [map fst]; lia).
    reflexivity.
Qed.

(** members [k: v] separated by a comma and whitespace [w], closed by whitespace [w2] and a brace *)
Definition member_text (it : text * text * jvalue) : text := pair_text (json_str (fst (fst it))) (snd (fst it)).
Definition member_val (it : text * text * jvalue) : text * jvalue := (fst (fst it), snd it).

Lemma pmembers_generic : forall (w w2 : text), forallb is_ws w = true -> forallb is_ws w2 = true ->
  forall (items : list (text * text * jvalue)), items <> [] ->
  Forall (fun it => valid_text (fst (fst it)) = true /\ parses (snd (fst it)) (snd it)) items ->
  forall fuel rest, le (S (length (join (44 :: w) (map member_text items)))) fuel ->
  pmembers fuel (join (44 :: w) (map member_text items) ++ w2 ++ 125 :: rest) = Some (map member_val items, rest).
Proof.
  intros w w2 Hw Hw2.
  induction items as [|[[k tv] jv] items IH]; intros Hne HF fuel rest Hfuel; [congruence|].
  inversion HF as [|? ? Hx HF']; subst. cbn [fst snd] in Hx. destruct Hx as [Hk Hx].
  destruct fuel as [|f]; [lia|].
  assert (Hclose : safe (w2 ++ 125 :: rest) = true) by (apply safe_ws_app; [assumption|reflexivity]).
  assert (Hstep : forall REST, safe REST = true -> le (length tv) f ->
            pmembers (S f) (member_text (k, tv, jv) ++ REST) =
            match skip_ws REST with
            | c :: r4 =>
              if c =? 44 then match pmembers f r4 with Some (l, r5) => Some ((k, jv) :: l, r5) | None => None end
              else if c =? 125 then Some ([(k, jv)], r4) else None
            | [] => None
            end).
  { intros REST HR Hlen. unfold member_text, pair_text, json_str. cbn [fst snd].
    cbn [app]. rewrite <- !app_assoc. cbn [pmembers app].
    rewrite skip_ws_head by reflexivity. change (negb (34 =? 34)) with false. cbv iota.
    rewrite pstring_json_str by assumption.
    rewrite skip_ws_head by reflexivity. change (negb (58 =? 58)) with false. cbv iota.
    rewrite pvalue_ws1 by reflexivity. rewrite (Hx f REST Hlen HR). reflexivity. }
  destruct items as [|it2 items'].
  - cbn [map join]. cbn [map join] in Hfuel.
    rewrite Hstep; [| assumption |].
    + rewrite skip_ws_app by assumption. rewrite skip_ws_head by reflexivity.
      change (125 =? 44) with false. change (125 =? 125) with true. reflexivity.
    + unfold member_text, pair_text in Hfuel. cbn [fst snd] in Hfuel. rewrite !app_length in Hfuel. lia.
  - cbn [map]. cbn [map] in Hfuel. rewrite join_cons2 in *. rewrite <- !app_assoc.
    rewrite !app_length in Hfuel.
    assert (Hlen : le (length tv) f).
    { unfold member_text, pair_text in Hfuel. cbn [fst snd] in Hfuel. rewrite !app_length in Hfuel. lia. }
    rewrite Hstep; [| reflexivity | assumption].
    cbn [app]. rewrite skip_ws_head by reflexivity. change (44 =? 44) with true. cbv iota.
    rewrite pmembers_ws by assumption.
    change (member_text it2 :: map member_text items') with (map member_text (it2 :: items')).
    rewrite (IH ltac:(congruence) HF' f rest).
    + reflexivity.
    + cbn [map]. cbn [length] in Hfuel. lia.
Qed.

(* ------------------------------------------------------------------ induction principle for constants *)
Section value_ind'.
  Variable P : value -> Prop.
  Hypothesis HInt : forall z, P (VInt z).
  Hypothesis HFloat : forall n ip fp, P (VFloat n ip fp).
  Hypothesis HNonFinite : P VFloatNonFinite.
  Hypothesis HStr : forall s, P (VStr s).
  Hypothesis HBool : forall b, P (VBool b).
  Hypothesis HNone : P VNone.
  Hypothesis HOther : P VOther.
  Hypothesis HList : forall l, Forall P l -> P (VList l).
  Hypothesis HTuple : forall l, Forall P l -> P (VTuple l).
  Hypothesis HRecord : forall l, Forall (fun kv => P (snd kv)) l -> P (VRecord l).
  Hypothesis HDict : forall l, Forall (fun kv => P (fst kv) /\ P (snd kv)) l -> P (VDict l).
  Fixpoint value_ind' (v : value) : P v :=
    match v with
    | VInt z => HInt z
    | VFloat n ip fp => HFloat n ip fp
    | VFloatNonFinite => HNonFinite
    | VStr s => HStr s
    | VBool b => HBool b
    | VNone => HNone
    | VOther => HOther
    | VList l => HList l ((fix go (l : list value) : Forall P l :=
                             match l with [] => Forall_nil _ | x :: r => Forall_cons _ (value_ind' x) (go r) end) l)
    | VTuple l => HTuple l ((fix go (l : list value) : Forall P l :=
                             match l with [] => Forall_nil _ | x :: r => Forall_cons _ (value_ind' x) (go r) end) l)
    | VRecord l => HRecord l ((fix go (l : list (text * value)) : Forall (fun kv => P (snd kv)) l :=
                             match l with [] => Forall_nil _ | x :: r => Forall_cons _ (value_ind' (snd x)) (go r) end) l)
    | VDict l => HDict l ((fix go (l : list (value * value)) : Forall (fun kv => P (fst kv) /\ P (snd kv)) l :=
                             match l with
                             | [] => Forall_nil _
                             | x :: r => Forall_cons _ (conj (value_ind' (fst x)) (value_ind' (snd x))) (go r)
                             end) l)
    end.
End value_ind'.

(** the inner loops of [value_to_json] as stand-alone functions *)
Fixpoint values_json (l : list value) : option (list text) :=
  match l with [] => Some [] | x :: r => opt_cons (value_to_json x) (values_json r) end.
Fixpoint record_json (l : list (text * value)) : option (list text) :=
  match l with
  | [] => Some []
  | (k, x) :: r => opt_cons (option_map (pair_text (json_str k)) (value_to_json x)) (record_json r)
  end.
Fixpoint dict_json (l : list (value * value)) : option (list text) :=
  match l with
  | [] => Some []
  | (VStr k, x) :: r => opt_cons (option_map (pair_text (json_str k)) (value_to_json x)) (dict_json r)
  | _ :: _ => None
  end.
Lemma value_to_json_list : forall l, value_to_json (VList l) =
  match values_json l with Some ts => Some (91 :: join [44; 32] ts ++ [93]) | None => None end.
Proof. reflexivity. Qed.
Lemma value_to_json_tuple : forall l, value_to_json (VTuple l) =
  match values_json l with Some ts => Some (91 :: join [44; 32] ts ++ [93]) | None => None end.
Proof. reflexivity. Qed.
Lemma value_to_json_record : forall l, value_to_json (VRecord l) =
  match record_json l with Some ts => Some (123 :: join [44; 32] ts ++ [125]) | None => None end.
Proof. reflexivity. Qed.
Lemma value_to_json_dict : forall l, value_to_json (VDict l) =
  match dict_json l with Some ts => Some (123 :: join [44; 32] ts ++ [125]) | None => None end.
Proof. reflexivity. Qed.

Definition head_ok (t : text) : bool :=
  match t with c :: _ => negb (is_ws c) && negb (c =? 93) | [] => false end.

Lemma pvalue_number : forall c t rest f, (c = 45 \/ 48 <= c <= 57) ->
  pvalue (S f) ((c :: t) ++ rest) = pnumber ((c :: t) ++ rest).
Proof.
  intros c t rest f Hc. cbn [app pvalue].
  assert (Hws : is_ws c = false).
  { unfold is_ws. repeat (apply orb_false_iff; split); apply Z.eqb_neq; lia. }
  rewrite skip_ws_head by assumption.
  assert (E1 : (c =? 34) = false) by (apply Z.eqb_neq; lia).
  assert (E2 : (c =? 91) = false) by (apply Z.eqb_neq; lia).
  assert (E3 : (c =? 123) = false) by (apply Z.eqb_neq; lia).
  rewrite E1, E2, E3. cbn [strip_prefix].
  assert (E4 : (110 =? c) = false) by (apply Z.eqb_neq; lia).
  assert (E5 : (116 =? c) = false) by (apply Z.eqb_neq; lia).
  assert (E6 : (102 =? c) = false) by (apply Z.eqb_neq; lia).
  rewrite E4, E5, E6. reflexivity.
Qed.

Lemma number_good : forall neg ip fp, canon_digits ip = true -> forallb is_digit_val fp = true ->
  head_ok (float_to_string neg ip fp) = true /\
  parses (float_to_string neg ip fp) (JNum neg (digits_val (ip ++ fp)) (- Z.of_nat (length fp))).
Proof.
  intros neg ip fp Hip Hfp.
  destruct (canon_digits_inv _ Hip) as (Hall & d & r & E & Hd).
  assert (Hdr : 48 <= 48 + d <= 57).
  { unfold is_digit_val in Hd. apply andb_true_iff in Hd. destruct Hd as [A B].
    apply Z.leb_le in A. apply Z.leb_le in B. lia. }
  assert (Hhead : exists c t, float_to_string neg ip fp = c :: t /\ (c = 45 \/ 48 <= c <= 57)).
  { subst ip. unfold float_to_string. destruct neg; cbn [app digit_chars map].
    - eexists _, _. split; [reflexivity|]. left. reflexivity.
    - eexists _, _. split; [reflexivity|]. right. exact Hdr. }
  destruct Hhead as (c & t & Et & Hc).
  split.
  - rewrite Et. cbn [head_ok]. apply andb_true_iff. split; apply negb_true_iff.
    + unfold is_ws. repeat (apply orb_false_iff; split); apply Z.eqb_neq; lia.
    + apply Z.eqb_neq. lia.
  - intros fuel rest Hfuel Hs. destruct fuel as [|f]; [rewrite Et in Hfuel; cbn in Hfuel; lia|].
    rewrite Et. rewrite pvalue_number by assumption. rewrite <- Et. apply pnumber_print; assumption.
Qed.

Lemma int_to_string_float : forall z, int_to_string z = float_to_string (z <? 0) (nat_digits (Z.abs z)) [].
Proof.
  intros z. unfold int_to_string, float_to_string. destruct (z <? 0) eqn:E.
  - apply Z.ltb_lt in E. rewrite Z.abs_neq by lia. cbn [app]. rewrite app_nil_r. reflexivity.
  - apply Z.ltb_ge in E. rewrite Z.abs_eq by lia. cbn [app]. rewrite app_nil_r. reflexivity.
Qed.

(* ------------------------------------------------------------------ printed constants parse back *)
Definition good (v : value) : Prop :=
  wf_value v = true -> forall t, value_to_json v = Some t ->
  head_ok t = true /\ parses t (abs_value v).

Lemma values_items : forall l ts, Forall good l -> forallb wf_value l = true -> values_json l = Some ts ->
  exists items : list (text * jvalue), map fst items = ts /\ map snd items = map abs_value l /\
    Forall (fun it => head_ok (fst it) = true /\ parses (fst it) (snd it)) items.
Proof.
  induction l as [|x l IH]; intros ts HF Hwf Hj.
  - cbn in Hj. inversion Hj. exists []. repeat split; constructor.
  - inversion HF as [|? ? Hx HF']; subst. cbn [forallb] in Hwf. apply andb_true_iff in Hwf. destruct Hwf as [Hw Hwf].
    cbn [values_json] in Hj. destruct (value_to_json x) as [tx|] eqn:Ex; [|discriminate].
    destruct (values_json l) as [ts'|] eqn:El; [|discriminate]. cbn in Hj. inversion Hj; subst.
    destruct (IH ts' HF' Hwf eq_refl) as (items & A & B & C).
    exists ((tx, abs_value x) :: items). cbn [map fst snd]. rewrite A, B. repeat split.
    constructor; [|assumption]. cbn [fst snd]. apply Hx; assumption.
Qed.

Lemma array_parses : forall (items : list (text * jvalue)),
  Forall (fun it => head_ok (fst it) = true /\ parses (fst it) (snd it)) items ->
  parses (91 :: join [44; 32] (map fst items) ++ [93]) (JArr (map snd items)).
Proof.
  intros items HF fuel rest Hfuel Hs.
  destruct fuel as [|f]; [cbn in Hfuel; lia|].
  cbn [length] in Hfuel. rewrite app_length in Hfuel. cbn [length] in Hfuel.
  cbn [app pvalue]. rewrite skip_ws_head by reflexivity.
  change (91 =? 34) with false. change (91 =? 91) with true. cbv iota.
  rewrite <- app_assoc. cbn [app].
  destruct items as [|[tx jx] items'].
  - cbn [map join app]. rewrite skip_ws_head by reflexivity. reflexivity.
  - assert (HF2 : Forall (fun it => parses (fst it) (snd it)) ((tx, jx) :: items')).
    { eapply Forall_impl; [|exact HF]. intros a [_ H]. exact H. }
    inversion HF as [|? ? [Hh _] _]; subst. cbn [fst] in Hh.
    destruct tx as [|c tx']; [discriminate|]. cbn [head_ok] in Hh.
    apply andb_true_iff in Hh. destruct Hh as [Hws H93]. apply negb_true_iff in Hws. apply negb_true_iff in H93.
    assert (Ej : exists J, join [44; 32] (map fst ((c :: tx', jx) :: items')) = c :: J).
    { destruct items'; cbn [map fst join app]; eexists; reflexivity. }
    destruct Ej as [J Ej].
    rewrite Ej at 1. cbn [app]. rewrite skip_ws_head by assumption. rewrite H93.
    assert (Hne : (c :: tx', jx) :: items' <> []) by discriminate.
    match goal with |- match ?X with _ => _ end = _ =>
      assert (HX : X = Some (map snd ((c :: tx', jx) :: items'), rest)) by (apply (pelems_generic _ Hne HF2 f rest); unfold text in *; lia);
      rewrite HX end.
    reflexivity.
Qed.

Lemma object_parses : forall (items : list (text * text * jvalue)),
  Forall (fun it => valid_text (fst (fst it)) = true /\ parses (snd (fst it)) (snd it)) items ->
  parses (123 :: join [44; 32] (map member_text items) ++ [125]) (JObj (map member_val items)).
Proof.
  intros items HF fuel rest Hfuel Hs.
  destruct fuel as [|f]; [cbn in Hfuel; lia|].
  cbn [length] in Hfuel. rewrite app_length in Hfuel. cbn [length] in Hfuel.
  cbn [app pvalue]. rewrite skip_ws_head by reflexivity.
  change (123 =? 34) with false. change (123 =? 91) with false. change (123 =? 123) with true. cbv iota.
  rewrite <- app_assoc. cbn [app].
  destruct items as [|it items'].
  - cbn [map join app]. rewrite skip_ws_head by reflexivity. reflexivity.
  - assert (Ej : exists J, join [44; 32] (map member_text (it :: items')) = 34 :: J).
    { destruct items'; cbn [map join]; unfold member_text at 1, pair_text, json_str; cbn [app];
        eexists; reflexivity. }
    destruct Ej as [J Ej].
    rewrite Ej at 1. cbn [app]. rewrite skip_ws_head by reflexivity. change (34 =? 125) with false. cbv iota.
    assert (Hne : it :: items' <> []) by discriminate.
    match goal with |- match ?X with _ => _ end = _ =>
      assert (HX : X = Some (map member_val (it :: items'), rest))
        by (apply (pmembers_generic [32] [] eq_refl eq_refl _ Hne HF f rest); unfold text in *; lia);
      rewrite HX end.
    reflexivity.
Qed.

Lemma record_items : forall l ts, Forall (fun kv => good (snd kv)) l ->
  forallb (fun kv => valid_text (fst kv) && wf_value (snd kv)) l = true -> record_json l = Some ts ->
  exists items : list (text * text * jvalue), map member_text items = ts /\
    map member_val items = map (fun kv => (fst kv, abs_value (snd kv))) l /\
    Forall (fun it => valid_text (fst (fst it)) = true /\ parses (snd (fst it)) (snd it)) items.
Proof.
  induction l as [|[k x] l IH]; intros ts HF Hwf Hj.
  - cbn in Hj. inversion Hj. exists []. repeat split; constructor.
  - inversion HF as [|? ? Hx HF']; subst. cbn [fst snd] in Hx.
    cbn [forallb fst snd] in Hwf. apply andb_true_iff in Hwf. destruct Hwf as [Hw Hwf].
    apply andb_true_iff in Hw. destruct Hw as [Hk Hw].
    cbn [record_json] in Hj. destruct (value_to_json x) as [tx|] eqn:Ex; [|discriminate].
    destruct (record_json l) as [ts'|] eqn:El; [|discriminate]. cbn in Hj. inversion Hj; subst.
    destruct (IH ts' HF' Hwf eq_refl) as (items & A & B & C).
    exists ((k, tx, abs_value x) :: items). cbn [map]. rewrite A, B. repeat split.
    constructor; [|assumption]. cbn [fst snd]. split; [assumption|]. apply Hx; assumption.
Qed.

Lemma dict_items : forall l ts, Forall (fun kv => good (fst kv) /\ good (snd kv)) l ->
  forallb (fun kv => wf_value (fst kv) && wf_value (snd kv)) l = true -> dict_json l = Some ts ->
  exists items : list (text * text * jvalue), map member_text items = ts /\
    map member_val items = map (fun kv => (key_text (fst kv), abs_value (snd kv))) l /\
    Forall (fun it => valid_text (fst (fst it)) = true /\ parses (snd (fst it)) (snd it)) items.
Proof.
  induction l as [|[k x] l IH]; intros ts HF Hwf Hj.
  - cbn in Hj. inversion Hj. exists []. repeat split; constructor.
  - inversion HF as [|? ? Hx HF']; subst. cbn [fst snd] in Hx. destruct Hx as [_ Hx].
    cbn [forallb fst snd] in Hwf. apply andb_true_iff in Hwf. destruct Hwf as [Hw Hwf].
    apply andb_true_iff in Hw. destruct Hw as [Hk Hw].
    cbn [dict_json] in Hj. destruct k; try discriminate.
    destruct (value_to_json x) as [tx|] eqn:Ex; [|discriminate].
    destruct (dict_json l) as [ts'|] eqn:El; [|discriminate]. cbn in Hj. inversion Hj; subst.
    destruct (IH ts' HF' Hwf eq_refl) as (items & A & B & C).
    exists ((s, tx, abs_value x) :: items). cbn [map]. rewrite A, B. repeat split.
    constructor; [|assumption]. cbn [fst snd]. split; [exact Hk|]. apply Hx; assumption.
Qed.

Lemma value_good : forall v, good v.
Proof.
  induction v using value_ind'; unfold good; intros Hwf t Ht.
  - (* Int *)
    cbn in Ht. inversion Ht; subst. rewrite int_to_string_float.
    destruct (nat_digits_spec (Z.abs z) (Z.abs_nonneg z)) as [Hv Hc].
    destruct (number_good (z <? 0) (nat_digits (Z.abs z)) [] Hc eq_refl) as [A B].
    split; [exact A|]. cbn [abs_value]. rewrite app_nil_r in B. rewrite Hv in B. exact B.
  - (* Float *)
    cbn in Ht. inversion Ht; subst. cbn [wf_value] in Hwf. apply andb_true_iff in Hwf. destruct Hwf as [A B].
    apply number_good; assumption.
  - discriminate.
  - (* Str *)
    cbn in Ht. inversion Ht; subst. split; [reflexivity|].
    intros fuel rest Hfuel Hs. destruct fuel as [|f]; [cbn in Hfuel; lia|].
    unfold json_str. cbn [app pvalue]. rewrite skip_ws_head by reflexivity. change (34 =? 34) with true. cbv iota.
    rewrite <- app_assoc. cbn [app]. rewrite pstring_json_str by exact Hwf. reflexivity.
  - (* Bool *)
    cbn in Ht. inversion Ht; subst. destruct b; (split; [reflexivity|]);
      intros fuel rest Hfuel Hs; (destruct fuel as [|f]; [cbn in Hfuel; lia|]); reflexivity.
  - (* None *)
    cbn in Ht. inversion Ht; subst. split; [reflexivity|].
    intros fuel rest Hfuel Hs. destruct fuel as [|f]; [cbn in Hfuel; lia|]. reflexivity.
  - discriminate.
  - (* List *)
    rewrite value_to_json_list in Ht. destruct (values_json l) as [ts|] eqn:E; [|discriminate]. inversion Ht; subst.
    destruct (values_items l ts H Hwf E) as (items & A & B & C).
    split; [reflexivity|]. cbn [abs_value]. rewrite <- A, <- B. apply array_parses. exact C.
  - (* Tuple *)
    rewrite value_to_json_tuple in Ht. destruct (values_json l) as [ts|] eqn:E; [|discriminate]. inversion Ht; subst.
    destruct (values_items l ts H Hwf E) as (items & A & B & C).
    split; [reflexivity|]. cbn [abs_value]. rewrite <- A, <- B. apply array_parses. exact C.
  - (* Record *)
    rewrite value_to_json_record in Ht. destruct (record_json l) as [ts|] eqn:E; [|discriminate]. inversion Ht; subst.
    destruct (record_items l ts H Hwf E) as (items & A & B & C).
    split; [reflexivity|]. cbn [abs_value]. rewrite <- A, <- B. apply object_parses. exact C.
  - (* Dict *)
    rewrite value_to_json_dict in Ht. destruct (dict_json l) as [ts|] eqn:E; [|discriminate]. inversion Ht; subst.
    destruct (dict_items l ts H Hwf E) as (items & A & B & C).
    split; [reflexivity|]. cbn [abs_value]. rewrite <- A, <- B. apply object_parses. exact C.
Qed.

(* ------------------------------------------------------------------ which constants are printed *)
Ltac optc :=
  split; [ intros Hn; try (exfalso; apply Hn; reflexivity); split; congruence
         | intros [A B]; first [ congruence | exfalso; apply A; reflexivity | exfalso; apply B; reflexivity ] ].

Lemma jsonable_spec : forall v, value_to_json v <> None <-> jsonable v = true.
Proof.
  induction v using value_ind'; cbn [jsonable]; try (cbn; split; congruence).
  - (* List *)
    rewrite value_to_json_list.
    assert (G : values_json l <> None <-> forallb jsonable l = true).
    { induction l as [|x l IHl]; [cbn; split; congruence|].
      inversion H as [|? ? Hx Hl]; subst. specialize (IHl Hl). cbn [values_json forallb].
      rewrite andb_true_iff, <- Hx, <- IHl.
      destruct (value_to_json x), (values_json l); cbn; optc. }
    rewrite <- G. destruct (values_json l); split; congruence.
  - rewrite value_to_json_tuple.
    assert (G : values_json l <> None <-> forallb jsonable l = true).
    { induction l as [|x l IHl]; [cbn; split; congruence|].
      inversion H as [|? ? Hx Hl]; subst. specialize (IHl Hl). cbn [values_json forallb].
      rewrite andb_true_iff, <- Hx, <- IHl.
      destruct (value_to_json x), (values_json l); cbn; optc. }
    rewrite <- G. destruct (values_json l); split; congruence.
  - rewrite value_to_json_record.
    assert (G : record_json l <> None <-> forallb (fun kv => jsonable (snd kv)) l = true).
    { induction l as [|[k x] l IHl]; [cbn; split; congruence|].
      inversion H as [|? ? Hx Hl]; subst. specialize (IHl Hl). cbn [record_json forallb fst snd] in *.
      rewrite andb_true_iff, <- Hx, <- IHl.
      destruct (value_to_json x), (record_json l); cbn; optc. }
    rewrite <- G. destruct (record_json l); split; congruence.
  - rewrite value_to_json_dict.
    assert (G : dict_json l <> None <->
                forallb (fun kv => match fst kv with VStr _ => jsonable (snd kv) | _ => false end) l = true).
    { induction l as [|[k x] l IHl]; [cbn; split; congruence|].
      inversion H as [|? ? [_ Hx] Hl]; subst. specialize (IHl Hl). cbn [dict_json forallb fst snd] in *.
      rewrite andb_true_iff, <- IHl.
      destruct k; try (split; [congruence|intros [? ?]; discriminate]).
      rewrite <- Hx.
      destruct (value_to_json x), (dict_json l); cbn; optc. }
    rewrite <- G. destruct (dict_json l); split; congruence.
Qed.

(* ------------------------------------------------------------------ expressions print as their constants *)
Section expr_ind'.
  Variable P : expr -> Prop.
  Hypothesis HLit : forall tok v, P (ELit tok v).
  Hypothesis HAcc : forall b s, P (EAcc b s).
  Hypothesis HOther : forall v, P (EOther v).
  Hypothesis HList : forall l, Forall P l -> P (EList l).
  Hypothesis HTuple : forall l, Forall P l -> P (ETuple l).
  Hypothesis HRecord : forall l, Forall (fun kv => P (snd kv)) l -> P (ERecord l).
  Hypothesis HDict : forall l, Forall (fun kv => P (fst kv) /\ P (snd kv)) l -> P (EDict l).
  Fixpoint expr_ind' (e : expr) : P e :=
    match e with
    | ELit tok v => HLit tok v
    | EAcc b s => HAcc b s
    | EOther v => HOther v
    | EList l => HList l ((fix go (l : list expr) : Forall P l :=
                             match l with [] => Forall_nil _ | x :: r => Forall_cons _ (expr_ind' x) (go r) end) l)
    | ETuple l => HTuple l ((fix go (l : list expr) : Forall P l :=
                             match l with [] => Forall_nil _ | x :: r => Forall_cons _ (expr_ind' x) (go r) end) l)
    | ERecord l => HRecord l ((fix go (l : list (text * expr)) : Forall (fun kv => P (snd kv)) l :=
                             match l with [] => Forall_nil _ | x :: r => Forall_cons _ (expr_ind' (snd x)) (go r) end) l)
    | EDict l => HDict l ((fix go (l : list (expr * expr)) : Forall (fun kv => P (fst kv) /\ P (snd kv)) l :=
                             match l with
                             | [] => Forall_nil _
                             | x :: r => Forall_cons _ (conj (expr_ind' (fst x)) (expr_ind' (snd x))) (go r)
                             end) l)
    end.
End expr_ind'.

Fixpoint exprs_json (l : list expr) : option (list text) :=
  match l with [] => Some [] | x :: r => opt_cons (transpile_expr x) (exprs_json r) end.
Fixpoint erecord_json (l : list (text * expr)) : option (list text) :=
  match l with
  | [] => Some []
  | (k, x) :: r => opt_cons (option_map (pair_text (json_str k)) (transpile_expr x)) (erecord_json r)
  end.
Fixpoint edict_json (l : list (expr * expr)) : option (list text) :=
  match l with
  | [] => Some []
  | (k, x) :: r => opt_cons (match transpile_expr k, transpile_expr x with
                             | Some a, Some b => Some (pair_text a b) | _, _ => None end) (edict_json r)
  end.

Lemma transpile_expr_value : forall e, wf_expr e = true -> transpile_expr e = value_to_json (expr_val e).
Proof.
  induction e using expr_ind'; intros Hwf.
  - reflexivity.
  - destruct b; [reflexivity|discriminate].
  - destruct v; reflexivity.
  - change (transpile_expr (EList l)) with
      (match exprs_json l with Some ts => Some (91 :: sep_concat ts ++ [93]) | None => None end).
    cbn [expr_val]. rewrite value_to_json_list. cbn [wf_expr] in Hwf.
    assert (G : exprs_json l = values_json (map expr_val l)).
    { induction l as [|x l IHl]; [reflexivity|]. inversion H as [|? ? Hx Hl]; subst.
      cbn [forallb] in Hwf. apply andb_true_iff in Hwf. destruct Hwf as [A B].
      cbn [exprs_json map values_json]. rewrite (Hx A), (IHl Hl B). reflexivity. }
    rewrite G. reflexivity.
  - change (transpile_expr (ETuple l)) with
      (match exprs_json l with Some ts => Some (91 :: sep_concat ts ++ [93]) | None => None end).
    cbn [expr_val]. rewrite value_to_json_tuple. cbn [wf_expr] in Hwf.
    assert (G : exprs_json l = values_json (map expr_val l)).
    { induction l as [|x l IHl]; [reflexivity|]. inversion H as [|? ? Hx Hl]; subst.
      cbn [forallb] in Hwf. apply andb_true_iff in Hwf. destruct Hwf as [A B].
      cbn [exprs_json map values_json]. rewrite (Hx A), (IHl Hl B). reflexivity. }
    rewrite G. reflexivity.
  - change (transpile_expr (ERecord l)) with
      (match erecord_json l with Some ts => Some (123 :: sep_concat ts ++ [125]) | None => None end).
    cbn [expr_val]. rewrite value_to_json_record. cbn [wf_expr] in Hwf.
    assert (G : erecord_json l = record_json (map (fun kv => (fst kv, expr_val (snd kv))) l)).
    { induction l as [|[k x] l IHl]; [reflexivity|]. inversion H as [|? ? Hx Hl]; subst.
      cbn [forallb fst snd] in *. apply andb_true_iff in Hwf. destruct Hwf as [A B].
      cbn [erecord_json map record_json fst snd]. rewrite (Hx A), (IHl Hl B). reflexivity. }
    rewrite G. reflexivity.
  - change (transpile_expr (EDict l)) with
      (match edict_json l with Some ts => Some (123 :: sep_concat ts ++ [125]) | None => None end).
    cbn [expr_val]. rewrite value_to_json_dict. cbn [wf_expr] in Hwf.
    assert (G : edict_json l = dict_json (map (fun kv => (expr_val (fst kv), expr_val (snd kv))) l)).
    { induction l as [|[k x] l IHl]; [reflexivity|]. inversion H as [|? ? [Hk Hx] Hl]; subst.
      cbn [forallb fst snd] in *. apply andb_true_iff in Hwf. destruct Hwf as [A B].
      apply andb_true_iff in A. destruct A as [A A3]. apply andb_true_iff in A. destruct A as [A1 A2].
      cbn [edict_json map dict_json fst snd]. rewrite (Hk A1), (Hx A2), (IHl Hl B).
      destruct (expr_val k); try discriminate. cbn [value_to_json].
      destruct (value_to_json (expr_val x)); reflexivity. }
    rewrite G. reflexivity.
Qed.

(* ------------------------------------------------------------------ modules *)
Fixpoint module_items (m : module) : option (list (text * text * jvalue)) :=
  match m with
  | [] => Some []
  | CDef true name body :: r =>
    match value_to_json (expr_val body), module_items r with
    | Some tv, Some l => Some ((name, tv, abs_value (expr_val body)) :: l)
    | _, _ => None
    end
  | _ :: r => module_items r
  end.

Lemma join_snoc : forall sep (l : list text) x, l <> [] -> join sep (l ++ [x]) = join sep l ++ sep ++ x.
Proof.
  induction l as [|a l IH]; intros x Hne; [congruence|].
  destruct l as [|b l'].
  - reflexivity.
  - change ((a :: b :: l') ++ [x]) with (a :: (b :: l') ++ [x]).
    change (join sep (a :: (b :: l') ++ [x])) with (a ++ sep ++ join sep ((b :: l') ++ [x])).
    rewrite IH by discriminate. rewrite join_cons2. rewrite <- !app_assoc. reflexivity.
Qed.

Lemma member_text_nonempty : forall it, exists J, member_text it = 34 :: J.
Proof. intros it. unfold member_text, pair_text, json_str. cbn [app]. eexists. reflexivity. Qed.

Lemma join_members_nil : forall sep pre, join sep (map member_text pre) = [] -> pre = [].
Proof.
  intros sep [|it pre] H; [reflexivity|]. exfalso.
  destruct (member_text_nonempty it) as [J E]. cbn [map] in H. rewrite E in H.
  destruct (map member_text pre); cbn in H; discriminate.
Qed.

Lemma chunks_items : forall m pre items, wf_module m = true -> module_items m = Some items ->
  transpile_chunks (join [44; 10] (map member_text pre)) m =
  Some (join [44; 10] (map member_text (pre ++ items))).
Proof.
  induction m as [|c m IH]; intros pre items Hwf Hit.
  - cbn in Hit. inversion Hit; subst. rewrite app_nil_r. reflexivity.
  - cbn [wf_module forallb] in Hwf. apply andb_true_iff in Hwf. destruct Hwf as [Hc Hwf].
    destruct c as [pub name body|e]; [|discriminate].
    cbn [wf_chunk] in Hc. apply andb_true_iff in Hc. destruct Hc as [Hc Hv].
    apply andb_true_iff in Hc. destruct Hc as [Hn He].
    destruct pub.
    + cbn [module_items] in Hit.
      destruct (value_to_json (expr_val body)) as [tv|] eqn:Ev; [|discriminate].
      destruct (module_items m) as [l|] eqn:El; [|discriminate]. inversion Hit; subst.
      cbn [transpile_chunks transpile_chunk]. rewrite (transpile_expr_value _ He), Ev. cbn [option_map].
      change (pair_text (json_str name) tv) with (member_text (name, tv, abs_value (expr_val body))).
      set (it := (name, tv, abs_value (expr_val body))).
      destruct (member_text_nonempty it) as [J EJ]. rewrite EJ. cbv iota. rewrite <- EJ.
      destruct (join [44; 10] (map member_text pre)) eqn:Ep.
      * apply join_members_nil in Ep. subst pre. cbn [app].
        change (member_text it) with (join [44; 10] (map member_text [it])) at 1.
        rewrite (IH [it] l Hwf eq_refl). reflexivity.
      * rewrite <- Ep.
        assert (Hpre : pre <> []) by (intro; subst; discriminate).
        assert (E2 : join [44; 10] (map member_text pre) ++ [44; 10] ++ member_text it =
                     join [44; 10] (map member_text (pre ++ [it]))).
        { rewrite map_app. cbn [map]. rewrite join_snoc; [reflexivity|].
          destruct pre; [congruence|discriminate]. }
        rewrite E2. rewrite (IH (pre ++ [it]) l Hwf eq_refl). rewrite <- app_assoc. reflexivity.
    + cbn [module_items] in Hit. cbn [transpile_chunks transpile_chunk]. apply IH; assumption.
Qed.

Lemma module_items_obj : forall m items, wf_module m = true -> module_items m = Some items ->
  map member_val items = module_obj m /\
  Forall (fun it => valid_text (fst (fst it)) = true /\ parses (snd (fst it)) (snd it)) items.
Proof.
  induction m as [|c m IH]; intros items Hwf Hit.
  - cbn in Hit. inversion Hit; subst. split; constructor.
  - cbn [wf_module forallb] in Hwf. apply andb_true_iff in Hwf. destruct Hwf as [Hc Hwf].
    destruct c as [pub name body|e]; [|discriminate].
    cbn [wf_chunk] in Hc. apply andb_true_iff in Hc. destruct Hc as [Hc Hv].
    apply andb_true_iff in Hc. destruct Hc as [Hn He].
    destruct pub; cbn [module_items module_obj] in *.
    + destruct (value_to_json (expr_val body)) as [tv|] eqn:Ev; [|discriminate].
      destruct (module_items m) as [l|] eqn:El; [|discriminate]. inversion Hit; subst.
      destruct (IH l Hwf eq_refl) as [A B]. cbn [map]. rewrite A. split; [reflexivity|].
      constructor; [|assumption]. cbn [fst snd]. split; [assumption|].
      apply (value_good (expr_val body) Hv tv Ev).
    + apply IH; assumption.
Qed.

Lemma module_items_some : forall m, wf_module m = true ->
  (module_items m <> None <-> forallb chunk_jsonable m = true).
Proof.
  induction m as [|c m IH]; intros Hwf; [cbn; split; congruence|].
  cbn [wf_module forallb] in Hwf. apply andb_true_iff in Hwf. destruct Hwf as [Hc Hwf]. specialize (IH Hwf).
  destruct c as [pub name body|e]; [|discriminate].
  destruct pub; cbn [module_items forallb chunk_jsonable].
  - rewrite andb_true_iff, <- IH, <- jsonable_spec.
    destruct (value_to_json (expr_val body)), (module_items m); optc.
  - cbn [andb]. exact IH.
Qed.

Lemma transpile_items : forall m items, wf_module m = true -> module_items m = Some items ->
  transpile m = Some ([123; 10] ++ join [44; 10] (map member_text items) ++ [10; 125]).
Proof.
  intros m items Hwf Hit. unfold transpile.
  change (transpile_chunks [] m) with (transpile_chunks (join [44; 10] (map member_text [])) m).
  rewrite (chunks_items m [] items Hwf Hit). reflexivity.
Qed.

Lemma transpile_none : forall m, wf_module m = true -> module_items m = None -> transpile m = None.
Proof.
  intros m Hwf Hit. unfold transpile.
  assert (G : forall code, transpile_chunks code m = None).
  { induction m as [|c m IH]; intros code; [discriminate|].
    cbn [wf_module forallb] in Hwf. apply andb_true_iff in Hwf. destruct Hwf as [Hc Hwf].
    destruct c as [pub name body|e]; [|discriminate].
    cbn [wf_chunk] in Hc. apply andb_true_iff in Hc. destruct Hc as [Hc Hv].
    apply andb_true_iff in Hc. destruct Hc as [Hn He].
    destruct pub; cbn [module_items transpile_chunks transpile_chunk] in *.
    - rewrite (transpile_expr_value _ He).
      destruct (value_to_json (expr_val body)) as [tv|] eqn:Ev; [|reflexivity]. cbn [option_map].
      destruct (module_items m) eqn:El; [discriminate|].
      destruct (member_text_nonempty (name, tv, JNull)) as [J EJ]. unfold member_text in EJ. cbn [fst snd] in EJ.
      rewrite EJ. apply IH; auto.
    - apply IH; auto. }
  rewrite G. reflexivity.
Qed.

Lemma object_text_parses : forall items : list (text * text * jvalue),
  Forall (fun it => valid_text (fst (fst it)) = true /\ parses (snd (fst it)) (snd it)) items ->
  json_parse ([123; 10] ++ join [44; 10] (map member_text items) ++ [10; 125]) = Some (JObj (map member_val items)).
Proof.
  intros items HF. unfold json_parse.
  set (J := join [44; 10] (map member_text items)).
  cbn [app pvalue]. rewrite (skip_ws_head 123 (10 :: J ++ [10; 125]) eq_refl).
  change (123 =? 34) with false. change (123 =? 91) with false. change (123 =? 123) with true. cbv iota.
  destruct items as [|it items'].
  - reflexivity.
  - assert (Ej : exists J', J = 34 :: J').
    { unfold J. destruct items'; cbn [map join]; unfold member_text at 1, pair_text, json_str; cbn [app];
        eexists; reflexivity. }
    destruct Ej as [J' Ej].
    rewrite Ej at 1. cbn [app]. rewrite skip_ws_ws1 by reflexivity.
    rewrite skip_ws_head by reflexivity. change (34 =? 125) with false. cbv iota.
    assert (Hne : it :: items' <> []) by discriminate.
    match goal with |- match match ?X with _ => _ end with _ => _ end = _ =>
      assert (HX : X = Some (map member_val (it :: items'), [])) end.
    { change (10 :: J ++ [10; 125]) with ([10] ++ J ++ [10] ++ 125 :: []).
      rewrite (pmembers_ws [10]) by reflexivity.
      apply (pmembers_generic [10] [10] eq_refl eq_refl _ Hne HF).
      fold J. cbn [length]. rewrite !app_length. cbn [length]. unfold text in *. lia. }
    rewrite HX. reflexivity.
Qed.

Lemma json_valid_and_faithful_l : forall m, wf_module m = true -> forallb chunk_jsonable m = true ->
  exists t, transpile m = Some t /\ json_denotes t (JObj (module_obj m)).
Proof.
  intros m Hwf Hj. apply (module_items_some m Hwf) in Hj.
  destruct (module_items m) as [items|] eqn:E; [|congruence].
  destruct (module_items_obj m items Hwf E) as [A B].
  eexists. split; [apply (transpile_items m items Hwf E)|].
  unfold json_denotes. rewrite <- A. apply object_text_parses. exact B.
Qed.

Lemma json_declines_iff_l : forall m, wf_module m = true ->
  (transpile m = None <-> forallb chunk_jsonable m = false).
Proof.
  intros m Hwf. pose proof (module_items_some m Hwf) as H.
  destruct (module_items m) as [items|] eqn:E.
  - rewrite (transpile_items m items Hwf E). split; [discriminate|].
    intros Hf. assert (forallb chunk_jsonable m = true) by (apply H; discriminate). congruence.
  - rewrite (transpile_none m Hwf E). split; [|reflexivity]. intros _.
    destruct (forallb chunk_jsonable m); [|reflexivity]. exfalso. apply H; reflexivity.
Qed.

(* ------------------------------------------------------------------ the judge decides the specification *)
Lemma text_eqb_spec : forall a b, text_eqb a b = true <-> a = b.
Proof.
  induction a as [|x a IH]; intros [|y b]; cbn; split; try congruence; try discriminate.
  - intros H. apply andb_true_iff in H. destruct H as [A B]. apply Z.eqb_eq in A. apply IH in B. congruence.
  - intros H. inversion H; subst. apply andb_true_iff. split; [apply Z.eqb_refl|apply IH; reflexivity].
Qed.

Section jvalue_ind'.
  Variable P : jvalue -> Prop.
  Hypothesis HNull : P JNull.
  Hypothesis HBool : forall b, P (JBool b).
  Hypothesis HNum : forall n m e, P (JNum n m e).
  Hypothesis HStr : forall s, P (JStr s).
  Hypothesis HArr : forall l, Forall P l -> P (JArr l).
  Hypothesis HObj : forall l, Forall (fun kv => P (snd kv)) l -> P (JObj l).
  Fixpoint jvalue_ind' (v : jvalue) : P v :=
    match v with
    | JNull => HNull
    | JBool b => HBool b
    | JNum n m e => HNum n m e
    | JStr s => HStr s
    | JArr l => HArr l ((fix go (l : list jvalue) : Forall P l :=
                           match l with [] => Forall_nil _ | x :: r => Forall_cons _ (jvalue_ind' x) (go r) end) l)
    | JObj l => HObj l ((fix go (l : list (text * jvalue)) : Forall (fun kv => P (snd kv)) l :=
                           match l with [] => Forall_nil _ | x :: r => Forall_cons _ (jvalue_ind' (snd x)) (go r) end) l)
    end.
End jvalue_ind'.

Lemma jvalue_eqb_spec : forall a b, jvalue_eqb a b = true <-> a = b.
Proof.
  induction a using jvalue_ind'; intros b0.
  - destruct b0; cbn; split; congruence.
  - destruct b0; cbn; try (split; congruence). rewrite Bool.eqb_true_iff. split; congruence.
  - destruct b0; cbn; try (split; congruence).
    rewrite !andb_true_iff, Bool.eqb_true_iff, !Z.eqb_eq. split; [intros [[? ?] ?]; congruence|].
    intros E; inversion E; auto.
  - destruct b0; cbn; try (split; congruence). rewrite text_eqb_spec. split; congruence.
  - destruct b0 as [| | | |l2|]; try (cbn; split; congruence).
    cbn [jvalue_eqb].
    assert (G : forall l2, (fix go (l1 l2 : list jvalue) : bool :=
                 match l1, l2 with
                 | [], [] => true
                 | x :: r1, y :: r2 => jvalue_eqb x y && go r1 r2
                 | _, _ => false
                 end) l l2 = true <-> l = l2).
    { induction l as [|x l IHl]; intros [|y l2']; try (split; congruence).
      inversion H as [|? ? Hx Hl]; subst. rewrite andb_true_iff, (Hx y), (IHl Hl l2'). split.
      - intros [? ?]; congruence.
      - intros E; inversion E; auto. }
    rewrite G. split; congruence.
  - destruct b0 as [| | | | |l2]; try (cbn; split; congruence).
    cbn [jvalue_eqb].
    assert (G : forall l2, (fix go (l1 l2 : list (text * jvalue)) : bool :=
                 match l1, l2 with
                 | [], [] => true
                 | (k1, x) :: r1, (k2, y) :: r2 => text_eqb k1 k2 && jvalue_eqb x y && go r1 r2
                 | _, _ => false
                 end) l l2 = true <-> l = l2).
    { induction l as [|[k1 x] l IHl]; intros [|[k2 y] l2']; try (split; congruence).
      inversion H as [|? ? Hx Hl]; subst. cbn [snd] in Hx.
      rewrite !andb_true_iff, text_eqb_spec, (Hx y), (IHl Hl l2'). split.
      - intros [[? ?] ?]; congruence.
      - intros E; inversion E; auto. }
    rewrite G. split; congruence.
Qed.

Lemma judge_spec_l : forall m out, judge m out = true <-> json_denotes out (JObj (module_obj m)).
Proof.
  intros m out. unfold judge, json_denotes. destruct (json_parse out) as [v|].
  - rewrite jvalue_eqb_spec. split; congruence.
  - split; discriminate.
Qed.

(* ------------------------------------------------------------------ strings, stated on their own *)
Lemma json_str_roundtrip_l : forall s, valid_text s = true -> json_parse (json_str s) = Some (JStr s).
Proof.
  intros s Hv. destruct (value_good (VStr s) Hv (json_str s) eq_refl) as [_ P].
  unfold json_parse. specialize (P (S (length (json_str s))) [] ltac:(lia) eq_refl).
  rewrite app_nil_r in P. rewrite P. reflexivity.
Qed.

(* ------------------------------------------------------------------ the code as found: refuted *)
Definition w_bool : module := [CDef true [98] (ELit [84; 114; 117; 101] (VBool true))].
Definition w_none : module := [CDef true [110] (ELit [78; 111; 110; 101] VNone)].
Definition w_quote : module := [CDef true [115] (ELit [34; 113; 34; 120; 34] (VStr [113; 34; 120]))].
Definition w_underscore : module := [CDef true [97] (ELit [49; 95; 48; 48; 48] (VInt 1000))].
Definition w_private : module := [CDef true [97] (ELit [49] (VInt 1)); CDef false [98] (ELit [50] (VInt 2))].

Definition refuted_by (m : module) : Prop :=
  wf_module m = true /\ forallb chunk_jsonable m = true /\
  exists t, transpile_nofix m = Some t /\ json_parse t = None.

Lemma nofix_refuted_l : refuted_by w_bool /\ refuted_by w_none /\ refuted_by w_quote /\
  refuted_by w_underscore /\ refuted_by w_private.
Proof.
  assert (G : forall m t, wf_module m = true -> forallb chunk_jsonable m = true ->
             transpile_nofix m = Some t -> json_parse t = None -> refuted_by m).
  { intros m t A B C D. split; [exact A|]. split; [exact B|]. exists t. split; assumption. }
  split; [|split; [|split; [|split]]].
  - apply (G w_bool [123; 10; 34; 98; 34; 58; 32; 84; 114; 117; 101; 10; 125]); vm_compute; reflexivity.
  - apply (G w_none [123; 10; 34; 110; 34; 58; 32; 78; 111; 110; 101; 10; 125]); vm_compute; reflexivity.
  - apply (G w_quote [123; 10; 34; 115; 34; 58; 32; 34; 113; 34; 120; 34; 10; 125]); vm_compute; reflexivity.
  - apply (G w_underscore [123; 10; 34; 97; 34; 58; 32; 49; 95; 48; 48; 48; 10; 125]); vm_compute; reflexivity.
  - apply (G w_private [123; 10; 34; 97; 34; 58; 32; 49; 44; 10; 10; 125]); vm_compute; reflexivity.
Qed.
