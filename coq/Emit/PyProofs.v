(** C17 — proofs for the literal and name printers *)
From Coq Require Import ZArith List Bool Lia.
From ErgV Require Import Emit.Text Emit.TextProofs Emit.Py Emit.PySpec.
Import ListNotations.
Open Scope Z_scope.

(* ------------------------------------------------------------------ replace chains are character-wise *)
Lemma replace_char_app : forall c to a b, replace_char c to (a ++ b) = replace_char c to a ++ replace_char c to b.
Proof. intros. unfold replace_char. apply flat_map_app. Qed.

Lemma replace_char_flat_map : forall c to (f : Z -> text) s,
  replace_char c to (flat_map f s) = flat_map (fun x => replace_char c to (f x)) s.
Proof.
  induction s as [|x s IH]; [reflexivity|]. cbn [flat_map]. rewrite replace_char_app, IH. reflexivity.
Qed.

Lemma flat_map_ext' : forall (f g : Z -> text) s, (forall x, f x = g x) -> flat_map f s = flat_map g s.
Proof. intros f g s H. induction s as [|x s IH]; [reflexivity|]. cbn. rewrite H, IH. reflexivity. Qed.

Lemma flat_map_single : forall s : text, flat_map (fun x => [x]) s = s.
Proof. induction s as [|x s IH]; [reflexivity|]. cbn. rewrite IH. reflexivity. Qed.

(** what escape_str does to one character *)
Definition esc_char (c : Z) : text :=
  if c =? 92 then [92; 92] else if c =? 34 then [92; 34] else if c =? 10 then [92; 110]
  else if c =? 13 then [92; 114] else if c =? 9 then [92; 116] else if c =? 0 then [92; 120; 48; 48] else [c].

Lemma replace_char_single : forall c to x, replace_char c to [x] = if x =? c then to else [x].
Proof. intros. unfold replace_char. cbn. rewrite app_nil_r. reflexivity. Qed.

Lemma escape_str_chars : forall s, escape_str s = flat_map esc_char s.
Proof.
  intros s. unfold escape_str.
  rewrite <- (flat_map_single s) at 1.
  rewrite !replace_char_flat_map. apply flat_map_ext'. intros x.
  unfold esc_char. rewrite replace_char_single.
  destruct (x =? 92) eqn:E92; [reflexivity|].
  rewrite replace_char_single. destruct (x =? 34) eqn:E34; [reflexivity|].
  rewrite replace_char_single. destruct (x =? 10) eqn:E10; [reflexivity|].
  rewrite replace_char_single. destruct (x =? 13) eqn:E13; [reflexivity|].
  rewrite replace_char_single. destruct (x =? 9) eqn:E9; [reflexivity|].
  rewrite replace_char_single. destruct (x =? 0) eqn:E0; reflexivity.
Qed.

(* ------------------------------------------------------------------ the literal parses back *)
Lemma py_body_esc : forall s rest, py_body (flat_map esc_char s ++ 34 :: rest) = Some (s, rest).
Proof.
  induction s as [|c s IH]; intros rest; [reflexivity|].
  cbn [flat_map]. rewrite <- app_assoc. unfold esc_char at 1.
  destruct (c =? 92) eqn:E92.
  { apply Z.eqb_eq in E92. subst. cbn [app]. change (py_body (92 :: 92 :: ?x)) with (ocons 92 (py_body x)).
    cbn [py_body]. change (92 =? 34) with false. cbn. rewrite IH. reflexivity. }
  destruct (c =? 34) eqn:E34.
  { apply Z.eqb_eq in E34. subst. cbn [app py_body]. cbn. rewrite IH. reflexivity. }
  destruct (c =? 10) eqn:E10.
  { apply Z.eqb_eq in E10. subst. cbn [app py_body]. cbn. rewrite IH. reflexivity. }
  destruct (c =? 13) eqn:E13.
  { apply Z.eqb_eq in E13. subst. cbn [app py_body]. cbn. rewrite IH. reflexivity. }
  destruct (c =? 9) eqn:E9.
  { apply Z.eqb_eq in E9. subst. cbn [app py_body]. cbn. rewrite IH. reflexivity. }
  destruct (c =? 0) eqn:E0.
  { apply Z.eqb_eq in E0. subst. cbn [app py_body]. cbn. rewrite IH. reflexivity. }
  cbn [app py_body]. rewrite E34, E10, E13, E0, E92. cbn [orb negb]. rewrite IH. reflexivity.
Qed.

Lemma str_lit_roundtrip_l : forall tok s, py_lit_denotes (transpile_lit tok (LStr s)) s.
Proof.
  intros tok s. unfold py_lit_denotes, py_lit_parse, transpile_lit.
  cbn [app strip_prefix]. change (83 =? 83) with true. change (116 =? 116) with true.
  change (114 =? 114) with true. change (40 =? 40) with true. cbv iota.
  change (34 =? 34) with true. cbv iota.
  rewrite escape_str_chars, py_body_esc. reflexivity.
Qed.

Lemma str_body_roundtrip_l : forall s, py_str_lit_denotes (34 :: escape_str s ++ [34]) s.
Proof.
  intros s. unfold py_str_lit_denotes, py_str_parse. change (34 =? 34) with true. cbv iota.
  rewrite escape_str_chars, py_body_esc. reflexivity.
Qed.

(** the code as found: the literal for a string with a quotation mark or a backslash does not denote it *)
Definition w_c17 : text := [97; 34; 98; 92; 99].          (* a, quotation mark, b, backslash, c *)
Lemma str_lit_nofix_refuted_l :
  py_lit_parse (transpile_lit_nofix (34 :: w_c17 ++ [34]) (LStr w_c17)) <> Some w_c17.
Proof. vm_compute. discriminate. Qed.

(* ------------------------------------------------------------------ names *)
Definition rns1 (x : Z) : text := replace_non_symbolic [x].

Lemma rns_chars : forall s, replace_non_symbolic s = flat_map rns1 s.
Proof.
  intros s. unfold rns1, replace_non_symbolic.
  rewrite <- (flat_map_single s) at 1.
  rewrite !replace_char_flat_map. apply flat_map_ext'. intros x. reflexivity.
Qed.

Lemma is_alnum_range : forall c, is_alnum c = true -> (48 <= c <= 57) \/ (97 <= c <= 122) \/ (65 <= c <= 90).
Proof.
  intros c H. unfold is_alnum in H.
  apply orb_true_iff in H. destruct H as [H|H]; [apply orb_true_iff in H; destruct H as [H|H]|];
    apply andb_true_iff in H; destruct H as [A B]; apply Z.leb_le in A; apply Z.leb_le in B; lia.
Qed.

Lemma rns1_alnum : forall c, is_alnum c = true -> rns1 c = [c].
Proof.
  intros c H. apply is_alnum_range in H. unfold rns1, replace_non_symbolic.
  repeat (rewrite replace_char_single;
          match goal with |- context [c =? ?k] => replace (c =? k) with false by (symmetry; apply Z.eqb_neq; lia) end).
  reflexivity.
Qed.

Definition proc_text : text := [95; 95; 101; 114; 103; 95; 112; 114; 111; 99; 95; 95].
Lemma rns_plain : forall base (proc : bool), forallb is_alnum base = true ->
  replace_non_symbolic (base ++ if proc then [33] else []) = base ++ if proc then proc_text else [].
Proof.
  intros base proc H. rewrite rns_chars, flat_map_app.
  assert (G : flat_map rns1 base = base).
  { induction base as [|c b IH]; [reflexivity|]. cbn [forallb] in H. apply andb_true_iff in H. destruct H as [A B].
    cbn [flat_map]. rewrite (rns1_alnum c A), (IH B). reflexivity. }
  rewrite G. destruct proc; reflexivity.
Qed.

Definition no95 (s : text) : bool := forallb (fun c => negb (c =? 95)) s.
Definition tail95 (t : text) : Prop := t = [] \/ exists r, t = 95 :: r.

Lemma split_no95 : forall b1 b2 t1 t2, no95 b1 = true -> no95 b2 = true -> tail95 t1 -> tail95 t2 ->
  b1 ++ t1 = b2 ++ t2 -> b1 = b2 /\ t1 = t2.
Proof.
  induction b1 as [|x b1 IH]; intros [|y b2] t1 t2 H1 H2 T1 T2 E.
  - auto.
  - cbn in E. cbn in H2. apply andb_true_iff in H2. destruct H2 as [Hy _]. apply negb_true_iff in Hy.
    apply Z.eqb_neq in Hy. destruct T1 as [->|[r ->]]; [discriminate|]. inversion E. congruence.
  - cbn in E. cbn in H1. apply andb_true_iff in H1. destruct H1 as [Hx _]. apply negb_true_iff in Hx.
    apply Z.eqb_neq in Hx. destruct T2 as [->|[r ->]]; [discriminate|]. inversion E. congruence.
  - cbn in E. inversion E; subst. cbn in H1, H2. apply andb_true_iff in H1. apply andb_true_iff in H2.
    destruct (IH b2 t1 t2) as [A B]; try tauto. subst. auto.
Qed.

Lemma alnum_no95 : forall b, forallb is_alnum b = true -> no95 b = true.
Proof.
  induction b as [|c b IH]; intros H; [reflexivity|]. cbn [forallb] in H. apply andb_true_iff in H. destruct H as [A B].
  unfold no95 in *. cbn [forallb]. rewrite (IH B). apply is_alnum_range in A.
  replace (c =? 95) with false by (symmetry; apply Z.eqb_neq; lia). reflexivity.
Qed.

Lemma digit_chars_no95 : forall ds, forallb is_digit_val ds = true -> no95 (digit_chars ds) = true.
Proof.
  induction ds as [|d ds IH]; intros H; [reflexivity|]. cbn [forallb] in H. apply andb_true_iff in H. destruct H as [A B].
  unfold no95 in *. cbn [digit_chars map forallb]. fold (digit_chars ds). rewrite (IH B). unfold is_digit_val in A. apply andb_true_iff in A. destruct A as [A1 A2].
  apply Z.leb_le in A1. apply Z.leb_le in A2.
  replace (48 + d =? 95) with false by (symmetry; apply Z.eqb_neq; lia). reflexivity.
Qed.

Lemma digit_chars_inj : forall a b, digit_chars a = digit_chars b -> a = b.
Proof.
  induction a as [|x a IH]; intros [|y b] H; try discriminate; [reflexivity|].
  cbn [digit_chars map] in H. assert (Hx : 48 + x = 48 + y) by congruence.
  assert (Hr : map (fun d => 48 + d) a = map (fun d => 48 + d) b) by congruence.
  f_equal; [lia|apply IH; exact Hr].
Qed.

Lemma dec_string : forall n, 0 <= n -> int_to_string n = digit_chars (nat_digits n) /\
  no95 (int_to_string n) = true.
Proof.
  intros n Hn. unfold int_to_string. replace (n <? 0) with false by (symmetry; apply Z.ltb_ge; lia).
  split; [reflexivity|]. apply digit_chars_no95.
  destruct (nat_digits_spec n Hn) as [_ C]. unfold canon_digits in C. apply andb_true_iff in C. tauto.
Qed.

Lemma dec_string_inj : forall n m, 0 <= n -> 0 <= m -> int_to_string n = int_to_string m -> n = m.
Proof.
  intros n m Hn Hm E. destruct (dec_string n Hn) as [A _]. destruct (dec_string m Hm) as [B _].
  rewrite A, B in E. apply digit_chars_inj in E.
  destruct (nat_digits_spec n Hn) as [V1 _]. destruct (nat_digits_spec m Hm) as [V2 _]. congruence.
Qed.

(** the position suffix of a private variable defined at line >= 1 *)
Definition suffix (line col : Z) : text :=
  [95; 76] ++ int_to_string line ++ if col =? 0 then [] else [95; 67] ++ int_to_string col.

Lemma mangle_plain : forall e, plain e = true ->
  mangle e = e_base e ++ ((if e_proc e then proc_text else []) ++
                          if e_public e then [] else suffix (e_line e) (e_col e)).
Proof.
  intros [pub base proc line col] H. unfold plain in H. cbn [e_public e_base e_proc e_line e_col] in *.
  apply andb_true_iff in H. destruct H as [H Hpos]. apply andb_true_iff in H. destruct H as [Hal Hne].
  unfold mangle, transpile_name, e_name. cbn [e_public e_base e_proc e_line e_col].
  rewrite (rns_plain base proc Hal).
  assert (Hu : text_eqb (base ++ (if proc then proc_text else [])) [95] = false).
  { destruct base as [|c b]; [discriminate|]. cbn in Hal. apply andb_true_iff in Hal. destruct Hal as [A _].
    apply is_alnum_range in A. cbn [app text_eqb].
    replace (c =? 95) with false by (symmetry; apply Z.eqb_neq; lia). reflexivity. }
  rewrite Hu. destruct pub; cbn [orb].
  - rewrite app_nil_r. reflexivity.
  - cbn [orb] in Hpos. apply andb_true_iff in Hpos. destruct Hpos as [Hl Hc]. apply Z.leb_le in Hl.
    replace (line =? 0) with false by (symmetry; apply Z.eqb_neq; lia). cbn [andb].
    unfold suffix. rewrite <- app_assoc. destruct (col =? 0); [rewrite app_nil_r|]; reflexivity.
Qed.

Lemma suffix_inj : forall l1 c1 l2 c2, 1 <= l1 -> 0 <= c1 -> 1 <= l2 -> 0 <= c2 ->
  suffix l1 c1 = suffix l2 c2 -> l1 = l2 /\ c1 = c2.
Proof.
  intros l1 c1 l2 c2 H1 H2 H3 H4 E. unfold suffix in E. cbn [app] in E. inversion E as [E'].
  destruct (dec_string l1 ltac:(lia)) as [_ N1]. destruct (dec_string l2 ltac:(lia)) as [_ N2].
  assert (T1 : tail95 (if c1 =? 0 then [] else 95 :: 67 :: int_to_string c1)).
  { destruct (c1 =? 0); [left; reflexivity|right; eexists; reflexivity]. }
  assert (T2 : tail95 (if c2 =? 0 then [] else 95 :: 67 :: int_to_string c2)).
  { destruct (c2 =? 0); [left; reflexivity|right; eexists; reflexivity]. }
  destruct (split_no95 _ _ _ _ N1 N2 T1 T2 E') as [A B].
  split; [apply dec_string_inj; auto; lia|].
  destruct (c1 =? 0) eqn:Z1, (c2 =? 0) eqn:Z2; try discriminate.
  - apply Z.eqb_eq in Z1. apply Z.eqb_eq in Z2. lia.
  - inversion B. apply dec_string_inj; auto.
Qed.

Lemma mangle_injective_partial_l : forall a b, plain a = true -> plain b = true ->
  mangle a = mangle b -> same_var a b.
Proof.
  intros a b Pa Pb E. rewrite (mangle_plain a Pa), (mangle_plain b Pb) in E.
  destruct a as [pa ba ra la ca], b as [pb bb rb lb cb]. unfold plain in Pa, Pb.
  cbn [e_public e_base e_proc e_line e_col] in *.
  apply andb_true_iff in Pa. destruct Pa as [Pa Pa3]. apply andb_true_iff in Pa. destruct Pa as [Pa1 Pa2].
  apply andb_true_iff in Pb. destruct Pb as [Pb Pb3]. apply andb_true_iff in Pb. destruct Pb as [Pb1 Pb2].
  assert (Ta : tail95 ((if ra then proc_text else []) ++ (if pa then [] else suffix la ca))).
  { destruct ra; [right; eexists; reflexivity|]. destruct pa; [left; reflexivity|right; eexists; reflexivity]. }
  assert (Tb : tail95 ((if rb then proc_text else []) ++ (if pb then [] else suffix lb cb))).
  { destruct rb; [right; eexists; reflexivity|]. destruct pb; [left; reflexivity|right; eexists; reflexivity]. }
  destruct (split_no95 _ _ _ _ (alnum_no95 _ Pa1) (alnum_no95 _ Pb1) Ta Tb E) as [Eb Et]. subst bb.
  assert (Hr : ra = rb /\ (if pa then [] else suffix la ca) = (if pb then [] else suffix lb cb)).
  { destruct ra, rb.
    - split; [reflexivity|]. apply app_inv_head in Et. exact Et.
    - exfalso. destruct pb; cbn in Et; [discriminate|]. unfold suffix in Et. cbn in Et. discriminate.
    - exfalso. destruct pa; cbn in Et; [discriminate|]. unfold suffix in Et. cbn in Et. discriminate.
    - split; [reflexivity|exact Et]. }
  destruct Hr as [-> Es]. unfold same_var, e_name. cbn [e_public e_base e_proc e_line e_col].
  destruct pa, pb; try (unfold suffix in Es; cbn in Es; discriminate).
  - repeat split; discriminate.
  - cbn [orb] in Pa3, Pb3. apply andb_true_iff in Pa3. apply andb_true_iff in Pb3.
    destruct Pa3 as [A1 A2], Pb3 as [B1 B2]. apply Z.leb_le in A1, A2, B1, B2.
    destruct (suffix_inj la ca lb cb A1 A2 B1 B2 Es). repeat split; auto.
Qed.

(** outside the fragment mangling is not injective: the public name x_L1 and the private x defined at line 1,
    column 0; a procedure f! and a variable f__erg_proc__ defined at the same place *)
Definition n_pub_xL1 : ename := {| e_public := true; e_base := [120; 95; 76; 49]; e_proc := false; e_line := 2; e_col := 1 |}.
Definition n_priv_x : ename := {| e_public := false; e_base := [120]; e_proc := false; e_line := 1; e_col := 0 |}.
Lemma mangle_refuted_l : ~ same_var n_pub_xL1 n_priv_x /\ mangle n_pub_xL1 = mangle n_priv_x /\
  Known_C17_mangle [n_pub_xL1; n_priv_x] = true.
Proof.
  split; [|split; vm_compute; reflexivity]. unfold same_var. cbn. intros [H _]. discriminate.
Qed.
