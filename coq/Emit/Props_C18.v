(** C18 — property theorems (statements only; proofs are in JsonProofs.v).

    Model: Emit/Json.v ([transpile] = JsonGenerator as it is now, [transpile_nofix] = as it was found).
    Specification: Emit/JsonSpec.v ([json_parse], the RFC 8259 grammar; [json_denotes t v := json_parse t = Some v];
    [module_obj m] = the object mapping every public binding to the JSON value of its constant). *)
From Coq Require Import ZArith List Bool.
From ErgV Require Import Emit.Text Emit.Json Emit.JsonSpec Emit.JsonProofs.
Import ListNotations.
Open Scope Z_scope.

(** The property. For EVERY module of bindings (public or private, in any order) whose initialisers are
    constants of the listed kinds — numbers, strings over all code points, booleans, None, lists, tuples,
    records, string-keyed dicts, nested without bound, also reached through a bound name — and have a JSON
    form ([chunk_jsonable]: floats finite), the generator produces a text, that text is a JSON text in the
    sense of RFC 8259, and it denotes exactly the object { name_i : value_i } of the public bindings. *)
Theorem json_valid_and_faithful : forall m,
  wf_module m = true -> forallb chunk_jsonable m = true ->
  exists t, transpile m = Some t /\ json_denotes t (JObj (module_obj m)).
Proof. exact json_valid_and_faithful_l. Qed.

(** The generator declines (NotConstExpr error, no output) exactly when some public binding has no JSON form
    (non-finite float, type/function, non-string key inside a bound constant). *)
Theorem json_declines_iff : forall m, wf_module m = true ->
  (transpile m = None <-> forallb chunk_jsonable m = false).
Proof. exact json_declines_iff_l. Qed.

(** Strings on their own: every string over all code points (quotes, backslashes, control characters,
    non-BMP) is printed as a JSON string denoting exactly that string. *)
Theorem json_str_roundtrip : forall s, valid_text s = true -> json_denotes (json_str s) (JStr s).
Proof. exact json_str_roundtrip_l. Qed.

(** The executable judge used by the check decides the specification. *)
Theorem judge_spec : forall m out, judge m out = true <-> json_denotes out (JObj (module_obj m)).
Proof. exact judge_spec_l. Qed.

(** The code as it was found violates the property: a boolean, None, a string containing a quote, a number
    written with an underscore, and a module ending in a private binding each give a text that is not JSON
    (replayed against the implementation: /verif/known/C18.json). *)
Theorem json_nofix_refuted :
  refuted_by w_bool /\ refuted_by w_none /\ refuted_by w_quote /\ refuted_by w_underscore /\ refuted_by w_private.
Proof. exact nofix_refuted_l. Qed.

(** non-vacuity: a module with a private binding, a string with quote, backslash, newline and a non-BMP
    character, a negative float, a nested record/list/tuple/dict and a reference to a bound constant meets
    the hypotheses, is printed, and the judge accepts the output *)
Definition ex_module : module :=
  [ CDef false [112] (ELit [49] (VInt 1));
    CDef true [115] (ELit [] (VStr [97; 34; 92; 10; 128512; 0]));
    CDef true [102] (ELit [] (VFloat true [1; 0] [2; 5]));
    CDef true [114] (ERecord [([120], EList [ETuple [ELit [] (VBool true); ELit [] VNone]; ETuple []]);
                              ([100], EDict [(ELit [] (VStr [107; 34]), ELit [] (VInt (-7)))])]);
    CDef true [113] (EAcc (Some (VTuple [VInt 0; VRecord [([97], VStr [9])]])) [112]);
    CDef false [122] (ELit [] VFloatNonFinite) ].
Example ex_module_ok :
  wf_module ex_module = true /\ forallb chunk_jsonable ex_module = true /\
  match transpile ex_module with Some t => judge ex_module t = true | None => False end.
Proof. vm_compute. repeat split; reflexivity. Qed.

Example ex_declined : wf_module [CDef true [120] (ELit [] VFloatNonFinite)] = true /\
  transpile [CDef true [120] (ELit [] VFloatNonFinite)] = None.
Proof. vm_compute. split; reflexivity. Qed.

(** The known-finding class is not empty and is exactly "begins or ends with two quotation marks" on the
    witnesses; ordinary strings (also with one quote at an end, or quotes inside) are outside it. *)
Example known_class_examples :
  known_c18_str [97; 34; 34] = true /\ known_c18_str [34; 34; 120] = true /\ known_c18_str [34] = true /\
  known_c18_str [97; 34] = false /\ known_c18_str [34; 97; 34; 98; 34] = false /\ known_c18_str [] = false.
Proof. vm_compute. repeat split; reflexivity. Qed.
