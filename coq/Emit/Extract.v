(** extraction entry point for the Emit theme (C18 JSON target, C17 Python target)

    wire format (ErgV.Common.Sx): strings are lists of code points.
      value  := (0 z) | (1 neg ip fp) | (2) | (3 s) | (4 b) | (5) | (6) | (7 (v..)) | (8 (v..)) | (9 ((k v)..)) | (10 ((kv v)..))
      expr   := (0 tok value) | (1 (value)? shown) | (2 (e..)) | (3 (e..)) | (4 ((name e)..)) | (5 ((ke ve)..)) | (6 (value)?)
      chunk  := (0 public name expr) | (1 expr)
      jvalue := (0) | (1 b) | (2 neg mant exp10) | (3 s) | (4 (j..)) | (5 ((k j)..))
    requests:
      (0 module)        -> (1 text) | (0)            transpile (code as it is now)
      (1 text)          -> (1 jvalue) | (0)          json_parse (the specification / judge)
      (2 module)        -> (1 text) | (0)            transpile_nofix (code as found)
      (3 module text)   -> 0|1                       judge
      (4 module)        -> (wf jsonable jvalue known) wf_module, all chunk_jsonable, module_obj, Known_C18
    C17 (litkind: 0 Str with value s | 1 Bool | 2 Int | 3 Nat | 4 Float | 5 other; ename := (public base proc line col)):
      (10 tok litkind s) -> text                     transpile_lit
      (11 text)          -> (1 s) | (0)              py_str_parse (one double-quoted Python short string literal)
      (12 text)          -> (1 s) | (0)              py_lit_parse (the call Str(<literal>))
      (13 public name (pyname)? line col) -> text    transpile_name
      (14 (ename..))     -> 0|1                      Known_C17_mangle
      (15 tok litkind s) -> text                     transpile_lit_nofix *)
From Coq Require Import ZArith List Bool.
From ErgV Require Import Common.Sx Emit.Text Emit.Json Emit.JsonSpec Emit.Py Emit.PySpec.
Import ListNotations.
Open Scope Z_scope.

Definition sx_opt {A} (f : sx -> A) (x : sx) : option A :=
  match sx_l x with [] => None | y :: _ => Some (f y) end.

Fixpoint dec_value (fuel : nat) (x : sx) : value :=
  match fuel with
  | O => VOther
  | S f =>
    let k := sx_z (sx_nth x 0) in
    if k =? 0 then VInt (sx_z (sx_nth x 1))
    else if k =? 1 then VFloat (sx_to_bool (sx_nth x 1)) (sx_zs (sx_nth x 2)) (sx_zs (sx_nth x 3))
    else if k =? 2 then VFloatNonFinite
    else if k =? 3 then VStr (sx_zs (sx_nth x 1))
    else if k =? 4 then VBool (sx_to_bool (sx_nth x 1))
    else if k =? 5 then VNone
    else if k =? 7 then VList (map (dec_value f) (sx_l (sx_nth x 1)))
    else if k =? 8 then VTuple (map (dec_value f) (sx_l (sx_nth x 1)))
    else if k =? 9 then VRecord (map (fun kv => (sx_zs (sx_nth kv 0), dec_value f (sx_nth kv 1))) (sx_l (sx_nth x 1)))
    else if k =? 10 then VDict (map (fun kv => (dec_value f (sx_nth kv 0), dec_value f (sx_nth kv 1))) (sx_l (sx_nth x 1)))
    else VOther
  end.

Fixpoint dec_expr (fuel : nat) (x : sx) : expr :=
  match fuel with
  | O => EOther None
  | S f =>
    let k := sx_z (sx_nth x 0) in
    if k =? 0 then ELit (sx_zs (sx_nth x 1)) (dec_value 100 (sx_nth x 2))
    else if k =? 1 then EAcc (sx_opt (dec_value 100) (sx_nth x 1)) (sx_zs (sx_nth x 2))
    else if k =? 2 then EList (map (dec_expr f) (sx_l (sx_nth x 1)))
    else if k =? 3 then ETuple (map (dec_expr f) (sx_l (sx_nth x 1)))
    else if k =? 4 then ERecord (map (fun kv => (sx_zs (sx_nth kv 0), dec_expr f (sx_nth kv 1))) (sx_l (sx_nth x 1)))
    else if k =? 5 then EDict (map (fun kv => (dec_expr f (sx_nth kv 0), dec_expr f (sx_nth kv 1))) (sx_l (sx_nth x 1)))
    else EOther (sx_opt (dec_value 100) (sx_nth x 1))
  end.

Definition dec_chunk (x : sx) : chunk :=
  if sx_z (sx_nth x 0) =? 0
  then CDef (sx_to_bool (sx_nth x 1)) (sx_zs (sx_nth x 2)) (dec_expr 100 (sx_nth x 3))
  else CExpr (dec_expr 100 (sx_nth x 1)).
Definition dec_module (x : sx) : module := map dec_chunk (sx_l x).

Fixpoint enc_jvalue (j : jvalue) : sx :=
  match j with
  | JNull => SL [SZ 0]
  | JBool b => SL [SZ 1; sx_bool b]
  | JNum n m e => SL [SZ 2; sx_bool n; SZ m; SZ e]
  | JStr s => SL [SZ 3; sx_of_zs s]
  | JArr l => SL [SZ 4; SL ((fix go (l : list jvalue) : list sx :=
                               match l with [] => [] | x :: r => enc_jvalue x :: go r end) l)]
  | JObj l => SL [SZ 5; SL ((fix go (l : list (text * jvalue)) : list sx :=
                               match l with [] => [] | (k, x) :: r => SL [sx_of_zs k; enc_jvalue x] :: go r end) l)]
  end.

Definition enc_otext (o : option text) : sx :=
  match o with Some t => SL [SZ 1; sx_of_zs t] | None => SL [SZ 0] end.

Definition run_json (mode : Z) (x : sx) : sx :=
  if mode =? 0 then enc_otext (transpile (dec_module (sx_nth x 1)))
  else if mode =? 1 then
    match json_parse (sx_zs (sx_nth x 1)) with Some j => SL [SZ 1; enc_jvalue j] | None => SL [SZ 0] end
  else if mode =? 2 then enc_otext (transpile_nofix (dec_module (sx_nth x 1)))
  else if mode =? 3 then sx_bool (judge (dec_module (sx_nth x 1)) (sx_zs (sx_nth x 2)))
  else let m := dec_module (sx_nth x 1) in
       SL [sx_bool (wf_module m); sx_bool (forallb chunk_jsonable m); enc_jvalue (JObj (module_obj m));
           sx_bool (Known_C18 m)].

Definition dec_litv (k : Z) (s : text) : litv :=
  if k =? 0 then LStr s else if k =? 1 then LBool else if k =? 2 then LInt else if k =? 3 then LNat
  else if k =? 4 then LFloat else LOtherLit.
Definition dec_ename (x : sx) : ename :=
  {| e_public := sx_to_bool (sx_nth x 0); e_base := sx_zs (sx_nth x 1); e_proc := sx_to_bool (sx_nth x 2);
     e_line := sx_z (sx_nth x 3); e_col := sx_z (sx_nth x 4) |}.

Definition run_py (mode : Z) (x : sx) : sx :=
  if mode =? 10 then sx_of_zs (transpile_lit (sx_zs (sx_nth x 1)) (dec_litv (sx_z (sx_nth x 2)) (sx_zs (sx_nth x 3))))
  else if mode =? 11 then enc_otext (py_str_parse (sx_zs (sx_nth x 1)))
  else if mode =? 12 then enc_otext (py_lit_parse (sx_zs (sx_nth x 1)))
  else if mode =? 13 then
    sx_of_zs (transpile_name (sx_to_bool (sx_nth x 1)) (sx_zs (sx_nth x 2)) (sx_opt sx_zs (sx_nth x 3))
                             (sx_z (sx_nth x 4)) (sx_z (sx_nth x 5)))
  else if mode =? 14 then sx_bool (Known_C17_mangle (map dec_ename (sx_l (sx_nth x 1))))
  else sx_of_zs (transpile_lit_nofix (sx_zs (sx_nth x 1)) (dec_litv (sx_z (sx_nth x 2)) (sx_zs (sx_nth x 3)))).

Definition run (x : sx) : sx :=
  let mode := sx_z (sx_nth x 0) in
  if mode <? 10 then run_json mode x else run_py mode x.

Require Extraction.
Require Import ExtrOcamlBasic.
Extraction Language OCaml.
Extraction "model.ml" run.
