(** C17 — model of the literal and name printers of the Python transpile target,
    crates/erg_compiler/transpile.rs [PyScriptGenerator] (the statement/expression translation is tied by the
    differential part of the check only).

    [escape_str] / [transpile_lit] are the code as it is now (after the [fix:] commit recorded in
    /verif/known/C17.json); [escape_str_nofix] / [transpile_lit_nofix] the code as it was found. *)
From Coq Require Import ZArith List Bool.
From ErgV Require Import Emit.Text.
Import ListNotations.
Open Scope Z_scope.

(** [str::replace(c: char, to: &str)] *)
Definition replace_char (c : Z) (to : text) (s : text) : text :=
  flat_map (fun x => if x =? c then to else [x]) s.

(** [str::replace("::", to)]: leftmost non-overlapping occurrences of a two-character pattern *)
Fixpoint replace_pair (a b : Z) (to : text) (s : text) : text :=
  match s with
  | x :: r => match r with
              | y :: r' => if (x =? a) && (y =? b) then to ++ replace_pair a b to r' else x :: replace_pair a b to r
              | [] => [x]
              end
  | [] => []
  end.

(** [str::trim_start_matches(p)]: strip the prefix [p] as long as it is there (fuel: length of the string) *)
Fixpoint trim_start_matches (fuel : nat) (p s : text) : text :=
  match fuel with
  | O => s
  | S f => match p with
           | [] => s
           | _ => match strip_prefix p s with Some r => trim_start_matches f p r | None => s end
           end
  end.

(* ------------------------------------------------------------------ string literals *)

(** PyScriptGenerator::escape_str *)
Definition escape_str (s : text) : text :=
  replace_char 0 [92; 120; 48; 48]        (* '\0' => "\\x00" *)
    (replace_char 9 [92; 116]             (* '\t' => "\\t" *)
       (replace_char 13 [92; 114]         (* '\r' => "\\r" *)
          (replace_char 10 [92; 110]      (* '\n' => "\\n" *)
             (replace_char 34 [92; 34]    (* '"' => "\\\"" *)
                (replace_char 92 [92; 92] s))))).   (* '\\' => "\\\\" *)

(** as found: no escaping of the quotation mark and the backslash, NUL as backslash-zero *)
Definition escape_str_nofix (s : text) : text :=
  replace_char 0 [92; 48] (replace_char 9 [92; 116] (replace_char 13 [92; 114] (replace_char 10 [92; 110] s))).

(** hir::Literal as far as transpile_lit distinguishes: token text, value class, string value *)
Inductive litv : Type :=
| LStr (s : text)          (* ValueObj::Str(s) *)
| LBool | LInt | LNat | LFloat   (* the value itself is not used: the token is printed *)
| LOtherLit.               (* None, Ellipsis, NotImplemented, Inf, ... *)

Definition class_name (v : litv) : text :=
  match v with
  | LStr _ => [83; 116; 114]             (* Str *)
  | LBool => [66; 111; 111; 108]         (* Bool *)
  | LInt => [73; 110; 116]               (* Int *)
  | LNat => [78; 97; 116]                (* Nat *)
  | LFloat => [70; 108; 111; 97; 116]    (* Float *)
  | LOtherLit => []
  end.

(** PyScriptGenerator::transpile_lit *)
Definition transpile_lit (tok : text) (v : litv) : text :=
  match v with
  | LStr s => [83; 116; 114; 40; 34] ++ escape_str s ++ [34; 41]          (* format!("Str(\"{}\")", escape_str(s)) *)
  | LBool | LInt | LNat | LFloat => class_name v ++ [40] ++ escape_str tok ++ [41]   (* format!("{}({escaped})") *)
  | LOtherLit => escape_str tok
  end.

Definition transpile_lit_nofix (tok : text) (v : litv) : text :=
  match v with
  | LOtherLit => escape_str_nofix tok
  | _ => class_name v ++ [40] ++ escape_str_nofix tok ++ [41]     (* the token of a string includes its quotation marks *)
  end.

(* ------------------------------------------------------------------ names *)

(** replace_non_symbolic *)
Definition replace_non_symbolic (name : text) : text :=
  replace_char 36 [101; 114; 103; 95; 115; 104; 97; 114; 101; 100; 95; 95]                    (* '$' => "erg_shared__" *)
  (replace_char 33 [95; 95; 101; 114; 103; 95; 112; 114; 111; 99; 95; 95]                     (* '!' => "__erg_proc__" *)
  (replace_char 37 [95; 95; 112; 101; 114; 99; 101; 110; 116; 95; 95]                         (* '%' => "__percent__" *)
  (replace_char 47 [95; 95; 115; 108; 97; 115; 104; 95; 95]                                   (* '/' => "__slash__" *)
  (replace_char 42 [95; 95; 115; 116; 97; 114; 95; 95]                                        (* '*' => "__star__" *)
  (replace_char 45 [95; 95; 109; 105; 110; 117; 115; 95; 95]                                  (* '-' => "__minus__" *)
  (replace_char 43 [95; 95; 112; 108; 117; 115; 95; 95]                                       (* '+' => "__plus__" *)
  (replace_char 32 [95; 95; 115; 112; 97; 99; 101; 95; 95]                                    (* ' ' => "__space__" *)
  (replace_char 39 [95; 95; 115; 105; 110; 103; 108; 101; 95; 113; 117; 111; 116; 101; 95; 95] (* '\'' => "__single_quote__" *)
     name)))))))).

(** demangle: trim_start_matches("::<module>").replace("::", "__").replace('.', "_") *)
Definition demangle (name : text) : text :=
  replace_char 46 [95]
    (replace_pair 58 58 [95; 95]
       (trim_start_matches (length name) [58; 58; 60; 109; 111; 100; 117; 108; 101; 62] name)).

(** PyScriptGenerator::transpile_name(vis, name, vi): [py_name] = vi.py_name, [line]/[col] =
    vi.def_loc.loc.ln_begin()/col_begin() with unwrap_or(0) *)
Definition transpile_name (public : bool) (name : text) (py_name : option text) (line col : Z) : text :=
  match py_name with
  | Some p => demangle p
  | None =>
    let name := replace_non_symbolic name in
    if public || text_eqb name [95] then name
    else
      let line_mangling :=
        if (line =? 0) && (col =? 0) then []
        else if line =? 0 then [95; 67] ++ int_to_string col                               (* "_C{def_col}" *)
        else if col =? 0 then [95; 76] ++ int_to_string line                               (* "_L{def_line}" *)
        else [95; 76] ++ int_to_string line ++ [95; 67] ++ int_to_string col in            (* "_L{}_C{}" *)
      name ++ line_mangling
  end.
