(** Emit theme — text helpers shared by the JSON (C18) and Python (C17) emitters.
    Text is a list of Unicode scalar values (what a Rust [String] holds), definitions only. *)
From Coq Require Import ZArith List Bool.
Import ListNotations.
Open Scope Z_scope.

Definition text := list Z.

(** [Vec<String>::join(sep)] *)
Fixpoint join (sep : text) (l : list text) : text :=
  match l with
  | [] => []
  | [x] => x
  | x :: r => x ++ sep ++ join sep r
  end.

Fixpoint text_eqb (a b : text) : bool :=
  match a, b with
  | [], [] => true
  | x :: a', y :: b' => (x =? y) && text_eqb a' b'
  | _, _ => false
  end.

(** [p] is a prefix of [s]: the rest *)
Fixpoint strip_prefix (p s : text) : option text :=
  match p, s with
  | [], _ => Some s
  | x :: p', y :: s' => if x =? y then strip_prefix p' s' else None
  | _ :: _, [] => None
  end.

(** decimal digits (most significant first) of a natural number, as [impl Display for u64/i32] prints them.
    Fuel: one step per digit; [S (log2 n)] steps always suffice (lemma [dec_digits_val] in the proofs). *)
Fixpoint dec_digits (fuel : nat) (n : Z) : list Z :=
  match fuel with
  | O => []
  | S f => if n <? 10 then [n] else dec_digits f (n / 10) ++ [n mod 10]
  end.
Definition nat_digits (n : Z) : list Z := dec_digits (S (Z.to_nat (Z.log2 n))) n.
Definition digit_chars (ds : list Z) : text := map (fun d => 48 + d) ds.
(** [i.to_string()] for an integer *)
Definition int_to_string (z : Z) : text :=
  if z <? 0 then 45 :: digit_chars (nat_digits (- z)) else digit_chars (nat_digits z).

(** value of a digit sequence (Horner) *)
Definition digits_val (ds : list Z) : Z := fold_left (fun a d => 10 * a + d) ds 0.
Definition is_digit_val (d : Z) : bool := (0 <=? d) && (d <=? 9).
(** a canonical decimal integer part: digits, non-empty, no superfluous leading zero *)
Definition canon_digits (ds : list Z) : bool :=
  forallb is_digit_val ds &&
  match ds with [] => false | [_] => true | d :: _ => negb (d =? 0) end.

(** lower-case hexadecimal digit *)
Definition hex_digit (d : Z) : Z := if d <? 10 then 48 + d else 87 + d.
