(** C15 — proofs, part 3: erg's reader reads back what the writer wrote *)
From Coq Require Import ZArith List Bool Lia.
From ErgV Require Import Common.Sx gen.MarshalTab Marshal.Model Marshal.Spec.
From ErgV Require Import Marshal.ProofsBase Marshal.ProofsPy.
Import ListNotations.
Open Scope Z_scope.
Ltac Zify.zify_post_hook ::= Z.to_euclidean_division_equations.

(* ---- primitives of the repaired reader *)
Lemma take_app n a r : n = len a -> take true n (a ++ r) = Ok (a, r).
Proof. intros ->. unfold take. now rewrite splitz_app. Qed.
Lemma rd_u32_le4 z r : 0 <= z < 4294967296 -> rd_u32 true (le_bytes 4 z ++ r) = Ok (z, r).
Proof.
  intro H. unfold rd_u32. rewrite (take_app 4) by (now rewrite le_bytes_len). cbn [bind].
  rewrite le_val_le_bytes_id by (change (256 ^ Z.of_nat 4) with 4294967296; lia). reflexivity.
Qed.
Lemma rd_u32_u31 z r : 0 <= z <= i32_max -> rd_u32 true (le_bytes 4 z ++ r) = Ok (z, r).
Proof. unfold i32_max. intro. apply rd_u32_le4. lia. Qed.
Lemma rd_bytes_rt b rest : bytes_ok b = true -> rd_bytes true (raw_string_into_bytes b ++ rest) = Ok (b, rest).
Proof.
  intro Hb. apply bytes_ok_spec in Hb. unfold rd_bytes, raw_string_into_bytes. cbn [app take1 bind].
  change (prefix_of pfx_Str =? pfx_Str) with true. cbn [negb]. pose proof (len_nonneg b).
  rewrite <- app_assoc, rd_u32_u31 by lia. cbn [bind]. apply take_app. reflexivity.
Qed.
Lemma rd_utf8_rt s : forallb scalar s = true -> rd_utf8 (utf8 s) = Ok s.
Proof. intro H. unfold rd_utf8. now rewrite utf8_dec_utf8. Qed.

(* ---- one unfolding of rd_const per prefix *)
Definition eguard {A} (d : Z) (k : res A) : res A := if MAX_DEPTH <=? d then Err EBroken else k.
Lemma eguard_ok {A} d (k : res A) : d < 128 -> eguard d k = k.
Proof. intro H. unfold eguard, MAX_DEPTH. destruct (128 <=? d) eqn:E; [lia|reflexivity]. Qed.
Definition eseq (f : nat) (ver d n : Z) (r : list Z) : res (value * list Z) :=
  if len r <? n then Err EBroken else '(l, r') <- rd_elems true f ver (d + 1) n r ;; Ok (VList l, r').

Lemma rc_int f ver d r : rd_const true (S f) ver d (pfx_Int32 :: r) =
  eguard d ('(x, r) <- take true 4 r ;; Ok (VInt (to_i32 (le_val x)), r)).
Proof. reflexivity. Qed.
Lemma rc_long f ver d r : rd_const true (S f) ver d (pfx_Long :: r) =
  eguard d ('(x, r) <- take true 4 r ;;
            let nd := to_i32 (le_val x) in
            '(n, r) <- rd_digits true (Z.to_nat (Z.min (Z.max nd 0) 5)) 0 r ;;
            if (0 <=? nd) && (nd <=? 5) && (n <? 18446744073709551616) then Ok (VNat n, r) else Err EUnsupported).
Proof. reflexivity. Qed.
Lemma rc_float f ver d r : rd_const true (S f) ver d (pfx_BinFloat :: r) =
  eguard d ('(x, r) <- take true 8 r ;; Ok (VFloat (le_val x), r)).
Proof. reflexivity. Qed.
Lemma rc_short f ver d (i : bool) r : rd_const true (S f) ver d ((if i then pfx_ShortAsciiInterned else pfx_ShortAscii) :: r) =
  eguard d ('(n, r) <- take1 true r ;; '(x, r) <- take true n r ;; s <- rd_utf8 x ;; Ok (VStr s, r)).
Proof. destruct i; reflexivity. Qed.
Lemma rc_unicode f ver d r : rd_const true (S f) ver d (pfx_Unicode :: r) =
  eguard d ('(n, r) <- rd_u32 true r ;; '(x, r) <- take true n r ;; s <- rd_utf8 x ;; Ok (VStr s, r)).
Proof. reflexivity. Qed.
Lemma rc_true f ver d r : rd_const true (S f) ver d (pfx_True :: r) = eguard d (Ok (VBool true, r)).
Proof. reflexivity. Qed.
Lemma rc_false f ver d r : rd_const true (S f) ver d (pfx_False :: r) = eguard d (Ok (VBool false, r)).
Proof. reflexivity. Qed.
Lemma rc_none f ver d r : rd_const true (S f) ver d (pfx_None :: r) = eguard d (Ok (VNone, r)).
Proof. reflexivity. Qed.
Lemma rc_small f ver d r : rd_const true (S f) ver d (pfx_SmallTuple :: r) =
  eguard d ('(n, r) <- take1 true r ;; eseq f ver d n r).
Proof. reflexivity. Qed.
Lemma rc_tuple f ver d r : rd_const true (S f) ver d (pfx_Tuple :: r) =
  eguard d ('(n, r) <- rd_u32 true r ;; eseq f ver d n r).
Proof. reflexivity. Qed.
Lemma rc_code f ver d r : rd_const true (S f) ver d (pfx_Code :: r) =
  eguard d ('(c, r) <- from_bytes_with true (rd_const true f ver (d + 1)) ver (pfx_Code :: r) ;; Ok (VCode c, r)).
Proof. reflexivity. Qed.
Lemma rd_elems_S f ver d n bs : 0 < n -> rd_elems true (S f) ver d n bs =
  '(x, r) <- rd_const true f ver d bs ;; '(l, r') <- rd_elems true f ver d (n - 1) r ;; Ok (x :: l, r').
Proof. intro H. cbn [rd_elems]. destruct (n <=? 0) eqn:E; [lia|reflexivity]. Qed.
Lemma rd_elems_0 f ver d bs : rd_elems true f ver d 0 bs = Ok ([], bs).
Proof. destruct f; reflexivity. Qed.

(* ---- strings *)
Lemma rc_str_rt F ver d s i rest : str_ok s = true -> fits F (str_into_bytes s i) -> d < 128 ->
  rd_const true F ver d (str_into_bytes s i ++ rest) = Ok (VStr s, rest).
Proof.
  intros Hs HF Hd. apply str_ok_spec in Hs. destruct Hs as [Hsc Hlen].
  pose proof (str_bytes_nonempty s i) as NE. unfold fits in HF.
  destruct F as [|f]; [lia|]. pose proof (len_nonneg (utf8 s)).
  unfold str_into_bytes. destruct (is_ascii s && (len (utf8 s) <=? 255)) eqn:E.
  - apply andb_true_iff in E. destruct E as [Ea El]. apply Z.leb_le in El.
    cbn [app]. rewrite rc_short, eguard_ok by assumption. cbn [take1 bind].
    rewrite Z.mod_small by lia. rewrite take_app by reflexivity. cbn [bind].
    rewrite rd_utf8_rt by assumption. reflexivity.
  - cbn [app]. rewrite rc_unicode, eguard_ok by assumption. rewrite <- app_assoc, rd_u32_u31 by lia. cbn [bind].
    rewrite take_app by reflexivity. cbn [bind]. rewrite rd_utf8_rt by assumption. reflexivity.
Qed.

Lemma elems_strs_rt ver : forall l F d rest, forallb str_ok l = true ->
  2 * len (flat_map (fun s => str_into_bytes s true) l) + 1 <= Z.of_nat F -> d < 128 ->
  rd_elems true F ver d (len l) (flat_map (fun s => str_into_bytes s true) l ++ rest) = Ok (map VStr l, rest).
Proof.
  induction l as [|s l IH]; intros F d rest Hok HF Hd.
  - cbn [flat_map app len length map]. apply rd_elems_0.
  - cbn [forallb] in Hok. apply andb_true_iff in Hok. destruct Hok as [H1 H2].
    cbn [flat_map] in *. rewrite len_app in HF. pose proof (str_bytes_nonempty s true).
    pose proof (len_nonneg (flat_map (fun s0 => str_into_bytes s0 true) l)).
    destruct F as [|f]; [lia|]. rewrite len_cons. pose proof (len_nonneg l).
    rewrite rd_elems_S by lia. rewrite <- app_assoc.
    rewrite rc_str_rt; [|assumption|unfold fits; lia|assumption]. cbn [bind].
    replace (1 + len l - 1) with (len l) by lia.
    rewrite IH; [|assumption|lia|assumption]. reflexivity.
Qed.

(** header + elements, given how the elements are read; every element is at least one byte long *)
Lemma rc_seq_rt F ver d n payload rest (vals : list value) :
  0 <= n <= i32_max -> n <= len payload -> fits F (seq_header n ++ payload) -> d < 128 ->
  (forall f, 2 * len payload + 1 <= Z.of_nat f -> rd_elems true f ver (d + 1) n (payload ++ rest) = Ok (vals, rest)) ->
  rd_const true F ver d (seq_header n ++ payload ++ rest) = Ok (VList vals, rest).
Proof.
  intros Hn Hnp HF Hd Hseq. unfold fits in HF. rewrite len_app in HF. pose proof (seq_header_len n).
  pose proof (len_nonneg payload). pose proof (len_nonneg rest). destruct F as [|f]; [lia|].
  unfold seq_header in *. destruct (255 <? n) eqn:E.
  - cbn [app]. rewrite rc_tuple, eguard_ok by assumption. rewrite <- ?app_assoc; rewrite rd_u32_u31 by assumption. cbn [bind].
    unfold eseq. rewrite len_app. destruct (len payload + len rest <? n) eqn:E2; [lia|].
    rewrite len_cons, le_bytes_len in HF. rewrite Hseq by lia. reflexivity.
  - cbn [app]. rewrite rc_small, eguard_ok by assumption. cbn [take1 bind].
    rewrite Z.mod_small by lia. unfold eseq. rewrite len_app. destruct (len payload + len rest <? n) eqn:E2; [lia|].
    rewrite !len_cons, len_nil in HF. rewrite Hseq by lia. reflexivity.
Qed.

Lemma flat_map_len_ge {A} (g : A -> list Z) l : (forall x, In x l -> 1 <= len (g x)) -> len l <= len (flat_map g l).
Proof.
  induction l as [|x l IH]; intro H; [reflexivity|]. cbn [flat_map]. rewrite len_app, len_cons.
  pose proof (H x (or_introl eq_refl)). assert (len l <= len (flat_map g l)) by (apply IH; intros; apply H; now right). lia.
Qed.

Lemma as_vstrs_map l : as_vstrs true (VList (map VStr l)) = Ok l.
Proof. cbn [as_vstrs]. induction l as [|s l IH]; [reflexivity|]. cbn [map fold_right]. rewrite IH. reflexivity. Qed.

Lemma rd_str_vec_rt F ver d l rest : strs_ok l = true -> fits F (strs_into_bytes l) -> d + 1 < 128 ->
  rd_str_vec true (rd_const true F ver d) (strs_into_bytes l ++ rest) = Ok (l, rest).
Proof.
  intros Hl HF Hd. apply strs_ok_spec in Hl. destruct Hl as [H1 H2]. unfold rd_str_vec, strs_into_bytes in *.
  rewrite <- app_assoc.
  rewrite (rc_seq_rt F ver d _ _ _ (map VStr l)); [|pose proof (len_nonneg l); lia| |assumption|lia|].
  - cbn [bind]. rewrite as_vstrs_map. reflexivity.
  - apply flat_map_len_ge. intros s _. pose proof (str_bytes_nonempty s true). lia.
  - intros f Hf. apply elems_strs_rt; [assumption|lia|lia].
Qed.
Lemma rd_str_rt F ver d s i rest : str_ok s = true -> fits F (str_into_bytes s i) -> d < 128 ->
  rd_str true (rd_const true F ver d) (str_into_bytes s i ++ rest) = Ok (s, rest).
Proof. intros. unfold rd_str. rewrite rc_str_rt by assumption. reflexivity. Qed.

(* ---- locals of 3.11 *)
Lemma partition_kinds_rt (a b c : list (list Z)) :
  partition_kinds true (combine (a ++ b ++ c)
     (map (fun _ => fk_Local) a ++ map (fun _ => fk_Free) b ++ map (fun _ => (fk_Cell + fk_Local) mod 256) c))
  = Ok (a, b, c).
Proof.
  rewrite !combine_const_app, combine_const.
  induction a as [|x a IHa].
  - cbn [map app]. induction b as [|y b IHb].
    + cbn [map app]. induction c as [|z c IHc]; [reflexivity|].
      cbn [map partition_kinds]. change (lookup ((fk_Cell + fk_Local) mod 256) fastkind_decode) with (@None Z).
      change ((fk_Cell + fk_Local) mod 256 =? fk_Local + fk_Cell) with true. cbn iota. rewrite IHc. reflexivity.
    + cbn [map app partition_kinds]. change (lookup fk_Free fastkind_decode) with (Some fk_Free). cbn iota.
      rewrite IHb. cbn [bind]. reflexivity.
  - cbn [map app partition_kinds]. change (lookup fk_Local fastkind_decode) with (Some fk_Local). cbn iota.
    rewrite IHa. cbn [bind]. reflexivity.
Qed.


Definition erg_rt_at (ver : Z) (v : value) : Prop :=
  forall F d rest, fits F (wr ver v) -> d + vdepth v <= 128 ->
    rd_const true F ver d (wr ver v ++ rest) = Ok (norm ver v, rest).

Lemma elems_vals_rt ver : forall l, Forall (erg_rt_at ver) l -> forallb serialisable l = true ->
  forall F d rest, 2 * len (flat_map (wr ver) l) + 1 <= Z.of_nat F -> d + mxd l <= 128 ->
  rd_elems true F ver d (len l) (flat_map (wr ver) l ++ rest) = Ok (map (norm ver) l, rest).
Proof.
  induction l as [|x l IH]; intros HF Hs F d rest Hfuel Hd.
  - cbn [flat_map app len length map]. apply rd_elems_0.
  - inversion HF as [|? ? Hx Hl]; subst. cbn [forallb] in Hs. apply andb_true_iff in Hs. destruct Hs as [S1 S2].
    cbn [flat_map] in *. rewrite len_app in Hfuel. pose proof (wr_nonempty ver x S1).
    pose proof (len_nonneg (flat_map (wr ver) l)).
    change (mxd (x :: l)) with (Z.max (vdepth x) (mxd l)) in Hd.
    destruct F as [|f]; [lia|]. rewrite len_cons. pose proof (len_nonneg l).
    rewrite rd_elems_S by lia. rewrite <- app_assoc.
    rewrite Hx; [|unfold fits; lia|lia]. cbn [bind].
    replace (1 + len l - 1) with (len l) by lia.
    rewrite IH; [reflexivity|assumption|assumption|lia|lia].
Qed.

Lemma wr_len_ge ver l : forallb serialisable l = true -> len l <= len (flat_map (wr ver) l).
Proof.
  intro H. apply flat_map_len_ge. intros x Hx. apply wr_nonempty. rewrite forallb_forall in H. now apply H.
Qed.

Lemma from_bytes_rt ver c f d1 rest :
  code_fields_ok c = true -> forallb serialisable (consts c) = true -> Forall (erg_rt_at ver) (consts c) ->
  fits f (code_tail ver c (flat_map (wr ver) (consts c))) -> d1 + 1 + Z.max 1 (mxd (consts c)) <= 128 ->
  from_bytes_with true (rd_const true f ver d1) ver (pfx_Code :: code_tail ver c (flat_map (wr ver) (consts c)) ++ rest)
  = Ok (norm_code ver c (map (norm ver) (consts c)), rest).
Proof.
  intros Hok Hser HIH HF Hd.
  destruct (code_fields_ok_spec c Hok).
  pose proof (mxd_nonneg (consts c)) as Hmx. pose proof (len_nonneg (consts c)) as Hnc.
  pose proof (wr_len_ge ver (consts c) Hser) as Hge.
  unfold from_bytes_with. cbn [take1 bind]. rewrite Z.eqb_refl. cbn [negb].
  unfold rd_locals, rd_const_vec, code_tail, dump_locals in *. rewrite (Z.ltb_antisym 11 ver) in *.
  unfold norm_code.
  assert (Hsq : forall rest0 fu, 2 * len (flat_map (wr ver) (consts c)) + 1 <= Z.of_nat fu ->
                rd_elems true fu ver (d1 + 1) (len (consts c)) (flat_map (wr ver) (consts c) ++ rest0) = Ok (map (norm ver) (consts c), rest0))
    by (intros rest0 fu Hfu; apply elems_vals_rt; [assumption|assumption|assumption|lia]).
  destruct (11 <=? ver) eqn:E11; destruct (8 <=? ver) eqn:E8; try lia; cbn [negb] in *.
  - (* 3.11 *)
    rewrite <- ?app_assoc in *; cbn [app] in *.
    set (vn' := filter (fun n => negb (contains (freevars c) n) && negb (contains (cellvars c) n)) (varnames c)) in *.
    assert (Hlp : strs_ok (vn' ++ freevars c ++ cellvars c) = true) by (apply strs_ok_locals; assumption).
    assert (Hvl : len vn' <= len (varnames c)) by apply filter_len.
    assert (Hk : bytes_ok (map (fun _ => fk_Local) vn' ++ map (fun _ => fk_Free) (freevars c)
                            ++ map (fun _ => (fk_Cell + fk_Local) mod 256) (cellvars c)) = true) by (apply bytes_ok_kinds; lia).
    repeat (rewrite rd_u32_u31 by assumption; cbn [bind]).
    rewrite rd_bytes_rt by assumption. cbn [bind].
    rewrite (rc_seq_rt f ver d1 _ _ _ (map (norm ver) (consts c))); [|side|side|side|side|intros; apply Hsq; lia]. cbn [bind].
    rewrite rd_str_vec_rt by side. cbn [bind].
    rewrite rd_str_vec_rt by side. cbn [bind].
    rewrite rd_bytes_rt by assumption. cbn [bind].
    match goal with |- context [len ?a =? len ?b] =>
      assert (HL : len a = len b) by (rewrite !len_app, !map_const_len; reflexivity); rewrite HL end.
    rewrite Z.eqb_refl. cbn [negb]. rewrite partition_kinds_rt. cbn [bind].
    rewrite rd_str_rt by side. cbn [bind].
    rewrite rd_str_rt by side. cbn [bind].
    rewrite rd_str_rt by side. cbn [bind].
    rewrite rd_u32_u31 by assumption; cbn [bind].
    rewrite rd_bytes_rt by assumption. cbn [bind].
    rewrite rd_bytes_rt by assumption. cbn [bind]. reflexivity.
  - (* 3.8 - 3.10 *)
    rewrite <- ?app_assoc in *; cbn [app] in *.
    repeat (rewrite rd_u32_u31 by assumption; cbn [bind]).
    rewrite rd_bytes_rt by assumption. cbn [bind].
    rewrite (rc_seq_rt f ver d1 _ _ _ (map (norm ver) (consts c))); [|side|side|side|side|intros; apply Hsq; lia]. cbn [bind].
    rewrite rd_str_vec_rt by side. cbn [bind].
    rewrite rd_str_vec_rt by side. cbn [bind].
    rewrite rd_str_vec_rt by side. cbn [bind].
    rewrite rd_str_vec_rt by side. cbn [bind].
    rewrite rd_str_rt by side. cbn [bind].
    rewrite rd_str_rt by side. cbn [bind].
    rewrite rd_u32_u31 by assumption; cbn [bind].
    rewrite rd_bytes_rt by assumption. cbn [bind]. reflexivity.
  - (* 3.7 *)
    rewrite <- ?app_assoc in *; cbn [app] in *.
    repeat (rewrite rd_u32_u31 by assumption; cbn [bind]).
    rewrite rd_bytes_rt by assumption. cbn [bind].
    rewrite (rc_seq_rt f ver d1 _ _ _ (map (norm ver) (consts c))); [|side|side|side|side|intros; apply Hsq; lia]. cbn [bind].
    rewrite rd_str_vec_rt by side. cbn [bind].
    rewrite rd_str_vec_rt by side. cbn [bind].
    rewrite rd_str_vec_rt by side. cbn [bind].
    rewrite rd_str_vec_rt by side. cbn [bind].
    rewrite rd_str_rt by side. cbn [bind].
    rewrite rd_str_rt by side. cbn [bind].
    rewrite rd_u32_u31 by assumption; cbn [bind].
    rewrite rd_bytes_rt by assumption. cbn [bind]. reflexivity.
Qed.

Lemma rd_digits_rt : forall ds i rest, Forall digit_ok ds -> 0 <= i ->
  rd_digits true (length ds) i (flat_map (le_bytes 2) ds ++ rest) = Ok (digits_val ds * 2 ^ (15 * i), rest).
Proof.
  induction ds as [|dg ds IH]; intros i rest H Hi; [reflexivity|].
  inversion H as [|? ? Hd Hr]; subst. unfold digit_ok in Hd.
  cbn [length rd_digits flat_map]. rewrite <- app_assoc. rewrite (take_app 2) by (now rewrite le_bytes_len). cbn [bind].
  rewrite IH by (assumption || lia). cbn [bind].
  rewrite le_val_le_bytes_id by (change (256 ^ Z.of_nat 2) with 65536; lia).
  cbn [digits_val]. replace (15 * (i + 1)) with (15 * i + 15) by lia. rewrite Z.pow_add_r by lia.
  change (2 ^ 15) with 32768. f_equal. f_equal. lia.
Qed.

Lemma erg_rt ver : forall v, serialisable v = true -> erg_rt_at ver v.
Proof.
  induction v using value_ind_nested; intros HS F d rest HF Hd; unfold fits in HF.
  - (* Int *) cbn [wr norm vdepth] in *. cbn [serialisable] in HS. apply andb_true_iff in HS. destruct HS as [H0 H1].
    rewrite len_cons, le_bytes_len in HF. destruct F as [|f]; [lia|].
    cbn [app]. rewrite rc_int, eguard_ok by lia. rewrite (take_app 4) by (now rewrite le_bytes_len). cbn [bind].
    rewrite le_val_le_bytes. change (256 ^ Z.of_nat 4) with 4294967296. rewrite to_i32_i32 by lia. reflexivity.
  - (* Nat *) cbn [vdepth] in *. cbn [serialisable] in HS. apply andb_true_iff in HS. destruct HS as [H0 H1].
    cbn [wr norm] in *. destruct (i32_max <? n) eqn:E.
    + assert (En : (n <=? i32_max) = false) by lia. rewrite En.
      unfold long_wr in *.
      destruct (digits15_spec 5 n) as (ds & D1 & D2 & D3 & D4 & D5); [change (32768 ^ Z.of_nat 5) with 37778931862957161709568; lia|].
      rewrite D1 in *. rewrite len_cons in HF. destruct F as [|f]; [pose proof (len_nonneg (le_bytes 4 (len ds) ++ flat_map (le_bytes 2) ds)); lia|].
      cbn [app]. rewrite rc_long, eguard_ok by lia. rewrite <- app_assoc. rewrite (take_app 4) by (now rewrite le_bytes_len). cbn [bind].
      destruct D4 as [D4 D4']; [unfold i32_max in *; lia|].
      assert (Hl : 1 <= len ds <= 5). { unfold len. destruct ds; [contradiction|]. cbn [length] in *. lia. }
      rewrite le_val_le_bytes. change (256 ^ Z.of_nat 4) with 4294967296. rewrite to_i32_u31 by (unfold i32_max; lia).
      replace (Z.to_nat (Z.min (Z.max (len ds) 0) 5)) with (length ds) by (unfold len in *; lia).
      rewrite rd_digits_rt by (assumption || lia). cbn [bind]. rewrite D2.
      change (2 ^ (15 * 0)) with 1. rewrite Z.mul_1_r.
      destruct (0 <=? len ds) eqn:E0; [|lia]. destruct (len ds <=? 5) eqn:E1; [|lia].
      destruct (n <? 18446744073709551616) eqn:E2; [|lia]. reflexivity.
    + assert (En : (n <=? i32_max) = true) by lia. rewrite En.
      rewrite len_cons, le_bytes_len in HF. destruct F as [|f]; [lia|].
      cbn [app]. rewrite rc_int, eguard_ok by lia. rewrite (take_app 4) by (now rewrite le_bytes_len). cbn [bind].
      rewrite le_val_le_bytes. change (256 ^ Z.of_nat 4) with 4294967296. rewrite to_i32_u31 by lia. reflexivity.
  - (* Float *) cbn [wr norm vdepth] in *. cbn [serialisable] in HS. apply andb_true_iff in HS. destruct HS as [H0 H1].
    rewrite len_cons, le_bytes_len in HF. destruct F as [|f]; [lia|].
    cbn [app]. rewrite rc_float, eguard_ok by lia. rewrite (take_app 8) by (now rewrite le_bytes_len). cbn [bind].
    rewrite le_val_le_bytes_id by (change (256 ^ Z.of_nat 8) with 18446744073709551616; lia). reflexivity.
  - (* Str *) cbn [wr norm vdepth serialisable] in *. apply rc_str_rt; [assumption|exact HF|lia].
  - (* Bool *) cbn [norm vdepth] in *. destruct b; cbn [wr] in *; (destruct F as [|f]; [cbn in HF; lia|]); cbn [app];
      [rewrite rc_true|rewrite rc_false]; rewrite eguard_ok by lia; reflexivity.
  - (* None *) cbn [wr norm vdepth] in *. destruct F as [|f]; [cbn in HF; lia|]. cbn [app]. rewrite rc_none, eguard_ok by lia. reflexivity.
  - (* Tuple *) rewrite ser_tuple in HS. apply andb_true_iff in HS. destruct HS as [S0 S1].
    rewrite vdepth_tuple in Hd. cbn [wr norm] in *. pose proof (len_nonneg l). pose proof (mxd_nonneg l).
    rewrite <- app_assoc. apply rc_seq_rt; [lia|now apply wr_len_ge|exact HF|lia|].
    intros f Hf. apply elems_vals_rt; [eapply forallb_Forall_imp; eassumption|assumption|lia|lia].
  - (* List *) rewrite ser_list in HS. apply andb_true_iff in HS. destruct HS as [S0 S1].
    rewrite vdepth_list in Hd. cbn [wr norm] in *. pose proof (len_nonneg l). pose proof (mxd_nonneg l).
    rewrite <- app_assoc. apply rc_seq_rt; [lia|now apply wr_len_ge|exact HF|lia|].
    intros f Hf. apply elems_vals_rt; [eapply forallb_Forall_imp; eassumption|assumption|lia|lia].
  - (* Code *) rewrite ser_code in HS. apply andb_true_iff in HS. destruct HS as [S0 S1].
    rewrite vdepth_code in Hd. cbn [wr norm] in *. rewrite code_into_bytes_tail in *. rewrite len_cons in HF.
    destruct F as [|f]; [match type of HF with context [len ?x] => pose proof (len_nonneg x) end; lia|].
    cbn [app]. rewrite rc_code, eguard_ok by lia.
    rewrite from_bytes_rt; [reflexivity|assumption|assumption|eapply forallb_Forall_imp; eassumption|unfold fits; lia|lia].
  - discriminate.
Qed.

Theorem erg_read_write_all ver v : serialisable v = true -> vdepth v <= 128 ->
  read_const ver (wr ver v) = Ok (norm ver v, []).
Proof.
  intros HS Hd. unfold read_const, read_const_gen. rewrite <- (app_nil_r (wr ver v)) at 2.
  apply erg_rt; [assumption| |lia].
  unfold fits, fuel_for, len. lia.
Qed.

(** a whole code object through from_bytes (the Deserializer is fresh: depth 0) *)
Theorem from_bytes_write_all ver c : serialisable (VCode c) = true -> vdepth (VCode c) <= 129 ->
  from_bytes ver (wr ver (VCode c)) = Ok (norm_code ver c (map (norm ver) (consts c)), []).
Proof.
  intros HS Hd. rewrite ser_code in HS. apply andb_true_iff in HS. destruct HS as [S0 S1]. rewrite vdepth_code in Hd.
  unfold from_bytes, from_bytes_gen. cbn [wr]. rewrite code_into_bytes_tail.
  rewrite <- (app_nil_r (code_tail _ _ _)) at 2.
  apply from_bytes_rt; [assumption|assumption| | |lia].
  - apply (forallb_Forall_imp serialisable); [|assumption]. apply Forall_forall. intros x _. apply erg_rt.
  - unfold fits, fuel_for, len. cbn [length]. lia.
Qed.
