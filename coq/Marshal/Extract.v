(** extraction entry point for the C15 correspondence check and judges
    build dependencies (read by lib/vplib.py Model): ErgV.Common.Sx ErgV.gen.MarshalTab ErgV.Marshal.Model ErgV.Marshal.Spec *)
From Coq Require Import ZArith List Bool.
From ErgV Require Import Common.Sx gen.MarshalTab Marshal.Model Marshal.Spec.
Import ListNotations.
Open Scope Z_scope.

Definition dec_strs (x : sx) : list (list Z) := map sx_zs (sx_l x).

Fixpoint dec_value (x : sx) {struct x} : value :=
  match x with
  | SL (SZ t :: args) =>
    match args with
    | [] => if t =? 5 then VNone else VOther
    | [SZ z] =>
      if t =? 0 then VInt z else if t =? 1 then VNat z else if t =? 2 then VFloat z
      else if t =? 4 then VBool (negb (z =? 0)) else VOther
    | [SL l] =>
      if t =? 3 then VStr (map sx_z l)
      else if t =? 6 then VTuple (map dec_value l)
      else if t =? 7 then VList (map dec_value l)
      else if t =? 8 then
        let f := SL l in
        let cs := match l with
                  | _ :: _ :: _ :: _ :: _ :: _ :: _ :: SL cs :: _ => map dec_value cs
                  | _ => []
                  end in
        VCode (mkCode (sx_z (sx_nth f 0)) (sx_z (sx_nth f 1)) (sx_z (sx_nth f 2)) (sx_z (sx_nth f 3))
                      (sx_z (sx_nth f 4)) (sx_z (sx_nth f 5)) (sx_zs (sx_nth f 6)) cs
                      (dec_strs (sx_nth f 8)) (dec_strs (sx_nth f 9)) (dec_strs (sx_nth f 10)) (dec_strs (sx_nth f 11))
                      (sx_zs (sx_nth f 12)) (sx_zs (sx_nth f 13)) (sx_zs (sx_nth f 14)) (sx_z (sx_nth f 15))
                      (sx_zs (sx_nth f 16)) (sx_zs (sx_nth f 17)))
      else VOther
    | _ => VOther
    end
  | _ => VOther
  end.

Definition dec_code (x : sx) : code_ value :=
  match dec_value (SL [SZ 8; x]) with
  | VCode c => c
  | _ => mkCode 0 0 0 0 0 0 [] [] [] [] [] [] [] [] [] 0 [] []
  end.

Definition err_code (e : err) : Z :=
  match e with EBroken => 1 | EUnsupported => 2 | EType => 3 | EUtf8 => 4 | EBytes => 5 end.
Definition enc_res {A} (f : A -> list sx) (r : res A) : sx :=
  match r with
  | Ok a => SL (SZ 0 :: f a)
  | Err e => SL [SZ 1; SZ (err_code e)]
  | Panic => SL [SZ (-999)]
  | Fuel => SL [SZ (-998)]
  end.
Definition enc_pres {A} (f : A -> list sx) (r : pres A) : sx :=
  match r with
  | POk a => SL (SZ 0 :: f a)
  | PErr => SL [SZ 1]
  | PUnsupported => SL [SZ 2]
  | PFuel => SL [SZ (-998)]
  end.

(** modes:
    (0 fx ver value)          -> into_bytes            (0 (bytes)) | (-999)
    (1 ver (bytes))           -> py_loads              (0 pyval (rest)) | (1) error | (2) type code outside the model
    (2 fx ver (bytes))        -> read_const            (0 value restlen) | (1 err) | (-999)
    (3 fx (bytes))            -> read_pyc              (0 ver code) | (1 err) | (-999)
    (4 fx ver (bytes))        -> from_bytes            (0 code restlen) | (1 err) | (-999)
    (5 fx magic code)         -> into_bytecode, timestamp 0
    (6 ver value)             -> (py_of serialisable vdepth norm)
    (7 ver value obs)         -> judge_writer
    (8 cls)                   -> judge_no_crash
    (9 ver value cls obs rest)-> judge_read_back                                                            *)
Definition run (x : sx) : sx :=
  let mode := sx_z (sx_nth x 0) in
  if mode =? 0 then
    enc_res (fun b => [sx_of_zs b]) (into_bytes_gen (sx_to_bool (sx_nth x 1)) (sx_z (sx_nth x 2)) (dec_value (sx_nth x 3)))
  else if mode =? 1 then
    enc_pres (fun p => [enc_pyval (fst p); sx_of_zs (snd p)]) (py_loads (sx_z (sx_nth x 1)) (sx_zs (sx_nth x 2)))
  else if mode =? 2 then
    enc_res (fun p => [enc_value (fst p); SZ (len (snd p))])
            (read_const_gen (sx_to_bool (sx_nth x 1)) (sx_z (sx_nth x 2)) (sx_zs (sx_nth x 3)))
  else if mode =? 3 then
    enc_res (fun p => [SZ (fst p); enc_code enc_value (snd p)]) (read_pyc_gen (sx_to_bool (sx_nth x 1)) (sx_zs (sx_nth x 2)))
  else if mode =? 4 then
    enc_res (fun p => [enc_code enc_value (fst p); SZ (len (snd p))])
            (from_bytes_gen (sx_to_bool (sx_nth x 1)) (sx_z (sx_nth x 2)) (sx_zs (sx_nth x 3)))
  else if mode =? 5 then
    enc_res (fun b => [sx_of_zs b]) (into_bytecode_gen (sx_to_bool (sx_nth x 1)) (sx_z (sx_nth x 2)) 0 (dec_code (sx_nth x 3)))
  else if mode =? 6 then
    let ver := sx_z (sx_nth x 1) in
    let v := dec_value (sx_nth x 2) in
    SL [enc_pyval (py_of ver v); sx_bool (serialisable v); SZ (vdepth v); enc_value (norm ver v)]
  else if mode =? 7 then
    sx_bool (judge_writer (sx_z (sx_nth x 1)) (dec_value (sx_nth x 2)) (sx_nth x 3))
  else if mode =? 8 then
    sx_bool (judge_no_crash (sx_z (sx_nth x 1)))
  else
    sx_bool (judge_read_back (sx_z (sx_nth x 1)) (dec_value (sx_nth x 2)) (sx_z (sx_nth x 3)) (sx_nth x 4) (sx_z (sx_nth x 5))).

Require Extraction.
Require Import ExtrOcamlBasic.
Extraction Language OCaml.
Extraction "model.ml" run.
