(** C15 — marshal writer, CPython's unmarshaller (reference reader) and erg's own .pyc reader.

    Transcribed from
      crates/erg_common/serialize.rs        str_into_bytes, strs_into_bytes, raw_string_into_bytes,
                                            get_magic_num_bytes, get_magic_num_from_bytes, get_ver_from_magic_num
      crates/erg_compiler/ty/value.rs       ValueObj::into_bytes
      crates/erg_compiler/ty/codeobj.rs     consts_into_bytes, tuple_into_bytes, CodeObj::into_bytes, dump_locals,
                                            into_bytecode, from_bytes, from_pyc
      crates/erg_compiler/ty/deserialize.rs Deserializer::{consume, deserialize_u32, deserialize_const,
                                            deserialize_const_vec, deserialize_str_vec, deserialize_locals,
                                            deserialize_str, deserialize_bytes}
    and from CPython's Python/marshal.c (r_object) for the type codes the writer can emit.

    The tables (DataTypePrefix discriminants, From<u8>, magic-number ranges, FastKind) are regenerated from the
    source into gen/MarshalTab.v on every run.

    Every function that exists in two states takes [fx : bool]:
      fx = true   the code as it is now (after the `fix:` commits recorded in known/C15.json)
      fx = false  the code as it was in the design round (`_nofix`): [Nat] written as [(n as i32)],
                  [v.remove(0)] / [drain(..n)] / [assert_eq!] / [unreachable!] / unknown magic number /
                  type_error(.., other.ref_t()) panic.
    Definitions only; proofs are in Proofs.v. *)
From Coq Require Import ZArith List Bool Lia.
From ErgV Require Import gen.MarshalTab.
Import ListNotations.
Open Scope Z_scope.

(* ------------------------------------------------------------------------------------------------ outcomes *)
Inductive err := EBroken | EUnsupported | EType | EUtf8 | EBytes.
(* EBroken      DeserializeError::file_broken_error
   EUnsupported "cannot deserialize this object: <prefix>"
   EType        DeserializeError::type_error
   EUtf8        From<FromUtf8Error>
   EBytes       "failed to load bytes"                                                                       *)
Inductive res (A : Type) := Ok (a : A) | Err (e : err) | Panic | Fuel.
Arguments Ok {A}. Arguments Err {A}. Arguments Panic {A}. Arguments Fuel {A}.
Definition bind {A B} (r : res A) (f : A -> res B) : res B :=
  match r with Ok a => f a | Err e => Err e | Panic => Panic | Fuel => Fuel end.
Notation "x <- r ;; k" := (bind r (fun x => k)) (at level 61, r at next level, right associativity).
Notation "' p <- r ;; k" := (bind r (fun x => match x with p => k end))
  (at level 61, p pattern, r at next level, right associativity).

(* ------------------------------------------------------------------------------------------------ integers, bytes *)
(** [x.to_le_bytes()] of an n-byte integer; for a wider or negative [z] this is the two's-complement
    truncation ([as u8], [as u32], [as i32] followed by to_le_bytes). *)
Fixpoint le_bytes (n : nat) (z : Z) : list Z :=
  match n with O => [] | S k => z mod 256 :: le_bytes k (z / 256) end.
(** [uNN::from_le_bytes] *)
Fixpoint le_val (bs : list Z) : Z :=
  match bs with [] => 0 | b :: r => b + 256 * le_val r end.
Definition i32_max : Z := 2147483647.
Definition to_i32 (u : Z) : Z := if u <=? i32_max then u else u - 4294967296.
Definition to_i16 (u : Z) : Z := if u <? 32768 then u else u - 65536.
Definition len {A} (l : list A) : Z := Z.of_nat (length l).

(** split [bs] after its first [n] elements, [None] when it is shorter (cost: min(n, |bs|), never builds a big nat) *)
Fixpoint splitz (bs : list Z) (n : Z) : option (list Z * list Z) :=
  if n <=? 0 then Some ([], bs)
  else match bs with
       | [] => None
       | b :: r => match splitz r (n - 1) with Some (a, r') => Some (b :: a, r') | None => None end
       end.

Fixpoint lookup (k : Z) (t : list (Z * Z)) : option Z :=
  match t with [] => None | (a, b) :: r => if k =? a then Some b else lookup k r end.

Fixpoint list_eqb (a b : list Z) : bool :=
  match a, b with
  | [], [] => true
  | x :: a', y :: b' => (x =? y) && list_eqb a' b'
  | _, _ => false
  end.
Definition contains (l : list (list Z)) (x : list Z) : bool := existsb (list_eqb x) l.

(* ------------------------------------------------------------------------------------------------ UTF-8 *)
(** a Rust [str] is modelled by its scalar values; [as_bytes()] is their UTF-8 encoding *)
Definition utf8_char (c : Z) : list Z :=
  if c <? 128 then [c]
  else if c <? 2048 then [192 + c / 64; 128 + c mod 64]
  else if c <? 65536 then [224 + c / 4096; 128 + (c / 64) mod 64; 128 + c mod 64]
  else [240 + c / 262144; 128 + (c / 4096) mod 64; 128 + (c / 64) mod 64; 128 + c mod 64].
Definition utf8 (s : list Z) : list Z := flat_map utf8_char s.
Definition is_ascii (s : list Z) : bool := forallb (fun c => c <? 128) s.
Definition is_surrogate (c : Z) : bool := (55296 <=? c) && (c <=? 57343).
Definition scalar (c : Z) : bool := (0 <=? c) && (c <? 1114112) && negb (is_surrogate c).
Definition is_cont (b : Z) : bool := (128 <=? b) && (b <? 192).

(** UTF-8 decoder. [sp = false]: [String::from_utf8] (strict);
    [sp = true]: [PyUnicode_DecodeUTF8(.., "surrogatepass")] (lone surrogates accepted). *)
Fixpoint utf8_dec (sp : bool) (bs : list Z) : option (list Z) :=
  match bs with
  | [] => Some []
  | b0 :: r0 =>
    if b0 <? 128 then option_map (cons b0) (utf8_dec sp r0)
    else if b0 <? 194 then None
    else if b0 <? 224 then
      match r0 with
      | b1 :: r1 =>
        if is_cont b1 then option_map (cons ((b0 - 192) * 64 + (b1 - 128))) (utf8_dec sp r1) else None
      | _ => None
      end
    else if b0 <? 240 then
      match r0 with
      | b1 :: b2 :: r2 =>
        let c := (b0 - 224) * 4096 + (b1 - 128) * 64 + (b2 - 128) in
        if is_cont b1 && is_cont b2 && (2048 <=? c) && (sp || negb (is_surrogate c))
        then option_map (cons c) (utf8_dec sp r2) else None
      | _ => None
      end
    else if b0 <? 245 then
      match r0 with
      | b1 :: b2 :: b3 :: r3 =>
        let c := (b0 - 240) * 262144 + (b1 - 128) * 4096 + (b2 - 128) * 64 + (b3 - 128) in
        if is_cont b1 && is_cont b2 && is_cont b3 && (65536 <=? c) && (c <? 1114112)
        then option_map (cons c) (utf8_dec sp r3) else None
      | _ => None
      end
    else None
  end.

(* ------------------------------------------------------------------------------------------------ values *)
(** CodeObj (ty/codeobj.rs); all counters are u32, byte vectors are lists of 0..255, Str are scalar-value lists *)
Record code_ (V : Type) : Type := mkCode {
  argcount : Z; posonlyargcount : Z; kwonlyargcount : Z; nlocals : Z; stacksize : Z; flags : Z;
  co_code : list Z; consts : list V;
  names : list (list Z); varnames : list (list Z); freevars : list (list Z); cellvars : list (list Z);
  filename : list Z; name : list Z; qualname : list Z; firstlineno : Z;
  lnotab : list Z; exceptiontable : list Z }.
Arguments mkCode {V}. Arguments argcount {V}. Arguments posonlyargcount {V}. Arguments kwonlyargcount {V}.
Arguments nlocals {V}. Arguments stacksize {V}. Arguments flags {V}. Arguments co_code {V}. Arguments consts {V}.
Arguments names {V}. Arguments varnames {V}. Arguments freevars {V}. Arguments cellvars {V}.
Arguments filename {V}. Arguments name {V}. Arguments qualname {V}. Arguments firstlineno {V}.
Arguments lnotab {V}. Arguments exceptiontable {V}.

(** ValueObj restricted to what [into_bytes] distinguishes; every other variant is [VOther] *)
Inductive value : Type :=
| VInt (i : Z)          (* Int(i32) *)
| VNat (n : Z)          (* Nat(u64) *)
| VFloat (bits : Z)     (* Float(f64) as its IEEE-754 bit pattern (u64) *)
| VStr (s : list Z)
| VBool (b : bool)
| VNone
| VTuple (l : list value)
| VList (l : list value)
| VCode (c : code_ value)
| VOther.

(* ------------------------------------------------------------------------------------------------ writer *)
(** serialize.rs: str_into_bytes *)
Definition str_into_bytes (s : list Z) (is_interned : bool) : list Z :=
  let b := utf8 s in
  (if is_ascii s && (len b <=? 255)
   then [if is_interned then pfx_ShortAsciiInterned else pfx_ShortAscii; len b mod 256]   (* cont.len() as u8 *)
   else pfx_Unicode :: le_bytes 4 (len b))                                                (* cont.len() as u32 *)
  ++ b.
(** header shared by strs_into_bytes, consts_into_bytes, tuple_into_bytes ([len > 255] / [len <= 255] are the same test) *)
Definition seq_header (n : Z) : list Z :=
  if 255 <? n then pfx_Tuple :: le_bytes 4 n else [pfx_SmallTuple; n mod 256].
(** serialize.rs: strs_into_bytes *)
Definition strs_into_bytes (l : list (list Z)) : list Z :=
  seq_header (len l) ++ flat_map (fun s => str_into_bytes s true) l.
(** serialize.rs: raw_string_into_bytes *)
Definition raw_string_into_bytes (b : list Z) : list Z := pfx_Str :: le_bytes 4 (len b) ++ b.

(** 15-bit digits, least significant first: [while rest != 0 { push(rest & 0x7fff); rest >>= 15 }] *)
Fixpoint digits15 (fuel : nat) (n : Z) : res (list Z) :=
  if n =? 0 then Ok []
  else match fuel with
       | O => Fuel
       | S f => ds <- digits15 f (n / 32768) ;; Ok (n mod 32768 :: ds)
       end.
(** value.rs: into_bytes, arm [Nat(n) if n > i32::MAX] (TYPE_LONG); 5 digits hold any u64 *)
Definition long_bytes (n : Z) : res (list Z) :=
  ds <- digits15 5 n ;;
  Ok (pfx_Long :: le_bytes 4 (len ds) ++ flat_map (le_bytes 2) ds).

(** codeobj.rs: dump_locals *)
Definition dump_locals (ver : Z) (vn fv cv : list (list Z)) : list Z :=
  if 11 <=? ver then
    let vn' := filter (fun n => negb (contains fv n) && negb (contains cv n)) vn in
    let kinds := map (fun _ => fk_Local) vn' ++ map (fun _ => fk_Free) fv
                 ++ map (fun _ => (fk_Cell + fk_Local) mod 256) cv in
    strs_into_bytes (vn' ++ fv ++ cv) ++ raw_string_into_bytes kinds
  else strs_into_bytes vn ++ strs_into_bytes fv ++ strs_into_bytes cv.

(** codeobj.rs: CodeObj::into_bytes, given the already serialised elements of [consts] *)
Definition code_into_bytes {V} (ver : Z) (c : code_ V) (consts_payload : list Z) : list Z :=
  [pfx_Code] ++ le_bytes 4 (argcount c)
  ++ (if 8 <=? ver then le_bytes 4 (posonlyargcount c) else [])
  ++ le_bytes 4 (kwonlyargcount c)
  ++ (if ver <? 11 then le_bytes 4 (nlocals c) else [])
  ++ le_bytes 4 (stacksize c) ++ le_bytes 4 (flags c)
  ++ raw_string_into_bytes (co_code c)
  ++ (seq_header (len (consts c)) ++ consts_payload)          (* consts_into_bytes *)
  ++ strs_into_bytes (names c)
  ++ dump_locals ver (varnames c) (freevars c) (cellvars c)
  ++ str_into_bytes (filename c) false
  ++ str_into_bytes (name c) true
  ++ (if 11 <=? ver then str_into_bytes (qualname c) true else [])
  ++ le_bytes 4 (firstlineno c)
  ++ raw_string_into_bytes (lnotab c)
  ++ (if 11 <=? ver then raw_string_into_bytes (exceptiontable c) else []).

(** value.rs: ValueObj::into_bytes *)
Fixpoint into_bytes_gen (fx : bool) (ver : Z) (v : value) {struct v} : res (list Z) :=
  let all := fix all (l : list value) : res (list Z) :=
               match l with
               | [] => Ok []
               | x :: r => a <- into_bytes_gen fx ver x ;; b <- all r ;; Ok (a ++ b)
               end in
  match v with
  | VInt i => Ok (pfx_Int32 :: le_bytes 4 i)
  | VNat n => if fx && (i32_max <? n) then long_bytes n
              else Ok (pfx_Int32 :: le_bytes 4 n)              (* (n as i32).to_le_bytes() *)
  | VFloat b => Ok (pfx_BinFloat :: le_bytes 8 b)
  | VStr s => Ok (str_into_bytes s false)
  | VBool true => Ok [pfx_True]
  | VBool false => Ok [pfx_False]
  | VList l | VTuple l => p <- all l ;; Ok (seq_header (len l) ++ p)     (* tuple_into_bytes *)
  | VNone => Ok [pfx_None]
  | VCode c => p <- all (consts c) ;; Ok (code_into_bytes ver c p)
  | VOther => Panic                                                       (* "this object cannot be serialized" *)
  end.
Definition into_bytes := into_bytes_gen true.
Definition into_bytes_nofix := into_bytes_gen false.

(** serialize.rs: get_ver_from_magic_num *)
Fixpoint ver_of_magic_in (t : list (Z * Z * Z)) (m : Z) : option Z :=
  match t with
  | [] => None
  | (lo, hi, minor) :: r => if (lo <=? m) && (m <=? hi) then Some minor else ver_of_magic_in r m
  end.
Definition ver_of_magic := ver_of_magic_in magic_ranges.

(** codeobj.rs: CodeObj::into_bytecode (magic number given; [ts] = get_timestamp_bytes as a u32) *)
Definition into_bytecode_gen (fx : bool) (magic ts : Z) (c : code_ value) : res (list Z) :=
  match ver_of_magic magic with
  | None => Panic                                        (* "unknown magic number (unsupported Python version)" *)
  | Some ver =>
    b <- into_bytes_gen fx ver (VCode c) ;;
    Ok (le_bytes 4 (Z.lor 168624128 magic) ++ [0; 0; 0; 0] ++ le_bytes 4 ts ++ [0; 0; 0; 0] ++ b)
  end.
Definition into_bytecode := into_bytecode_gen true.

(* ------------------------------------------------------------------------------------------------ reference reader *)
(** Python values as far as the writer can denote them; a code object is the tuple of its marshalled fields as
    Python exposes them (co_argcount, .., co_exceptiontable); fields absent in a version are 0 / [] *)
Inductive pyval : Type :=
| PInt (z : Z) | PFloat (bits : Z) | PStr (s : list Z) | PBytes (b : list Z) | PBool (b : bool) | PNone
| PTuple (l : list pyval) | PCode (c : code_ pyval).

Inductive pres (A : Type) := POk (a : A) | PErr | PUnsupported | PFuel.
Arguments POk {A}. Arguments PErr {A}. Arguments PUnsupported {A}. Arguments PFuel {A}.
Definition pbind {A B} (r : pres A) (f : A -> pres B) : pres B :=
  match r with POk a => f a | PErr => PErr | PUnsupported => PUnsupported | PFuel => PFuel end.
Notation "x <~ r ;; k" := (pbind r (fun x => k)) (at level 61, r at next level, right associativity).
Notation "' p <~ r ;; k" := (pbind r (fun x => match x with p => k end))
  (at level 61, p pattern, r at next level, right associativity).

Definition p_take (n : Z) (bs : list Z) : pres (list Z * list Z) :=
  match splitz bs n with Some x => POk x | None => PErr end.       (* EOFError: marshal data too short *)
Definition p_long (bs : list Z) : pres (Z * list Z) :=
  '(x, r) <~ p_take 4 bs ;; POk (to_i32 (le_val x), r).             (* r_long: signed 32 bit *)
Definition p_byte (bs : list Z) : pres (Z * list Z) :=
  match bs with [] => PErr | b :: r => POk (b, r) end.

Definition MAX_MARSHAL_STACK_DEPTH : Z := 2000.

(** r_PyLong: |n| 15-bit digits, little endian, each a non-negative short, the top one non-zero *)
Fixpoint py_digits (bs : list Z) : option (list Z) :=
  match bs with
  | [] => Some []
  | lo :: hi :: r =>
    let dg := to_i16 (lo + 256 * hi) in
    if dg <? 0 then None                                   (* "digit out of range in long" *)
    else option_map (cons dg) (py_digits r)
  | _ => None
  end.
Fixpoint digits_val (ds : list Z) : Z :=
  match ds with [] => 0 | dg :: r => dg + 32768 * digits_val r end.
Definition r_pylong (bs : list Z) : pres (pyval * list Z) :=
  '(n, r) <~ p_long bs ;;
  if n =? 0 then POk (PInt 0, r)
  else if n =? -2147483648 then PErr                       (* "long size out of range" *)
  else '(x, r') <~ p_take (2 * Z.abs n) r ;;
       match py_digits x with
       | None => PErr
       | Some ds => if last ds 0 =? 0 then PErr            (* "unnormalized long data" *)
                    else POk (PInt (if n <? 0 then - digits_val ds else digits_val ds), r')
       end.

Definition as_strs (v : pyval) : option (list (list Z)) :=
  match v with
  | PTuple l => fold_right (fun x acc => match x, acc with PStr s, Some a => Some (s :: a) | _, _ => None end) (Some []) l
  | _ => None
  end.
Definition kind_names (flag : Z) (ns : list (list Z)) (ks : list Z) : list (list Z) :=
  map fst (filter (fun nk => negb (Z.land (snd nk) flag =? 0)) (combine ns ks)).

(** r_object, case TYPE_CODE, for the field order of each version (3.7 | 3.8–3.10 | 3.11);
    [ro] reads one object at the depth of the fields. Of the constructor's validation only the field types, the
    signs of the counters and (3.11) the agreement of names and kinds are modelled. Before 3.11 the constructor
    recomputes CO_NOFREE (0x40) of co_flags from the closure tables: that bit is not part of the marshalled value
    and is cleared here. *)
Definition r_code (ro : list Z -> pres (pyval * list Z)) (ver : Z) (bs : list Z) : pres (pyval * list Z) :=
  '(argc, bs) <~ p_long bs ;;
  '(posc, bs) <~ (if 8 <=? ver then p_long bs else POk (0, bs)) ;;
  '(kwc, bs) <~ p_long bs ;;
  '(nloc, bs) <~ (if ver <? 11 then p_long bs else POk (0, bs)) ;;
  '(stk, bs) <~ p_long bs ;;
  '(flg, bs) <~ p_long bs ;;
  '(code, bs) <~ ro bs ;;
  '(cst, bs) <~ ro bs ;;
  '(nms, bs) <~ ro bs ;;
  if 11 <=? ver then
    '(lpn, bs) <~ ro bs ;;
    '(lpk, bs) <~ ro bs ;;
    '(fnm, bs) <~ ro bs ;;
    '(nm, bs) <~ ro bs ;;
    '(qn, bs) <~ ro bs ;;
    '(fl, bs) <~ p_long bs ;;
    '(lt, bs) <~ ro bs ;;
    '(et, bs) <~ ro bs ;;
    match code, cst, as_strs nms, as_strs lpn, lpk, fnm, nm, qn, lt, et with
    | PBytes code, PTuple cst, Some nms, Some lpn, PBytes lpk, PStr fnm, PStr nm, PStr qn, PBytes lt, PBytes et =>
      if (argc <? 0) || (posc <? 0) || (kwc <? 0) || (stk <? 0) || (flg <? 0)
         || negb (len lpn =? len lpk) then PErr
      else POk (PCode (mkCode argc posc kwc (len (kind_names 32 lpn lpk)) stk flg code cst nms
                              (kind_names 32 lpn lpk) (kind_names 128 lpn lpk) (kind_names 64 lpn lpk)
                              fnm nm qn fl lt et), bs)
    | _, _, _, _, _, _, _, _, _, _ => PErr
    end
  else
    '(vn, bs) <~ ro bs ;;
    '(fv, bs) <~ ro bs ;;
    '(cv, bs) <~ ro bs ;;
    '(fnm, bs) <~ ro bs ;;
    '(nm, bs) <~ ro bs ;;
    '(fl, bs) <~ p_long bs ;;
    '(lt, bs) <~ ro bs ;;
    match code, cst, as_strs nms, as_strs vn, as_strs fv, as_strs cv, fnm, nm, lt with
    | PBytes code, PTuple cst, Some nms, Some vn, Some fv, Some cv, PStr fnm, PStr nm, PBytes lt =>
      if (argc <? 0) || (posc <? 0) || (kwc <? 0) || (nloc <? 0) || (stk <? 0) || (flg <? 0) then PErr
      else POk (PCode (mkCode argc posc kwc nloc stk (flg - Z.land flg 64) code cst nms vn fv cv fnm nm [] fl lt []), bs)
    | _, _, _, _, _, _, _, _, _ => PErr
    end.

(** r_object: [d] is p->depth before the call. The FLAG_REF bit (0x80) only appends the object to the reference
    table, which no stream of the writer ever reads back (TYPE_REF 'r' is [PUnsupported] here). *)
Fixpoint r_object (fuel : nat) (ver : Z) (d : Z) (bs : list Z) {struct fuel} : pres (pyval * list Z) :=
  match fuel with
  | O => PFuel
  | S f =>
    '(code, r) <~ p_byte bs ;;                                       (* EOFError *)
    if MAX_MARSHAL_STACK_DEPTH <=? d then PErr                       (* "recursion limit exceeded" *)
    else
      let ty := code mod 128 in
      let seq := fun n r => '(l, r') <~ r_seq f ver (d + 1) n r ;; POk (PTuple l, r') in
      if ty =? 78 then POk (PNone, r)                                (* 'N' *)
      else if ty =? 84 then POk (PBool true, r)                      (* 'T' *)
      else if ty =? 70 then POk (PBool false, r)                     (* 'F' *)
      else if ty =? 105 then '(n, r') <~ p_long r ;; POk (PInt n, r')                 (* 'i' *)
      else if ty =? 108 then r_pylong r                              (* 'l' *)
      else if ty =? 103 then '(x, r') <~ p_take 8 r ;; POk (PFloat (le_val x), r')    (* 'g' *)
      else if ty =? 115 then                                         (* 's' *)
        '(n, r') <~ p_long r ;; if n <? 0 then PErr else '(x, r'') <~ p_take n r' ;; POk (PBytes x, r'')
      else if (ty =? 97) || (ty =? 65) then                          (* 'a' 'A' *)
        '(n, r') <~ p_long r ;; if n <? 0 then PErr else '(x, r'') <~ p_take n r' ;; POk (PStr x, r'')
      else if (ty =? 122) || (ty =? 90) then                         (* 'z' 'Z' *)
        '(n, r') <~ p_byte r ;; '(x, r'') <~ p_take n r' ;; POk (PStr x, r'')
      else if (ty =? 117) || (ty =? 116) then                        (* 'u' 't' *)
        '(n, r') <~ p_long r ;;
        if n <? 0 then PErr
        else '(x, r'') <~ p_take n r' ;;
             match utf8_dec true x with Some s => POk (PStr s, r'') | None => PErr end
      else if ty =? 41 then '(n, r') <~ p_byte r ;; seq n r'          (* ')' *)
      else if ty =? 40 then '(n, r') <~ p_long r ;; if n <? 0 then PErr else seq n r'   (* '(' *)
      else if ty =? 99 then r_code (r_object f ver (d + 1)) ver r    (* 'c' *)
      else if existsb (Z.eqb ty) [48; 83; 46; 102; 120; 121; 73; 91; 123; 60; 62; 114] then PUnsupported
           (* '0' 'S' '.' 'f' 'x' 'y' 'I' '[' '{' '<' '>' 'r': CPython reads these, the model does not *)
      else PErr                                                      (* "bad marshal data (unknown type code)" *)
  end
with r_seq (fuel : nat) (ver : Z) (d : Z) (n : Z) (bs : list Z) {struct fuel} : pres (list pyval * list Z) :=
  if n <=? 0 then POk ([], bs)
  else match fuel with
       | O => PFuel
       | S f => '(x, r) <~ r_object f ver d bs ;; '(l, r') <~ r_seq f ver d (n - 1) r ;; POk (x :: l, r')
       end.

Definition fuel_for (bs : list Z) : nat := S (S (2 * length bs)).
(** marshal.loads(bytes) of Python 3.[ver] (trailing bytes are returned, CPython ignores them) *)
Definition py_loads (ver : Z) (bs : list Z) : pres (pyval * list Z) := r_object (fuel_for bs) ver 0 bs.

(* ------------------------------------------------------------------------------------------------ erg's reader *)
(** what a read past the end does: [v.remove(0)] / [v.drain(..n)] panic; the repaired code returns file_broken_error *)
Definition short {A} (fx : bool) : res A := if fx then Err EBroken else Panic.
(** Deserializer::consume::<LEN>, v.drain(..len) *)
Definition take (fx : bool) (n : Z) (bs : list Z) : res (list Z * list Z) :=
  match splitz bs n with Some x => Ok x | None => short fx end.
(** v.remove(0) *)
Definition take1 (fx : bool) (bs : list Z) : res (Z * list Z) :=
  match bs with [] => short fx | b :: r => Ok (b, r) end.
(** Deserializer::deserialize_u32 *)
Definition rd_u32 (fx : bool) (bs : list Z) : res (Z * list Z) :=
  '(x, r) <- take fx 4 bs ;; Ok (le_val x, r).
(** DataTypePrefix::from(u8) *)
Definition prefix_of (b : Z) : Z := match lookup b prefix_decode with Some p => p | None => pfx_Illegal end.
(** String::from_utf8(bytes)? *)
Definition rd_utf8 (x : list Z) : res (list Z) :=
  match utf8_dec false x with Some s => Ok s | None => Err EUtf8 end.

(** recursion bound of the repaired reader (Deserializer::MAX_DEPTH) *)
Definition MAX_DEPTH : Z := 128.

(** Deserializer::deserialize_bytes *)
Definition rd_bytes (fx : bool) (bs : list Z) : res (list Z * list Z) :=
  '(b, r) <- take1 fx bs ;;
  if negb (prefix_of b =? pfx_Str) then Err EBytes
  else '(n, r) <- rd_u32 fx r ;; take fx n r.

(** DeserializeError::type_error(field, expect, other.ref_t()): [ValueObj::ref_t] panics unconditionally
    ("cannot get reference of the const"), so in the design round every mistyped field crashed the reader;
    the repaired code passes [other.class()] *)
Definition type_err {A} (fx : bool) : res A := if fx then Err EType else Panic.
(** Deserializer::deserialize_str_vec: a List/Tuple of Str (try_into_str on each element; the error for a
    non-sequence is built with [other.class()] in both states) *)
Definition as_vstrs (fx : bool) (v : value) : res (list (list Z)) :=
  match v with
  | VList l | VTuple l =>
    fold_right (fun x acc => a <- acc ;; match x with VStr s => Ok (s :: a) | _ => type_err fx end) (Ok []) l
  | _ => Err EType
  end.
Definition rd_str_vec (fx : bool) (rc : list Z -> res (value * list Z)) (bs : list Z) : res (list (list Z) * list Z) :=
  '(v, r) <- rc bs ;; l <- as_vstrs fx v ;; Ok (l, r).
(** Deserializer::deserialize_str *)
Definition rd_str (fx : bool) (rc : list Z -> res (value * list Z)) (bs : list Z) : res (list Z * list Z) :=
  '(v, r) <- rc bs ;; match v with VStr s => Ok (s, r) | _ => type_err fx end.
(** Deserializer::deserialize_const_vec *)
Definition rd_const_vec (fx : bool) (rc : list Z -> res (value * list Z)) (bs : list Z) : res (list value * list Z) :=
  '(v, r) <- rc bs ;; match v with VList l => Ok (l, r) | _ => type_err fx end.

(** the partition loop of deserialize_locals (3.11) *)
Fixpoint partition_kinds (fx : bool) (nk : list (list Z * Z))
  : res (list (list Z) * list (list Z) * list (list Z)) :=
  match nk with
  | [] => Ok ([], [], [])
  | (n, k) :: r =>
    match lookup k fastkind_decode with
    | Some fk =>
      '(vn, fv, cv) <- partition_kinds fx r ;;
      if fk =? fk_Local then Ok (n :: vn, fv, cv)
      else if fk =? fk_Free then Ok (vn, n :: fv, cv)
      else if fk =? fk_Cell then Ok (vn, fv, n :: cv)
      else if fx then Err EBroken else Panic
    | None =>
      if fx then
        if k =? fk_Local + fk_Cell then '(vn, fv, cv) <- partition_kinds fx r ;; Ok (vn, fv, n :: cv)
        else Err EBroken
      else Panic                                                   (* unreachable!() *)
    end
  end.
(** Deserializer::deserialize_locals *)
Definition rd_locals (fx : bool) (rc : list Z -> res (value * list Z)) (ver : Z) (bs : list Z)
  : res (list (list Z) * list (list Z) * list (list Z) * list Z) :=
  if 11 <=? ver then
    '(ns, r) <- rd_str_vec fx rc bs ;;
    '(ks, r) <- rd_bytes fx r ;;
    if negb (len ns =? len ks) then short fx                       (* assert_eq!(names.len(), kinds.len()) *)
    else '(vn, fv, cv) <- partition_kinds fx (combine ns ks) ;; Ok (vn, fv, cv, r)
  else
    '(vn, r) <- rd_str_vec fx rc bs ;;
    '(fv, r) <- rd_str_vec fx rc r ;;
    '(cv, r) <- rd_str_vec fx rc r ;;
    Ok (vn, fv, cv, r).

(** CodeObj::from_bytes; [rc] is deserialize_const of the code object's own Deserializer *)
Definition from_bytes_with (fx : bool) (rc : list Z -> res (value * list Z)) (ver : Z) (bs : list Z)
  : res (code_ value * list Z) :=
  '(b, r) <- take1 fx bs ;;
  if negb (b =? pfx_Code) then short fx                            (* assert_eq!(v.remove(0), Code, "not a code object") *)
  else
  '(argc, r) <- rd_u32 fx r ;;
  '(posc, r) <- (if 8 <=? ver then rd_u32 fx r else Ok (0, r)) ;;
  '(kwc, r) <- rd_u32 fx r ;;
  '(nloc, r) <- (if 11 <=? ver then Ok (0, r) else rd_u32 fx r) ;;
  '(stk, r) <- rd_u32 fx r ;;
  '(flg, r) <- rd_u32 fx r ;;
  '(code, r) <- rd_bytes fx r ;;
  '(cst, r) <- rd_const_vec fx rc r ;;
  '(nms, r) <- rd_str_vec fx rc r ;;
  '(vn, fv, cv, r) <- rd_locals fx rc ver r ;;
  '(fnm, r) <- rd_str fx rc r ;;
  '(nm, r) <- rd_str fx rc r ;;
  '(qn, r) <- (if 11 <=? ver then rd_str fx rc r else Ok (nm, r)) ;;
  '(fl, r) <- rd_u32 fx r ;;
  '(lt, r) <- rd_bytes fx r ;;
  '(et, r) <- (if 11 <=? ver then rd_bytes fx r else Ok ([], r)) ;;
  Ok (mkCode argc posc kwc nloc stk flg code cst nms vn fv cv fnm nm qn fl lt et, r).

(** the TYPE_LONG arm of the repaired reader: 0..5 digits of 16 bits each, summed; only values of a u64 *)
Fixpoint rd_digits (fx : bool) (k : nat) (i : Z) (bs : list Z) : res (Z * list Z) :=
  match k with
  | O => Ok (0, bs)
  | S k' => '(x, r) <- take fx 2 bs ;; '(n, r') <- rd_digits fx k' (i + 1) r ;; Ok (le_val x * 2 ^ (15 * i) + n, r')
  end.

(** Deserializer::deserialize_const at recursion depth [d] *)
Fixpoint rd_const (fx : bool) (fuel : nat) (ver : Z) (d : Z) (bs : list Z) {struct fuel} : res (value * list Z) :=
  match fuel with
  | O => Fuel
  | S f =>
    if fx && (MAX_DEPTH <=? d) then Err EBroken
    else
    '(b, r) <- take1 fx bs ;;
    let p := prefix_of b in
    let seq := fun n r =>
      if fx && (len r <? n) then Err EBroken                          (* every element takes at least one byte *)
      else '(l, r') <- rd_elems fx f ver (d + 1) n r ;; Ok (VList l, r') in   (* get_cached_arr *)
    if p =? pfx_Int32 then '(x, r) <- take fx 4 r ;; Ok (VInt (to_i32 (le_val x)), r)
    else if fx && (p =? pfx_Long) then
      '(x, r) <- take fx 4 r ;;
      let nd := to_i32 (le_val x) in
      '(n, r) <- rd_digits fx (Z.to_nat (Z.min (Z.max nd 0) 5)) 0 r ;;
      if (0 <=? nd) && (nd <=? 5) && (n <? 18446744073709551616) then Ok (VNat n, r) else Err EUnsupported
    else if p =? pfx_BinFloat then '(x, r) <- take fx 8 r ;; Ok (VFloat (le_val x), r)
    else if (p =? pfx_ShortAscii) || (p =? pfx_ShortAsciiInterned) then
      '(n, r) <- take1 fx r ;; '(x, r) <- take fx n r ;; s <- rd_utf8 x ;; Ok (VStr s, r)
    else if (p =? pfx_Str) || (p =? pfx_Unicode) then
      '(n, r) <- rd_u32 fx r ;; '(x, r) <- take fx n r ;; s <- rd_utf8 x ;; Ok (VStr s, r)
    else if p =? pfx_True then Ok (VBool true, r)
    else if p =? pfx_False then Ok (VBool false, r)
    else if p =? pfx_SmallTuple then '(n, r) <- take1 fx r ;; seq n r
    else if p =? pfx_Tuple then '(n, r) <- rd_u32 fx r ;; seq n r
    else if p =? pfx_Code then
      (* v.insert(0, Code); CodeObj::from_bytes(v, python_ver) *)
      '(c, r) <- from_bytes_with fx (rd_const fx f ver (d + 1)) ver (pfx_Code :: r) ;; Ok (VCode c, r)
    else if p =? pfx_None then Ok (VNone, r)
    else Err EUnsupported
  end
with rd_elems (fx : bool) (fuel : nat) (ver : Z) (d : Z) (n : Z) (bs : list Z) {struct fuel} : res (list value * list Z) :=
  if n <=? 0 then Ok ([], bs)
  else match fuel with
       | O => Fuel
       | S f => '(x, r) <- rd_const fx f ver d bs ;; '(l, r') <- rd_elems fx f ver d (n - 1) r ;; Ok (x :: l, r')
       end.

(** Deserializer::deserialize_const on a fresh Deserializer *)
Definition read_const_gen (fx : bool) (ver : Z) (bs : list Z) : res (value * list Z) :=
  rd_const fx (fuel_for bs) ver 0 bs.
(** CodeObj::from_bytes *)
Definition from_bytes_gen (fx : bool) (ver : Z) (bs : list Z) : res (code_ value * list Z) :=
  from_bytes_with fx (rd_const fx (fuel_for bs) ver 0) ver bs.
(** CodeObj::from_pyc on the content of the file (what `erg --mode read` deserialises) *)
Definition read_pyc_gen (fx : bool) (bs : list Z) : res (Z * code_ value) :=
  '(m, r) <- take fx 4 bs ;;
  let magic := nth 0 m 0 + 256 * nth 1 m 0 in                     (* get_magic_num_from_bytes: the first two bytes *)
  match ver_of_magic magic with
  | None => short fx                                               (* panic!("unknown magic number ..") *)
  | Some ver =>
    '(_, r) <- rd_u32 fx r ;;
    '(_, r) <- rd_u32 fx r ;;
    '(_, r) <- rd_u32 fx r ;;
    '(c, _) <- from_bytes_gen fx ver r ;;
    Ok (ver, c)
  end.

Definition read_const := read_const_gen true.
Definition from_bytes := from_bytes_gen true.
Definition read_pyc := read_pyc_gen true.
Definition read_const_nofix := read_const_gen false.
Definition from_bytes_nofix := from_bytes_gen false.
Definition read_pyc_nofix := read_pyc_gen false.
