(** C15 — what the writer is meant to denote and what the reader is meant to give back; executable judges. *)
From Coq Require Import ZArith List Bool Lia.
From ErgV Require Import Common.Sx gen.MarshalTab Marshal.Model.
Import ListNotations.
Open Scope Z_scope.

(* ------------------------------------------------------------------------------------------------ intended Python value *)
(** the Python code object denoted by a CodeObj for target 3.[ver]: fields a version does not marshal are 0 / [];
    from 3.11 on locals are carried as names+kinds, and erg marks every cell variable Local|Cell, so CPython lists
    it among co_varnames too (whether that is the right encoding is property C14, not this one) *)
Definition py_code (ver : Z) (c : code_ value) (pconsts : list pyval) : code_ pyval :=
  if 11 <=? ver then
    let vn' := filter (fun n => negb (contains (freevars c) n) && negb (contains (cellvars c) n)) (varnames c) in
    mkCode (argcount c) (posonlyargcount c) (kwonlyargcount c) (len (vn' ++ cellvars c)) (stacksize c) (flags c)
           (co_code c) pconsts (names c) (vn' ++ cellvars c) (freevars c) (cellvars c)
           (filename c) (name c) (qualname c) (firstlineno c) (lnotab c) (exceptiontable c)
  else
    mkCode (argcount c) (if 8 <=? ver then posonlyargcount c else 0) (kwonlyargcount c) (nlocals c) (stacksize c)
           (flags c - Z.land (flags c) 64)        (* CO_NOFREE is recomputed by the constructor before 3.11 *)
           (co_code c) pconsts (names c) (varnames c) (freevars c) (cellvars c)
           (filename c) (name c) [] (firstlineno c) (lnotab c) [].

(** the Python value an erg constant stands for: Int and Nat are [int], List and Tuple constants are tuples *)
Fixpoint py_of (ver : Z) (v : value) {struct v} : pyval :=
  match v with
  | VInt i => PInt i
  | VNat n => PInt n
  | VFloat b => PFloat b
  | VStr s => PStr s
  | VBool b => PBool b
  | VNone => PNone
  | VTuple l | VList l => PTuple (map (py_of ver) l)
  | VCode c => PCode (py_code ver c (map (py_of ver) (consts c)))
  | VOther => PNone
  end.

(* ------------------------------------------------------------------------------------------------ what the reader gives back *)
(** erg's reader has one integer arm per type code ('i' gives Int, 'l' gives Nat), reads every sequence as List,
    and fills the fields a version does not carry the way from_bytes does *)
Definition norm_code (ver : Z) (c : code_ value) (nconsts : list value) : code_ value :=
  mkCode (argcount c) (if 8 <=? ver then posonlyargcount c else 0) (kwonlyargcount c)
         (if 11 <=? ver then 0 else nlocals c) (stacksize c) (flags c) (co_code c) nconsts (names c)
         (if 11 <=? ver
          then filter (fun n => negb (contains (freevars c) n) && negb (contains (cellvars c) n)) (varnames c)
          else varnames c)
         (freevars c) (cellvars c) (filename c) (name c)
         (if 11 <=? ver then qualname c else name c) (firstlineno c) (lnotab c)
         (if 11 <=? ver then exceptiontable c else []).
Fixpoint norm (ver : Z) (v : value) {struct v} : value :=
  match v with
  | VNat n => if n <=? i32_max then VInt n else VNat n
  | VTuple l | VList l => VList (map (norm ver) l)
  | VCode c => VCode (norm_code ver c (map (norm ver) (consts c)))
  | other => other
  end.

(* ------------------------------------------------------------------------------------------------ domain *)
Definition u31 (z : Z) : bool := (0 <=? z) && (z <=? i32_max).
Definition str_ok (s : list Z) : bool := forallb scalar s && (len (utf8 s) <=? i32_max).
Definition bytes_ok (b : list Z) : bool := forallb (fun x => (0 <=? x) && (x <? 256)) b && (len b <=? i32_max).
Definition strs_ok (l : list (list Z)) : bool := forallb str_ok l && (len l <=? i32_max).
Definition code_fields_ok {V} (c : code_ V) : bool :=
  u31 (argcount c) && u31 (posonlyargcount c) && u31 (kwonlyargcount c) && u31 (nlocals c) && u31 (stacksize c)
  && u31 (flags c) && u31 (firstlineno c)
  && bytes_ok (co_code c) && bytes_ok (lnotab c) && bytes_ok (exceptiontable c)
  && strs_ok (names c) && strs_ok (varnames c) && strs_ok (freevars c) && strs_ok (cellvars c)
  && str_ok (filename c) && str_ok (name c) && str_ok (qualname c)
  && (len (consts c) <=? i32_max)
  && (len (varnames c) + len (freevars c) + len (cellvars c) <=? i32_max).

(** the values of the types: Int is an i32, Nat a u64, Float any 64-bit pattern, Str any sequence of Unicode scalar
    values, counters of a code object non-negative i32 (CPython reads them signed), sizes within marshal's limit
    (2^31 - 1), no variant [into_bytes] refuses *)
Fixpoint serialisable (v : value) {struct v} : bool :=
  let all := fix all (l : list value) : bool := match l with [] => true | x :: r => serialisable x && all r end in
  match v with
  | VInt i => (-2147483648 <=? i) && (i <=? i32_max)
  | VNat n => (0 <=? n) && (n <? 18446744073709551616)
  | VFloat b => (0 <=? b) && (b <? 18446744073709551616)
  | VStr s => str_ok s
  | VBool _ | VNone => true
  | VTuple l | VList l => (len l <=? i32_max) && all l
  | VCode c => code_fields_ok c && all (consts c)
  | VOther => false
  end.

(** nesting as both readers count it: a sequence is one level above its elements, the constants of a code object
    two levels above it (field, then element), and so are its name strings *)
Fixpoint vdepth (v : value) {struct v} : Z :=
  let mx := fix mx (l : list value) : Z := match l with [] => 0 | x :: r => Z.max (vdepth x) (mx r) end in
  match v with
  | VTuple l | VList l => 1 + mx l
  | VCode c => 2 + Z.max 1 (mx (consts c))
  | _ => 1
  end.

(* ------------------------------------------------------------------------------------------------ wire encodings *)
Definition enc_strs (l : list (list Z)) : sx := SL (map sx_of_zs l).
Definition enc_code {V} (f : V -> sx) (c : code_ V) : sx :=
  SL [SZ (argcount c); SZ (posonlyargcount c); SZ (kwonlyargcount c); SZ (nlocals c); SZ (stacksize c); SZ (flags c);
      sx_of_zs (co_code c); SL (map f (consts c)); enc_strs (names c); enc_strs (varnames c); enc_strs (freevars c);
      enc_strs (cellvars c); sx_of_zs (filename c); sx_of_zs (name c); sx_of_zs (qualname c); SZ (firstlineno c);
      sx_of_zs (lnotab c); sx_of_zs (exceptiontable c)].
Fixpoint enc_value (v : value) {struct v} : sx :=
  match v with
  | VInt i => SL [SZ 0; SZ i]
  | VNat n => SL [SZ 1; SZ n]
  | VFloat b => SL [SZ 2; SZ b]
  | VStr s => SL [SZ 3; sx_of_zs s]
  | VBool b => SL [SZ 4; sx_bool b]
  | VNone => SL [SZ 5]
  | VTuple l => SL [SZ 6; SL (map enc_value l)]
  | VList l => SL [SZ 7; SL (map enc_value l)]
  | VCode c => SL [SZ 8; enc_code enc_value c]
  | VOther => SL [SZ 9]
  end.
Fixpoint enc_pyval (v : pyval) {struct v} : sx :=
  match v with
  | PInt i => SL [SZ 0; SZ i]
  | PFloat b => SL [SZ 2; SZ b]
  | PStr s => SL [SZ 3; sx_of_zs s]
  | PBool b => SL [SZ 4; sx_bool b]
  | PNone => SL [SZ 5]
  | PTuple l => SL [SZ 6; SL (map enc_pyval l)]
  | PCode c => SL [SZ 8; enc_code enc_pyval c]
  | PBytes b => SL [SZ 10; sx_of_zs b]
  end.

Fixpoint sx_eqb (a b : sx) {struct a} : bool :=
  match a, b with
  | SZ x, SZ y => x =? y
  | SL la, SL lb =>
    (fix go (la lb : list sx) : bool :=
       match la, lb with
       | [], [] => true
       | x :: ra, y :: rb => sx_eqb x y && go ra rb
       | _, _ => false
       end) la lb
  | _, _ => false
  end.

(* ------------------------------------------------------------------------------------------------ judges *)
(** writer half: what the target interpreter's own [marshal.loads] made of the bytes ([obs], canonical encoding of
    the Python object: type tag + content, floats by bit pattern) is the intended value, same type, nothing else *)
Definition judge_writer (ver : Z) (v : value) (obs : sx) : bool := sx_eqb obs (enc_pyval (py_of ver v)).

(** reader half. Outcome classes of an observed run of the reader: 0 = Ok, 1 = error reported, anything else = crash
    (panic, abort, stack overflow). *)
Definition judge_no_crash (cls : Z) : bool := (cls =? 0) || (cls =? 1).
(** a constant / code object written by the compiler is read back: Ok, the normalised value, nothing left over *)
Definition judge_read_back (ver : Z) (v : value) (cls : Z) (obs : sx) (rest : Z) : bool :=
  (cls =? 0) && sx_eqb obs (enc_value (norm ver v)) && (rest =? 0).

(* ------------------------------------------------------------------------------------------------ known finding *)
(** `erg --mode read` = from_pyc, then CodeObj::code_info (the disassembler) on the result. The disassembler is not
    modelled; it panics on bytecode the compiler would not emit (unknown opcode, operand out of range). The class of
    inputs on which the command can crash although [read_total] holds: those that deserialise. known/C15.json *)
Definition Known_C15_disasm (bs : list Z) : bool := match read_pyc bs with Ok _ => true | _ => false end.
