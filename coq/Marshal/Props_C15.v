(** C15 — property theorems *)
From Coq Require Import ZArith List.
From ErgV Require Import Marshal.Model Marshal.Spec Marshal.Proofs.
Import ListNotations.
