(** C15 — constants and .pyc files round-trip through marshal and the reader: the property theorems.

    [ver] is the minor version of the target interpreter; the layouts are  ver < 8 (3.7),  8 <= ver < 11 (3.8–3.10),
    11 <= ver (3.11).  All theorems hold for every [ver], every value of the types and every nesting depth up to the
    recursion limit of the respective reader (CPython: 2000, erg: 128).  [into_bytes], [read_const], [from_bytes],
    [read_pyc] are the code as it is now; the [_nofix] functions are the code of the design round. *)
From Coq Require Import ZArith List.
From ErgV Require Import Marshal.Model Marshal.Spec Marshal.Proofs.
Import ListNotations.
Open Scope Z_scope.

(** The writer is defined (does not panic) on every constant of the types. *)
Theorem into_bytes_defined :
  forall ver v, serialisable v = true -> exists b, into_bytes ver v = Ok b.
Proof. exact into_bytes_defined_proof. Qed.

(** Writer half: CPython's unmarshaller rebuilds the intended value, of the intended type, from the bytes of every
    serialisable constant — any i32, any u64 (TYPE_LONG above i32::MAX), every float bit pattern, every string of
    scalar values, nested tuples and nested code objects — and consumes exactly those bytes. *)
Theorem py_loads_dumps :
  forall ver v b, serialisable v = true -> vdepth v <= MAX_MARSHAL_STACK_DEPTH ->
    into_bytes ver v = Ok b -> py_loads ver b = POk (py_of ver v, []).
Proof. exact py_loads_dumps_proof. Qed.

(** Reader half, constants: erg's reader reads back what the writer wrote ([norm]: 'i' comes back as Int, 'l' as
    Nat, every sequence as List, code objects with the fields their version carries). *)
Theorem erg_read_write :
  forall ver v b, serialisable v = true -> vdepth v <= MAX_DEPTH ->
    into_bytes ver v = Ok b -> read_const ver b = Ok (norm ver v, []).
Proof. exact erg_read_write_proof. Qed.

(** Reader half, files: what [CodeObj::into_bytecode] writes for a known magic number, [CodeObj::from_pyc]
    (`erg --mode read`) reads back, for each of the three layouts. *)
Theorem erg_read_write_pyc :
  forall magic ts ver c b, ver_of_magic magic = Some ver -> 0 <= ts < 4294967296 ->
    serialisable (VCode c) = true -> vdepth (VCode c) <= MAX_DEPTH + 1 ->
    into_bytecode magic ts c = Ok b ->
    read_pyc b = Ok (ver, norm_code ver c (map (norm ver) (consts c))).
Proof. exact read_pyc_write_proof. Qed.

(** The reader never crashes: on every byte sequence [from_pyc], [from_bytes] and [deserialize_const] return a value
    or an error; none of the checked reads fails, and the fuel of the model is never exhausted. *)
Theorem read_total :
  forall bs, read_pyc bs <> Panic /\ read_pyc bs <> Fuel.
Proof. exact read_pyc_total_proof. Qed.
Theorem read_const_total :
  forall ver bs, read_const ver bs <> Panic /\ read_const ver bs <> Fuel.
Proof. exact read_const_total_proof. Qed.
Theorem from_bytes_total :
  forall ver bs, from_bytes ver bs <> Panic /\ from_bytes ver bs <> Fuel.
Proof. exact from_bytes_total_proof. Qed.

(** At the command line: outside [Known_C15_disasm] (the file deserialises, what can still fail is the disassembler that
    prints it, which is not modelled) `erg --mode read` ends in the error branch of [Deserializer::run]. *)
Theorem read_total_cli :
  forall bs, Known_C15_disasm bs = false -> exists e, read_pyc bs = Err e.
Proof. exact read_total_cli_proof. Qed.

(** The state of the design round (`_nofix` model) violates both halves; the witnesses are replayed against the
    implementation by checks/c15.py (known/C15.json). *)
Theorem py_loads_dumps_nofix_refuted :
  exists v b, serialisable v = true /\ vdepth v <= MAX_MARSHAL_STACK_DEPTH /\ into_bytes_nofix 11 v = Ok b
              /\ py_loads 11 b = POk (PInt (-1294967296), []) /\ py_of 11 v = PInt 3000000000.
Proof. exact py_loads_dumps_nofix_refuted_proof. Qed.
Theorem read_total_nofix_refuted :
  (exists bs, read_pyc_nofix bs = Panic) /\ (exists bs, read_const_nofix 11 bs = Panic).
Proof. exact read_total_nofix_refuted_proof. Qed.

(* ------------------------------------------------------------------------------------------------ non-vacuity *)
Definition ex_value : value :=
  VTuple [VNat 18446744073709551615; VFloat 9223372036854775808 (* -0.0 *); VStr [104; 233; 128512];
          VList [VInt (-2147483648); VBool true; VNone; VTuple []]].
Definition ex_code : code_ value :=
  mkCode 1 0 0 1 2 67 [100; 0; 83; 0] [VNat 3000000000; VTuple [VStr [97]]; VFloat 9218868437227405313 (* a signalling NaN *)]
         [[112; 114; 105; 110; 116]] [[120]] [] [[120]] [109; 46; 101; 114] [102] [102] 1 [2; 1] [].

Definition ex_value_bytes : list Z :=
  Eval vm_compute in match into_bytes 11 ex_value with Ok b => b | _ => [] end.
Definition ex_pyc (magic : Z) : list Z :=
  match into_bytecode magic 1700000000 ex_code with Ok b => b | _ => [] end.
Definition ex_pyc_311 : list Z := Eval vm_compute in ex_pyc 3495.
Definition ex_pyc_38 : list Z := Eval vm_compute in ex_pyc 3413.
Definition ex_pyc_37 : list Z := Eval vm_compute in ex_pyc 3394.

Example ex_value_in_domain : serialisable ex_value = true /\ vdepth ex_value = 3.
Proof. vm_compute. split; reflexivity. Qed.
Example ex_value_python : into_bytes 11 ex_value = Ok ex_value_bytes /\ py_loads 11 ex_value_bytes = POk (py_of 11 ex_value, []).
Proof. split; vm_compute; reflexivity. Qed.
Example ex_value_erg : read_const 11 ex_value_bytes = Ok (norm 11 ex_value, []).
Proof. vm_compute; reflexivity. Qed.
Example ex_code_in_domain : serialisable (VCode ex_code) = true /\ ver_of_magic 3495 = Some 11 /\ ver_of_magic 3413 = Some 8
                            /\ ver_of_magic 3394 = Some 7.
Proof. vm_compute. repeat split; reflexivity. Qed.
Example ex_code_pyc_311 :
  into_bytecode 3495 1700000000 ex_code = Ok ex_pyc_311
  /\ read_pyc ex_pyc_311 = Ok (11, norm_code 11 ex_code (map (norm 11) (consts ex_code)))
  /\ py_loads 11 (skipn 16 ex_pyc_311) = POk (py_of 11 (VCode ex_code), []).
Proof. repeat split; vm_compute; reflexivity. Qed.
Example ex_code_pyc_38 :
  into_bytecode 3413 1700000000 ex_code = Ok ex_pyc_38
  /\ read_pyc ex_pyc_38 = Ok (8, norm_code 8 ex_code (map (norm 8) (consts ex_code)))
  /\ py_loads 8 (skipn 16 ex_pyc_38) = POk (py_of 8 (VCode ex_code), []).
Proof. repeat split; vm_compute; reflexivity. Qed.
Example ex_code_pyc_37 :
  into_bytecode 3394 1700000000 ex_code = Ok ex_pyc_37
  /\ read_pyc ex_pyc_37 = Ok (7, norm_code 7 ex_code (map (norm 7) (consts ex_code)))
  /\ py_loads 7 (skipn 16 ex_pyc_37) = POk (py_of 7 (VCode ex_code), []).
Proof. repeat split; vm_compute; reflexivity. Qed.
Example ex_nofix_type_error :
  let f := [167; 13; 13; 10; 0; 0; 0; 0; 0; 0; 0; 0; 0; 0; 0; 0; 227; 0; 0; 0; 0; 0; 0; 0; 0; 0; 0; 0; 0; 0; 0; 0; 0; 0; 0; 0; 0;
            115; 0; 0; 0; 0; 78; 41; 0] in
  read_pyc_nofix f = Panic /\ read_pyc f = Err EType /\ Known_C15_disasm f = false.
Proof. vm_compute. repeat split; reflexivity. Qed.
Example ex_known_class : Known_C15_disasm ex_pyc_311 = true.
Proof. vm_compute. reflexivity. Qed.
Example ex_broken_files : read_pyc [1; 2; 3] = Err EBroken /\ read_const 11 [41; 5; 78] = Err EBroken
                          /\ read_const 11 [40; 255; 255; 255; 255] = Err EBroken.
Proof. vm_compute. repeat split; reflexivity. Qed.
