(** C15 — proofs, part 1: bytes, UTF-8, 15-bit digits, induction principle for nested values, the pure writer *)
From Coq Require Import ZArith List Bool Lia.
From ErgV Require Import Common.Sx gen.MarshalTab Marshal.Model Marshal.Spec.
Import ListNotations.
Open Scope Z_scope.
Ltac Zify.zify_post_hook ::= Z.to_euclidean_division_equations.

Lemma len_app {A} (a b : list A) : len (a ++ b) = len a + len b.
Proof. unfold len. rewrite app_length. lia. Qed.
Lemma len_cons {A} (x : A) l : len (x :: l) = 1 + len l.
Proof. unfold len. cbn [length]. lia. Qed.
Lemma len_nonneg {A} (l : list A) : 0 <= len l.
Proof. unfold len. lia. Qed.
Lemma len_nil {A} : len (@nil A) = 0. Proof. reflexivity. Qed.

Lemma splitz_app : forall a r, splitz (a ++ r) (len a) = Some (a, r).
Proof.
  induction a as [|x a IH]; intro r.
  - cbn [app]. rewrite len_nil. destruct r; reflexivity.
  - cbn [app splitz]. rewrite len_cons. pose proof (len_nonneg a).
    destruct (1 + len a <=? 0) eqn:E; [lia|].
    replace (1 + len a - 1) with (len a) by lia. rewrite IH. reflexivity.
Qed.

Lemma splitz_spec : forall bs n a r, splitz bs n = Some (a, r) -> bs = a ++ r /\ len a = Z.max 0 n.
Proof.
  induction bs as [|b bs IH]; intros n a r H; cbn [splitz] in H.
  - destruct (n <=? 0) eqn:E; [|discriminate]. inversion H; subst. split; [reflexivity|]. rewrite len_nil. lia.
  - destruct (n <=? 0) eqn:E.
    + inversion H; subst. split; [reflexivity|]. rewrite len_nil. lia.
    + destruct (splitz bs (n - 1)) as [[a' r']|] eqn:E2; [|discriminate]. inversion H; subst.
      apply IH in E2. destruct E2 as [-> E3]. split; [reflexivity|]. rewrite len_cons. lia.
Qed.

Lemma le_bytes_length : forall n z, length (le_bytes n z) = n.
Proof. induction n; intro z; cbn [le_bytes length]; [reflexivity|]. now rewrite IHn. Qed.
Lemma le_bytes_len : forall n z, len (le_bytes n z) = Z.of_nat n.
Proof. intros. unfold len. now rewrite le_bytes_length. Qed.

Lemma le_val_le_bytes : forall n z, le_val (le_bytes n z) = z mod 256 ^ Z.of_nat n.
Proof.
  induction n; intro z.
  - cbn. now rewrite Z.mod_1_r.
  - cbn [le_bytes le_val]. rewrite IHn. rewrite Nat2Z.inj_succ, Z.pow_succ_r by lia.
    rewrite Z.rem_mul_r by lia. reflexivity.
Qed.
Lemma le_val_le_bytes_id : forall n z, 0 <= z < 256 ^ Z.of_nat n -> le_val (le_bytes n z) = z.
Proof. intros. rewrite le_val_le_bytes. now apply Z.mod_small. Qed.


(* utf8 *)
Lemma utf8_dec_char : forall sp c r, scalar c = true ->
  utf8_dec sp (utf8_char c ++ r) = option_map (cons c) (utf8_dec sp r).
Proof.
  intros sp c r H. unfold scalar, is_surrogate in H.
  apply andb_true_iff in H. destruct H as [H Hs]. apply andb_true_iff in H. destruct H as [H0 H1].
  apply Z.leb_le in H0. apply Z.ltb_lt in H1.
  assert (Hs' : c < 55296 \/ 57343 < c).
  { destruct (55296 <=? c) eqn:Ea; destruct (c <=? 57343) eqn:Eb; cbn in Hs; try discriminate; lia. }
  clear Hs.
  unfold utf8_char.
  assert (D1 : c / 4096 = c / 64 / 64) by (rewrite Z.div_div by lia; reflexivity).
  assert (D2 : c / 262144 = c / 64 / 64 / 64) by (rewrite !Z.div_div by lia; reflexivity).
  rewrite D1, D2.
  destruct (c <? 128) eqn:E1.
  { cbn [app utf8_dec]. rewrite E1. reflexivity. }
  destruct (c <? 2048) eqn:E2.
  { cbn [app utf8_dec].
    assert (A1: (192 + c / 64 <? 128) = false) by lia. rewrite A1.
    assert (A2: (192 + c / 64 <? 194) = false) by lia. rewrite A2.
    assert (A3: (192 + c / 64 <? 224) = true) by lia. rewrite A3.
    unfold is_cont.
    assert (A4: ((128 <=? 128 + c mod 64) && (128 + c mod 64 <? 192)) = true) by lia. rewrite A4.
    replace ((192 + c / 64 - 192) * 64 + (128 + c mod 64 - 128)) with c by lia. reflexivity. }
  destruct (c <? 65536) eqn:E3.
  { cbn [app utf8_dec].
    assert (A1: (224 + c / 64 / 64 <? 128) = false) by lia. rewrite A1.
    assert (A2: (224 + c / 64 / 64 <? 194) = false) by lia. rewrite A2.
    assert (A3: (224 + c / 64 / 64 <? 224) = false) by lia. rewrite A3.
    assert (A3': (224 + c / 64 / 64 <? 240) = true) by lia. rewrite A3'.
    unfold is_cont, is_surrogate.
    replace ((224 + c / 64 / 64 - 224) * 4096 + (128 + (c / 64) mod 64 - 128) * 64 + (128 + c mod 64 - 128)) with c by lia.
    assert (A4: ((128 <=? 128 + (c / 64) mod 64) && (128 + (c / 64) mod 64 <? 192)) = true) by lia. rewrite A4.
    assert (A5: ((128 <=? 128 + c mod 64) && (128 + c mod 64 <? 192)) = true) by lia. rewrite A5.
    assert (A6: (2048 <=? c) = true) by lia. rewrite A6.
    assert (A7: negb ((55296 <=? c) && (c <=? 57343)) = true) by (destruct (55296 <=? c) eqn:Ea; destruct (c <=? 57343) eqn:Eb; cbn; try reflexivity; lia).
    rewrite A7. rewrite orb_true_r. reflexivity. }
  cbn [app utf8_dec].
  assert (A1: (240 + c / 64 / 64 / 64 <? 128) = false) by lia. rewrite A1.
  assert (A2: (240 + c / 64 / 64 / 64 <? 194) = false) by lia. rewrite A2.
  assert (A3: (240 + c / 64 / 64 / 64 <? 224) = false) by lia. rewrite A3.
  assert (A3': (240 + c / 64 / 64 / 64 <? 240) = false) by lia. rewrite A3'.
  assert (A3'': (240 + c / 64 / 64 / 64 <? 245) = true) by lia. rewrite A3''.
  unfold is_cont.
  replace ((240 + c / 64 / 64 / 64 - 240) * 262144 + (128 + (c / 64 / 64) mod 64 - 128) * 4096 + (128 + (c / 64) mod 64 - 128) * 64 + (128 + c mod 64 - 128)) with c by lia.
  assert (A4: ((128 <=? 128 + (c / 64 / 64) mod 64) && (128 + (c / 64 / 64) mod 64 <? 192)) = true) by lia. rewrite A4.
  assert (A4': ((128 <=? 128 + (c / 64) mod 64) && (128 + (c / 64) mod 64 <? 192)) = true) by lia. rewrite A4'.
  assert (A5: ((128 <=? 128 + c mod 64) && (128 + c mod 64 <? 192)) = true) by lia. rewrite A5.
  assert (A6: (65536 <=? c) = true) by lia. rewrite A6.
  assert (A7: (c <? 1114112) = true) by lia. rewrite A7. reflexivity.
Qed.

Lemma utf8_cons c s : utf8 (c :: s) = utf8_char c ++ utf8 s.
Proof. reflexivity. Qed.
Lemma utf8_dec_utf8 : forall sp s, forallb scalar s = true -> utf8_dec sp (utf8 s) = Some s.
Proof.
  induction s as [|c s IH]; intro H; [reflexivity|].
  cbn [forallb] in H. apply andb_true_iff in H. destruct H as [H1 H2].
  rewrite utf8_cons, utf8_dec_char by assumption. rewrite IH by assumption. reflexivity.
Qed.
Lemma utf8_ascii : forall s, is_ascii s = true -> utf8 s = s.
Proof.
  induction s as [|c s IH]; intro H; [reflexivity|].
  unfold is_ascii in H. cbn [forallb] in H. apply andb_true_iff in H. destruct H as [H1 H2].
  rewrite utf8_cons. unfold utf8_char. rewrite H1. cbn [app]. f_equal. apply IH. exact H2.
Qed.
Lemma utf8_char_nonempty c : 1 <= len (utf8_char c).
Proof. unfold utf8_char. destruct (c <? 128), (c <? 2048), (c <? 65536); cbn; lia. Qed.

(* 15-bit digits *)
Definition digit_ok (x : Z) : Prop := 0 <= x < 32768.
Lemma digits15_spec : forall fuel n, 0 <= n < 32768 ^ Z.of_nat fuel ->
  exists ds, digits15 fuel n = Ok ds /\ digits_val ds = n /\ Forall digit_ok ds
             /\ (0 < n -> last ds 0 <> 0 /\ ds <> []) /\ (length ds <= fuel)%nat.
Proof.
  induction fuel as [|f IH]; intros n Hn.
  - cbn in Hn. assert (n = 0) by lia. subst. exists []. cbn. repeat split; try constructor; lia.
  - cbn [digits15]. destruct (n =? 0) eqn:E.
    + apply Z.eqb_eq in E. subst. exists []. cbn. repeat split; try constructor; lia.
    + apply Z.eqb_neq in E.
      rewrite Nat2Z.inj_succ, Z.pow_succ_r in Hn by lia.
      destruct (IH (n / 32768)) as (ds & H1 & H2 & H3 & H4 & H5); [lia|].
      rewrite H1. cbn [bind]. exists (n mod 32768 :: ds). split; [reflexivity|].
      split; [cbn [digits_val]; rewrite H2; lia|].
      split; [constructor; [unfold digit_ok; lia|assumption]|].
      split; [|cbn [length]; lia].
      intros _. split; [|discriminate].
      destruct (Z.eq_dec (n / 32768) 0) as [Z0|NZ].
      * rewrite Z0 in H2. destruct ds as [|d ds'].
        -- cbn. lia.
        -- (* digits_val = 0 with all digits >= 0 ... cannot use H4; derive from digits15 on 0 *)
           rewrite Z0 in H1. destruct f; cbn in H1; inversion H1.
      * assert (0 < n / 32768) by lia. destruct (H4 H) as [L NE].
        destruct ds as [|d ds']; [contradiction|]. cbn [last]. cbn [last] in L. exact L.
Qed.

Lemma py_digits_le2 : forall ds, Forall digit_ok ds -> py_digits (flat_map (le_bytes 2) ds) = Some ds.
Proof.
  induction ds as [|d ds IH]; intro H; [reflexivity|].
  inversion H as [|? ? Hd Hr]; subst. unfold digit_ok in Hd.
  change (flat_map (le_bytes 2) (d :: ds)) with (d mod 256 :: (d / 256) mod 256 :: flat_map (le_bytes 2) ds).
  cbn [py_digits].
  replace (d mod 256 + 256 * (d / 256 mod 256)) with d by lia.
  unfold to_i16. assert (E: (d <? 32768) = true) by lia. rewrite E.
  assert (E2: (d <? 0) = false) by lia. rewrite E2. rewrite IH by assumption. reflexivity.
Qed.
Lemma flat_map_le2_len : forall ds, len (flat_map (le_bytes 2) ds) = 2 * len ds.
Proof. induction ds; [reflexivity|]. cbn [flat_map]. rewrite len_app, IHds, len_cons, le_bytes_len. lia. Qed.

(* ---- induction principle for values *)
Section value_ind_nested.
  Variable P : value -> Prop.
  Hypothesis HInt : forall i, P (VInt i).
  Hypothesis HNat : forall n, P (VNat n).
  Hypothesis HFloat : forall b, P (VFloat b).
  Hypothesis HStr : forall s, P (VStr s).
  Hypothesis HBool : forall b, P (VBool b).
  Hypothesis HNone : P VNone.
  Hypothesis HTuple : forall l, Forall P l -> P (VTuple l).
  Hypothesis HList : forall l, Forall P l -> P (VList l).
  Hypothesis HCode : forall c, Forall P (consts c) -> P (VCode c).
  Hypothesis HOther : P VOther.
  Fixpoint value_ind_nested (v : value) : P v :=
    let all := fix all (l : list value) : Forall P l :=
                 match l with [] => Forall_nil P | x :: r => Forall_cons x (value_ind_nested x) (all r) end in
    match v with
    | VInt i => HInt i | VNat n => HNat n | VFloat b => HFloat b | VStr s => HStr s | VBool b => HBool b
    | VNone => HNone | VTuple l => HTuple l (all l) | VList l => HList l (all l)
    | VCode c => HCode c (all (consts c)) | VOther => HOther
    end.
End value_ind_nested.

(* ---- pure writer *)
Definition long_wr (n : Z) : list Z :=
  match digits15 5 n with Ok ds => pfx_Long :: le_bytes 4 (len ds) ++ flat_map (le_bytes 2) ds | _ => [] end.
Fixpoint wr (ver : Z) (v : value) {struct v} : list Z :=
  match v with
  | VInt i => pfx_Int32 :: le_bytes 4 i
  | VNat n => if i32_max <? n then long_wr n else pfx_Int32 :: le_bytes 4 n
  | VFloat b => pfx_BinFloat :: le_bytes 8 b
  | VStr s => str_into_bytes s false
  | VBool true => [pfx_True]
  | VBool false => [pfx_False]
  | VList l | VTuple l => seq_header (len l) ++ flat_map (wr ver) l
  | VNone => [pfx_None]
  | VCode c => code_into_bytes ver c (flat_map (wr ver) (consts c))
  | VOther => []
  end.

Lemma all_ok ver : forall l, Forall (fun v => serialisable v = true -> into_bytes ver v = Ok (wr ver v)) l ->
  (fix all (l : list value) : bool := match l with [] => true | x :: r => serialisable x && all r end) l = true ->
  (fix all (l : list value) : res (list Z) :=
     match l with [] => Ok [] | x :: r => a <- into_bytes_gen true ver x ;; b <- all r ;; Ok (a ++ b) end) l
  = Ok (flat_map (wr ver) l).
Proof.
  induction l as [|x l IH]; intros HF HS; [reflexivity|].
  inversion HF as [|? ? Hx Hl]; subst. apply andb_true_iff in HS. destruct HS as [S1 S2].
  unfold into_bytes in Hx. rewrite (Hx S1). cbn [bind]. rewrite (IH Hl S2). reflexivity.
Qed.

Lemma into_bytes_wr ver : forall v, serialisable v = true -> into_bytes ver v = Ok (wr ver v).
Proof.
  induction v using value_ind_nested; intro HS; try reflexivity.
  - (* Nat *) unfold into_bytes. cbn [into_bytes_gen wr andb]. destruct (i32_max <? n) eqn:E; [|reflexivity].
    cbn [serialisable] in HS. apply andb_true_iff in HS. destruct HS as [H0 H1].
    unfold long_bytes, long_wr.
    destruct (digits15_spec 5 n) as (ds & D1 & _); [change (32768 ^ Z.of_nat 5) with 37778931862957161709568; lia|].
    rewrite D1. reflexivity.
  - destruct b; reflexivity.
  - unfold into_bytes. cbn [into_bytes_gen wr]. cbn [serialisable] in HS. apply andb_true_iff in HS. destruct HS as [_ HS].
    rewrite (all_ok ver l H HS). reflexivity.
  - unfold into_bytes. cbn [into_bytes_gen wr]. cbn [serialisable] in HS. apply andb_true_iff in HS. destruct HS as [_ HS].
    rewrite (all_ok ver l H HS). reflexivity.
  - unfold into_bytes. cbn [into_bytes_gen wr]. cbn [serialisable] in HS. apply andb_true_iff in HS. destruct HS as [_ HS].
    rewrite (all_ok ver (consts c) H HS). reflexivity.
  - discriminate.
Qed.
