(** C15 — proofs, part 5: the property theorems *)
From Coq Require Import ZArith List Bool Lia.
From ErgV Require Import Common.Sx gen.MarshalTab Marshal.Model Marshal.Spec.
From ErgV Require Import Marshal.ProofsBase Marshal.ProofsPy Marshal.ProofsErg Marshal.ProofsTotal.
Import ListNotations.
Open Scope Z_scope.
Ltac Zify.zify_post_hook ::= Z.to_euclidean_division_equations.

(* ------------------------------------------------------------------ writer / python *)
Lemma py_loads_dumps_proof : forall ver v b, serialisable v = true -> vdepth v <= MAX_MARSHAL_STACK_DEPTH ->
  into_bytes ver v = Ok b -> py_loads ver b = POk (py_of ver v, []).
Proof.
  intros ver v b HS Hd Hb. rewrite into_bytes_wr in Hb by assumption. inversion Hb; subst.
  apply py_loads_dumps_all; assumption.
Qed.
Lemma into_bytes_defined_proof : forall ver v, serialisable v = true -> exists b, into_bytes ver v = Ok b.
Proof. intros. eexists. now apply into_bytes_wr. Qed.

(* ------------------------------------------------------------------ writer / erg reader *)
Lemma erg_read_write_proof : forall ver v b, serialisable v = true -> vdepth v <= MAX_DEPTH ->
  into_bytes ver v = Ok b -> read_const ver b = Ok (norm ver v, []).
Proof.
  intros ver v b HS Hd Hb. rewrite into_bytes_wr in Hb by assumption. inversion Hb; subst.
  apply erg_read_write_all; assumption.
Qed.

Lemma ver_of_magic_bound m v : ver_of_magic m = Some v -> 0 <= m < 65536.
Proof.
  unfold ver_of_magic, magic_ranges. cbn [ver_of_magic_in].
  repeat match goal with |- (if ?c then _ else _) = _ -> _ =>
    let E := fresh in destruct c eqn:E; [apply andb_true_iff in E; lia|] end.
  discriminate.
Qed.
Lemma lor_magic m : 0 <= m < 65536 -> Z.lor 168624128 m = 168624128 + m.
Proof.
  intro H. rewrite <- Z.lxor_lor; [symmetry; apply Z.add_nocarry_lxor|];
  (apply Z.bits_inj'; intros n Hn; rewrite Z.land_spec, Z.bits_0;
   destruct (Z_lt_le_dec n 16) as [L|G];
   [ change 168624128 with (2573 * 2 ^ 16); rewrite Z.mul_pow2_bits_low by lia; reflexivity
   | replace (Z.testbit m n) with false; [apply andb_false_r|];
     symmetry; destruct (Z.eq_dec m 0) as [->|NZ]; [apply Z.bits_0|];
     apply Z.bits_above_log2; [lia|]; apply Z.log2_lt_pow2; [lia|];
     apply Z.lt_le_trans with (2 ^ 16); [change (2 ^ 16) with 65536; lia|apply Z.pow_le_mono_r; lia] ]).
Qed.

Lemma magic_of_le4 L : nth 0 (le_bytes 4 L) 0 + 256 * nth 1 (le_bytes 4 L) 0 = L mod 65536.
Proof. cbn [le_bytes nth]. lia. Qed.

Lemma read_pyc_write_proof : forall magic ts ver c b, ver_of_magic magic = Some ver -> 0 <= ts < 4294967296 ->
  serialisable (VCode c) = true -> vdepth (VCode c) <= MAX_DEPTH + 1 ->
  into_bytecode magic ts c = Ok b ->
  read_pyc b = Ok (ver, norm_code ver c (map (norm ver) (consts c))).
Proof.
  intros magic ts ver c b Hm Hts HS Hd Hb. pose proof (ver_of_magic_bound _ _ Hm) as Hmb.
  unfold into_bytecode, into_bytecode_gen in Hb. rewrite Hm in Hb.
  change (into_bytes_gen true ver (VCode c)) with (into_bytes ver (VCode c)) in Hb.
  rewrite into_bytes_wr in Hb by assumption. cbn [bind] in Hb.
  match type of Hb with Ok ?X = _ => remember X as bb eqn:Ebb end. injection Hb as Hb. subst b bb.
  rewrite lor_magic by assumption.
  unfold read_pyc, read_pyc_gen. rewrite (take_app 4) by (now rewrite le_bytes_len). cbn [bind].
  rewrite magic_of_le4. replace ((168624128 + magic) mod 65536) with magic by lia.
  rewrite Hm.
  change [0; 0; 0; 0] with (le_bytes 4 0).
  rewrite (rd_u32_le4 0) by lia. cbn [bind]. rewrite (rd_u32_le4 ts) by lia. cbn [bind]. rewrite (rd_u32_le4 0) by lia. cbn [bind].
  change (from_bytes_gen true ver) with (from_bytes ver).
  rewrite from_bytes_write_all; [reflexivity|assumption|unfold MAX_DEPTH in Hd; lia].
Qed.

(* ------------------------------------------------------------------ totality *)
Lemma read_const_total_proof : forall ver bs, read_const ver bs <> Panic /\ read_const ver bs <> Fuel.
Proof.
  intros ver bs. unfold read_const, read_const_gen.
  destruct (fine_rd (fuel_for bs)) as [H1 _]. destruct (H1 ver 0 bs) as (A & B & _); [unfold fuel_for; lia|]. now split.
Qed.
Lemma from_bytes_total_proof : forall ver bs, from_bytes ver bs <> Panic /\ from_bytes ver bs <> Fuel.
Proof.
  intros ver bs. unfold from_bytes, from_bytes_gen.
  destruct (fine_from_bytes (rd_const true (fuel_for bs) ver 0) (length bs)) with (ver := ver) (bs := bs) as (A & B & _);
    [|lia|now split].
  intros bs' Hbs'. destruct (fine_rd (fuel_for bs)) as [H1 _]. apply H1. unfold fuel_for. lia.
Qed.
Lemma read_pyc_total_proof : forall bs, read_pyc bs <> Panic /\ read_pyc bs <> Fuel.
Proof.
  intro bs. unfold read_pyc, read_pyc_gen.
  apply (calm_bind (length bs)); [apply fine_take|]. intros m r Hr. cbn beta iota zeta.
  destruct (ver_of_magic _) as [ver|]; [|split; discriminate].
  apply (calm_bind (length r)); [apply fine_rd_u32|]. intros x1 r1 H1. cbn beta iota.
  apply (calm_bind (length r1)); [apply fine_rd_u32|]. intros x2 r2 H2. cbn beta iota.
  apply (calm_bind (length r2)); [apply fine_rd_u32|]. intros x3 r3 H3. cbn beta iota.
  destruct (from_bytes_total_proof ver r3) as [A B]. unfold from_bytes in *.
  destruct (from_bytes_gen true ver r3) as [[c r4]|e| |]; cbn [bind]; try contradiction; split; discriminate.
Qed.

Lemma read_total_cli_proof : forall bs, Known_C15_disasm bs = false -> exists e, read_pyc bs = Err e.
Proof.
  intros bs H. unfold Known_C15_disasm in H. destruct (read_pyc_total_proof bs) as [A B].
  destruct (read_pyc bs) as [x|e| |]; try discriminate; try contradiction. now exists e.
Qed.

(* ------------------------------------------------------------------ the design-round state, refuted *)
Lemma py_loads_dumps_nofix_refuted_proof :
  exists v b, serialisable v = true /\ vdepth v <= MAX_MARSHAL_STACK_DEPTH /\ into_bytes_nofix 11 v = Ok b
              /\ py_loads 11 b = POk (PInt (-1294967296), []) /\ py_of 11 v = PInt 3000000000.
Proof. exists (VNat 3000000000), [105; 0; 94; 208; 178]. vm_compute. repeat split; congruence. Qed.

Lemma read_total_nofix_refuted_proof :
  (exists bs, read_pyc_nofix bs = Panic) /\ (exists bs, read_const_nofix 11 bs = Panic).
Proof. split; [exists [1; 2; 3]|exists [41; 5; 78]]; vm_compute; reflexivity. Qed.
