(** C15 — proofs *)
From Coq Require Import ZArith List Bool Lia.
From ErgV Require Import Common.Sx gen.MarshalTab Marshal.Model Marshal.Spec.
Import ListNotations.
Open Scope Z_scope.
