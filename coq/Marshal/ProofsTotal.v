(** C15 — proofs, part 4: the repaired reader never panics and never runs out of fuel *)
From Coq Require Import ZArith List Bool Lia.
From ErgV Require Import Common.Sx gen.MarshalTab Marshal.Model Marshal.Spec.
From ErgV Require Import Marshal.ProofsBase.
Import ListNotations.
Open Scope Z_scope.

(** [fine n r]: the read neither panics nor runs out of fuel, and what it leaves has at most [n] bytes *)
Definition fine {A} (n : nat) (r : res (A * list Z)) : Prop :=
  r <> Panic /\ r <> Fuel /\ forall a rest, r = Ok (a, rest) -> (length rest <= n)%nat.
Definition calm {A} (r : res A) : Prop := r <> Panic /\ r <> Fuel.

Lemma fine_mono {A} n m (r : res (A * list Z)) : (n <= m)%nat -> fine n r -> fine m r.
Proof. intros H (H1 & H2 & H3). repeat split; try assumption. intros a rest E. apply H3 in E. lia. Qed.
Lemma fine_err {A} n e : @fine A n (Err e).
Proof. repeat split; try discriminate. Qed.
Lemma fine_ok {A} n (a : A) rest : (length rest <= n)%nat -> fine n (Ok (a, rest)).
Proof. intro H. repeat split; try discriminate. intros a' r' E. inversion E; subst. exact H. Qed.
Lemma fine_bind {A B} n m (r : res (A * list Z)) (k : A * list Z -> res (B * list Z)) :
  fine n r -> (forall a rest, (length rest <= n)%nat -> fine m (k (a, rest))) -> fine m (bind r k).
Proof.
  intros (H1 & H2 & H3) Hk. destruct r as [[a rest]|e| |]; cbn [bind]; try contradiction.
  - apply Hk. now apply (H3 a rest).
  - apply fine_err.
Qed.
Lemma fine_bind0 {A B} m (r : res A) (k : A -> res (B * list Z)) :
  calm r -> (forall a, fine m (k a)) -> fine m (bind r k).
Proof. intros (H1 & H2) Hk. destruct r; cbn [bind]; try contradiction; [apply Hk|apply fine_err]. Qed.
Lemma calm_bind {A B} n (r : res (A * list Z)) (k : A * list Z -> res B) :
  fine n r -> (forall a rest, (length rest <= n)%nat -> calm (k (a, rest))) -> calm (bind r k).
Proof.
  intros (H1 & H2 & H3) Hk. destruct r as [[a rest]|e| |]; cbn [bind]; try contradiction.
  - apply Hk. now apply (H3 a rest).
  - split; discriminate.
Qed.

Lemma splitz_length : forall bs n a r, splitz bs n = Some (a, r) -> (length r <= length bs)%nat.
Proof.
  intros bs n a r H. apply splitz_spec in H. destruct H as [-> _]. rewrite app_length. lia.
Qed.
Lemma fine_take n bs : fine (length bs) (take true n bs).
Proof.
  unfold take. destruct (splitz bs n) as [[a r]|] eqn:E; [|apply fine_err].
  apply fine_ok. eapply splitz_length; eassumption.
Qed.
Lemma fine_take1 bs : fine (pred (length bs)) (take1 true bs).
Proof. destruct bs as [|b r]; [apply fine_err|]. apply fine_ok. cbn [length]. lia. Qed.
Lemma fine_rd_u32 bs : fine (length bs) (rd_u32 true bs).
Proof.
  unfold rd_u32. eapply fine_bind; [apply fine_take|]. intros a rest H. cbn beta iota. now apply fine_ok.
Qed.
Lemma fine_rd_bytes bs : fine (pred (length bs)) (rd_bytes true bs).
Proof.
  unfold rd_bytes. eapply fine_bind; [apply fine_take1|]. intros b r H. cbn beta iota.
  destruct (negb (prefix_of b =? pfx_Str)); [apply fine_err|].
  eapply fine_bind; [eapply fine_mono; [|apply fine_rd_u32]; eassumption|]. intros n r' H'. cbn beta iota.
  eapply fine_mono; [|apply fine_take]. lia.
Qed.
Lemma calm_rd_utf8 x : calm (rd_utf8 x).
Proof. unfold rd_utf8. destruct (utf8_dec false x); split; discriminate. Qed.
Lemma calm_as_vstrs v : calm (as_vstrs true v).
Proof.
  assert (H : forall l, calm (fold_right (fun x acc => a <- acc ;; match x with VStr s => Ok (s :: a) | _ => type_err true end) (Ok []) l)).
  { unfold type_err. induction l as [|x l IH]; [split; discriminate|]. cbn [fold_right]. destruct IH as [I1 I2].
    destruct (fold_right _ _ l); cbn [bind]; try contradiction; [destruct x|]; split; discriminate. }
  destruct v; cbn [as_vstrs]; try (split; discriminate); apply H.
Qed.
Lemma calm_partition nk : calm (partition_kinds true nk).
Proof.
  induction nk as [|[n k] r IH]; [split; discriminate|]. cbn [partition_kinds]. destruct IH as [I1 I2].
  destruct (lookup k fastkind_decode).
  - destruct (partition_kinds true r) as [[[vn fv] cv]|e| |]; cbn [bind]; try contradiction; [|split; discriminate].
    destruct (z =? fk_Local), (z =? fk_Free), (z =? fk_Cell); cbn iota. all: try (split; discriminate).
  - cbn iota. destruct (k =? fk_Local + fk_Cell); [|split; discriminate].
    destruct (partition_kinds true r) as [[[vn fv] cv]|e| |]; cbn [bind]; try contradiction. all: split; discriminate.
Qed.
Lemma fine_rd_digits : forall k i bs, fine (length bs) (rd_digits true k i bs).
Proof.
  induction k as [|k IH]; intros i bs; cbn [rd_digits]; [now apply fine_ok|].
  eapply fine_bind; [apply fine_take|]. intros x r H. cbn beta iota.
  eapply fine_bind; [eapply fine_mono; [|apply IH]; eassumption|]. intros n r' H'. cbn beta iota. now apply fine_ok.
Qed.

(** readers built on a [rc] that is fine on every input of at most [L] bytes and consumes at least one byte *)
Section with_rc.
  Variable rc : list Z -> res (value * list Z).
  Variable L : nat.
  Hypothesis Hrc : forall bs, (length bs <= L)%nat -> fine (pred (length bs)) (rc bs).

  Lemma fine_rc_le bs n : (length bs <= n)%nat -> (n <= L)%nat -> fine n (rc bs).
  Proof. intros H1 H2. eapply fine_mono; [|apply Hrc; lia]. lia. Qed.
  Lemma fine_rd_str_vec bs n : (length bs <= n)%nat -> (n <= L)%nat -> fine n (rd_str_vec true rc bs).
  Proof.
    intros H1 H2. unfold rd_str_vec. apply (fine_bind n); [now apply fine_rc_le|]. intros v r H. cbn beta iota.
    apply fine_bind0; [apply calm_as_vstrs|]. intro l. now apply fine_ok.
  Qed.
  Lemma fine_rd_str bs n : (length bs <= n)%nat -> (n <= L)%nat -> fine n (rd_str true rc bs).
  Proof.
    intros H1 H2. unfold rd_str, type_err. apply (fine_bind n); [now apply fine_rc_le|]. intros v r H. cbn beta iota.
    destruct v; try apply fine_err. now apply fine_ok.
  Qed.
  Lemma fine_rd_const_vec bs n : (length bs <= n)%nat -> (n <= L)%nat -> fine n (rd_const_vec true rc bs).
  Proof.
    intros H1 H2. unfold rd_const_vec, type_err. apply (fine_bind n); [now apply fine_rc_le|]. intros v r H. cbn beta iota.
    destruct v; try apply fine_err. now apply fine_ok.
  Qed.
  Lemma fine_bytes_le bs n : (length bs <= n)%nat -> fine n (rd_bytes true bs).
  Proof. intro H. eapply fine_mono; [|apply fine_rd_bytes]. lia. Qed.
  Lemma fine_u32_le bs n : (length bs <= n)%nat -> fine n (rd_u32 true bs).
  Proof. intro H. eapply fine_mono; [|apply fine_rd_u32]. lia. Qed.

  Lemma fine_rd_locals ver bs n : (length bs <= n)%nat -> (n <= L)%nat ->
    fine n (rd_locals true rc ver bs).
  Proof.
    intros H1 H2. unfold rd_locals. destruct (11 <=? ver).
    - destruct (rd_str_vec true rc bs) as [[ns r]|e| |] eqn:E1; cbn [bind];
        pose proof (fine_rd_str_vec bs n H1 H2) as (F1 & F2 & F3); rewrite E1 in *; try contradiction; [|apply fine_err].
      specialize (F3 _ _ eq_refl).
      destruct (rd_bytes true r) as [[ks r']|e| |] eqn:E2; cbn [bind];
        pose proof (fine_bytes_le r n F3) as (G1 & G2 & G3); rewrite E2 in *; try contradiction; [|apply fine_err].
      specialize (G3 _ _ eq_refl).
      destruct (negb (len ns =? len ks)); [apply fine_err|].
      destruct (partition_kinds true (combine ns ks)) as [[[vn fv] cv]|e| |] eqn:E3; cbn [bind];
        pose proof (calm_partition (combine ns ks)) as (K1 & K2); rewrite E3 in *; try contradiction; [|apply fine_err].
      now apply fine_ok.
    - destruct (rd_str_vec true rc bs) as [[vn r]|e| |] eqn:E1; cbn [bind];
        pose proof (fine_rd_str_vec bs n H1 H2) as (F1 & F2 & F3); rewrite E1 in *; try contradiction; [|apply fine_err].
      specialize (F3 _ _ eq_refl).
      destruct (rd_str_vec true rc r) as [[fv r']|e| |] eqn:E2; cbn [bind];
        pose proof (fine_rd_str_vec r n F3 H2) as (G1 & G2 & G3); rewrite E2 in *; try contradiction; [|apply fine_err].
      specialize (G3 _ _ eq_refl).
      destruct (rd_str_vec true rc r') as [[cv r'']|e| |] eqn:E3; cbn [bind];
        pose proof (fine_rd_str_vec r' n G3 H2) as (K1 & K2 & K3); rewrite E3 in *; try contradiction; [|apply fine_err].
      specialize (K3 _ _ eq_refl). now apply fine_ok.
  Qed.

  Lemma fine_from_bytes ver bs : (pred (length bs) <= L)%nat -> fine (pred (length bs)) (from_bytes_with true rc ver bs).
  Proof.
    intro HL. unfold from_bytes_with. set (n := pred (length bs)) in *.
    apply (fine_bind n); [apply fine_take1|]. intros b r Hr. cbn beta iota.
    destruct (negb (b =? pfx_Code)); [apply fine_err|].
    apply (fine_bind n); [now apply fine_u32_le|]. intros argc r1 H1. cbn beta iota.
    apply (fine_bind n). { destruct (8 <=? ver); [now apply fine_u32_le|now apply fine_ok]. } intros posc r2 H2. cbn beta iota.
    apply (fine_bind n); [now apply fine_u32_le|]. intros kwc r3 H3. cbn beta iota.
    apply (fine_bind n). { destruct (11 <=? ver); [now apply fine_ok|now apply fine_u32_le]. } intros nloc r4 H4. cbn beta iota.
    apply (fine_bind n); [now apply fine_u32_le|]. intros stk r5 H5. cbn beta iota.
    apply (fine_bind n); [now apply fine_u32_le|]. intros flg r6 H6. cbn beta iota.
    apply (fine_bind n); [now apply fine_bytes_le|]. intros code r7 H7. cbn beta iota.
    apply (fine_bind n); [now apply fine_rd_const_vec|]. intros cst r8 H8. cbn beta iota.
    apply (fine_bind n); [now apply fine_rd_str_vec|]. intros nms r9 H9. cbn beta iota.
    apply (fine_bind n); [now apply fine_rd_locals|]. intros [[vn fv] cv] r10 H10. cbn beta iota.
    apply (fine_bind n); [now apply fine_rd_str|]. intros fnm r11 H11. cbn beta iota.
    apply (fine_bind n); [now apply fine_rd_str|]. intros nm r12 H12. cbn beta iota.
    apply (fine_bind n). { destruct (11 <=? ver); [now apply fine_rd_str|now apply fine_ok]. } intros qn r13 H13. cbn beta iota.
    apply (fine_bind n); [now apply fine_u32_le|]. intros fl r14 H14. cbn beta iota.
    apply (fine_bind n); [now apply fine_bytes_le|]. intros lt r15 H15. cbn beta iota.
    apply (fine_bind n). { destruct (11 <=? ver); [now apply fine_bytes_le|now apply fine_ok]. } intros et r16 H16. cbn beta iota.
    now apply fine_ok.
  Qed.
End with_rc.

(** the two mutually recursive readers *)
Lemma fine_rd : forall fuel,
  (forall ver d bs, (2 * length bs + 1 <= fuel)%nat -> fine (pred (length bs)) (rd_const true fuel ver d bs)) /\
  (forall ver d n bs, (2 * length bs + 2 <= fuel)%nat -> fine (length bs) (rd_elems true fuel ver d n bs)).
Proof.
  induction fuel as [|f [IH1 IH2]]; split.
  - intros ver d bs H. lia.
  - intros ver d n bs H. lia.
  - intros ver d bs H. cbn [rd_const andb].
    destruct (MAX_DEPTH <=? d); [apply fine_err|].
    destruct bs as [|b r]; [apply fine_err|]. cbn [take1 bind length pred] in *.
    set (m := length r) in *. assert (Hr : (length r <= m)%nat) by (subst m; lia).
    assert (Hseq : forall n r', (length r' <= m)%nat ->
              fine m (if true && (len r' <? n) then Err EBroken
                      else '(l, r'') <- rd_elems true f ver (d + 1) n r' ;; Ok (VList l, r''))).
    { intros n r' Hr'. cbn [andb]. destruct (len r' <? n); [apply fine_err|].
      apply (fine_bind m); [eapply fine_mono; [|apply IH2]; subst m; lia|]. intros l r'' H''. cbn beta iota. now apply fine_ok. }
    destruct (prefix_of b =? pfx_Int32).
    { apply (fine_bind m); [eapply fine_mono; [|apply fine_take]; lia|]. intros x r' H'. cbn beta iota. now apply fine_ok. }
    cbn [andb]. destruct (prefix_of b =? pfx_Long).
    { apply (fine_bind m); [eapply fine_mono; [|apply fine_take]; lia|]. intros x r' H'. cbn beta iota zeta.
      apply (fine_bind m); [eapply fine_mono; [|apply fine_rd_digits]; lia|]. intros k r'' H''. cbn beta iota.
      destruct (_ && _); [now apply fine_ok|apply fine_err]. }
    destruct (prefix_of b =? pfx_BinFloat).
    { apply (fine_bind m); [eapply fine_mono; [|apply fine_take]; lia|]. intros x r' H'. cbn beta iota. now apply fine_ok. }
    destruct (_ || _).
    { apply (fine_bind m); [eapply fine_mono; [|apply fine_take1]; lia|]. intros k r' H'. cbn beta iota.
      apply (fine_bind m); [eapply fine_mono; [|apply fine_take]; lia|]. intros x r'' H''. cbn beta iota.
      apply fine_bind0; [apply calm_rd_utf8|]. intro s. now apply fine_ok. }
    destruct (_ || _).
    { apply (fine_bind m); [eapply fine_mono; [|apply fine_rd_u32]; lia|]. intros k r' H'. cbn beta iota.
      apply (fine_bind m); [eapply fine_mono; [|apply fine_take]; lia|]. intros x r'' H''. cbn beta iota.
      apply fine_bind0; [apply calm_rd_utf8|]. intro s. now apply fine_ok. }
    destruct (prefix_of b =? pfx_True); [now apply fine_ok|].
    destruct (prefix_of b =? pfx_False); [now apply fine_ok|].
    destruct (prefix_of b =? pfx_SmallTuple).
    { apply (fine_bind m); [eapply fine_mono; [|apply fine_take1]; lia|]. intros k r' H'. cbn beta iota. now apply Hseq. }
    destruct (prefix_of b =? pfx_Tuple).
    { apply (fine_bind m); [eapply fine_mono; [|apply fine_rd_u32]; lia|]. intros k r' H'. cbn beta iota. now apply Hseq. }
    destruct (prefix_of b =? pfx_Code).
    { apply (fine_bind m).
      - eapply fine_mono; [|apply (fine_from_bytes (rd_const true f ver (d + 1)) m)].
        + cbn [length]. lia.
        + intros bs' Hbs'. apply IH1. subst m. lia.
        + cbn [length]. lia.
      - intros c r' H'. cbn beta iota. now apply fine_ok. }
    destruct (prefix_of b =? pfx_None); [now apply fine_ok|apply fine_err].
  - intros ver d n bs H. cbn [rd_elems]. destruct (n <=? 0); [now apply fine_ok|].
    destruct bs as [|b0 bs0].
    { destruct f as [|f']; [cbn [length] in H; lia|]. cbn [rd_const andb take1 bind].
      destruct (MAX_DEPTH <=? d); apply fine_err. }
    apply (fine_bind (pred (length (b0 :: bs0)))); [apply IH1; lia|]. intros x r Hr. cbn [length pred] in *. cbn beta iota.
    apply (fine_bind (length r)); [apply IH2; lia|]. intros l r' Hr'. cbn beta iota. apply fine_ok. lia.
Qed.
