(** C15 — proofs, part 2: CPython's unmarshaller reads back what the writer wrote *)
From Coq Require Import ZArith List Bool Lia.
From ErgV Require Import Common.Sx gen.MarshalTab Marshal.Model Marshal.Spec.
From ErgV Require Import Marshal.ProofsBase.
Import ListNotations.
Open Scope Z_scope.
Ltac Zify.zify_post_hook ::= Z.to_euclidean_division_equations.

(* ---- primitives *)
Lemma p_take_app n a r : n = len a -> p_take n (a ++ r) = POk (a, r).
Proof. intros ->. unfold p_take. now rewrite splitz_app. Qed.
Lemma p_long_le4 z r : p_long (le_bytes 4 z ++ r) = POk (to_i32 (z mod 4294967296), r).
Proof.
  unfold p_long. rewrite (p_take_app 4) by (now rewrite le_bytes_len). cbn [pbind].
  rewrite le_val_le_bytes. reflexivity.
Qed.
Lemma to_i32_u31 z : 0 <= z <= i32_max -> to_i32 (z mod 4294967296) = z.
Proof. unfold i32_max. intro H. rewrite Z.mod_small by lia. unfold to_i32, i32_max. destruct (z <=? 2147483647) eqn:E; lia. Qed.
Lemma to_i32_i32 z : -2147483648 <= z <= i32_max -> to_i32 (z mod 4294967296) = z.
Proof.
  unfold i32_max. intro H. unfold to_i32, i32_max.
  destruct (z mod 4294967296 <=? 2147483647) eqn:E; lia.
Qed.
Lemma u31_spec z : u31 z = true -> 0 <= z <= i32_max.
Proof. unfold u31. intro H. apply andb_true_iff in H. destruct H. lia. Qed.

(* ---- dispatch on the type code: one unfolding of r_object *)
Definition guard {A} (d : Z) (k : pres A) : pres A := if MAX_MARSHAL_STACK_DEPTH <=? d then PErr else k.
Lemma guard_ok {A} d (k : pres A) : d < 2000 -> guard d k = k.
Proof. intro H. unfold guard, MAX_MARSHAL_STACK_DEPTH. destruct (2000 <=? d) eqn:E; [lia|reflexivity]. Qed.

Lemma ro_int f ver d r : r_object (S f) ver d (pfx_Int32 :: r) = guard d ('(n, r') <~ p_long r ;; POk (PInt n, r')).
Proof. reflexivity. Qed.
Lemma ro_long f ver d r : r_object (S f) ver d (pfx_Long :: r) = guard d (r_pylong r).
Proof. reflexivity. Qed.
Lemma ro_float f ver d r : r_object (S f) ver d (pfx_BinFloat :: r) = guard d ('(x, r') <~ p_take 8 r ;; POk (PFloat (le_val x), r')).
Proof. reflexivity. Qed.
Lemma ro_bytes f ver d r : r_object (S f) ver d (pfx_Str :: r) =
  guard d ('(n, r') <~ p_long r ;; if n <? 0 then PErr else '(x, r'') <~ p_take n r' ;; POk (PBytes x, r'')).
Proof. reflexivity. Qed.
Lemma ro_short f ver d (i : bool) r : r_object (S f) ver d ((if i then pfx_ShortAsciiInterned else pfx_ShortAscii) :: r) =
  guard d ('(n, r') <~ p_byte r ;; '(x, r'') <~ p_take n r' ;; POk (PStr x, r'')).
Proof. destruct i; reflexivity. Qed.
Lemma ro_unicode f ver d r : r_object (S f) ver d (pfx_Unicode :: r) =
  guard d ('(n, r') <~ p_long r ;;
           if n <? 0 then PErr
           else '(x, r'') <~ p_take n r' ;; match utf8_dec true x with Some s => POk (PStr s, r'') | None => PErr end).
Proof. reflexivity. Qed.
Lemma ro_true f ver d r : r_object (S f) ver d (pfx_True :: r) = guard d (POk (PBool true, r)).
Proof. reflexivity. Qed.
Lemma ro_false f ver d r : r_object (S f) ver d (pfx_False :: r) = guard d (POk (PBool false, r)).
Proof. reflexivity. Qed.
Lemma ro_none f ver d r : r_object (S f) ver d (pfx_None :: r) = guard d (POk (PNone, r)).
Proof. reflexivity. Qed.
Lemma ro_small f ver d r : r_object (S f) ver d (pfx_SmallTuple :: r) =
  guard d ('(n, r') <~ p_byte r ;; '(l, r'') <~ r_seq f ver (d + 1) n r' ;; POk (PTuple l, r'')).
Proof. reflexivity. Qed.
Lemma ro_tuple f ver d r : r_object (S f) ver d (pfx_Tuple :: r) =
  guard d ('(n, r') <~ p_long r ;; if n <? 0 then PErr else '(l, r'') <~ r_seq f ver (d + 1) n r' ;; POk (PTuple l, r'')).
Proof. reflexivity. Qed.
Lemma ro_code f ver d r : r_object (S f) ver d (pfx_Code :: r) = guard d (r_code (r_object f ver (d + 1)) ver r).
Proof. reflexivity. Qed.
Lemma r_seq_S f ver d n bs : 0 < n -> r_seq (S f) ver d n bs =
  '(x, r) <~ r_object f ver d bs ;; '(l, r') <~ r_seq f ver d (n - 1) r ;; POk (x :: l, r').
Proof. intro H. cbn [r_seq]. destruct (n <=? 0) eqn:E; [lia|reflexivity]. Qed.
Lemma r_seq_0 f ver d bs : r_seq f ver d 0 bs = POk ([], bs).
Proof. destruct f; reflexivity. Qed.

Definition fits (F : nat) (b : list Z) : Prop := 2 * len b <= Z.of_nat F.

Lemma str_ok_spec s : str_ok s = true -> forallb scalar s = true /\ len (utf8 s) <= i32_max.
Proof. unfold str_ok. intro H. apply andb_true_iff in H. destruct H. split; [assumption|lia]. Qed.
Lemma bytes_ok_spec b : bytes_ok b = true -> len b <= i32_max.
Proof. unfold bytes_ok. intro H. apply andb_true_iff in H. destruct H. lia. Qed.

Lemma str_bytes_nonempty s i : 2 <= len (str_into_bytes s i).
Proof.
  unfold str_into_bytes. destruct (is_ascii s && (len (utf8 s) <=? 255)); rewrite len_app.
  - rewrite !len_cons, len_nil. pose proof (len_nonneg (utf8 s)). lia.
  - rewrite len_cons, le_bytes_len. pose proof (len_nonneg (utf8 s)). lia.
Qed.

(** a string, interned or not *)
Lemma ro_str_rt F ver d s i rest : str_ok s = true -> fits F (str_into_bytes s i) -> d < 2000 ->
  r_object F ver d (str_into_bytes s i ++ rest) = POk (PStr s, rest).
Proof.
  intros Hs HF Hd. apply str_ok_spec in Hs. destruct Hs as [Hsc Hlen].
  pose proof (str_bytes_nonempty s i) as NE. unfold fits in HF.
  destruct F as [|f]; [lia|].
  unfold str_into_bytes. destruct (is_ascii s && (len (utf8 s) <=? 255)) eqn:E.
  - apply andb_true_iff in E. destruct E as [Ea El]. apply Z.leb_le in El.
    cbn [app]. rewrite ro_short, guard_ok by assumption. cbn [p_byte pbind].
    pose proof (len_nonneg (utf8 s)).
    rewrite Z.mod_small by lia. rewrite p_take_app by reflexivity. cbn [pbind].
    rewrite utf8_ascii by assumption. reflexivity.
  - cbn [app]. rewrite ro_unicode, guard_ok by assumption. rewrite <- app_assoc, p_long_le4. cbn [pbind].
    pose proof (len_nonneg (utf8 s)).
    rewrite to_i32_u31 by lia.
    destruct (len (utf8 s) <? 0) eqn:E2; [lia|].
    rewrite p_take_app by reflexivity. cbn [pbind]. rewrite utf8_dec_utf8 by assumption. reflexivity.
Qed.

(** raw_string_into_bytes *)
Lemma ro_raw_rt F ver d b rest : bytes_ok b = true -> (1 <= F)%nat -> d < 2000 ->
  r_object F ver d (raw_string_into_bytes b ++ rest) = POk (PBytes b, rest).
Proof.
  intros Hb HF Hd. apply bytes_ok_spec in Hb. destruct F as [|f]; [lia|].
  unfold raw_string_into_bytes. cbn [app]. rewrite ro_bytes, guard_ok by assumption.
  rewrite <- app_assoc, p_long_le4. cbn [pbind]. pose proof (len_nonneg b).
  rewrite to_i32_u31 by lia. destruct (len b <? 0) eqn:E; [lia|].
  rewrite p_take_app by reflexivity. reflexivity.
Qed.

(** sequence of strings (strs_into_bytes payload) *)
Lemma seq_strs_rt ver : forall l F d rest, forallb str_ok l = true ->
  2 * len (flat_map (fun s => str_into_bytes s true) l) + 1 <= Z.of_nat F -> d < 2000 ->
  r_seq F ver d (len l) (flat_map (fun s => str_into_bytes s true) l ++ rest) = POk (map PStr l, rest).
Proof.
  induction l as [|s l IH]; intros F d rest Hok HF Hd.
  - cbn [flat_map app len length map]. apply r_seq_0.
  - cbn [forallb] in Hok. apply andb_true_iff in Hok. destruct Hok as [H1 H2].
    cbn [flat_map] in *. rewrite len_app in HF. pose proof (str_bytes_nonempty s true).
    pose proof (len_nonneg (flat_map (fun s0 => str_into_bytes s0 true) l)).
    destruct F as [|f]; [lia|]. rewrite len_cons. pose proof (len_nonneg l).
    rewrite r_seq_S by lia. rewrite <- app_assoc.
    rewrite ro_str_rt; [|assumption|unfold fits; lia|assumption]. cbn [pbind].
    replace (1 + len l - 1) with (len l) by lia.
    rewrite IH; [|assumption|lia|assumption]. reflexivity.
Qed.

Lemma seq_header_len n : 2 <= len (seq_header n).
Proof. unfold seq_header. destruct (255 <? n); rewrite ?len_cons, ?le_bytes_len, ?len_nil; lia. Qed.

(** header + elements, given how the elements are read *)
Lemma ro_seq_rt F ver d n payload rest (vals : list pyval) :
  0 <= n <= i32_max -> fits F (seq_header n ++ payload) -> d < 2000 ->
  (forall f, 2 * len payload + 1 <= Z.of_nat f -> r_seq f ver (d + 1) n (payload ++ rest) = POk (vals, rest)) ->
  r_object F ver d ((seq_header n ++ payload) ++ rest) = POk (PTuple vals, rest).
Proof.
  intros Hn HF Hd Hseq. unfold fits in HF. rewrite len_app in HF. pose proof (seq_header_len n).
  pose proof (len_nonneg payload). destruct F as [|f]; [lia|].
  unfold seq_header in *. destruct (255 <? n) eqn:E.
  - cbn [app]. rewrite ro_tuple, guard_ok by assumption. rewrite <- !app_assoc, p_long_le4. cbn [pbind].
    rewrite to_i32_u31 by assumption. destruct (n <? 0) eqn:E2; [lia|].
    rewrite len_cons, le_bytes_len in HF.
    rewrite Hseq by lia. reflexivity.
  - cbn [app]. rewrite ro_small, guard_ok by assumption. cbn [p_byte pbind].
    rewrite Z.mod_small by lia. rewrite !len_cons, len_nil in HF. rewrite Hseq by lia. reflexivity.
Qed.

Lemma as_strs_map l : as_strs (PTuple (map PStr l)) = Some l.
Proof. cbn [as_strs]. induction l as [|s l IH]; [reflexivity|]. cbn [map fold_right]. rewrite IH. reflexivity. Qed.

Lemma strs_ok_spec l : strs_ok l = true -> forallb str_ok l = true /\ len l <= i32_max.
Proof. unfold strs_ok. intro H. apply andb_true_iff in H. destruct H. split; [assumption|lia]. Qed.

Lemma ro_strs_rt F ver d l rest : strs_ok l = true -> fits F (strs_into_bytes l) -> d + 1 < 2000 ->
  r_object F ver d (strs_into_bytes l ++ rest) = POk (PTuple (map PStr l), rest).
Proof.
  intros Hl HF Hd. apply strs_ok_spec in Hl. destruct Hl as [H1 H2]. unfold strs_into_bytes in *.
  apply ro_seq_rt; [pose proof (len_nonneg l); lia|assumption|lia|].
  intros f Hf. apply seq_strs_rt; [assumption|lia|lia].
Qed.

(* ---- depth and serialisable, unfolded *)
Definition mxd (l : list value) : Z := fold_right (fun x m => Z.max (vdepth x) m) 0 l.
Lemma vdepth_seq_fix l :
  (fix mx (l : list value) : Z := match l with [] => 0 | x :: r => Z.max (vdepth x) (mx r) end) l = mxd l.
Proof. induction l as [|x l IH]; [reflexivity|]. change (mxd (x :: l)) with (Z.max (vdepth x) (mxd l)). rewrite <- IH. reflexivity. Qed.
Lemma vdepth_tuple l : vdepth (VTuple l) = 1 + mxd l.
Proof. cbn [vdepth]. now rewrite vdepth_seq_fix. Qed.
Lemma vdepth_list l : vdepth (VList l) = 1 + mxd l.
Proof. cbn [vdepth]. now rewrite vdepth_seq_fix. Qed.
Lemma vdepth_code c : vdepth (VCode c) = 2 + Z.max 1 (mxd (consts c)).
Proof. cbn [vdepth]. now rewrite vdepth_seq_fix. Qed.
Lemma mxd_nonneg l : 0 <= mxd l.
Proof. induction l; cbn [mxd fold_right]; [lia|]. try fold (mxd l). lia. Qed.
Lemma mxd_in l x : In x l -> vdepth x <= mxd l.
Proof. induction l as [|y l IH]; intro H; [destruct H|]. cbn [mxd fold_right]. try fold (mxd l). destruct H as [->|H]; [lia|]. apply IH in H. lia. Qed.
Lemma ser_seq_fix l :
  (fix all (l : list value) : bool := match l with [] => true | x :: r => serialisable x && all r end) l = forallb serialisable l.
Proof. induction l as [|x l IH]; [reflexivity|]. cbn [forallb]. rewrite <- IH. reflexivity. Qed.
Lemma ser_tuple l : serialisable (VTuple l) = (len l <=? i32_max) && forallb serialisable l.
Proof. cbn [serialisable]. now rewrite ser_seq_fix. Qed.
Lemma ser_list l : serialisable (VList l) = (len l <=? i32_max) && forallb serialisable l.
Proof. cbn [serialisable]. now rewrite ser_seq_fix. Qed.
Lemma ser_code c : serialisable (VCode c) = code_fields_ok c && forallb serialisable (consts c).
Proof. cbn [serialisable]. now rewrite ser_seq_fix. Qed.
Lemma vdepth_pos v : 1 <= vdepth v.
Proof.
  destruct v; try (cbn; lia).
  - rewrite vdepth_tuple. pose proof (mxd_nonneg l). lia.
  - rewrite vdepth_list. pose proof (mxd_nonneg l). lia.
  - rewrite vdepth_code. lia.
Qed.

Lemma wr_nonempty ver v : serialisable v = true -> 1 <= len (wr ver v).
Proof.
  intro H. destruct v; cbn [wr]; try (rewrite len_cons; match goal with |- context [len ?x] => pose proof (len_nonneg x) end; lia).
  - destruct (i32_max <? n) eqn:E.
    + cbn [serialisable] in H. apply andb_true_iff in H. destruct H as [H0 H1].
      unfold long_wr. destruct (digits15_spec 5 n) as (ds & D1 & _); [change (32768 ^ Z.of_nat 5) with 37778931862957161709568; lia|].
      rewrite D1. rewrite len_cons. match goal with |- context [len ?x] => pose proof (len_nonneg x) end. lia.
    + rewrite len_cons. match goal with |- context [len ?x] => pose proof (len_nonneg x) end. lia.
  - pose proof (str_bytes_nonempty s false). lia.
  - destruct b; cbn; lia.
  - rewrite len_app. pose proof (seq_header_len (len l)). pose proof (len_nonneg (flat_map (wr ver) l)). lia.
  - rewrite len_app. pose proof (seq_header_len (len l)). pose proof (len_nonneg (flat_map (wr ver) l)). lia.
  - unfold code_into_bytes. cbn [app]. rewrite len_cons. match goal with |- context [1 + len ?x] => pose proof (len_nonneg x) end. lia.
  - discriminate.
Qed.

(** the induction hypothesis for one value *)
Definition py_rt_at (ver : Z) (v : value) : Prop :=
  forall F d rest, fits F (wr ver v) -> d + vdepth v <= 2000 ->
    r_object F ver d (wr ver v ++ rest) = POk (py_of ver v, rest).

Lemma seq_vals_rt ver : forall l, Forall (py_rt_at ver) l -> forallb serialisable l = true ->
  forall F d rest, 2 * len (flat_map (wr ver) l) + 1 <= Z.of_nat F -> d + mxd l <= 2000 ->
  r_seq F ver d (len l) (flat_map (wr ver) l ++ rest) = POk (map (py_of ver) l, rest).
Proof.
  induction l as [|x l IH]; intros HF Hs F d rest Hfuel Hd.
  - cbn [flat_map app len length map]. apply r_seq_0.
  - inversion HF as [|? ? Hx Hl]; subst. cbn [forallb] in Hs. apply andb_true_iff in Hs. destruct Hs as [S1 S2].
    cbn [flat_map] in *. rewrite len_app in Hfuel. pose proof (wr_nonempty ver x S1).
    pose proof (len_nonneg (flat_map (wr ver) l)).
    cbn [mxd fold_right] in Hd. try fold (mxd l) in Hd.
    destruct F as [|f]; [lia|]. rewrite len_cons. pose proof (len_nonneg l).
    rewrite r_seq_S by lia. rewrite <- app_assoc.
    rewrite Hx; [|unfold fits; lia|lia]. cbn [pbind].
    replace (1 + len l - 1) with (len l) by lia.
    rewrite IH; [reflexivity|assumption|assumption|lia|lia].
Qed.

Definition code_tail {V} (ver : Z) (c : code_ V) (consts_payload : list Z) : list Z :=
  le_bytes 4 (argcount c)
  ++ (if 8 <=? ver then le_bytes 4 (posonlyargcount c) else [])
  ++ le_bytes 4 (kwonlyargcount c)
  ++ (if ver <? 11 then le_bytes 4 (nlocals c) else [])
  ++ le_bytes 4 (stacksize c) ++ le_bytes 4 (flags c)
  ++ raw_string_into_bytes (co_code c)
  ++ (seq_header (len (consts c)) ++ consts_payload)
  ++ strs_into_bytes (names c)
  ++ dump_locals ver (varnames c) (freevars c) (cellvars c)
  ++ str_into_bytes (filename c) false
  ++ str_into_bytes (name c) true
  ++ (if 11 <=? ver then str_into_bytes (qualname c) true else [])
  ++ le_bytes 4 (firstlineno c)
  ++ raw_string_into_bytes (lnotab c)
  ++ (if 11 <=? ver then raw_string_into_bytes (exceptiontable c) else []).
Lemma code_into_bytes_tail {V} ver (c : code_ V) p : code_into_bytes ver c p = pfx_Code :: code_tail ver c p.
Proof. reflexivity. Qed.

Lemma ro_seq_rt' F ver d n payload rest (vals : list pyval) :
  0 <= n <= i32_max -> fits F (seq_header n ++ payload) -> d < 2000 ->
  (forall f, 2 * len payload + 1 <= Z.of_nat f -> r_seq f ver (d + 1) n (payload ++ rest) = POk (vals, rest)) ->
  r_object F ver d (seq_header n ++ payload ++ rest) = POk (PTuple vals, rest).
Proof. intros. rewrite app_assoc. now apply ro_seq_rt. Qed.

Record code_ok_facts {V} (c : code_ V) : Prop := {
  f_argc : 0 <= argcount c <= i32_max; f_posc : 0 <= posonlyargcount c <= i32_max;
  f_kwc : 0 <= kwonlyargcount c <= i32_max; f_nloc : 0 <= nlocals c <= i32_max;
  f_stk : 0 <= stacksize c <= i32_max; f_flg : 0 <= flags c <= i32_max; f_fl : 0 <= firstlineno c <= i32_max;
  f_code : bytes_ok (co_code c) = true; f_lt : bytes_ok (lnotab c) = true; f_et : bytes_ok (exceptiontable c) = true;
  f_names : strs_ok (names c) = true; f_vn : strs_ok (varnames c) = true; f_fv : strs_ok (freevars c) = true;
  f_cv : strs_ok (cellvars c) = true;
  f_fn : str_ok (filename c) = true; f_nm : str_ok (name c) = true; f_qn : str_ok (qualname c) = true;
  f_nconsts : len (consts c) <= i32_max;
  f_nlocals : len (varnames c) + len (freevars c) + len (cellvars c) <= i32_max }.
Lemma code_fields_ok_spec {V} (c : code_ V) : code_fields_ok c = true -> code_ok_facts c.
Proof.
  unfold code_fields_ok. rewrite !andb_true_iff. intro H.
  repeat match goal with H : _ /\ _ |- _ => destruct H end.
  constructor; try assumption; try (apply u31_spec; assumption); lia.
Qed.

Lemma ltb0 z : 0 <= z -> (z <? 0) = false.
Proof. intro. destruct (z <? 0) eqn:E; lia. Qed.

(* names + kinds of 3.11 *)
Lemma combine_const_app {A} (a : list A) (k : Z) b kb :
  combine (a ++ b) (map (fun _ => k) a ++ kb) = map (fun x => (x, k)) a ++ combine b kb.
Proof. induction a as [|x a IH]; [reflexivity|]. cbn [app map combine]. now rewrite IH. Qed.
Lemma combine_const {A} (a : list A) (k : Z) : combine a (map (fun _ => k) a) = map (fun x => (x, k)) a.
Proof. induction a as [|x a IH]; [reflexivity|]. cbn [map combine]. now rewrite IH. Qed.
Lemma filter_const {A} (a : list A) (k flag : Z) :
  map fst (filter (fun nk : A * Z => negb (Z.land (snd nk) flag =? 0)) (map (fun x => (x, k)) a))
  = if Z.land k flag =? 0 then [] else a.
Proof.
  induction a as [|x a IH]; [destruct (Z.land k flag =? 0); reflexivity|].
  cbn [map filter snd]. destruct (Z.land k flag =? 0) eqn:E; cbn [negb map fst]; [exact IH|now rewrite IH].
Qed.
Lemma kind_names_3 flag (a b c : list (list Z)) ka kb kc :
  kind_names flag (a ++ b ++ c) (map (fun _ => ka) a ++ map (fun _ => kb) b ++ map (fun _ => kc) c)
  = (if Z.land ka flag =? 0 then [] else a) ++ (if Z.land kb flag =? 0 then [] else b) ++ (if Z.land kc flag =? 0 then [] else c).
Proof.
  unfold kind_names. rewrite !combine_const_app, combine_const. rewrite !filter_app, !map_app, !filter_const. reflexivity.
Qed.
Lemma map_const_len {A} (a : list A) (k : Z) : len (map (fun _ => k) a) = len a.
Proof. unfold len. now rewrite map_length. Qed.
Lemma forallb_filter {A} (p q : A -> bool) l : forallb p l = true -> forallb p (filter q l) = true.
Proof. induction l as [|x l IH]; [reflexivity|]. cbn [forallb filter]. intro H. apply andb_true_iff in H. destruct H as [H1 H2]. destruct (q x); cbn [forallb]; [rewrite H1|]; auto. Qed.
Lemma filter_len {A} (q : A -> bool) l : len (filter q l) <= len l.
Proof. induction l as [|x l IH]; [reflexivity|]. cbn [filter]. destruct (q x); rewrite ?len_cons; lia. Qed.
Lemma forallb_const_bytes {A} (a : list A) k : 0 <= k < 256 -> forallb (fun x => (0 <=? x) && (x <? 256)) (map (fun _ => k) a) = true.
Proof. intro H. induction a; [reflexivity|]. cbn [map forallb]. rewrite IHa. destruct (0 <=? k) eqn:E1, (k <? 256) eqn:E2; try reflexivity; lia. Qed.


Ltac fit := unfold fits in *; rewrite ?len_app, ?le_bytes_len in *; unfold len in *; lia.
Ltac side := first [assumption | lia | fit].

Lemma strs_ok_locals (vn fv cv : list (list Z)) (q : list Z -> bool) :
  strs_ok vn = true -> strs_ok fv = true -> strs_ok cv = true -> len vn + len fv + len cv <= i32_max ->
  strs_ok (filter q vn ++ fv ++ cv) = true.
Proof.
  intros H1 H2 H3 H4. apply strs_ok_spec in H1. apply strs_ok_spec in H2. apply strs_ok_spec in H3.
  destruct H1 as [A1 A2], H2 as [B1 B2], H3 as [C1 C2]. unfold strs_ok.
  rewrite !forallb_app, forallb_filter by assumption. rewrite B1, C1. cbn [andb].
  rewrite !len_app. pose proof (filter_len q vn). lia.
Qed.
Lemma bytes_ok_kinds (a b c : list (list Z)) :
  len a + len b + len c <= i32_max ->
  bytes_ok (map (fun _ => fk_Local) a ++ map (fun _ => fk_Free) b ++ map (fun _ => (fk_Cell + fk_Local) mod 256) c) = true.
Proof.
  intro H. unfold bytes_ok. rewrite !forallb_app, !forallb_const_bytes by (cbv; split; congruence).
  cbn [andb]. rewrite !len_app, !map_const_len. lia.
Qed.

Lemma r_code_rt ver c f d1 rest :
  code_fields_ok c = true -> forallb serialisable (consts c) = true -> Forall (py_rt_at ver) (consts c) ->
  fits f (code_tail ver c (flat_map (wr ver) (consts c))) -> d1 + 1 + Z.max 1 (mxd (consts c)) <= 2000 ->
  r_code (r_object f ver d1) ver (code_tail ver c (flat_map (wr ver) (consts c)) ++ rest)
  = POk (PCode (py_code ver c (map (py_of ver) (consts c))), rest).
Proof.
  intros Hok Hser HIH HF Hd.
  destruct (code_fields_ok_spec c Hok).
  pose proof (mxd_nonneg (consts c)) as Hmx. pose proof (len_nonneg (consts c)) as Hnc.
  unfold r_code, code_tail, dump_locals in *. rewrite (Z.ltb_antisym 11 ver) in *.
  unfold py_code.
  assert (Hsq : forall rest0 fu, 2 * len (flat_map (wr ver) (consts c)) + 1 <= Z.of_nat fu ->
                r_seq fu ver (d1 + 1) (len (consts c)) (flat_map (wr ver) (consts c) ++ rest0) = POk (map (py_of ver) (consts c), rest0))
    by (intros rest0 fu Hfu; apply seq_vals_rt; [assumption|assumption|assumption|lia]).
  destruct (11 <=? ver) eqn:E11; destruct (8 <=? ver) eqn:E8; try lia; cbn [negb] in *.
  - (* 3.11 *)
    rewrite <- ?app_assoc in *; cbn [app] in *.
    assert (Hf1 : (1 <= f)%nat) by fit.
    set (vn' := filter (fun n => negb (contains (freevars c) n) && negb (contains (cellvars c) n)) (varnames c)) in *.
    assert (Hlp : strs_ok (vn' ++ freevars c ++ cellvars c) = true) by (apply strs_ok_locals; assumption).
    assert (Hvl : len vn' <= len (varnames c)) by apply filter_len.
    assert (Hk : bytes_ok (map (fun _ => fk_Local) vn' ++ map (fun _ => fk_Free) (freevars c)
                            ++ map (fun _ => (fk_Cell + fk_Local) mod 256) (cellvars c)) = true) by (apply bytes_ok_kinds; lia).
    repeat (rewrite p_long_le4, to_i32_u31 by assumption; cbn [pbind]).
    rewrite ro_raw_rt by side. cbn [pbind].
    rewrite (ro_seq_rt' f ver d1 _ _ _ (map (py_of ver) (consts c))); [|side|side|side|intros; apply Hsq; lia]. cbn [pbind].
    rewrite ro_strs_rt by side. cbn [pbind].
    rewrite ro_strs_rt by side. cbn [pbind].
    rewrite ro_raw_rt by side. cbn [pbind].
    rewrite ro_str_rt by side. cbn [pbind].
    rewrite ro_str_rt by side. cbn [pbind].
    rewrite ro_str_rt by side. cbn [pbind].
    rewrite p_long_le4, to_i32_u31 by assumption; cbn [pbind].
    rewrite ro_raw_rt by side. cbn [pbind].
    rewrite ro_raw_rt by side. cbn [pbind].
    rewrite !as_strs_map.
    rewrite !ltb0 by lia. cbn [orb].
    match goal with |- context [len ?a =? len ?b] =>
      assert (HL : len a = len b) by (rewrite !len_app, !map_const_len; reflexivity); rewrite HL end.
    rewrite Z.eqb_refl. cbn [negb].
    rewrite !kind_names_3.
    repeat match goal with |- context [Z.land ?a ?b =? 0] =>
      let v := eval vm_compute in (Z.land a b =? 0) in change (Z.land a b =? 0) with v end.
    cbn [app]. rewrite ?app_nil_r. reflexivity.
  - (* 3.8 - 3.10 *)
    rewrite <- ?app_assoc in *; cbn [app] in *.
    assert (Hf1 : (1 <= f)%nat) by fit.
    repeat (rewrite p_long_le4, to_i32_u31 by assumption; cbn [pbind]).
    rewrite ro_raw_rt by side. cbn [pbind].
    rewrite (ro_seq_rt' f ver d1 _ _ _ (map (py_of ver) (consts c))); [|side|side|side|intros; apply Hsq; lia]. cbn [pbind].
    rewrite ro_strs_rt by side. cbn [pbind].
    rewrite ro_strs_rt by side. cbn [pbind].
    rewrite ro_strs_rt by side. cbn [pbind].
    rewrite ro_strs_rt by side. cbn [pbind].
    rewrite ro_str_rt by side. cbn [pbind].
    rewrite ro_str_rt by side. cbn [pbind].
    rewrite p_long_le4, to_i32_u31 by assumption; cbn [pbind].
    rewrite ro_raw_rt by side. cbn [pbind].
    rewrite !as_strs_map.
    rewrite !ltb0 by lia. cbn [orb]. reflexivity.
  - (* 3.7 *)
    rewrite <- ?app_assoc in *; cbn [app] in *.
    assert (Hf1 : (1 <= f)%nat) by fit.
    repeat (rewrite p_long_le4, to_i32_u31 by assumption; cbn [pbind]).
    rewrite ro_raw_rt by side. cbn [pbind].
    rewrite (ro_seq_rt' f ver d1 _ _ _ (map (py_of ver) (consts c))); [|side|side|side|intros; apply Hsq; lia]. cbn [pbind].
    rewrite ro_strs_rt by side. cbn [pbind].
    rewrite ro_strs_rt by side. cbn [pbind].
    rewrite ro_strs_rt by side. cbn [pbind].
    rewrite ro_strs_rt by side. cbn [pbind].
    rewrite ro_str_rt by side. cbn [pbind].
    rewrite ro_str_rt by side. cbn [pbind].
    rewrite p_long_le4, to_i32_u31 by assumption; cbn [pbind].
    rewrite ro_raw_rt by side. cbn [pbind].
    rewrite !as_strs_map.
    rewrite !ltb0 by lia. cbn [orb]. reflexivity.
Qed.

Lemma forallb_Forall_imp {A} (p : A -> bool) (Q : A -> Prop) l :
  Forall (fun x => p x = true -> Q x) l -> forallb p l = true -> Forall Q l.
Proof.
  induction l as [|x l IH]; intros H1 H2; [constructor|].
  inversion H1; subst. cbn [forallb] in H2. apply andb_true_iff in H2. destruct H2. constructor; auto.
Qed.

Lemma py_rt ver : forall v, serialisable v = true -> py_rt_at ver v.
Proof.
  induction v using value_ind_nested; intros HS F d rest HF Hd; unfold fits in HF.
  - (* Int *) cbn [wr py_of vdepth] in *. cbn [serialisable] in HS. apply andb_true_iff in HS. destruct HS as [H0 H1].
    rewrite len_cons, le_bytes_len in HF. destruct F as [|f]; [lia|].
    cbn [app]. rewrite ro_int, guard_ok by lia. rewrite p_long_le4. cbn [pbind]. rewrite to_i32_i32 by lia. reflexivity.
  - (* Nat *) cbn [py_of vdepth] in *. cbn [serialisable] in HS. apply andb_true_iff in HS. destruct HS as [H0 H1].
    cbn [wr] in *. destruct (i32_max <? n) eqn:E.
    + unfold long_wr in *.
      destruct (digits15_spec 5 n) as (ds & D1 & D2 & D3 & D4 & D5); [change (32768 ^ Z.of_nat 5) with 37778931862957161709568; lia|].
      rewrite D1 in *. rewrite len_cons in HF. destruct F as [|f]; [pose proof (len_nonneg (le_bytes 4 (len ds) ++ flat_map (le_bytes 2) ds)); lia|].
      cbn [app]. rewrite ro_long, guard_ok by lia. unfold r_pylong. rewrite <- app_assoc, p_long_le4. cbn [pbind].
      destruct D4 as [D4 D4']; [unfold i32_max in *; lia|].
      assert (Hl : 1 <= len ds <= 5). { unfold len. destruct ds; [contradiction|]. cbn [length] in *. lia. }
      rewrite to_i32_u31 by (unfold i32_max; lia).
      destruct (len ds =? 0) eqn:E0; [lia|]. destruct (len ds =? -2147483648) eqn:E1; [lia|].
      rewrite p_take_app by (rewrite flat_map_le2_len; lia). cbn [pbind].
      rewrite py_digits_le2 by assumption.
      destruct (last ds 0 =? 0) eqn:E2; [lia|]. destruct (len ds <? 0) eqn:E3; [lia|]. rewrite D2. reflexivity.
    + rewrite len_cons, le_bytes_len in HF. destruct F as [|f]; [lia|].
      cbn [app]. rewrite ro_int, guard_ok by lia. rewrite p_long_le4. cbn [pbind]. rewrite to_i32_u31 by lia. reflexivity.
  - (* Float *) cbn [wr py_of vdepth] in *. cbn [serialisable] in HS. apply andb_true_iff in HS. destruct HS as [H0 H1].
    rewrite len_cons, le_bytes_len in HF. destruct F as [|f]; [lia|].
    cbn [app]. rewrite ro_float, guard_ok by lia. rewrite p_take_app by (now rewrite le_bytes_len). cbn [pbind].
    rewrite le_val_le_bytes_id by (change (256 ^ Z.of_nat 8) with 18446744073709551616; lia). reflexivity.
  - (* Str *) cbn [wr py_of vdepth serialisable] in *. apply ro_str_rt; [assumption|exact HF|lia].
  - (* Bool *) cbn [py_of vdepth] in *. destruct b; cbn [wr] in *; (destruct F as [|f]; [cbn in HF; lia|]); cbn [app];
      [rewrite ro_true|rewrite ro_false]; rewrite guard_ok by lia; reflexivity.
  - (* None *) cbn [wr py_of vdepth] in *. destruct F as [|f]; [cbn in HF; lia|]. cbn [app]. rewrite ro_none, guard_ok by lia. reflexivity.
  - (* Tuple *) rewrite ser_tuple in HS. apply andb_true_iff in HS. destruct HS as [S0 S1].
    rewrite vdepth_tuple in Hd. cbn [wr py_of] in *. pose proof (len_nonneg l). pose proof (mxd_nonneg l).
    apply ro_seq_rt; [lia|exact HF|lia|].
    intros f Hf. apply seq_vals_rt; [eapply forallb_Forall_imp; eassumption|assumption|lia|lia].
  - (* List *) rewrite ser_list in HS. apply andb_true_iff in HS. destruct HS as [S0 S1].
    rewrite vdepth_list in Hd. cbn [wr py_of] in *. pose proof (len_nonneg l). pose proof (mxd_nonneg l).
    apply ro_seq_rt; [lia|exact HF|lia|].
    intros f Hf. apply seq_vals_rt; [eapply forallb_Forall_imp; eassumption|assumption|lia|lia].
  - (* Code *) rewrite ser_code in HS. apply andb_true_iff in HS. destruct HS as [S0 S1].
    rewrite vdepth_code in Hd. cbn [wr py_of] in *. rewrite code_into_bytes_tail in *. rewrite len_cons in HF.
    destruct F as [|f]; [match type of HF with context [len ?x] => pose proof (len_nonneg x) end; lia|].
    cbn [app]. rewrite ro_code, guard_ok by lia.
    apply r_code_rt; [assumption|assumption|eapply forallb_Forall_imp; eassumption|unfold fits; lia|lia].
  - discriminate.
Qed.

Theorem py_loads_dumps_all ver v : serialisable v = true -> vdepth v <= 2000 ->
  py_loads ver (wr ver v) = POk (py_of ver v, []).
Proof.
  intros HS Hd. unfold py_loads. rewrite <- (app_nil_r (wr ver v)) at 2.
  apply py_rt; [assumption| |lia].
  unfold fits, fuel_for, len. lia.
Qed.
