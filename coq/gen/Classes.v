(* GENERATED on every run by pylib/types_gen.py from Context::verif_class_table of the live builtin context
   (harness ergv-types, case (0)) and Type::is_mono_value_class (crates/erg_compiler/ty/mod.rs). Do not edit.
   row: (id, name as code points, (is_poly, is_class, is_trait), super_classes, super_traits);
   a super type is (id of its head, has type arguments); id -1: the head is not a registered type *)
From Coq Require Import ZArith List Bool.
Import ListNotations.
Open Scope Z_scope.

Definition classes : list (Z * list Z * (bool * bool * bool) * list (Z * bool) * list (Z * bool)) := [
  (0, [65; 100; 100], (true, false, true), [(117, true)], []);
  (1, [65; 114; 105; 116; 104; 109; 101; 116; 105; 99; 69; 114; 114; 111; 114], (false, true, false), [(38, false); (4, false); (113, false)], []);
  (2, [65; 115; 115; 101; 114; 116; 105; 111; 110; 69; 114; 114; 111; 114], (false, true, false), [(38, false); (4, false); (113, false)], []);
  (3, [65; 116; 116; 114; 105; 98; 117; 116; 101; 69; 114; 114; 111; 114], (false, true, false), [(38, false); (4, false); (113, false)], []);
  (4, [66; 97; 115; 101; 69; 120; 99; 101; 112; 116; 105; 111; 110], (false, true, false), [(113, false)], []);
  (5, [66; 108; 111; 99; 107; 105; 110; 103; 73; 79; 69; 114; 114; 111; 114], (false, true, false), [(112, false); (38, false); (4, false); (113, false)], []);
  (6, [66; 111; 111; 108], (false, true, false), [(104, false); (77, false); (46, false); (17, false); (113, false)], [(173, false); (172, false); (171, false); (111, false); (119, false); (0, true); (163, true); (97, true); (33, true); (49, true); (123, false); (106, false); (99, false); (155, false); (116, false); (36, false); (66, false); (37, false); (0, true); (163, true); (97, true); (49, true); (33, true); (0, true); (163, true); (97, true); (49, true); (33, true); (116, false); (36, false); (99, false); (155, false)]);
  (7, [66; 111; 111; 108; 33], (false, true, false), [(6, false); (104, false); (77, false); (46, false); (17, false); (113, false); (105, false); (78, false); (47, false)], [(173, false); (172, false); (171, false); (111, false); (119, false); (0, true); (163, true); (97, true); (33, true); (49, true); (123, false); (106, false); (99, false); (155, false); (116, false); (36, false); (66, false); (37, false); (0, true); (163, true); (97, true); (49, true); (33, true); (0, true); (163, true); (97, true); (49, true); (33, true); (69, false); (24, false); (69, false); (24, false)]);
  (8, [66; 114; 111; 107; 101; 110; 80; 105; 112; 101; 69; 114; 114; 111; 114], (false, true, false), [(19, false); (112, false); (38, false); (4, false); (113, false)], []);
  (9, [66; 117; 102; 102; 101; 114; 69; 114; 114; 111; 114], (false, true, false), [(38, false); (4, false); (113, false)], []);
  (10, [66; 121; 116; 101; 65; 114; 114; 97; 121; 33], (false, true, false), [(11, false); (113, false)], [(116, false); (119, false); (36, false); (150, true); (156, false); (74, true); (76, true); (117, true); (16, true); (22, true); (117, true); (82, true); (66, false); (37, false); (24, false)]);
  (11, [66; 121; 116; 101; 115], (false, true, false), [(113, false)], [(116, false); (119, false); (36, false); (150, true); (156, false); (74, true); (76, true); (117, true); (16, true); (22, true); (117, true); (82, true); (66, false); (37, false)]);
  (12, [66; 121; 116; 101; 115; 87; 97; 114; 110; 105; 110; 103], (false, true, false), [(190, false); (38, false); (4, false); (113, false)], []);
  (13, [67; 104; 105; 108; 100; 80; 114; 111; 99; 101; 115; 115; 69; 114; 114; 111; 114], (false, true, false), [(112, false); (38, false); (4, false); (113, false)], []);
  (14, [67; 108; 97; 115; 115; 84; 121; 112; 101], (false, true, false), [(178, false); (113, false)], [(101, false); (22, true); (36, false); (66, false); (36, false)]);
  (15, [67; 111; 100; 101], (false, true, false), [(113, false)], [(36, false); (66, false); (37, false)]);
  (16, [67; 111; 108; 108; 101; 99; 116; 105; 111; 110], (true, false, true), [(156, false); (22, true); (117, true); (82, true)], []);
  (17, [67; 111; 109; 112; 108; 101; 120], (false, true, false), [(113, false)], []);
  (18, [67; 111; 110; 110; 101; 99; 116; 105; 111; 110; 65; 98; 111; 114; 116; 101; 100; 69; 114; 114; 111; 114], (false, true, false), [(19, false); (112, false); (38, false); (4, false); (113, false)], []);
  (19, [67; 111; 110; 110; 101; 99; 116; 105; 111; 110; 69; 114; 114; 111; 114], (false, true, false), [(112, false); (38, false); (4, false); (113, false)], []);
  (20, [67; 111; 110; 110; 101; 99; 116; 105; 111; 110; 82; 101; 102; 117; 115; 101; 100; 69; 114; 114; 111; 114], (false, true, false), [(19, false); (112, false); (38, false); (4, false); (113, false)], []);
  (21, [67; 111; 110; 110; 101; 99; 116; 105; 111; 110; 82; 101; 115; 101; 116; 69; 114; 114; 111; 114], (false, true, false), [(19, false); (112, false); (38, false); (4, false); (113, false)], []);
  (22, [67; 111; 110; 116; 97; 105; 110; 101; 114], (true, false, true), [(117, true)], []);
  (23, [67; 111; 110; 116; 101; 120; 116; 77; 97; 110; 97; 103; 101; 114], (false, false, true), [], []);
  (24, [67; 111; 112; 121], (false, false, true), [], []);
  (25, [67; 111; 114; 111; 117; 116; 105; 110; 101], (true, true, false), [(164, false); (113, false)], [(117, true)]);
  (26, [68; 101; 112; 114; 101; 99; 97; 116; 105; 111; 110; 87; 97; 114; 110; 105; 110; 103], (false, true, false), [(190, false); (38, false); (4, false); (113, false)], []);
  (27, [68; 105; 99; 116], (true, true, false), [(58, false); (113, false)], [(36, false); (156, false); (117, true); (99, false); (91, true); (74, true); (76, true); (117, true); (82, true); (22, true); (24, false)]);
  (28, [68; 105; 99; 116; 33], (true, true, false), [(27, true); (58, false); (113, false)], [(36, false); (156, false); (117, true); (99, false); (91, true); (74, true); (76, true); (117, true); (82, true); (22, true); (24, false)]);
  (29, [68; 105; 99; 116; 73; 116; 101; 109; 115], (true, true, false), [(113, false)], [(83, true); (82, true); (117, true)]);
  (30, [68; 105; 99; 116; 75; 101; 121; 115], (true, true, false), [(113, false)], [(83, true); (82, true); (117, true)]);
  (31, [68; 105; 99; 116; 86; 97; 108; 117; 101; 115], (true, true, false), [(113, false)], [(83, true); (82, true); (117, true)]);
  (32, [68; 105; 109; 101; 110; 115; 105; 111; 110], (true, true, false), [], [(117, true); (172, false); (173, false); (36, false); (119, false); (0, true); (163, true); (97, true); (134, true); (33, true); (133, true)]);
  (33, [68; 105; 118], (true, false, true), [(117, true)], []);
  (34, [69; 79; 70; 69; 114; 114; 111; 114], (false, true, false), [(38, false); (4, false); (113, false)], []);
  (35, [69; 110; 117; 109; 101; 114; 97; 116; 101], (true, true, false), [(113, false)], [(83, true); (82, true); (117, true); (117, true)]);
  (36, [69; 113], (false, false, true), [], []);
  (37, [69; 113; 72; 97; 115; 104], (false, false, true), [(66, false); (36, false)], []);
  (38, [69; 120; 99; 101; 112; 116; 105; 111; 110], (false, true, false), [(4, false); (113, false)], []);
  (39, [70; 105; 108; 101; 33], (false, true, false), [], [(139, false); (191, false); (42, false); (43, false); (68, false); (40, false); (23, false)]);
  (40, [70; 105; 108; 101; 68; 101; 115; 99; 114; 105; 112; 116; 111; 114], (false, false, true), [], []);
  (41, [70; 105; 108; 101; 69; 120; 105; 115; 116; 115; 69; 114; 114; 111; 114], (false, true, false), [(112, false); (38, false); (4, false); (113, false)], []);
  (42, [70; 105; 108; 101; 76; 105; 107; 101], (false, false, true), [(139, false)], []);
  (43, [70; 105; 108; 101; 76; 105; 107; 101; 33], (false, false, true), [(42, false); (139, false); (191, false); (68, false); (40, false)], []);
  (44, [70; 105; 108; 101; 78; 111; 116; 70; 111; 117; 110; 100; 69; 114; 114; 111; 114], (false, true, false), [(112, false); (38, false); (4, false); (113, false)], []);
  (45, [70; 105; 108; 116; 101; 114], (true, true, false), [(113, false)], [(83, true); (82, true); (117, true)]);
  (46, [70; 108; 111; 97; 116], (false, true, false), [(17, false); (113, false)], [(173, false); (172, false); (171, false); (111, false); (119, false); (0, true); (163, true); (97, true); (33, true); (49, true); (123, false); (106, false); (99, false); (155, false)]);
  (47, [70; 108; 111; 97; 116; 33], (false, true, false), [(46, false); (17, false); (113, false)], [(173, false); (172, false); (171, false); (111, false); (119, false); (0, true); (163, true); (97, true); (33, true); (49, true); (123, false); (106, false); (99, false); (155, false); (69, false); (24, false)]);
  (48, [70; 108; 111; 97; 116; 105; 110; 103; 80; 111; 105; 110; 116; 69; 114; 114; 111; 114], (false, true, false), [(1, false); (38, false); (4, false); (113, false)], []);
  (49, [70; 108; 111; 111; 114; 68; 105; 118], (true, false, true), [(117, true)], []);
  (50, [70; 114; 97; 109; 101], (false, true, false), [], []);
  (51, [70; 114; 111; 122; 101; 110; 83; 101; 116], (true, true, false), [(113, false)], [(117, true); (82, true); (16, true); (156, false); (22, true); (150, true); (74, true); (76, true); (117, true); (36, false); (155, false); (24, false)]);
  (52, [70; 117; 110; 99], (false, true, false), [(124, false); (164, false); (113, false)], []);
  (53, [70; 117; 110; 99; 77; 101; 116; 97; 84; 121; 112; 101], (false, true, false), [(52, false); (124, false); (164, false); (113, false); (125, false); (178, false)], [(101, false); (22, true); (36, false); (66, false)]);
  (54, [70; 117; 116; 117; 114; 101; 87; 97; 114; 110; 105; 110; 103], (false, true, false), [(190, false); (38, false); (4, false); (113, false)], []);
  (55, [71; 101; 110; 101; 114; 97; 116; 111; 114], (true, true, false), [(164, false); (113, false)], [(83, true); (82, true); (117, true)]);
  (56, [71; 101; 110; 101; 114; 97; 116; 111; 114; 69; 120; 105; 116], (false, true, false), [(4, false); (113, false)], []);
  (57, [71; 101; 110; 101; 114; 105; 99; 67; 97; 108; 108; 97; 98; 108; 101], (false, false, true), [], []);
  (58, [71; 101; 110; 101; 114; 105; 99; 68; 105; 99; 116], (false, true, false), [(113, false)], [(36, false); (156, false)]);
  (59, [71; 101; 110; 101; 114; 105; 99; 76; 105; 115; 116], (false, true, false), [(113, false)], [(36, false); (66, false)]);
  (60, [71; 101; 110; 101; 114; 105; 99; 77; 111; 100; 117; 108; 101], (false, true, false), [(113, false)], [(101, false); (36, false); (66, false); (37, false)]);
  (61, [71; 101; 110; 101; 114; 105; 99; 78; 97; 109; 101; 100; 84; 117; 112; 108; 101], (false, true, false), [(63, false); (113, false)], [(36, false); (66, false); (37, false); (156, false); (74, true); (82, true)]);
  (62, [71; 101; 110; 101; 114; 105; 99; 83; 101; 116], (false, true, false), [(113, false)], [(36, false); (156, false)]);
  (63, [71; 101; 110; 101; 114; 105; 99; 84; 117; 112; 108; 101], (false, true, false), [(113, false)], [(36, false); (66, false); (37, false); (156, false)]);
  (64, [72; 97; 115; 83; 99; 97; 108; 97; 114; 84; 121; 112; 101], (true, false, true), [(117, true)], []);
  (65, [72; 97; 115; 83; 104; 97; 112; 101], (true, false, true), [], []);
  (66, [72; 97; 115; 104], (false, false, true), [], []);
  (67, [72; 111; 109; 111; 103; 101; 110; 111; 117; 115; 84; 117; 112; 108; 101], (true, true, false), [(63, false); (113, false)], [(36, false); (66, false); (37, false); (156, false); (117, true); (97, true); (150, true); (74, true); (76, true); (117, true); (16, true); (22, true); (82, true)]);
  (68, [73; 79; 33], (false, false, true), [(139, false); (40, false)], []);
  (69, [73; 109; 109; 117; 116; 105; 122; 97; 98; 108; 101], (false, false, true), [(98, false)], []);
  (70, [73; 109; 112; 111; 114; 116; 69; 114; 114; 111; 114], (false, true, false), [(38, false); (4, false); (113, false)], []);
  (71, [73; 109; 112; 111; 114; 116; 87; 97; 114; 110; 105; 110; 103], (false, true, false), [(190, false); (38, false); (4, false); (113, false)], []);
  (72, [73; 110; 100; 101; 110; 116; 97; 116; 105; 111; 110; 69; 114; 114; 111; 114], (false, true, false), [(165, false); (38, false); (4, false); (113, false)], []);
  (73, [73; 110; 100; 101; 120; 69; 114; 114; 111; 114], (false, true, false), [(89, false); (38, false); (4, false); (113, false)], []);
  (74, [73; 110; 100; 101; 120; 97; 98; 108; 101], (true, false, true), [(76, true); (117, true)], []);
  (75, [73; 110; 104; 101; 114; 105; 116; 97; 98; 108; 101; 84; 121; 112; 101], (false, false, true), [], []);
  (76, [73; 110; 112; 117; 116], (true, false, true), [], []);
  (77, [73; 110; 116], (false, true, false), [(46, false); (17, false); (113, false)], [(173, false); (172, false); (171, false); (111, false); (119, false); (0, true); (163, true); (97, true); (33, true); (49, true); (123, false); (106, false); (99, false); (155, false); (116, false); (36, false); (66, false); (37, false); (0, true); (163, true); (97, true); (49, true); (33, true); (123, false); (106, false); (99, false); (155, false)]);
  (78, [73; 110; 116; 33], (false, true, false), [(77, false); (46, false); (17, false); (113, false); (47, false)], [(173, false); (172, false); (171, false); (111, false); (119, false); (0, true); (163, true); (97, true); (33, true); (49, true); (123, false); (106, false); (99, false); (155, false); (116, false); (36, false); (66, false); (37, false); (0, true); (163, true); (97, true); (49, true); (33, true); (69, false); (24, false); (69, false); (24, false)]);
  (79, [73; 110; 116; 101; 114; 114; 117; 112; 116; 101; 100; 69; 114; 114; 111; 114], (false, true, false), [(112, false); (38, false); (4, false); (113, false)], []);
  (80, [73; 114; 114; 101; 103; 117; 108; 97; 114; 69; 113], (false, false, true), [], []);
  (81, [73; 115; 65; 68; 105; 114; 101; 99; 116; 111; 114; 121; 69; 114; 114; 111; 114], (false, true, false), [(112, false); (38, false); (4, false); (113, false)], []);
  (82, [73; 116; 101; 114; 97; 98; 108; 101], (true, false, true), [(117, true)], []);
  (83, [73; 116; 101; 114; 97; 116; 111; 114], (true, false, true), [(82, true); (117, true)], []);
  (84, [75; 101; 121; 69; 114; 114; 111; 114], (false, true, false), [(89, false); (38, false); (4, false); (113, false)], []);
  (85, [75; 101; 121; 98; 111; 97; 114; 100; 73; 110; 116; 101; 114; 114; 117; 112; 116], (false, true, false), [(4, false); (113, false)], []);
  (86, [76; 105; 115; 116], (true, true, false), [(59, false); (113, false)], [(36, false); (66, false); (117, true); (0, true); (97, true); (97, true); (99, false); (74, true); (76, true); (65, true); (64, true); (117, true); (156, false); (150, true); (76, true); (117, true); (16, true); (22, true); (82, true); (155, false)]);
  (87, [76; 105; 115; 116; 33], (true, true, false), [(86, true); (59, false); (113, false)], [(36, false); (66, false); (117, true); (0, true); (97, true); (97, true); (99, false); (74, true); (76, true); (65, true); (64, true); (117, true); (156, false); (150, true); (76, true); (117, true); (16, true); (22, true); (82, true); (155, false); (24, false); (69, false)]);
  (88, [76; 105; 115; 116; 73; 116; 101; 114; 97; 116; 111; 114], (true, true, false), [(113, false)], [(83, true); (82, true); (117, true)]);
  (89, [76; 111; 111; 107; 117; 112; 69; 114; 114; 111; 114], (false, true, false), [(38, false); (4, false); (113, false)], []);
  (90, [77; 97; 112], (true, true, false), [(113, false)], [(83, true); (82, true); (117, true)]);
  (91, [77; 97; 112; 112; 105; 110; 103], (true, false, true), [(74, true); (76, true); (117, true)], []);
  (92, [77; 97; 112; 112; 105; 110; 103; 33], (true, false, true), [(91, true); (74, true); (76, true); (117, true)], []);
  (93, [77; 101; 109; 111; 114; 121; 69; 114; 114; 111; 114], (false, true, false), [(38, false); (4, false); (113, false)], []);
  (94, [77; 101; 109; 111; 114; 121; 86; 105; 101; 119], (false, true, false), [(113, false)], []);
  (95, [77; 111; 100; 117; 108; 101], (true, true, false), [(60, false); (113, false)], [(101, false); (36, false); (66, false); (37, false)]);
  (96, [77; 111; 100; 117; 108; 101; 78; 111; 116; 70; 111; 117; 110; 100; 69; 114; 114; 111; 114], (false, true, false), [(70, false); (38, false); (4, false); (113, false)], []);
  (97, [77; 117; 108], (true, false, true), [(117, true)], []);
  (98, [77; 117; 116; 97; 98; 108; 101], (false, false, true), [], []);
  (99, [77; 117; 116; 105; 122; 97; 98; 108; 101], (false, false, true), [], []);
  (100, [78; 97; 109; 101; 69; 114; 114; 111; 114], (false, true, false), [(38, false); (4, false); (113, false)], []);
  (101, [78; 97; 109; 101; 100], (false, false, true), [], []);
  (102, [78; 97; 109; 101; 100; 70; 117; 110; 99], (false, true, false), [(52, false); (124, false); (164, false); (113, false)], [(101, false)]);
  (103, [78; 97; 109; 101; 100; 80; 114; 111; 99], (false, true, false), [(124, false); (164, false); (113, false)], [(101, false)]);
  (104, [78; 97; 116], (false, true, false), [(77, false); (46, false); (17, false); (113, false)], [(173, false); (172, false); (171, false); (111, false); (119, false); (0, true); (163, true); (97, true); (33, true); (49, true); (123, false); (106, false); (99, false); (155, false); (116, false); (36, false); (66, false); (37, false); (0, true); (163, true); (97, true); (49, true); (33, true); (36, false); (116, false); (0, true); (163, true); (97, true); (49, true); (33, true); (99, false)]);
  (105, [78; 97; 116; 33], (false, true, false), [(104, false); (77, false); (46, false); (17, false); (113, false); (78, false); (47, false)], [(173, false); (172, false); (171, false); (111, false); (119, false); (0, true); (163, true); (97, true); (33, true); (49, true); (123, false); (106, false); (99, false); (155, false); (116, false); (36, false); (66, false); (37, false); (0, true); (163, true); (97, true); (49, true); (33, true); (0, true); (163, true); (97, true); (49, true); (33, true); (69, false); (24, false); (69, false); (24, false)]);
  (106, [78; 101; 103], (false, false, true), [], []);
  (107, [78; 101; 118; 101; 114], (false, true, false), [], []);
  (108, [78; 111; 110; 101; 84; 121; 112; 101], (false, true, false), [(113, false)], [(36, false); (66, false); (37, false); (155, false)]);
  (109, [78; 111; 116; 65; 68; 105; 114; 101; 99; 116; 111; 114; 121; 69; 114; 114; 111; 114], (false, true, false), [(112, false); (38, false); (4, false); (113, false)], []);
  (110, [78; 111; 116; 73; 109; 112; 108; 101; 109; 101; 110; 116; 101; 100; 69; 114; 114; 111; 114], (false, true, false), [(147, false); (38, false); (4, false); (113, false)], []);
  (111, [78; 117; 109], (false, false, true), [], []);
  (112, [79; 83; 69; 114; 114; 111; 114], (false, true, false), [(38, false); (4, false); (113, false)], []);
  (113, [79; 98; 106], (false, true, false), [], []);
  (114, [79; 98; 106; 33], (false, true, false), [(113, false)], [(69, false)]);
  (115, [79; 114], (true, true, false), [(113, false)], []);
  (116, [79; 114; 100], (false, false, true), [(119, false); (36, false)], []);
  (117, [79; 117; 116; 112; 117; 116], (true, false, true), [], []);
  (118, [79; 118; 101; 114; 102; 108; 111; 119; 69; 114; 114; 111; 114], (false, true, false), [(1, false); (38, false); (4, false); (113, false)], []);
  (119, [80; 97; 114; 116; 105; 97; 108; 79; 114; 100], (false, false, true), [], []);
  (120, [80; 97; 116; 104; 76; 105; 107; 101], (false, false, true), [], []);
  (121, [80; 101; 110; 100; 105; 110; 103; 68; 101; 112; 114; 101; 99; 97; 116; 105; 111; 110; 87; 97; 114; 110; 105; 110; 103], (false, true, false), [(26, false); (190, false); (38, false); (4, false); (113, false)], []);
  (122, [80; 101; 114; 109; 105; 115; 115; 105; 111; 110; 69; 114; 114; 111; 114], (false, true, false), [(112, false); (38, false); (4, false); (113, false)], []);
  (123, [80; 111; 115], (false, false, true), [], []);
  (124, [80; 114; 111; 99], (false, true, false), [(164, false); (113, false)], []);
  (125, [80; 114; 111; 99; 77; 101; 116; 97; 84; 121; 112; 101], (false, true, false), [(124, false); (164, false); (113, false); (178, false)], [(101, false); (22, true); (36, false); (66, false)]);
  (126, [80; 114; 111; 99; 101; 115; 115; 76; 111; 111; 107; 117; 112; 69; 114; 114; 111; 114], (false, true, false), [(112, false); (38, false); (4, false); (113, false)], []);
  (127, [80; 121; 77; 111; 100; 117; 108; 101], (true, true, false), [(60, false); (113, false)], [(101, false); (36, false); (66, false); (37, false)]);
  (128, [81; 117; 97; 110; 116; 105; 102; 105; 101; 100], (false, true, false), [(124, false); (164, false); (113, false)], []);
  (129, [81; 117; 97; 110; 116; 105; 102; 105; 101; 100; 70; 117; 110; 99], (false, true, false), [(131, false); (124, false); (164, false); (113, false); (52, false)], []);
  (130, [81; 117; 97; 110; 116; 105; 102; 105; 101; 100; 70; 117; 110; 99; 77; 101; 116; 97; 84; 121; 112; 101], (false, true, false), [(132, false); (125, false); (164, false); (113, false); (131, false); (124, false); (129, false); (52, false)], []);
  (131, [81; 117; 97; 110; 116; 105; 102; 105; 101; 100; 80; 114; 111; 99], (false, true, false), [(124, false); (164, false); (113, false)], []);
  (132, [81; 117; 97; 110; 116; 105; 102; 105; 101; 100; 80; 114; 111; 99; 77; 101; 116; 97; 84; 121; 112; 101], (false, true, false), [(125, false); (164, false); (113, false); (131, false); (124, false)], []);
  (133, [82; 68; 105; 118], (true, false, true), [(117, true)], []);
  (134, [82; 77; 117; 108], (true, false, true), [(117, true)], []);
  (135, [82; 97; 110; 103; 101], (true, true, false), [(178, false); (113, false)], [(101, false); (22, true); (36, false); (66, false); (117, true); (150, true); (156, false); (74, true); (76, true); (117, true); (16, true); (22, true); (82, true); (36, false); (82, true)]);
  (136, [82; 97; 110; 103; 101; 73; 116; 101; 114; 97; 116; 111; 114], (true, true, false), [(113, false)], [(83, true); (82, true); (117, true)]);
  (137, [82; 97; 116; 105; 111], (false, true, false), [(113, false)], [(111, false); (116, false); (119, false); (36, false); (66, false); (37, false); (0, true); (163, true); (97, true); (33, true); (49, true); (99, false); (155, false)]);
  (138, [82; 97; 116; 105; 111; 33], (false, true, false), [(137, false); (113, false)], [(111, false); (116, false); (119, false); (36, false); (66, false); (37, false); (0, true); (163, true); (97, true); (33, true); (49, true); (99, false); (155, false); (69, false); (24, false)]);
  (139, [82; 101; 97; 100; 97; 98; 108; 101; 33], (false, false, true), [], []);
  (140, [82; 101; 99; 111; 114; 100], (false, true, false), [(113, false)], [(36, false)]);
  (141, [82; 101; 99; 111; 114; 100; 77; 101; 116; 97; 84; 121; 112; 101], (false, true, false), [(140, false); (113, false); (178, false)], [(36, false); (101, false); (22, true); (66, false)]);
  (142, [82; 101; 99; 117; 114; 115; 105; 111; 110; 69; 114; 114; 111; 114], (false, true, false), [(147, false); (38, false); (4, false); (113, false)], []);
  (143, [82; 101; 102; 101; 114; 101; 110; 99; 101; 69; 114; 114; 111; 114], (false, true, false), [(38, false); (4, false); (113, false)], []);
  (144, [82; 101; 115; 111; 117; 114; 99; 101; 87; 97; 114; 110; 105; 110; 103], (false, true, false), [(190, false); (38, false); (4, false); (113, false)], []);
  (145, [82; 101; 118; 101; 114; 115; 101; 100], (true, true, false), [(113, false)], [(83, true); (82, true); (117, true)]);
  (146, [82; 111; 117; 110; 100], (false, false, true), [], []);
  (147, [82; 117; 110; 116; 105; 109; 101; 69; 114; 114; 111; 114], (false, true, false), [(38, false); (4, false); (113, false)], []);
  (148, [82; 117; 110; 116; 105; 109; 101; 87; 97; 114; 110; 105; 110; 103], (false, true, false), [(190, false); (38, false); (4, false); (113, false)], []);
  (149, [83; 101; 97; 108; 101; 100], (false, false, true), [], []);
  (150, [83; 101; 113; 117; 101; 110; 99; 101], (true, false, true), [(156, false); (74, true); (76, true); (117, true); (16, true); (22, true); (117, true); (82, true)], []);
  (151, [83; 101; 113; 117; 101; 110; 99; 101; 33], (true, false, true), [(150, true); (156, false); (74, true); (76, true); (117, true); (16, true); (22, true); (117, true); (82, true)], []);
  (152, [83; 101; 116], (true, true, false), [(62, false); (113, false)], [(36, false); (156, false); (117, true); (99, false); (82, true); (16, true); (22, true); (150, true); (74, true); (76, true); (117, true); (155, false)]);
  (153, [83; 101; 116; 33], (true, true, false), [(152, true); (62, false); (113, false)], [(36, false); (156, false); (117, true); (99, false); (82, true); (16, true); (22, true); (150, true); (74, true); (76, true); (117, true); (155, false); (24, false); (69, false)]);
  (154, [83; 101; 116; 73; 116; 101; 114; 97; 116; 111; 114], (true, true, false), [(113, false)], [(83, true); (82, true); (117, true)]);
  (155, [83; 104; 111; 119], (false, false, true), [], []);
  (156, [83; 105; 122; 101; 100], (false, false, true), [], []);
  (157, [83; 108; 105; 99; 101], (false, true, false), [(113, false)], []);
  (158, [83; 116; 111; 112; 65; 115; 121; 110; 99; 73; 116; 101; 114; 97; 116; 105; 111; 110], (false, true, false), [(38, false); (4, false); (113, false)], []);
  (159, [83; 116; 111; 112; 73; 116; 101; 114; 97; 116; 105; 111; 110], (false, true, false), [(38, false); (4, false); (113, false)], []);
  (160, [83; 116; 114], (false, true, false), [(113, false)], [(116, false); (119, false); (36, false); (120, false); (74, true); (76, true); (117, true); (66, false); (37, false); (150, true); (0, true); (97, true); (99, false); (155, false); (82, true); (16, true); (156, false); (22, true)]);
  (161, [83; 116; 114; 33], (false, true, false), [(160, false); (113, false)], [(116, false); (119, false); (36, false); (120, false); (74, true); (76, true); (117, true); (66, false); (37, false); (150, true); (0, true); (97, true); (99, false); (155, false); (82, true); (16, true); (156, false); (22, true); (69, false); (24, false)]);
  (162, [83; 116; 114; 73; 116; 101; 114; 97; 116; 111; 114], (false, true, false), [(113, false)], [(83, true); (82, true); (117, true)]);
  (163, [83; 117; 98], (true, false, true), [(117, true)], []);
  (164, [83; 117; 98; 114; 111; 117; 116; 105; 110; 101], (false, true, false), [(113, false)], []);
  (165, [83; 121; 110; 116; 97; 120; 69; 114; 114; 111; 114], (false, true, false), [(38, false); (4, false); (113, false)], []);
  (166, [83; 121; 110; 116; 97; 120; 87; 97; 114; 110; 105; 110; 103], (false, true, false), [(190, false); (38, false); (4, false); (113, false)], []);
  (167, [83; 121; 115; 116; 101; 109; 69; 114; 114; 111; 114], (false, true, false), [(38, false); (4, false); (113, false)], []);
  (168, [83; 121; 115; 116; 101; 109; 69; 120; 105; 116], (false, true, false), [(4, false); (113, false)], []);
  (169, [84; 97; 98; 69; 114; 114; 111; 114], (false, true, false), [(72, false); (165, false); (38, false); (4, false); (113, false)], []);
  (170, [84; 105; 109; 101; 111; 117; 116; 69; 114; 114; 111; 114], (false, true, false), [(112, false); (38, false); (4, false); (113, false)], []);
  (171, [84; 111; 66; 111; 111; 108], (false, false, true), [], []);
  (172, [84; 111; 70; 108; 111; 97; 116], (false, false, true), [], []);
  (173, [84; 111; 73; 110; 116], (false, false, true), [], []);
  (174, [84; 114; 97; 99; 101; 98; 97; 99; 107], (false, true, false), [(113, false)], []);
  (175, [84; 114; 97; 105; 116; 84; 121; 112; 101], (false, true, false), [(178, false); (113, false)], [(101, false); (22, true); (36, false); (66, false); (36, false)]);
  (176, [84; 117; 112; 108; 101], (true, true, false), [(67, true); (63, false); (113, false)], [(36, false); (66, false); (37, false); (156, false); (117, true); (97, true); (150, true); (74, true); (76, true); (117, true); (16, true); (22, true); (82, true); (117, true); (74, true); (76, true); (117, true)]);
  (177, [84; 117; 112; 108; 101; 73; 116; 101; 114; 97; 116; 111; 114], (true, true, false), [(113, false)], [(83, true); (82, true); (117, true)]);
  (178, [84; 121; 112; 101], (false, true, false), [(113, false)], [(101, false); (22, true); (36, false); (66, false)]);
  (179, [84; 121; 112; 101; 69; 114; 114; 111; 114], (false, true, false), [(38, false); (4, false); (113, false)], []);
  (180, [85; 110; 98; 111; 117; 110; 100; 76; 111; 99; 97; 108; 69; 114; 114; 111; 114], (false, true, false), [(100, false); (38, false); (4, false); (113, false)], []);
  (181, [85; 110; 105; 99; 111; 100; 101; 68; 101; 99; 111; 100; 101; 69; 114; 114; 111; 114], (false, true, false), [(183, false); (189, false); (38, false); (4, false); (113, false)], []);
  (182, [85; 110; 105; 99; 111; 100; 101; 69; 110; 99; 111; 100; 101; 69; 114; 114; 111; 114], (false, true, false), [(183, false); (189, false); (38, false); (4, false); (113, false)], []);
  (183, [85; 110; 105; 99; 111; 100; 101; 69; 114; 114; 111; 114], (false, true, false), [(189, false); (38, false); (4, false); (113, false)], []);
  (184, [85; 110; 105; 99; 111; 100; 101; 84; 114; 97; 110; 115; 108; 97; 116; 101; 69; 114; 114; 111; 114], (false, true, false), [(183, false); (189, false); (38, false); (4, false); (113, false)], []);
  (185, [85; 110; 105; 99; 111; 100; 101; 87; 97; 114; 110; 105; 110; 103], (false, true, false), [(190, false); (38, false); (4, false); (113, false)], []);
  (186, [85; 110; 112; 97; 99; 107], (false, false, true), [], []);
  (187, [85; 110; 115; 105; 122; 101; 100; 76; 105; 115; 116], (true, true, false), [(113, false)], []);
  (188, [85; 115; 101; 114; 87; 97; 114; 110; 105; 110; 103], (false, true, false), [(190, false); (38, false); (4, false); (113, false)], []);
  (189, [86; 97; 108; 117; 101; 69; 114; 114; 111; 114], (false, true, false), [(38, false); (4, false); (113, false)], []);
  (190, [87; 97; 114; 110; 105; 110; 103], (false, true, false), [(38, false); (4, false); (113, false)], []);
  (191, [87; 114; 105; 116; 97; 98; 108; 101; 33], (false, false, true), [(68, false); (139, false); (40, false)], []);
  (192, [90; 101; 114; 111; 68; 105; 118; 105; 115; 105; 111; 110; 69; 114; 114; 111; 114], (false, true, false), [(1, false); (38, false); (4, false); (113, false)], []);
  (193, [90; 105; 112], (true, true, false), [(113, false)], [(83, true); (82, true); (117, true); (117, true); (117, true)])
].

Definition id_Obj : Z := 113.
Definition id_Never : Z := 107.
Definition id_Bool : Z := 6.
Definition id_Nat : Z := 104.
Definition id_Int : Z := 77.
Definition id_Ratio : Z := 137.
Definition id_Float : Z := 46.
Definition id_Complex : Z := 17.
Definition id_Str : Z := 160.
Definition id_NoneType : Z := 108.
Definition id_Type : Z := 178.
Definition id_ClassType : Z := 14.
Definition id_TraitType : Z := 175.
Definition id_GenericList : Z := 59.
Definition id_List : Z := 86.
Definition id_Or : Z := 115.
Definition id_Named : Z := 101.

(* Type::is_mono_value_class: the builtin enum variants (those that are registered types) *)
Definition mono_value_classes : list Z := [113; 77; 104; 137; 46; 17; 6; 160; 108; 15; 50; 178; 14; 175; 107].
