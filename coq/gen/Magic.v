(* GENERATED on every run by /verif/checks/c16.py — do not edit. Source: crates/erg_common/serialize.rs *)
From Coq Require Import String NArith List.
Import ListNotations.
Open Scope string_scope.
Open Scope N_scope.

(* [try_]get_ver_from_magic_num: match arms in order (lo, hi, major, minor); any other number: None / panic! *)
Definition erg_magic_ranges : list (N * N * N * N) := [
  (3360, 3379, 3, 6); (3390, 3394, 3, 7); (3400, 3413, 3, 8);
  (3420, 3425, 3, 9); (3430, 3439, 3, 10); (3495, 3495, 3, 11);
  (3531, 3531, 3, 12)].

(* get_magic_num_bytes: PREFIX *)
Definition erg_magic_prefix : N := 168624128.
