(** C26 — property theorems (statements only; proofs are in Proofs.v / ProofsInt.v).

    Runtime = coq/Runtime/Model.v, variant [cur] (the runtime after the fix: commits of known/C26.json), for EVERY
    float semantics [orc].  Declarations = coq/gen/Sigs.v (generated from the live compiler on every run).
    "instance of the declared class" is [class_ok] of Spec.v: the constructor call codegen.rs puts around every
    typed operator expression succeeds, yields the declared class and keeps the value.

    FULL STATEMENTS that are only proved in part:
      value_agrees  : forall orc o a b, wf a -> wf b -> declared_binop o a b <> None -> known_binop orc o a b = 0 ->
                      agree (binop orc cur o a b) (py_binop orc o (unwrap a) (unwrap b)) = true
      class_declared: ... -> class_ok orc (declared_binop o a b) (binop orc cur o a b) = true
    (same for unary operators and the named methods).  Proved here for all operands of the integer classes
    Nat Int Bool and plain int/bool (all 25 class pairs x 13 operators: "Nat op Nat stays Nat, Nat op Int is an Int");
    Float, Str and List operands and the named methods are covered by the correspondence + judge of checks/c26.py only
    (the model's dispatch is the same function; what is missing is the case analysis).  Mut operands are the known class
    K_mut.  The invariant "no Nat instance is ever negative" is proved at full strength. *)
From Coq Require Import ZArith List Bool.
From ErgV Require Import Runtime.Model Runtime.Spec Runtime.Proofs Runtime.ProofsInt.
Import ListNotations.
Open Scope Z_scope.

(** 1. value: a wrapper operation on integer-class operands stands for what Python's int operator computes on the
    unwrapped operands (including the exception raised), outside the known class K_pow *)
Theorem value_agrees_partial : forall orc o ka kb za zb,
  wf_s (SI ka za) = true -> wf_s (SI kb zb) = true ->
  known_binop orc o (Sc (SI ka za)) (Sc (SI kb zb)) = 0 ->
  agree (binop orc cur o (Sc (SI ka za)) (Sc (SI kb zb)))
        (py_binop orc o (unwrap (Sc (SI ka za))) (unwrap (Sc (SI kb zb)))) = true.
Proof. exact value_agrees_int_l. Qed.
Example value_agrees_ex :
  binop orc0 cur Add (Sc (SI KNat 3)) (Sc (SI KInt (-5))) = Ok (Sc (SI KInt (-2)))
  /\ known_binop orc0 Add (Sc (SI KNat 3)) (Sc (SI KInt (-5))) = 0.
Proof. vm_compute. split; reflexivity. Qed.

(** 2. class: the result is an instance of the class the compiler declares for the operand classes
    (Nat op Nat : Nat where the table says so, Nat op Int : Int, comparisons : Bool, / : Float) *)
Theorem class_declared_partial : forall orc o ka kb za zb d, orc_sane orc ->
  wf_s (SI ka za) = true -> wf_s (SI kb zb) = true ->
  known_binop orc o (Sc (SI ka za)) (Sc (SI kb zb)) = 0 ->
  declared_binop o (Sc (SI ka za)) (Sc (SI kb zb)) = Some d ->
  class_ok orc (Some d) (binop orc cur o (Sc (SI ka za)) (Sc (SI kb zb))) = true.
Proof. exact class_declared_int_l. Qed.
Example class_declared_ex :
  declared_binop Mul (Sc (SI KNat 6)) (Sc (SI KNat 7)) = Some 0
  /\ binop orc0 cur Mul (Sc (SI KNat 6)) (Sc (SI KNat 7)) = Ok (Sc (SI KNat 42))
  /\ declared_binop Sub (Sc (SI KNat 6)) (Sc (SI KNat 7)) = Some 1
  /\ binop orc0 cur Sub (Sc (SI KNat 6)) (Sc (SI KNat 7)) = Ok (Sc (SI KInt (-1))).
Proof. vm_compute. repeat split; reflexivity. Qed.

(** 3. which method body answers, for every pair of integer classes: Python's dispatch (left operand first, reflected
    method of a proper subclass first when it overrides it) picks the inherited built-in, Int's wrapper or Nat's wrapper *)
Theorem int_dispatch : forall orc ka kb o za zb,
  binop orc cur o (Sc (SI ka za)) (Sc (SI kb zb)) = apply_spec orc (ispec_of ka kb o) (int_arith orc o za zb).
Proof. exact binop_int_closed. Qed.

(** 4. no Nat instance is ever negative: every binary operator, unary operator, named method (the Mut variants'
    update/inc/dec/invert/copy included) and constructor call maps good objects to good objects *)
Theorem nat_nonneg_binop : forall orc o a b r,
  good a = true -> good b = true -> binop orc cur o a b = Ok r -> good r = true.
Proof. intros orc. exact (binop_good orc cur eq_refl). Qed.
Theorem nat_nonneg_unop : forall orc o a r, good a = true -> unop orc cur o a = Ok r -> good r = true.
Proof. intros orc. exact (unop_good orc cur eq_refl). Qed.
Theorem nat_nonneg_method : forall orc m recv args r recv',
  good recv = true -> forallb good args = true -> method orc cur m recv args = Ok (r, recv') ->
  good r = true /\ good recv' = true.
Proof. intros orc. exact (method_good orc cur eq_refl). Qed.
Theorem nat_nonneg_constructor : forall orc c v r, good v = true -> rewrap orc c v = Ok r -> good r = true.
Proof. intros orc c v r. exact (cast_good orc c v r). Qed.
(** ... hence along every sequence of operations from a good store *)
Theorem nat_nonneg : forall orc cs st, forallb good st = true -> forallb good (run_cmds orc cur st cs) = true.
Proof. intros orc cs st. exact (run_cmds_good orc cur cs st eq_refl). Qed.
Example nat_nonneg_ex :
  run_cmds orc0 cur [VM MNat (SI KNat 3); Sc (SI KNat 5)] [CMeth MDec 0%nat [1%nat]; CMeth MInc 0%nat [1%nat]; CBin Add 1%nat 0%nat]
  = [VM MNat (SI KNat 8); Sc (SI KNat 5); vnone; Sc (SI KNat 13)].   (* the dec! below zero raised and changed nothing *)
Proof. vm_compute. reflexivity. Qed.

(** 5. methods of the immutable classes do not change their receiver *)
Theorem immutable_receiver : forall orc m recv args r recv',
  is_mut recv = false -> method orc cur m recv args = Ok (r, recv') -> recv' = recv.
Proof. intros orc m recv args r recv'. exact (immutable_receiver_l orc cur m recv args r recv' eq_refl). Qed.
Example immutable_receiver_ex :
  method orc0 cur MPush (Ls true [SI KNat 1]) [Sc (SI KNat 2)] = Ok (Ls true [SI KNat 1; SI KNat 2], Ls true [SI KNat 1]).
Proof. reflexivity. Qed.

(** 6. the defects repaired by the fix: commits, on the runtime as found ([nofix]); each witness is replayed against the
    real modules by checks/c26.py (corpus/C26) *)
Theorem nat_add_nofix_refuted : exists a b,
  wf a = true /\ wf b = true /\ declared_binop Add a b = Some 1 /\ known_binop orc0 Add a b = 0 /\
  binop orc0 nofix Add a b = Raise ValueError /\ py_binop orc0 Add (unwrap a) (unwrap b) = Ok (pint (-2)).
Proof. exact nat_add_nofix_refuted_l. Qed.
Theorem natmut_dec_nofix_refuted : exists recv args r recv',
  wf recv = true /\ good recv = true /\ forallb good args = true /\
  method orc0 nofix MDec recv args = Ok (r, recv') /\ good recv' = false.
Proof. exact natmut_dec_nofix_refuted_l. Qed.
Theorem natmut_truediv_nofix_refuted : exists a b r,
  good a = true /\ good b = true /\ binop orc_w nofix TrueDiv a b = Ok r /\ good r = false.
Proof. exact natmut_truediv_nofix_refuted_l. Qed.
Theorem list_push_nofix_refuted : exists recv args r recv',
  is_mut recv = false /\ method orc0 nofix MPush recv args = Ok (r, recv') /\ recv' <> recv.
Proof. exact list_push_nofix_refuted_l. Qed.

(** 7. the known classes are real on the repaired runtime: the unguarded statements are false *)
Theorem mut_operand_refuted : exists a b,
  wf a = true /\ wf b = true /\ declared_binop Add a b = Some 1 /\ known_binop orc0 Add a b = 1 /\
  binop orc0 cur Add a b = Raise TypeError /\ py_binop orc0 Add (unwrap a) (unwrap b) = Ok (pint 40).
Proof. exact mut_operand_refuted_l. Qed.
Theorem pow_negative_exponent_refuted : exists a b,
  wf a = true /\ wf b = true /\ declared_binop Pow a b <> None /\ known_binop orc_w Pow a b = 2 /\
  binop orc_w cur Pow a b = Ok (Sc (SI KInt 0)) /\
  py_binop orc_w Pow (unwrap a) (unwrap b) = Ok (Sc (SF false 4602678819172646912)).
Proof. exact pow_negative_exponent_refuted_l. Qed.
Theorem pow_declared_nat_refuted : exists a b,
  wf a = true /\ wf b = true /\ declared_binop Pow a b = Some 0 /\ known_binop orc0 Pow a b = 2 /\
  binop orc0 cur Pow a b = Ok (Sc (SI KInt (-8))) /\ class_ok orc0 (Some 0) (binop orc0 cur Pow a b) = false.
Proof. exact pow_declared_nat_refuted_l. Qed.
