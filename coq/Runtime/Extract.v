(** C26 — extraction entry: wire format of pylib/c26_driver.py <-> Runtime/Model.v, Runtime/Spec.v *)
From Coq Require Import ZArith List Bool.
From ErgV Require Import Common.Sx Runtime.Model Runtime.Spec.
Import ListNotations.
Open Scope Z_scope.

Definition dec_ik (t : Z) : ik :=
  if t =? 0 then KNat else if t =? 1 then KInt else if t =? 2 then KBool else if t =? 3 then Kint else Kbool.
Definition dec_sval (x : sx) : sval :=
  let t := sx_z (sx_nth x 0) in
  if t <=? 4 then SI (dec_ik t) (sx_z (sx_nth x 1))
  else if t =? 5 then SF true (sx_z (sx_nth x 1)) else if t =? 6 then SF false (sx_z (sx_nth x 1))
  else if t =? 7 then SS true (sx_zs (sx_nth x 1)) else if t =? 8 then SS false (sx_zs (sx_nth x 1))
  else if t =? 16 then SNone else if t =? 17 then SNotImpl else if t =? 18 then SError
  else if t =? 19 then SComplex else SOther.
Definition dec_mk (t : Z) : mk :=
  if t =? 11 then MNat else if t =? 12 then MInt else if t =? 13 then MBool else if t =? 14 then MFloat else MStr.
Definition dec_val (x : sx) : val :=
  let t := sx_z (sx_nth x 0) in
  if t =? 9 then Ls true (map dec_sval (sx_l (sx_nth x 1)))
  else if t =? 10 then Ls false (map dec_sval (sx_l (sx_nth x 1)))
  else if (11 <=? t) && (t <=? 15) then VM (dec_mk t) (dec_sval (sx_nth x 1))
  else Sc (dec_sval x).

Definition ik_tag (k : ik) : Z := match k with KNat => 0 | KInt => 1 | KBool => 2 | Kint => 3 | Kbool => 4 end.
Definition enc_sval (s : sval) : sx :=
  match s with
  | SI k z => SL [SZ (ik_tag k); SZ z]
  | SF w b => SL [SZ (if w then 5 else 6); SZ b]
  | SS w s => SL [SZ (if w then 7 else 8); sx_of_zs s]
  | SNone => SL [SZ 16] | SNotImpl => SL [SZ 17] | SError => SL [SZ 18] | SComplex => SL [SZ 19] | SOther => SL [SZ 20]
  end.
Definition mk_tag (m : mk) : Z := match m with MNat => 11 | MInt => 12 | MBool => 13 | MFloat => 14 | MStr => 15 end.
Definition enc_val (v : val) : sx :=
  match v with
  | Sc s => enc_sval s
  | Ls w l => SL [SZ (if w then 9 else 10); SL (map enc_sval l)]
  | VM m p => SL [SZ (mk_tag m); enc_sval p]
  end.
Definition exc_code (e : exc) : Z :=
  match e with ValueError => 1 | TypeError => 2 | ZeroDivisionError => 3 | OverflowError => 4 | AttributeError => 5
             | IndexError => 6 | OtherExc => 7 end.
Definition dec_exc (c : Z) : exc :=
  if c =? 1 then ValueError else if c =? 2 then TypeError else if c =? 3 then ZeroDivisionError
  else if c =? 4 then OverflowError else if c =? 5 then AttributeError else if c =? 6 then IndexError else OtherExc.
Definition enc_res (r : res val) : sx :=
  match r with Ok v => SL [SZ 0; enc_val v] | Raise e => SL [SZ 1; SZ (exc_code e)] | Unmodelled => SL [SZ 2] end.
Definition dec_res (x : sx) : res val :=
  let t := sx_z (sx_nth x 0) in
  if t =? 0 then Ok (dec_val (sx_nth x 1)) else if t =? 1 then Raise (dec_exc (sx_z (sx_nth x 1))) else Unmodelled.

Definition dec_bop (c : Z) : bop :=
  nth (Z.to_nat c) [Add; Sub; Mul; TrueDiv; FloorDiv; Mod; Pow; Eq; Ne; Lt; Le; Gt; Ge] Add.
Definition dec_uop (c : Z) : uop := nth (Z.to_nat c) [Neg; Pos; Abs] Neg.
Definition dec_meth (c : Z) : option meth :=
  nth_error [MSucc; MPred; MBitCount; MMutate; MSatSub; MInvert; MGet; MFrom; MPush; MReversed; MSum; MProd;
             MGetItem; MUpdate; MInc; MDec; MInc0; MDec0; MCopy] (Z.to_nat c).
Definition dec_cast (t : Z) : option cast :=
  if t =? 0 then Some ToNat else if t =? 1 then Some ToInt else if t =? 2 then Some ToBool
  else if t =? 5 then Some ToFloat else if t =? 7 then Some ToStr else if t =? 9 then Some ToList else None.

(* oracle = lookup in the battery the driver measured for this case *)
Definition dec_oarg (x : sx) : oarg :=
  let t := sx_z (sx_nth x 0) in
  if t =? 0 then OInt (sx_z (sx_nth x 1)) else if t =? 1 then OFlt (sx_z (sx_nth x 1)) else ONo.
Definition oarg_eqb (a b : oarg) : bool :=
  match a, b with OInt x, OInt y => x =? y | OFlt x, OFlt y => x =? y | ONo, ONo => true | _, _ => false end.
Definition dec_ores (x : sx) : ores :=
  let t := sx_z (sx_nth x 0) in
  if t =? 0 then RF (sx_z (sx_nth x 1)) else if t =? 1 then RI (sx_z (sx_nth x 1))
  else if t =? 2 then RB (negb (sx_z (sx_nth x 1) =? 0)) else if t =? 3 then RExc (dec_exc (sx_z (sx_nth x 1)))
  else if t =? 4 then RComplex else RMiss.
Definition orc_of (bat : list sx) (c : Z) (x y : oarg) : ores :=
  match find (fun e => (sx_z (sx_nth e 0) =? c) && oarg_eqb (dec_oarg (sx_nth e 1)) x
                       && oarg_eqb (dec_oarg (sx_nth e 2)) y) bat with
  | Some e => dec_ores (sx_nth e 3) | None => RMiss end.

Definition dec_fx (x : sx) : fixes :=
  let b n := negb (sx_z (sx_nth x n) =? 0) in
  {| fx_nat_arith := b 0%nat; fx_natmut_incdec := b 1%nat; fx_list_push := b 2%nat |}.

(* model answer for a driver case: (outcome recv_after) *)
Definition run_case (orc : Z -> oarg -> oarg -> ores) (fx : fixes) (c : sx) : sx :=
  let k := sx_z (sx_nth c 0) in
  if k =? 0 then
    SL [enc_res (binop orc fx (dec_bop (sx_z (sx_nth c 1))) (dec_val (sx_nth c 2)) (dec_val (sx_nth c 3)));
        sx_nth c 2]
  else if k =? 1 then SL [enc_res (unop orc fx (dec_uop (sx_z (sx_nth c 1))) (dec_val (sx_nth c 2))); sx_nth c 2]
  else if k =? 2 then
    match dec_meth (sx_z (sx_nth c 1)) with
    | None => SL [SL [SZ 2]; sx_nth c 2]
    | Some m => match method orc fx m (dec_val (sx_nth c 2)) (map dec_val (sx_l (sx_nth c 3))) with
                | Ok (r, recv) => SL [SL [SZ 0; enc_val r]; enc_val recv]
                | Raise e => SL [SL [SZ 1; SZ (exc_code e)]; sx_nth c 2]
                | Unmodelled => SL [SL [SZ 2]; sx_nth c 2] end
    end
  else match dec_cast (sx_z (sx_nth c 1)) with
       | Some t => SL [enc_res (rewrap orc t (dec_val (sx_nth c 2))); sx_nth c 2]
       | None => SL [SL [SZ 2]; sx_nth c 2] end.

(** modes:
    (0 fx case battery)                              -> model answer (outcome recv_after)
    (1 case battery)                                 -> Spec reference: outcome of the built-in operator on the unwrapped operands
    (2 case impl_outcome recv_after args_after battery) -> judge: (failed clause numbers, known class)
                                                           (() 0) = the property holds here; class 0 = not a known class  *)
Definition run (x : sx) : sx :=
  let mode := sx_z (sx_nth x 0) in
  if mode =? 0 then run_case (orc_of (sx_l (sx_nth x 3))) (dec_fx (sx_nth x 1)) (sx_nth x 2)
  else if mode =? 1 then
    let c := sx_nth x 1 in let orc := orc_of (sx_l (sx_nth x 2)) in
    let k := sx_z (sx_nth c 0) in
    if k =? 0 then enc_res (py_binop orc (dec_bop (sx_z (sx_nth c 1))) (unwrap (dec_val (sx_nth c 2))) (unwrap (dec_val (sx_nth c 3))))
    else if k =? 1 then enc_res (py_unop orc (dec_uop (sx_z (sx_nth c 1))) (unwrap (dec_val (sx_nth c 2))))
    else SL [SZ 2]
  else
    let c := sx_nth x 1 in let orc := orc_of (sx_l (sx_nth x 5)) in
    let impl := dec_res (sx_nth x 2) in
    let recv' := dec_val (sx_nth x 3) in
    let k := sx_z (sx_nth c 0) in
    let args := map dec_val (sx_l (sx_nth c 3)) in
    SL [sx_of_zs (
      if k =? 0 then judge_binop orc (dec_bop (sx_z (sx_nth c 1))) (dec_val (sx_nth c 2)) (dec_val (sx_nth c 3)) impl recv'
                                 (dec_val (sx_nth (sx_nth x 4) 0))
      else if k =? 1 then judge_unop orc (dec_uop (sx_z (sx_nth c 1))) (dec_val (sx_nth c 2)) impl recv'
      else if k =? 2 then
        match dec_meth (sx_z (sx_nth c 1)) with
        | Some m => judge_method orc m (dec_val (sx_nth c 2)) args impl recv'
        | None => [] end
      else match dec_cast (sx_z (sx_nth c 1)) with
           | Some t => judge_construct orc t (dec_val (sx_nth c 2)) impl
           | None => [] end);
      SZ (if k =? 0 then known_binop orc (dec_bop (sx_z (sx_nth c 1))) (dec_val (sx_nth c 2)) (dec_val (sx_nth c 3))
          else if k =? 1 then known_unop (dec_uop (sx_z (sx_nth c 1))) (dec_val (sx_nth c 2))
          else if k =? 2 then match dec_meth (sx_z (sx_nth c 1)) with
                              | Some m => known_method m (dec_val (sx_nth c 2)) args | None => 0 end
          else 0)].

Require Extraction.
Require Import ExtrOcamlBasic.
Extraction Language OCaml.
Extraction "model.ml" run.
