From Coq Require Import ZArith List Bool Lia.
From ErgV Require Import Runtime.Model Runtime.Spec Runtime.Proofs.
Import ListNotations.
Open Scope Z_scope.

(* ====================================================================== int-like operands: closed form *)
Inductive ispec := SPlain | SInt | SNatOrInt.
(* which method body answers  a op b  for int-like a, b: the inherited built-in (plain result), Int's wrapper, Nat's wrapper *)
Definition ispec_of (ka kb : ik) (o : bop) : ispec :=
  match ka, o with
  | (KNat | KBool), (Add | Mul) => SNatOrInt
  | (KNat | KBool | KInt), (Sub | FloorDiv | Pow) => SInt
  | KInt, (Add | Mul) => SInt
  | Kint, Pow => match kb with KNat | KInt | KBool => SInt | _ => SPlain end    (* Int.__rpow__, subclass first *)
  | _, _ => SPlain
  end.
Definition apply_spec (orc : Z -> oarg -> oarg -> ores) (s : ispec) (r : res val) : res val :=
  match s with
  | SPlain => r
  | SInt => then_ orc r ToInt
  | SNatOrInt => then_ orc (then_ orc r ToInt) ToNatOrInt
  end.
Ltac zred := with_strategy opaque [Z.add Z.sub Z.mul Z.div Z.modulo Z.pow Z.ltb Z.leb Z.eqb Z.abs Z.opp Z.to_nat Z.of_nat Z.max Z.min Z.odd] cbv.
Ltac split1 :=
  match goal with
  | |- context[match ?t with _ => _ end] => let T := type of t in unify T ores; destruct t
  | |- context[if ?c then _ else _] =>
      lazymatch c with
      | context[if _ then _ else _] => fail
      | context[match _ with _ => _ end] => fail
      | _ => destruct c eqn:?
      end
  end.
Lemma binop_int_closed : forall orc ka kb o za zb,
  binop orc cur o (Sc (SI ka za)) (Sc (SI kb zb)) = apply_spec orc (ispec_of ka kb o) (int_arith orc o za zb).
Proof.
  intros orc ka kb o za zb.
  destruct o, ka, kb; zred; repeat (split1; cbv beta iota);
    first [reflexivity | exfalso; rewrite ?Z.eqb_eq, ?Z.eqb_neq, ?Z.ltb_lt, ?Z.ltb_ge, ?Z.leb_le, ?Z.leb_gt in *; lia].
Qed.

Lemma bool_norm : forall z, (z =? 0) || (z =? 1) = true -> (if z =? 0 then 0 else 1) = z.
Proof. intros z H. apply orb_true_iff in H. destruct H as [H|H]; apply Z.eqb_eq in H; subst; reflexivity. Qed.
Lemma py_binop_int : forall orc o ka kb za zb, wf_s (SI ka za) = true -> wf_s (SI kb zb) = true ->
  py_binop orc o (unwrap (Sc (SI ka za))) (unwrap (Sc (SI kb zb))) = int_arith orc o za zb.
Proof.
  intros orc o ka kb za zb Ha Hb. destruct ka, kb; cbn [unwrap unwrap_s wf_s] in *; rewrite ?bool_norm by assumption; reflexivity.
Qed.
Ltac zfacts := rewrite ?Z.eqb_eq, ?Z.eqb_neq, ?Z.ltb_lt, ?Z.ltb_ge, ?Z.leb_le, ?Z.leb_gt in *.
Lemma list_eqb_refl : forall l, list_eqb l l = true.
Proof. induction l; cbn; auto. rewrite Z.eqb_refl. auto. Qed.
Lemma sval_eqv_refl : forall s, sval_eqv s s = true.
Proof.
  destruct s as [k z|w b|w t| | | | |]; cbn; auto; try apply Z.eqb_refl.
  - destruct w; cbn; apply Z.eqb_refl.
  - destruct w; cbn; apply list_eqb_refl.
Qed.
Lemma svals_eqv_refl : forall l, svals_eqv l l = true.
Proof. induction l; cbn; auto. rewrite sval_eqv_refl; auto. Qed.
Lemma val_eqv_refl : forall v, val_eqv v v = true.
Proof.
  destruct v as [s|w l|m p]; cbn.
  - apply sval_eqv_refl.
  - destruct w; cbn; apply svals_eqv_refl.
  - destruct m; cbn; destruct p as [k z|w b|w t| | | | |]; cbn; auto;
      try (destruct k; cbn; apply Z.eqb_refl); try (destruct w; cbn; first [apply Z.eqb_refl | apply list_eqb_refl]).
Qed.
Lemma agree_intro : forall x r, unwrap_res x = r -> agree x r = true.
Proof.
  intros x r H. unfold agree. destruct r as [v|e|]; auto; destruct x as [u|e'|]; cbn in *; auto; inversion H; subst.
  - apply val_eqv_refl.
  - destruct e; reflexivity.
Qed.
Lemma spec_unwrap : forall orc ka kb o za zb, (o = Pow -> 0 <= zb) ->
  unwrap_res (apply_spec orc (ispec_of ka kb o) (int_arith orc o za zb)) = int_arith orc o za zb.
Proof.
  intros orc ka kb o za zb Hp.
  destruct o; try (specialize (Hp eq_refl)); destruct ka, kb; zred; repeat (split1; cbv beta iota);
    first [reflexivity | exfalso; zfacts; lia].
Qed.
Lemma agree_spec : forall orc ka kb o za zb, (o = Pow -> 0 <= zb) ->
  agree (apply_spec orc (ispec_of ka kb o) (int_arith orc o za zb)) (int_arith orc o za zb) = true.
Proof. intros. apply agree_intro. apply spec_unwrap. assumption. Qed.

(* value: for int-like operands the wrapper result stands for what Python's int operator gives *)
Lemma value_agrees_int_l : forall orc o ka kb za zb,
  wf_s (SI ka za) = true -> wf_s (SI kb zb) = true ->
  known_binop orc o (Sc (SI ka za)) (Sc (SI kb zb)) = 0 ->
  agree (binop orc cur o (Sc (SI ka za)) (Sc (SI kb zb)))
        (py_binop orc o (unwrap (Sc (SI ka za))) (unwrap (Sc (SI kb zb)))) = true.
Proof.
  intros orc o ka kb za zb Ha Hb Hk. rewrite binop_int_closed, py_binop_int by assumption.
  apply agree_spec. intros ->.
  destruct ka, kb; cbn [known_binop is_mut orb unwrap unwrap_s wf_s] in *; rewrite ?bool_norm in Hk by assumption;
    (destruct ((zb <? 0) || ((za <? 0) && Z.odd zb)) eqn:E; [discriminate|];
     apply orb_false_iff in E; destruct E as [E _]; apply Z.ltb_ge in E; exact E).
Qed.
(* the float oracle answers a true division of ints with a float or an exception (never an int/bool) *)
Definition orc_sane (orc : Z -> oarg -> oarg -> ores) : Prop :=
  forall x y, match orc 3 (OInt x) (OInt y) with RF _ | RExc _ | RMiss => True | _ => False end.

Lemma pow_nonneg_known : forall x y, (y <? 0) || ((x <? 0) && Z.odd y) = false -> 0 <= x ^ y.
Proof.
  intros x y H. apply orb_false_iff in H. destruct H as [Hy H]. apply Z.ltb_ge in Hy.
  apply andb_false_iff in H. destruct H as [H|H].
  - apply Z.ltb_ge in H. apply Z.pow_nonneg; exact H.
  - apply Z.pow_even_nonneg. apply Z.even_spec. rewrite <- Z.negb_odd, H. reflexivity.
Qed.

(* what the wrappers make of a plain int result *)
Lemma apply_spec_pint : forall orc s z,
  apply_spec orc s (Ok (pint z)) =
  Ok (Sc (SI (match s with SPlain => Kint | SInt => KInt | SNatOrInt => if 0 <=? z then KNat else KInt end) z)).
Proof.
  intros orc s z. destruct s; cbn; try reflexivity.
  destruct (0 <=? z) eqn:E; [|reflexivity]. destruct (z <? 0) eqn:E2; [|reflexivity]. exfalso; zfacts; lia.
Qed.
Lemma apply_spec_raise : forall orc s e, apply_spec orc s (Raise e) = Raise e.
Proof. intros orc s e. destruct s; reflexivity. Qed.

Definition int_cls_ok (k : ik) : bool := match k with KNat | KInt | Kint => true | _ => false end.
Lemma inst_int_1 : forall orc k z, int_cls_ok k = true -> inst_after_rewrap orc 1 (Sc (SI k z)) = true.
Proof. intros orc k z H. destruct k; try discriminate; cbn; rewrite Z.eqb_refl; reflexivity. Qed.
Lemma inst_int_0 : forall orc k z, int_cls_ok k = true -> 0 <= z -> inst_after_rewrap orc 0 (Sc (SI k z)) = true.
Proof.
  intros orc k z H Hz. destruct k; try discriminate; cbn; (destruct (z <? 0) eqn:E; [exfalso; zfacts; lia|]);
    cbn; rewrite Z.eqb_refl; reflexivity.
Qed.
Lemma inst_bool_2 : forall orc c, inst_after_rewrap orc 2 (pbool c) = true.
Proof. intros orc c. destruct c; reflexivity. Qed.
Lemma inst_float_5 : forall orc b, inst_after_rewrap orc 5 (Sc (SF false b)) = true.
Proof. intros orc b. cbn. rewrite Z.eqb_refl. reflexivity. Qed.

(* facts read off the generated declaration table *)
Definition natlike (k : ik) : bool := match k with KNat | KBool | Kbool => true | _ => false end.
Lemma decl_int_table : forall o ka kb za zb d,
  declared_binop o (Sc (SI ka za)) (Sc (SI kb zb)) = Some d ->
  (is_cmp o = true -> d = 2) /\ (o = TrueDiv -> d = 5) /\
  (is_cmp o = false -> o <> TrueDiv -> d = 1 \/ (d = 0 /\ o <> Sub /\ (o = Pow \/ (natlike ka = true /\ natlike kb = true)))).
Proof.
  intros o ka kb za zb d Hd.
  destruct o, ka, kb; vm_compute in Hd; inversion Hd; subst d;
    (split; [|split]); intros; try discriminate; try congruence; auto;
    try (right; repeat split; try congruence; auto; fail).
Qed.
Lemma natlike_nonneg : forall k z, natlike k = true -> wf_s (SI k z) = true -> 0 <= z.
Proof.
  intros k z H W. destruct k; try discriminate; cbn in W.
  - apply Z.leb_le; exact W.
  - apply orb_true_iff in W. destruct W as [W|W]; apply Z.eqb_eq in W; lia.
  - apply orb_true_iff in W. destruct W as [W|W]; apply Z.eqb_eq in W; lia.
Qed.
Lemma ispec_plain : forall ka kb o, (is_cmp o = true \/ o = TrueDiv \/ o = Mod) -> ispec_of ka kb o = SPlain.
Proof. intros ka kb o [H|[H|H]]; destruct o; try discriminate; destruct ka, kb; reflexivity. Qed.
Lemma ispec_cls : forall ka kb o z, int_cls_ok (match ispec_of ka kb o with SPlain => Kint | SInt => KInt | SNatOrInt => if 0 <=? z then KNat else KInt end) = true.
Proof. intros. destruct (ispec_of ka kb o); try reflexivity. destruct (0 <=? z); reflexivity. Qed.

Lemma class_ok_some : forall orc d v, class_ok orc (Some d) (Ok v) = if d =? -2 then true else inst_after_rewrap orc d v.
Proof. reflexivity. Qed.
Lemma class_declared_int_l : forall orc o ka kb za zb d, orc_sane orc ->
  wf_s (SI ka za) = true -> wf_s (SI kb zb) = true ->
  known_binop orc o (Sc (SI ka za)) (Sc (SI kb zb)) = 0 ->
  declared_binop o (Sc (SI ka za)) (Sc (SI kb zb)) = Some d ->
  class_ok orc (Some d) (binop orc cur o (Sc (SI ka za)) (Sc (SI kb zb))) = true.
Proof.
  intros orc o ka kb za zb d Hs Ha Hb Hk Hd. rewrite binop_int_closed.
  destruct (decl_int_table _ _ _ _ _ _ Hd) as (Tc & Td & Ta).
  assert (Hpow : o = Pow -> (zb <? 0) || ((za <? 0) && Z.odd zb) = false).
  { intros ->. destruct ka, kb; cbn [known_binop is_mut orb unwrap unwrap_s wf_s] in *; rewrite ?bool_norm in Hk by assumption;
      (destruct ((zb <? 0) || ((za <? 0) && Z.odd zb)); [discriminate|reflexivity]). }
  assert (Harith : forall z, is_cmp o = false -> o <> TrueDiv -> (d = 0 -> 0 <= z) ->
             class_ok orc (Some d) (apply_spec orc (ispec_of ka kb o) (Ok (pint z))) = true).
  { intros z H1 H2 Hz. rewrite apply_spec_pint, class_ok_some.
    destruct (Ta H1 H2) as [->|(-> & _)].
    - change (1 =? -2) with false. cbv iota. apply inst_int_1. apply ispec_cls.
    - change (0 =? -2) with false. cbv iota. apply inst_int_0; [apply ispec_cls|apply Hz; reflexivity]. }
  assert (Hnn : d = 0 -> o <> Pow -> 0 <= za /\ 0 <= zb).
  { intros -> Hp. destruct o; try (specialize (Tc eq_refl); discriminate); try (specialize (Td eq_refl); discriminate).
    all: destruct (Ta eq_refl ltac:(discriminate)) as [?|(_ & _ & [?|[? ?]])]; try congruence.
    all: split; [exact (natlike_nonneg ka za ltac:(assumption) Ha) | exact (natlike_nonneg kb zb ltac:(assumption) Hb)]. }
  destruct o; cbn [int_arith].
  - apply Harith; try reflexivity; try discriminate. intros D; destruct (Hnn D ltac:(discriminate)); lia.
  - apply Harith; try reflexivity; try discriminate. intros D.
    destruct (Ta eq_refl ltac:(discriminate)) as [?|(_ & ? & _)]; congruence.
  - apply Harith; try reflexivity; try discriminate. intros D; destruct (Hnn D ltac:(discriminate)); apply Z.mul_nonneg_nonneg; lia.
  - (* / *) rewrite (ispec_plain ka kb TrueDiv) by auto. cbn [apply_spec]. rewrite (Td eq_refl).
    specialize (Hs za zb). change (opc TrueDiv) with 3. destruct (orc 3 (OInt za) (OInt zb)); try contradiction; first [reflexivity | cbn; rewrite Z.eqb_refl; reflexivity].
  - destruct (zb =? 0) eqn:E; [rewrite apply_spec_raise; reflexivity|].
    apply Harith; try reflexivity; try discriminate. intros D; destruct (Hnn D ltac:(discriminate)).
    apply Z.div_pos; zfacts; lia.
  - destruct (zb =? 0) eqn:E; [rewrite apply_spec_raise; reflexivity|].
    apply Harith; try reflexivity; try discriminate. intros D; destruct (Hnn D ltac:(discriminate)).
    apply Z.mod_pos_bound; zfacts; lia.
  - specialize (Hpow eq_refl). pose proof Hpow as Hp2. apply orb_false_iff in Hp2. destruct Hp2 as [Hy _].
    rewrite Z.ltb_ge in Hy. apply Z.leb_le in Hy. rewrite Hy.
    apply Harith; try reflexivity; try discriminate. intros _. apply pow_nonneg_known; exact Hpow.
  - rewrite (ispec_plain ka kb Eq) by auto. rewrite (Tc eq_refl). cbn [apply_spec]. unfold pbool at 1. rewrite class_ok_some. change (2 =? -2) with false. cbv iota. apply inst_bool_2.
  - rewrite (ispec_plain ka kb Ne) by auto. rewrite (Tc eq_refl). cbn [apply_spec]. unfold pbool at 1. rewrite class_ok_some. change (2 =? -2) with false. cbv iota. apply inst_bool_2.
  - rewrite (ispec_plain ka kb Lt) by auto. rewrite (Tc eq_refl). cbn [apply_spec]. unfold pbool at 1. rewrite class_ok_some. change (2 =? -2) with false. cbv iota. apply inst_bool_2.
  - rewrite (ispec_plain ka kb Le) by auto. rewrite (Tc eq_refl). cbn [apply_spec]. unfold pbool at 1. rewrite class_ok_some. change (2 =? -2) with false. cbv iota. apply inst_bool_2.
  - rewrite (ispec_plain ka kb Gt) by auto. rewrite (Tc eq_refl). cbn [apply_spec]. unfold pbool at 1. rewrite class_ok_some. change (2 =? -2) with false. cbv iota. apply inst_bool_2.
  - rewrite (ispec_plain ka kb Ge) by auto. rewrite (Tc eq_refl). cbn [apply_spec]. unfold pbool at 1. rewrite class_ok_some. change (2 =? -2) with false. cbv iota. apply inst_bool_2.
Qed.

(* ====================================================================== immutable receivers *)
Ltac crushm H :=
  repeat (match type of H with
          | bind ?m _ = _ => let E := fresh "E" in destruct m eqn:E; cbn [bind] in H
          | (if ?c then _ else _) = _ => let E := fresh "C" in destruct c eqn:E
          | match ?t with _ => _ end = _ => let E := fresh "M" in destruct t eqn:E
          end; try discriminate).
Lemma immutable_receiver_l : forall orc fx m recv args r recv', fx_list_push fx = true ->
  is_mut recv = false -> method orc fx m recv args = Ok (r, recv') -> recv' = recv.
Proof.
  intros orc fx m recv args r recv' Hfx Hi H. unfold method in H. rewrite ?Hfx in H.
  destruct recv as [s|w l|k p]; [| |discriminate]; crushm H; inversion H; reflexivity.
Qed.

(* ====================================================================== witnesses *)
Definition orc0 : Z -> oarg -> oarg -> ores := fun _ _ _ => RMiss.
(* the answers CPython gives to the float questions the witnesses below ask: 2 ** -1 = 0.5, int(0.5) = 0,
   1 / -2 = -0.5, int(-0.5) = 0 *)
Definition orc_w (c : Z) (x y : oarg) : ores :=
  match x, y with
  | OInt a, OInt b => if (c =? 6) && (a =? 2) && (b =? -1) then RF 4602678819172646912
                      else if (c =? 3) && (a =? 1) && (b =? -2) then RF 13826050856027422720 else RMiss
  | OFlt f, ONo => if (c =? 21) && ((f =? 4602678819172646912) || (f =? 13826050856027422720)) then RI 0 else RMiss
  | _, _ => RMiss
  end.

Lemma nat_add_nofix_refuted_l : exists a b,
  wf a = true /\ wf b = true /\ declared_binop Add a b = Some 1 /\ known_binop orc0 Add a b = 0 /\
  binop orc0 nofix Add a b = Raise ValueError /\ py_binop orc0 Add (unwrap a) (unwrap b) = Ok (pint (-2)).
Proof. exists (Sc (SI KNat 3)), (Sc (SI KInt (-5))). vm_compute. repeat split; reflexivity. Qed.
Lemma natmut_dec_nofix_refuted_l : exists recv args r recv',
  wf recv = true /\ good recv = true /\ forallb good args = true /\
  method orc0 nofix MDec recv args = Ok (r, recv') /\ good recv' = false.
Proof.
  exists (VM MNat (SI KNat 3)), [Sc (SI KNat 5)], vnone, (VM MNat (SI KInt (-2))). vm_compute. repeat split; reflexivity.
Qed.
Lemma natmut_truediv_nofix_refuted_l : exists a b r,
  good a = true /\ good b = true /\ binop orc_w nofix TrueDiv a b = Ok r /\ good r = false.
Proof.
  exists (VM MNat (SI KNat 1)), (Sc (SI KInt (-2))), (VM MNat (SF false 13826050856027422720)).
  vm_compute. repeat split; reflexivity.
Qed.
Lemma list_push_nofix_refuted_l : exists recv args r recv',
  is_mut recv = false /\ method orc0 nofix MPush recv args = Ok (r, recv') /\ recv' <> recv.
Proof.
  exists (Ls true [SI KNat 1]), [Sc (SI KNat 2)], (Ls true [SI KNat 1; SI KNat 2]), (Ls true [SI KNat 1; SI KNat 2]).
  repeat split; try reflexivity. discriminate.
Qed.
(* known classes on the repaired runtime *)
Lemma mut_operand_refuted_l : exists a b,
  wf a = true /\ wf b = true /\ declared_binop Add a b = Some 1 /\ known_binop orc0 Add a b = 1 /\
  binop orc0 cur Add a b = Raise TypeError /\ py_binop orc0 Add (unwrap a) (unwrap b) = Ok (pint 40).
Proof. exists (Sc (SI KInt 20)), (VM MInt (SI KInt 20)). vm_compute. repeat split; reflexivity. Qed.
Lemma pow_negative_exponent_refuted_l : exists a b,
  wf a = true /\ wf b = true /\ declared_binop Pow a b <> None /\ known_binop orc_w Pow a b = 2 /\
  binop orc_w cur Pow a b = Ok (Sc (SI KInt 0)) /\
  py_binop orc_w Pow (unwrap a) (unwrap b) = Ok (Sc (SF false 4602678819172646912)).
Proof. exists (Sc (SI KInt 2)), (Sc (SI KInt (-1))). vm_compute. repeat split; try reflexivity. discriminate. Qed.
Lemma pow_declared_nat_refuted_l : exists a b,
  wf a = true /\ wf b = true /\ declared_binop Pow a b = Some 0 /\ known_binop orc0 Pow a b = 2 /\
  binop orc0 cur Pow a b = Ok (Sc (SI KInt (-8))) /\ class_ok orc0 (Some 0) (binop orc0 cur Pow a b) = false.
Proof. exists (Sc (SI KInt (-2))), (Sc (SI KInt 3)). vm_compute. repeat split; reflexivity. Qed.
